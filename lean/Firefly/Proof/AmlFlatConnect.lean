import Firefly.Proof.AmlFlatFirst
/-!
C11, the flat fragment: `connectNamedObjArgs` on the pool the first pass built from a table of `Name(NAME, integer)`
declarations — every `Name` object gets its name and its integer.
-/
namespace Firefly.AmlParser.F
open Firefly.AmlLex Firefly.AmlTree Firefly.C13 Firefly.AmlParser Firefly.AmlParser.G Firefly.AmlParser.S
open Firefly.Gen.C12 Firefly.AmlProg

/-! ## links from child lists -/

theorem first_of_kids {t : ObjectTree} (w : WF t) {p a : Nat} {l : List Nat} (hl : live t p = true) (hk : K t p = a :: l) :
    Fi t p = a := by
  have hc := w.kids_chain hl
  rw [show (C13.abs t).kids p = a :: l from hk] at hc
  exact hc.1

theorem fi_of_nil {t : ObjectTree} (w : WF t) {p : Nat} (hl : live t p = true) (hk : K t p = []) : Fi t p = INV :=
  (kids_nil_iff w hl).1 hk

theorem la_of_nil {t : ObjectTree} (w : WF t) {p : Nat} (hl : live t p = true) (hk : K t p = []) : La t p = INV :=
  (w.lP hl).ends.1 (fi_of_nil w hl hk)

/-- along a sibling chain: the successor of an element is the next element of the list -/
theorem chain_nx {t : ObjectTree} : ∀ (pre : List Nat) (a y : Nat) (post : List Nat), Chain t (Nx t) a (pre ++ y :: post) →
    Nx t y = post.head?.getD INV ∧ live t y = true := by
  intro pre
  induction pre with
  | nil =>
    intro a y post hc
    obtain ⟨_, hy, hc'⟩ := hc
    refine ⟨?_, hy⟩
    cases post with
    | nil => exact hc'
    | cons z zs => exact hc'.1
  | cons b pre ih =>
    intro a y post hc
    obtain ⟨_, _, hc'⟩ := hc
    exact ih _ y post hc'

/-- along a sibling chain: the predecessor of an element is the previous element of the list -/
theorem chain_pv {t : ObjectTree} (w : WF t) : ∀ (pre : List Nat) (a y : Nat) (post : List Nat), pre ≠ [] →
    Chain t (Nx t) a (pre ++ y :: post) → Pv t y = pre.getLast?.getD INV := by
  intro pre
  induction pre with
  | nil => intro _ _ _ h; exact absurd rfl h
  | cons b pre ih =>
    intro a y post _ hc
    obtain ⟨_, hb, hc'⟩ := hc
    cases pre with
    | nil =>
      obtain ⟨hy, hyl, _⟩ := hc'
      have hne : Nx t b ≠ INV := by rw [hy]; exact live_ne_INV w.size_le hyl
      have := ((w.localP hb).2.2.1 hne).1
      rw [hy] at this
      simpa using this
    | cons b' pre' =>
      have := ih (Nx t b) y post (by simp) hc'
      simpa using this

theorem nx_of_kids {t : ObjectTree} (w : WF t) {p : Nat} (hl : live t p = true) {pre post : List Nat} {y : Nat}
    (hk : K t p = pre ++ y :: post) : Nx t y = post.head?.getD INV := by
  have hc := w.kids_chain hl
  rw [show (C13.abs t).kids p = pre ++ y :: post from hk] at hc
  exact (chain_nx pre _ y post hc).1

theorem pv_of_kids {t : ObjectTree} (w : WF t) {p : Nat} (hl : live t p = true) {pre post : List Nat} {y : Nat}
    (hk : K t p = pre ++ y :: post) : Pv t y = pre.getLast?.getD INV := by
  have hc := w.kids_chain hl
  rw [show (C13.abs t).kids p = pre ++ y :: post from hk] at hc
  cases pre with
  | nil =>
    obtain ⟨hf, hyl, _⟩ := hc
    have hne : Fi t p ≠ INV := by rw [hf]; exact live_ne_INV w.size_le hyl
    have := ((w.localP hl).2.2.2.2.2.1 hne).2
    rw [hf] at this
    simpa using this
  | cons b pre => exact chain_pv w (b :: pre) _ y post (by simp) hc

theorem la_of_kids {t : ObjectTree} (w : WF t) {p : Nat} (hl : live t p = true) {pre : List Nat} {y : Nat}
    (hk : K t p = pre ++ [y]) : La t p = y := by
  have hy := (w.kids_mem p hl y).1 (by rw [show (C13.abs t).kids p = pre ++ [y] from hk]; simp)
  have hnx := nx_of_kids w hl hk
  exact la_of_last w hy.1 hy.2 (live_ne_INV w.size_le hl) (by simpa using hnx)

theorem K_mem {t : ObjectTree} (w : WF t) {p : Nat} (hl : live t p = true) (k : Nat) :
    k ∈ K t p ↔ (live t k = true ∧ C13.P t k = p) := w.kids_mem p hl k

/-! ## tree operations on child lists -/

theorem detach_k {t : ObjectTree} (w : WF t) {p a : Nat} (hp : live t p = true) (ha : live t a = true) (hpa : C13.P t a = p) :
    ∃ t', t.detach p a = .ok t' ∧ WF t' ∧ SamePay t t' ∧ (∀ x, live t' x = live t x) ∧
      (∀ x, C13.P t' x = if x = a then INV else C13.P t x) ∧
      (∀ q, live t q = true → K t' q = if q = p then (K t p).erase a else K t q) := by
  have hpre : detachPre t p a = true := by simp [detachPre, hp, ha, hpa]
  obtain ⟨t', e, w', _, _, hk⟩ := detach_abs w hpre
  obtain ⟨t'', e'', _, _, hl, _, hP, _⟩ := detach_wf w hpre
  rw [e] at e''
  cases e''
  exact ⟨t', e, w', detach_samePay e, hl, hP, hk⟩

theorem append_k {t : ObjectTree} (w : WF t) {p a : Nat} (hp : live t p = true) (ha : live t a = true) (hpa : C13.P t a = INV)
    (hna : C13.isAncestorOrSelf t a t.fuel p = false) :
    ∃ t', t.append p a = .ok t' ∧ WF t' ∧ SamePay t t' ∧ (∀ x, live t' x = live t x) ∧
      (∀ x, C13.P t' x = if x = a then p else C13.P t x) ∧
      (∀ q, live t q = true → K t' q = if q = p then K t p ++ [a] else K t q) := by
  have hpre : appendPre t p a = true := by simp [appendPre, hp, ha, hpa, hna]
  obtain ⟨t', e, w', _, _, hk⟩ := append_abs w hpre
  obtain ⟨t'', e'', _, _, hl, _, hP, _⟩ := append_wf w hpre
  rw [e] at e''
  cases e''
  exact ⟨t', e, w', append_samePay e, hl, hP, hk⟩

/-- a child of the root is not inside the subtree of a detached object -/
theorem not_anc_child {t : ObjectTree} (w : WF t) {a x : Nat} (hxa : x ≠ a) (h0a : (0 : Nat) ≠ a) (hpx : C13.P t x = 0)
    (hp0 : C13.P t 0 = INV) : C13.isAncestorOrSelf t a t.fuel x = false := by
  have hf : t.fuel = (t.pool.size - 1) + 1 + 1 ∨ t.fuel = 1 := by unfold ObjectTree.fuel; omega
  rcases hf with hf | hf
  · rw [hf]
    simp [C13.isAncestorOrSelf, hxa, hpx, h0a, hp0]
  · rw [hf]
    simp [C13.isAncestorOrSelf, hxa]

/-! ## evaluation of the primitives -/

theorem tableHandle_ex (s : PState) : tableHandle s = .ok (s.tableHandle, s) := rfl
theorem getTree_ex (s : PState) : getTree s = .ok (s.tree, s) := rfl

theorem numArgs_kids {s : PState} (w : WF s.tree) {x : Nat} (hl : live s.tree x = true) :
    numArgs x s = .ok ((K s.tree x).length, s) := by
  have hc := w.kids_chain hl
  obtain ⟨l, hc', _, hlen⟩ := w.args_eq hl
  have hkl : K s.tree x = l := chain_det (Nx s.tree) w.size_le _ _ _ hc hc'
  have := countLoop_eq w.size_le l s.tree.fuel (Fi s.tree x) 0 hc' (by simp [ObjectTree.fuel]; omega)
  unfold numArgs
  refine bind_ex' (getTree_ex s) ?_
  unfold liftR
  simp only [ObjectTree.NumArgs, obj_eq (live_lt hl), bind, Except.bind]
  simp only [Fi] at this
  rw [this, hkl]
  simp
  rfl

theorem prevOf_ex {s : PState} {x : Nat} (hl : live s.tree x = true) : prevOf x s = .ok (Pv s.tree x, s) := by
  unfold prevOf
  exact bind_ex' (getObj_live hl) rfl

theorem nextOf_ex {s : PState} {x : Nat} (hl : live s.tree x = true) : nextOf x s = .ok (Nx s.tree x, s) := by
  unfold nextOf
  exact bind_ex' (getObj_live hl) rfl

/-! ## `connectNamedObjArgs` on leaves and on one iteration -/

theorem inv_eq : (INV : Nat) = invalidIndex := rfl

/-- a childless object: nothing to connect below it -/
theorem cn_leaf (d : Bytes) (f : Nat) {s : PState} (w : WF s.tree) {y : Nat} (hl : live s.tree y = true) (hk : K s.tree y = []) :
    connectNamedObjArgs d (f + 2) y s = .ok (PRes.ok, s) := by
  rw [connectNamedObjArgs]
  refine bind_ex' (objectAt_live' hl) (bind_ex' (derefP_some_ex _) (bind_ex' (getObj_live hl) ?_))
  show connectNamedLoop d (f + 1) y (La s.tree y) s = _
  rw [la_of_nil w hl hk, connectNamedLoop, if_pos inv_eq]
  rfl

/-- a childless object is skipped by the loop body -/
theorem cn_step_leaf (d : Bytes) {s : PState} {obj y : Nat} (hl : live s.tree y = true)
    (hi : InfoOK (slot s.tree y).infoIndex) (hfi : Fi s.tree y = INV) :
    connectNamedStep d obj y s = .ok (.inr (), s) := by
  obtain ⟨fl, hfl⟩ := opFlags_of_info hi
  unfold connectNamedStep
  refine bind_ex' (getObj_live hl) ?_
  rw [hfl]
  refine bind_ex' (optP_ex fl s) (bind_ex' (tableHandle_ex s) ?_)
  have : (slot s.tree y).firstArgIndex = invalidIndex := hfi
  rw [if_pos (Or.inr (Or.inr (Or.inl this)))]
  rfl

/-- one iteration of the reverse loop: the recursion finds nothing to do, the body goes on -/
theorem cn_iter (d : Bytes) (f : Nat) {s s' : PState} {obj y : Nat} (w : WF s.tree) (hl : live s.tree y = true)
    (hl' : live s'.tree y = true) (hrec : connectNamedObjArgs d f y s = .ok (PRes.ok, s))
    (hstep : connectNamedStep d obj y s = .ok (.inr (), s')) :
    connectNamedLoop d (f + 1) obj y s = connectNamedLoop d f obj (Pv s'.tree y) s' := by
  conv => lhs; rw [connectNamedLoop]
  have hy : y ≠ invalidIndex := live_ne_INV w.size_le hl
  rw [if_neg hy]
  rw [bind_run (objectAt_live' hl), bind_run (derefP_some_ex _), bind_run (getObj_live hl)]
  rw [w.index_eq y (live_lt hl), bind_run hrec]
  rw [if_neg (by decide), bind_run hstep]
  show (prevOf y >>= fun a => connectNamedLoop d f obj a) s' = _
  rw [bind_run (prevOf_ex hl')]

/-! ## the table rows of the opcodes of the fragment -/

/-- named? executable? deferred? number of arguments, argument types -/
def rowSummary (op : Nat) : Option (Bool × Bool × Bool × Nat × List Nat) :=
  let i := pOpcodeTableIndex op true
  match opFlags i, opArgCount i with
  | some fl, some ac => some (hasFlag fl flagNamed, hasFlag fl flagExecutable, hasFlag fl flagDeferParsing, ac,
      (List.range ac).map (fun k => (opArg i k).getD 0))
  | _, _ => none

theorem rowSummary_spec {op : Nat} {nm ex df : Bool} {ac : Nat} {args : List Nat}
    (h : rowSummary op = some (nm, ex, df, ac, args)) :
    ∃ fl, opFlags (pOpcodeTableIndex op true) = some fl ∧ hasFlag fl flagNamed = nm ∧ hasFlag fl flagExecutable = ex ∧
      hasFlag fl flagDeferParsing = df ∧ opArgCount (pOpcodeTableIndex op true) = some ac ∧
      InfoOK (pOpcodeTableIndex op true) ∧ argCnt (pOpcodeTableIndex op true) = ac ∧
      ∀ k, k < ac → argAt (pOpcodeTableIndex op true) k = args.getD k 0 := by
  unfold rowSummary at h
  cases hf : opFlags (pOpcodeTableIndex op true) with
  | none => simp [hf] at h
  | some fl =>
    cases ha : opArgCount (pOpcodeTableIndex op true) with
    | none => simp [hf, ha] at h
    | some ac' =>
      simp only [hf, ha, Option.some.injEq, Prod.mk.injEq] at h
      obtain ⟨h1, h2, h3, h4, h5⟩ := h
      subst h4
      refine ⟨fl, rfl, h1, h2, h3, rfl, by unfold InfoOK; rw [hf]; rfl, by unfold argCnt; rw [ha]; rfl, ?_⟩
      intro k hk
      rw [← h5]
      unfold argAt
      simp [hk]

set_option maxRecDepth 20000 in
theorem row_8 : rowSummary 8 = some (true, false, false, 2, [9, 12]) := by decide +kernel
set_option maxRecDepth 20000 in
theorem row_502 : rowSummary 502 = some (true, false, false, 1, [1]) := by decide +kernel
set_option maxRecDepth 20000 in
theorem row_507 : rowSummary 507 = some (false, false, false, 0, []) := by decide +kernel
set_option maxRecDepth 20000 in
theorem row_0 : rowSummary 0 = some (false, false, false, 0, []) := by decide +kernel
set_option maxRecDepth 20000 in
theorem row_1 : rowSummary 1 = some (false, false, false, 0, []) := by decide +kernel
set_option maxRecDepth 20000 in
theorem row_255 : rowSummary 255 = some (false, false, false, 0, []) := by decide +kernel
set_option maxRecDepth 20000 in
theorem row_10 : rowSummary 10 = some (false, false, false, 1, [5]) := by decide +kernel
set_option maxRecDepth 20000 in
theorem row_11 : rowSummary 11 = some (false, false, false, 1, [6]) := by decide +kernel
set_option maxRecDepth 20000 in
theorem row_12 : rowSummary 12 = some (false, false, false, 1, [7]) := by decide +kernel
set_option maxRecDepth 20000 in
theorem row_14 : rowSummary 14 = some (false, false, false, 1, [8]) := by decide +kernel

/-- the opcodes of the integer objects -/
theorem constOp_cases (w v : Nat) : constOp w v = 0 ∨ constOp w v = 1 ∨ constOp w v = 255 ∨ constOp w v = 10 ∨
    constOp w v = 11 ∨ constOp w v = 12 ∨ constOp w v = 14 := by
  unfold constOp
  repeat' split
  all_goals simp

theorem one_arg (a : Nat) (h1 : a ≠ argTypeTermArg) (h2 : a ≠ argTypeDataRefObj) :
    ∀ k, k < 1 → [a].getD k 0 ≠ argTypeTermArg ∧ [a].getD k 0 ≠ argTypeDataRefObj := by
  intro k hk
  have : k = 0 := by omega
  subst this
  exact ⟨h1, h2⟩

/-- the row of an integer object: not named, not executable, not deferred, no term argument -/
theorem const_row (w v : Nat) : ∃ fl ac, opFlags (pOpcodeTableIndex (constOp w v) true) = some fl ∧ hasFlag fl flagNamed = false ∧
    hasFlag fl flagExecutable = false ∧ hasFlag fl flagDeferParsing = false ∧
    opArgCount (pOpcodeTableIndex (constOp w v) true) = some ac ∧ InfoOK (pOpcodeTableIndex (constOp w v) true) ∧
    argCnt (pOpcodeTableIndex (constOp w v) true) = ac ∧
    ∀ k, k < ac → argAt (pOpcodeTableIndex (constOp w v) true) k ≠ argTypeTermArg ∧
      argAt (pOpcodeTableIndex (constOp w v) true) k ≠ argTypeDataRefObj := by
  have fin : ∀ {op ac args}, rowSummary op = some (false, false, false, ac, args) →
      (∀ k, k < ac → args.getD k 0 ≠ argTypeTermArg ∧ args.getD k 0 ≠ argTypeDataRefObj) →
      ∃ fl ac, opFlags (pOpcodeTableIndex op true) = some fl ∧ hasFlag fl flagNamed = false ∧
        hasFlag fl flagExecutable = false ∧ hasFlag fl flagDeferParsing = false ∧
        opArgCount (pOpcodeTableIndex op true) = some ac ∧ InfoOK (pOpcodeTableIndex op true) ∧
        argCnt (pOpcodeTableIndex op true) = ac ∧
        ∀ k, k < ac → argAt (pOpcodeTableIndex op true) k ≠ argTypeTermArg ∧ argAt (pOpcodeTableIndex op true) k ≠ argTypeDataRefObj := by
    intro op ac args h hno
    obtain ⟨fl, a1, a2, a3, a4, a5, a6, a7, a8⟩ := rowSummary_spec h
    exact ⟨fl, ac, a1, a2, a3, a4, a5, a6, a7, fun k hk => by rw [a8 k hk]; exact hno k hk⟩
  rcases constOp_cases w v with e | e | e | e | e | e | e <;> rw [e]
  · exact fin row_0 (fun k hk => by omega)
  · exact fin row_1 (fun k hk => by omega)
  · exact fin row_255 (fun k hk => by omega)
  · exact fin row_10 (one_arg 5 (by decide) (by decide))
  · exact fin row_11 (one_arg 6 (by decide) (by decide))
  · exact fin row_12 (one_arg 7 (by decide) (by decide))
  · exact fin row_14 (one_arg 8 (by decide) (by decide))

/-! ## the pools of the fragment -/

/-- one segment, no prefix -/
def Decl.Simple (q : Decl) : Prop := q.root = false ∧ q.carets = 0 ∧ ∃ sg, q.segs = [sg] ∧ sg.length = 4

/-- the segment of a simple name -/
def Item.seg (it : Item) : List UInt8 := it.q.segs.headD []

theorem simple_enc {q : Decl} (h : q.Simple) : encName q.root q.carets q.segs = q.segs.headD [] ∧ (q.segs.headD []).length = 4 ∧
    q.segs ≠ [] := by
  obtain ⟨h1, h2, sg, h3, h4⟩ := h
  rw [h1, h2, h3]
  exact ⟨by simp [encName], h4, by simp⟩

/-- the pool the table is loaded into: the root is a parentless scope block whose children are childless scope blocks
(the default scopes) -/
structure Base (t0 : ObjectTree) : Prop where
  wf : WF t0
  root : live t0 0 = true
  rootp : C13.P t0 0 = INV
  rootop : (slot t0 0).opcode = opIntScopeBlock
  rootinf : (slot t0 0).infoIndex = pOpcodeTableIndex opIntScopeBlock true
  kid : ∀ y ∈ K t0 0, K t0 y = [] ∧ (slot t0 y).opcode = opIntScopeBlock ∧
    (slot t0 y).infoIndex = pOpcodeTableIndex opIntScopeBlock true

/-- the three objects of `Name(NAME, integer)`; `done`: after `connectNamedObjArgs` (the integer is the second argument of
the `Name` object, which carries its name) -/
structure ItemT (d : Bytes) (t : ObjectTree) (h : Nat) (it : Item) (done : Bool) : Prop where
  lx : live t it.x = true
  lc : live t it.c = true
  lk : live t it.k = true
  opx : (slot t it.x).opcode = 8
  infx : (slot t it.x).infoIndex = pOpcodeTableIndex 8 true
  thx : (slot t it.x).tableHandle = h
  opc : (slot t it.c).opcode = opIntNamePath
  infc : (slot t it.c).infoIndex = pOpcodeTableIndex opIntNamePath true
  thc : (slot t it.c).tableHandle = h
  valc : (slot t it.c).value = .bytes it.off 4
  opk : (slot t it.k).opcode = constOp it.q.w it.q.v
  infk : (slot t it.k).infoIndex = pOpcodeTableIndex (constOp it.q.w it.q.v) true
  thk : (slot t it.k).tableHandle = h
  int : IntObj t it.k (intVal it.q.w it.q.v)
  kx : K t it.x = if done then [it.c, it.k] else [it.c]
  kc : K t it.c = []
  kk : K t it.k = []
  px : C13.P t it.x = 0
  pc : C13.P t it.c = it.x
  pk : C13.P t it.k = if done then it.x else 0
  nm : done = true → (slot t it.x).name = Name.ofList it.seg
  bytes : BytesAt d it.off it.seg
  seg4 : it.seg.length = 4

/-- the objects of an item keep their place and payload -/
theorem ItemT.frame {d : Bytes} {t t' : ObjectTree} {h : Nat} {it : Item} {b : Bool} (io : ItemT d t h it b)
    (hf : ∀ y, y = it.x ∨ y = it.c ∨ y = it.k → live t' y = live t y ∧ Pay (slot t' y) = Pay (slot t y) ∧
      C13.P t' y = C13.P t y ∧ K t' y = K t y) : ItemT d t' h it b := by
  obtain ⟨x1, x2, x3, x4⟩ := hf it.x (Or.inl rfl)
  obtain ⟨c1, c2, c3, c4⟩ := hf it.c (Or.inr (Or.inl rfl))
  obtain ⟨k1, k2, k3, k4⟩ := hf it.k (Or.inr (Or.inr rfl))
  exact ⟨by rw [x1]; exact io.lx, by rw [c1]; exact io.lc, by rw [k1]; exact io.lk,
    by rw [pay_opcode x2]; exact io.opx, by rw [pay_info x2]; exact io.infx, by rw [pay_handle x2]; exact io.thx,
    by rw [pay_opcode c2]; exact io.opc, by rw [pay_info c2]; exact io.infc, by rw [pay_handle c2]; exact io.thc,
    by rw [pay_value c2]; exact io.valc,
    by rw [pay_opcode k2]; exact io.opk, by rw [pay_info k2]; exact io.infk, by rw [pay_handle k2]; exact io.thk,
    io.int.of_pay k2, by rw [x4]; exact io.kx, by rw [c4]; exact io.kc, by rw [k4]; exact io.kk,
    by rw [x3]; exact io.px, by rw [c3]; exact io.pc, by rw [k3]; exact io.pk,
    fun hd => by rw [pay_name x2]; exact io.nm hd, io.bytes, io.seg4⟩

/-- the pool while `connectNamedObjArgs` walks the root's children backwards: the declarations `pre` are still as the first
pass left them, the declarations `post` are connected -/
structure Flat (d : Bytes) (t0 t : ObjectTree) (h : Nat) (pre post : List Item) : Prop where
  wf : WF t
  ktop : K t 0 = K t0 0 ++ pre.flatMap (fun it => [it.x, it.k]) ++ post.map (·.x)
  old : ∀ y, live t0 y = true → live t y = true ∧ Pay (slot t y) = Pay (slot t0 y) ∧ C13.P t y = C13.P t0 y ∧
    (y ≠ 0 → K t y = K t0 y)
  new : ∀ it ∈ pre ++ post, live t0 it.x = false ∧ live t0 it.c = false ∧ live t0 it.k = false
  undone : ∀ it ∈ pre, ItemT d t h it false
  done : ∀ it ∈ post, ItemT d t h it true
  nodup : ((pre ++ post).flatMap (fun it => [it.x, it.c, it.k])).Nodup

/-- what the first pass built is such a pool, nothing connected yet -/
theorem Flat.ofAcc {d : Bytes} {s0 s : PState} {its : List Item} (acc : Acc d s0 s 0 its) (hs : ∀ it ∈ its, it.q.Simple) :
    Flat d s0.tree s.tree s0.tableHandle its [] := by
  refine ⟨acc.fp.tree.wf, by rw [acc.ktop]; simp, fun y hy => ⟨acc.oldl y hy, acc.oldpay y hy, acc.oldpar y hy, acc.oldk y hy⟩,
    ?_, ?_, fun _ hm => (by cases hm), by simpa using acc.nodup⟩
  · intro it hit
    have io := acc.items it (by simpa using hit)
    exact ⟨io.nx, io.nc, io.nk⟩
  · intro it hit
    have io := acc.items it hit
    obtain ⟨e1, e2, e3⟩ := simple_enc (hs it hit)
    have hlen : it.len = 4 := by unfold Item.len; rw [e1, e2, if_neg e3]
    exact ⟨io.lx, io.lc, io.lk, io.opx, io.infx, io.thx, io.opc, io.infc, io.thc, by rw [io.valc, hlen], io.opk, io.infk, io.thk,
      io.int, io.kx, io.kc, io.kk, io.px, io.pc, io.pk, fun hd => (by cases hd), (by have hb := io.bytes; rw [e1] at hb; exact hb), e2⟩

/-- the bytes the table holds at `off` are what a `[]byte` value over them reads -/
theorem sliceBytes_of_bytesAt {d : Bytes} {off : Nat} {l : List UInt8} (h : BytesAt d off l) : sliceBytes d off l.length = l := by
  unfold sliceBytes
  apply List.ext_getElem?
  intro i
  rw [Array.getElem?_toList, Array.getElem?_extract]
  by_cases hi : i < l.length
  · have hb := h i hi
    have hlt : off + i < d.size := by
      rcases Nat.lt_or_ge (off + i) d.size with h1 | h1
      · exact h1
      · exfalso
        rw [Array.getElem?_eq_none h1, List.getElem?_eq_getElem hi] at hb
        cases hb
    rw [if_pos (by omega), hb]
  · rw [if_neg (by omega), List.getElem?_eq_none (by omega)]

/-- `detach(0, k); append(x, k)`: the sibling `k` of `x` becomes the last argument of `x` -/
theorem move_under {t : ObjectTree} (w : WF t) {x k : Nat} (h0 : live t 0 = true) (hx : live t x = true) (hk : live t k = true)
    (hpk : C13.P t k = 0) (hpx : C13.P t x = 0) (hp0 : C13.P t 0 = INV) (hxk : x ≠ k) :
    ∃ t2 t3, t.detach 0 k = .ok t2 ∧ t2.append x k = .ok t3 ∧ WF t3 ∧ SamePay t t3 ∧ (∀ y, live t3 y = live t y) ∧
      (∀ y, C13.P t3 y = if y = k then x else C13.P t y) ∧
      (∀ q, live t q = true → K t3 q = if q = x then K t x ++ [k] else if q = 0 then (K t 0).erase k else K t q) := by
  have h0k : (0 : Nat) ≠ k := fun e => by rw [← e, hp0] at hpk; exact live_ne_INV w.size_le h0 hpk.symm
  have hx0 : x ≠ 0 := fun e => by rw [e, hp0] at hpx; exact live_ne_INV w.size_le h0 hpx.symm
  obtain ⟨t2, e2, w2, sp2, hl2, hP2, hK2⟩ := detach_k w h0 hk hpk
  have hx2 : live t2 x = true := by rw [hl2]; exact hx
  have hk2 : live t2 k = true := by rw [hl2]; exact hk
  have hpk2 : C13.P t2 k = INV := by rw [hP2, if_pos rfl]
  have hna : C13.isAncestorOrSelf t2 k t2.fuel x = false :=
    not_anc_child w2 hxk h0k (by rw [hP2, if_neg hxk]; exact hpx) (by rw [hP2, if_neg h0k]; exact hp0)
  obtain ⟨t3, e3, w3, sp3, hl3, hP3, hK3⟩ := append_k w2 hx2 hk2 hpk2 hna
  refine ⟨t2, t3, e2, e3, w3, sp2.trans sp3, fun y => by rw [hl3, hl2], ?_, ?_⟩
  · intro y
    rw [hP3]
    by_cases hy : y = k
    · rw [if_pos hy, if_pos hy]
    · rw [if_neg hy, if_neg hy, hP2, if_neg hy]
  · intro q hq
    have hq2 : live t2 q = true := by rw [hl2]; exact hq
    rw [hK3 q hq2]
    by_cases hqx : q = x
    · rw [if_pos hqx, if_pos hqx, hK2 x hx, if_neg hx0]
    · rw [if_neg hqx, if_neg hqx, hK2 q hq]

/-- the loop body on a `Name` object whose integer is its next sibling: the object gets its name, the integer becomes its
second argument -/
theorem cn_step_name (d : Bytes) {s : PState} {x c k off : Nat} {sg : List UInt8} (w : WF s.tree)
    (h0 : live s.tree 0 = true) (hx : live s.tree x = true) (hc : live s.tree c = true) (hk : live s.tree k = true)
    (hop : (slot s.tree x).opcode = 8) (hinf : (slot s.tree x).infoIndex = pOpcodeTableIndex 8 true)
    (hth : (slot s.tree x).tableHandle = s.tableHandle) (hkx : K s.tree x = [c])
    (hval : (slot s.tree c).value = .bytes off 4) (hb : BytesAt d off sg) (hsg : sg.length = 4)
    (hpx : C13.P s.tree x = 0) (hpk : C13.P s.tree k = 0) (hp0 : C13.P s.tree 0 = INV) (hnx : Nx s.tree x = k) (hxk : x ≠ k) :
    ∃ s', connectNamedStep d 0 x s = .ok (.inr (), s') ∧ s' = { s with tree := s'.tree } ∧ WF s'.tree ∧
      (∀ y, live s'.tree y = live s.tree y) ∧ (∀ y, C13.P s'.tree y = if y = k then x else C13.P s.tree y) ∧
      (∀ q, live s.tree q = true → K s'.tree q = if q = x then [c, k] else if q = 0 then (K s.tree 0).erase k else K s.tree q) ∧
      (∀ y, y ≠ x → Pay (slot s'.tree y) = Pay (slot s.tree y)) ∧
      Pay (slot s'.tree x) = Pay { slot s.tree x with name := Name.ofList sg } := by
  obtain ⟨fl, a1, a2, a3, a4, a5, a6, a7, a8⟩ := rowSummary_spec row_8
  unfold connectNamedStep
  rw [bind_run (getObj_live hx), hinf, a1, bind_run (optP_ex fl s), bind_run (tableHandle_ex s)]
  have hfi : Fi s.tree x = c := first_of_kids w hx hkx
  have hcond : ¬ ((!hasFlag fl flagNamed) = true ∨ (slot s.tree x).tableHandle ≠ s.tableHandle ∨
      (slot s.tree x).firstArgIndex = invalidIndex ∨ (slot s.tree x).opcode = opIntScopeBlock) := by
    rw [a2, hth, hop]
    intro hq
    rcases hq with hq | hq | hq | hq
    · cases hq
    · exact hq rfl
    · have : Fi s.tree x = INV := hq
      rw [hfi] at this
      exact live_ne_INV w.size_le hc this
    · revert hq; decide
  rw [if_neg hcond]
  have hfi' : (slot s.tree x).firstArgIndex = c := hfi
  rw [hfi', bind_run (objectAt_live' hc), bind_run (derefP_some_ex _), bind_run (getObj_live hc), hval]
  simp only [valBytes]
  rw [if_neg (by decide)]
  have hsl : sliceBytes d off 4 = sg := by rw [← hsg]; exact sliceBytes_of_bytesAt hb
  have hdrop : List.drop (4 - Gen.C12.amlNameLen) (sliceBytes d off 4) = sg := by rw [hsl]; rfl
  rw [hdrop]
  -- the name
  let f : AmlTree.Obj → AmlTree.Obj := fun o => { o with name := Name.ofList sg }
  have sl : SameLinks s.tree (setAt s.tree x f) := sameLinks_setAt s.tree x f (by keeps_links) Iff.rfl
  have w1 : WF (setAt s.tree x f) := wf_of_sameLinks w sl
  have e1 : updObj x f s = .ok ((), { s with tree := setAt s.tree x f }) := updObj_ex f (live_lt hx)
  rw [bind_run e1]
  generalize hs1 : ({ s with tree := setAt s.tree x f } : PState) = s1
  have ht1 : s1.tree = setAt s.tree x f := by rw [← hs1]
  have w1' : WF s1.tree := by rw [ht1]; exact w1
  have hl1 : ∀ y, live s1.tree y = live s.tree y := by intro y; rw [ht1]; exact sl.live y
  have hx1 : live s1.tree x = true := by rw [hl1]; exact hx
  have hk1 : live s1.tree k = true := by rw [hl1]; exact hk
  have hK1 : ∀ q, live s.tree q = true → K s1.tree q = K s.tree q := by
    intro q hq; rw [ht1]; exact kids_sameLinks w sl hq
  rw [a5, bind_run (optP_ex 2 s1)]
  have eft : firstTermArg (pOpcodeTableIndex 8 true) 2 0 2 s1 = .ok (1, s1) := by
    rw [firstTermArg, if_pos (by decide), opArg_of_info a6 0, a8 0 (by decide), bind_run (optP_ex _ s1)]
    rw [if_neg (by decide)]
    rw [firstTermArg, if_pos (by decide), opArg_of_info a6 1, a8 1 (by decide), bind_run (optP_ex _ s1)]
    rw [if_pos (by decide)]
    rfl
  rw [bind_run eft, bind_run (numArgs_kids w1' hx1), hK1 x hx, hkx]
  rw [if_neg (show ¬ (([c] : List Nat).length = 2 ∨ 1 ≥ 2) by simp)]
  have hnx1 : Nx s1.tree x = k := by rw [ht1, sl.nx]; exact hnx
  rw [bind_run (nextOf_ex hx1), hnx1]
  -- the integer moves under the `Name` object
  obtain ⟨t2, t3, e2, e3, w3, sp3, hl3, hP3, hK3⟩ := move_under w1' (by rw [hl1]; exact h0) hx1 hk1
    (by rw [ht1, sl.p]; exact hpk) (by rw [ht1, sl.p]; exact hpx) (by rw [ht1, sl.p]; exact hp0) hxk
  have hkne : k ≠ invalidIndex := live_ne_INV w.size_le hk
  have eat : attachSiblingsAsArgs 0 x false (2 - 1) k s1 = .ok (PRes.ok, { s1 with tree := t3 }) := by
    show attachSiblingsAsArgs 0 x false (0 + 1) k s1 = _
    rw [attachSiblingsAsArgs]
    rw [if_neg (by intro hq; exact absurd hq.2 (by decide))]
    rw [bind_run (show (pure k : P Nat) s1 = .ok (k, s1) from rfl)]
    dsimp only
    rw [if_neg hkne, bind_run (objectAt_live' hk1), bind_run (derefP_some_ex _), bind_run (getObj_live hk1)]
    have hpk1 : (slot s1.tree k).parentIndex = 0 := by
      show C13.P s1.tree k = 0
      rw [ht1, sl.p]; exact hpk
    rw [hpk1, bind_run (objectAt_live' (show live s1.tree 0 = true by rw [hl1]; exact h0)), bind_run (derefP_some_ex _)]
    rw [bind_run (tree_ex e2), bind_run (tree_ex (s := { s1 with tree := t2 }) e3)]
    rfl
  rw [bind_run eat]
  rw [if_neg (by decide)]
  refine ⟨{ s1 with tree := t3 }, rfl, by rw [← hs1], w3, fun y => by rw [← hl1]; exact hl3 y, ?_, ?_, ?_, ?_⟩
  · intro y
    show C13.P t3 y = _
    rw [hP3, ht1, sl.p]
  · intro q hq
    show K t3 q = _
    rw [hK3 q (by rw [hl1]; exact hq), hK1 x hx, hkx, hK1 0 h0, hK1 q hq]
    rfl
  · intro y hy
    show Pay (slot t3 y) = _
    rw [sp3.pay y, ht1, slot_setAt', if_neg (fun hq => hy hq.1.symm)]
  · show Pay (slot t3 x) = _
    rw [sp3.pay x, ht1, slot_setAt', if_pos ⟨rfl, live_lt hx⟩]

/-- an unconnected `Name` object: nothing to connect below it (its name path is childless) -/
theorem cn_x (d : Bytes) (f : Nat) {s : PState} (w : WF s.tree) {x c : Nat} (hx : live s.tree x = true) (hc : live s.tree c = true)
    (hkx : K s.tree x = [c]) (hkc : K s.tree c = []) (hic : InfoOK (slot s.tree c).infoIndex) :
    connectNamedObjArgs d (f + 4) x s = .ok (PRes.ok, s) := by
  rw [connectNamedObjArgs]
  refine bind_ex' (objectAt_live' hx) (bind_ex' (derefP_some_ex _) (bind_ex' (getObj_live hx) ?_))
  show connectNamedLoop d (f + 3) x (La s.tree x) s = _
  rw [la_of_kids w hx (pre := []) hkx]
  rw [cn_iter d (f + 2) w hc hc (cn_leaf d f w hc hkc) (cn_step_leaf d hc hic (fi_of_nil w hc hkc))]
  have : Pv s.tree c = INV := by
    have := pv_of_kids w hx (pre := []) (post := []) hkx
    simpa using this
  rw [this, connectNamedLoop, if_pos inv_eq]
  rfl

theorem list_snoc_cases {α : Type} (l : List α) : l = [] ∨ ∃ l' a, l = l' ++ [a] := by
  induction l with
  | nil => exact Or.inl rfl
  | cons x xs ih =>
    rcases ih with e | ⟨l', a, e⟩
    · exact Or.inr ⟨[], x, by rw [e]; rfl⟩
    · exact Or.inr ⟨x :: l', a, by rw [e]; rfl⟩

/-- the last element of a sibling list, or the sentinel -/
def lastOf (l : List Nat) : Nat := l.getLast?.getD INV

theorem lastOf_snoc (l : List Nat) (a : Nat) : lastOf (l ++ [a]) = a := by simp [lastOf]

/-- the reverse loop over childless children: nothing happens -/
theorem cn_leaves (d : Bytes) {s : PState} (w : WF s.tree) (h0 : live s.tree 0 = true) :
    ∀ (n : Nat) (l rest : List Nat) (f : Nat), l.length = n → K s.tree 0 = l ++ rest →
      (∀ y ∈ l, K s.tree y = [] ∧ InfoOK (slot s.tree y).infoIndex) → n + 3 ≤ f →
      connectNamedLoop d f 0 (lastOf l) s = .ok (PRes.ok, s) := by
  intro n
  induction n with
  | zero =>
    intro l rest f hn _ _ hf
    have : l = [] := List.eq_nil_of_length_eq_zero hn
    subst this
    obtain ⟨f', rfl⟩ : ∃ f', f = f' + 1 := ⟨f - 1, by omega⟩
    rw [show lastOf [] = INV from rfl, connectNamedLoop, if_pos inv_eq]
    rfl
  | succ n ih =>
    intro l rest f hn hk hl hf
    rcases list_snoc_cases l with e | ⟨l', y, e⟩
    · rw [e] at hn; cases hn
    · subst e
      obtain ⟨f', rfl⟩ : ∃ f', f = f' + 3 := ⟨f - 3, by omega⟩
      have hy := hl y (by simp)
      have hyl : live s.tree y = true := ((K_mem w h0 y).1 (by rw [hk]; simp)).1
      rw [lastOf_snoc]
      rw [cn_iter d (f' + 2) w hyl hyl (cn_leaf d f' w hyl hy.1) (cn_step_leaf d hyl hy.2 (fi_of_nil w hyl hy.1))]
      have hpv : Pv s.tree y = lastOf l' := pv_of_kids w h0 (pre := l') (post := rest) (by rw [hk]; simp)
      rw [hpv]
      exact ih l' (y :: rest) (f' + 2) (by simpa using hn) (by rw [hk]; simp) (fun z hz => hl z (by simp [hz])) (by omega)

theorem Flat.root {d : Bytes} {t0 t : ObjectTree} {h : Nat} {pre post : List Item} (fl : Flat d t0 t h pre post) (b : Base t0) :
    live t 0 = true ∧ C13.P t 0 = INV := by
  obtain ⟨a1, _, a3, _⟩ := fl.old 0 b.root
  exact ⟨a1, by rw [a3]; exact b.rootp⟩

/-- the objects of the fragment are not objects of the old pool -/
theorem Flat.notOld {d : Bytes} {t0 t : ObjectTree} {h : Nat} {pre post : List Item} (fl : Flat d t0 t h pre post) {it : Item}
    (hit : it ∈ pre ++ post) {y z : Nat} (hy : y = it.x ∨ y = it.c ∨ y = it.k) (hz : live t0 z = true) : y ≠ z := by
  obtain ⟨n1, n2, n3⟩ := fl.new it hit
  intro e
  rcases hy with hy | hy | hy <;> rw [hy] at e <;> rw [← e] at hz
  · rw [n1] at hz; cases hz
  · rw [n2] at hz; cases hz
  · rw [n3] at hz; cases hz

/-- **one declaration**: the loop passes the integer, reaches the `Name` object, and connects them -/
theorem cn_item (d : Bytes) {t0 : ObjectTree} (b : Base t0) {s : PState} {h : Nat} {pre post : List Item} {it : Item}
    (fl : Flat d t0 s.tree h (pre ++ [it]) post) (hth : s.tableHandle = h) (f : Nat) :
    ∃ s', connectNamedLoop d (f + 6) 0 it.k s =
        connectNamedLoop d (f + 4) 0 (lastOf (K t0 0 ++ pre.flatMap (fun it => [it.x, it.k]))) s' ∧
      Flat d t0 s'.tree h pre (it :: post) ∧ s'.tableHandle = h := by
  have w := fl.wf
  obtain ⟨h0, hp0⟩ := fl.root b
  have hmem : it ∈ (pre ++ [it]) ++ post := by simp
  have io := fl.undone it (by simp)
  have hkx : K s.tree it.x = [it.c] := io.kx
  have hpk : C13.P s.tree it.k = 0 := io.pk
  -- distinctness
  have hnd := fl.nodup
  rw [List.flatMap_append, List.flatMap_append, List.nodup_append, List.nodup_append] at hnd
  obtain ⟨⟨_, hnd1, hd1⟩, _, hd2⟩ := hnd
  simp only [List.flatMap_cons, List.flatMap_nil, List.append_nil] at hnd1 hd1 hd2
  have hxc : it.x ≠ it.c := by intro e; rw [e] at hnd1; simp at hnd1
  have hxk : it.x ≠ it.k := by intro e; rw [e] at hnd1; simp at hnd1
  have hx0 : it.x ≠ 0 := fl.notOld hmem (Or.inl rfl) b.root
  have hk0 : it.k ≠ 0 := fl.notOld hmem (Or.inr (Or.inr rfl)) b.root
  have hc0 : it.c ≠ 0 := fl.notOld hmem (Or.inr (Or.inl rfl)) b.root
  -- the child list of the root
  have hK0 : K s.tree 0 = (K t0 0 ++ pre.flatMap (fun it => [it.x, it.k]) ++ [it.x]) ++ it.k :: post.map (·.x) := by
    rw [fl.ktop]; simp [List.flatMap_append]
  have hK0' : K s.tree 0 = (K t0 0 ++ pre.flatMap (fun it => [it.x, it.k])) ++ it.x :: (it.k :: post.map (·.x)) := by
    rw [hK0]; simp
  have hpvk : Pv s.tree it.k = it.x := by
    have := pv_of_kids w h0 hK0
    rw [this]; simp
  have hnxx : Nx s.tree it.x = it.k := by
    have := nx_of_kids w h0 hK0'
    rw [this]; rfl
  -- the integer is passed
  have hik : InfoOK (slot s.tree it.k).infoIndex := by
    rw [io.infk]
    obtain ⟨_, _, _, _, _, _, _, hi, _⟩ := const_row it.q.w it.q.v
    exact hi
  have hic : InfoOK (slot s.tree it.c).infoIndex := by
    rw [io.infc]; exact (rowSummary_spec row_507).choose_spec.2.2.2.2.2.1
  have e1 := cn_iter d (f + 5) (obj := 0) w io.lk io.lk (cn_leaf d (f + 3) w io.lk io.kk)
    (cn_step_leaf d io.lk hik (fi_of_nil w io.lk io.kk))
  rw [hpvk] at e1
  -- the `Name` object
  obtain ⟨s', e2, hs', w', hl', hP', hK', hpay', hpayx⟩ := cn_step_name d w h0 io.lx io.lc io.lk io.opx io.infx
    (by rw [io.thx, hth]) hkx io.valc io.bytes io.seg4 io.px hpk hp0 hnxx hxk
  have hx' : live s'.tree it.x = true := by rw [hl']; exact io.lx
  have e3 := cn_iter d (f + 4) (obj := 0) w io.lx hx' (cn_x d f w io.lx io.lc hkx io.kc hic) e2
  -- the new child list of the root
  have hnodup : (K s.tree 0).Nodup := w.chain_nodup _ _ (w.kids_chain h0)
  have hknot : it.k ∉ K t0 0 ++ pre.flatMap (fun it => [it.x, it.k]) ++ [it.x] := by
    have hn := hnodup
    rw [hK0, List.nodup_append] at hn
    intro hm
    exact hn.2.2 _ hm _ (List.mem_cons_self ..) rfl
  have hK0n : K s'.tree 0 = (K t0 0 ++ pre.flatMap (fun it => [it.x, it.k])) ++ it.x :: post.map (·.x) := by
    rw [hK' 0 h0, if_neg (fun e => hx0 e.symm), if_pos rfl, hK0, List.erase_append_right _ hknot]
    simp
  have hpvx : Pv s'.tree it.x = lastOf (K t0 0 ++ pre.flatMap (fun it => [it.x, it.k])) := by
    have h0' : live s'.tree 0 = true := by rw [hl']; exact h0
    exact pv_of_kids w' h0' hK0n
  rw [hpvx] at e3
  refine ⟨s', by rw [e1, e3], ?_, by rw [hs', hth]⟩
  -- frames for the other objects
  have frame : ∀ it', it' ∈ pre ++ post → ∀ y, y = it'.x ∨ y = it'.c ∨ y = it'.k → y ≠ it.x ∧ y ≠ it.k ∧ y ≠ 0 := by
    intro it' hit' y hy
    have hmem' : it' ∈ (pre ++ [it]) ++ post := by
      rcases List.mem_append.1 hit' with hq | hq
      · simp [hq]
      · simp [hq]
    have hy0 : y ≠ 0 := fl.notOld hmem' hy b.root
    have hyin : y ∈ [it'.x, it'.c, it'.k] := by
      rcases hy with e | e | e <;> simp [e]
    rcases List.mem_append.1 hit' with hq | hq
    · have hyl : y ∈ pre.flatMap (fun it => [it.x, it.c, it.k]) := List.mem_flatMap.2 ⟨it', hq, hyin⟩
      exact ⟨hd1 y hyl it.x (by simp), hd1 y hyl it.k (by simp), hy0⟩
    · have hyl : y ∈ post.flatMap (fun it => [it.x, it.c, it.k]) := List.mem_flatMap.2 ⟨it', hq, hyin⟩
      have h1 := hd2 it.x (List.mem_append_right _ (by simp)) y hyl
      have h2 := hd2 it.k (List.mem_append_right _ (by simp)) y hyl
      exact ⟨fun e => h1 e.symm, fun e => h2 e.symm, hy0⟩
  have keep : ∀ it', it' ∈ pre ++ post → ∀ bb, ItemT d s.tree h it' bb → ItemT d s'.tree h it' bb := by
    intro it' hit' bb io'
    refine io'.frame (fun y hy => ?_)
    obtain ⟨n1, n2, n3⟩ := frame it' hit' y hy
    have hyl : live s.tree y = true := by
      rcases hy with e | e | e
      · rw [e]; exact io'.lx
      · rw [e]; exact io'.lc
      · rw [e]; exact io'.lk
    exact ⟨hl' y, hpay' y n1, by rw [hP', if_neg n2], by rw [hK' y hyl, if_neg n1, if_neg n3]⟩
  refine ⟨w', ?_, ?_, ?_, ?_, ?_, ?_⟩
  · rw [hK0n]; simp
  · intro y hy
    obtain ⟨a1, a2, a3, a4⟩ := fl.old y hy
    have hyx : y ≠ it.x := fun e => (fl.notOld hmem (Or.inl rfl) hy) e.symm
    have hyk : y ≠ it.k := fun e => (fl.notOld hmem (Or.inr (Or.inr rfl)) hy) e.symm
    refine ⟨by rw [hl']; exact a1, by rw [hpay' y hyx]; exact a2, by rw [hP', if_neg hyk]; exact a3, fun hy0 => ?_⟩
    rw [hK' y a1, if_neg hyx, if_neg hy0]; exact a4 hy0
  · intro it' hit'
    exact fl.new it' (by
      rcases List.mem_append.1 hit' with hq | hq
      · simp [hq]
      · rcases List.mem_cons.1 hq with hq | hq
        · simp [hq]
        · simp [hq])
  · intro it' hit'
    exact keep it' (List.mem_append_left _ hit') false (fl.undone it' (by simp [hit']))
  · intro it' hit'
    rcases List.mem_cons.1 hit' with hq | hq
    · subst hq
      have pc := hpay' it'.c (fun e => hxc e.symm)
      have pk := hpay' it'.k (fun e => hxk e.symm)
      exact ⟨hx', by rw [hl']; exact io.lc, by rw [hl']; exact io.lk,
        by rw [pay_opcode hpayx]; exact io.opx, by rw [pay_info hpayx]; exact io.infx, by rw [pay_handle hpayx]; exact io.thx,
        by rw [pay_opcode pc]; exact io.opc, by rw [pay_info pc]; exact io.infc, by rw [pay_handle pc]; exact io.thc,
        by rw [pay_value pc]; exact io.valc,
        by rw [pay_opcode pk]; exact io.opk, by rw [pay_info pk]; exact io.infk, by rw [pay_handle pk]; exact io.thk,
        io.int.of_pay pk, by rw [hK' _ io.lx, if_pos rfl]; rfl,
        by rw [hK' _ io.lc, if_neg (fun e => hxc e.symm), if_neg hc0]; exact io.kc,
        by rw [hK' _ io.lk, if_neg (fun e => hxk e.symm), if_neg hk0]; exact io.kk,
        by rw [hP', if_neg hxk]; exact io.px, by rw [hP', if_neg (fun e => by rw [e] at hnd1; simp at hnd1)]; exact io.pc,
        by rw [hP', if_pos rfl]; rfl, fun _ => by rw [pay_name hpayx], io.bytes, io.seg4⟩
    · exact keep it' (List.mem_append_right _ hq) true (fl.done it' hq)
  · have : pre ++ it :: post = pre ++ [it] ++ post := by simp
    rw [this]; exact fl.nodup

theorem la_eq_lastOf {t : ObjectTree} (w : WF t) {p : Nat} (hl : live t p = true) : La t p = lastOf (K t p) := by
  rcases list_snoc_cases (K t p) with e | ⟨l', a, e⟩
  · rw [e]; exact la_of_nil w hl e
  · rw [e, lastOf_snoc]; exact la_of_kids w hl e

/-- the old children of the root: childless scope blocks, also in the current pool -/
theorem Flat.oldKid {d : Bytes} {t0 t : ObjectTree} {h : Nat} {pre post : List Item} (fl : Flat d t0 t h pre post) (b : Base t0)
    {y : Nat} (hy : y ∈ K t0 0) : live t y = true ∧ K t y = [] ∧ (slot t y).opcode = opIntScopeBlock ∧
      (slot t y).infoIndex = pOpcodeTableIndex opIntScopeBlock true ∧ y ≠ 0 := by
  obtain ⟨hyl, hyp⟩ := (K_mem b.wf b.root y).1 hy
  have hy0 : y ≠ 0 := fun e => by
    rw [e, b.rootp] at hyp; exact live_ne_INV b.wf.size_le b.root hyp.symm
  obtain ⟨a1, a2, _, a4⟩ := fl.old y hyl
  obtain ⟨k1, k2, k3⟩ := b.kid y hy
  exact ⟨a1, by rw [a4 hy0]; exact k1, by rw [pay_opcode a2]; exact k2, by rw [pay_info a2]; exact k3, hy0⟩

theorem info_502 : InfoOK (pOpcodeTableIndex opIntScopeBlock true) := (rowSummary_spec row_502).choose_spec.2.2.2.2.2.1

/-- the reverse loop over the root's children, from the last declaration still unconnected -/
theorem cn_items (d : Bytes) {t0 : ObjectTree} (b : Base t0) {h : Nat} :
    ∀ (n : Nat) (pre post : List Item) (s : PState) (f : Nat), pre.length = n → Flat d t0 s.tree h pre post → s.tableHandle = h →
      2 * n + (K t0 0).length + 4 ≤ f →
      ∃ s', connectNamedLoop d f 0 (lastOf (K t0 0 ++ pre.flatMap (fun it => [it.x, it.k]))) s = .ok (PRes.ok, s') ∧
        Flat d t0 s'.tree h [] (pre ++ post) ∧ s'.tableHandle = h := by
  intro n
  induction n with
  | zero =>
    intro pre post s f hn fl hth hf
    have : pre = [] := List.eq_nil_of_length_eq_zero hn
    subst this
    obtain ⟨h0, _⟩ := fl.root b
    refine ⟨s, ?_, by simpa using fl, hth⟩
    have hk : K s.tree 0 = K t0 0 ++ post.map (·.x) := by rw [fl.ktop]; simp
    simp only [List.flatMap_nil, List.append_nil]
    exact cn_leaves d fl.wf h0 (K t0 0).length (K t0 0) _ f rfl hk
      (fun y hy => by
        obtain ⟨_, a2, _, a4, _⟩ := fl.oldKid b hy
        exact ⟨a2, by rw [a4]; exact info_502⟩) (by omega)
  | succ n ih =>
    intro pre post s f hn fl hth hf
    rcases list_snoc_cases pre with e | ⟨pre', it, e⟩
    · rw [e] at hn; cases hn
    · subst e
      obtain ⟨f', rfl⟩ : ∃ f', f = f' + 6 := ⟨f - 6, by omega⟩
      have hlast : lastOf (K t0 0 ++ (pre' ++ [it]).flatMap (fun it => [it.x, it.k])) = it.k := by
        have : K t0 0 ++ (pre' ++ [it]).flatMap (fun it => [it.x, it.k]) =
            (K t0 0 ++ pre'.flatMap (fun it => [it.x, it.k]) ++ [it.x]) ++ [it.k] := by simp [List.flatMap_append]
        rw [this, lastOf_snoc]
      rw [hlast]
      obtain ⟨s1, e1, fl1, hth1⟩ := cn_item d b fl hth f'
      obtain ⟨s', e', fl', hth'⟩ := ih pre' (it :: post) s1 (f' + 4) (by simpa using hn) fl1 hth1 (by omega)
      refine ⟨s', by rw [e1, e'], ?_, hth'⟩
      have : pre' ++ [it] ++ post = pre' ++ it :: post := by simp
      rw [this]; exact fl'

/-- **`connectNamedObjArgs` on the pool of a table of `Name(NAME, integer)` declarations**: it succeeds; afterwards every
`Name` object carries its name and has two arguments, its name path and its integer; the root's children are the old ones
followed by the `Name` objects in declaration order; the old objects are untouched -/
theorem connectNamed_flat (d : Bytes) {t0 : ObjectTree} (b : Base t0) {s : PState} {h : Nat} {its : List Item}
    (fl : Flat d t0 s.tree h its []) (hth : s.tableHandle = h) (f : Nat) (hf : 2 * its.length + (K t0 0).length + 5 ≤ f) :
    ∃ s', connectNamedObjArgs d f 0 s = .ok (PRes.ok, s') ∧ Flat d t0 s'.tree h [] its ∧ s'.tableHandle = h := by
  obtain ⟨h0, _⟩ := fl.root b
  obtain ⟨f', rfl⟩ : ∃ f', f = f' + 1 := ⟨f - 1, by omega⟩
  obtain ⟨s', e', fl', hth'⟩ := cn_items d b its.length its [] s f' rfl fl hth (by omega)
  refine ⟨s', ?_, by simpa using fl', hth'⟩
  rw [connectNamedObjArgs]
  refine bind_ex' (objectAt_live' h0) (bind_ex' (derefP_some_ex _) (bind_ex' (getObj_live h0) ?_))
  show connectNamedLoop d f' 0 (La s.tree 0) s = _
  rw [la_eq_lastOf fl.wf h0, fl.ktop]
  simpa using e'

end Firefly.AmlParser.F
