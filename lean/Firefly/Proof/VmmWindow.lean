import Firefly.Proof.VmmBits
/-! The recursive window: the entry addresses computed by `walk` resolve, under the hardware walk
`mmu`, to the page-table entries of the path of `va`. -/
namespace Firefly.Vmm
open Firefly.Gen.C04

/-- frame number of a physical address -/
def frameN (pa : W) : Nat := (pa >>> 12).toNat

/-- entry `i` of the table at physical address `T` is present, not huge, and points to table `T'` -/
structure Link (m : Mem) (T : W) (i : Nat) (T' : W) : Prop where
  backed : m.backed (frameN T) = true
  present : m.rd (frameN T) i &&& 1#64 ≠ 0#64
  nohuge : m.rd (frameN T) i &&& 128#64 = 0#64
  next : m.rd (frameN T) i &&& hwMask = T'

/-- The recursive window of the active root shows the address space rooted at `R`: the active
root's last entry points to `R` and `R`'s last entry points to `R` itself.  For the active address
space `R` is the active root; inside `PageDirectoryTable.Map` on an inactive table it is that table. -/
structure Window (st : St) (R : W) : Prop where
  top : Link st.mem (st.cr3 &&& hwMask) 511 R
  self : Link st.mem R 511 R

theorem mmuWalk_link {m : Mem} {va : W} {s s' : Nat} {rest : List Nat} {T T' : W}
    (h : Link m T (hwIdx va s) T') :
    mmuWalk m va (s :: s' :: rest) T = mmuWalk m va (s' :: rest) T' := by
  have hb := h.backed; have hp := h.present; have hh := h.nohuge; have hn := h.next
  simp only [frameN, BitVec.toNat_ushiftRight] at hb hp hh hn
  rw [mmuWalk]
  simp [hb, hp, hh, hn]

theorem mmuWalk_final {m : Mem} {va : W} {s : Nat} {T : W}
    (hb : m.backed (frameN T) = true) (hp : m.rd (frameN T) (hwIdx va s) &&& 1#64 ≠ 0#64) :
    mmuWalk m va [s] T = some ((m.rd (frameN T) (hwIdx va s) &&& hwMask) + (va &&& 0xfff#64)) := by
  simp only [frameN, BitVec.toNat_ushiftRight] at hb hp ⊢
  rw [mmuWalk]
  simp [hb, hp]

theorem mmuWalk_absent {m : Mem} {va : W} {s : Nat} {rest : List Nat} {T : W}
    (hp : m.rd (frameN T) (hwIdx va s) &&& 1#64 = 0#64) :
    mmuWalk m va (s :: rest) T = none := by
  simp only [frameN, BitVec.toNat_ushiftRight] at hp
  rw [mmuWalk]
  simp [hp]

/-- a table address (anything masked with the frame mask) plus a word offset is word `i` of that frame -/
theorem physLoc_table {st : St} {x off : W} {i : Nat} (hb : st.mem.backed (frameN (x &&& hwMask)) = true)
    (hoff : off.toNat = 8 * i) (hi : i < 512) :
    physLoc st ((x &&& hwMask) + off) = some (frameN (x &&& hwMask), i) := by
  have hT := and_hwMask_toNat x
  have hx := x.isLt
  have hsum : ((x &&& hwMask) + off).toNat = (x &&& hwMask).toNat + 8 * i := by
    rw [BitVec.toNat_add, hoff, hT]; omega
  have hfr : (((x &&& hwMask) + off) >>> 12).toNat = frameN (x &&& hwMask) := by
    simp only [frameN, BitVec.toNat_ushiftRight, Nat.shiftRight_eq_div_pow, hsum, hT]; omega
  have hal : ((x &&& hwMask) + off) &&& 7#64 = 0#64 := by
    apply BitVec.eq_of_toNat_eq; rw [and_7, hsum, hT]; simp; omega
  have hidx : ((((x &&& hwMask) + off) &&& 0xfff#64) >>> 3).toNat = i := by
    simp only [BitVec.toNat_ushiftRight, Nat.shiftRight_eq_div_pow, and_fff, hsum, hT]; omega
  unfold physLoc
  rw [hfr, hal, hidx]
  simp [hb]

end Firefly.Vmm

namespace Firefly.Vmm
open Firefly.Gen.C04

/-- `T` is the level-`L` table on the path of `va` in the address space rooted at `R` -/
def Chain (m : Mem) (R : W) (va : W) : Nat → W → Prop
  | 0, T => T = R
  | L + 1, T => ∃ T', Chain m R va L T' ∧ Link m T' (kidx va L) T

/-! ### index fields of the window addresses -/
theorem hwIdx_E0 (va : W) :
    hwIdx (E va 0) 39 = 511 ∧ hwIdx (E va 0) 30 = 511 ∧ hwIdx (E va 0) 21 = 511 ∧ hwIdx (E va 0) 12 = 511 ∧
    (E va 0 &&& 0xfff#64).toNat = 8 * kidx va 0 := by
  have h := E0_toNat va; have := kidx_lt va 0
  simp only [hwIdx_eq, and_fff, h]; omega

theorem hwIdx_E1 (va : W) :
    hwIdx (E va 1) 39 = 511 ∧ hwIdx (E va 1) 30 = 511 ∧ hwIdx (E va 1) 21 = 511 ∧ hwIdx (E va 1) 12 = kidx va 0 ∧
    (E va 1 &&& 0xfff#64).toNat = 8 * kidx va 1 := by
  have h := E1_toNat va; have := kidx_lt va 0; have := kidx_lt va 1
  simp only [hwIdx_eq, and_fff, h]; omega

theorem hwIdx_E2 (va : W) :
    hwIdx (E va 2) 39 = 511 ∧ hwIdx (E va 2) 30 = 511 ∧ hwIdx (E va 2) 21 = kidx va 0 ∧ hwIdx (E va 2) 12 = kidx va 1 ∧
    (E va 2 &&& 0xfff#64).toNat = 8 * kidx va 2 := by
  have h := E2_toNat va; have := kidx_lt va 0; have := kidx_lt va 1; have := kidx_lt va 2
  simp only [hwIdx_eq, and_fff, h]; omega

theorem hwIdx_E3 (va : W) :
    hwIdx (E va 3) 39 = 511 ∧ hwIdx (E va 3) 30 = kidx va 0 ∧ hwIdx (E va 3) 21 = kidx va 1 ∧ hwIdx (E va 3) 12 = kidx va 2 ∧
    (E va 3 &&& 0xfff#64).toNat = 8 * kidx va 3 := by
  have h := E3_toNat va; have := kidx_lt va 0; have := kidx_lt va 1; have := kidx_lt va 2; have := kidx_lt va 3
  simp only [hwIdx_eq, and_fff, h]; omega

/-- the hardware's own indices of `va` are the kernel's -/
theorem hwIdx_va (va : W) :
    hwIdx va 39 = kidx va 0 ∧ hwIdx va 30 = kidx va 1 ∧ hwIdx va 21 = kidx va 2 ∧ hwIdx va 12 = kidx va 3 := by
  simp [hwIdx_eq, kidx]

/-! ### the window resolves entry addresses to the tables of the path -/
theorem mmu_E0 {st : St} {R : W} (hw : Window st R) (va : W) :
    mmu st.mem st.cr3 (E va 0) = some (R + (E va 0 &&& 0xfff#64)) := by
  obtain ⟨h39, h30, h21, h12, _⟩ := hwIdx_E0 va
  unfold mmu
  rw [mmuWalk_link (T' := R) (by rw [h39]; exact hw.top), mmuWalk_link (T' := R) (by rw [h30]; exact hw.self),
    mmuWalk_link (T' := R) (by rw [h21]; exact hw.self),
    mmuWalk_final hw.self.backed (by rw [h12]; exact hw.self.present), h12, hw.self.next]

theorem mmu_E1 {st : St} {R T1 : W} (hw : Window st R) (va : W) (l0 : Link st.mem R (kidx va 0) T1) :
    mmu st.mem st.cr3 (E va 1) = some (T1 + (E va 1 &&& 0xfff#64)) := by
  obtain ⟨h39, h30, h21, h12, _⟩ := hwIdx_E1 va
  unfold mmu
  rw [mmuWalk_link (T' := R) (by rw [h39]; exact hw.top), mmuWalk_link (T' := R) (by rw [h30]; exact hw.self),
    mmuWalk_link (T' := R) (by rw [h21]; exact hw.self),
    mmuWalk_final l0.backed (by rw [h12]; exact l0.present), h12, l0.next]

theorem mmu_E2 {st : St} {R T1 T2 : W} (hw : Window st R) (va : W) (l0 : Link st.mem R (kidx va 0) T1)
    (l1 : Link st.mem T1 (kidx va 1) T2) :
    mmu st.mem st.cr3 (E va 2) = some (T2 + (E va 2 &&& 0xfff#64)) := by
  obtain ⟨h39, h30, h21, h12, _⟩ := hwIdx_E2 va
  unfold mmu
  rw [mmuWalk_link (T' := R) (by rw [h39]; exact hw.top), mmuWalk_link (T' := R) (by rw [h30]; exact hw.self),
    mmuWalk_link (T' := T1) (by rw [h21]; exact l0),
    mmuWalk_final l1.backed (by rw [h12]; exact l1.present), h12, l1.next]

theorem mmu_E3 {st : St} {R T1 T2 T3 : W} (hw : Window st R) (va : W) (l0 : Link st.mem R (kidx va 0) T1)
    (l1 : Link st.mem T1 (kidx va 1) T2) (l2 : Link st.mem T2 (kidx va 2) T3) :
    mmu st.mem st.cr3 (E va 3) = some (T3 + (E va 3 &&& 0xfff#64)) := by
  obtain ⟨h39, h30, h21, h12, _⟩ := hwIdx_E3 va
  unfold mmu
  rw [mmuWalk_link (T' := R) (by rw [h39]; exact hw.top), mmuWalk_link (T' := T1) (by rw [h30]; exact l0),
    mmuWalk_link (T' := T2) (by rw [h21]; exact l1),
    mmuWalk_final l2.backed (by rw [h12]; exact l2.present), h12, l2.next]

/-- **The recursive-mapping trick.** If `T` is the level-`L` table of `va`'s path (and is RAM), the
entry address `walk` computes for level `L` dereferences, through the hardware walk on the active
root, to word `kidx va L` of exactly that table. -/
theorem ptePtr_E {st : St} {R : W} (hw : Window st R) (va : W) :
    ∀ (L : Nat) (T : W), L ≤ 3 → Chain st.mem R va L T → st.mem.backed (frameN T) = true →
      ptePtr st (E va L) = some (frameN T, kidx va L) := by
  intro L T hL hc hb
  have h : L = 0 ∨ L = 1 ∨ L = 2 ∨ L = 3 := by omega
  rcases h with h | h | h | h <;> subst h
  · simp only [Chain] at hc; subst hc
    unfold ptePtr; rw [mmu_E0 hw va]; simp only
    rw [← hw.self.next] at hb ⊢
    exact physLoc_table hb (hwIdx_E0 va).2.2.2.2 (kidx_lt va 0)
  · obtain ⟨T0, h0, l0⟩ := hc; simp only [Chain] at h0; subst h0
    unfold ptePtr; rw [mmu_E1 hw va l0]; simp only
    rw [← l0.next] at hb ⊢
    exact physLoc_table hb (hwIdx_E1 va).2.2.2.2 (kidx_lt va 1)
  · obtain ⟨T1, ⟨T0, h0, l0⟩, l1⟩ := hc; simp only [Chain] at h0; subst h0
    unfold ptePtr; rw [mmu_E2 hw va l0 l1]; simp only
    rw [← l1.next] at hb ⊢
    exact physLoc_table hb (hwIdx_E2 va).2.2.2.2 (kidx_lt va 2)
  · obtain ⟨T2, ⟨T1, ⟨T0, h0, l0⟩, l1⟩, l2⟩ := hc; simp only [Chain] at h0; subst h0
    unfold ptePtr; rw [mmu_E3 hw va l0 l1 l2]; simp only
    rw [← l2.next] at hb ⊢
    exact physLoc_table hb (hwIdx_E3 va).2.2.2.2 (kidx_lt va 3)

end Firefly.Vmm
