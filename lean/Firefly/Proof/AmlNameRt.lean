import Firefly.Model.AmlLex
/-!
The lexical round trips of name strings and strings (`C11.name_roundtrip`, `C11.string_roundtrip`): `parseNameString` /
`parseString` on the bytes `encName` / `encString` produce.
-/
namespace Firefly.AmlLex
open Firefly.AmlTree (Res Err)

/-- the prefix bytes of a name string: `\` and `^` -/
def IsPre (b : UInt8) : Prop := b = 0x5c ∨ b = 0x5e

theorem skipNamePrefix_run (d : Bytes) (pe : Nat) : ∀ (m f o : Nat) (c : UInt8),
    (∀ i, i < m → ∃ b, d[o + i]? = some b ∧ IsPre b) → d[o + m]? = some c → ¬ IsPre c → o + m < pe → m + 1 ≤ f →
    skipNamePrefix d f { offset := o, pkgEnd := pe } = .ok (true, { offset := o + m, pkgEnd := pe }) := by
  intro m
  induction m with
  | zero =>
    intro f o c _ hc hnp hlt hf
    obtain ⟨f', rfl⟩ : ∃ f', f = f' + 1 := ⟨f - 1, by omega⟩
    have hne : (decide (pe ≤ o)) = false := by simp; omega
    simp only [Nat.add_zero] at hc hlt ⊢
    unfold skipNamePrefix
    simp only [bind, StateT.bind, peekByte, Reader.eof, hne, hc, pure, Except.pure, Except.bind, StateT.pure]
    have h1 : c ≠ 0x5c := fun e => hnp (Or.inl e)
    have h2 : c ≠ 0x5e := fun e => hnp (Or.inr e)
    simp [h1, h2]
    rfl
  | succ m ih =>
    intro f o c hpre hc hnp hlt hf
    obtain ⟨f', rfl⟩ : ∃ f', f = f' + 1 := ⟨f - 1, by omega⟩
    obtain ⟨b, hb, hbp⟩ := hpre 0 (by omega)
    have hne : (decide (pe ≤ o)) = false := by simp; omega
    simp only [Nat.add_zero] at hb
    have ih' := ih f' (o + 1) c (fun i hi => by
      obtain ⟨b', hb', hp'⟩ := hpre (i + 1) (by omega)
      exact ⟨b', by rw [← hb']; congr 1; omega, hp'⟩) (by rw [← hc]; congr 1; omega) hnp (by omega) (by omega)
    unfold skipNamePrefix
    simp only [bind, StateT.bind, peekByte, readByte, Reader.eof, hne, hb, pure, Except.pure, Except.bind, StateT.pure]
    have hnot : ¬ (b ≠ 0x5c ∧ b ≠ 0x5e) := by
      rcases hbp with e | e <;> simp [e]
    simp only [Bool.false_eq_true, ↓reduceIte, hnot, StateT.bind, readByte, Reader.eof, hne, hb, pure, Except.pure, Except.bind]
    show skipNamePrefix d f' { offset := o + 1, pkgEnd := pe } = _
    rw [ih']
    congr 3
    omega

/-- `parseNameString` from its four steps -/
theorem parseNameString_steps (d : Bytes) (r0 r1 r2 r3 : Reader) (dp : Option Nat) (c : UInt8) (st : Nat)
    (h1 : dataPtr d r0 = .ok (dp, r0)) (h2 : skipNamePrefix d (d.size + 1) r0 = .ok (true, r1))
    (h3 : readByte d r1 = .ok (some c, r2)) (h4 : parseNamePath d c.toNat r0.offset r2 = .ok (some st, r3)) :
    parseNameString d r0 = .ok (({ data := dp, len := u32 (r3.offset + 4294967296 - st) }, .ok), r3) := by
  unfold parseNameString
  simp only [bind, StateT.bind, h1, Except.bind, offset, pure, Except.pure, h2, ↓reduceIte, h3, Option.getD_some, h4, StateT.pure]

theorem u32_id {n : Nat} (h : n < 4294967296) : u32 n = n := Nat.mod_eq_of_lt h

theorem setOffset_in (d : Bytes) (off o pe : Nat) (h : off ≤ d.size) :
    setOffset d off { offset := o, pkgEnd := pe } = .ok ((), { offset := off, pkgEnd := pe }) := by
  unfold setOffset
  simp only [pure, Except.pure]
  rw [if_neg (by omega)]

/-- NullName -/
theorem parseNamePath_null (d : Bytes) (st : Nat) (r : Reader) : parseNamePath d 0 st r = .ok (some (st + 1), r) := by
  unfold parseNamePath
  simp [pure, StateT.pure, Except.pure]

/-- NameSeg -/
theorem parseNamePath_seg (d : Bytes) (st o pe : Nat) (c : UInt8) (hsz : d.size < 4294967296) (hpe : pe ≤ d.size)
    (hlead : (0x41 ≤ c.toNat ∧ c.toNat ≤ 0x5a) ∨ c.toNat = 0x5f) (hfit : o + 3 ≤ pe) :
    parseNamePath d c.toNat st { offset := o, pkgEnd := pe } = .ok (some st, { offset := o + 3, pkgEnd := pe }) := by
  unfold parseNamePath
  have h0 : c.toNat ≠ 0x00 := by omega
  have h1 : c.toNat ≠ 0x2e := by omega
  have h2 : c.toNat ≠ 0x2f := by omega
  have h3 : ¬ ((c.toNat < 0x41 ∨ c.toNat > 0x5a) ∧ c.toNat ≠ 0x5f) := by omega
  have hu : u32 (o + (Firefly.Gen.C12.amlNameLen - 1)) = o + 3 := by
    rw [show Firefly.Gen.C12.amlNameLen - 1 = 3 from rfl]; exact u32_id (by omega)
  simp only [h0, h1, h2, h3, ↓reduceIte, bind, StateT.bind, offset, pkgEnd, pure, Except.pure, Except.bind, hu]
  rw [if_neg (by omega)]
  simp only [StateT.bind]
  rw [setOffset_in d _ _ _ (by omega)]
  rfl

/-- DualNamePath -/
theorem parseNamePath_dual (d : Bytes) (st o pe : Nat) (hsz : d.size < 4294967296) (hpe : pe ≤ d.size) (hfit : o + 8 ≤ pe) :
    parseNamePath d 0x2e st { offset := o, pkgEnd := pe } = .ok (some st, { offset := o + 8, pkgEnd := pe }) := by
  unfold parseNamePath
  have hu : u32 (o + Firefly.Gen.C12.amlNameLen * 2) = o + 8 := by
    rw [show Firefly.Gen.C12.amlNameLen * 2 = 8 from rfl]; exact u32_id (by omega)
  simp only [show (0x2e : Nat) ≠ 0x00 by decide, ↓reduceIte, bind, StateT.bind, offset, pkgEnd, pure, Except.pure, Except.bind, hu]
  rw [if_neg (by omega)]
  simp only [StateT.bind]
  rw [setOffset_in d _ _ _ (by omega)]
  rfl

/-- MultiNamePath -/
theorem parseNamePath_multi (d : Bytes) (st o pe : Nat) (n : UInt8) (hsz : d.size < 4294967296) (hpe : pe ≤ d.size)
    (hn : d[o]? = some n) (hn0 : n ≠ 0) (hfit : o + 1 + 4 * n.toNat ≤ pe) :
    parseNamePath d 0x2f st { offset := o, pkgEnd := pe } = .ok (some st, { offset := o + 1 + 4 * n.toNat, pkgEnd := pe }) := by
  unfold parseNamePath
  have hne : (decide (pe ≤ o)) = false := by simp; omega
  have hu : u32 (o + 1 + Firefly.Gen.C12.amlNameLen * n.toNat) = o + 1 + 4 * n.toNat := by
    rw [show Firefly.Gen.C12.amlNameLen = 4 from rfl]; exact u32_id (by omega)
  simp only [show (0x2f : Nat) ≠ 0x00 by decide, show (0x2f : Nat) ≠ 0x2e by decide, ↓reduceIte, bind, StateT.bind, offset, pkgEnd,
    pure, Except.pure, Except.bind, readByte, Reader.eof, hne, hn, Bool.false_eq_true, hn0, hu]
  rw [if_neg (by omega)]
  simp only [StateT.bind]
  rw [setOffset_in d _ _ _ (by omega)]
  rfl

/-- the prefix part of `encName` -/
def namePre (root : Bool) (carets : Nat) : List UInt8 := (if root then [0x5c] else []) ++ List.replicate carets 0x5e

/-- the NamePath part of `encName` -/
def nameBody (segs : List (List UInt8)) : List UInt8 :=
  match segs with
  | [] => [0x00]
  | [s] => s
  | [s, t] => 0x2e :: (s ++ t)
  | _ => 0x2f :: UInt8.ofNat segs.length :: segs.flatten

theorem encName_eq (root : Bool) (carets : Nat) (segs : List (List UInt8)) :
    encName root carets segs = namePre root carets ++ nameBody segs := by
  unfold encName namePre nameBody
  rfl

theorem namePre_isPre (root : Bool) (carets : Nat) : ∀ b ∈ namePre root carets, IsPre b := by
  intro b hb
  unfold namePre at hb
  rw [List.mem_append] at hb
  rcases hb with hb | hb
  · split at hb
    · simp at hb; exact Or.inl hb
    · simp at hb
  · exact Or.inr (List.eq_of_mem_replicate hb)

theorem flatten_len4 : ∀ (segs : List (List UInt8)), (∀ s ∈ segs, s.length = 4) → segs.flatten.length = 4 * segs.length := by
  intro segs
  induction segs with
  | nil => intro _; rfl
  | cons s rest ih =>
    intro h
    rw [List.flatten_cons, List.length_append, ih (fun x hx => h x (List.mem_cons_of_mem _ hx)), h s (List.mem_cons_self ..),
      List.length_cons]
    omega

/-- what `encName` is given: 4-byte segments, at most 255 of them, a lone segment starts with a lead character
(`A`–`Z` or `_`) -/
def NameOK (segs : List (List UInt8)) : Prop :=
  (∀ s ∈ segs, s.length = 4) ∧ segs.length ≤ 255 ∧
  (∀ s, segs = [s] → ∃ c, s[0]? = some c ∧ ((0x41 ≤ c.toNat ∧ c.toNat ≤ 0x5a) ∨ c.toNat = 0x5f))

/-- **Name strings round-trip**: `parseNameString` on the bytes of `encName root carets segs` succeeds, consumes exactly
those bytes, and returns the slice that covers them (without the NullName terminator) -/
theorem name_roundtrip (d : Bytes) (root : Bool) (carets : Nat) (segs : List (List UInt8)) (base pe : Nat)
    (hsz : d.size < 4294967296) (hpe : pe ≤ d.size) (hok : NameOK segs)
    (henc : ∀ i, i < (encName root carets segs).length → d[base + i]? = (encName root carets segs)[i]?)
    (hfit : base + (encName root carets segs).length ≤ pe) :
    parseNameString d { offset := base, pkgEnd := pe } =
      .ok (({ data := some base, len := (encName root carets segs).length - (if segs = [] then 1 else 0) }, .ok),
        { offset := base + (encName root carets segs).length, pkgEnd := pe }) := by
  rw [encName_eq] at henc hfit ⊢
  obtain ⟨h4, h255, hlead⟩ := hok
  have hm : (namePre root carets).length = (namePre root carets).length := rfl
  generalize hmm : (namePre root carets).length = m at *
  rw [List.length_append, hmm] at henc hfit ⊢
  have hencP : ∀ i, i < m → ∃ b, d[base + i]? = some b ∧ IsPre b := by
    intro i hi
    have := henc i (by omega)
    rw [List.getElem?_append_left (by omega)] at this
    have hlt : i < (namePre root carets).length := by omega
    refine ⟨(namePre root carets)[i], by rw [this, List.getElem?_eq_getElem hlt], namePre_isPre root carets _ (List.getElem_mem hlt)⟩
  have hencB : ∀ j, j < (nameBody segs).length → d[base + m + j]? = (nameBody segs)[j]? := by
    intro j hj
    have := henc (m + j) (by omega)
    rw [List.getElem?_append_right (by omega), hmm, Nat.add_sub_cancel_left, ← Nat.add_assoc] at this
    exact this
  -- the common part, from the first byte `c` of the NamePath and the result of `parseNamePath`
  have main : ∀ (c : UInt8) (st off' len' : Nat), (nameBody segs)[0]? = some c → ¬ IsPre c → 1 ≤ (nameBody segs).length →
      parseNamePath d c.toNat base { offset := base + m + 1, pkgEnd := pe } = .ok (some st, { offset := off', pkgEnd := pe }) →
      u32 (off' + 4294967296 - st) = len' →
      parseNameString d { offset := base, pkgEnd := pe } =
        .ok (({ data := some base, len := len' }, .ok), { offset := off', pkgEnd := pe }) := by
    intro c st off' len' hc hnp hlen hp hl
    have hcb : d[base + m]? = some c := by
      have := hencB 0 hlen
      rw [Nat.add_zero] at this
      rw [this, hc]
    have hne0 : (decide (pe ≤ base)) = false := by simp; omega
    have hne1 : (decide (pe ≤ base + m)) = false := by simp; omega
    rw [← hl]
    refine parseNameString_steps d _ { offset := base + m, pkgEnd := pe } { offset := base + m + 1, pkgEnd := pe } _ (some base) c st
      ?_ (skipNamePrefix_run d pe m (d.size + 1) base c hencP hcb hnp (by omega) (by omega)) ?_ hp
    · unfold dataPtr
      simp only [Reader.eof, hne0, Bool.false_eq_true, ↓reduceIte, pure, Except.pure]
      rw [if_pos (by omega)]
    · unfold readByte
      simp only [Reader.eof, hne1, Bool.false_eq_true, ↓reduceIte, hcb, pure, Except.pure]
  match segs, h4, h255, hlead, hencB, hfit, main with
  | [], _, _, _, hencB, hfit, main =>
    have hb : nameBody ([] : List (List UInt8)) = [0x00] := rfl
    rw [hb] at hencB hfit main ⊢
    simp only [List.length_cons, List.length_nil, ↓reduceIte] at hfit ⊢
    refine main 0 (base + 1) _ _ rfl (by unfold IsPre; decide) (by simp) ?_ (by unfold u32; omega)
    rw [show base + (m + (0 + 1)) = base + m + 1 by omega]
    exact parseNamePath_null d base _
  | [s], h4, _, hlead, hencB, hfit, main =>
    have hb : nameBody [s] = s := rfl
    have hs4 : s.length = 4 := h4 s (List.mem_cons_self ..)
    obtain ⟨c, hc, hl⟩ := hlead s rfl
    rw [hb] at hencB hfit main ⊢
    rw [hs4] at hfit ⊢
    have hnp : ¬ IsPre c := by
      intro h
      have h1 : c.toNat = 0x5c ∨ c.toNat = 0x5e := by
        rcases h with e | e <;> rw [e] <;> simp
      omega
    simp only [List.cons_ne_nil, ↓reduceIte, Nat.sub_zero]
    refine main c base _ _ hc hnp (by omega) ?_ (by unfold u32; omega)
    rw [show base + (m + 4) = base + m + 1 + 3 by omega]
    exact parseNamePath_seg d base (base + m + 1) pe c hsz hpe hl (by omega)
  | [s, t], h4, _, _, hencB, hfit, main =>
    have hb : nameBody [s, t] = 0x2e :: (s ++ t) := rfl
    have hs4 : s.length = 4 := h4 s (List.mem_cons_self ..)
    have ht4 : t.length = 4 := h4 t (List.mem_cons_of_mem _ (List.mem_cons_self ..))
    rw [hb] at hencB hfit main ⊢
    simp only [List.length_cons, List.length_append, hs4, ht4, List.cons_ne_nil, ↓reduceIte, Nat.sub_zero] at hencB hfit main ⊢
    refine main 0x2e base _ _ rfl (by unfold IsPre; decide) (by omega) ?_ (by unfold u32; omega)
    rw [show base + (m + (4 + 4 + 1)) = base + m + 1 + 8 by omega]
    exact parseNamePath_dual d base (base + m + 1) pe hsz hpe (by omega)
  | s :: t :: u :: rest, h4, h255, _, hencB, hfit, main =>
    have hb : nameBody (s :: t :: u :: rest) = 0x2f :: UInt8.ofNat (s :: t :: u :: rest).length :: (s :: t :: u :: rest).flatten := rfl
    have hfl := flatten_len4 _ h4
    generalize hsg : (s :: t :: u :: rest) = sg at *
    have hlen3 : 3 ≤ sg.length := by rw [← hsg]; simp
    have hne : sg ≠ [] := by rw [← hsg]; simp
    rw [hb] at hencB hfit main ⊢
    simp only [List.length_cons, hfl, hne, ↓reduceIte, Nat.sub_zero] at hencB hfit main ⊢
    have hn : (UInt8.ofNat sg.length).toNat = sg.length := by
      simp [UInt8.toNat_ofNat]; omega
    have hn0 : UInt8.ofNat sg.length ≠ 0 := by
      intro e
      have := congrArg UInt8.toNat e
      rw [hn] at this
      have h0 : (0 : UInt8).toNat = 0 := rfl
      rw [h0] at this
      omega
    have hd1 : d[base + m + 1]? = some (UInt8.ofNat sg.length) := by
      have := hencB 1 (by omega)
      simpa using this
    have hp := parseNamePath_multi d base (base + m + 1) pe (UInt8.ofNat sg.length) hsz hpe hd1 hn0 (by rw [hn]; omega)
    rw [hn] at hp
    refine main 0x2f base _ _ rfl (by unfold IsPre; decide) (by omega) ?_ (by unfold u32; omega)
    rw [show base + (m + (4 * sg.length + 1 + 1)) = base + m + 1 + 1 + 4 * sg.length by omega]
    exact hp

/-! ## strings -/

/-- the loop of `parseString` over `m` ASCII bytes followed by the terminator -/
theorem parseStringLoop_run (d : Bytes) (pe : Nat) : ∀ (m f o len : Nat),
    (∀ i, i < m → ∃ b, d[o + i]? = some b ∧ 1 ≤ b ∧ b ≤ 0x7f) → d[o + m]? = some 0 → o + m < pe → m + 1 ≤ f →
    parseStringLoop d f len { offset := o, pkgEnd := pe } = .ok ((len + m, .ok), { offset := o + m + 1, pkgEnd := pe }) := by
  intro m
  induction m with
  | zero =>
    intro f o len _ h0 hlt hf
    obtain ⟨f', rfl⟩ : ∃ f', f = f' + 1 := ⟨f - 1, by omega⟩
    have hne : (decide (pe ≤ o)) = false := by simp; omega
    simp only [Nat.add_zero] at h0 hlt ⊢
    unfold parseStringLoop
    simp only [bind, StateT.bind, readByte, Reader.eof, hne, h0, pure, Except.pure, Except.bind, StateT.pure, Bool.false_eq_true,
      ↓reduceIte]
  | succ m ih =>
    intro f o len hs h0 hlt hf
    obtain ⟨f', rfl⟩ : ∃ f', f = f' + 1 := ⟨f - 1, by omega⟩
    obtain ⟨b, hb, hb1, hb2⟩ := hs 0 (by omega)
    have hne : (decide (pe ≤ o)) = false := by simp; omega
    simp only [Nat.add_zero] at hb
    have ih' := ih f' (o + 1) (len + 1) (fun i hi => by
      obtain ⟨b', hb', hp'⟩ := hs (i + 1) (by omega)
      exact ⟨b', by rw [← hb']; congr 1; omega, hp'⟩) (by rw [← h0]; congr 1; omega) (by omega) (by omega)
    have hbne : b ≠ 0 := by
      intro e; rw [e] at hb1; exact absurd hb1 (by decide)
    unfold parseStringLoop
    simp only [bind, StateT.bind, readByte, Reader.eof, hne, hb, pure, Except.pure, Except.bind, Bool.false_eq_true, ↓reduceIte, hbne,
      hb1, hb2, and_self]
    rw [ih']
    congr 3
    · omega
    · congr 1; omega

/-- **Strings round-trip**: `parseString` on the bytes of `encString s` (ASCII 1…0x7f, then the terminator) succeeds,
consumes them all, and returns the slice that covers `s` -/
theorem string_roundtrip (d : Bytes) (s : List UInt8) (base pe : Nat) (hpe : pe ≤ d.size)
    (hascii : ∀ b ∈ s, 1 ≤ b ∧ b ≤ 0x7f)
    (henc : ∀ i, i < (encString s).length → d[base + i]? = (encString s)[i]?) (hfit : base + (encString s).length ≤ pe) :
    parseString d { offset := base, pkgEnd := pe } =
      .ok (({ data := some base, len := s.length }, .ok), { offset := base + (encString s).length, pkgEnd := pe }) := by
  unfold encString at henc hfit ⊢
  rw [List.length_append] at henc hfit ⊢
  simp only [List.length_cons, List.length_nil] at henc hfit ⊢
  have hne0 : (decide (pe ≤ base)) = false := by simp; omega
  have h1 : dataPtr d { offset := base, pkgEnd := pe } = .ok (some base, { offset := base, pkgEnd := pe }) := by
    unfold dataPtr
    simp only [Reader.eof, hne0, Bool.false_eq_true, ↓reduceIte, pure, Except.pure]
    rw [if_pos (by omega)]
  have h2 := parseStringLoop_run d pe s.length (d.size + 1) base 0
    (fun i hi => by
      have := henc i (by omega)
      rw [List.getElem?_append_left hi] at this
      exact ⟨s[i], by rw [this, List.getElem?_eq_getElem hi], hascii _ (List.getElem_mem hi)⟩)
    (by
      have := henc s.length (by omega)
      rw [List.getElem?_append_right (Nat.le_refl _), Nat.sub_self] at this
      exact this)
    (by omega) (by omega)
  unfold parseString
  simp only [bind, StateT.bind, h1, Except.bind, h2, pure, Except.pure, StateT.pure, Nat.zero_add]
  rfl


end Firefly.AmlLex
