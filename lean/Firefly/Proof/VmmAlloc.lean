import Firefly.Proof.VmmPdt
/-! `Map` when a table level is missing: allocator failure, and the creation of one new level. -/
namespace Firefly.Vmm
open Firefly.Gen.C04

theorem mapCb_allocfail {page frame flags ea : W} {L : Nat} (hL : L < 3) {loc : Loc} {err : Nat} {st : St}
    (hp : st.rdLoc loc &&& 1#64 = 0#64) (hh : st.rdLoc loc &&& 128#64 = 0#64) (hf : st.free = []) :
    mapCb page frame flags L ea loc err st = .ok ((false, eAlloc), st) := by
  have h1 : ¬ L = pageLevels - 1 := by simp [pageLevels]; omega
  simp [mapCb, h1, hasFlags_huge_false hh, hasFlags_present_false hp, hf]

/-- **Allocation failure.** The path of the page exists down to level `L < 3`, the level-`L` entry is
empty and the allocator has nothing to give: `Map` returns the allocator's error and the state —
every word of memory, hence every translation — is exactly as before. -/
theorem mapOp_allocfail {st : St} {R : W} (page frame flags : W) (hw : Window st R) (L : Nat) (hL : L < 3) (T : W)
    (hc : Chain st.mem R (pageAddr page) L T) (hb : st.mem.backed (frameN T) = true)
    (hp : st.mem.rd (frameN T) (kidx (pageAddr page) L) &&& 1#64 = 0#64)
    (hh : st.mem.rd (frameN T) (kidx (pageAddr page) L) &&& 128#64 = 0#64)
    (hf : st.free = [])
    (hg : (st.protect && frame == st.zeroFrame && (flags &&& fRW) != 0) = false) :
    mapOp st page frame flags = .ok (eAlloc, st) := by
  unfold mapOp
  rw [hg]
  simp only [Bool.false_eq_true, if_false]
  rw [walk_eq]
  have h : L = 0 ∨ L = 1 ∨ L = 2 := by omega
  rcases h with h | h | h <;> subst h
  · simp only [Chain] at hc; subst hc
    rw [walkFrom_step _ _ _ _ _ _ _ (ptePtr_E hw _ 0 _ (by omega) rfl hb),
      mapCb_allocfail (by omega) (by exact hp) (by exact hh) hf]
  · obtain ⟨T0, h0, l0⟩ := hc; simp only [Chain] at h0; subst h0
    rw [walkFrom_step _ _ _ _ _ _ _ (ptePtr_E hw _ 0 _ (by omega) rfl l0.backed),
      mapCb_present (by omega) (by exact l0.present) (by exact l0.nohuge)]
    simp only
    rw [walkFrom_step _ _ _ _ _ _ _ (ptePtr_E hw _ 1 _ (by omega) ⟨_, rfl, l0⟩ hb),
      mapCb_allocfail (by omega) (by exact hp) (by exact hh) hf]
  · obtain ⟨T1, ⟨T0, h0, l0⟩, l1⟩ := hc; simp only [Chain] at h0; subst h0
    rw [walkFrom_step _ _ _ _ _ _ _ (ptePtr_E hw _ 0 _ (by omega) rfl l0.backed),
      mapCb_present (by omega) (by exact l0.present) (by exact l0.nohuge)]
    simp only
    rw [walkFrom_step _ _ _ _ _ _ _ (ptePtr_E hw _ 1 _ (by omega) ⟨_, rfl, l0⟩ l1.backed),
      mapCb_present (by omega) (by exact l1.present) (by exact l1.nohuge)]
    simp only
    rw [walkFrom_step _ _ _ _ _ _ _ (ptePtr_E hw _ 2 _ (by omega) ⟨_, ⟨_, rfl, l0⟩, l1⟩ hb),
      mapCb_allocfail (by omega) (by exact hp) (by exact hh) hf]

/-! ### the address `Map` clears a new table through -/
theorem nextTableVA_toNat (va : W) :
    (nextTableVA va 0).toNat = 2 ^ 64 - 2 ^ 21 + 4096 * kidx va 0 ∧
    (nextTableVA va 1).toNat = 2 ^ 64 - 2 ^ 30 + 2 ^ 21 * kidx va 0 + 4096 * kidx va 1 ∧
    (nextTableVA va 2).toNat = 2 ^ 64 - 2 ^ 39 + 2 ^ 30 * kidx va 0 + 2 ^ 21 * kidx va 1 + 4096 * kidx va 2 := by
  have h0 := E0_toNat va; have h1 := E1_toNat va; have h2 := E2_toNat va
  have := kidx_lt va 0; have := kidx_lt va 1; have := kidx_lt va 2
  simp only [nextTableVA, levelBits, pageLevelBits, List.getD_cons_succ, List.getD_cons_zero,
    BitVec.toNat_shiftLeft, Nat.shiftLeft_eq, h0, h1, h2]
  omega

/-- the hardware walk of any address whose index fields are `511,511,511,i0` ends in table `T1` -/
theorem mmu_win1 {st : St} {R T1 : W} (hw : Window st R) (a : W) (i0 : Nat)
    (h : hwIdx a 39 = 511 ∧ hwIdx a 30 = 511 ∧ hwIdx a 21 = 511 ∧ hwIdx a 12 = i0) (l0 : Link st.mem R i0 T1) :
    mmu st.mem st.cr3 a = some (T1 + (a &&& 0xfff#64)) := by
  obtain ⟨h39, h30, h21, h12⟩ := h
  unfold mmu
  rw [mmuWalk_link (T' := R) (by rw [h39]; exact hw.top), mmuWalk_link (T' := R) (by rw [h30]; exact hw.self),
    mmuWalk_link (T' := R) (by rw [h21]; exact hw.self),
    mmuWalk_final l0.backed (by rw [h12]; exact l0.present), h12, l0.next]

theorem mmu_win2 {st : St} {R T1 T2 : W} (hw : Window st R) (a : W) (i0 i1 : Nat)
    (h : hwIdx a 39 = 511 ∧ hwIdx a 30 = 511 ∧ hwIdx a 21 = i0 ∧ hwIdx a 12 = i1) (l0 : Link st.mem R i0 T1)
    (l1 : Link st.mem T1 i1 T2) :
    mmu st.mem st.cr3 a = some (T2 + (a &&& 0xfff#64)) := by
  obtain ⟨h39, h30, h21, h12⟩ := h
  unfold mmu
  rw [mmuWalk_link (T' := R) (by rw [h39]; exact hw.top), mmuWalk_link (T' := R) (by rw [h30]; exact hw.self),
    mmuWalk_link (T' := T1) (by rw [h21]; exact l0),
    mmuWalk_final l1.backed (by rw [h12]; exact l1.present), h12, l1.next]

theorem mmu_win3 {st : St} {R T1 T2 T3 : W} (hw : Window st R) (a : W) (i0 i1 i2 : Nat)
    (h : hwIdx a 39 = 511 ∧ hwIdx a 30 = i0 ∧ hwIdx a 21 = i1 ∧ hwIdx a 12 = i2) (l0 : Link st.mem R i0 T1)
    (l1 : Link st.mem T1 i1 T2) (l2 : Link st.mem T2 i2 T3) :
    mmu st.mem st.cr3 a = some (T3 + (a &&& 0xfff#64)) := by
  obtain ⟨h39, h30, h21, h12⟩ := h
  unfold mmu
  rw [mmuWalk_link (T' := R) (by rw [h39]; exact hw.top), mmuWalk_link (T' := T1) (by rw [h30]; exact l0),
    mmuWalk_link (T' := T2) (by rw [h21]; exact l1),
    mmuWalk_final l2.backed (by rw [h12]; exact l2.present), h12, l2.next]

/-- **Memset of a new table goes to the new table.** The address `entryAddr << 9` that `Map` hands to
`Memset` after linking a new level resolves, through the window, to the base of the table the
level-`L` entry now points to. -/
theorem mmu_next {st : St} {R : W} (hw : Window st R) (va : W) (L : Nat) (hL : L < 3) (Tn : W)
    (hc : Chain st.mem R va (L + 1) Tn) : mmu st.mem st.cr3 (nextTableVA va L) = some Tn := by
  obtain ⟨n0, n1, n2⟩ := nextTableVA_toNat va
  have := kidx_lt va 0; have := kidx_lt va 1; have := kidx_lt va 2
  have h : L = 0 ∨ L = 1 ∨ L = 2 := by omega
  rcases h with h | h | h <;> subst h
  · obtain ⟨T0, h0, l0⟩ := hc; simp only [Chain] at h0; subst h0
    rw [mmu_win1 hw _ (kidx va 0) (by simp only [hwIdx_eq, n0]; omega) l0]
    have : nextTableVA va 0 &&& 0xfff#64 = 0#64 := by apply BitVec.eq_of_toNat_eq; rw [and_fff, n0]; (try simp) <;> omega
    rw [this]; simp
  · obtain ⟨T1, ⟨T0, h0, l0⟩, l1⟩ := hc; simp only [Chain] at h0; subst h0
    rw [mmu_win2 hw _ (kidx va 0) (kidx va 1) (by simp only [hwIdx_eq, n1]; omega) l0 l1]
    have : nextTableVA va 1 &&& 0xfff#64 = 0#64 := by apply BitVec.eq_of_toNat_eq; rw [and_fff, n1]; (try simp) <;> omega
    rw [this]; simp
  · obtain ⟨T2, ⟨T1, ⟨T0, h0, l0⟩, l1⟩, l2⟩ := hc; simp only [Chain] at h0; subst h0
    rw [mmu_win3 hw _ (kidx va 0) (kidx va 1) (kidx va 2) (by simp only [hwIdx_eq, n2]; omega) l0 l1 l2]
    have : nextTableVA va 2 &&& 0xfff#64 = 0#64 := by apply BitVec.eq_of_toNat_eq; rw [and_fff, n2]; (try simp) <;> omega
    rw [this]; simp

/-- transport of a chain along link-preserving memory changes -/
theorem Chain.map {m m' : Mem} {R va : W} :
    ∀ (L : Nat) (T : W), Chain m R va L T →
      (∀ k T' T'', k < L → Chain m R va k T' → Link m T' (kidx va k) T'' → Link m' T' (kidx va k) T'') →
      Chain m' R va L T := by
  intro L
  induction L with
  | zero => intro T h _; exact h
  | succ L ih =>
    intro T h hl
    obtain ⟨T', hc, l⟩ := h
    exact ⟨T', ih T' hc (fun k a b hk => hl k a b (by omega)), hl L T' T (by omega) hc l⟩

/-- state after `Map` has linked and cleared one new level -/
def allocStep (st : St) (f : W) (rest : List W) (loc : Loc) : St :=
  let st1 := ({ st with free := rest, allocs := st.allocs + 1 } : St).wrLoc loc (mkEntry f (fPresent ||| fRW))
  { st1 with mem := st1.mem.setFrame f.toNat (fun _ => 0) }

/-- **Creating one new level.** The path exists down to the level-`L` table `T`, whose entry for `va`
is empty; the allocator hands out `f` (RAM, < 2^40, neither a root nor a table of the path).  Then
`Map`'s callback links `f` with Present|RW into that entry, clears *exactly* frame `f` (the Memset
address computed from the entry's own virtual address lands on it through the window), leaves the
window intact, and the path now continues through the empty table `f`. -/
theorem newLevel {st : St} {R : W} (va : W) (L : Nat) (hL : L < 3) (T : W) (hw : Window st R)
    (hc : Chain st.mem R va L T) (hb : st.mem.backed (frameN T) = true)
    (hp : st.mem.rd (frameN T) (kidx va L) &&& 1#64 = 0#64) (hh : st.mem.rd (frameN T) (kidx va L) &&& 128#64 = 0#64)
    {f : W} {rest : List W} (hf : st.free = f :: rest) (hfo : FrameOK f) (hfb : st.mem.backed f.toNat = true)
    (hA : f.toNat ≠ frameN (st.cr3 &&& hwMask)) (hR : f.toNat ≠ frameN R)
    (hfc : ∀ k T', k ≤ L → Chain st.mem R va k T' → f.toNat ≠ frameN T')
    (hlocA : ¬(frameN T = frameN (st.cr3 &&& hwMask) ∧ kidx va L = 511))
    (hlocR : ¬(frameN T = frameN R ∧ kidx va L = 511))
    (hlc : ∀ k T', k < L → Chain st.mem R va k T' → ¬(frameN T = frameN T' ∧ kidx va L = kidx va k))
    (page frame flags : W) (err : Nat) :
    mapCb page frame flags L (E va L) (frameN T, kidx va L) err st =
      .ok ((true, err), allocStep st f rest (frameN T, kidx va L)) ∧
    Window (allocStep st f rest (frameN T, kidx va L)) R ∧
    Chain (allocStep st f rest (frameN T, kidx va L)).mem R va (L + 1) (f <<< 12) := by
  have hfl : FlagsOK (fPresent ||| fRW) := by unfold FlagsOK; decide
  have hfN : frameN (f <<< 12) = f.toNat := frameN_shl12 hfo
  -- state after the entry has been stored
  let st1 : St := ({ st with free := rest, allocs := st.allocs + 1 } : St).wrLoc (frameN T, kidx va L) (mkEntry f (fPresent ||| fRW))
  have hw1 : Window st1 R :=
    ⟨hw.top.wr _ _ _ hlocA, hw.self.wr _ _ _ hlocR⟩
  have hlink1 : Link st1.mem T (kidx va L) (f <<< 12) := by
    refine ⟨by simpa [st1, St.wrLoc] using hb, ?_, ?_, ?_⟩ <;> simp only [st1, St.wrLoc, rd_wr, and_self, if_true]
    · rw [mkEntry_low 1#64 (by decide)]; decide
    · rw [mkEntry_low 128#64 (by decide)]; decide
    · exact mkEntry_frame hfo hfl
  have hc1 : Chain st1.mem R va L T :=
    Chain.map L T hc (fun k T' T'' hk hck l => l.wr _ _ _ (hlc k T' hk hck))
  have hmmu : mmu st1.mem st1.cr3 (nextTableVA va L) = some (f <<< 12) := mmu_next hw1 va L hL _ ⟨T, hc1, hlink1⟩
  -- the callback
  have h1 : ¬ L = pageLevels - 1 := by simp [pageLevels]; omega
  have hcb : mapCb page frame flags L (E va L) (frameN T, kidx va L) err st =
      .ok ((true, err), allocStep st f rest (frameN T, kidx va L)) := by
    have hms : memsetPage st1 (E va L <<< levelBits (L + 1)) = .ok (allocStep st f rest (frameN T, kidx va L)) := by
      unfold memsetPage
      rw [show E va L <<< levelBits (L + 1) = nextTableVA va L from rfl, hmmu]
      have hz : (f <<< 12) &&& 0xfff#64 = 0#64 := shl12_and_low _ (by decide)
      have hfN' : ((f <<< 12) >>> 12).toNat = f.toNat := hfN
      simp only [hfN', hz]
      have : st1.mem.backed f.toNat = true := by simpa [st1, St.wrLoc] using hfb
      simp [this, allocStep, st1]
    simp only [mapCb, h1, if_false, St.rdLoc, hasFlags_huge_false hh, hasFlags_present_false hp, hf]
    simp only [Bool.false_eq_true, if_false, Bool.not_false, if_true]
    rw [show (({ st with free := rest, allocs := st.allocs + 1 } : St).wrLoc (frameN T, kidx va L)
      (mkEntry f (fPresent ||| fRW))) = st1 from rfl, hms]
  refine ⟨hcb, ?_, ?_⟩
  · -- window survives clearing frame f
    exact ⟨hw1.top.setFrame _ _ hA, hw1.self.setFrame _ _ hR⟩
  · refine ⟨T, ?_, ?_⟩
    · exact Chain.map L T hc (fun k T' T'' hk hck l =>
        (l.wr _ _ _ (hlc k T' hk hck)).setFrame _ _ (hfc k T' (by omega) hck))
    · exact hlink1.setFrame _ _ (hfc L T (by omega) hc)

theorem Chain.unique {m : Mem} {R va : W} : ∀ (L : Nat) (T T' : W), Chain m R va L T → Chain m R va L T' → T = T' := by
  intro L
  induction L with
  | zero => intro T T' h h'; simp only [Chain] at h h'; rw [h, h']
  | succ L ih =>
    intro T T' h h'
    obtain ⟨A, ca, la⟩ := h
    obtain ⟨B, cb, lb⟩ := h'
    have := ih A B ca cb; subst this
    rw [← la.next, ← lb.next]

/-- **`Map` creating the leaf table.** The page's path exists down to its level-2 table `T2`, whose
entry is empty; the allocator hands out `f`.  `Map` succeeds; the final state is exactly: `f` popped,
`T2[i2] := f<<12 | Present|RW`, frame `f` cleared, `f[i3] := frame<<12 | flags`, the page flushed. -/
theorem mapOp_new_leaf_table {st : St} {R T1 T2 : W} (page frame flags : W) (hw : Window st R)
    (l0 : Link st.mem R (kidx (pageAddr page) 0) T1) (l1 : Link st.mem T1 (kidx (pageAddr page) 1) T2)
    (hb2 : st.mem.backed (frameN T2) = true)
    (hp : st.mem.rd (frameN T2) (kidx (pageAddr page) 2) &&& 1#64 = 0#64)
    (hh : st.mem.rd (frameN T2) (kidx (pageAddr page) 2) &&& 128#64 = 0#64)
    {f : W} {rest : List W} (hf : st.free = f :: rest) (hfo : FrameOK f) (hfb : st.mem.backed f.toNat = true)
    (hfd : f.toNat ≠ frameN (st.cr3 &&& hwMask) ∧ f.toNat ≠ frameN R ∧ f.toNat ≠ frameN T1 ∧ f.toNat ≠ frameN T2)
    (htd : frameN T2 ≠ frameN (st.cr3 &&& hwMask) ∧ frameN T2 ≠ frameN R ∧ frameN T2 ≠ frameN T1)
    (hg : (st.protect && frame == st.zeroFrame && (flags &&& fRW) != 0) = false) :
    mapOp st page frame flags =
      .ok (0, ((allocStep st f rest (frameN T2, kidx (pageAddr page) 2)).wrLoc (f.toNat, kidx (pageAddr page) 3)
        (mkEntry frame flags)).flush (pageAddr page)) ∧
    Path (allocStep st f rest (frameN T2, kidx (pageAddr page) 2)).mem R (pageAddr page) T1 T2 (f <<< 12) := by
  have c0 : Chain st.mem R (pageAddr page) 0 R := rfl
  have c1 : Chain st.mem R (pageAddr page) 1 T1 := ⟨R, c0, l0⟩
  have c2 : Chain st.mem R (pageAddr page) 2 T2 := ⟨T1, c1, l1⟩
  have hfc : ∀ k T', k ≤ 2 → Chain st.mem R (pageAddr page) k T' → f.toNat ≠ frameN T' := by
    intro k T' hk hc
    have h : k = 0 ∨ k = 1 ∨ k = 2 := by omega
    rcases h with h | h | h <;> subst h
    · rw [Chain.unique 0 T' R hc c0]; exact hfd.2.1
    · rw [Chain.unique 1 T' T1 hc c1]; exact hfd.2.2.1
    · rw [Chain.unique 2 T' T2 hc c2]; exact hfd.2.2.2
  have hlc : ∀ k T', k < 2 → Chain st.mem R (pageAddr page) k T' →
      ¬(frameN T2 = frameN T' ∧ kidx (pageAddr page) 2 = kidx (pageAddr page) k) := by
    intro k T' hk hc hh'
    have h : k = 0 ∨ k = 1 := by omega
    rcases h with h | h <;> subst h
    · rw [Chain.unique 0 T' R hc c0] at hh'; exact htd.2.1 hh'.1
    · rw [Chain.unique 1 T' T1 hc c1] at hh'; exact htd.2.2 hh'.1
  obtain ⟨hcb, hw2, hc3⟩ := newLevel (pageAddr page) 2 (by omega) T2 hw c2 hb2 hp hh hf hfo hfb hfd.1 hfd.2.1 hfc
    (fun h => htd.1 h.1) (fun h => htd.2.1 h.1) hlc page frame flags 0
  have hfN : frameN (f <<< 12) = f.toNat := frameN_shl12 hfo
  have hb3 : (allocStep st f rest (frameN T2, kidx (pageAddr page) 2)).mem.backed (frameN (f <<< 12)) = true := by
    rw [hfN]; simpa [allocStep, St.wrLoc] using hfb
  constructor
  · unfold mapOp
    rw [hg]
    simp only [Bool.false_eq_true, if_false]
    rw [walk_eq,
      walkFrom_step _ _ _ _ _ _ _ (ptePtr_E hw _ 0 R (by omega) c0 l0.backed),
      mapCb_present (by omega) (by exact l0.present) (by exact l0.nohuge)]
    simp only
    rw [walkFrom_step _ _ _ _ _ _ _ (ptePtr_E hw _ 1 T1 (by omega) c1 l1.backed),
      mapCb_present (by omega) (by exact l1.present) (by exact l1.nohuge)]
    simp only
    rw [walkFrom_step _ _ _ _ _ _ _ (ptePtr_E hw _ 2 T2 (by omega) c2 hb2), hcb]
    simp only
    rw [walkFrom_step _ _ _ _ _ _ _ (ptePtr_E hw2 _ 3 (f <<< 12) (by omega) hc3 hb3), mapCb_leaf, hfN]
    simp [walkFrom]
  · have tr : ∀ k T' T'', k < 2 → Chain st.mem R (pageAddr page) k T' → Link st.mem T' (kidx (pageAddr page) k) T'' →
        Link (allocStep st f rest (frameN T2, kidx (pageAddr page) 2)).mem T' (kidx (pageAddr page) k) T'' :=
      fun k T' T'' hk hck l => (l.wr _ _ _ (hlc k T' hk hck)).setFrame _ _ (hfc k T' (by omega) hck)
    have c2' := Chain.map 2 T2 c2 tr
    obtain ⟨T2', c2'', l2'⟩ := hc3
    have e2 : T2' = T2 := Chain.unique 2 _ _ c2'' c2'
    subst e2
    exact ⟨tr 0 R T1 (by omega) c0 l0, tr 1 T1 T2' (by omega) c1 l1, l2', hb3⟩

end Firefly.Vmm
