import Firefly.Spec.C16
import Firefly.Proof.RingLemmas
import Firefly.Proof.PrefixLemmas
/-! Lemmas about the bring-up model (C16). Core Lean only. -/
namespace Firefly.Hal
open Firefly.Ring Firefly.Prefix Firefly.C16.Spec

/-- two states agree on everything except the log data (ring, ttyRecv, logged) -/
def SameCtl (a b : Hal) : Prop :=
  a.activeConsole = b.activeConsole ∧ a.activeTTY = b.activeTTY ∧ a.activeDrivers = b.activeDrivers ∧
  a.sink = b.sink ∧ a.ttyAttached = b.ttyAttached ∧ a.ttyState = b.ttyState ∧
  a.ttyAttachCalls = b.ttyAttachCalls ∧ a.ttySetStateCalls = b.ttySetStateCalls ∧
  a.probes = b.probes ∧ a.inits = b.inits ∧ a.linkedAt = b.linkedAt

theorem SameCtl.refl (a : Hal) : SameCtl a a := by simp [SameCtl]

theorem SameCtl.trans {a b c : Hal} (h1 : SameCtl a b) (h2 : SameCtl b c) : SameCtl a c := by
  simp only [SameCtl] at *
  obtain ⟨a1, a2, a3, a4, a5, a6, a7, a8, a9, a10, a11⟩ := h1
  obtain ⟨b1, b2, b3, b4, b5, b6, b7, b8, b9, b10, b11⟩ := h2
  exact ⟨a1.trans b1, a2.trans b2, a3.trans b3, a4.trans b4, a5.trans b5, a6.trans b6, a7.trans b7,
    a8.trans b8, a9.trans b9, a10.trans b10, a11.trans b11⟩

theorem writeTo_sameCtl (st : Hal) (tgt : Option Nat) (bs : List UInt8) : SameCtl (st.writeTo tgt bs) st := by
  cases tgt <;> simp [Hal.writeTo, SameCtl]

theorem writeTo_logged (st : Hal) (tgt : Option Nat) (bs : List UInt8) :
    (st.writeTo tgt bs).logged = st.logged ++ bs := by
  cases tgt <;> simp [Hal.writeTo]

/-- the invariant tying the sink, the link and the log together -/
def Inv (st : Hal) : Prop :=
  st.ring.WF ∧
  (st.sink = if st.activeConsole.isSome && st.activeTTY.isSome then st.activeTTY else none) ∧
  (st.sink = none → st.ttyRecv = [] ∧ st.linkedAt = none ∧ st.ring.contents = lastN cap st.logged ∧
      st.ttyAttached = none ∧ st.ttyState = stateInactive) ∧
  (∀ t, st.sink = some t → st.ttyAttached = st.activeConsole ∧ st.ttyState = stateActive ∧
      st.ring.contents = [] ∧
      ∃ n, st.linkedAt = some n ∧ n ≤ st.logged.length ∧
        st.ttyRecv = lastN cap (st.logged.take n) ++ st.logged.drop n) ∧
  -- the terminal is attached and activated exactly once, at the link (never re-attached: `VT.AttachTo` resets it)
  (st.ttyAttachCalls = (if st.sink.isSome then 1 else 0) ∧ st.ttySetStateCalls = (if st.sink.isSome then 1 else 0))

/-- a write to the current sink keeps the invariant -/
theorem writeTo_inv (st : Hal) (bs : List UInt8) (h : Inv st) : Inv (st.writeTo st.sink bs) := by
  obtain ⟨hwf, hsink, hnone, hsome, hcnt⟩ := h
  have hcnt' : (st.writeTo st.sink bs).ttyAttachCalls = (if (st.writeTo st.sink bs).sink.isSome then 1 else 0) ∧
      (st.writeTo st.sink bs).ttySetStateCalls = (if (st.writeTo st.sink bs).sink.isSome then 1 else 0) := by
    obtain ⟨_, _, _, c4, _, _, c7, c8, _, _, _⟩ := writeTo_sameCtl st st.sink bs
    rw [c4, c7, c8]; exact hcnt
  cases hs : st.sink with
  | none =>
    obtain ⟨h1, h2, h3, h4, h5⟩ := hnone hs
    rw [hs] at hcnt'
    refine ⟨?_, ?_, ?_, ?_, hcnt'⟩
    · exact write_wf _ _ hwf
    · simpa [Hal.writeTo, hs] using hsink
    · intro _
      refine ⟨h1, h2, ?_, h4, h5⟩
      simp only [Hal.writeTo]
      rw [write_contents _ _ hwf, h3, lastN_lastN_append]
    · intro t ht; simp [Hal.writeTo, hs] at ht
  | some t0 =>
    obtain ⟨h1, h2, h3, n, h4, h5, h6⟩ := hsome t0 hs
    rw [hs] at hcnt'
    refine ⟨hwf, ?_, ?_, ?_, hcnt'⟩
    · simpa [Hal.writeTo, hs] using hsink
    · intro hn; simp [Hal.writeTo, hs] at hn
    · intro t _
      refine ⟨h1, h2, h3, n, h4, ?_, ?_⟩
      · simp [Hal.writeTo]; omega
      · simp only [Hal.writeTo]
        rw [h6, List.take_append_of_le_length h5, List.drop_append_of_le_length h5, List.append_assoc]

/-- predicates closed under writes to `tgt` survive a `PrefixWriter.Write` and a sequence of them -/
theorem pwWrite_keeps (tgt : Option Nat) (P : Hal → Prop) (hP : ∀ st c, P st → P (st.writeTo tgt c))
    (s : Hal × PW) (p : List UInt8) (h : P s.1) : P (pwWrite tgt s p).1 := by
  unfold pwWrite
  simp only
  generalize (s.2.write p).chunks = cs
  induction cs generalizing s with
  | nil => exact h
  | cons c t ih => exact ih (s.1.writeTo tgt c, s.2) (hP _ _ h)

theorem pwWrites_keeps (tgt : Option Nat) (P : Hal → Prop) (hP : ∀ st c, P st → P (st.writeTo tgt c))
    (s : Hal × PW) (ps : List (List UInt8)) (h : P s.1) : P (pwWrites tgt s ps).1 := by
  unfold pwWrites
  induction ps generalizing s with
  | nil => exact h
  | cons p t ih => exact ih _ (pwWrite_keeps tgt P hP s p h)

theorem foldl_writeTo_logged (tgt : Option Nat) (st : Hal) (cs : List (List UInt8)) :
    (cs.foldl (fun st c => st.writeTo tgt c) st).logged = st.logged ++ cs.flatten := by
  induction cs generalizing st with
  | nil => simp
  | cons c t ih => simp [ih, writeTo_logged]

/-- the log after a sequence of `PrefixWriter.Write`s: the prefix precedes every line start, for
every chunking -/
theorem pwWrites_logged (tgt : Option Nat) (s : Hal × PW) (ps : List (List UInt8)) :
    (pwWrites tgt s ps).1.logged = s.1.logged ++ prefixStream s.2.pfx s.2.atStart ps.flatten ∧
    (pwWrites tgt s ps).2.atStart = lineState s.2.atStart ps.flatten ∧
    (pwWrites tgt s ps).2.pfx = s.2.pfx := by
  unfold pwWrites
  induction ps generalizing s with
  | nil => simp [prefixStream, lineState]
  | cons p t ih =>
    obtain ⟨i1, i2, i3⟩ := ih (pwWrite tgt s p)
    simp only [List.foldl_cons, List.flatten_cons]
    rw [i1, i2, i3]
    have e1 : (pwWrite tgt s p).1.logged = s.1.logged ++ prefixStream s.2.pfx s.2.atStart p := by
      simp only [pwWrite]; rw [foldl_writeTo_logged, write_stream]
    have e2 : (pwWrite tgt s p).2.atStart = lineState s.2.atStart p := by
      simp only [pwWrite]; exact write_atStart _ _
    have e3 : (pwWrite tgt s p).2.pfx = s.2.pfx := rfl
    rw [e1, e2, e3, prefixStream_append, lineState_append, List.append_assoc]
    exact ⟨rfl, rfl, rfl⟩

theorem bytewise_flatten (bs : List UInt8) : (bytewise bs).flatten = bs := by
  induction bs with
  | nil => rfl
  | cons b t ih => simp [bytewise] at ih ⊢; exact ih

theorem tailOf_ends (d : Driver) : ∃ body, tailOf d = body ++ [10] := by
  unfold tailOf; split
  · exact ⟨_, rfl⟩
  · exact ⟨_, rfl⟩

/-- the state after a probed driver's `DriverInit` output and status line were written -/
def afterLogs (s : Hal × PW) (d : Driver) : Hal × PW :=
  pwWrites s.1.sink
    (pwWrites s.1.sink ({ s.1 with probes := s.1.probes ++ [d.id], inits := s.1.inits ++ [d.id] }, { s.2 with pfx := halPrefix d })
      d.initLog)
    (bytewise (tailOf d))

theorem probeOne_eq (s : Hal × PW) (d : Driver) :
    probeOne s d =
      if d.probeOk = false then ({ s.1 with probes := s.1.probes ++ [d.id] }, s.2)
      else match d.initErr with
        | some _ => afterLogs s d
        | none =>
          ({ (afterLogs s d).1.onDriverInit d with activeDrivers := ((afterLogs s d).1.onDriverInit d).activeDrivers ++ [d.id] },
            (afterLogs s d).2) := by
  unfold probeOne afterLogs
  split
  · rfl
  · rfl

/-- everything `afterLogs` does -/
theorem afterLogs_spec (s : Hal × PW) (d : Driver) (hinv : Inv s.1) :
    let a := afterLogs s d
    Inv a.1 ∧ a.1.activeConsole = s.1.activeConsole ∧ a.1.activeTTY = s.1.activeTTY ∧
    a.1.activeDrivers = s.1.activeDrivers ∧ a.1.sink = s.1.sink ∧
    a.1.probes = s.1.probes ++ [d.id] ∧ a.1.inits = s.1.inits ++ [d.id] ∧
    a.1.logged = s.1.logged ++ prefixStream (halPrefix d) s.2.atStart (d.initLog.flatten ++ tailOf d) ∧
    a.2.atStart = true ∧ a.1.linkedAt = s.1.linkedAt := by
  intro a
  let s0 : Hal × PW := ({ s.1 with probes := s.1.probes ++ [d.id], inits := s.1.inits ++ [d.id] }, { s.2 with pfx := halPrefix d })
  -- predicate carried through the writes
  let P : Hal → Prop := fun st => Inv st ∧ SameCtl st s0.1
  have hP : ∀ st c, P st → P (st.writeTo s.1.sink c) := by
    intro st c ⟨hi, hc⟩
    have hsk : st.sink = s.1.sink := hc.2.2.2.1
    refine ⟨?_, (writeTo_sameCtl st _ c).trans hc⟩
    rw [← hsk]; exact writeTo_inv st c hi
  have hP0 : P s0.1 := by
    refine ⟨?_, SameCtl.refl _⟩
    obtain ⟨h1, h2, h3, h4, h5⟩ := hinv
    exact ⟨h1, h2, h3, h4, h5⟩
  have h1 : P (pwWrites s.1.sink s0 d.initLog).1 := pwWrites_keeps _ P hP s0 _ hP0
  have h2 : P a.1 := pwWrites_keeps _ P hP _ _ h1
  obtain ⟨l1, l2, l3⟩ := pwWrites_logged s.1.sink s0 d.initLog
  obtain ⟨m1, m2, m3⟩ := pwWrites_logged s.1.sink (pwWrites s.1.sink s0 d.initLog) (bytewise (tailOf d))
  obtain ⟨hi, c1, c2, c3, c4, _, _, _, _, c9, c10, c11⟩ := h2
  refine ⟨hi, c1, c2, c3, c4, c9, c10, ?_, ?_, c11⟩
  · show (pwWrites s.1.sink (pwWrites s.1.sink s0 d.initLog) (bytewise (tailOf d))).1.logged = _
    rw [m1, l1, l3, l2, bytewise_flatten, prefixStream_append, List.append_assoc]
    rfl
  · show (pwWrites s.1.sink (pwWrites s.1.sink s0 d.initLog) (bytewise (tailOf d))).2.atStart = _
    rw [m2, bytewise_flatten]
    obtain ⟨body, hb⟩ := tailOf_ends d
    rw [hb]; exact lineState_snoc_newline _ _

/-- `linkTTYToConsole` from an unlinked state -/
theorem link_spec (st : Hal) (t c : Nat) (hwf : st.ring.WF) (hs : st.sink = none) (hr : st.ttyRecv = [])
    (hc : st.ring.contents = lastN cap st.logged) (hcon : st.activeConsole = some c) (htty : st.activeTTY = some t)
    (hcnt : st.ttyAttachCalls = 0 ∧ st.ttySetStateCalls = 0) :
    Inv st.link ∧ st.link.activeConsole = st.activeConsole ∧ st.link.activeTTY = st.activeTTY ∧
    st.link.activeDrivers = st.activeDrivers ∧ st.link.probes = st.probes ∧ st.link.inits = st.inits ∧
    st.link.logged = st.logged := by
  obtain ⟨d1, d2, d3⟩ := drainAll_spec st.ring hwf
  unfold Hal.link
  rw [htty]
  simp only [Hal.setOutputSink]
  refine ⟨⟨d3, ?_, ?_, ?_, ?_⟩, trivial, trivial, trivial, trivial, trivial, trivial⟩
  rotate_left 3
  · simp [hcnt.1, hcnt.2]
  · simp [hcon, htty]
  · intro h; simp at h
  · intro t' _
    refine ⟨rfl, rfl, d2, st.logged.length, rfl, Nat.le_refl _, ?_⟩
    -- (explicit rewriting: `simp` here leaves a `rfl` the kernel can only check by unfolding the drain loop)
    show st.ttyRecv ++ st.ring.drainAll.1 = lastN cap (st.logged.take st.logged.length) ++ st.logged.drop st.logged.length
    rw [hr, d1, hc, List.take_length, List.drop_length, List.nil_append, List.append_nil]

theorem odi_other (st : Hal) (d : Driver) (hk : d.kind = .other) : st.onDriverInit d = st := by
  unfold Hal.onDriverInit; simp [hk]

theorem odi_console_skip (st : Hal) (d : Driver) (c : Nat) (hk : d.kind = .console) (hc : st.activeConsole = some c) :
    st.onDriverInit d = st := by
  unfold Hal.onDriverInit; simp [hk, hc]

theorem odi_console_first (st : Hal) (d : Driver) (hk : d.kind = .console) (hc : st.activeConsole = none)
    (ht : st.activeTTY = none) : st.onDriverInit d = { st with activeConsole := some d.id } := by
  unfold Hal.onDriverInit; simp [hk, hc, ht]

theorem odi_console_link (st : Hal) (d : Driver) (t : Nat) (hk : d.kind = .console) (hc : st.activeConsole = none)
    (ht : st.activeTTY = some t) : st.onDriverInit d = ({ st with activeConsole := some d.id } : Hal).link := by
  unfold Hal.onDriverInit; simp [hk, hc, ht]

theorem odi_tty_skip (st : Hal) (d : Driver) (c : Nat) (hk : d.kind = .tty) (hc : st.activeTTY = some c) :
    st.onDriverInit d = st := by
  unfold Hal.onDriverInit; simp [hk, hc]

theorem odi_tty_first (st : Hal) (d : Driver) (hk : d.kind = .tty) (ht : st.activeTTY = none)
    (hc : st.activeConsole = none) : st.onDriverInit d = { st with activeTTY := some d.id } := by
  unfold Hal.onDriverInit; simp [hk, hc, ht]

theorem odi_tty_link (st : Hal) (d : Driver) (c : Nat) (hk : d.kind = .tty) (ht : st.activeTTY = none)
    (hc : st.activeConsole = some c) : st.onDriverInit d = ({ st with activeTTY := some d.id } : Hal).link := by
  unfold Hal.onDriverInit; simp [hk, hc, ht]

theorem onDriverInit_spec (st : Hal) (d : Driver) (hinv : Inv st) :
    Inv (st.onDriverInit d) ∧
    (st.onDriverInit d).activeConsole = (if d.kind = .console ∧ st.activeConsole = none then some d.id else st.activeConsole) ∧
    (st.onDriverInit d).activeTTY = (if d.kind = .tty ∧ st.activeTTY = none then some d.id else st.activeTTY) ∧
    (st.onDriverInit d).activeDrivers = st.activeDrivers ∧ (st.onDriverInit d).probes = st.probes ∧
    (st.onDriverInit d).inits = st.inits ∧ (st.onDriverInit d).logged = st.logged := by
  have hinv0 := hinv
  obtain ⟨hwf, hsink, hnone, hsome, hcnt⟩ := hinv
  rcases hk : d.kind with _ | _ | _
  · -- console
    rcases Option.eq_none_or_eq_some st.activeConsole with hc | ⟨c, hc⟩
    · have hs : st.sink = none := by rw [hsink, hc]; rfl
      obtain ⟨n1, n2, n3, n4, n5⟩ := hnone hs
      rcases Option.eq_none_or_eq_some st.activeTTY with ht | ⟨t, ht⟩
      · rw [odi_console_first st d hk hc ht]
        refine ⟨⟨hwf, ?_, ?_, ?_, hcnt⟩, ?_, ?_, rfl, rfl, rfl, rfl⟩
        · simp [hs, ht]
        · intro _; exact ⟨n1, n2, n3, n4, n5⟩
        · intro t h; simp [hs] at h
        · simp [hc]
        · simp
      · rw [odi_console_link st d t hk hc ht]
        obtain ⟨i, l1, l2, l3, l4, l5, l6⟩ := link_spec { st with activeConsole := some d.id } t d.id hwf hs n1 n3 rfl ht (by simpa [hs] using hcnt)
        refine ⟨i, ?_, ?_, l3, l4, l5, l6⟩
        · rw [l1]; simp [hc]
        · rw [l2]; simp
    · rw [odi_console_skip st d c hk hc]
      refine ⟨hinv0, ?_, ?_, rfl, rfl, rfl, rfl⟩
      · simp [hc]
      · simp
  · -- tty
    rcases Option.eq_none_or_eq_some st.activeTTY with ht | ⟨t, ht⟩
    · have hs : st.sink = none := by rw [hsink, ht]; simp
      obtain ⟨n1, n2, n3, n4, n5⟩ := hnone hs
      rcases Option.eq_none_or_eq_some st.activeConsole with hc | ⟨c, hc⟩
      · rw [odi_tty_first st d hk ht hc]
        refine ⟨⟨hwf, ?_, ?_, ?_, hcnt⟩, ?_, ?_, rfl, rfl, rfl, rfl⟩
        · simp [hs, hc]
        · intro _; exact ⟨n1, n2, n3, n4, n5⟩
        · intro t h; simp [hs] at h
        · simp
        · simp [ht]
      · rw [odi_tty_link st d c hk ht hc]
        obtain ⟨i, l1, l2, l3, l4, l5, l6⟩ := link_spec { st with activeTTY := some d.id } d.id c hwf hs n1 n3 hc rfl (by simpa [hs] using hcnt)
        refine ⟨i, ?_, ?_, l3, l4, l5, l6⟩
        · rw [l1]; simp
        · rw [l2]; simp [ht]
    · rw [odi_tty_skip st d t hk ht]
      refine ⟨hinv0, ?_, ?_, rfl, rfl, rfl, rfl⟩
      · simp
      · simp [ht]
  · rw [odi_other st d hk]
    refine ⟨hinv0, ?_, ?_, rfl, rfl, rfl, rfl⟩ <;> simp

/-- how a console/TTY slot evolves: once taken it stays, otherwise the candidate takes it -/
def pick (cur : Option Nat) (o : Option Driver) : Option Nat :=
  match cur with
  | some c => some c
  | none => o.map (·.id)

theorem pick_none (cur : Option Nat) : pick cur none = cur := by cases cur <;> rfl

/-- one iteration of the probe loop -/
theorem probeOne_spec (s : Hal × PW) (d : Driver) (hinv : Inv s.1) (hat : s.2.atStart = true) :
    Inv (probeOne s d).1 ∧ (probeOne s d).2.atStart = true ∧
    (probeOne s d).1.probes = s.1.probes ++ [d.id] ∧
    (probeOne s d).1.inits = s.1.inits ++ (if d.probeOk then [d.id] else []) ∧
    (probeOne s d).1.activeConsole = pick s.1.activeConsole (if succ d && d.kind == .console then some d else none) ∧
    (probeOne s d).1.activeTTY = pick s.1.activeTTY (if succ d && d.kind == .tty then some d else none) ∧
    (probeOne s d).1.activeDrivers = s.1.activeDrivers ++ (if succ d then [d.id] else []) ∧
    (probeOne s d).1.logged = s.1.logged ++ driverLog d := by
  rw [probeOne_eq]
  cases hp : d.probeOk with
  | false =>
    simp only [if_true, succ, hp, Bool.false_and, Bool.false_eq_true, if_false, List.append_nil, driverLog]
    obtain ⟨h1, h2, h3, h4, h5⟩ := hinv
    refine ⟨⟨h1, h2, h3, h4, h5⟩, hat, ?_⟩
    simp [pick_none]
  | true =>
    obtain ⟨a1, a2, a3, a4, a5, a6, a7, a8, a9, _⟩ := afterLogs_spec s d hinv
    rw [hat] at a8
    simp only [Bool.true_eq_false, if_false, if_true, succ, hp, Bool.true_and, driverLog]
    cases he : d.initErr with
    | some msg =>
      simp only [Option.isNone_some, Bool.false_and, Bool.false_eq_true, if_false, List.append_nil]
      refine ⟨a1, a9, a6, a7, ?_, ?_, a4, a8⟩
      · rw [a2, pick_none]
      · rw [a3, pick_none]
    | none =>
      obtain ⟨o1, o2, o3, o4, o5, o6, o7⟩ := onDriverInit_spec (afterLogs s d).1 d a1
      simp only [Option.isNone_none, Bool.true_and, if_true]
      refine ⟨?_, a9, o5.trans a6, o6.trans a7, ?_, ?_, ?_, o7.trans a8⟩
      · obtain ⟨h1, h2, h3, h4, h5⟩ := o1
        exact ⟨h1, h2, h3, h4, h5⟩
      · show ((afterLogs s d).1.onDriverInit d).activeConsole = _
        rw [o2, a2]
        rcases Option.eq_none_or_eq_some s.1.activeConsole with hc | ⟨c, hc⟩ <;> rw [hc] <;>
          rcases hk : d.kind with _ | _ | _ <;> simp [pick]
      · show ((afterLogs s d).1.onDriverInit d).activeTTY = _
        rw [o3, a3]
        rcases Option.eq_none_or_eq_some s.1.activeTTY with hc | ⟨c, hc⟩ <;> rw [hc] <;>
          rcases hk : d.kind with _ | _ | _ <;> simp [pick]
      · show ((afterLogs s d).1.onDriverInit d).activeDrivers ++ [d.id] = _
        rw [o4, a4]

theorem pick_pick (cur : Option Nat) (a : Option Driver) (b : Option Driver) :
    pick (pick cur a) b = pick cur (match a with | some x => some x | none => b) := by
  cases cur <;> cases a <;> simp [pick]

/-- the whole probe loop -/
theorem probeFold_spec (ds : List Driver) (s : Hal × PW) (hinv : Inv s.1) (hat : s.2.atStart = true) :
    Inv (ds.foldl probeOne s).1 ∧ (ds.foldl probeOne s).2.atStart = true ∧
    (ds.foldl probeOne s).1.probes = s.1.probes ++ ds.map (·.id) ∧
    (ds.foldl probeOne s).1.inits = s.1.inits ++ (ds.filter (·.probeOk)).map (·.id) ∧
    (ds.foldl probeOne s).1.activeConsole = pick s.1.activeConsole (firstOf .console ds) ∧
    (ds.foldl probeOne s).1.activeTTY = pick s.1.activeTTY (firstOf .tty ds) ∧
    (ds.foldl probeOne s).1.activeDrivers = s.1.activeDrivers ++ activeIds ds ∧
    (ds.foldl probeOne s).1.logged = s.1.logged ++ (ds.map driverLog).flatten := by
  induction ds generalizing s with
  | nil =>
    simp [firstOf, activeIds, pick_none]
    exact ⟨hinv, hat⟩
  | cons d t ih =>
    obtain ⟨p1, p2, p3, p4, p5, p6, p7, p8⟩ := probeOne_spec s d hinv hat
    obtain ⟨i1, i2, i3, i4, i5, i6, i7, i8⟩ := ih (probeOne s d) p1 p2
    simp only [List.foldl_cons]
    refine ⟨i1, i2, ?_, ?_, ?_, ?_, ?_, ?_⟩
    · rw [i3, p3]; simp
    · rw [i4, p4]; simp only [List.filter_cons]; cases d.probeOk <;> simp
    · rw [i5, p5, pick_pick]; congr 1
      simp only [firstOf, List.find?_cons]
      cases (succ d && d.kind == Kind.console) <;> rfl
    · rw [i6, p6, pick_pick]; congr 1
      simp only [firstOf, List.find?_cons]
      cases (succ d && d.kind == Kind.tty) <;> rfl
    · rw [i7, p7]; simp only [activeIds, List.filter_cons]
      cases succ d <;> simp
    · rw [i8, p8]; simp

end Firefly.Hal

namespace Firefly.Hal
open Firefly.Ring Firefly.Prefix Firefly.C16.Spec

theorem boot_inv (p : Nat) (hp : p < N) : Inv (boot p) := by
  refine ⟨emptyAt_wf p hp, rfl, ?_, ?_, ⟨rfl, rfl⟩⟩
  · intro _
    refine ⟨rfl, rfl, ?_, rfl, rfl⟩
    show (emptyAt p).contents = lastN cap []
    rw [emptyAt_contents, lastN_nil]
  · intro t h; cases h

/-- plain log output keeps the invariant and touches nothing but the log data -/
theorem logs_spec (st : Hal) (cs : List (List UInt8)) (hinv : Inv st) :
    Inv (cs.foldl Hal.log st) ∧ SameCtl (cs.foldl Hal.log st) st ∧
    (cs.foldl Hal.log st).logged = st.logged ++ cs.flatten := by
  induction cs generalizing st with
  | nil => simp [hinv, SameCtl.refl]
  | cons c t ih =>
    have h1 : Inv (st.log c) := writeTo_inv st c hinv
    obtain ⟨i1, i2, i3⟩ := ih (st.log c) h1
    refine ⟨i1, i2.trans (writeTo_sameCtl st st.sink c), ?_⟩
    simp only [List.foldl_cons]
    rw [i3]; simp [Hal.log, writeTo_logged]

/-- everything about a whole boot history -/
theorem bringUp_spec (sort : List Driver → List Driver) (p : Nat) (hp : p < N) (before : List (List UInt8))
    (regs : List Driver) (after : List (List UInt8)) :
    let st := bringUp sort p before regs after
    Inv st ∧
    st.probes = (sort regs).map (·.id) ∧
    st.inits = ((sort regs).filter (·.probeOk)).map (·.id) ∧
    st.activeConsole = (firstOf .console (sort regs)).map (·.id) ∧
    st.activeTTY = (firstOf .tty (sort regs)).map (·.id) ∧
    st.activeDrivers = activeIds (sort regs) ∧
    st.logged = before.flatten ++ ((sort regs).map driverLog).flatten ++ after.flatten := by
  intro st
  obtain ⟨b1, b2, b3⟩ := logs_spec (boot p) before (boot_inv p hp)
  obtain ⟨f1, _, f3, f4, f5, f6, f7, f8⟩ :=
    probeFold_spec (sort regs) (before.foldl Hal.log (boot p), ({} : PW)) b1 rfl
  obtain ⟨a1, a2, a3⟩ := logs_spec _ after f1
  obtain ⟨c1, c2, c3, _, _, _, _, _, c9, c10, _⟩ := a2
  obtain ⟨d1, d2, d3, _, _, _, _, _, d9, d10, _⟩ := b2
  have e : st = after.foldl Hal.log ((sort regs).foldl probeOne (before.foldl Hal.log (boot p), ({} : PW))).1 := rfl
  refine ⟨e ▸ a1, ?_, ?_, ?_, ?_, ?_, ?_⟩
  · rw [e, c9, f3, d9]; rfl
  · rw [e, c10, f4, d10]; rfl
  · rw [e, c1, f5, d1]; rfl
  · rw [e, c2, f6, d2]; rfl
  · rw [e, c3, f7, d3]; rfl
  · rw [e, a3, f8, b3]; rfl

end Firefly.Hal

namespace Firefly.Ring
open Firefly.C16.Spec

/-- a history on the ring refines the same history on the queue -/
theorem runRing_refines (ops : List RingOp) (rb : Ring) (h : rb.WF) :
    (runRing rb ops).1.WF ∧
    (runRing rb ops).1.contents = (runQueue rb.contents ops ((runRing rb ops).2.map List.length)).1 ∧
    (runRing rb ops).2 = (runQueue rb.contents ops ((runRing rb ops).2.map List.length)).2 := by
  induction ops generalizing rb with
  | nil => exact ⟨h, rfl, rfl⟩
  | cons op t ih =>
    cases op with
    | write bs =>
      obtain ⟨i1, i2, i3⟩ := ih (rb.write bs) (write_wf rb bs h)
      rw [write_contents rb bs h] at i2 i3
      have e1 : runRing rb (RingOp.write bs :: t) = runRing (rb.write bs) t := rfl
      have e2 : ∀ q ns, runQueue q (RingOp.write bs :: t) ns = runQueue (lastN cap (q ++ bs)) t ns := fun _ _ => rfl
      rw [e1, e2]
      exact ⟨i1, i2, i3⟩
    | read k =>
      obtain ⟨r1, r2, _, r4, _, _, _⟩ := read_spec rb k h
      obtain ⟨i1, i2, i3⟩ := ih (rb.read k).ring r4
      have q1 : runRing rb (RingOp.read k :: t) = ((runRing (rb.read k).ring t).1, (rb.read k).out :: (runRing (rb.read k).ring t).2) := rfl
      have q2 : ∀ q n ns, runQueue q (RingOp.read k :: t) (n :: ns) = ((runQueue (q.drop n) t ns).1, q.take n :: (runQueue (q.drop n) t ns).2) := fun _ _ _ => rfl
      rw [q1]
      simp only [List.map_cons]
      rw [q2]
      have e1 : rb.contents.drop (rb.read k).out.length = (rb.read k).ring.contents := by
        conv => lhs; rw [r1]
        simp
      have e2 : rb.contents.take (rb.read k).out.length = (rb.read k).out := by
        conv => lhs; rw [r1]
        simp
      rw [e1, e2]
      exact ⟨i1, i2, by rw [← i3]⟩

end Firefly.Ring

/-! ### the moment of the link -/
namespace Firefly.Hal
open Firefly.Ring Firefly.Prefix Firefly.C16.Spec

theorem link_sink (st : Hal) (t : Nat) (h : st.activeTTY = some t) : st.link.sink = some t := by
  unfold Hal.link; rw [h]; rfl

theorem link_linkedAt (st : Hal) (t : Nat) (h : st.activeTTY = some t) : st.link.linkedAt = some st.logged.length := by
  unfold Hal.link; rw [h]; rfl

/-- `onDriverInit` records the link moment exactly when it links -/
theorem onDriverInit_linkedAt (st : Hal) (d : Driver) (hinv : Inv st) :
    (st.onDriverInit d).linkedAt =
      if st.sink = none ∧ (st.onDriverInit d).sink ≠ none then some st.logged.length else st.linkedAt := by
  obtain ⟨_, hsink, _, _, _⟩ := hinv
  rcases hk : d.kind with _ | _ | _
  · rcases Option.eq_none_or_eq_some st.activeConsole with hc | ⟨c, hc⟩
    · have hs : st.sink = none := by rw [hsink, hc]; rfl
      rcases Option.eq_none_or_eq_some st.activeTTY with ht | ⟨t, ht⟩
      · rw [odi_console_first st d hk hc ht]; simp [hs]
      · rw [odi_console_link st d t hk hc ht, link_sink ({ st with activeConsole := some d.id }) t ht,
          link_linkedAt ({ st with activeConsole := some d.id }) t ht]; simp [hs]
    · rw [odi_console_skip st d c hk hc]; simp
  · rcases Option.eq_none_or_eq_some st.activeTTY with ht | ⟨t, ht⟩
    · have hs : st.sink = none := by rw [hsink, ht]; simp
      rcases Option.eq_none_or_eq_some st.activeConsole with hc | ⟨c, hc⟩
      · rw [odi_tty_first st d hk ht hc]; simp [hs]
      · rw [odi_tty_link st d c hk ht hc, link_sink ({ st with activeTTY := some d.id }) d.id rfl,
          link_linkedAt ({ st with activeTTY := some d.id }) d.id rfl]; simp [hs]
    · rw [odi_tty_skip st d t hk ht]; simp
  · rw [odi_other st d hk]; simp

theorem probeOne_linkedAt (s : Hal × PW) (d : Driver) (hinv : Inv s.1) (hat : s.2.atStart = true) :
    (probeOne s d).1.linkedAt =
      if s.1.sink = none ∧ (probeOne s d).1.sink ≠ none then some (s.1.logged ++ driverLog d).length
      else s.1.linkedAt := by
  rw [probeOne_eq]
  cases hp : d.probeOk with
  | false => simp
  | true =>
    obtain ⟨a1, _, _, _, a5, _, _, a8, _, a10⟩ := afterLogs_spec s d hinv
    rw [hat] at a8
    simp only [Bool.true_eq_false, if_false]
    cases he : d.initErr with
    | some msg => simp only [a5, a10]; simp
    | none =>
      simp only
      rw [onDriverInit_linkedAt _ d a1, a5, a10, a8]
      simp only [driverLog, hp, if_true]

theorem pick_isSome (cur : Option Nat) (o : Option Driver) : (pick cur o).isSome = (cur.isSome || o.isSome) := by
  cases cur <;> cases o <;> rfl

theorem inv_sink_ne_none (st : Hal) (h : Inv st) :
    (st.sink ≠ none) ↔ (st.activeConsole.isSome && st.activeTTY.isSome) = true := by
  rw [h.2.1]
  cases hc : st.activeConsole <;> cases ht : st.activeTTY <;> simp

/-- once linked, the recorded moment never changes -/
theorem probeFold_linkedAt_some (ds : List Driver) (s : Hal × PW) (hinv : Inv s.1) (hat : s.2.atStart = true)
    (hs : s.1.sink ≠ none) : (ds.foldl probeOne s).1.linkedAt = s.1.linkedAt ∧ (ds.foldl probeOne s).1.sink ≠ none := by
  induction ds generalizing s with
  | nil => exact ⟨rfl, hs⟩
  | cons d t ih =>
    obtain ⟨p1, p2, _, _, p5, p6, _, _⟩ := probeOne_spec s d hinv hat
    have hs' : (probeOne s d).1.sink ≠ none := by
      rw [inv_sink_ne_none _ p1, p5, p6, pick_isSome, pick_isSome]
      have := (inv_sink_ne_none _ hinv).1 hs
      simp only [Bool.and_eq_true] at this
      simp [this.1, this.2]
    obtain ⟨i1, i2⟩ := ih (probeOne s d) p1 p2 hs'
    simp only [List.foldl_cons]
    refine ⟨?_, i2⟩
    rw [i1, probeOne_linkedAt s d hinv hat]
    simp [hs]

/-- the link happens right after the status line of the driver that completes the pair -/
theorem probeFold_linkedAt (ds : List Driver) (s : Hal × PW) (hinv : Inv s.1) (hat : s.2.atStart = true)
    (hs : s.1.sink = none) :
    (ds.foldl probeOne s).1.linkedAt =
      match linkMoment s.1.logged.length ds s.1.activeConsole.isSome s.1.activeTTY.isSome with
      | some n => some n
      | none => s.1.linkedAt := by
  induction ds generalizing s with
  | nil => simp [linkMoment, linkCount]
  | cons d t ih =>
    obtain ⟨p1, p2, _, _, p5, p6, _, p8⟩ := probeOne_spec s d hinv hat
    have hl := probeOne_linkedAt s d hinv hat
    have e1 : (s.1.activeConsole.isSome || (succ d && d.kind == Kind.console)) = (probeOne s d).1.activeConsole.isSome := by
      rw [p5, pick_isSome]; congr 1; cases (succ d && d.kind == Kind.console) <;> rfl
    have e2 : (s.1.activeTTY.isSome || (succ d && d.kind == Kind.tty)) = (probeOne s d).1.activeTTY.isSome := by
      rw [p6, pick_isSome]; congr 1; cases (succ d && d.kind == Kind.tty) <;> rfl
    simp only [List.foldl_cons, linkMoment, linkCount, e1, e2]
    by_cases hb : ((probeOne s d).1.activeConsole.isSome && (probeOne s d).1.activeTTY.isSome) = true
    · have hs' : (probeOne s d).1.sink ≠ none := (inv_sink_ne_none _ p1).2 hb
      rw [(probeFold_linkedAt_some t _ p1 p2 hs').1, hl]
      simp [hs, hs', hb]
    · have hs' : (probeOne s d).1.sink = none := by
        cases h : (probeOne s d).1.sink with
        | none => rfl
        | some x => exact absurd ((inv_sink_ne_none _ p1).1 (by rw [h]; simp)) hb
      rw [ih _ p1 p2 hs', hl]
      simp only [hb, hs', linkMoment, p8]
      cases linkCount t (probeOne s d).1.activeConsole.isSome (probeOne s d).1.activeTTY.isSome with
      | none => simp
      | some j => simp; omega

theorem bringUp_linkedAt (sort : List Driver → List Driver) (p : Nat) (hp : p < N) (before : List (List UInt8))
    (regs : List Driver) (after : List (List UInt8)) :
    (bringUp sort p before regs after).linkedAt = linkMoment before.flatten.length (sort regs) false false := by
  obtain ⟨b1, b2, b3⟩ := logs_spec (boot p) before (boot_inv p hp)
  obtain ⟨d1, d2, _, d4, _, _, _, _, _, _, d11⟩ := b2
  have hs : (before.foldl Hal.log (boot p), ({} : PW)).1.sink = none := d4
  have hf := probeFold_linkedAt (sort regs) (before.foldl Hal.log (boot p), ({} : PW)) b1 rfl hs
  obtain ⟨f1, _⟩ := probeFold_spec (sort regs) (before.foldl Hal.log (boot p), ({} : PW)) b1 rfl
  obtain ⟨_, a2, _⟩ := logs_spec _ after f1
  have e : bringUp sort p before regs after =
      after.foldl Hal.log ((sort regs).foldl probeOne (before.foldl Hal.log (boot p), ({} : PW))).1 := rfl
  rw [e, a2.2.2.2.2.2.2.2.2.2.2, hf]
  have : (boot p).logged = [] := rfl
  simp only [d1, d2, d11, b3, this, List.nil_append]
  show (match linkMoment before.flatten.length (sort regs) false false with
    | some n => some n
    | none => none) = _
  cases linkMoment before.flatten.length (sort regs) false false <;> rfl

end Firefly.Hal
