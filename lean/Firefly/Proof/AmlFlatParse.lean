import Firefly.Proof.AmlFlatQuiet
/-!
C11, the flat fragment: `ParseAML` on a table that is a sequence of `Name(NAME, integer)` declarations succeeds, and the
pool it returns holds exactly the declared objects.
-/
namespace Firefly.AmlParser.F
open Firefly.AmlLex Firefly.AmlTree Firefly.C13 Firefly.AmlParser Firefly.AmlParser.G Firefly.AmlParser.S
open Firefly.Gen.C12 Firefly.AmlProg

/-- **`ParseAML` on a table of `Name(NAME, integer)` declarations.**  For every table whose payload is the encoding of a list
of such declarations (single-segment names, integers of every width), loaded into a pool whose root is a parentless scope
block with childless scope-block children (the default scopes): `ParseAML` succeeds — no error, no panic, no exhausted fuel —
and the pool it leaves consists of the old pool, untouched, plus, for every declaration in order, a `Name` object appended
to the root's children that carries the declared name and has exactly two arguments: its name path and an integer object
holding the declared value. -/
theorem parseAML_flat {d : Bytes} (hd : d.size + 1024 ≤ 4294967296) (hh : headerLen ≤ d.size) (qs : List Decl)
    (hok : ∀ q ∈ qs, q.OK) (hsimple : ∀ q ∈ qs, q.Simple) (hb : BytesAt d headerLen (encDecls qs))
    (hlen : headerLen + (encDecls qs).length = d.size) (s : PState) (ht : TreeG s.tree) (b : Base s.tree)
    (hsz : s.tree.pool.size + 3 * qs.length < INV) (fuel : Nat) (hfuel : 2 * qs.length + (K s.tree 0).length + 9 ≤ fuel)
    (handle : Nat) :
    ∃ s' its, parseAML d fuel handle s = .ok (true, s') ∧ Flat d s.tree s'.tree handle [] its ∧ its.map (·.q) = qs := by
  obtain ⟨sL, its, e1, acc, hm⟩ := firstPass_flat hd hh qs hok hb hlen s ht hsz fuel (by omega) handle
  have hlen' : its.length = qs.length := by rw [← hm, List.length_map]
  have hsimple' : ∀ it ∈ its, it.q.Simple := by
    intro it hit
    exact hsimple it.q (by rw [← hm]; exact List.mem_map.2 ⟨it, hit, rfl⟩)
  have fl0 : Flat d s.tree sL.tree handle its [] := Flat.ofAcc acc hsimple'
  generalize hsF : ({ sL with scopeStack := #[], pkgEndStack := #[] } : PState) = sF at e1
  have htF : sF.tree = sL.tree := by rw [← hsF]
  have hhF : sF.tableHandle = handle := by rw [← hsF]; exact acc.rest.th
  obtain ⟨s1, e2, fl1, hh1⟩ := connectNamed_flat d b (s := sF) (by rw [htF]; exact fl0) hhF fuel (by omega)
  obtain ⟨q1, q2, q3, q4, q5⟩ := walks_flat d fuel fl1 b
  have hN : (K s.tree 0).length + its.length + 8 ≤ fuel := by omega
  -- the resolve loop: one pass
  let s1' : PState := { s1 with resolvePasses := 1 }
  obtain ⟨s2, e3, ht2, hh2⟩ := q1 fuel s1' hN rfl hh1
  obtain ⟨s3, e4, ht3, hh3⟩ := q2 fuel s2 hN ht2 hh2
  have eloop : resolveLoopPasses d fuel fuel s1' = .ok (true, s3) := by
    obtain ⟨n, hn⟩ : ∃ n, fuel = n + 1 := ⟨fuel - 1, by omega⟩
    conv => lhs; arg 3; rw [hn]
    rw [resolveLoopPasses, bind_run e3, if_neg (by decide), bind_run e4, if_neg (by decide), if_pos ⟨rfl, rfl⟩]
    rfl
  obtain ⟨s4, e5, ht4, hh4⟩ := q3 fuel s3 hN ht3 hh3
  obtain ⟨s5, e6, ht5, hh5⟩ := q4 fuel s4 hN ht4 hh4
  obtain ⟨s6, e7, ht6, hh6⟩ := q5 fuel s5 hN ht5 hh5
  refine ⟨s6, its, ?_, by rw [ht6]; exact fl1, hm⟩
  rw [parseAML_eq, bind_run e1]
  unfold afterFirstPass
  rw [if_neg (by decide), bind_run e2, if_neg (by decide)]
  have em : (modify fun s => { s with resolvePasses := 1 } : P Unit) s1 = .ok ((), s1') := rfl
  rw [bind_run em, bind_run eloop]
  simp only [Bool.not_true, Bool.false_eq_true, ↓reduceIte]
  rw [bind_run e5, if_neg (by decide), bind_run e6, if_neg (by decide), bind_run e7, if_neg (by decide)]
  rfl

end Firefly.AmlParser.F
