import Firefly.Proof.AmlFlatParse
import Firefly.Model.AmlNs
/-!
C11, the flat fragment, end to end: for every program that is a list of `Name(NAME, integer)` declarations with distinct
names, the parser model accepts the encoded table and the namespace read off the resulting pool is the namespace ACPI's
scoping rules assign to the program (`agrees [p] = true`).
-/
namespace Firefly.AmlParser.F
open Firefly.AmlLex Firefly.AmlTree Firefly.C13 Firefly.AmlParser Firefly.AmlParser.G Firefly.AmlParser.S
open Firefly.Gen.C12 Firefly.AmlProg Firefly.AmlNs

/-! ## the programs of the fragment -/

/-- `Name(str, integer)`: the name segment, the encoding width of the integer (`0`: ZeroOp/OneOp/OnesOp), its value -/
structure FlatItem where
  str : String
  w : Nat
  v : Nat

def FlatItem.obj (a : FlatItem) : AmlProg.Obj := .name { segs := [a.str] } (.int a.w a.v)
def FlatItem.decl (a : FlatItem) : Decl := ⟨false, 0, [segBytes a.str], a.w, a.v⟩

/-- a name segment: four characters below 256, the first one a capital letter or `_` -/
def SegOK (str : String) : Prop :=
  str.toList.length = 4 ∧ (∀ c ∈ str.toList, c.toNat < 256) ∧
  ∃ c, str.toList[0]? = some c ∧ ((0x41 ≤ c.toNat ∧ c.toNat ≤ 0x5a) ∨ c.toNat = 0x5f)

def FlatItem.OK (a : FlatItem) : Prop := SegOK a.str ∧ IntW a.w

theorem encode_flat (l : List FlatItem) : AmlProg.encode (l.map FlatItem.obj) = encDecls (l.map FlatItem.decl) := by
  unfold AmlProg.encode
  induction l with
  | nil => simp [encObjs, encDecls]
  | cons a l ih =>
    simp only [List.map_cons, encObjs, encDecls, ih]
    congr 1

theorem decl_ok {a : FlatItem} (h : a.OK) : a.decl.OK ∧ a.decl.Simple := by
  obtain ⟨⟨h4, hlt, c, hc, hcc⟩, hw⟩ := h
  have hlen : (segBytes a.str).length = 4 := by simp [segBytes, h4]
  refine ⟨⟨⟨?_, by simp [FlatItem.decl], ?_⟩, hw⟩, rfl, rfl, segBytes a.str, rfl, hlen⟩
  · intro s hs
    simp only [FlatItem.decl, List.mem_cons, List.mem_nil_iff, or_false] at hs
    rw [hs]; exact hlen
  · intro s hs
    simp only [FlatItem.decl, List.cons.injEq, and_true] at hs
    subst hs
    refine ⟨UInt8.ofNat c.toNat, by simp [segBytes, hc], ?_⟩
    have hclt : c.toNat < 256 := hlt c (List.mem_of_getElem? hc)
    have : (UInt8.ofNat c.toNat).toNat = c.toNat := by simp [UInt8.toNat_ofNat, Nat.mod_eq_of_lt hclt]
    rw [this]; exact hcc

/-! ## the table -/

theorem mkTable_size (pl : Array UInt8) : (mkTable pl).size = headerLen + pl.size := by
  simp [mkTable, headerLen]
  omega

theorem mkTable_bytes (pl : Array UInt8) : BytesAt (mkTable pl) headerLen pl.toList := by
  intro i hi
  unfold mkTable
  rw [Array.getElem?_append_right (by simp [headerLen])]
  simp [headerLen]

/-! ## the default scopes -/

/-- executable form of `Base` together with the names of the default scopes -/
def baseB (t : ObjectTree) : Bool :=
  live t 0 && decide (C13.P t 0 = INV) && decide ((slot t 0).opcode = opIntScopeBlock) &&
  decide ((slot t 0).infoIndex = pOpcodeTableIndex opIntScopeBlock true) &&
  (K t 0).all (fun y => decide (K t y = []) && decide ((slot t y).opcode = opIntScopeBlock) &&
    decide ((slot t y).infoIndex = pOpcodeTableIndex opIntScopeBlock true)) &&
  decide ((K t 0).map (fun y => ([nameStr (slot t y).name], "scope")) = defaultNs.objs) &&
  decide (t.pool.size = 6)

theorem default_tree : ∃ t, defaultTree 0 = .ok t ∧ TreeG t ∧ Base t ∧
    (K t 0).map (fun y => ([nameStr (slot t y).name], "scope")) = defaultNs.objs ∧ t.pool.size = 6 := by
  have h : (match defaultTree 0 with
    | .ok t => treeGb t && baseB t | .error _ => false) = true := by decide +kernel
  cases hd : defaultTree 0 with
  | error e => rw [hd] at h; cases h
  | ok t =>
    rw [hd] at h
    simp only [Bool.and_eq_true] at h
    obtain ⟨hg, hb⟩ := h
    have tg := treeG_of_b hg
    simp only [baseB, Bool.and_eq_true, decide_eq_true_eq, List.all_eq_true] at hb
    obtain ⟨⟨⟨⟨⟨⟨b1, b2⟩, b3⟩, b4⟩, b5⟩, b6⟩, b7⟩ := hb
    exact ⟨t, rfl, tg, ⟨tg.wf, b1, b2, b3, b4, fun y hy => by
      have := b5 y hy
      exact ⟨this.1.1, this.1.2, this.2⟩⟩, b6, b7⟩

/-! ## the namespace read off the pool -/

theorem pool_live {t : ObjectTree} {y : Nat} (hl : live t y = true) : t.pool[y]? = some (slot t y) := by
  have := live_lt hl
  rw [Array.getElem?_eq_getElem this, slot_of_lt this]

theorem nsWalk_leaf (t : ObjectTree) (tables : Array Bytes) (f y : Nat) (path : AmlProg.Path) (hk : K t y = []) :
    nsWalk t tables (f + 1) y path = [] := by
  rw [nsWalk]
  show (K t y).flatMap _ = []
  rw [hk]; rfl

theorem callWalk_leaf (t : ObjectTree) (f y : Nat) (hk : K t y = []) : callWalk t (f + 1) y = [] := by
  rw [callWalk]
  show (K t y).flatMap _ = []
  rw [hk]; rfl

/-- the description `intOf` gives of an integer object -/
theorem intOf_eq {t : ObjectTree} {k n : Nat} (hl : live t k = true) (h : IntObj t k n) : intOf t k = s!"i{n}" := by
  unfold intOf
  rw [pool_live hl]
  rcases h with ⟨h1, h2⟩ | ⟨h1, h2⟩ | ⟨h1, h2⟩ | ⟨h1, h2, h3, h4⟩
  · dsimp only
    rw [h1, h2, if_pos rfl]; decide
  · dsimp only
    rw [h1, h2, if_neg (by decide), if_pos rfl]; decide
  · dsimp only
    rw [h1, h2, if_neg (by decide), if_neg (by decide), if_pos rfl]; decide
  · dsimp only
    rw [if_neg h1, if_neg h2, if_neg h3, h4]

theorem treeDesc_const (t : ObjectTree) (tables : Array Bytes) (c : Nat) (o : AmlTree.Obj) (w v : Nat) (h : o.opcode = constOp w v) :
    treeDesc t tables c o = none ∧ o.opcode ≠ 0x1f6 ∧ o.opcode ≠ 0x1fd ∧ o.opcode ≠ 0x0d ∧ o.opcode ≠ 0x11 ∧ o.opcode ≠ 0x12 := by
  unfold treeDesc
  rcases constOp_cases w v with e | e | e | e | e | e | e <;> rw [h, e] <;> simp

theorem treeDesc_path (t : ObjectTree) (tables : Array Bytes) (c : Nat) (o : AmlTree.Obj) (h : o.opcode = opIntNamePath) :
    treeDesc t tables c o = none ∧ o.opcode ≠ 0x1f6 ∧ o.opcode ≠ 0x1fd := by
  unfold treeDesc
  rw [h]
  simp [opIntNamePath]

/-- what `nsWalk` and `callWalk` see at a connected `Name` object -/
theorem walk_item {d : Bytes} {t : ObjectTree} {h : Nat} {it : Item} (io : ItemT d t h it true) (tables : Array Bytes) (f : Nat)
    (path : AmlProg.Path) :
    nsWalk t tables (f + 2) it.x path = [] ∧ callWalk t (f + 2) it.x = [] ∧
    treeDesc t tables it.x (slot t it.x) = some s!"name:{s!"i{intVal it.q.w it.q.v}"}" := by
  have hk : K t it.x = [it.c, it.k] := io.kx
  obtain ⟨c1, c2, c3⟩ := treeDesc_path t tables it.c (slot t it.c) io.opc
  obtain ⟨k1, k2, k3, k4, k5, k6⟩ := treeDesc_const t tables it.k (slot t it.k) _ _ io.opk
  refine ⟨?_, ?_, ?_⟩
  · rw [nsWalk]
    show (K t it.x).flatMap _ = []
    rw [hk]
    simp only [List.flatMap_cons, List.flatMap_nil, List.append_nil, pool_live io.lc, pool_live io.lk, if_neg c2, if_neg k2, c1, k1,
      nsWalk_leaf t tables f _ _ io.kc, nsWalk_leaf t tables f _ _ io.kk, List.append_nil]
  · rw [callWalk]
    show (K t it.x).flatMap _ = []
    rw [hk]
    simp only [List.flatMap_cons, List.flatMap_nil, List.append_nil, pool_live io.lc, pool_live io.lk, if_neg c3, if_neg k3,
      callWalk_leaf t f _ io.kc, callWalk_leaf t f _ io.kk, List.append_nil]
  · unfold treeDesc
    have hko : kidsOf t it.x = [it.c, it.k] := hk
    simp only [io.opx, hko, if_true]
    have : ([it.c, it.k] : List Nat).getD 1 4294967295 = it.k := rfl
    rw [this]
    have : treeDataDesc t tables 64 it.k = intOf t it.k := by
      rw [show (64 : Nat) = 63 + 1 from rfl, treeDataDesc, pool_live io.lk]
      simp only [if_neg k4, if_neg k5, if_neg k6]
    rw [this, intOf_eq io.lk io.int]

theorem flatMap_single {α β : Type} (l : List α) (g : α → List β) (k : α → β) (h : ∀ a ∈ l, g a = [k a]) :
    l.flatMap g = l.map k := by
  induction l with
  | nil => rfl
  | cons a l ih =>
    rw [List.flatMap_cons, List.map_cons, h a (List.mem_cons_self ..), ih (fun b hb => h b (List.mem_cons_of_mem _ hb))]
    rfl

theorem flatMap_nil' {α β : Type} (l : List α) (g : α → List β) (h : ∀ a ∈ l, g a = []) : l.flatMap g = [] := by
  induction l with
  | nil => rfl
  | cons a l ih =>
    rw [List.flatMap_cons, h a (List.mem_cons_self ..), ih (fun b hb => h b (List.mem_cons_of_mem _ hb))]
    rfl

/-- a namespace without methods, call sites and errors -/
def flatNs (defs ents : List (AmlProg.Path × String)) : Namespace := { objs := defs ++ ents }

/-- `name:i<value>` -/
def entryDesc (w v : Nat) : String := s!"name:{s!"i{intVal w v}"}"

/-- **the namespace in the pool of the fragment**: the default scopes, then one `name:i<value>` entry per declaration under
its own name, in declaration order; no call sites -/
theorem nsOf_flat {d : Bytes} {t0 t : ObjectTree} {h : Nat} {its : List Item} (fl : Flat d t0 t h [] its) (b : Base t0)
    (tables : Array Bytes) (hsz : 2 ≤ t.pool.size) :
    nsOf t tables = flatNs ((K t0 0).map (fun y => ([nameStr (slot t0 y).name], "scope")))
      (its.map (fun it => ([nameStr (Name.ofList it.seg)], entryDesc it.q.w it.q.v))) := by
  obtain ⟨f, hf⟩ : ∃ f, t.pool.size + 1 = f + 3 := ⟨t.pool.size - 2, by omega⟩
  have hk0 : K t 0 = K t0 0 ++ its.map (·.x) := by rw [fl.ktop]; simp
  have hko : kidsOf t 0 = K t0 0 ++ its.map (·.x) := hk0
  have hwalk : nsWalk t tables (f + 3) 0 [] =
      (K t0 0).map (fun y => ([nameStr (slot t0 y).name], "scope", y)) ++
      its.map (fun it => ([nameStr (Name.ofList it.seg)], s!"name:{s!"i{intVal it.q.w it.q.v}"}", it.x)) := by
    rw [nsWalk, hko, List.flatMap_append]
    congr 1
    · apply flatMap_single
      intro y hy
      obtain ⟨a1, a2, a3, _, _⟩ := fl.oldKid b hy
      obtain ⟨hyl, _⟩ := (K_mem b.wf b.root y).1 hy
      obtain ⟨_, pay, _, _⟩ := fl.old y hyl
      rw [pool_live a1]
      simp only [a3, opIntScopeBlock, if_true, List.nil_append]
      rw [nsWalk_leaf t tables (f + 1) y _ a2, pay_name pay]
    · rw [List.flatMap_map]
      apply flatMap_single
      intro it hit
      have io := fl.done it hit
      obtain ⟨w1, _, w3⟩ := walk_item io tables f [nameStr (Name.ofList it.seg)]
      rw [pool_live io.lx]
      have hne : ¬ (slot t it.x).opcode = 0x1f6 := by rw [io.opx]; decide
      simp only [if_neg hne, w3, List.nil_append, io.nm rfl, w1]
  have hcalls : callWalk t (f + 3) 0 = [] := by
    rw [callWalk, hko, List.flatMap_append]
    rw [List.append_eq_nil_iff]
    constructor
    · apply flatMap_nil'
      intro y hy
      obtain ⟨a1, a2, a3, _, _⟩ := fl.oldKid b hy
      rw [pool_live a1]
      simp only [a3, opIntScopeBlock]
      rw [callWalk_leaf t (f + 1) y a2]
      rfl
    · rw [List.flatMap_map]
      apply flatMap_nil'
      intro it hit
      have io := fl.done it hit
      obtain ⟨_, w2, _⟩ := walk_item io tables f []
      rw [pool_live io.lx]
      have hne : ¬ (slot t it.x).opcode = 0x1fd := by rw [io.opx]; decide
      simp only [if_neg hne, w2, List.append_nil]
  unfold nsOf flatNs entryDesc
  rw [hf, hwalk, hcalls]
  simp [List.map_append, List.map_map, Function.comp_def]

/-! ## the namespace the scoping rules assign -/

theorem has_false {ns : Namespace} {p : AmlProg.Path} (h : p ∉ ns.objs.map (·.1)) : ns.has p = false := by
  unfold Namespace.has
  rw [List.any_eq_false]
  intro x hx hq
  apply h
  have : x.1 = p := by simpa using hq
  rw [← this]
  exact List.mem_map.2 ⟨x, hx, rfl⟩

theorem declObj_flat (a : FlatItem) (defs ents : List (AmlProg.Path × String)) (hn : [a.str] ∉ (defs ++ ents).map (·.1)) :
    declObj [] a.obj { ns := flatNs defs ents, pending := [] } =
      { ns := flatNs defs (ents ++ [([a.str], entryDesc a.w a.v)]), pending := [] } := by
  unfold FlatItem.obj
  rw [declObj]
  have hp : declPath [] { segs := [a.str] } = some [a.str] := by simp [declPath]
  rw [hp]
  simp only
  unfold NsSt.add
  have hh : (flatNs defs ents).has [a.str] = false := has_false (by unfold flatNs; exact hn)
  simp only [hh, Bool.false_eq_true, if_false, List.length_cons, List.length_nil]
  rw [if_neg (by intro hq; exact absurd hq.1 (by decide))]
  unfold flatNs entryDesc
  simp [dataDesc]

theorem declObjs_flat : ∀ (l : List FlatItem) (defs ents : List (AmlProg.Path × String)),
    (defs.map (·.1) ++ ents.map (·.1) ++ l.map (fun a => [a.str])).Nodup →
    declObjs [] (l.map FlatItem.obj) { ns := flatNs defs ents, pending := [] } =
      { ns := flatNs defs (ents ++ l.map (fun a => ([a.str], entryDesc a.w a.v))), pending := [] } := by
  intro l
  induction l with
  | nil => intro defs ents _; simp [declObjs]
  | cons a l ih =>
    intro defs ents hnd
    rw [List.map_cons, declObjs]
    have hn : [a.str] ∉ (defs ++ ents).map (·.1) := by
      rw [List.map_append]
      rw [List.nodup_append] at hnd
      intro hm
      exact hnd.2.2 _ hm _ (by simp) rfl
    rw [declObj_flat a defs ents hn]
    have := ih defs (ents ++ [([a.str], entryDesc a.w a.v)]) (by
      have : defs.map (·.1) ++ (ents ++ [([a.str], entryDesc a.w a.v)]).map (·.1) ++ l.map (fun a => [a.str]) =
          defs.map (·.1) ++ ents.map (·.1) ++ (a :: l).map (fun a => [a.str]) := by simp
      rw [this]; exact hnd)
    rw [this]
    simp

/-- **the namespace of a program of the fragment**: the default scopes, then one entry per declaration; no errors -/
theorem namespaceOf_flat (l : List FlatItem) (hnd : (defaultNs.objs.map (·.1) ++ l.map (fun a => [a.str])).Nodup) :
    namespaceOf [l.map FlatItem.obj] = flatNs defaultNs.objs (l.map (fun a => ([a.str], entryDesc a.w a.v))) := by
  unfold namespaceOf
  simp only [List.foldl_cons, List.foldl_nil]
  have h0 : ({ ns := defaultNs } : NsSt) = { ns := flatNs defaultNs.objs [], pending := [] } := by
    unfold flatNs defaultNs; simp
  rw [h0, declObjs_flat l defaultNs.objs [] (by simpa using hnd)]
  unfold resolveCalls
  simp

/-! ## the two namespaces agree -/

theorem char_rt (c : Char) (h : c.toNat < 256) : Char.ofNat (UInt8.ofNat c.toNat).toNat = c := by
  simp [UInt8.toNat_ofNat, Nat.mod_eq_of_lt h]

/-- the name the parser stores for a segment reads back as the segment -/
theorem nameStr_seg {str : String} (h : SegOK str) : nameStr (Name.ofList (segBytes str)) = str := by
  obtain ⟨h4, hlt, _⟩ := h
  have : ∃ c0 c1 c2 c3, str.toList = [c0, c1, c2, c3] := by
    match hs : str.toList, h4 with
    | [c0, c1, c2, c3], _ => exact ⟨c0, c1, c2, c3, rfl⟩
  obtain ⟨c0, c1, c2, c3, hs⟩ := this
  have e : nameStr (Name.ofList (segBytes str)) = String.ofList str.toList := by
    unfold nameStr segBytes
    rw [hs]
    simp only [List.map_cons, List.map_nil, Name.ofList, Name.toList, List.getD_cons_zero, List.getD_cons_succ]
    rw [char_rt c0 (hlt c0 (by rw [hs]; simp)), char_rt c1 (hlt c1 (by rw [hs]; simp)), char_rt c2 (hlt c2 (by rw [hs]; simp)),
      char_rt c3 (hlt c3 (by rw [hs]; simp))]
  rw [e, String.ofList_toList]

theorem sameList_refl {α : Type} [BEq α] [LawfulBEq α] (l : List α) : sameList l l = true := by
  unfold sameList
  simp [List.all_eq_true]

theorem sameNs_refl (a : Namespace) : sameNs a a = true := by
  unfold sameNs
  rw [sameList_refl, sameList_refl]; rfl

theorem encDecls_len (qs : List Decl) : qs.length ≤ (encDecls qs).length := by
  induction qs with
  | nil => simp [encDecls]
  | cons q qs ih =>
    simp only [encDecls, List.length_append, List.length_cons, Decl.enc]
    omega

/-- **C11 for the flat fragment.**  For every program that is a list of `Name(NAME, integer)` declarations — any number of
them, every integer width and value, names that are single well-formed segments, pairwise distinct and different from the
default scopes — loaded as one table into the default namespace: the program is well-scoped, the parser (model) accepts the
encoded table, and the namespace read off the resulting object tree is exactly the namespace ACPI's scoping rules assign to
the program. -/
theorem agrees_flat (l : List FlatItem) (hok : ∀ a ∈ l, a.OK)
    (hnd : (defaultNs.objs.map (·.1) ++ l.map (fun a => [a.str])).Nodup)
    (hlen : (AmlProg.encode (l.map FlatItem.obj)).length ≤ 1000000000) :
    agrees [l.map FlatItem.obj] = true := by
  obtain ⟨t, ht, tg, b, hnames, hsz6⟩ := default_tree
  have henc := encode_flat l
  generalize hpl : (AmlProg.encode (l.map FlatItem.obj)).toArray = pl
  have hpll : pl.toList = encDecls (l.map FlatItem.decl) := by rw [← hpl, ← henc]
  have hplen : pl.size = (encDecls (l.map FlatItem.decl)).length := by rw [← hpll]; simp
  have hlen' : (encDecls (l.map FlatItem.decl)).length ≤ 1000000000 := by rw [← henc]; exact hlen
  have hn := encDecls_len (l.map FlatItem.decl)
  rw [List.length_map] at hn
  let d := mkTable pl
  have hdsz : d.size = headerLen + pl.size := mkTable_size pl
  have hK0 : (K t 0).length = 5 := by
    have := congrArg List.length hnames
    simpa [defaultNs] using this
  obtain ⟨s', its, e, fl, hm⟩ := parseAML_flat (d := d) (by rw [hdsz, hplen]; simp [headerLen]; omega)
    (by rw [hdsz]; omega) (l.map FlatItem.decl) (fun q hq => by
      obtain ⟨a, ha, rfl⟩ := List.mem_map.1 hq
      exact (decl_ok (hok a ha)).1) (fun q hq => by
      obtain ⟨a, ha, rfl⟩ := List.mem_map.1 hq
      exact (decl_ok (hok a ha)).2)
    (by have := mkTable_bytes pl; rw [hpll] at this; exact this) (by rw [hdsz, hplen])
    { tree := t } tg b (by show t.pool.size + 3 * (l.map FlatItem.decl).length < INV; rw [hsz6, List.length_map, show INV = 4294967295 from rfl]; omega)
    (fuelFor d t) (by show 2 * (l.map FlatItem.decl).length + (K t 0).length + 9 ≤ fuelFor d t
                      rw [List.length_map, hK0]; unfold fuelFor; rw [hdsz, hplen]; omega) 1
  -- the namespace in the tree
  have hns := nsOf_flat fl b #[d] (by
    cases hk : K t 0 with
    | nil => rw [hk] at hK0; cases hK0
    | cons y ys =>
      obtain ⟨a1, _, _, _, a5⟩ := fl.oldKid b (y := y) (by rw [hk]; simp)
      have := live_lt a1
      omega)
  rw [hnames] at hns
  have hents : its.map (fun it => ([nameStr (Name.ofList it.seg)], entryDesc it.q.w it.q.v)) =
      l.map (fun a => ([a.str], entryDesc a.w a.v)) := by
    have e1 : its.map (fun it => ([nameStr (Name.ofList it.seg)], entryDesc it.q.w it.q.v)) =
        (its.map (·.q)).map (fun q => ([nameStr (Name.ofList (q.segs.headD []))], entryDesc q.w q.v)) := by
      rw [List.map_map]; rfl
    rw [e1, hm, List.map_map]
    apply List.map_congr_left
    intro a ha
    show ([nameStr (Name.ofList (segBytes a.str))], entryDesc a.w a.v) = _
    rw [nameStr_seg (hok a ha).1]
  rw [hents] at hns
  have hspec := namespaceOf_flat l hnd
  -- the model run
  have hmodel : modelNs [l.map FlatItem.obj] = some (flatNs defaultNs.objs (l.map (fun a => ([a.str], entryDesc a.w a.v)))) := by
    unfold modelNs
    rw [ht]
    simp only
    unfold loadAll
    simp only
    rw [hpl]
    show (match parseAML d (fuelFor d t) 1 { tree := t } with
      | .ok (true, s) => loadAll s.tree (#[].push d) (1 + 1) []
      | _ => none) = _
    rw [e]
    simp only
    unfold loadAll
    rw [← hns]
    rfl
  unfold agrees
  rw [hmodel, hspec]
  simp only [sameNs_refl, Bool.and_true]
  rfl

end Firefly.AmlParser.F
