import Firefly.Proof.Console
import Firefly.Proof.VtCons
/-!
Lemmas for `C19.refines_grid`: the shipped consoles refine the abstract cell-grid console of C18
(`Firefly.Term.Console`, `Spec/Term.lean`).  Everything here is stated on framebuffer *views*
(`Nat → α`) and the pointwise specifications of `Spec/Console.lean`; `Props/C19.lean` combines it
with the theorems that the executable models compute those specifications.
-/
namespace Firefly.ConsoleGrid
open Firefly Firefly.Vt Firefly.Term Firefly.VtCons Firefly.Spec.Console Firefly.ConsoleProof
set_option linter.unusedSimpArgs false

/-! ## the abstract console, for any line count -/

/-- scrolling up by `n` lines: line `r+n` moves to line `r`, the last `n` lines keep their contents -/
theorem scrollUp_at {k : Console} (wf : WF k) {n : Nat} (hn : 1 ≤ n ∧ n ≤ k.h) :
    (k.scrollUp n).w = k.w ∧ (k.scrollUp n).h = k.h ∧ WF (k.scrollUp n) ∧ (k.scrollUp n).outside = k.outside ∧
      ∀ r c, r < k.h → c < k.w → (k.scrollUp n).at r c = if r + n < k.h then k.at (r + n) c else k.at r c := by
  have hn' : ¬ (n = 0 ∨ n > k.h) := by omega
  have e : k.scrollUp n = { k with cells := k.cells.drop n ++ k.cells.drop (k.h - n) } := by
    unfold Console.scrollUp; rw [if_neg hn']
  have hlen := wf.len
  have rowAt : ∀ r, r < k.h → (k.cells.drop n ++ k.cells.drop (k.h - n))[r]? =
      if r + n < k.h then k.cells[r + n]? else k.cells[r]? := by
    intro r hr
    rw [List.getElem?_append]
    simp only [List.length_drop, hlen, List.getElem?_drop]
    by_cases c1 : r + n < k.h
    · have : r < k.h - n := by omega
      simp [c1, this, Nat.add_comm]
      intro h; omega
    · have : ¬ r < k.h - n := by omega
      have e2 : k.h - n + (r - (k.h - n)) = r := by omega
      simp [c1, this, e2]
  rw [e]
  refine ⟨rfl, rfl, ⟨by simp [hlen] <;> omega, ?_⟩, rfl, ?_⟩
  · intro r hr
    have hr' : r < k.h := hr
    simp only [List.getD_eq_getElem?_getD, rowAt r hr']
    by_cases c1 : r + n < k.h
    · have := wf.rows (r + n) c1
      simpa [c1, List.getD_eq_getElem?_getD] using this
    · have := wf.rows r hr'
      simpa [c1, List.getD_eq_getElem?_getD] using this
  · intro r c hr hc
    simp only [at_eq, rowAt r hr]
    by_cases c1 : r + n < k.h <;> simp [c1]

/-! ## cell indices -/

theorem cell_div_mod {W r col : Nat} (hc : col < W) : (r * W + col) / W = r ∧ (r * W + col) % W = col := by
  have hW : 0 < W := by omega
  constructor
  · rw [Nat.add_comm, Nat.add_mul_div_right _ _ hW, Nat.div_eq_of_lt hc, Nat.zero_add]
  · rw [Nat.add_comm, Nat.add_mul_mod_self_right, Nat.mod_eq_of_lt hc]

theorem cell_inj {W r col r' col' : Nat} (hc : col < W) (hc' : col' < W) (h : r * W + col = r' * W + col') :
    r = r' ∧ col = col' := by
  have a := @cell_div_mod W r col hc
  have b := @cell_div_mod W r' col' hc'
  rw [h] at a
  exact ⟨a.1.symm.trans b.1, a.2.symm.trans b.2⟩

/-! ## text console -/
section Text
open VgaText

def cellWordOf (cell : Cell) : UInt16 := cellWord cell.ch.toNat cell.fg.toNat cell.bg.toNat

/-- the text framebuffer `v` displays the abstract console `k`: same shape, and every cell holds
the character/attribute word of the abstract cell -/
def TextShows (c : Cons) (v : Nat → UInt16) (k : Console) : Prop :=
  k.w = c.width ∧ k.h = c.height ∧
  ∀ r col, r < k.h → col < k.w → v (r * c.width + col) = cellWordOf (k.at r col)

theorem text_write_shows (c : Cons) (v : Nat → UInt16) (k : Console) (wf : WF k) (sh : TextShows c v k)
    (ch fg bg : UInt8) (x y : Nat) (hin : 1 ≤ x ∧ x ≤ k.w ∧ 1 ≤ y ∧ y ≤ k.h)
    (hcol : fg.toNat ≤ c.paletteLen - 1 ∧ bg.toNat ≤ c.paletteLen - 1) :
    TextShows c (textWrite c v ch.toNat fg.toNat bg.toNat x y) (k.write ch fg bg x y) ∧
      WF (k.write ch fg bg x y) ∧ (k.write ch fg bg x y).outside = k.outside := by
  obtain ⟨hw, hh, hv⟩ := sh
  obtain ⟨w1, w2, w3, w4, w5⟩ := write_in wf ch fg bg ⟨hin.1, hin.2.1⟩ ⟨hin.2.2.1, hin.2.2.2⟩
  refine ⟨⟨by rw [w1, hw], by rw [w2, hh], ?_⟩, w3, w4⟩
  intro r col hr hc
  rw [w2] at hr; rw [w1] at hc
  rw [w5 r col hr hc]
  simp only [textWrite, textColor]
  have hc' : col < c.width := by omega
  by_cases hcell : r = y - 1 ∧ col = x - 1
  · have hidx : 1 ≤ x ∧ x ≤ c.width ∧ 1 ≤ y ∧ y ≤ c.height ∧ r * c.width + col = (y - 1) * c.width + (x - 1) := by
      rw [hcell.1, hcell.2]; omega
    rw [if_pos hidx, if_pos hcell, if_neg (by omega), if_neg (by omega)]
    rfl
  · have hidx : ¬ (1 ≤ x ∧ x ≤ c.width ∧ 1 ≤ y ∧ y ≤ c.height ∧ r * c.width + col = (y - 1) * c.width + (x - 1)) := by
      intro hh'
      have := @cell_inj c.width r col (y - 1) (x - 1) hc' (by omega) hh'.2.2.2.2
      exact hcell this
    rw [if_neg hidx, if_neg hcell]
    exact hv r col hr hc

theorem text_fill_shows (c : Cons) (v : Nat → UInt16) (k : Console) (wf : WF k) (sh : TextShows c v k)
    (x y fw fh : Nat) (fg bg : UInt8) (hin : 1 ≤ x ∧ 1 ≤ y ∧ x + fw ≤ k.w + 1 ∧ y + fh ≤ k.h + 1)
    (hclear : c.clearChar = 32) :
    TextShows c (textFill c v x y fw fh fg.toNat bg.toNat) (k.fill x y fw fh fg bg) ∧
      WF (k.fill x y fw fh fg bg) ∧ (k.fill x y fw fh fg bg).outside = k.outside := by
  obtain ⟨hw, hh, hv⟩ := sh
  obtain ⟨w1, w2, w3, w4, w5⟩ := fill_in wf fg bg hin
  refine ⟨⟨by rw [w1, hw], by rw [w2, hh], ?_⟩, w3, w4⟩
  intro r col hr hc
  rw [w2] at hr; rw [w1] at hc
  rw [w5 r col hr hc]
  have hc' : col < c.width := by omega
  obtain ⟨d1, d2⟩ := @cell_div_mod c.width r col hc'
  have hlt : r * c.width + col < c.width * c.height := by
    have := Nat.mul_le_mul_right c.width (show r + 1 ≤ c.height by omega)
    rw [Nat.add_mul, Nat.one_mul, Nat.mul_comm c.height] at this
    omega
  simp only [textFill, fillRect, d1, d2]
  have hcx : clamp x c.width = x ∨ (fw = 0) := by
    unfold clamp; split
    · omega
    · split <;> omega
  have hcy : clamp y c.height = y ∨ (fh = 0) := by
    unfold clamp; split
    · omega
    · split <;> omega
  have hcx' : 1 ≤ clamp x c.width ∧ clamp x c.width ≤ max c.width 1 := by
    unfold clamp; split
    · omega
    · split <;> omega
  have hcy' : 1 ≤ clamp y c.height ∧ clamp y c.height ≤ max c.height 1 := by
    unfold clamp; split
    · omega
    · split <;> omega
  by_cases hcell : y ≤ r + 1 ∧ r + 1 < y + fh ∧ x ≤ col + 1 ∧ col + 1 < x + fw
  · rw [if_pos hcell, if_pos (by omega), hclear]; rfl
  · rw [if_neg hcell, if_neg (by omega)]
    exact hv r col hr hc

theorem text_scroll_shows (c : Cons) (v : Nat → UInt16) (k : Console) (wf : WF k) (sh : TextShows c v k)
    (n : Nat) (hn : 1 ≤ n ∧ n ≤ k.h) :
    TextShows c (textScroll c v 0 n) (k.scrollUp n) ∧ WF (k.scrollUp n) ∧ (k.scrollUp n).outside = k.outside := by
  obtain ⟨hw, hh, hv⟩ := sh
  obtain ⟨w1, w2, w3, w4, w5⟩ := scrollUp_at wf hn
  refine ⟨⟨by rw [w1, hw], by rw [w2, hh], ?_⟩, w3, w4⟩
  intro r col hr hc
  rw [w2] at hr; rw [w1] at hc
  rw [w5 r col hr hc]
  have hc' : col < c.width := by omega
  have hW : 0 < c.width := by omega
  obtain ⟨d1, d2⟩ := @cell_div_mod c.width r col hc'
  simp only [textScroll]
  rw [if_pos (by omega), if_pos trivial]
  have hiff : r * c.width + col < (c.height - n) * c.width ↔ r + n < k.h := by
    rw [← Nat.div_lt_iff_lt_mul hW, d1]; omega
  by_cases hmv : r + n < k.h
  · rw [if_pos (hiff.2 hmv), if_pos hmv]
    have : r * c.width + col + n * c.width = (r + n) * c.width + col := by rw [Nat.add_mul]; omega
    rw [this]
    exact hv (r + n) col hmv hc
  · rw [if_neg (fun h => hmv (hiff.1 h)), if_neg hmv]
    exact hv r col hr hc

/-- `TextShows` only looks at the cells of the grid -/
theorem textShows_congr (c : Cons) (v v' : Nat → UInt16) (k : Console)
    (h : ∀ i, i < c.width * c.height → v' i = v i) (sh : TextShows c v k) : TextShows c v' k := by
  obtain ⟨hw, hh, hv⟩ := sh
  refine ⟨hw, hh, fun r col hr hc => ?_⟩
  rw [h, hv r col hr hc]
  have := Nat.mul_le_mul_right c.width (show r + 1 ≤ c.height by omega)
  rw [Nat.add_mul, Nat.one_mul, Nat.mul_comm c.height] at this
  omega

end Text

/-! ## pixel console -/
section Pixel
open VesaFb

/-- the geometry facts the refinement needs (all follow from `C19.PixOk`) -/
structure Geo (c : Cons) (f : Font) : Prop where
  gw1 : 0 < f.gw
  gh1 : 0 < f.gh
  bpp1 : 0 < c.bytesPerPixel
  colsw : c.cols * f.gw ≤ c.width
  rowsh : c.offsetY + c.rows * f.gh ≤ c.height

/-- index `i` lies in the pixel rectangle of cell `(x, y)` (1-based) -/
def inCell (c : Cons) (f : Font) (x y i : Nat) : Prop :=
  c.offsetY + (y - 1) * f.gh ≤ i / c.pitch ∧ i / c.pitch < c.offsetY + y * f.gh ∧
  (x - 1) * f.gw ≤ i % c.pitch / c.bytesPerPixel ∧ i % c.pitch / c.bytesPerPixel < x * f.gw

instance (c : Cons) (f : Font) (x y i : Nat) : Decidable (inCell c f x y i) := by
  unfold inCell; infer_instance

/-- the byte that cell content `cell`, displayed at `(x, y)`, puts at index `i` (`none`: that byte
of the pixel is not stored, e.g. the fourth byte of a 32-bit pixel) -/
def cellByte (c : Cons) (f : Font) (cell : Cell) (x y i : Nat) : Option UInt8 :=
  (if glyphBit f cell.ch.toNat (i % c.pitch / c.bytesPerPixel - (x - 1) * f.gw)
        (i / c.pitch - (c.offsetY + (y - 1) * f.gh)) = true
    then colorBytes c cell.fg.toNat else colorBytes c cell.bg.toNat)[i % c.pitch % c.bytesPerPixel]?

/-- cell `(x, y)` of the framebuffer `v` displays `cell`: glyph bits in the packed foreground, the
rest in the packed background -/
def CellShows (c : Cons) (f : Font) (v : Nat → UInt8) (x y : Nat) (cell : Cell) : Prop :=
  ∀ i, inCell c f x y i → ∀ b, cellByte c f cell x y i = some b → v i = b

/-- the pixel framebuffer `v` displays the abstract console `k` -/
def PixShows (c : Cons) (f : Font) (v : Nat → UInt8) (k : Console) : Prop :=
  k.w = c.cols ∧ k.h = c.rows ∧
  ∀ r col, r < k.h → col < k.w → CellShows c f v (col + 1) (r + 1) (k.at r col)

theorem pixWrite_eq (c : Cons) (f : Font) (v : Nat → UInt8) (ch fg bg : UInt8) (x y i : Nat)
    (hin : 1 ≤ x ∧ x ≤ c.cols ∧ 1 ≤ y ∧ y ≤ c.rows) :
    pixWrite c f v ch.toNat fg.toNat bg.toNat x y i =
      if inCell c f x y i then (cellByte c f ⟨ch, fg, bg⟩ x y i).getD (v i) else v i := by
  simp only [pixWrite, if_pos hin, paint, inCell, cellByte]
  split
  · split <;> simp_all
  · rfl

theorem cell_unique {c : Cons} {f : Font} {x y x' y' i : Nat} (hx : 1 ≤ x) (hy : 1 ≤ y) (hx' : 1 ≤ x') (hy' : 1 ≤ y')
    (h : inCell c f x y i) (h' : inCell c f x' y' i) : x = x' ∧ y = y' := by
  obtain ⟨a1, a2, a3, a4⟩ := h
  obtain ⟨b1, b2, b3, b4⟩ := h'
  have p1 : x - 1 < x' := Nat.lt_of_mul_lt_mul_right (Nat.lt_of_le_of_lt a3 b4)
  have p2 : x' - 1 < x := Nat.lt_of_mul_lt_mul_right (Nat.lt_of_le_of_lt b3 a4)
  have q1 : y - 1 < y' := Nat.lt_of_mul_lt_mul_right (a := f.gh) (by omega)
  have q2 : y' - 1 < y := Nat.lt_of_mul_lt_mul_right (a := f.gh) (by omega)
  omega

theorem write_cell (c : Cons) (f : Font) (v : Nat → UInt8) (ch fg bg : UInt8) (x y : Nat)
    (hin : 1 ≤ x ∧ x ≤ c.cols ∧ 1 ≤ y ∧ y ≤ c.rows) :
    CellShows c f (pixWrite c f v ch.toNat fg.toNat bg.toNat x y) x y ⟨ch, fg, bg⟩ := by
  intro i hi b hb
  rw [pixWrite_eq c f v ch fg bg x y i hin, if_pos hi, hb]; rfl

theorem write_other (c : Cons) (f : Font) (v : Nat → UInt8) (ch fg bg : UInt8) (x y x' y' : Nat) (cell : Cell)
    (hin : 1 ≤ x ∧ x ≤ c.cols ∧ 1 ≤ y ∧ y ≤ c.rows) (hx' : 1 ≤ x') (hy' : 1 ≤ y') (hne : ¬ (x' = x ∧ y' = y))
    (sh : CellShows c f v x' y' cell) :
    CellShows c f (pixWrite c f v ch.toNat fg.toNat bg.toNat x y) x' y' cell := by
  intro i hi b hb
  have : ¬ inCell c f x y i := fun h => hne (cell_unique hx' hy' hin.1 hin.2.2.1 hi h)
  rw [pixWrite_eq c f v ch fg bg x y i hin, if_neg this]
  exact sh i hi b hb

theorem pix_write_shows (c : Cons) (f : Font) (v : Nat → UInt8) (k : Console) (wf : WF k) (sh : PixShows c f v k)
    (ch fg bg : UInt8) (x y : Nat) (hin : 1 ≤ x ∧ x ≤ k.w ∧ 1 ≤ y ∧ y ≤ k.h) :
    PixShows c f (pixWrite c f v ch.toNat fg.toNat bg.toNat x y) (k.write ch fg bg x y) ∧
      WF (k.write ch fg bg x y) ∧ (k.write ch fg bg x y).outside = k.outside := by
  obtain ⟨hw, hh, hv⟩ := sh
  obtain ⟨w1, w2, w3, w4, w5⟩ := write_in wf ch fg bg ⟨hin.1, hin.2.1⟩ ⟨hin.2.2.1, hin.2.2.2⟩
  have hin' : 1 ≤ x ∧ x ≤ c.cols ∧ 1 ≤ y ∧ y ≤ c.rows := by omega
  refine ⟨⟨by rw [w1, hw], by rw [w2, hh], ?_⟩, w3, w4⟩
  intro r col hr hc
  rw [w2] at hr; rw [w1] at hc
  rw [w5 r col hr hc]
  by_cases hcell : r = y - 1 ∧ col = x - 1
  · rw [if_pos hcell]
    have e1 : col + 1 = x := by omega
    have e2 : r + 1 = y := by omega
    rw [e1, e2]
    exact write_cell c f v ch fg bg x y hin'
  · rw [if_neg hcell]
    exact write_other c f v ch fg bg x y (col + 1) (r + 1) _ hin' (by omega) (by omega) (by omega) (hv r col hr hc)

/-- glyph 0x20 has no bit set (generated fact for the shipped fonts: `Gen.C19.fonts`) -/
def SpaceBlank (f : Font) : Prop := ∀ px py, px < f.gw → py < f.gh → glyphBit f 32 px py = false

theorem pix_fill_shows (c : Cons) (f : Font) (g : Geo c f) (hsp : SpaceBlank f) (v : Nat → UInt8) (k : Console) (wf : WF k)
    (sh : PixShows c f v k) (x y fw fh : Nat) (fg bg : UInt8)
    (hin : 1 ≤ x ∧ 1 ≤ y ∧ x + fw ≤ k.w + 1 ∧ y + fh ≤ k.h + 1) :
    PixShows c f (pixFill c f v x y fw fh bg.toNat) (k.fill x y fw fh fg bg) ∧
      WF (k.fill x y fw fh fg bg) ∧ (k.fill x y fw fh fg bg).outside = k.outside := by
  obtain ⟨hw, hh, hv⟩ := sh
  obtain ⟨w1, w2, w3, w4, w5⟩ := fill_in wf fg bg hin
  refine ⟨⟨by rw [w1, hw], by rw [w2, hh], ?_⟩, w3, w4⟩
  intro r col hr hc
  rw [w2] at hr; rw [w1] at hc
  rw [w5 r col hr hc]
  -- the clamped/clipped rectangle is the requested one
  have hcx : clamp x c.cols = x ∨ fw = 0 := by
    unfold clamp; split
    · omega
    · split <;> omega
  have hcy : clamp y c.rows = y ∨ fh = 0 := by
    unfold clamp; split
    · omega
    · split <;> omega
  have hcx' : 1 ≤ clamp x c.cols := by
    unfold clamp; split
    · omega
    · split <;> omega
  have hcy' : 1 ≤ clamp y c.rows := by
    unfold clamp; split
    · omega
    · split <;> omega
  intro i hi b hb
  obtain ⟨a1, a2, a3, a4⟩ := hi
  simp only [Nat.add_sub_cancel] at a1 a3
  simp only [pixFill, paint, fillRect]
  by_cases hcell : y ≤ r + 1 ∧ r + 1 < y + fh ∧ x ≤ col + 1 ∧ col + 1 < x + fw
  · rw [if_pos hcell] at hb
    -- the cell lies inside the filled pixel rectangle
    have m1 : (clamp x c.cols - 1) * f.gw ≤ col * f.gw := Nat.mul_le_mul_right _ (by omega)
    have m2 : (col + 1) * f.gw ≤ min (clamp x c.cols - 1 + fw) c.cols * f.gw := Nat.mul_le_mul_right _ (by omega)
    have m3 : (clamp y c.rows - 1) * f.gh ≤ r * f.gh := Nat.mul_le_mul_right _ (by omega)
    have m4 : (r + 1) * f.gh ≤ min (clamp y c.rows - 1 + fh) c.rows * f.gh := Nat.mul_le_mul_right _ (by omega)
    rw [if_pos (by omega)]
    -- a blank glyph: every pixel is background
    have hpx : i % c.pitch / c.bytesPerPixel - (col + 1 - 1) * f.gw < f.gw := by
      rw [Nat.add_mul, Nat.one_mul] at a4; simp only [Nat.add_sub_cancel]; omega
    have hpy : i / c.pitch - (c.offsetY + (r + 1 - 1) * f.gh) < f.gh := by
      rw [Nat.add_mul, Nat.one_mul] at a2; simp only [Nat.add_sub_cancel]; omega
    simp only [cellByte] at hb
    rw [show ((32 : UInt8).toNat) = 32 from rfl, hsp _ _ hpx hpy] at hb
    simp only [Bool.false_eq_true, if_false] at hb
    rw [hb]
  · rw [if_neg hcell] at hb
    have hnot : ¬ (c.offsetY + (clamp y c.rows - 1) * f.gh ≤ i / c.pitch ∧
        i / c.pitch < c.offsetY + min (clamp y c.rows - 1 + fh) c.rows * f.gh ∧
        (clamp x c.cols - 1) * f.gw ≤ i % c.pitch / c.bytesPerPixel ∧
        i % c.pitch / c.bytesPerPixel < min (clamp x c.cols - 1 + fw) c.cols * f.gw) := by
      intro ⟨b1, b2, b3, b4⟩
      have p1 : clamp x c.cols - 1 < col + 1 := Nat.lt_of_mul_lt_mul_right (Nat.lt_of_le_of_lt b3 a4)
      have p2 : col < min (clamp x c.cols - 1 + fw) c.cols := Nat.lt_of_mul_lt_mul_right (Nat.lt_of_le_of_lt a3 b4)
      have q1 : clamp y c.rows - 1 < r + 1 := Nat.lt_of_mul_lt_mul_right (a := f.gh) (by omega)
      have q2 : r < min (clamp y c.rows - 1 + fh) c.rows := Nat.lt_of_mul_lt_mul_right (a := f.gh) (by omega)
      omega
    rw [if_neg hnot]
    exact hv r col hr hc i ⟨by simpa using a1, a2, by simpa using a3, a4⟩ b hb

/-- scrolling up by `n` lines: what cell `(x, y+n)` displayed is displayed by cell `(x, y)` -/
theorem scroll_cell_moved (c : Cons) (f : Font) (g : Geo c f) (hp : 0 < c.pitch) (v : Nat → UInt8) (n x y : Nat) (cell : Cell)
    (hn : 1 ≤ n ∧ n ≤ c.rows) (hx : 1 ≤ x ∧ x ≤ c.cols) (hy : 1 ≤ y ∧ y + n ≤ c.rows)
    (sh : CellShows c f v x (y + n) cell) :
    CellShows c f (pixScroll c f v 0 n) x y cell := by
  intro i hi b hb
  obtain ⟨a1, a2, a3, a4⟩ := hi
  have hgw := g.gw1; have hgh := g.gh1; have hb1 := g.bpp1
  have m1 : x * f.gw ≤ c.cols * f.gw := Nat.mul_le_mul_right _ hx.2
  have m2 : (y + n) * f.gh ≤ c.rows * f.gh := Nat.mul_le_mul_right _ hy.2
  have e1 : (y + n) * f.gh = y * f.gh + n * f.gh := Nat.add_mul _ _ _
  have e2 : (y + n - 1) * f.gh = (y - 1) * f.gh + n * f.gh := by
    rw [show y + n - 1 = (y - 1) + n by omega, Nat.add_mul]
  have e3 : y * f.gh = (y - 1) * f.gh + f.gh := by
    have : y = (y - 1) + 1 := by omega
    conv => lhs; rw [this, Nat.add_mul, Nat.one_mul]
  have hbw : i % c.pitch < c.width * c.bytesPerPixel := by
    have := g.colsw
    exact (Nat.div_lt_iff_lt_mul hb1).1 (by omega)
  have hrow := g.rowsh
  simp only [pixScroll]
  rw [if_pos ⟨hn.1, hn.2, hbw⟩, if_pos trivial, if_pos (by omega)]
  -- the source index, `n*gh` pixel rows further down
  have d1 : (i + n * f.gh * c.pitch) / c.pitch = i / c.pitch + n * f.gh := Nat.add_mul_div_right _ _ hp
  have d2 : (i + n * f.gh * c.pitch) % c.pitch = i % c.pitch := Nat.add_mul_mod_self_right _ _ _
  apply sh (i + n * f.gh * c.pitch)
  · unfold inCell; rw [d1, d2]; omega
  · simp only [cellByte, d1, d2] at hb ⊢
    have : i / c.pitch + n * f.gh - (c.offsetY + (y + n - 1) * f.gh) = i / c.pitch - (c.offsetY + (y - 1) * f.gh) := by omega
    rw [this]; exact hb

/-- scrolling up by `n` lines when the text area is a whole number of glyph rows: the last `n`
lines keep what they displayed -/
theorem scroll_cell_kept (c : Cons) (f : Font) (g : Geo c f) (hfit : c.offsetY + c.rows * f.gh = c.height)
    (v : Nat → UInt8) (n x y : Nat) (cell : Cell)
    (hn : 1 ≤ n ∧ n ≤ c.rows) (hy : 1 ≤ y ∧ y ≤ c.rows ∧ c.rows < y + n)
    (sh : CellShows c f v x y cell) :
    CellShows c f (pixScroll c f v 0 n) x y cell := by
  intro i hi b hb
  obtain ⟨a1, a2, a3, a4⟩ := hi
  have m1 : (c.rows - n) * f.gh ≤ (y - 1) * f.gh := Nat.mul_le_mul_right _ (by omega)
  have e1 : (c.rows - n) * f.gh + n * f.gh = c.rows * f.gh := by rw [← Nat.add_mul]; congr 1; omega
  simp only [pixScroll]
  have : v i = b := sh i ⟨a1, a2, a3, a4⟩ b hb
  split
  · rw [if_pos trivial, if_neg (by omega)]; exact this
  · exact this

theorem pix_scroll_shows (c : Cons) (f : Font) (g : Geo c f) (hp : 0 < c.pitch) (hfit : c.offsetY + c.rows * f.gh = c.height)
    (v : Nat → UInt8) (k : Console) (wf : WF k) (sh : PixShows c f v k) (n : Nat) (hn : 1 ≤ n ∧ n ≤ k.h) :
    PixShows c f (pixScroll c f v 0 n) (k.scrollUp n) ∧ WF (k.scrollUp n) ∧ (k.scrollUp n).outside = k.outside := by
  obtain ⟨hw, hh, hv⟩ := sh
  obtain ⟨w1, w2, w3, w4, w5⟩ := scrollUp_at wf hn
  refine ⟨⟨by rw [w1, hw], by rw [w2, hh], ?_⟩, w3, w4⟩
  intro r col hr hc
  rw [w2] at hr; rw [w1] at hc
  rw [w5 r col hr hc]
  by_cases hmv : r + n < k.h
  · rw [if_pos hmv]
    have := hv (r + n) col hmv hc
    rw [show r + n + 1 = r + 1 + n by omega] at this
    exact scroll_cell_moved c f g hp v n (col + 1) (r + 1) _ (by omega) (by omega) (by omega) this
  · rw [if_neg hmv]
    exact scroll_cell_kept c f g hfit v n (col + 1) (r + 1) _ (by omega) (by omega) (hv r col hr hc)

/-- without the whole-glyph-rows hypothesis: every line that receives another line's contents
displays it (the last `n` lines are the caller's to repaint) -/
theorem pix_scroll_shows_moved (c : Cons) (f : Font) (g : Geo c f) (hp : 0 < c.pitch)
    (v : Nat → UInt8) (k : Console) (sh : PixShows c f v k) (n : Nat) (hn : 1 ≤ n ∧ n ≤ k.h) :
    ∀ r col, r + n < k.h → col < k.w → CellShows c f (pixScroll c f v 0 n) (col + 1) (r + 1) (k.at (r + n) col) := by
  obtain ⟨hw, hh, hv⟩ := sh
  intro r col hmv hc
  have := hv (r + n) col hmv hc
  rw [show r + n + 1 = r + 1 + n by omega] at this
  exact scroll_cell_moved c f g hp v n (col + 1) (r + 1) _ (by omega) (by omega) (by omega) this

/-- `CellShows` / `PixShows` only look at bytes inside the framebuffer -/
theorem pixShows_congr (c : Cons) (f : Font) (g : Geo c f) (hp : 0 < c.pitch) (v v' : Nat → UInt8) (k : Console)
    (h : ∀ i, i < c.height * c.pitch → v' i = v i) (sh : PixShows c f v k) : PixShows c f v' k := by
  obtain ⟨hw, hh, hv⟩ := sh
  refine ⟨hw, hh, fun r col hr hc i hi b hb => ?_⟩
  have hlt : i < c.height * c.pitch := by
    obtain ⟨a1, a2, a3, a4⟩ := hi
    have m : (r + 1) * f.gh ≤ c.rows * f.gh := Nat.mul_le_mul_right _ (by omega)
    have := g.rowsh
    exact (Nat.div_lt_iff_lt_mul hp).1 (by omega)
  rw [h i hlt]
  exact hv r col hr hc i hi b hb

end Pixel

end Firefly.ConsoleGrid
