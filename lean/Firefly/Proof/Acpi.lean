import Firefly.Model.Acpi
import Firefly.Spec.Acpi
/-! Lemmas about the ACPI discovery model (`Model/Acpi.lean`) used by `Props/C14.lean`. -/
namespace Firefly.Acpi
open Firefly.Gen.C14

/-! ### checksum -/

theorem byteSum_zero (m : Mem) (a : Nat) : byteSum m a 0 = 0 := rfl

theorem byteSum_succ_left (m : Mem) (a n : Nat) : byteSum m a (n + 1) = rd m a + byteSum m (a + 1) n := by
  unfold byteSum
  rw [List.range_succ_eq_map]
  have : (fun i => rd m (a + (i + 1))) = (fun i => rd m (a + 1 + i)) := by
    funext i; congr 1; omega
  simp [List.map_map, Function.comp_def, this]

theorem sumLoop_eq (m : Mem) (a n acc : Nat) (h : acc < 256) :
    sumLoop m a n acc = (acc + byteSum m a n) % 256 := by
  induction n generalizing a acc with
  | zero => simp [sumLoop, byteSum_zero]; omega
  | succ n ih =>
    rw [sumLoop, ih (a + 1) _ (Nat.mod_lt _ (by decide)), byteSum_succ_left]
    omega

theorem validTable_iff (m : Mem) (a n : Nat) : validTable m a n = true ↔ byteSum m a n % 256 = 0 := by
  unfold validTable
  rw [sumLoop_eq m a n 0 (by decide)]
  simp

/-! ### little-endian loads -/

theorem rd_lt (m : Mem) (a : Nat) : rd m a < 256 := by
  unfold rd; exact (m (a % 2^64)).toNat_lt

theorem rdLE_lt (m : Mem) (a k : Nat) : rdLE m a k < 256 ^ k := by
  induction k generalizing a with
  | zero => simp [rdLE]
  | succ k ih =>
    have h1 := rd_lt m a
    have h2 := ih (a + 1)
    rw [rdLE, Nat.pow_succ]
    omega

theorem rdLE_four (m : Mem) (a : Nat) :
    rdLE m a 4 = rd m a + 256 * rd m (a + 1) + 65536 * rd m (a + 2) + 16777216 * rd m (a + 3) := by
  simp only [rdLE, Nat.add_assoc, Nat.reduceAdd]; omega

theorem rdLE_eight (m : Mem) (a : Nat) :
    rdLE m a 8 = rd m a + 256 * rd m (a + 1) + 65536 * rd m (a + 2) + 16777216 * rd m (a + 3)
      + 4294967296 * rdLE m (a + 4) 4 := by
  simp only [rdLE, Nat.add_assoc, Nat.reduceAdd]; omega

/-! ### signature scan -/

theorem matchSig_iff (m : Mem) (a : Nat) (l : List Nat) :
    matchSig m a l = true ↔ (List.range l.length).map (fun i => rd m (a + i)) = l := by
  induction l generalizing a with
  | nil => simp [matchSig]
  | cons b bs ih =>
    have : (fun i => rd m (a + (i + 1))) = (fun i => rd m (a + 1 + i)) := by
      funext i; congr 1; omega
    rw [matchSig, List.length_cons, List.range_succ_eq_map]
    simp [List.map_map, Function.comp_def, this, ih (a + 1)]

theorem scan_missing_iff (m : Mem) (a n : Nat) :
    scan m a n = .missing ↔ ∀ k, k < n → checkSlot m (a + 16 * k) = none := by
  induction n generalizing a with
  | zero => simp [scan]
  | succ n ih =>
    rw [scan]
    cases hc : checkSlot m a with
    | some r =>
      obtain ⟨root, x⟩ := r
      simp only [reduceCtorEq, false_iff]
      intro h
      have := h 0 (by omega)
      simp [hc] at this
    | none =>
      simp only
      have hal : rsdpAlignment = 16 := rfl
      rw [hal, ih (a + 16)]
      constructor
      · intro h k hk
        cases k with
        | zero => simpa using hc
        | succ k =>
          have := h k (by omega)
          have e : a + 16 * (k + 1) = a + 16 + 16 * k := by omega
          rw [e]; exact this
      · intro h k hk
        have := h (k + 1) (by omega)
        have e : a + 16 * (k + 1) = a + 16 + 16 * k := by omega
        rw [← e]; exact this

theorem scan_found_iff (m : Mem) (a n root : Nat) (x : Bool) :
    scan m a n = .found root x ↔
      ∃ k, k < n ∧ checkSlot m (a + 16 * k) = some (root, x) ∧ ∀ j, j < k → checkSlot m (a + 16 * j) = none := by
  induction n generalizing a with
  | zero => simp [scan]
  | succ n ih =>
    rw [scan]
    cases hc : checkSlot m a with
    | some r =>
      obtain ⟨root', x'⟩ := r
      simp only [Probe.found.injEq]
      constructor
      · rintro ⟨rfl, rfl⟩
        exact ⟨0, by omega, by simpa using hc, by intro j hj; omega⟩
      · rintro ⟨k, _, hk, hlow⟩
        cases k with
        | zero =>
          simp [hc] at hk
          exact hk
        | succ k =>
          have := hlow 0 (by omega)
          simp [hc] at this
    | none =>
      simp only
      have hal : rsdpAlignment = 16 := rfl
      rw [hal, ih (a + 16)]
      constructor
      · rintro ⟨k, hk, hs, hlow⟩
        refine ⟨k + 1, by omega, ?_, ?_⟩
        · have e : a + 16 * (k + 1) = a + 16 + 16 * k := by omega
          rw [e]; exact hs
        · intro j hj
          cases j with
          | zero => simpa using hc
          | succ j =>
            have e : a + 16 * (j + 1) = a + 16 + 16 * j := by omega
            rw [e]; exact hlow j (by omega)
      · rintro ⟨k, hk, hs, hlow⟩
        cases k with
        | zero => simp [hc] at hs
        | succ k =>
          refine ⟨k, by omega, ?_, ?_⟩
          · have e : a + 16 * (k + 1) = a + 16 + 16 * k := by omega
            rw [← e]; exact hs
          · intro j hj
            have e : a + 16 * (j + 1) = a + 16 + 16 * j := by omega
            rw [← e]; exact hlow (j + 1) (by omega)

theorem lt_nslots_iff (low hi k : Nat) : k < nslots low hi ↔ low + 16 * k < hi := by
  unfold nslots
  have hal : rsdpAlignment = 16 := rfl
  rw [hal]
  omega

/-! ### enumeration -/

/-- `tableMap[sig] = header` when the checksum is good, nothing otherwise -/
def register (m : Mem) (t : List (Nat × Nat)) (a : Nat) : List (Nat × Nat) :=
  if tableOK m a then insert t (sigAt m a) a else t

/-- the addresses handed to `mapACPITable` while processing the root-table entry `a` -/
def visit (m : Mem) (rootRev a : Nat) : List Nat :=
  if tableOK m a && sigAt m a == fadtSignature then [a, dsdtPtr m rootRev a] else [a]

/-- the two `identityMapFn` calls of one `mapACPITable` -/
def hdrMaps (m : Mem) (a : Nat) : List (Nat × Nat) :=
  [(a >>> pageShift, sizeofSDTHeader), (a >>> pageShift, lenAt m a)]

theorem stepEntry_eq (m : Mem) (rv : Nat) (st : St) (a : Nat) :
    stepEntry m rv st a =
      { tables := (visit m rv a).foldl (register m) st.tables,
        skipped := st.skipped ++ (visit m rv a).filter (fun b => !tableOK m b),
        maps := st.maps ++ (visit m rv a).flatMap (hdrMaps m) } := by
  unfold stepEntry mapACPITable visit register hdrMaps
  by_cases h1 : tableOK m a = true
  · by_cases h2 : (sigAt m a == fadtSignature) = true
    · by_cases h3 : tableOK m (dsdtPtr m rv a) = true
      · simp [h1, h2, h3]
      · simp [h1, h2, h3]
    · simp [h1, h2]
  · simp [h1]

theorem foldl_stepEntry (m : Mem) (rv : Nat) (es : List Nat) (st : St) :
    es.foldl (stepEntry m rv) st =
      { tables := (es.flatMap (visit m rv)).foldl (register m) st.tables,
        skipped := st.skipped ++ (es.flatMap (visit m rv)).filter (fun b => !tableOK m b),
        maps := st.maps ++ (es.flatMap (visit m rv)).flatMap (hdrMaps m) } := by
  induction es generalizing st with
  | nil => simp
  | cons e es ih =>
    rw [List.foldl_cons, ih, stepEntry_eq]
    simp [List.foldl_append, List.filter_append, List.flatMap_append, List.append_assoc]

theorem lookup_filter_ne (t : List (Nat × Nat)) (s s' : Nat) (h : s' ≠ s) :
    (t.filter (fun p => p.1 != s)).lookup s' = t.lookup s' := by
  induction t with
  | nil => rfl
  | cons p t ih =>
    obtain ⟨k, v⟩ := p
    by_cases hk : k = s
    · subst hk
      have : (s' == k) = false := by simpa using h
      simp [List.lookup_cons, this, ih]
    · have hk' : (k != s) = true := by simpa using hk
      simp [hk', List.lookup_cons, ih]

theorem lookup_insert (t : List (Nat × Nat)) (s a s' : Nat) :
    (insert t s a).lookup s' = if s' = s then some a else t.lookup s' := by
  unfold insert
  by_cases h : s' = s
  · subst h; simp
  · have : (s' == s) = false := by simpa using h
    simp [List.lookup_cons, this, h, lookup_filter_ne t s s' h]

theorem lookup_foldl_register (m : Mem) (vs : List Nat) (t : List (Nat × Nat)) (s : Nat) :
    (vs.foldl (register m) t).lookup s =
      match vs.reverse.find? (fun a => tableOK m a && sigAt m a == s) with
      | some a => some a
      | none => t.lookup s := by
  induction vs generalizing t with
  | nil => simp
  | cons v vs ih =>
    rw [List.foldl_cons, ih, List.reverse_cons, List.find?_append]
    cases hf : vs.reverse.find? (fun a => tableOK m a && sigAt m a == s) with
    | some a => simp
    | none =>
      simp only [Option.none_or, List.find?_cons, List.find?_nil]
      unfold register
      by_cases h1 : tableOK m v = true
      · by_cases h2 : sigAt m v = s
        · subst h2; simp [h1, lookup_insert]
        · have h2' : (sigAt m v == s) = false := by simpa using h2
          have h3 : ¬ s = sigAt m v := fun e => h2 e.symm
          simp [h1, h2', lookup_insert, h3]
      · simp [h1]

theorem insert_keys_nodup (t : List (Nat × Nat)) (s a : Nat) (h : (t.map (·.1)).Nodup) :
    ((insert t s a).map (·.1)).Nodup := by
  unfold insert
  rw [List.map_cons, List.nodup_cons]
  constructor
  · simp [List.mem_map, List.mem_filter]
  · exact List.Nodup.sublist (List.Sublist.map _ List.filter_sublist) h

theorem foldl_register_keys_nodup (m : Mem) (vs : List Nat) (t : List (Nat × Nat))
    (h : (t.map (·.1)).Nodup) : ((vs.foldl (register m) t).map (·.1)).Nodup := by
  induction vs generalizing t with
  | nil => simpa
  | cons v vs ih =>
    rw [List.foldl_cons]
    apply ih
    unfold register
    split
    · exact insert_keys_nodup t _ _ h
    · exact h

/-! ### ties to the specification vocabulary -/

theorem tableOK_iff (m : Mem) (a : Nat) : tableOK m a = true ↔ SumsToZero m a (lenAt m a) := by
  unfold tableOK SumsToZero; exact validTable_iff m a _

theorem checkSlot_eq (m : Mem) (a : Nat) [Decidable (ValidRsdpAt m a)] :
    checkSlot m a = if ValidRsdpAt m a then some (rootOf m a) else none := by
  have hs : rsdpSignature = rsdPtrSignature := by decide
  have h1 : rsdpRevisionOff = 15 := rfl
  have h2 : acpiRev1 = 0 := rfl
  have h3 : rsdpChecksumLen = 20 := rfl
  have h4 : extRsdpChecksumLen = 36 := rfl
  have h5 : rsdpRSDTAddrOff = 16 := rfl
  have h6 : rsdpRSDTAddrSize = 4 := rfl
  have h7 : rsdpXSDTAddrOff = 24 := rfl
  have h8 : rsdpXSDTAddrSize = 8 := rfl
  have hl : rsdPtrSignature.length = 8 := rfl
  unfold checkSlot ValidRsdpAt rootOf
  rw [hs, h1, h2, h3, h4, h5, h6, h7, h8]
  have hm := matchSig_iff m a rsdPtrSignature
  rw [hl] at hm
  by_cases hsig : matchSig m a rsdPtrSignature = true
  · have hsig' := hm.1 hsig
    by_cases hrev : rd m (a + 15) = 0
    · by_cases hv : validTable m a 20 = true
      · have := (validTable_iff m a 20).1 hv
        simp [hsig, hsig', hrev, hv, SumsToZero, this]
      · have : ¬ byteSum m a 20 % 256 = 0 := fun h => hv ((validTable_iff m a 20).2 h)
        simp [hsig, hsig', hrev, hv, SumsToZero, this]
    · by_cases hv : validTable m a 36 = true
      · have := (validTable_iff m a 36).1 hv
        simp [hsig, hsig', hrev, hv, SumsToZero, this]
      · have : ¬ byteSum m a 36 % 256 = 0 := fun h => hv ((validTable_iff m a 36).2 h)
        simp [hsig, hsig', hrev, hv, SumsToZero, this]
  · have : ¬ (List.range 8).map (fun i => rd m (a + i)) = rsdPtrSignature := fun h => hsig (hm.2 h)
    simp [hsig, this]

theorem considered_eq (m : Mem) (root : Nat) (x : Bool) :
    considered m root x = (entries m root x).flatMap (visit m (rd m (root + hdrRevisionOff))) := rfl

theorem enumerateTables_ok (m : Mem) (root : Nat) (x : Bool) (h : tableOK m root = true) :
    enumerateTables m root x =
      (.ok, { tables := (considered m root x).foldl (register m) [],
              skipped := (considered m root x).filter (fun b => !tableOK m b),
              maps := hdrMaps m root ++ (considered m root x).flatMap (hdrMaps m) }) := by
  unfold enumerateTables mapACPITable
  simp only [h, Bool.not_true, Bool.false_eq_true, if_false]
  rw [foldl_stepEntry, considered_eq]
  simp [hdrMaps]

theorem enumerateTables_bad (m : Mem) (root : Nat) (x : Bool) (h : tableOK m root = false) :
    enumerateTables m root x = (.checksumMismatch, { tables := [], skipped := [], maps := hdrMaps m root }) := by
  unfold enumerateTables mapACPITable
  simp [h, hdrMaps]

end Firefly.Acpi
