import Firefly.Model.Vt
import Firefly.Spec.Term
import Firefly.Proof.VtCons
/-!
Lemmas for C17/C18: arithmetic of cell offsets, the byte-array primitives of the VT model, the
invariant `Inv`, and one refinement lemma per VT primitive.
-/
namespace Firefly.VtProof
set_option linter.unusedSimpArgs false
open Firefly.Vt Firefly.Term Firefly.VtCons

/-! ### arithmetic -/

theorem succ_mul' (r w : Nat) : (r + 1) * w = r * w + w := Nat.succ_mul r w

/-- cell `(r, c)` of a `H`-line grid lies inside the buffer -/
theorem cell_lt {r c w H : Nat} (hr : r < H) (hc : c < w) : r * w + c < w * H := by
  have h1 : (r + 1) * w ≤ H * w := Nat.mul_le_mul_right w hr
  rw [succ_mul'] at h1
  rw [Nat.mul_comm w H]; omega

/-- comparing a cell index with a line boundary -/
theorem cell_lt_row {r c w R : Nat} (hc : c < w) : r * w + c < R * w ↔ r < R := by
  constructor
  · intro h
    apply Decidable.byContradiction; intro hn
    have : R * w ≤ r * w := Nat.mul_le_mul_right w (by omega)
    omega
  · intro h
    have h1 : (r + 1) * w ≤ R * w := Nat.mul_le_mul_right w h
    rw [succ_mul'] at h1; omega

/-- the cell index determines line and column -/
theorem cell_inj {r c r' c' w : Nat} (hc : c < w) (hc' : c' < w) (h : r * w + c = r' * w + c') :
    r = r' ∧ c = c' := by
  have hw : 0 < w := by omega
  have e1 : (w * r + c) / w = r := by rw [Nat.mul_add_div hw, Nat.div_eq_of_lt hc]; rfl
  have e2 : (w * r' + c') / w = r' := by rw [Nat.mul_add_div hw, Nat.div_eq_of_lt hc']; rfl
  have e3 : (w * r + c) % w = c := by rw [Nat.mul_add_mod, Nat.mod_eq_of_lt hc]
  have e4 : (w * r' + c') % w = c' := by rw [Nat.mul_add_mod, Nat.mod_eq_of_lt hc']
  rw [Nat.mul_comm r w, Nat.mul_comm r' w] at h
  rw [h] at e1 e3
  exact ⟨by omega, by omega⟩

theorem u32_of_lt {n : Nat} (h : n < 4294967296) : u32 n = n := Nat.mod_eq_of_lt h
theorem u64_of_lt {n : Nat} (h : n < 18446744073709551616) : u64 n = n := Nat.mod_eq_of_lt h
theorem sub32_one {n : Nat} (h1 : 1 ≤ n) (h : n < 4294967296) : sub32 n 1 = n - 1 := by
  unfold sub32; omega

/-! ### byte array primitives -/

theorem byteAt_of_lt {d : Array UInt8} {i : Nat} (h : i < d.size) : byteAt d i = d[i] := by
  simp [byteAt, Array.getD, h]

theorem byteAt_set {d : Array UInt8} {i j : Nat} {v : UInt8} (h : i < d.size) :
    byteAt (d.set i v h) j = if j = i then v else byteAt d j := by
  unfold byteAt
  simp only [Array.getD_eq_getD_getElem?, Array.getElem?_set]
  by_cases e : i = j
  · subst e; simp
  · have : ¬ j = i := fun h => e h.symm
    simp [e, this]

theorem store_spec {d : Array UInt8} {i : Nat} {v : UInt8} (h : i < d.size) :
    ∃ d', store d i v = some d' ∧ d'.size = d.size ∧
      ∀ j, byteAt d' j = if j = i then v else byteAt d j := by
  refine ⟨d.set i v h, by simp [store, h], by simp, fun j => byteAt_set h⟩

theorem store3_spec {d : Array UInt8} {i : Nat} (a b c : UInt8) (h : i + 2 < d.size) :
    ∃ d', store3 d i a b c = some d' ∧ d'.size = d.size ∧
      ∀ j, byteAt d' j = if j = i then a else if j = i + 1 then b else if j = i + 2 then c
                          else byteAt d j := by
  obtain ⟨d1, e1, s1, g1⟩ := store_spec (d := d) (i := i) (v := a) (by omega)
  obtain ⟨d2, e2, s2, g2⟩ := store_spec (d := d1) (i := i + 1) (v := b) (by omega)
  obtain ⟨d3, e3, s3, g3⟩ := store_spec (d := d2) (i := i + 2) (v := c) (by omega)
  refine ⟨d3, by simp [store3, e1, e2, e3], by omega, fun j => ?_⟩
  rw [g3, g2, g1]
  by_cases h0 : j = i
  · subst h0; simp
  · by_cases h1 : j = i + 1
    · subst h1; simp
    · simp [h0, h1]

theorem store3_none {d : Array UInt8} {i : Nat} (a b c : UInt8) (h : d.size ≤ i) :
    store3 d i a b c = none := by
  simp [store3, store, Nat.not_lt.2 h]

theorem copyUp_spec (stride : Nat) : ∀ (n off : Nat) (d : Array UInt8), off + n + stride ≤ d.size →
    ∃ d', copyUp stride n off d = some d' ∧ d'.size = d.size ∧
      ∀ j, byteAt d' j = if off ≤ j ∧ j < off + n then byteAt d (j + stride) else byteAt d j := by
  intro n
  induction n with
  | zero => intro off d _; exact ⟨d, rfl, rfl, fun j => by simp; omega⟩
  | succ n ih =>
    intro off d h
    have h1 : off + stride < d.size := by omega
    have h0 : off < d.size := by omega
    obtain ⟨d', e, s, g⟩ := ih (off + 1) (d.set off d[off + stride] h0) (by simp; omega)
    refine ⟨d', by simp [copyUp, h1, e], by simpa using s, fun j => ?_⟩
    rw [g, byteAt_set, byteAt_set, ← byteAt_of_lt h1]
    by_cases c1 : j = off
    · subst c1
      have : ¬ (j + 1 ≤ j ∧ j < j + 1 + n) := by omega
      simp [this]
    · by_cases c2 : off + 1 ≤ j ∧ j < off + 1 + n
      · have c3 : off ≤ j ∧ j < off + (n + 1) := by omega
        have c4 : ¬ j + stride = off := by omega
        simp [c2, c3, c4]
      · have c3 : ¬ (off ≤ j ∧ j < off + (n + 1)) := by omega
        simp [c1, c2, c3]

/-- the blank pattern written by the clearing loop of `lf` -/
def pat (fg bg : UInt8) (k : Nat) : UInt8 := if k % 3 = 0 then 32 else if k % 3 = 1 then fg else bg

theorem blankN_spec (fg bg : UInt8) : ∀ (n off : Nat) (d : Array UInt8), off + 3 * n ≤ d.size →
    ∃ d', blankN fg bg n off d = some d' ∧ d'.size = d.size ∧
      ∀ j, byteAt d' j = if off ≤ j ∧ j < off + 3 * n then pat fg bg (j - off) else byteAt d j := by
  intro n
  induction n with
  | zero => intro off d _; exact ⟨d, rfl, rfl, fun j => by simp; omega⟩
  | succ n ih =>
    intro off d h
    obtain ⟨d1, e1, s1, g1⟩ := store3_spec (d := d) (i := off) 32 fg bg (by omega)
    obtain ⟨d', e, s, g⟩ := ih (off + 3) d1 (by omega)
    refine ⟨d', by simp [blankN, e1, e], by omega, fun j => ?_⟩
    rw [g, g1]
    by_cases c0 : off + 3 ≤ j ∧ j < off + 3 + 3 * n
    · have c1 : off ≤ j ∧ j < off + 3 * (n + 1) := by omega
      have : (j - off) % 3 = (j - (off + 3)) % 3 := by omega
      simp [c0, c1, pat, this]
    · by_cases c1 : j = off
      · subst c1; simp [pat] <;> omega
      · by_cases c2 : j = off + 1
        · subst c2; simp [pat] <;> omega
        · by_cases c3 : j = off + 2
          · subst c3; simp [pat] <;> omega
          · have c4 : ¬ (off ≤ j ∧ j < off + 3 * (n + 1)) := by omega
            simp [c0, c1, c2, c3, c4]


/-! ### grids -/

@[simp] theorem gridOf_length (d : Array UInt8) (w H : Nat) : (gridOf d w H).length = H := by
  simp [gridOf]

theorem gridOf_row {d : Array UInt8} {w H r : Nat} (h : r < (gridOf d w H).length) :
    (gridOf d w H)[r] = (List.range w).map fun c => cellAt d w r c := by
  simp [gridOf]

theorem gridOf_row_length {d : Array UInt8} {w H r : Nat} (h : r < (gridOf d w H).length) :
    (gridOf d w H)[r].length = w := by
  simp [gridOf]

theorem gridOf_cell {d : Array UInt8} {w H r c : Nat} (h : r < (gridOf d w H).length)
    (hc : c < (gridOf d w H)[r].length) : (gridOf d w H)[r][c] = cellAt d w r c := by
  simp [gridOf]

/-- a grid is `gridOf d` iff it has the right shape and the right cells -/
theorem eq_gridOf {g : Grid} {d : Array UInt8} {w H : Nat} (hl : g.length = H)
    (hrow : ∀ r (h : r < g.length), g[r].length = w)
    (hcell : ∀ r c (h : r < g.length) (hc : c < g[r].length), g[r][c] = cellAt d w r c) :
    gridOf d w H = g := by
  apply List.ext_getElem (by simp [hl])
  intro r h1 h2
  apply List.ext_getElem (by rw [gridOf_row_length, hrow])
  intro c h3 h4
  rw [gridOf_cell, hcell]

/-- storing one cell in the buffer is `modify/set` on the grid -/
theorem gridOf_put {d d' : Array UInt8} {w H r0 c0 : Nat} {x : Cell}
    (hcells : ∀ r c, c < w → cellAt d' w r c = if r = r0 ∧ c = c0 then x else cellAt d w r c) :
    gridOf d' w H = (gridOf d w H).modify r0 fun line => line.set c0 x := by
  apply eq_gridOf (by simp)
  · intro r h
    rw [List.getElem_modify]
    split <;> simp [gridOf]
  · intro r c h hc
    have hr : r < H := by simpa using h
    simp only [List.getElem_modify] at hc ⊢
    have hcw : c < w := by
      split at hc
      · simpa [gridOf] using hc
      · simpa [gridOf] using hc
    rw [hcells r c hcw]
    by_cases e : r0 = r
    · subst e
      simp only [if_true, true_and, List.getElem_set]
      by_cases e2 : c0 = c
      · subst e2; simp
      · have : ¬ c = c0 := fun h => e2 h.symm
        simp [e2, this, gridOf]
    · have : ¬ r = r0 := fun h => e h.symm
      simp [e, this, gridOf]


/-! ### cells and bytes -/

theorem byte_lt_row {r c w R k : Nat} (hc : c < w) (hk : k < 3) :
    (r * w + c) * 3 + k < R * (w * 3) ↔ r < R := by
  rw [← Nat.mul_assoc, ← cell_lt_row (r := r) (R := R) hc]
  omega

theorem cellAt_store3 {d d' : Array UInt8} {w r0 c0 : Nat} {a b c : UInt8} (hc0 : c0 < w)
    (g : ∀ j, byteAt d' j = if j = (r0 * w + c0) * 3 then a else if j = (r0 * w + c0) * 3 + 1 then b
          else if j = (r0 * w + c0) * 3 + 2 then c else byteAt d j) :
    ∀ r cc, cc < w → cellAt d' w r cc = if r = r0 ∧ cc = c0 then ⟨a, b, c⟩ else cellAt d w r cc := by
  intro r cc hcc
  unfold cellAt
  rw [g, g, g]
  by_cases e : r = r0 ∧ cc = c0
  · obtain ⟨e1, e2⟩ := e
    subst e1; subst e2
    simp
  · have ne : r * w + cc ≠ r0 * w + c0 := fun h => e (cell_inj hcc hc0 h)
    have n1 : ¬ (r * w + cc) * 3 = (r0 * w + c0) * 3 := by omega
    have n2 : ¬ (r * w + cc) * 3 = (r0 * w + c0) * 3 + 1 := by omega
    have n3 : ¬ (r * w + cc) * 3 = (r0 * w + c0) * 3 + 2 := by omega
    have n4 : ¬ (r * w + cc) * 3 + 1 = (r0 * w + c0) * 3 := by omega
    have n5 : ¬ (r * w + cc) * 3 + 1 = (r0 * w + c0) * 3 + 1 := by omega
    have n6 : ¬ (r * w + cc) * 3 + 1 = (r0 * w + c0) * 3 + 2 := by omega
    have n7 : ¬ (r * w + cc) * 3 + 2 = (r0 * w + c0) * 3 := by omega
    have n8 : ¬ (r * w + cc) * 3 + 2 = (r0 * w + c0) * 3 + 1 := by omega
    have n9 : ¬ (r * w + cc) * 3 + 2 = (r0 * w + c0) * 3 + 2 := by omega
    simp [e, n1, n2, n3, n4, n5, n6, n7, n8, n9]

/-- one byte of the buffer after the two loops of the scroll branch of `lf` -/
theorem scroll_byte {d d1 d2 : Array UInt8} {w vy h : Nat} {fg bg : UInt8} (h1 : 1 ≤ h)
    (g1 : ∀ j, byteAt d1 j = if vy * (w * 3) ≤ j ∧ j < vy * (w * 3) + ((vy + h - 1) * (w * 3) - vy * (w * 3))
            then byteAt d (j + w * 3) else byteAt d j)
    (g2 : ∀ j, byteAt d2 j = if (vy + h - 1) * (w * 3) ≤ j ∧ j < (vy + h - 1) * (w * 3) + 3 * w
            then pat fg bg (j - (vy + h - 1) * (w * 3)) else byteAt d1 j)
    {r c k : Nat} (hc : c < w) (hk : k < 3) :
    byteAt d2 ((r * w + c) * 3 + k) =
      if r < vy then byteAt d ((r * w + c) * 3 + k)
      else if r < vy + h - 1 then byteAt d (((r + 1) * w + c) * 3 + k)
      else if r = vy + h - 1 then pat fg bg k
      else byteAt d ((r * w + c) * 3 + k) := by
  have A := byte_lt_row (r := r) (R := vy) hc hk
  have B := byte_lt_row (r := r) (R := vy + h - 1) hc hk
  have C := byte_lt_row (r := r) (R := vy + h - 1 + 1) hc hk
  have hC : (vy + h - 1 + 1) * (w * 3) = (vy + h - 1) * (w * 3) + 3 * w := by
    rw [succ_mul']; omega
  rw [hC] at C
  have mono : vy * (w * 3) ≤ (vy + h - 1) * (w * 3) := Nat.mul_le_mul_right _ (by omega)
  have shift : (r * w + c) * 3 + k + w * 3 = ((r + 1) * w + c) * 3 + k := by
    rw [succ_mul']; omega
  rw [g2, g1]
  by_cases c1 : r < vy
  · have := A.2 c1
    have c2 : ¬ ((vy + h - 1) * (w * 3) ≤ (r * w + c) * 3 + k ∧ (r * w + c) * 3 + k < (vy + h - 1) * (w * 3) + 3 * w) := by omega
    have c3 : ¬ (vy * (w * 3) ≤ (r * w + c) * 3 + k ∧ (r * w + c) * 3 + k < vy * (w * 3) + ((vy + h - 1) * (w * 3) - vy * (w * 3))) := by omega
    simp [c1, c2, c3]
  · have nA : ¬ (r * w + c) * 3 + k < vy * (w * 3) := fun h => c1 (A.1 h)
    by_cases c2 : r < vy + h - 1
    · have := B.2 c2
      have c3 : ¬ ((vy + h - 1) * (w * 3) ≤ (r * w + c) * 3 + k ∧ (r * w + c) * 3 + k < (vy + h - 1) * (w * 3) + 3 * w) := by omega
      have c4 : (vy * (w * 3) ≤ (r * w + c) * 3 + k ∧ (r * w + c) * 3 + k < vy * (w * 3) + ((vy + h - 1) * (w * 3) - vy * (w * 3))) := by omega
      simp [c1, c2, c3, c4, shift]
    · have nB : ¬ (r * w + c) * 3 + k < (vy + h - 1) * (w * 3) := fun h => c2 (B.1 h)
      by_cases c3 : r = vy + h - 1
      · have := C.2 (by omega)
        have c4 : ((vy + h - 1) * (w * 3) ≤ (r * w + c) * 3 + k ∧ (r * w + c) * 3 + k < (vy + h - 1) * (w * 3) + 3 * w) := by omega
        have e : (r * w + c) * 3 + k - (vy + h - 1) * (w * 3) = c * 3 + k := by
          rw [← c3, ← Nat.mul_assoc]; omega
        have e2 : pat fg bg (c * 3 + k) = pat fg bg k := by
          unfold pat
          have : (c * 3 + k) % 3 = k % 3 := by omega
          rw [this]
        rw [if_pos c4, e, e2, if_neg c1, if_neg c2, if_pos c3]
      · have nC : ¬ (r * w + c) * 3 + k < (vy + h - 1) * (w * 3) + 3 * w := fun h => by
          have := C.1 h; omega
        have c4 : ¬ ((vy + h - 1) * (w * 3) ≤ (r * w + c) * 3 + k ∧ (r * w + c) * 3 + k < (vy + h - 1) * (w * 3) + 3 * w) := by omega
        have c5 : ¬ (vy * (w * 3) ≤ (r * w + c) * 3 + k ∧ (r * w + c) * 3 + k < vy * (w * 3) + ((vy + h - 1) * (w * 3) - vy * (w * 3))) := by omega
        simp [c1, c2, c3, c4, c5]

theorem scroll_cells {d d1 d2 : Array UInt8} {w vy h : Nat} {fg bg : UInt8} (h1 : 1 ≤ h)
    (g1 : ∀ j, byteAt d1 j = if vy * (w * 3) ≤ j ∧ j < vy * (w * 3) + ((vy + h - 1) * (w * 3) - vy * (w * 3))
            then byteAt d (j + w * 3) else byteAt d j)
    (g2 : ∀ j, byteAt d2 j = if (vy + h - 1) * (w * 3) ≤ j ∧ j < (vy + h - 1) * (w * 3) + 3 * w
            then pat fg bg (j - (vy + h - 1) * (w * 3)) else byteAt d1 j) :
    ∀ r c, c < w → cellAt d2 w r c =
      if r < vy then cellAt d w r c
      else if r < vy + h - 1 then cellAt d w (r + 1) c
      else if r = vy + h - 1 then ⟨32, fg, bg⟩
      else cellAt d w r c := by
  intro r c hc
  have b0 := scroll_byte h1 g1 g2 (r := r) (k := 0) hc (by omega)
  have b1 := scroll_byte h1 g1 g2 (r := r) (k := 1) hc (by omega)
  have b2 := scroll_byte h1 g1 g2 (r := r) (k := 2) hc (by omega)
  simp only [Nat.add_zero] at b0
  unfold cellAt
  rw [b0, b1, b2]
  by_cases c1 : r < vy
  · simp [c1]
  · by_cases c2 : r < vy + h - 1
    · simp [c1, c2]
    · by_cases c3 : r = vy + h - 1
      · rw [if_neg c1, if_neg c2, if_pos c3, if_neg c1, if_neg c2, if_pos c3, if_neg c1, if_neg c2,
          if_pos c3, if_neg c1, if_neg c2, if_pos c3]
        simp [pat]
      · simp [c1, c2, c3]


theorem scrollGrid_getElem? {α} (g : List α) (vy h r : Nat) (b : α) (h1 : 1 ≤ h) (hl : vy + h ≤ g.length) :
    (g.take vy ++ (g.drop (vy+1)).take (h-1) ++ [b] ++ g.drop (vy+h))[r]? =
      if r < vy then g[r]? else if r < vy+h-1 then g[r+1]? else if r = vy+h-1 then some b else g[r]? := by
  have l1 : (g.take vy).length = vy := by simp; omega
  have l2 : ((g.drop (vy+1)).take (h-1)).length = h - 1 := by simp; omega
  by_cases c1 : r < vy
  · simp only [c1, if_true, List.append_assoc]
    rw [List.getElem?_append_left (by omega), List.getElem?_take_of_lt c1]
  · by_cases c2 : r < vy + h - 1
    · simp only [c1, c2, if_true, if_false, List.append_assoc]
      rw [List.getElem?_append_right (by omega), List.getElem?_append_left (by omega), l1,
        List.getElem?_take_of_lt (by omega), List.getElem?_drop]
      congr 1; omega
    · by_cases c3 : r = vy + h - 1
      · rw [if_neg c1, if_neg c2, if_pos c3, List.append_assoc, List.append_assoc]
        rw [List.getElem?_append_right (by omega), List.getElem?_append_right (by omega), l1, l2]
        have : r - vy - (h - 1) = 0 := by omega
        simp [this]
      · simp only [c1, c2, c3, if_true, if_false, List.append_assoc]
        rw [List.getElem?_append_right (by omega), List.getElem?_append_right (by omega), l1, l2,
          List.getElem?_append_right (by simp; omega), List.getElem?_drop]
        congr 1; simp; omega

theorem gridOf_getElem? (d : Array UInt8) (w H r : Nat) :
    (gridOf d w H)[r]? = if r < H then some ((List.range w).map fun c => cellAt d w r c) else none := by
  simp only [gridOf, List.getElem?_map, List.getElem?_range]
  by_cases h : r < H
  · simp [h]
  · simp [h]

theorem row_congr {w : Nat} {f g : Nat → Cell} (h : ∀ c, c < w → f c = g c) :
    (List.range w).map f = (List.range w).map g :=
  List.map_congr_left fun c hc => h c (List.mem_range.1 hc)

/-- the grid after the scroll branch of `lf`, in the words of the reference terminal -/
theorem gridOf_scroll {d d2 : Array UInt8} {w vy h : Nat} {fg bg : UInt8} (h1 : 1 ≤ h)
    (cells : ∀ r c, c < w → cellAt d2 w r c =
      if r < vy then cellAt d w r c
      else if r < vy + h - 1 then cellAt d w (r + 1) c
      else if r = vy + h - 1 then ⟨32, fg, bg⟩
      else cellAt d w r c) (H : Nat) (hH : vy + h ≤ H) :
    gridOf d2 w H =
      (gridOf d w H).take vy ++ ((gridOf d w H).drop (vy + 1)).take (h - 1)
        ++ [List.replicate w ⟨32, fg, bg⟩] ++ (gridOf d w H).drop (vy + h) := by
  apply List.ext_getElem?
  intro r
  rw [scrollGrid_getElem? _ _ _ _ _ h1 (by simpa using hH)]
  simp only [gridOf_getElem?]
  by_cases hr : r < H
  · by_cases c1 : r < vy
    · rw [if_pos hr, if_pos c1, if_pos hr]
      congr 1; apply row_congr; intro c hc; rw [cells r c hc, if_pos c1]
    · by_cases c2 : r < vy + h - 1
      · rw [if_pos hr, if_neg c1, if_pos c2, if_pos (by omega)]
        congr 1; apply row_congr; intro c hc; rw [cells r c hc, if_neg c1, if_pos c2]
      · by_cases c3 : r = vy + h - 1
        · rw [if_pos hr, if_neg c1, if_neg c2, if_pos c3]
          congr 1
          have : (List.range w).map (fun c => cellAt d2 w r c) = (List.range w).map fun _ => (⟨32, fg, bg⟩ : Cell) := by
            apply row_congr; intro c hc; rw [cells r c hc, if_neg c1, if_neg c2, if_pos c3]
          rw [this, List.map_const']; simp
        · rw [if_pos hr, if_neg c1, if_neg c2, if_neg c3, if_pos hr]
          congr 1; apply row_congr; intro c hc; rw [cells r c hc, if_neg c1, if_neg c2, if_neg c3]
  · have c1 : ¬ r < vy := by omega
    have c2 : ¬ r < vy + h - 1 := by omega
    have c3 : ¬ r = vy + h - 1 := by omega
    rw [if_neg hr, if_neg c1, if_neg c2, if_neg c3, if_neg hr]

/-! ### the invariant -/

/-- everything that holds of an attached terminal between operations, except what concerns the
column (`lf` is entered with the column one past the end) -/
structure Geo (t : VT) : Prop where
  att : t.attached = true
  w1 : 1 ≤ t.viewportWidth
  h1 : 1 ≤ t.viewportHeight
  tw : t.termWidth = t.viewportWidth
  th : t.termHeight = t.viewportHeight + t.scrollback
  fits : t.viewportWidth * (t.viewportHeight + t.scrollback) * 3 < 4294967296
  size : t.data.size = t.viewportWidth * (t.viewportHeight + t.scrollback) * 3
  cy1 : 1 ≤ t.cursorY
  cyh : t.cursorY ≤ t.viewportHeight
  vy : t.viewportY ≤ t.scrollback
  fg : t.curFg = t.defaultFg
  bg : t.curBg = t.defaultBg
  /-- lines below the viewport have never been written -/
  blank : ∀ r c, t.viewportY + t.viewportHeight ≤ r → r < t.viewportHeight + t.scrollback →
    c < t.viewportWidth → cellAt t.data t.viewportWidth r c = ⟨32, t.defaultFg, t.defaultBg⟩
  /-- every cell of the buffer is in the default colours (there is no way to change `curFg/curBg`) -/
  cols : ∀ r c, r < t.viewportHeight + t.scrollback → c < t.viewportWidth →
    (cellAt t.data t.viewportWidth r c).fg = t.defaultFg ∧ (cellAt t.data t.viewportWidth r c).bg = t.defaultBg

/-- the invariant of an attached terminal -/
structure Inv (t : VT) : Prop extends Geo t where
  cx1 : 1 ≤ t.cursorX
  cxw : t.cursorX ≤ t.viewportWidth
  off : t.dataOffset = ((t.viewportY + t.cursorY - 1) * t.viewportWidth + (t.cursorX - 1)) * 3

theorem Geo.w3 {t : VT} (g : Geo t) : t.viewportWidth * 3 < 4294967296 := by
  have := g.fits; have := g.h1
  have h : t.viewportWidth * 1 ≤ t.viewportWidth * (t.viewportHeight + t.scrollback) :=
    Nat.mul_le_mul_left _ (by omega)
  omega

theorem Geo.hsb {t : VT} (g : Geo t) : (t.viewportHeight + t.scrollback) * 3 < 4294967296 := by
  have := g.fits; have := g.w1
  have h : 1 * (t.viewportHeight + t.scrollback) ≤ t.viewportWidth * (t.viewportHeight + t.scrollback) :=
    Nat.mul_le_mul_right _ (by omega)
  omega

/-- `R` whole lines fit in the buffer -/
theorem Geo.rows {t : VT} (_g : Geo t) {R : Nat} (hR : R ≤ t.viewportHeight + t.scrollback) :
    R * (t.viewportWidth * 3) ≤ t.viewportWidth * (t.viewportHeight + t.scrollback) * 3 := by
  have := Nat.mul_le_mul_right (t.viewportWidth * 3) hR
  have e : (t.viewportHeight + t.scrollback) * (t.viewportWidth * 3)
      = t.viewportWidth * (t.viewportHeight + t.scrollback) * 3 := by
    rw [← Nat.mul_assoc, Nat.mul_comm (t.viewportHeight + t.scrollback)]
  omega

/-- the offset computed by `updateDataOffset` -/
theorem udo_eq {t : VT} (g : Geo t) (cx1 : 1 ≤ t.cursorX) (cxw : t.cursorX ≤ t.viewportWidth) :
    updateDataOffset t =
      { t with dataOffset := ((t.viewportY + t.cursorY - 1) * t.viewportWidth + (t.cursorX - 1)) * 3 } := by
  have w3 := g.w3; have hsb := g.hsb
  have := g.cy1; have := g.cyh; have := g.vy; have := g.fits
  have c := cell_lt (r := t.viewportY + t.cursorY - 1) (c := t.cursorX - 1) (w := t.viewportWidth)
    (H := t.viewportHeight + t.scrollback) (by omega) (by omega)
  have e1 : sub32 t.cursorY 1 = t.cursorY - 1 := sub32_one g.cy1 (by omega)
  have e2 : sub32 t.cursorX 1 = t.cursorX - 1 := sub32_one cx1 (by omega)
  have e3 : u32 (t.viewportY + (t.cursorY - 1)) = t.viewportY + t.cursorY - 1 := by
    rw [u32_of_lt (by omega)]; omega
  have e4 : u32 (t.viewportWidth * 3) = t.viewportWidth * 3 := u32_of_lt w3
  have e5 : (t.viewportY + t.cursorY - 1) * (t.viewportWidth * 3)
      = ((t.viewportY + t.cursorY - 1) * t.viewportWidth) * 3 := by rw [Nat.mul_assoc]
  have e6 : u32 ((t.viewportY + t.cursorY - 1) * (t.viewportWidth * 3))
      = (t.viewportY + t.cursorY - 1) * (t.viewportWidth * 3) := u32_of_lt (by omega)
  have e7 : u32 ((t.cursorX - 1) * 3) = (t.cursorX - 1) * 3 := u32_of_lt (by omega)
  have e8 : u32 ((t.viewportY + t.cursorY - 1) * (t.viewportWidth * 3) + (t.cursorX - 1) * 3)
      = ((t.viewportY + t.cursorY - 1) * t.viewportWidth + (t.cursorX - 1)) * 3 := by
    rw [u32_of_lt (by omega)]; omega
  simp only [updateDataOffset, e1, e2, e3, e4, e6, e7, e8]

/-- changing cursor, offset, state and log keeps `Geo` -/
theorem Geo.frame {t t' : VT} (g : Geo t)
    (h1 : t'.attached = t.attached) (h2 : t'.viewportWidth = t.viewportWidth)
    (h3 : t'.viewportHeight = t.viewportHeight) (h4 : t'.termWidth = t.termWidth)
    (h5 : t'.termHeight = t.termHeight) (h6 : t'.scrollback = t.scrollback) (h7 : t'.data = t.data)
    (h8 : t'.defaultFg = t.defaultFg) (h9 : t'.defaultBg = t.defaultBg) (h10 : t'.curFg = t.curFg)
    (h11 : t'.curBg = t.curBg) (h12 : t'.viewportY = t.viewportY)
    (c1 : 1 ≤ t'.cursorY) (c2 : t'.cursorY ≤ t.viewportHeight) : Geo t' := by
  refine ⟨?_, ?_, ?_, ?_, ?_, ?_, ?_, c1, ?_, ?_, ?_, ?_, ?_, ?_⟩
  · rw [h1]; exact g.att
  · rw [h2]; exact g.w1
  · rw [h3]; exact g.h1
  · rw [h4, h2]; exact g.tw
  · rw [h5, h3, h6]; exact g.th
  · rw [h2, h3, h6]; exact g.fits
  · rw [h7, h2, h3, h6]; exact g.size
  · rw [h3]; exact c2
  · rw [h12, h6]; exact g.vy
  · rw [h10, h8]; exact g.fg
  · rw [h11, h9]; exact g.bg
  · rw [h12, h3, h6, h2, h7, h8, h9]; exact g.blank
  · rw [h3, h6, h2, h7, h8, h9]; exact g.cols


/-! ### the console follows the viewport (C18) -/

/-- the cell shown at viewport line `r`, column `c` (0-based) -/
def vcell (t : VT) (r c : Nat) : Cell := cellAt t.data t.viewportWidth (t.viewportY + r) c

/-- a `Write` call in the given colours (other calls: no condition) -/
def CallDef (fg bg : UInt8) : Call → Prop
  | .write _ f b _ _ => f = fg ∧ b = bg
  | _ => True

/-- the shape of the terminal's call log (newest first): single `Write`s inside the grid, and
`Scroll(up, 1)` always immediately followed by the `Fill` of the whole last line — the vacated
line of a scroll is repainted before anything else happens -/
inductive Paired (w h : Nat) : List Call → Prop
  | nil : Paired w h []
  | write {ch fg bg : UInt8} {x y : Nat} {rest : List Call} :
      (1 ≤ x ∧ x ≤ w ∧ 1 ≤ y ∧ y ≤ h) → Paired w h rest → Paired w h (.write ch fg bg x y :: rest)
  | pair {fg bg : UInt8} {rest : List Call} :
      Paired w h rest → Paired w h (.fill 1 h w 1 fg bg :: .scroll Firefly.Gen.C17.scrollDirUp 1 :: rest)

/-- `K0` is the console before the history; `t.out` is every call made since.  The console has
the terminal's geometry, nothing was drawn outside the grid, every call was inside the grid, and
while the terminal is Active the console shows the viewport. -/
structure Sync (K0 : Console) (t : VT) : Prop where
  w : (K0.applyLog t.out).w = t.viewportWidth
  h : (K0.applyLog t.out).h = t.viewportHeight
  wf : WF (K0.applyLog t.out)
  outside : (K0.applyLog t.out).outside = K0.outside
  ok : ∀ c ∈ t.out, CallOk t.viewportWidth t.viewportHeight c
  /-- every `Write` was in the console's default colours -/
  cols : ∀ c ∈ t.out, CallDef t.defaultFg t.defaultBg c
  /-- a `Scroll` is always followed at once by the `Fill` of the vacated line -/
  paired : Paired t.viewportWidth t.viewportHeight t.out
  shows : t.active = true → ∀ r c, r < t.viewportHeight → c < t.viewportWidth →
    (K0.applyLog t.out).at r c = vcell t r c

theorem emit_out (t : VT) (cs : List Call) : (emit t cs).out = if t.active then cs ++ t.out else t.out := by
  unfold emit; split <;> simp [*]

/-- nothing drawn, viewport unchanged -/
theorem Sync.frame {K0 : Console} {t t' : VT} (s : Sync K0 t) (ho : t'.out = t.out)
    (hw : t'.viewportWidth = t.viewportWidth) (hh : t'.viewportHeight = t.viewportHeight)
    (ha : t'.active = true → t.active = true)
    (hv : ∀ r c, r < t.viewportHeight → c < t.viewportWidth → vcell t' r c = vcell t r c)
    (hd : t'.defaultFg = t.defaultFg ∧ t'.defaultBg = t.defaultBg := by exact ⟨rfl, rfl⟩) : Sync K0 t' := by
  refine ⟨by rw [ho, hw]; exact s.w, by rw [ho, hh]; exact s.h, by rw [ho]; exact s.wf,
    by rw [ho]; exact s.outside, by rw [ho, hw, hh]; exact s.ok, by rw [ho, hd.1, hd.2]; exact s.cols, by rw [ho, hw, hh]; exact s.paired, ?_⟩
  intro a r c hr hc
  rw [hh] at hr; rw [hw] at hc
  rw [ho, hv r c hr hc]
  exact s.shows (ha a) r c hr hc

/-- a character stored at the cursor and, if Active, written to the console -/
theorem Sync.write {K0 : Console} {t t' : VT} (s : Sync K0 t) {b fg bg : UInt8} {cx cy : Nat}
    (hx : 1 ≤ cx ∧ cx ≤ t.viewportWidth) (hy : 1 ≤ cy ∧ cy ≤ t.viewportHeight)
    (ho : t'.out = if t.active then [Call.write b fg bg cx cy] ++ t.out else t.out)
    (hw : t'.viewportWidth = t.viewportWidth) (hh : t'.viewportHeight = t.viewportHeight)
    (ha : t'.active = t.active)
    (hv : ∀ r c, r < t.viewportHeight → c < t.viewportWidth →
      vcell t' r c = if r = cy - 1 ∧ c = cx - 1 then ⟨b, fg, bg⟩ else vcell t r c)
    (hc : fg = t.defaultFg ∧ bg = t.defaultBg)
    (hd : t'.defaultFg = t.defaultFg ∧ t'.defaultBg = t.defaultBg := by exact ⟨rfl, rfl⟩) : Sync K0 t' := by
  by_cases a : t.active = true
  · have ho' : t'.out = Call.write b fg bg cx cy :: t.out := by simpa [a] using ho
    have hxk : 1 ≤ cx ∧ cx ≤ (K0.applyLog t.out).w := by rw [s.w]; exact hx
    have hyk : 1 ≤ cy ∧ cy ≤ (K0.applyLog t.out).h := by rw [s.h]; exact hy
    obtain ⟨w1, w2, w3, w4, w5⟩ := write_in s.wf b fg bg hxk hyk
    have e : K0.applyLog t'.out = (K0.applyLog t.out).write b fg bg cx cy := by rw [ho']; rfl
    refine ⟨by rw [e, w1, hw]; exact s.w, by rw [e, w2, hh]; exact s.h, by rw [e]; exact w3,
      by rw [e, w4]; exact s.outside, ?_, ?_, by rw [ho', hw, hh]; exact Paired.write ⟨hx.1, hx.2, hy.1, hy.2⟩ s.paired, ?_⟩
    · intro c hc
      rw [ho'] at hc
      rw [hw, hh]
      cases hc with
      | head => exact ⟨hx.1, hx.2, hy.1, hy.2⟩
      | tail _ h => exact s.ok c h
    · intro c hcm
      rw [ho'] at hcm
      rw [hd.1, hd.2]
      cases hcm with
      | head => exact hc
      | tail _ h => exact s.cols c h
    · intro _ r c hr hc
      rw [hh] at hr; rw [hw] at hc
      rw [e, w5 r c (by rw [s.h]; exact hr) (by rw [s.w]; exact hc), hv r c hr hc, s.shows a r c hr hc]
  · have a' : t.active = false := by simpa using a
    have ho' : t'.out = t.out := by simpa [a'] using ho
    refine ⟨by rw [ho', hw]; exact s.w, by rw [ho', hh]; exact s.h, by rw [ho']; exact s.wf,
      by rw [ho']; exact s.outside, by rw [ho', hw, hh]; exact s.ok, by rw [ho', hd.1, hd.2]; exact s.cols, by rw [ho', hw, hh]; exact s.paired, ?_⟩
    intro h; rw [ha, a'] at h; cases h

/-- the viewport moved up by one line with a blank last line and, if Active, the console was
scrolled and its last line filled -/
theorem Sync.scroll {K0 : Console} {t t' : VT} (s : Sync K0 t) {fg bg : UInt8}
    (_w1 : 1 ≤ t.viewportWidth) (h1 : 1 ≤ t.viewportHeight)
    (ho : t'.out = if t.active then [Call.fill 1 t.viewportHeight t.viewportWidth 1 fg bg,
      Call.scroll Firefly.Gen.C17.scrollDirUp 1] ++ t.out else t.out)
    (hw : t'.viewportWidth = t.viewportWidth) (hh : t'.viewportHeight = t.viewportHeight)
    (ha : t'.active = t.active)
    (hv : ∀ r c, r < t.viewportHeight → c < t.viewportWidth →
      vcell t' r c = if r + 1 < t.viewportHeight then vcell t (r + 1) c else ⟨32, fg, bg⟩)
    (hd : t'.defaultFg = t.defaultFg ∧ t'.defaultBg = t.defaultBg := by exact ⟨rfl, rfl⟩) : Sync K0 t' := by
  by_cases a : t.active = true
  · have ho' : t'.out = Call.fill 1 t.viewportHeight t.viewportWidth 1 fg bg ::
        Call.scroll Firefly.Gen.C17.scrollDirUp 1 :: t.out := by simpa [a] using ho
    have hk1 : 1 ≤ (K0.applyLog t.out).h := by rw [s.h]; exact h1
    obtain ⟨s1, s2, s3, s4, s5⟩ := scroll1 s.wf hk1
    have hin : 1 ≤ 1 ∧ 1 ≤ t.viewportHeight ∧ 1 + t.viewportWidth ≤ ((K0.applyLog t.out).scrollUp 1).w + 1 ∧
        t.viewportHeight + 1 ≤ ((K0.applyLog t.out).scrollUp 1).h + 1 := by
      rw [s1, s2, s.w, s.h]; omega
    obtain ⟨f1, f2, f3, f4, f5⟩ := fill_in s3 fg bg hin
    have e : K0.applyLog t'.out =
        ((K0.applyLog t.out).scrollUp 1).fill 1 t.viewportHeight t.viewportWidth 1 fg bg := by
      rw [ho']
      simp [Console.applyLog, Console.apply]
    refine ⟨by rw [e, f1, s1, hw]; exact s.w, by rw [e, f2, s2, hh]; exact s.h, by rw [e]; exact f3,
      by rw [e, f4, s4]; exact s.outside, ?_, ?_, by rw [ho', hw, hh]; exact Paired.pair s.paired, ?_⟩
    · intro c hc
      rw [ho'] at hc
      rw [hw, hh]
      cases hc with
      | head => exact ⟨Nat.le_refl 1, h1, by omega, by omega⟩
      | tail _ h =>
        cases h with
        | head => exact ⟨rfl, Nat.le_refl 1, h1⟩
        | tail _ h => exact s.ok c h
    · intro c hcm
      rw [ho'] at hcm
      rw [hd.1, hd.2]
      cases hcm with
      | head => exact True.intro
      | tail _ h =>
        cases h with
        | head => exact True.intro
        | tail _ h => exact s.cols c h
    · intro _ r c hr hc
      rw [hh] at hr; rw [hw] at hc
      have hrk : r < (K0.applyLog t.out).h := by rw [s.h]; exact hr
      have hck : c < (K0.applyLog t.out).w := by rw [s.w]; exact hc
      rw [e, f5 r c (by rw [s2]; exact hrk) (by rw [s1]; exact hck), s5 r c hrk hck, hv r c hr hc, s.h]
      by_cases l : r + 1 < t.viewportHeight
      · have n : ¬ (t.viewportHeight ≤ r + 1 ∧ r + 1 < t.viewportHeight + 1 ∧ 1 ≤ c + 1 ∧ c + 1 < 1 + t.viewportWidth) := by omega
        rw [if_neg n, if_pos l, if_pos l]
        exact s.shows a (r + 1) c l hc
      · have p : (t.viewportHeight ≤ r + 1 ∧ r + 1 < t.viewportHeight + 1 ∧ 1 ≤ c + 1 ∧ c + 1 < 1 + t.viewportWidth) := by omega
        rw [if_pos p, if_neg l]
  · have a' : t.active = false := by simpa using a
    have ho' : t'.out = t.out := by simpa [a'] using ho
    refine ⟨by rw [ho', hw]; exact s.w, by rw [ho', hh]; exact s.h, by rw [ho']; exact s.wf,
      by rw [ho']; exact s.outside, by rw [ho', hw, hh]; exact s.ok, by rw [ho', hd.1, hd.2]; exact s.cols, by rw [ho', hw, hh]; exact s.paired, ?_⟩
    intro h; rw [ha, a'] at h; cases h

@[simp] theorem emit_attached (t : VT) (cs) : (emit t cs).attached = t.attached := by unfold emit; split <;> rfl
@[simp] theorem emit_viewportWidth (t : VT) (cs) : (emit t cs).viewportWidth = t.viewportWidth := by unfold emit; split <;> rfl
@[simp] theorem emit_viewportHeight (t : VT) (cs) : (emit t cs).viewportHeight = t.viewportHeight := by unfold emit; split <;> rfl
@[simp] theorem emit_termWidth (t : VT) (cs) : (emit t cs).termWidth = t.termWidth := by unfold emit; split <;> rfl
@[simp] theorem emit_termHeight (t : VT) (cs) : (emit t cs).termHeight = t.termHeight := by unfold emit; split <;> rfl
@[simp] theorem emit_scrollback (t : VT) (cs) : (emit t cs).scrollback = t.scrollback := by unfold emit; split <;> rfl
@[simp] theorem emit_data (t : VT) (cs) : (emit t cs).data = t.data := by unfold emit; split <;> rfl
@[simp] theorem emit_tabWidth (t : VT) (cs) : (emit t cs).tabWidth = t.tabWidth := by unfold emit; split <;> rfl
@[simp] theorem emit_defaultFg (t : VT) (cs) : (emit t cs).defaultFg = t.defaultFg := by unfold emit; split <;> rfl
@[simp] theorem emit_defaultBg (t : VT) (cs) : (emit t cs).defaultBg = t.defaultBg := by unfold emit; split <;> rfl
@[simp] theorem emit_curFg (t : VT) (cs) : (emit t cs).curFg = t.curFg := by unfold emit; split <;> rfl
@[simp] theorem emit_curBg (t : VT) (cs) : (emit t cs).curBg = t.curBg := by unfold emit; split <;> rfl
@[simp] theorem emit_cursorX (t : VT) (cs) : (emit t cs).cursorX = t.cursorX := by unfold emit; split <;> rfl
@[simp] theorem emit_cursorY (t : VT) (cs) : (emit t cs).cursorY = t.cursorY := by unfold emit; split <;> rfl
@[simp] theorem emit_viewportY (t : VT) (cs) : (emit t cs).viewportY = t.viewportY := by unfold emit; split <;> rfl
@[simp] theorem emit_dataOffset (t : VT) (cs) : (emit t cs).dataOffset = t.dataOffset := by unfold emit; split <;> rfl
@[simp] theorem emit_active (t : VT) (cs) : (emit t cs).active = t.active := by unfold emit; split <;> rfl

/-- `absVT` does not look at offset, state or log -/
theorem absVT_congr {t t' : VT}
    (h2 : t'.viewportWidth = t.viewportWidth) (h3 : t'.viewportHeight = t.viewportHeight)
    (h4 : t'.termWidth = t.termWidth) (h5 : t'.termHeight = t.termHeight)
    (h6 : t'.scrollback = t.scrollback) (h7 : t'.data = t.data) (h8 : t'.defaultFg = t.defaultFg)
    (h9 : t'.defaultBg = t.defaultBg) (h10 : t'.tabWidth = t.tabWidth)
    (h11 : t'.cursorX = t.cursorX) (h12 : t'.cursorY = t.cursorY) (h13 : t'.viewportY = t.viewportY) :
    absVT t' = absVT t := by
  simp [absVT, *]

/-! ### `lf` -/

theorem lf_spec {t : VT} (g : Geo t) :
    ∃ t', lf t true = .ok t' ∧ Inv t' ∧ absVT t' = (absVT t).lf ∧ t'.active = t.active ∧
      (∀ K0, Sync K0 t → Sync K0 t') ∧ (t.active = false → t'.out = t.out) := by
  have w3 := g.w3; have hsb := g.hsb
  have := g.cy1; have := g.cyh; have := g.vy; have := g.fits; have := g.w1; have := g.h1
  by_cases hA : t.cursorY + 1 ≤ t.viewportHeight
  · -- the cursor moves to the next viewport line
    have e : u32 (t.cursorY + 1) = t.cursorY + 1 := u32_of_lt (by omega)
    have g1 : Geo { t with cursorX := 1, cursorY := t.cursorY + 1 } :=
      g.frame rfl rfl rfl rfl rfl rfl rfl rfl rfl rfl rfl rfl (by simp) (by simpa using hA)
    refine ⟨updateDataOffset { t with cursorX := 1, cursorY := t.cursorY + 1 }, ?_, ?_, ?_, ?_, ?_, ?_⟩
    · simp [lf, e, hA]
    · rw [udo_eq g1 (by simp) (by simpa using g.w1)]
      exact ⟨g1.frame rfl rfl rfl rfl rfl rfl rfl rfl rfl rfl rfl rfl g1.cy1 g1.cyh, by simp,
        by simpa using g.w1, rfl⟩
    · rw [udo_eq g1 (by simp) (by simpa using g.w1)]
      have : t.cursorY < t.viewportHeight := by omega
      simp [absVT, Term.lf, this]
    · rw [udo_eq g1 (by simp) (by simpa using g.w1)]
    · rw [udo_eq g1 (by simp) (by simpa using g.w1)]
      intro K0 s
      exact s.frame rfl rfl rfl (fun a => a) (fun _ _ _ _ => rfl)
    · rw [udo_eq g1 (by simp) (by simpa using g.w1)]
      intro _; rfl
  · have hcy : t.cursorY = t.viewportHeight := by omega
    have e : u32 (t.cursorY + 1) = t.cursorY + 1 := u32_of_lt (by omega)
    have nA : ¬ u32 (t.cursorY + 1) ≤ t.viewportHeight := by rw [e]; exact hA
    have e2 : u32 (t.viewportY + t.viewportHeight) = t.viewportY + t.viewportHeight := u32_of_lt (by omega)
    by_cases hB : t.viewportY + t.viewportHeight < t.termHeight
    · -- the viewport moves down through the scrollback
      have hvy : t.viewportY < t.scrollback := by rw [g.th] at hB; omega
      have e3 : u32 (t.viewportY + 1) = t.viewportY + 1 := u32_of_lt (by omega)
      have g1 : Geo (syncScroll { t with cursorX := 1, viewportY := t.viewportY + 1 }) := by
        refine ⟨by simpa [syncScroll] using g.att, by simpa [syncScroll] using g.w1,
          by simpa [syncScroll] using g.h1, by simpa [syncScroll] using g.tw,
          by simpa [syncScroll] using g.th, by simpa [syncScroll] using g.fits,
          by simpa [syncScroll] using g.size, by simpa [syncScroll] using g.cy1,
          by simpa [syncScroll] using g.cyh, by simp [syncScroll]; omega,
          by simpa [syncScroll] using g.fg, by simpa [syncScroll] using g.bg, ?_, ?_⟩
        · intro r c h1 h2 h3
          simp only [syncScroll, emit_viewportY, emit_viewportHeight, emit_scrollback, emit_viewportWidth,
            emit_data, emit_defaultFg, emit_defaultBg] at h1 h2 h3 ⊢
          exact g.blank r c (by omega) h2 h3
        · intro r c h2 h3
          simp only [syncScroll, emit_viewportHeight, emit_scrollback, emit_viewportWidth,
            emit_data, emit_defaultFg, emit_defaultBg] at h2 h3 ⊢
          exact g.cols r c h2 h3
      refine ⟨updateDataOffset (syncScroll { t with cursorX := 1, viewportY := t.viewportY + 1 }), ?_, ?_, ?_, ?_, ?_, ?_⟩
      · simp [lf, nA, e2, hB, e3]
      · rw [udo_eq g1 (by simp [syncScroll]) (by simpa [syncScroll] using g.w1)]
        exact ⟨g1.frame rfl rfl rfl rfl rfl rfl rfl rfl rfl rfl rfl rfl g1.cy1 g1.cyh,
          by simp [syncScroll], by simpa [syncScroll] using g.w1, rfl⟩
      · rw [udo_eq g1 (by simp [syncScroll]) (by simpa [syncScroll] using g.w1)]
        have n1 : ¬ t.cursorY < t.viewportHeight := by omega
        have n2 : t.viewportY + t.viewportHeight < t.viewportHeight + t.scrollback := by omega
        simp [absVT, Term.lf, n1, n2, syncScroll]
      · rw [udo_eq g1 (by simp [syncScroll]) (by simpa [syncScroll] using g.w1)]
        simp [syncScroll]
      · rw [udo_eq g1 (by simp [syncScroll]) (by simpa [syncScroll] using g.w1)]
        intro K0 s
        refine s.scroll (fg := t.defaultFg) (bg := t.defaultBg) g.w1 g.h1 ?_ (by simp [syncScroll])
          (by simp [syncScroll]) (by simp [syncScroll]) ?_ (by simp [syncScroll])
        · simp [syncScroll, emit_out, hcy, g.tw]
        · intro r c hr hc
          simp only [vcell, syncScroll, emit_data, emit_viewportWidth, emit_viewportY]
          by_cases l : r + 1 < t.viewportHeight
          · rw [if_pos l]
            have : t.viewportY + 1 + r = t.viewportY + (r + 1) := by omega
            rw [this]
          · rw [if_neg l]
            exact g.blank _ c (by omega) (by omega) hc
      · rw [udo_eq g1 (by simp [syncScroll]) (by simpa [syncScroll] using g.w1)]
        intro a
        simp [syncScroll, emit_out, a]
    · -- the buffer is scrolled
      have hvy : t.viewportY = t.scrollback := by rw [g.th] at hB; omega
      have nB : ¬ u32 (t.viewportY + t.viewportHeight) < t.termHeight := by rw [e2]; exact hB
      have e4 : u32 (t.viewportWidth * 3) = t.viewportWidth * 3 := u32_of_lt w3
      have e5 : sub32 (t.viewportY + t.viewportHeight) 1 = t.viewportY + t.viewportHeight - 1 :=
        sub32_one (by omega) (by omega)
      have rowsH := g.rows (R := t.viewportY + t.viewportHeight) (by omega)
      have rowsE := g.rows (R := t.viewportY + t.viewportHeight - 1) (by omega)
      have hsucc : (t.viewportY + t.viewportHeight - 1 + 1) * (t.viewportWidth * 3)
          = (t.viewportY + t.viewportHeight - 1) * (t.viewportWidth * 3) + t.viewportWidth * 3 := succ_mul' _ _
      have hsucc' : t.viewportY + t.viewportHeight - 1 + 1 = t.viewportY + t.viewportHeight := by omega
      rw [hsucc'] at hsucc
      have mono : t.viewportY * (t.viewportWidth * 3) ≤ (t.viewportY + t.viewportHeight - 1) * (t.viewportWidth * 3) :=
        Nat.mul_le_mul_right _ (by omega)
      obtain ⟨d1, c1, s1, b1⟩ := copyUp_spec (t.viewportWidth * 3)
        ((t.viewportY + t.viewportHeight - 1) * (t.viewportWidth * 3) - t.viewportY * (t.viewportWidth * 3))
        (t.viewportY * (t.viewportWidth * 3)) t.data (by rw [g.size]; omega)
      have e6 : (t.viewportWidth * 3 + 2) / 3 = t.viewportWidth := by omega
      obtain ⟨d2, c2, s2, b2⟩ := blankN_spec t.defaultFg t.defaultBg t.viewportWidth
        ((t.viewportY + t.viewportHeight - 1) * (t.viewportWidth * 3)) d1 (by rw [s1, g.size]; omega)
      have hsd : scrollData { t with cursorX := 1 } = some d2 := by
        simp [scrollData, e2, e4, e5, e6, c1, c2]
      have cells := scroll_cells g.h1 b1 b2
      have g1 : Geo (syncScroll { t with cursorX := 1, data := d2 }) := by
        refine ⟨by simpa [syncScroll] using g.att, by simpa [syncScroll] using g.w1,
          by simpa [syncScroll] using g.h1, by simpa [syncScroll] using g.tw,
          by simpa [syncScroll] using g.th, by simpa [syncScroll] using g.fits,
          by simp [syncScroll]; rw [s2, s1, g.size], by simpa [syncScroll] using g.cy1,
          by simpa [syncScroll] using g.cyh, by simpa [syncScroll] using g.vy,
          by simpa [syncScroll] using g.fg, by simpa [syncScroll] using g.bg, ?_, ?_⟩
        · intro r c h1 h2 h3
          simp only [syncScroll, emit_viewportY, emit_viewportHeight, emit_scrollback] at h1 h2
          omega
        · intro r c h2 h3
          simp only [syncScroll, emit_viewportHeight, emit_scrollback, emit_viewportWidth,
            emit_data, emit_defaultFg, emit_defaultBg] at h2 h3 ⊢
          rw [cells r c h3]
          by_cases q1 : r < t.viewportY
          · rw [if_pos q1]; exact g.cols r c h2 h3
          · by_cases q2 : r < t.viewportY + t.viewportHeight - 1
            · rw [if_neg q1, if_pos q2]; exact g.cols (r + 1) c (by omega) h3
            · by_cases q3 : r = t.viewportY + t.viewportHeight - 1
              · rw [if_neg q1, if_neg q2, if_pos q3]; exact ⟨rfl, rfl⟩
              · rw [if_neg q1, if_neg q2, if_neg q3]; exact g.cols r c h2 h3
      refine ⟨updateDataOffset (syncScroll { t with cursorX := 1, data := d2 }), ?_, ?_, ?_, ?_, ?_, ?_⟩
      · simp [lf, nA, nB, hsd]
      · rw [udo_eq g1 (by simp [syncScroll]) (by simpa [syncScroll] using g.w1)]
        exact ⟨g1.frame rfl rfl rfl rfl rfl rfl rfl rfl rfl rfl rfl rfl g1.cy1 g1.cyh,
          by simp [syncScroll], by simpa [syncScroll] using g.w1, rfl⟩
      · rw [udo_eq g1 (by simp [syncScroll]) (by simpa [syncScroll] using g.w1)]
        have n1 : ¬ t.cursorY < t.viewportHeight := by omega
        have n2 : ¬ t.viewportY + t.viewportHeight < t.viewportHeight + t.scrollback := by omega
        have hgrid := gridOf_scroll g.h1 cells (t.viewportHeight + t.scrollback) (by omega)
        simp [absVT, Term.lf, n1, n2, syncScroll, g.tw, g.th, hgrid, Term.blank]
      · rw [udo_eq g1 (by simp [syncScroll]) (by simpa [syncScroll] using g.w1)]
        simp [syncScroll]
      · rw [udo_eq g1 (by simp [syncScroll]) (by simpa [syncScroll] using g.w1)]
        intro K0 s
        refine s.scroll (fg := t.defaultFg) (bg := t.defaultBg) g.w1 g.h1 ?_ (by simp [syncScroll])
          (by simp [syncScroll]) (by simp [syncScroll]) ?_ (by simp [syncScroll])
        · simp [syncScroll, emit_out, hcy, g.tw]
        · intro r c hr hc
          simp only [vcell, syncScroll, emit_data, emit_viewportWidth, emit_viewportY]
          rw [cells _ c hc]
          have n1 : ¬ t.viewportY + r < t.viewportY := by omega
          by_cases l : r + 1 < t.viewportHeight
          · have l' : t.viewportY + r < t.viewportY + t.viewportHeight - 1 := by omega
            rw [if_neg n1, if_pos l', if_pos l, Nat.add_assoc]
          · have l' : ¬ t.viewportY + r < t.viewportY + t.viewportHeight - 1 := by omega
            have l'' : t.viewportY + r = t.viewportY + t.viewportHeight - 1 := by omega
            rw [if_neg n1, if_neg l', if_pos l'', if_neg l]
      · rw [udo_eq g1 (by simp [syncScroll]) (by simpa [syncScroll] using g.w1)]
        intro a
        simp [syncScroll, emit_out, a]

/-! ### `doWrite` -/

theorem Term.lf_cx (t : Term) (x : Nat) : ({ t with cx := x } : Term).lf = t.lf := by
  simp [Term.lf]

theorem doWrite_spec {t : VT} (i : Inv t) (b : UInt8) (adv : Bool) :
    ∃ t', doWrite t b adv = .ok t' ∧ Inv t' ∧
      absVT t' = (if adv then (absVT t).putAdv b else (absVT t).put b) ∧ t'.active = t.active ∧
      (∀ K0, Sync K0 t → Sync K0 t') ∧ (t.active = false → t'.out = t.out) := by
  have g := i.toGeo
  have w3 := g.w3; have hsb := g.hsb
  have := g.cy1; have := g.cyh; have := g.vy; have := g.fits; have := g.w1; have := g.h1
  have := i.cx1; have := i.cxw
  have hc0 : t.cursorX - 1 < t.viewportWidth := by omega
  have hcell := cell_lt (r := t.viewportY + t.cursorY - 1) (c := t.cursorX - 1) (w := t.viewportWidth)
    (H := t.viewportHeight + t.scrollback) (by omega) hc0
  obtain ⟨d', e, sz, gb⟩ := store3_spec (d := t.data) (i := t.dataOffset) b t.curFg t.curBg
    (by rw [g.size, i.off]; omega)
  rw [i.off] at gb
  have cells := cellAt_store3 hc0 gb
  have hgrid : gridOf d' t.viewportWidth (t.viewportHeight + t.scrollback) =
      (gridOf t.data t.viewportWidth (t.viewportHeight + t.scrollback)).modify (t.viewportY + t.cursorY - 1)
        fun line => line.set (t.cursorX - 1) ⟨b, t.curFg, t.curBg⟩ := gridOf_put cells
  -- the state after the three stores
  have hput : absVT { t with data := d', out := (emit t [.write b t.curFg t.curBg t.cursorX t.cursorY]).out }
      = (absVT t).put b := by
    simp [absVT, Term.put, g.tw, g.th, hgrid, g.fg, g.bg]
  have g1 : Geo { t with data := d', out := (emit t [.write b t.curFg t.curBg t.cursorX t.cursorY]).out } := by
    refine ⟨g.att, g.w1, g.h1, g.tw, g.th, g.fits, by simp; rw [sz, g.size], g.cy1, g.cyh, g.vy, g.fg, g.bg, ?_, ?_⟩
    · intro r c h1 h2 h3
      simp only at h1 h2 h3 ⊢
      rw [cells r c h3, if_neg (by omega)]
      exact g.blank r c h1 h2 h3
    · intro r c h2 h3
      simp only at h2 h3 ⊢
      rw [cells r c h3]
      split
      · exact ⟨g.fg, g.bg⟩
      · exact g.cols r c h2 h3
  have sy1 : ∀ K0, Sync K0 t →
      Sync K0 { t with data := d', out := (emit t [.write b t.curFg t.curBg t.cursorX t.cursorY]).out } := by
    intro K0 s
    refine s.write (b := b) (fg := t.curFg) (bg := t.curBg) ⟨i.cx1, i.cxw⟩ ⟨g.cy1, g.cyh⟩ (emit_out _ _) rfl rfl rfl ?_ ⟨g.fg, g.bg⟩
    intro r c hr hc
    simp only [vcell]
    rw [cells _ c hc]
    by_cases e1 : r = t.cursorY - 1 ∧ c = t.cursorX - 1
    · have e2 : t.viewportY + r = t.viewportY + t.cursorY - 1 ∧ c = t.cursorX - 1 := ⟨by omega, e1.2⟩
      rw [if_pos e1, if_pos e2]
    · have e2 : ¬ (t.viewportY + r = t.viewportY + t.cursorY - 1 ∧ c = t.cursorX - 1) := by
        intro h; exact e1 ⟨by omega, h.2⟩
      rw [if_neg e1, if_neg e2]
  have q1 : t.active = false → (emit t [.write b t.curFg t.curBg t.cursorX t.cursorY]).out = t.out := by
    intro a; simp [emit_out, a]
  cases adv with
  | false =>
    refine ⟨{ t with data := d', out := (emit t [.write b t.curFg t.curBg t.cursorX t.cursorY]).out }, ?_, ?_, ?_, ?_, sy1, q1⟩
    · simp [doWrite, e]
    · exact ⟨g1, i.cx1, i.cxw, i.off⟩
    · simpa using hput
    · rfl
  | true =>
    have e1 : u32 (t.cursorX + 1) = t.cursorX + 1 := u32_of_lt (by omega)
    have e2 : u64 (t.dataOffset + 3) = t.dataOffset + 3 := u64_of_lt (by rw [i.off]; omega)
    by_cases hw : t.cursorX + 1 > t.viewportWidth
    · -- wrap: line feed
      have g2 : Geo { t with data := d', out := (emit t [.write b t.curFg t.curBg t.cursorX t.cursorY]).out, dataOffset := t.dataOffset + 3, cursorX := t.cursorX + 1 } :=
        g1.frame rfl rfl rfl rfl rfl rfl rfl rfl rfl rfl rfl rfl g1.cy1 g1.cyh
      obtain ⟨t', l1, l2, l3, l4, l5, l6⟩ := lf_spec g2
      refine ⟨t', ?_, l2, ?_, ?_, ?_, ?_⟩
      · simp [doWrite, e, e1, e2, hw]
        exact l1
      · rw [l3]
        have hn : ¬ t.cursorX < t.viewportWidth := by omega
        have hp : (absVT t).putAdv b = ((absVT t).put b).lf := by
          simp [Term.putAdv, Term.put, absVT, hn]
        simp only [if_true]
        rw [hp, ← hput]
        exact Term.lf_cx (absVT { t with data := d', out := (emit t [.write b t.curFg t.curBg t.cursorX t.cursorY]).out }) (t.cursorX + 1)
      · rw [l4]
      · intro K0 s
        exact l5 K0 ((sy1 K0 s).frame rfl rfl rfl (fun a => a) (fun _ _ _ _ => rfl))
      · intro a
        rw [l6 a]; exact q1 a
    · refine ⟨{ t with data := d', out := (emit t [.write b t.curFg t.curBg t.cursorX t.cursorY]).out, dataOffset := t.dataOffset + 3, cursorX := t.cursorX + 1 }, ?_, ?_, ?_, ?_, ?_, q1⟩
      · simp [doWrite, e, e1, e2, hw]
      · refine ⟨g1.frame rfl rfl rfl rfl rfl rfl rfl rfl rfl rfl rfl rfl g1.cy1 g1.cyh, by simp,
          by simp; omega, ?_⟩
        simp; rw [i.off]; omega
      · have hlt : t.cursorX < t.viewportWidth := by omega
        have hp : (absVT t).putAdv b = { (absVT t).put b with cx := t.cursorX + 1 } := by
          simp [Term.putAdv, Term.put, absVT, hlt]
        simp only [if_true]
        rw [hp, ← hput]
        rfl
      · rfl
      · intro K0 s
        exact (sy1 K0 s).frame rfl rfl rfl (fun a => a) (fun _ _ _ _ => rfl)

/-! ### cursor moves, `cr`, tab, `WriteByte` -/

theorem clamp_bounds {v hi : Nat} (h : 1 ≤ hi) :
    1 ≤ (if v < 1 then 1 else if v > hi then hi else v) ∧
      (if v < 1 then 1 else if v > hi then hi else v) ≤ hi := by
  by_cases a : v < 1
  · simp [a]; omega
  · by_cases b : v > hi
    · simp [a, b]; omega
    · simp [a, b]; omega

theorem clamp_id {v hi : Nat} (h1 : 1 ≤ v) (h2 : v ≤ hi) : Term.clamp v hi = v := by
  unfold Term.clamp
  have a : ¬ v < 1 := by omega
  have b : ¬ v > hi := by omega
  simp [a, b]

theorem setCursor_spec {t : VT} (i : Inv t) (x y : Nat) :
    Inv (setCursorPosition t x y) ∧ absVT (setCursorPosition t x y) = (absVT t).setCursor x y ∧
      (setCursorPosition t x y).active = t.active ∧ (setCursorPosition t x y).out = t.out ∧
      (∀ K0, Sync K0 t → Sync K0 (setCursorPosition t x y)) := by
  have g := i.toGeo
  have hx : 1 ≤ (if x < 1 then 1 else if x > t.viewportWidth then t.viewportWidth else x) ∧
      (if x < 1 then 1 else if x > t.viewportWidth then t.viewportWidth else x) ≤ t.viewportWidth :=
    clamp_bounds g.w1
  have hy : 1 ≤ (if y < 1 then 1 else if y > t.viewportHeight then t.viewportHeight else y) ∧
      (if y < 1 then 1 else if y > t.viewportHeight then t.viewportHeight else y) ≤ t.viewportHeight :=
    clamp_bounds g.h1
  have g1 : Geo { t with
      cursorX := if x < 1 then 1 else if x > t.viewportWidth then t.viewportWidth else x,
      cursorY := if y < 1 then 1 else if y > t.viewportHeight then t.viewportHeight else y } :=
    g.frame rfl rfl rfl rfl rfl rfl rfl rfl rfl rfl rfl rfl hy.1 hy.2
  have e : setCursorPosition t x y = updateDataOffset { t with
      cursorX := if x < 1 then 1 else if x > t.viewportWidth then t.viewportWidth else x,
      cursorY := if y < 1 then 1 else if y > t.viewportHeight then t.viewportHeight else y } := by
    simp [setCursorPosition, g.att]
  rw [e, udo_eq g1 hx.1 hx.2]
  refine ⟨⟨g1.frame rfl rfl rfl rfl rfl rfl rfl rfl rfl rfl rfl rfl g1.cy1 g1.cyh, hx.1, hx.2, rfl⟩, ?_, rfl, rfl,
    fun K0 s => s.frame rfl rfl rfl (fun a => a) (fun _ _ _ _ => rfl)⟩
  simp [absVT, Term.setCursor, Term.clamp]

theorem cr_spec {t : VT} (i : Inv t) :
    Inv (cr t) ∧ absVT (cr t) = { absVT t with cx := 1 } ∧ (cr t).active = t.active ∧ (cr t).out = t.out ∧
      (∀ K0, Sync K0 t → Sync K0 (cr t)) := by
  have g := i.toGeo
  have g1 : Geo { t with cursorX := 1 } := g.frame rfl rfl rfl rfl rfl rfl rfl rfl rfl rfl rfl rfl g.cy1 g.cyh
  unfold cr
  rw [udo_eq g1 (by simp) (by simpa using g.w1)]
  exact ⟨⟨g1.frame rfl rfl rfl rfl rfl rfl rfl rfl rfl rfl rfl rfl g1.cy1 g1.cyh, by simp, by simpa using g.w1, rfl⟩,
    by simp [absVT], rfl, rfl, fun K0 s => s.frame rfl rfl rfl (fun a => a) (fun _ _ _ _ => rfl)⟩

theorem tabLoop_spec : ∀ (n : Nat) {t : VT}, Inv t →
    ∃ t', tabLoop n t = .ok t' ∧ Inv t' ∧ absVT t' = Term.rep (·.putAdv 32) n (absVT t) ∧ t'.active = t.active ∧
      (∀ K0, Sync K0 t → Sync K0 t') ∧ (t.active = false → t'.out = t.out) := by
  intro n
  induction n with
  | zero => intro t i; exact ⟨t, rfl, i, rfl, rfl, fun _ s => s, fun _ => rfl⟩
  | succ n ih =>
    intro t i
    obtain ⟨t1, d1, i1, a1, s1, y1, q1⟩ := doWrite_spec i 32 true
    obtain ⟨t2, d2, i2, a2, s2, y2, q2⟩ := ih i1
    refine ⟨t2, by simp [tabLoop, d1, Res.bind, d2], i2, ?_, by rw [s2, s1], fun K0 s => y2 K0 (y1 K0 s), ?_⟩
    · rw [a2, a1]; rfl
    · intro a; rw [q2 (by rw [s1]; exact a), q1 a]

theorem writeByte_spec {t : VT} (i : Inv t) (b : UInt8) :
    ∃ t', writeByte t b = .ok t' ∧ Inv t' ∧ absVT t' = (absVT t).byte b ∧ t'.active = t.active ∧
      (∀ K0, Sync K0 t → Sync K0 t') ∧ (t.active = false → t'.out = t.out) := by
  have g := i.toGeo
  unfold writeByte Term.byte
  simp only [g.att, Bool.not_true, Bool.false_eq_true, if_false]
  by_cases h13 : b = 13
  · simp only [h13, if_true]
    have := cr_spec i
    exact ⟨cr t, rfl, this.1, this.2.1, this.2.2.1, this.2.2.2.2, fun _ => this.2.2.2.1⟩
  · by_cases h10 : b = 10
    · simp only [h13, h10, if_true, if_false]
      have hh : (10 : UInt8) ≠ 13 := by decide
      simp only [hh, if_false]
      exact lf_spec g
    · by_cases h8 : b = 8
      · simp only [h8, if_true]
        have hh1 : (8 : UInt8) ≠ 13 := by decide
        have hh2 : (8 : UInt8) ≠ 10 := by decide
        simp only [hh1, hh2, if_false]
        by_cases hx : t.cursorX > 1
        · have e : sub32 t.cursorX 1 = t.cursorX - 1 := by
            have := g.w3; have := i.cxw
            exact sub32_one (by omega) (by omega)
          obtain ⟨j, a, s, o, y⟩ := setCursor_spec i (t.cursorX - 1) t.cursorY
          obtain ⟨t', d1, i1, a1, s1, y1, q1⟩ := doWrite_spec j 32 false
          refine ⟨t', by simp [hx, e, d1], i1, ?_, by rw [s1, s], fun K0 z => y1 K0 (y K0 z), ?_⟩
          · rw [a1, a]
            have := i.cxw; have := i.cy1; have := i.cyh; have := g.w1
            have c1 : Term.clamp (t.cursorX - 1) t.viewportWidth = t.cursorX - 1 := clamp_id (by omega) (by omega)
            have c2 : Term.clamp t.cursorY t.viewportHeight = t.cursorY := clamp_id (by omega) (by omega)
            simp [hx, absVT, Term.setCursor, c1, c2]
          · intro z; rw [q1 (by rw [s]; exact z), o]
        · exact ⟨t, by simp [hx], i, by simp [hx, absVT], rfl, fun _ s => s, fun _ => rfl⟩
      · by_cases h9 : b = 9
        · simp only [h9, if_true]
          have hh1 : (9 : UInt8) ≠ 13 := by decide
          have hh2 : (9 : UInt8) ≠ 10 := by decide
          have hh3 : (9 : UInt8) ≠ 8 := by decide
          simp only [hh1, hh2, hh3, if_false]
          exact tabLoop_spec t.tabWidth i
        · simp only [h13, h10, h8, h9, if_false]
          simpa using doWrite_spec i b true

/-! ### `SetState` -/

theorem getElem?_byteAt {d : Array UInt8} {i : Nat} (h : i < d.size) : d[i]? = some (byteAt d i) := by
  simp [byteAt, h]

theorem range_succ_reverse_map {α} (f : Nat → α) (n : Nat) :
    (List.range (n + 1)).reverse.map f = (List.range n).reverse.map (fun k => f (k + 1)) ++ [f 0] := by
  rw [List.range_succ_eq_map]
  simp [List.map_reverse, Function.comp_def]

theorem redrawRow_spec (d : Array UInt8) (y : Nat) (hs : d.size < 4294967296) :
    ∀ (n x off : Nat) (out : List Call), off + 3 * n ≤ d.size → x + n < 4294967296 →
      redrawRow d y n x off out = some ((List.range n).reverse.map (fun k =>
        Call.write (byteAt d (off + 3 * k)) (byteAt d (off + 3 * k + 1)) (byteAt d (off + 3 * k + 2)) (x + k) y)
          ++ out) := by
  intro n
  induction n with
  | zero => intro x off out _ _; simp [redrawRow]
  | succ n ih =>
    intro x off out h1 h2
    have e1 : u32 (off + 1) = off + 1 := u32_of_lt (by omega)
    have e2 : u32 (off + 2) = off + 2 := u32_of_lt (by omega)
    have e3 : u32 (off + 3) = off + 3 := u32_of_lt (by omega)
    have e4 : u32 (x + 1) = x + 1 := u32_of_lt (by omega)
    rw [range_succ_reverse_map]
    simp only [redrawRow, e1, e2, e3, e4, getElem?_byteAt (show off < d.size by omega),
      getElem?_byteAt (show off + 1 < d.size by omega), getElem?_byteAt (show off + 2 < d.size by omega)]
    rw [ih (x + 1) (off + 3) _ (by omega) (by omega)]
    simp only [List.append_assoc, List.singleton_append, Nat.mul_zero, Nat.add_zero]
    congr 2
    apply List.map_congr_left
    intro k _
    have a1 : off + 3 + 3 * k = off + 3 * (k + 1) := by omega
    have a2 : x + 1 + k = x + (k + 1) := by omega
    rw [a1, a2]

/-- the console writes `SetState(Active)` makes for console line `y` (newest first), for a buffer
`d` of lines of `w` cells shown from line `vy` on -/
def rowCalls (d : Array UInt8) (w vy y : Nat) : List Call :=
  (List.range w).reverse.map fun k =>
    Call.write (cellAt d w (y - 1 + vy) k).ch (cellAt d w (y - 1 + vy) k).fg (cellAt d w (y - 1 + vy) k).bg (k + 1) y

/-- the log after redrawing `n` lines from line `y` on -/
def allRows (d : Array UInt8) (w vy : Nat) : (n y : Nat) → List Call → List Call
  | 0, _, out => out
  | n + 1, y, out => allRows d w vy n (y + 1) (rowCalls d w vy y ++ out)

theorem redrawRows_succ (t : VT) (n y : Nat) (out : List Call) :
    redrawRows t (n + 1) y out =
      (redrawRow t.data y t.viewportWidth 1
        (u32 (u32 (sub32 y 1 + t.viewportY) * u32 (t.viewportWidth * 3))) out).bind
          fun out => redrawRows t n (u32 (y + 1)) out := rfl

theorem redrawRows_spec {t : VT} (g : Geo t) : ∀ (n y : Nat) (out : List Call), 1 ≤ y →
    y + n = t.viewportHeight + 1 →
      redrawRows t n y out = some (allRows t.data t.viewportWidth t.viewportY n y out) := by
  have w3 := g.w3; have hsb := g.hsb; have := g.fits; have := g.vy; have := g.w1
  intro n
  induction n with
  | zero => intro y out _ _; rfl
  | succ n ih =>
    intro y out hy hn
    have e1 : sub32 y 1 = y - 1 := sub32_one hy (by omega)
    have e2 : u32 (y - 1 + t.viewportY) = y - 1 + t.viewportY := u32_of_lt (by omega)
    have e3 : u32 (t.viewportWidth * 3) = t.viewportWidth * 3 := u32_of_lt w3
    have rows := g.rows (R := y - 1 + t.viewportY + 1) (by omega)
    rw [succ_mul'] at rows
    have e4 : u32 ((y - 1 + t.viewportY) * (t.viewportWidth * 3)) = (y - 1 + t.viewportY) * (t.viewportWidth * 3) :=
      u32_of_lt (by omega)
    have e5 : u32 (y + 1) = y + 1 := u32_of_lt (by omega)
    have hr := redrawRow_spec t.data y (by rw [g.size]; omega) t.viewportWidth 1
      ((y - 1 + t.viewportY) * (t.viewportWidth * 3)) out (by rw [g.size]; omega) (by omega)
    have hrow : (List.range t.viewportWidth).reverse.map (fun k =>
        Call.write (byteAt t.data ((y - 1 + t.viewportY) * (t.viewportWidth * 3) + 3 * k))
          (byteAt t.data ((y - 1 + t.viewportY) * (t.viewportWidth * 3) + 3 * k + 1))
          (byteAt t.data ((y - 1 + t.viewportY) * (t.viewportWidth * 3) + 3 * k + 2)) (1 + k) y)
        = rowCalls t.data t.viewportWidth t.viewportY y := by
      unfold rowCalls
      apply List.map_congr_left
      intro k _
      have a0 : (y - 1 + t.viewportY) * (t.viewportWidth * 3) + 3 * k = ((y - 1 + t.viewportY) * t.viewportWidth + k) * 3 := by
        rw [← Nat.mul_assoc]; omega
      simp only [cellAt, a0, Nat.add_comm 1 k]
    rw [hrow] at hr
    rw [redrawRows_succ, e1, e2, e3, e4, e5, hr]
    show redrawRows t n (y + 1) _ = _
    rw [ih (y + 1) _ (by omega) (by omega)]
    rfl

theorem allRows_append (d : Array UInt8) (w vy : Nat) : ∀ (n y : Nat) (a b : List Call),
    allRows d w vy n y (a ++ b) = allRows d w vy n y a ++ b := by
  intro n
  induction n with
  | zero => intro y a b; rfl
  | succ n ih =>
    intro y a b
    simp only [allRows]
    rw [← List.append_assoc, ih]

/-- the first `m` writes of one redrawn line -/
theorem rowCalls_prefix {K : Console} (wf : WF K) (d : Array UInt8) {w vy y : Nat} (hw : K.w = w)
    (hy : 1 ≤ y ∧ y ≤ K.h) : ∀ m, m ≤ w →
    let K' := K.applyLog ((List.range m).reverse.map fun k =>
      Call.write (cellAt d w (y - 1 + vy) k).ch (cellAt d w (y - 1 + vy) k).fg (cellAt d w (y - 1 + vy) k).bg (k + 1) y)
    K'.w = K.w ∧ K'.h = K.h ∧ WF K' ∧ K'.outside = K.outside ∧
      ∀ r c, r < K.h → c < K.w → K'.at r c = if r = y - 1 ∧ c < m then cellAt d w (y - 1 + vy) c else K.at r c := by
  intro m
  induction m with
  | zero =>
    intro _
    refine ⟨rfl, rfl, wf, rfl, ?_⟩
    intro r c _ _
    simp [Console.applyLog]
  | succ m ih =>
    intro hm
    obtain ⟨i1, i2, i3, i4, i5⟩ := ih (by omega)
    simp only [List.range_succ, List.reverse_append, List.reverse_singleton, List.singleton_append,
      List.map_cons, applyLog_cons, Console.apply]
    obtain ⟨w1, w2, w3, w4, w5⟩ := write_in i3 (cellAt d w (y - 1 + vy) m).ch (cellAt d w (y - 1 + vy) m).fg
      (cellAt d w (y - 1 + vy) m).bg (x := m + 1) (y := y) (by rw [i1, hw]; omega) (by rw [i2]; exact hy)
    refine ⟨by rw [w1, i1], by rw [w2, i2], w3, by rw [w4, i4], ?_⟩
    intro r c hr hc
    rw [w5 r c (by rw [i2]; exact hr) (by rw [i1]; exact hc), i5 r c hr hc]
    by_cases e1 : r = y - 1 ∧ c = m + 1 - 1
    · have e2 : r = y - 1 ∧ c < m + 1 := ⟨e1.1, by omega⟩
      rw [if_pos e1, if_pos e2]
      have : c = m := by omega
      rw [this]
    · by_cases e2 : r = y - 1 ∧ c < m
      · have e3 : r = y - 1 ∧ c < m + 1 := ⟨e2.1, by omega⟩
        rw [if_neg e1, if_pos e2, if_pos e3]
      · have e3 : ¬ (r = y - 1 ∧ c < m + 1) := by
          intro h; apply e2; refine ⟨h.1, ?_⟩
          have : ¬ c = m + 1 - 1 := fun h2 => e1 ⟨h.1, h2⟩
          omega
        rw [if_neg e1, if_neg e2, if_neg e3]

/-- one redrawn line -/
theorem rowCalls_apply {K : Console} (wf : WF K) (d : Array UInt8) {w vy y : Nat} (hw : K.w = w)
    (hy : 1 ≤ y ∧ y ≤ K.h) :
    (K.applyLog (rowCalls d w vy y)).w = K.w ∧ (K.applyLog (rowCalls d w vy y)).h = K.h ∧
      WF (K.applyLog (rowCalls d w vy y)) ∧ (K.applyLog (rowCalls d w vy y)).outside = K.outside ∧
      ∀ r c, r < K.h → c < K.w →
        (K.applyLog (rowCalls d w vy y)).at r c = if r = y - 1 then cellAt d w (y - 1 + vy) c else K.at r c := by
  obtain ⟨a1, a2, a3, a4, a5⟩ := rowCalls_prefix wf d hw hy w (Nat.le_refl w)
  refine ⟨a1, a2, a3, a4, ?_⟩
  intro r c hr hc
  have := a5 r c hr hc
  rw [hw] at hc
  simpa [rowCalls, hc] using this

theorem rowCalls_ok (d : Array UInt8) {w vy y h : Nat} (hy : 1 ≤ y ∧ y ≤ h) :
    ∀ c ∈ rowCalls d w vy y, CallOk w h c := by
  intro c hc
  simp only [rowCalls, List.mem_map, List.mem_reverse, List.mem_range] at hc
  obtain ⟨k, hk, rfl⟩ := hc
  exact ⟨by omega, by omega, hy.1, hy.2⟩

theorem allRows_mem (d : Array UInt8) (w vy : Nat) : ∀ (n y : Nat) (out : List Call) (c : Call),
    c ∈ allRows d w vy n y out → c ∈ out ∨ ∃ y' k, y ≤ y' ∧ y' < y + n ∧ k < w ∧
      c = Call.write (cellAt d w (y' - 1 + vy) k).ch (cellAt d w (y' - 1 + vy) k).fg
            (cellAt d w (y' - 1 + vy) k).bg (k + 1) y' := by
  intro n
  induction n with
  | zero => intro y out c hc; exact Or.inl hc
  | succ n ih =>
    intro y out c hc
    simp only [allRows] at hc
    cases ih (y + 1) _ c hc with
    | inl h =>
      cases List.mem_append.1 h with
      | inl h =>
        simp only [rowCalls, List.mem_map, List.mem_reverse, List.mem_range] at h
        obtain ⟨k, hk, rfl⟩ := h
        exact Or.inr ⟨y, k, Nat.le_refl y, by omega, hk, rfl⟩
      | inr h => exact Or.inl h
    | inr h =>
      obtain ⟨y', k, h1, h2, h3, h4⟩ := h
      exact Or.inr ⟨y', k, by omega, by omega, h3, h4⟩

theorem paired_writes {w h : Nat} (d : Array UInt8) (vy y : Nat) (hy : 1 ≤ y ∧ y ≤ h) {out : List Call}
    (p : Paired w h out) : ∀ m, m ≤ w → Paired w h (((List.range m).reverse.map fun k =>
      Call.write (cellAt d w (y - 1 + vy) k).ch (cellAt d w (y - 1 + vy) k).fg (cellAt d w (y - 1 + vy) k).bg (k + 1) y)
        ++ out) := by
  intro m
  induction m with
  | zero => intro _; simpa using p
  | succ m ih =>
    intro hm
    simp only [List.range_succ, List.reverse_append, List.reverse_singleton, List.singleton_append,
      List.map_cons, List.cons_append]
    exact Paired.write ⟨by omega, by omega, hy.1, hy.2⟩ (ih (by omega))

theorem allRows_paired (d : Array UInt8) {w vy h : Nat} : ∀ (n y : Nat) (out : List Call), 1 ≤ y → y + n ≤ h + 1 →
    Paired w h out → Paired w h (allRows d w vy n y out) := by
  intro n
  induction n with
  | zero => intro y out _ _ p; exact p
  | succ n ih =>
    intro y out hy hn p
    simp only [allRows]
    exact ih (y + 1) _ (by omega) (by omega) (paired_writes d vy y ⟨hy, by omega⟩ p w (Nat.le_refl w))

/-- the whole redraw: afterwards lines `y-1 …` show the viewport, whatever was there before -/
theorem allRows_apply (K0 : Console) (d : Array UInt8) {w vy : Nat} : ∀ (n y : Nat) (out : List Call),
    WF (K0.applyLog out) → (K0.applyLog out).w = w → 1 ≤ y → y + n = (K0.applyLog out).h + 1 →
    (K0.applyLog (allRows d w vy n y out)).w = w ∧
    (K0.applyLog (allRows d w vy n y out)).h = (K0.applyLog out).h ∧
    WF (K0.applyLog (allRows d w vy n y out)) ∧
    (K0.applyLog (allRows d w vy n y out)).outside = (K0.applyLog out).outside ∧
    (∀ c ∈ allRows d w vy n y out, c ∈ out ∨ CallOk w (K0.applyLog out).h c) ∧
    ∀ r c, r < (K0.applyLog out).h → c < w →
      (K0.applyLog (allRows d w vy n y out)).at r c =
        if y - 1 ≤ r then cellAt d w (r + vy) c else (K0.applyLog out).at r c := by
  intro n
  induction n with
  | zero =>
    intro y out wf hw hy hn
    refine ⟨hw, rfl, wf, rfl, fun c hc => Or.inl hc, ?_⟩
    intro r c hr hc
    have : ¬ y - 1 ≤ r := by omega
    simp [allRows, this]
  | succ n ih =>
    intro y out wf hw hy hn
    have hyr : 1 ≤ y ∧ y ≤ (K0.applyLog out).h := by omega
    obtain ⟨a1, a2, a3, a4, a5⟩ := rowCalls_apply wf d (vy := vy) hw hyr
    rw [← applyLog_append] at a1 a2 a3 a4 a5
    obtain ⟨b1, b2, b3, b4, b5, b6⟩ := ih (y + 1) (rowCalls d w vy y ++ out) a3 (by rw [a1, hw]) (by omega)
      (by rw [a2]; omega)
    simp only [allRows]
    refine ⟨b1, by rw [b2, a2], b3, by rw [b4, a4], ?_, ?_⟩
    · intro c hc
      cases b5 c hc with
      | inl h =>
        cases List.mem_append.1 h with
        | inl h => exact Or.inr (rowCalls_ok d hyr c h)
        | inr h => exact Or.inl h
      | inr h => rw [a2] at h; exact Or.inr h
    · intro r c hr hc
      rw [b6 r c (by rw [a2]; exact hr) hc, a5 r c hr (by rw [hw]; exact hc)]
      by_cases e1 : y + 1 - 1 ≤ r
      · have e2 : y - 1 ≤ r := by omega
        rw [if_pos e1, if_pos e2]
      · by_cases e2 : r = y - 1
        · have e3 : y - 1 ≤ r := by omega
          rw [if_neg e1, if_pos e2, if_pos e3, e2]
        · have e3 : ¬ y - 1 ≤ r := by omega
          rw [if_neg e1, if_neg e2, if_neg e3]

theorem setState_spec {t : VT} (i : Inv t) (a : Bool) :
    ∃ t', setState t a = .ok t' ∧ Inv t' ∧ absVT t' = absVT t ∧ t'.active = a ∧
      t'.out = (if t.active = a ∨ a = false then t.out
                else allRows t.data t.viewportWidth t.viewportY t.viewportHeight 1 t.out) ∧
      t'.data = t.data ∧ t'.viewportY = t.viewportY ∧ (∀ K0, Sync K0 t → Sync K0 t') := by
  have g := i.toGeo
  by_cases h : t.active = a
  · exact ⟨t, by simp [setState, h], i, rfl, h, by simp [h], rfl, rfl, fun _ s => s⟩
  · cases a with
    | false =>
      refine ⟨{ t with active := false }, by simp [setState, h], ?_, rfl, rfl, by simp, rfl, rfl, ?_⟩
      · exact ⟨g.frame rfl rfl rfl rfl rfl rfl rfl rfl rfl rfl rfl rfl g.cy1 g.cyh, i.cx1, i.cxw, i.off⟩
      · intro K0 s
        exact s.frame rfl rfl rfl (fun h => by cases h) (fun _ _ _ _ => rfl)
    | true =>
      have g1 : Geo { t with active := true } :=
        g.frame rfl rfl rfl rfl rfl rfl rfl rfl rfl rfl rfl rfl g.cy1 g.cyh
      have hr : redrawRows { t with active := true } t.viewportHeight 1 t.out = _ :=
        redrawRows_spec g1 t.viewportHeight 1 t.out (by omega) (by simp; omega)
      refine ⟨{ t with active := true,
                       out := allRows t.data t.viewportWidth t.viewportY t.viewportHeight 1 t.out },
        ?_, ?_, rfl, rfl, ?_, rfl, rfl, ?_⟩
      · have hatt : ({ t with active := true } : VT).attached = true := g.att
        unfold setState
        rw [if_neg h]
        simp only [hatt, Bool.and_self, if_true, hr]
        simp [g.att]
      · exact ⟨g.frame rfl rfl rfl rfl rfl rfl rfl rfl rfl rfl rfl rfl g.cy1 g.cyh, i.cx1, i.cxw, i.off⟩
      · simp [h]
      · intro K0 s
        obtain ⟨b1, b2, b3, b4, b5, b6⟩ := allRows_apply K0 t.data (vy := t.viewportY) t.viewportHeight 1 t.out
          s.wf s.w (Nat.le_refl 1) (by rw [s.h]; omega)
        refine ⟨b1, b2.trans s.h, b3, b4.trans s.outside, ?_, ?_,
          allRows_paired t.data (vy := t.viewportY) t.viewportHeight 1 t.out (Nat.le_refl 1) (Nat.le_of_eq (Nat.add_comm 1 _)) s.paired, ?_⟩
        · intro c hc
          cases b5 c hc with
          | inl h => exact s.ok c h
          | inr h => rw [s.h] at h; exact h
        · intro c hc
          cases allRows_mem t.data t.viewportWidth t.viewportY t.viewportHeight 1 t.out c hc with
          | inl h => exact s.cols c h
          | inr h =>
            obtain ⟨y', k, h1, h2, h3, rfl⟩ := h
            have := g.vy
            exact g.cols (y' - 1 + t.viewportY) k (by omega) h3
        · intro _ r c hr hc
          have := b6 r c (by rw [s.h]; exact hr) hc
          rw [this, if_pos (by omega)]
          simp only [vcell, Nat.add_comm]

/-! ### `AttachTo`, single steps, histories -/

theorem byteAt_blankData {n : Nat} {fg bg : UInt8} {j : Nat} (h : j < n) :
    byteAt (blankData n fg bg) j = pat fg bg j := by
  have hs : j < (blankData n fg bg).size := by simp [blankData, h]
  rw [byteAt_of_lt hs]
  simp [blankData, pat]

/-- the state `AttachTo` leaves behind -/
def attached0 (w h sb tab : Nat) (fg bg : UInt8) : VT :=
  { newVT tab sb with
    attached := true, viewportWidth := w, viewportHeight := h, viewportY := 0,
    defaultFg := fg, defaultBg := bg, curFg := fg, curBg := bg, termWidth := w, termHeight := h + sb,
    cursorX := 1, cursorY := 1, data := blankData (w * (h + sb) * 3) fg bg }

theorem attach_spec {w h sb : Nat} (tab : Nat) (fg bg : UInt8) (hw : 1 ≤ w) (hh : 1 ≤ h)
    (hf : w * (h + sb) * 3 < 4294967296) :
    ∃ t, attachTo (newVT tab sb) w h fg bg = .ok t ∧ Inv t ∧ absVT t = Term.new w h sb tab fg bg ∧
      t.active = false ∧ t.out = [] := by
  have b1 : 1 * (h + sb) ≤ w * (h + sb) := Nat.mul_le_mul_right _ hw
  have e1 : u32 (h + sb) = h + sb := u32_of_lt (by omega)
  have e2 : u32 (w * (h + sb)) = w * (h + sb) := u32_of_lt (by omega)
  have e3 : u32 (w * (h + sb) * 3) = w * (h + sb) * 3 := u32_of_lt hf
  have cells : ∀ r c, r < h + sb → c < w →
      cellAt (blankData (w * (h + sb) * 3) fg bg) w r c = ⟨32, fg, bg⟩ := by
    intro r c hr hc
    have := cell_lt hr hc
    unfold cellAt
    rw [byteAt_blankData (by omega), byteAt_blankData (by omega), byteAt_blankData (by omega)]
    have m0 : ((r * w + c) * 3) % 3 = 0 := by omega
    have m1 : ((r * w + c) * 3 + 1) % 3 = 1 := by omega
    have m2 : ((r * w + c) * 3 + 2) % 3 = 2 := by omega
    simp [pat, m0, m1, m2]
  refine ⟨attached0 w h sb tab fg bg, ?_, ?_, ?_, rfl, rfl⟩
  · have : (w * (h + sb) * 3) % 3 = 0 := by omega
    simp [attachTo, newVT, e1, e2, e3, this, attached0]
  · refine ⟨⟨rfl, hw, hh, rfl, rfl, hf, by simp [blankData, newVT, attached0], by simp [attached0], by simpa [attached0] using hh, by simp [newVT, attached0],
      rfl, rfl, ?_, ?_⟩, by simp [attached0], by simpa [attached0] using hw, by simp [newVT, attached0]⟩
    · intro r c _ h2 h3
      exact cells r c h2 h3
    · intro r c h2 h3
      have := cells r c h2 h3
      simp only [attached0] at this ⊢
      rw [this]; exact ⟨rfl, rfl⟩
  · simp only [absVT, Term.new, newVT, attached0]
    congr 1
    apply eq_gridOf (by simp)
    · intro r hr; simp
    · intro r c hr hc
      simp only [List.length_replicate, List.getElem_replicate] at hr hc ⊢
      exact (cells r c hr hc).symm

theorem step_spec {t : VT} (i : Inv t) (op : Op) :
    ∃ t', step t op = .ok t' ∧ Inv t' ∧ absVT t' = (absVT t).step op := by
  cases op with
  | byte b =>
    obtain ⟨t', a, b', c, _⟩ := writeByte_spec i b
    exact ⟨t', a, b', c⟩
  | cursor x y =>
    have := setCursor_spec i x y
    exact ⟨_, rfl, this.1, this.2.1⟩
  | state a =>
    obtain ⟨t', a', b', c, _⟩ := setState_spec i a
    exact ⟨t', a', b', c⟩

theorem run_spec : ∀ (ops : List Op) {t : VT}, Inv t →
    ∃ t', run t ops = .ok t' ∧ Inv t' ∧ absVT t' = (absVT t).run ops := by
  intro ops
  induction ops with
  | nil => intro t i; exact ⟨t, rfl, i, rfl⟩
  | cons op ops ih =>
    intro t i
    obtain ⟨t1, a1, i1, r1⟩ := step_spec i op
    obtain ⟨t2, a2, i2, r2⟩ := ih i1
    refine ⟨t2, by simp [run, a1, Res.bind, a2], i2, ?_⟩
    rw [r2, r1]; rfl

/-- one operation keeps the console in sync, and draws nothing while the terminal is Inactive
(activation excepted) -/
theorem step_sync {t t' : VT} (i : Inv t) (op : Op) (h : step t op = .ok t') :
    (∀ K0, Sync K0 t → Sync K0 t') ∧ (t.active = false → op ≠ .state true → t'.out = t.out) := by
  cases op with
  | byte b =>
    obtain ⟨t1, a, _, _, _, y, q⟩ := writeByte_spec i b
    have : step t (.byte b) = .ok t1 := a
    rw [this] at h; cases h
    exact ⟨y, fun z _ => q z⟩
  | cursor x y =>
    have := setCursor_spec i x y
    have e : step t (.cursor x y) = .ok (setCursorPosition t x y) := rfl
    rw [e] at h; cases h
    exact ⟨this.2.2.2.2, fun _ _ => this.2.2.2.1⟩
  | state a =>
    obtain ⟨t1, a', _, _, _, o, _, _, y⟩ := setState_spec i a
    have : step t (.state a) = .ok t1 := a'
    rw [this] at h; cases h
    refine ⟨y, ?_⟩
    intro z ne
    rw [o]
    cases a with
    | false => simp
    | true => exact absurd rfl ne

theorem run_sync : ∀ (ops : List Op) {t t' : VT}, Inv t → run t ops = .ok t' →
    ∀ K0, Sync K0 t → Sync K0 t' := by
  intro ops
  induction ops with
  | nil => intro t t' _ h K0 s; cases h; exact s
  | cons op ops ih =>
    intro t t' i h K0 s
    obtain ⟨t1, a1, i1, _⟩ := step_spec i op
    have : run t (op :: ops) = run t1 ops := by simp [run, a1, Res.bind]
    rw [this] at h
    exact ih i1 h K0 ((step_sync i op a1).1 K0 s)

/-- a screen of the terminal's shape showing the viewport cell by cell is the viewport -/
theorem cells_eq_viewport {K : Console} {t : VT} (g : Geo t) (wf : WF K) (hw : K.w = t.viewportWidth)
    (hh : K.h = t.viewportHeight)
    (hat : ∀ r c, r < t.viewportHeight → c < t.viewportWidth → K.at r c = vcell t r c) :
    K.cells = (absVT t).viewport := by
  have hvy := g.vy
  have rowq : ∀ r, r < t.viewportHeight → (absVT t).viewport[r]? =
      some ((List.range t.viewportWidth).map fun c => cellAt t.data t.viewportWidth (t.viewportY + r) c) := by
    intro r hr
    simp only [Term.viewport, absVT, List.getElem?_take, hr, if_true, List.getElem?_drop, gridOf_getElem?, g.tw, g.th]
    rw [if_pos (by omega)]
  apply cells_ext wf
  · simp [Term.viewport, absVT, g.th, hh]; omega
  · intro r hr
    rw [hh] at hr
    simp [List.getD_eq_getElem?_getD, rowq r hr, hw]
  · intro r c hr hc
    rw [hh] at hr; rw [hw] at hc
    rw [hat r c hr hc]
    simp [List.getD_eq_getElem?_getD, rowq r hr, hc, vcell]

theorem Sync.cells_eq {K0 : Console} {t : VT} (s : Sync K0 t) (g : Geo t) (a : t.active = true) :
    (K0.applyLog t.out).cells = (absVT t).viewport :=
  cells_eq_viewport g s.wf s.w s.h (s.shows a)

/-- a freshly attached (Inactive, nothing drawn) terminal is in sync with any console of its shape -/
theorem Sync.init {K0 : Console} {t : VT} (wf : WF K0) (hw : K0.w = t.viewportWidth) (hh : K0.h = t.viewportHeight)
    (ho : t.out = []) (ha : t.active = false) : Sync K0 t := by
  refine ⟨by rw [ho]; exact hw, by rw [ho]; exact hh, by rw [ho]; exact wf, by rw [ho]; rfl, by rw [ho]; simp, by rw [ho]; simp, by rw [ho]; exact Paired.nil, ?_⟩
  intro h; rw [ha] at h; cases h

/-! ### the reference terminal keeps its configuration -/

structure SameCfg (a b : Term) : Prop where
  w : b.w = a.w
  h : b.h = a.h
  sb : b.sb = a.sb
  tab : b.tab = a.tab
  fg : b.fg = a.fg
  bg : b.bg = a.bg

theorem SameCfg.refl (a : Term) : SameCfg a a := ⟨rfl, rfl, rfl, rfl, rfl, rfl⟩
theorem SameCfg.trans {a b c : Term} (x : SameCfg a b) (y : SameCfg b c) : SameCfg a c :=
  ⟨y.w.trans x.w, y.h.trans x.h, y.sb.trans x.sb, y.tab.trans x.tab, y.fg.trans x.fg, y.bg.trans x.bg⟩

theorem put_cfg (t : Term) (b : UInt8) : SameCfg t (t.put b) := ⟨rfl, rfl, rfl, rfl, rfl, rfl⟩

theorem lf_cfg (t : Term) : SameCfg t t.lf := by
  unfold Term.lf
  simp only
  split
  · exact ⟨rfl, rfl, rfl, rfl, rfl, rfl⟩
  · split <;> exact ⟨rfl, rfl, rfl, rfl, rfl, rfl⟩

theorem putAdv_cfg (t : Term) (b : UInt8) : SameCfg t (t.putAdv b) := by
  unfold Term.putAdv
  simp only
  split
  · exact ⟨rfl, rfl, rfl, rfl, rfl, rfl⟩
  · exact (put_cfg t b).trans (lf_cfg _)

theorem rep_cfg (f : Term → Term) (hf : ∀ t, SameCfg t (f t)) : ∀ n t, SameCfg t (Term.rep f n t) := by
  intro n
  induction n with
  | zero => intro t; exact SameCfg.refl t
  | succ n ih => intro t; exact (hf t).trans (ih (f t))

theorem byte_cfg (t : Term) (b : UInt8) : SameCfg t (t.byte b) := by
  unfold Term.byte
  split
  · exact ⟨rfl, rfl, rfl, rfl, rfl, rfl⟩
  · split
    · exact lf_cfg t
    · split
      · split
        · exact ⟨rfl, rfl, rfl, rfl, rfl, rfl⟩
        · exact SameCfg.refl t
      · split
        · exact rep_cfg _ (fun t => putAdv_cfg t 32) _ _
        · exact putAdv_cfg t b

theorem step_cfg (t : Term) (op : Op) : SameCfg t (t.step op) := by
  cases op with
  | byte b => exact byte_cfg t b
  | cursor x y => exact ⟨rfl, rfl, rfl, rfl, rfl, rfl⟩
  | state a => exact SameCfg.refl t

theorem run_cfg : ∀ (ops : List Op) (t : Term), SameCfg t (t.run ops) := by
  intro ops
  induction ops with
  | nil => intro t; exact SameCfg.refl t
  | cons op ops ih => intro t; exact (step_cfg t op).trans (ih _)

/-- `Geo.blank`, in the words of the reference terminal -/
theorem below_blank {t : VT} (g : Geo t) :
    (absVT t).grid.drop (t.viewportY + t.viewportHeight) =
      List.replicate (t.scrollback - t.viewportY) (List.replicate t.viewportWidth ⟨32, t.defaultFg, t.defaultBg⟩) := by
  have := g.vy
  simp only [absVT, g.tw, g.th]
  apply List.ext_getElem (by simp; omega)
  intro r h1 h2
  simp only [List.length_drop, gridOf_length] at h1
  rw [List.getElem_drop, List.getElem_replicate, gridOf_row]
  rw [show List.replicate t.viewportWidth (⟨32, t.defaultFg, t.defaultBg⟩ : Cell)
      = (List.range t.viewportWidth).map (fun _ => ⟨32, t.defaultFg, t.defaultBg⟩) from by
        rw [List.map_const', List.length_range]]
  · apply row_congr
    intro c hc
    exact g.blank _ c (by omega) (by omega) hc

end Firefly.VtProof
