import Firefly.Proof.AmlTreeOps
/-!
Lemmas for C13: the effect of the editing operations on the abstract forest (`abs`).
-/
namespace Firefly.C13
open Firefly.AmlTree Firefly.AmlTree.ObjectTree

theorem WF.kids_of_chain {t : ObjectTree} (w : WF t) {p : Nat} (hl : live t p = true) {l : List Nat}
    (hc : Chain t (Nx t) (Fi t p) l) : (abs t).kids p = l := by
  obtain ⟨l', hc', ha, _⟩ := w.args_eq hl
  have := chain_det (Nx t) w.size_le _ _ _ hc hc'
  subst this
  simp [abs, ha]

theorem WF.kids_chain {t : ObjectTree} (w : WF t) {p : Nat} (hl : live t p = true) :
    Chain t (Nx t) (Fi t p) ((abs t).kids p) := by
  obtain ⟨l', hc', ha, _⟩ := w.args_eq hl
  have : (abs t).kids p = l' := by simp [abs, ha]
  rw [this]; exact hc'

theorem chain_congr {t t' : ObjectTree} :
    ∀ (l : List Nat) (a : Nat), Chain t (Nx t) a l →
      (∀ x ∈ l, live t' x = true ∧ Nx t' x = Nx t x) → Chain t' (Nx t') a l := by
  intro l
  induction l with
  | nil => intro a h _; exact h
  | cons y ys ih =>
    intro a hc hs
    obtain ⟨rfl, _, hc'⟩ := hc
    have := hs a (by simp)
    refine ⟨rfl, this.1, ?_⟩
    rw [this.2]
    exact ih _ hc' (fun x hx => hs x (by simp [hx]))

/-- positions strictly increase along a sibling chain -/
theorem chain_pos {t : ObjectTree} (pos : Nat → Nat)
    (hpos : ∀ i, live t i = true → Nx t i ≠ INV → pos i < pos (Nx t i)) (hs : t.pool.size ≤ INV) :
    ∀ (l : List Nat) (a : Nat), Chain t (Nx t) a (a :: l) → ∀ y ∈ l, pos a < pos y := by
  intro l
  induction l with
  | nil => intro a _ y hy; simp at hy
  | cons z zs ih =>
    intro a hc y hy
    obtain ⟨_, hl, hc'⟩ := hc
    obtain ⟨hz, hzl, _⟩ := id hc'
    have h1 := hpos a hl (by rw [hz]; exact live_ne_INV hs hzl)
    rw [hz] at h1
    rcases List.mem_cons.1 hy with rfl | hy
    · exact h1
    · have := ih z (hz ▸ hc') y hy
      omega

theorem WF.chain_nodup {t : ObjectTree} (w : WF t) :
    ∀ (l : List Nat) (a : Nat), Chain t (Nx t) a l → l.Nodup := by
  obtain ⟨pos, hpos⟩ := w.order
  intro l
  induction l with
  | nil => intro _ _; simp
  | cons y ys ih =>
    intro a hc
    obtain ⟨rfl, hl, hc'⟩ := id hc
    rw [List.nodup_cons]
    refine ⟨fun hm => ?_, ih _ hc'⟩
    have := chain_pos pos hpos w.size_le ys a hc a hm
    omega

/-- `arg` appended after the last element of a chain -/
theorem chain_snoc {t t' : ObjectTree} {arg : Nat} (hsz : t.pool.size ≤ INV) (hla : live t' arg = true)
    (hna : Nx t' arg = INV) :
    ∀ (l : List Nat) (a : Nat), Chain t (Nx t) a l →
      (∀ x ∈ l, live t' x = true ∧ Nx t' x = if Nx t x = INV then arg else Nx t x) →
      Chain t' (Nx t') (if l = [] then arg else a) (l ++ [arg]) := by
  intro l
  induction l with
  | nil => intro a _ _; exact ⟨rfl, hla, hna⟩
  | cons x xs ih =>
    intro a hc hs
    obtain ⟨rfl, _, hc'⟩ := hc
    have hx := hs a (by simp)
    simp only [List.cons_ne_nil, if_false, List.cons_append]
    refine ⟨rfl, hx.1, ?_⟩
    have := ih (Nx t a) hc' (fun y hy => hs y (by simp [hy]))
    cases xs with
    | nil =>
      have h0 : Nx t a = INV := hc'
      rw [hx.2, h0]; simpa using this
    | cons y ys =>
      obtain ⟨hy, hyl, _⟩ := id hc'
      have hne : Nx t a ≠ INV := by rw [hy]; exact live_ne_INV hsz hyl
      rw [hx.2]; simp only [hne, if_false]
      simpa using this

/-- an element's successor in a chain is in the chain -/
theorem chain_mem_of_next {t : ObjectTree} (hs : t.pool.size ≤ INV) :
    ∀ (l : List Nat) (a y : Nat), Chain t (Nx t) a l → y ∈ l → live t (Nx t y) = true → Nx t y ∈ l := by
  intro l a y hc hy hl
  exact chain_succ_mem hs l a y hc hy (live_ne_INV hs hl)

/-- `arg` removed from a chain -/
theorem chain_erase {t t' : ObjectTree} {arg : Nat} (hs : t.pool.size ≤ INV) (hla : live t arg = true) :
    ∀ (l : List Nat) (a : Nat), Chain t (Nx t) a l → l.Nodup →
      (∀ x ∈ l, x ≠ arg → live t' x = true ∧ Nx t' x = if Nx t x = arg then Nx t arg else Nx t x) →
      Chain t' (Nx t') (if a = arg then Nx t arg else a) (l.erase arg) := by
  intro l
  induction l with
  | nil =>
    intro a hc _ _
    have h0 : a = INV := hc
    have : a ≠ arg := by rw [h0]; exact (live_ne_INV hs hla).symm
    simp only [this, if_false, List.erase_nil]
    exact h0
  | cons x xs ih =>
    intro a hc hnd hsame
    obtain ⟨rfl, hl, hc'⟩ := id hc
    rw [List.nodup_cons] at hnd
    by_cases hx : a = arg
    · subst hx
      simp only [if_true, List.erase_cons_head]
      apply chain_congr xs _ hc'
      intro y hy
      have hya : y ≠ a := fun e => hnd.1 (e ▸ hy)
      have := hsame y (by simp [hy]) hya
      refine ⟨this.1, ?_⟩
      rw [this.2]
      have : Nx t y ≠ a := by
        intro e
        have := chain_succ_mem hs xs _ y hc' hy (by rw [e]; exact live_ne_INV hs hl)
        rw [e] at this; exact hnd.1 this
      simp [this]
    · have hne : (a == arg) = false := by simpa using hx
      simp only [hx, if_false, List.erase_cons, hne, Bool.false_eq_true]
      have hsx := hsame a (by simp) hx
      refine ⟨rfl, hsx.1, ?_⟩
      rw [hsx.2]
      exact ih (Nx t a) hc' hnd.2 (fun y hy hya => hsame y (by simp [hy]) hya)

/-- `arg` inserted right after `n` in a chain -/
theorem chain_insert {t t' : ObjectTree} {arg n : Nat} (hla : live t' arg = true)
    (hna : Nx t' arg = Nx t n) :
    ∀ (l : List Nat) (a : Nat), Chain t (Nx t) a l → l.Nodup →
      (∀ x ∈ l, live t' x = true ∧ Nx t' x = if x = n then arg else Nx t x) →
      Chain t' (Nx t') a (insertAfter n arg l) := by
  intro l
  induction l with
  | nil => intro a hc _ _; exact hc
  | cons x xs ih =>
    intro a hc hnd hsame
    obtain ⟨rfl, _, hc'⟩ := hc
    rw [List.nodup_cons] at hnd
    have hsx := hsame a (by simp)
    by_cases hx : a = n
    · subst hx
      simp only [insertAfter, if_true]
      refine ⟨rfl, hsx.1, ?_⟩
      rw [hsx.2]; simp only [if_true]
      refine ⟨rfl, hla, ?_⟩
      rw [hna]
      apply chain_congr xs _ hc'
      intro y hy
      have := hsame y (by simp [hy])
      have hyn : y ≠ a := fun e => hnd.1 (by rw [← e]; exact hy)
      exact ⟨this.1, by rw [this.2]; simp [hyn]⟩
    · simp only [insertAfter, hx, if_false]
      refine ⟨rfl, hsx.1, ?_⟩
      rw [hsx.2]; simp only [hx, if_false]
      exact ih _ hc' hnd.2 (fun y hy => hsame y (by simp [hy]))

theorem ids_eq {t t' : ObjectTree} (hsz : t'.pool.size = t.pool.size) (hlive : ∀ x, live t' x = live t x) :
    (abs t').ids = (abs t).ids := by
  simp only [abs, hsz]
  congr 1
  funext x
  exact hlive x

/-- a parent none of whose children's `next` links changed keeps its child list -/
theorem kids_same {t t' : ObjectTree} (w : WF t) (w' : WF t') (hlive : ∀ x, live t' x = live t x)
    {p : Nat} (hl : live t p = true) (hfi : Fi t' p = Fi t p)
    (hnx : ∀ x, live t x = true → P t x = p → Nx t' x = Nx t x) :
    (abs t').kids p = (abs t).kids p := by
  have hc := w.kids_chain hl
  apply w'.kids_of_chain (by rw [hlive]; exact hl)
  rw [hfi]
  apply chain_congr _ _ hc
  intro x hx
  have := (w.kids_mem p hl x).1 hx
  exact ⟨by rw [hlive]; exact this.1, hnx x this.1 this.2⟩

theorem kids_nil_iff {t : ObjectTree} (w : WF t) {p : Nat} (hl : live t p = true) :
    (abs t).kids p = [] ↔ Fi t p = INV := by
  have hc := w.kids_chain hl
  constructor
  · intro h; rw [h] at hc; exact hc
  · intro h
    cases hk : (abs t).kids p with
    | nil => rfl
    | cons y ys =>
      rw [hk] at hc
      obtain ⟨e, hy, _⟩ := hc
      exact absurd (e ▸ h : y = INV) (live_ne_INV w.size_le hy)

/-- effect of `append` on the abstract forest -/
theorem append_abs {t : ObjectTree} (w : WF t) {obj arg : Nat} (hpre : appendPre t obj arg = true) :
    ∃ t', t.append obj arg = .ok t' ∧ WF t' ∧ (abs t').ids = (abs t).ids ∧
      (∀ x, (abs t').name x = (abs t).name x) ∧
      ∀ p, live t p = true → (abs t').kids p = if p = obj then (abs t).kids obj ++ [arg] else (abs t).kids p := by
  obtain ⟨t', he, w', hsz, hlive, hname, hP, hPv, hNx, hFi, hLa⟩ := append_wf w hpre
  simp only [appendPre, Bool.and_eq_true, decide_eq_true_eq, Bool.not_eq_true'] at hpre
  obtain ⟨⟨⟨ho, ha⟩, hp⟩, _⟩ := hpre
  have hinv : ∀ j, live t j = true → j ≠ INV := fun j hj => live_ne_INV w.size_le hj
  have lpo := w.lP ho
  refine ⟨t', he, w', ids_eq hsz hlive, hname, fun p hl => ?_⟩
  by_cases hpo : p = obj
  · subst hpo
    simp only [if_true]
    have hc := w.kids_chain hl
    apply w'.kids_of_chain (by rw [hlive]; exact hl)
    have hstart : Fi t' p = if (abs t).kids p = [] then arg else Fi t p := by
      rw [hFi]
      have h1 := kids_nil_iff w hl
      by_cases hk : (abs t).kids p = []
      · have := lpo.ends.1 (h1.1 hk); simp [hk, this]
      · have : ¬ La t p = INV := fun e => hk (h1.2 (lpo.ends.2 e)); simp [hk, this]
    rw [hstart]
    apply chain_snoc w.size_le (by rw [hlive]; exact ha) (by rw [hNx]; simp) _ _ hc
    intro x hx
    obtain ⟨hxl, hxp⟩ := (w.kids_mem p hl x).1 hx
    have hxa : x ≠ arg := fun e => by rw [e, hp] at hxp; exact hinv _ hl hxp.symm
    refine ⟨by rw [hlive]; exact hxl, ?_⟩
    rw [hNx]; simp only [hxa, if_false]
    have lpx := w.lP hxl
    by_cases hn : Nx t x = INV
    · have := lpx.last (by rw [hxp]; exact hinv _ hl) hn
      rw [hxp] at this
      simp [hn, this, hinv _ hxl]
    · have : ¬ (x = La t p ∧ La t p ≠ INV) := fun ⟨e, h⟩ => hn (by rw [e]; exact (lpo.la h).2)
      simp [hn, this]
  · simp only [hpo, if_false]
    apply kids_same w w' hlive hl (by rw [hFi]; simp [hpo])
    intro x hxl hxp
    rw [hNx]
    have hxa : x ≠ arg := fun e => by rw [e, hp] at hxp; exact hinv _ hl hxp.symm
    have : ¬ (x = La t obj ∧ La t obj ≠ INV) := fun ⟨e, h⟩ => by
      have := (lpo.la h).1
      rw [← e, hxp] at this; exact hpo this
    simp [hxa, this]

/-- effect of `detach` on the abstract forest -/
theorem detach_abs {t : ObjectTree} (w : WF t) {obj arg : Nat} (hpre : detachPre t obj arg = true) :
    ∃ t', t.detach obj arg = .ok t' ∧ WF t' ∧ (abs t').ids = (abs t).ids ∧
      (∀ x, (abs t').name x = (abs t).name x) ∧
      ∀ p, live t p = true → (abs t').kids p = if p = obj then ((abs t).kids obj).erase arg else (abs t).kids p := by
  obtain ⟨t', he, w', hsz, hlive, hname, hP, hPv, hNx, hFi, hLa⟩ := detach_wf w hpre
  simp only [detachPre, Bool.and_eq_true, decide_eq_true_eq] at hpre
  obtain ⟨⟨ho, ha⟩, hp⟩ := hpre
  have hinv : ∀ j, live t j = true → j ≠ INV := fun j hj => live_ne_INV w.size_le hj
  have lpa := w.lP ha
  refine ⟨t', he, w', ids_eq hsz hlive, hname, fun p hl => ?_⟩
  by_cases hpo : p = obj
  · subst hpo
    simp only [if_true]
    have hc := w.kids_chain hl
    apply w'.kids_of_chain (by rw [hlive]; exact hl)
    have hstart : Fi t' p = if Fi t p = arg then Nx t arg else Fi t p := by rw [hFi]; simp
    rw [hstart]
    apply chain_erase w.size_le ha _ _ hc (w.chain_nodup _ _ hc)
    intro x hx hxa
    obtain ⟨hxl, hxp⟩ := (w.kids_mem p hl x).1 hx
    refine ⟨by rw [hlive]; exact hxl, ?_⟩
    rw [hNx]; simp only [hxa, if_false]
    have lpx := w.lP hxl
    by_cases hn : Nx t x = arg
    · have := (lpx.nx (by rw [hn]; exact hinv _ ha)).1
      rw [hn] at this
      simp [hn, this, hinv _ hxl]
    · have : ¬ (x = Pv t arg ∧ Pv t arg ≠ INV) := fun ⟨e, h⟩ => hn (by rw [e]; exact (lpa.pv h).1)
      simp [hn, this]
  · simp only [hpo, if_false]
    apply kids_same w w' hlive hl (by rw [hFi]; simp [hpo])
    intro x hxl hxp
    rw [hNx]
    have hxa : x ≠ arg := fun e => by rw [e, hp] at hxp; exact hpo hxp.symm
    have : ¬ (x = Pv t arg ∧ Pv t arg ≠ INV) := fun ⟨e, h⟩ => by
      have := (lpa.pv h).2
      rw [← e, hxp, hp] at this; exact hpo this
    simp [hxa, this]

/-- effect of `appendAfter` on the abstract forest -/
theorem appendAfter_abs {t : ObjectTree} (w : WF t) {obj arg nextTo : Nat}
    (hpre : appendAfterPre t obj arg nextTo = true) :
    ∃ t', t.appendAfter obj arg nextTo = .ok t' ∧ WF t' ∧ (abs t').ids = (abs t).ids ∧
      (∀ x, (abs t').name x = (abs t).name x) ∧
      ∀ p, live t p = true →
        (abs t').kids p = if p = obj then insertAfter nextTo arg ((abs t).kids obj) else (abs t).kids p := by
  obtain ⟨t', he, w', hsz, hlive, hname, hP, hPv, hNx, hFi, hLa⟩ := appendAfter_wf w hpre
  simp only [appendAfterPre, appendPre, Bool.and_eq_true, decide_eq_true_eq, Bool.not_eq_true'] at hpre
  obtain ⟨⟨⟨⟨⟨ho, ha⟩, hp⟩, _⟩, hn⟩, hpn⟩ := hpre
  have hinv : ∀ j, live t j = true → j ≠ INV := fun j hj => live_ne_INV w.size_le hj
  refine ⟨t', he, w', ids_eq hsz hlive, hname, fun p hl => ?_⟩
  by_cases hpo : p = obj
  · subst hpo
    simp only [if_true]
    have hc := w.kids_chain hl
    apply w'.kids_of_chain (by rw [hlive]; exact hl)
    rw [hFi]
    apply chain_insert (by rw [hlive]; exact ha) (by rw [hNx]; simp) _ _ hc (w.chain_nodup _ _ hc)
    intro x hx
    obtain ⟨hxl, hxp⟩ := (w.kids_mem p hl x).1 hx
    have hxa : x ≠ arg := fun e => by rw [e, hp] at hxp; exact hinv _ hl hxp.symm
    exact ⟨by rw [hlive]; exact hxl, by rw [hNx]; simp [hxa]⟩
  · simp only [hpo, if_false]
    apply kids_same w w' hlive hl (hFi p)
    intro x hxl hxp
    rw [hNx]
    have hxa : x ≠ arg := fun e => by rw [e, hp] at hxp; exact hinv _ hl hxp.symm
    have hxn : x ≠ nextTo := fun e => by rw [e, hpn] at hxp; exact hpo hxp.symm
    simp [hxa, hxn]

/-- effect of `newObject` on the abstract forest -/
theorem newObject_abs {t : ObjectTree} (w : WF t) (opcode info th : Nat)
    (hpre : newPre t = true) (hop : opcode ≠ pOpIntFreedObject) :
    ∃ t' i, t.newObject opcode info th = .ok (t', i) ∧ WF t' ∧ live t i = false ∧
      (∀ x, x ∈ (abs t').ids ↔ (x ∈ (abs t).ids ∨ x = i)) ∧
      (∀ x, x ≠ i → (abs t').name x = (abs t).name x) ∧
      (abs t').kids i = [] ∧ ∀ p, live t p = true → (abs t').kids p = (abs t).kids p := by
  obtain ⟨t', i, he, w', fr⟩ := newObject_wf w opcode info th (by simpa [newPre] using hpre) hop
  refine ⟨t', i, he, w', fr.nlive, ?_, ?_, ?_, ?_⟩
  · intro x
    rw [mem_ids, mem_ids]
    by_cases hx : x = i
    · subst hx; simp [fr.liven]
    · rw [fr.livex x hx]; simp [hx]
  · intro x hx; simp [abs, fr.same x hx]
  · exact (kids_nil_iff w' fr.liven).2 fr.fin
  · intro p hl
    have hpi : p ≠ i := fun e => by rw [e, fr.nlive] at hl; cases hl
    have hc := w.kids_chain hl
    apply w'.kids_of_chain (by rw [fr.livex p hpi]; exact hl)
    have : Fi t' p = Fi t p := by simp [Fi, fr.same p hpi]
    rw [this]
    apply chain_congr _ _ hc
    intro x hx
    have hxl := ((w.kids_mem p hl x).1 hx).1
    have hxi : x ≠ i := fun e => by rw [e, fr.nlive] at hxl; cases hxl
    exact ⟨by rw [fr.livex x hxi]; exact hxl, by simp [Nx, fr.same x hxi]⟩

/-- effect of `free` on the abstract forest -/
theorem free_abs {t : ObjectTree} (w : WF t) {obj : Nat} (hpre : freePre t obj = true) :
    ∃ t', t.free obj = .ok t' ∧ WF t' ∧
      (∀ x, x ∈ (abs t').ids ↔ (x ∈ (abs t).ids ∧ x ≠ obj)) ∧
      (∀ x, x ≠ obj → (abs t').name x = (abs t).name x) ∧
      ∀ p, live t p = true → p ≠ obj → (abs t').kids p = ((abs t).kids p).erase obj := by
  obtain ⟨t', he, w', hsz, hlive, hfh, hnx, t1, ht1, hsame⟩ := free_wf w hpre
  simp only [freePre, Bool.and_eq_true, decide_eq_true_eq] at hpre
  obtain ⟨⟨ho, hfi⟩, hla⟩ := hpre
  have hinv : ∀ j, live t j = true → j ≠ INV := fun j hj => live_ne_INV w.size_le hj
  -- facts about the intermediate (detached) pool
  have key : WF t1 ∧ (∀ x, live t1 x = live t x) ∧ P t1 obj = INV ∧ (∀ x, (slot t1 x).name = (slot t x).name) ∧
      ∀ p, live t p = true → p ≠ obj → (abs t1).kids p = ((abs t).kids p).erase obj := by
    have noerase : ∀ p, live t p = true → P t obj ≠ p → ((abs t).kids p).erase obj = (abs t).kids p := by
      intro p hl hne
      apply List.erase_of_not_mem
      intro hm
      exact hne ((w.kids_mem p hl obj).1 hm).2
    rcases ht1 with ⟨hp, rfl⟩ | ⟨hp, hd⟩
    · refine ⟨w, fun _ => rfl, hp, fun _ => rfl, fun p hl _ => ?_⟩
      rw [noerase p hl (by rw [hp]; exact (hinv _ hl).symm)]
    · have hpl : live t (P t obj) = true := (w.lP ho).lp.resolve_left hp
      obtain ⟨t1', hd', w1, _, hname1, hk⟩ := detach_abs w (obj := P t obj) (arg := obj)
        (by simp [detachPre, hpl, ho])
      obtain ⟨t1'', hd'', _, _, hlive1, _, hP1, _⟩ := detach_wf w (obj := P t obj) (arg := obj)
        (by simp [detachPre, hpl, ho])
      rw [hd] at hd' hd''
      have e1 : t1 = t1' := Except.ok.inj hd'
      have e2 : t1 = t1'' := Except.ok.inj hd''
      subst e1
      refine ⟨w1, by rw [e2]; exact hlive1, by rw [e2, hP1]; simp, fun x => by simpa [abs] using hname1 x,
        fun p hl hpo => ?_⟩
      rw [hk p hl]
      by_cases hpp : p = P t obj
      · simp [hpp]
      · simp only [hpp, if_false]
        rw [noerase p hl (fun e => hpp e.symm)]
  obtain ⟨w1, hlive1, hP1, hname1, hk1⟩ := key
  refine ⟨t', he, w', ?_, ?_, ?_⟩
  · intro x
    rw [mem_ids, mem_ids, hlive]; simp
  · intro x hx
    simp only [abs, hsame x hx]; exact hname1 x
  · intro p hl hpo
    rw [← hk1 p hl hpo]
    have hl1 : live t1 p = true := by rw [hlive1]; exact hl
    have hc := w1.kids_chain hl1
    have hlive' : ∀ x, live t' x = (live t1 x && decide (x ≠ obj)) := by
      intro x; rw [hlive, hlive1]
    apply w'.kids_of_chain (by rw [hlive', hl1]; simp [hpo])
    have : Fi t' p = Fi t1 p := by simp [Fi, hsame p hpo]
    rw [this]
    apply chain_congr _ _ hc
    intro x hx
    obtain ⟨hxl, hxp⟩ := (w1.kids_mem p hl1 x).1 hx
    have hxo : x ≠ obj := fun e => by
      rw [e, hP1] at hxp; exact live_ne_INV w1.size_le hl1 hxp.symm
    exact ⟨by rw [hlive', hxl]; simp [hxo], by simp [Nx, hsame x hxo]⟩

end Firefly.C13
