import Firefly.Model.Kfmt
/-! The index-level model of the `Fprintf` loop (`fprintfIdx`: `blockStart`/`blockEnd`/`nextArgIndex`,
checked `format[i]` and `args[i]`) computes exactly what the list-traversal model `fprintf` computes. -/
namespace Firefly.Kfmt
open Firefly.Gen.C15

theorem getB_lt (l : List Byte) (i : Nat) (h : i < l.length) : getB l i = .ok l[i] := by
  simp [getB, h]

theorem drop_cons (l : List Byte) (i : Nat) (h : i < l.length) : l.drop i = l[i] :: l.drop (i + 1) :=
  List.drop_eq_getElem_cons h

/-- the literal block `format[lo:lo+n]`, one chunk per byte -/
def lits (fmt : List Byte) (lo n : Nat) : List (List Byte) := ((fmt.drop lo).take n).map fun c => [c]

theorem litLoop_spec (fmt : List Byte) : ∀ (n i : Nat), i + n ≤ fmt.length →
    litLoop fmt n i = .ok (lits fmt i n)
  | 0, i, _ => by simp [litLoop, lits]
  | n+1, i, h => by
    have hi : i < fmt.length := by omega
    rw [litLoop, getB_lt _ _ hi]
    simp only []
    rw [litLoop_spec fmt n (i+1) (by omega)]
    show Res.ok ([fmt[i]] :: lits fmt (i+1) n) = _
    simp only [lits]
    rw [drop_cons fmt i hi, List.take_succ_cons, List.map_cons]

theorem lits_succ (fmt : List Byte) (lo n : Nat) (h : lo + n < fmt.length) :
    lits fmt lo (n + 1) = lits fmt lo n ++ [[fmt[lo + n]]] := by
  unfold lits
  rw [List.take_add_one]
  simp [List.getElem?_drop, h]

/-- what remains to be done after the `parseFmt` loop: continue in text mode behind `blockEnd` -/
def afterVerb (fmt : List Byte) (args : List Arg)
    (r : Nat × Nat × List Byte × List (List Byte)) : Res (List (List Byte)) :=
  (scan none (fmt.drop (r.1 + 1)) (args.drop r.2.1) r.2.2.1).bind fun rest => .ok (r.2.2.2 ++ rest)

theorem map_const_drop (args : List Arg) (na : Nat) (e : List Byte) :
    (args.drop na).map (fun _ => e) = List.replicate (args.length - na) e := by
  rw [List.map_const']
  simp

theorem verbLoop_spec (fmt : List Byte) (args : List Arg) :
    ∀ (fuel be : Nat) (pad : Int) (na : Nat) (buf : List Byte),
    be ≤ fmt.length → fmt.length + 1 ≤ fuel + be →
    scan (some pad) (fmt.drop be) (args.drop na) buf
      = (verbLoop fmt args fuel be pad na buf).bind (afterVerb fmt args)
  | 0, be, pad, na, buf, h1, h2 => by omega
  | fuel+1, be, pad, na, buf, h1, h2 => by
    by_cases hlt : be < fmt.length
    · rw [verbLoop, if_pos hlt, getB_lt _ _ hlt, drop_cons fmt be hlt]
      simp only [scan]
      by_cases h37 : fmt[be] = 37
      · simp [h37, Res.bind, afterVerb]
      · simp only [h37, if_false]
        by_cases hd : 48 ≤ fmt[be] ∧ fmt[be] ≤ 57
        · simp only [hd, and_self, if_true]
          exact verbLoop_spec fmt args fuel (be+1) _ na buf (by omega) (by omega)
        · simp only [hd, if_false]
          by_cases hv : isVerb fmt[be] = true
          · simp only [hv, if_true]
            by_cases hna : na ≥ args.length
            · have : args.drop na = [] := List.drop_eq_nil_of_le hna
              simp [this, hna, Res.bind, afterVerb]
            · have hna' : na < args.length := by omega
              rw [if_neg hna, List.drop_eq_getElem_cons hna']
              simp only [List.getElem?_eq_getElem hna']
              cases hf : fmtVerb buf fmt[be] args[na] pad with
              | panic => simp [Res.bind]
              | ok r =>
                obtain ⟨buf', out⟩ := r
                simp [Res.bind, afterVerb]
          · simp only [hv, Bool.false_eq_true, if_false]
            rw [verbLoop_spec fmt args fuel (be+1) pad na buf (by omega) (by omega)]
            cases verbLoop fmt args fuel (be + 1) pad na buf with
            | panic => simp [Res.bind]
            | ok r =>
              obtain ⟨be', na', buf', ws⟩ := r
              simp only [Res.bind, afterVerb]
              cases scan none (fmt.drop (be' + 1)) (args.drop na') buf' <;> simp
    · have hbe : be = fmt.length := by omega
      rw [verbLoop, if_neg hlt]
      subst hbe
      have e1 : fmt.drop (fmt.length + 1) = [] := List.drop_eq_nil_of_le (by omega)
      simp [scan, Res.bind, afterVerb, e1]

/-- the `parseFmt` loop stops inside the format, behind where it started -/
theorem verbLoop_bounds (fmt : List Byte) (args : List Arg) :
    ∀ (fuel be : Nat) (pad : Int) (na : Nat) (buf : List Byte) (r),
    be ≤ fmt.length → verbLoop fmt args fuel be pad na buf = .ok r → be ≤ r.1 ∧ r.1 ≤ fmt.length
  | 0, be, pad, na, buf, r, h1, h => by
    simp only [verbLoop, Res.ok.injEq] at h
    subst h; simp; omega
  | fuel+1, be, pad, na, buf, r, h1, h => by
    by_cases hlt : be < fmt.length
    · rw [verbLoop, if_pos hlt, getB_lt _ _ hlt] at h
      simp only [] at h
      split at h
      · simp only [Res.ok.injEq] at h; subst h; simp; omega
      split at h
      · have := verbLoop_bounds fmt args fuel (be+1) _ na buf r (by omega) h
        omega
      split at h
      · split at h
        · simp only [Res.ok.injEq] at h; subst h; simp; omega
        · split at h
          · cases h
          · split at h
            · cases h
            · simp only [Res.ok.injEq] at h; subst h; simp; omega
      · split at h
        · cases h
        · rename_i be' na' buf' ws hrec
          simp only [Res.ok.injEq] at h; subst h
          have := verbLoop_bounds fmt args fuel (be+1) pad na buf _ (by omega) hrec
          simp at this ⊢
          omega
    · rw [verbLoop, if_neg hlt] at h
      simp only [Res.ok.injEq] at h; subst h; simp; omega

theorem mainLoop_spec (fmt : List Byte) (args : List Arg) :
    ∀ (fuel bs be na : Nat) (buf : List Byte),
    bs ≤ be → be ≤ fmt.length + 1 → (be = fmt.length + 1 → bs = be) → fmt.length + 2 ≤ fuel + be →
    mainLoop fmt args fuel bs be na buf
      = (scan none (fmt.drop be) (args.drop na) buf).bind fun rest => .ok (lits fmt bs (be - bs) ++ rest)
  | 0, bs, be, na, buf, h1, h2, h3, h4 => by omega
  | fuel+1, bs, be, na, buf, h1, h2, h3, h4 => by
    by_cases hlt : be < fmt.length
    · rw [mainLoop, if_pos hlt, getB_lt _ _ hlt, drop_cons fmt be hlt]
      simp only [scan]
      by_cases h37 : fmt[be] = 37
      · simp only [h37, ne_eq, not_true_eq_false, if_false, if_true]
        rw [litLoop_spec fmt (be - bs) bs (by omega)]
        simp only []
        rw [verbLoop_spec fmt args (fmt.length + 1) (be+1) 0 na buf (by omega) (by omega)]
        cases hv : verbLoop fmt args (fmt.length + 1) (be + 1) 0 na buf with
        | panic => simp [Res.bind]
        | ok r =>
          obtain ⟨be', na', buf', ws⟩ := r
          have hb := verbLoop_bounds fmt args _ _ _ _ _ _ (by omega) hv
          simp only at hb
          simp only []
          rw [mainLoop_spec fmt args fuel (be'+1) (be'+1) na' buf' (by omega) (by omega) (fun _ => rfl) (by omega)]
          simp only [Res.bind, afterVerb, Nat.sub_self]
          cases scan none (fmt.drop (be' + 1)) (args.drop na') buf' <;> simp [lits]
      · simp only [h37, ne_eq, not_false_eq_true, if_true, if_false]
        rw [mainLoop_spec fmt args fuel bs (be+1) na buf (by omega) (by omega) (by omega) (by omega)]
        have e : be + 1 - bs = (be - bs) + 1 := by omega
        have hl := lits_succ fmt bs (be - bs) (by omega)
        have e2 : bs + (be - bs) = be := by omega
        simp only [e2] at hl
        rw [e, hl]
        cases scan none (fmt.drop (be + 1)) (args.drop na) buf <;> simp [Res.bind]
    · rw [mainLoop, if_neg hlt, List.drop_eq_nil_of_le (by omega)]
      simp only [scan, Res.bind, map_const_drop]
      by_cases hb : bs = be
      · subst hb
        simp [lits]
      · have : be = fmt.length := by
          by_cases hh : be = fmt.length + 1
          · exact absurd (h3 hh) hb
          · omega
        rw [if_pos hb, litLoop_spec fmt (be - bs) bs (by omega)]

/-- **the index-level model refines (equals) the list-traversal model** -/
theorem fprintfIdx_eq (buf fmt : List Byte) (args : List Arg) :
    fprintfIdx buf fmt args = fprintf buf fmt args := by
  unfold fprintfIdx fprintf
  rw [mainLoop_spec fmt args _ 0 0 0 buf (by omega) (by omega) (by omega) (by omega)]
  simp only [List.drop_zero]
  generalize scan none fmt args buf = r
  cases r <;> simp [Res.bind, lits]

end Firefly.Kfmt
