import Firefly.Proof.AmlRows
/-!
Shared base of the total-correctness / panic-freedom proofs about the AML object parser: relational
specifications of the lexical actions (`LexRel`, `rel_*`), the run lemmas of the parser-monad primitives
(`bind_ex`, `lex_ex`, `updObj_ex`, …), the payload-only relation `PayOnly`, the fuel needs `needT … needNext`, and
the split of `ParseAML` into `firstPass >>= afterFirstPass`.  The first-pass theorems themselves are in
`Proof/AmlFirstPassG.lean` (any well-formed pool); the fresh-pool development that used to live here is subsumed
by it.
-/
namespace Firefly.AmlParser
open Firefly.AmlLex Firefly.AmlTree Firefly.C13
open Firefly.Gen.C12

/-! ## relational specifications of the lexical actions -/

/-- result and final reader of a lexical action from a reader inside the table -/
def LexRel {α : Type} (d : Bytes) (x : LexM α) (R : Reader → α → Reader → Prop) : Prop :=
  ∀ r, Inv d r → ∃ a r', x r = .ok (a, r') ∧ Inv d r' ∧ R r a r'

theorem LexRel.of_wp {α : Type} {d : Bytes} {x : LexM α} {R : Reader → α → Reader → Prop}
    (h : ∀ r, Inv d r → wp x (fun a r' => Inv d r' ∧ R r a r') r) : LexRel d x R := by
  intro r hr
  obtain ⟨a, r', e, hi, hR⟩ := h r hr
  exact ⟨a, r', e, hi, hR⟩

theorem rel_offset (d : Bytes) : LexRel d offset (fun r a r' => a = r.offset ∧ r' = r) :=
  fun r hr => ⟨_, _, rfl, hr, rfl, rfl⟩
theorem rel_eof (d : Bytes) : LexRel d eof (fun r a r' => a = r.eof ∧ r' = r) :=
  fun r hr => ⟨_, _, rfl, hr, rfl, rfl⟩

theorem rel_readByte (d : Bytes) : LexRel d (readByte d) (fun r a r' =>
    (a = none ∧ r' = r ∧ r.pkgEnd ≤ r.offset) ∨
    (∃ b, a = some b ∧ r' = { r with offset := r.offset + 1 } ∧ r.offset < r.pkgEnd)) := by
  apply LexRel.of_wp
  intro r hr
  apply wp_readByte hr
  · intro h; exact ⟨hr, Or.inl ⟨rfl, rfl, h⟩⟩
  · intro b hlt _
    exact ⟨⟨by show r.offset + 1 ≤ d.size; have := hr.2; omega, hr.2⟩, Or.inr ⟨b, rfl, rfl, hlt⟩⟩

theorem rel_unreadByte (d : Bytes) : LexRel d unreadByte (fun r _ r' =>
    r'.pkgEnd = r.pkgEnd ∧ r'.offset = r.offset - 1) := by
  intro r hr
  unfold unreadByte
  split
  · rename_i h0; exact ⟨_, _, rfl, hr, rfl, by omega⟩
  · exact ⟨_, _, rfl, ⟨by show r.offset - 1 ≤ d.size; have := hr.1; omega, hr.2⟩, rfl, rfl⟩

theorem rel_setOffset (d : Bytes) (off : Nat) : LexRel d (setOffset d off) (fun r _ r' =>
    r'.pkgEnd = r.pkgEnd ∧ r'.offset = (if off > d.size then d.size else off)) := by
  intro r hr
  refine ⟨_, _, rfl, ⟨?_, hr.2⟩, rfl, rfl⟩
  show (if off > d.size then d.size else off) ≤ d.size
  split <;> omega

theorem rel_setPkgEnd (d : Bytes) (e : Nat) : LexRel d (setPkgEnd d e) (fun r a r' =>
    r'.offset = r.offset ∧ ((a = true ∧ r'.pkgEnd = e ∧ e ≤ d.size) ∨ (a = false ∧ r' = r ∧ e > d.size))) := by
  intro r hr
  unfold setPkgEnd
  split
  · rename_i h; exact ⟨_, _, rfl, hr, rfl, Or.inr ⟨rfl, rfl, h⟩⟩
  · rename_i h; exact ⟨_, _, rfl, ⟨hr.1, by simp at h; exact h⟩, rfl, Or.inl ⟨rfl, rfl, by simp at h; exact h⟩⟩

/-- what `parsePkgLength` does to the reader: nothing on failure, 1–4 bytes forward on success -/
def PkgRel (r : Reader) (a : Nat × PRes) (r' : Reader) : Prop :=
  (a.2 = .failed ∧ r' = r) ∨
  (a.2 = .ok ∧ r'.pkgEnd = r.pkgEnd ∧ r.offset < r'.offset ∧ r'.offset ≤ r.offset + 4 ∧ r'.offset ≤ r.pkgEnd)

theorem pkgFail (d : Bytes) (r0 r1 : Reader) (h0 : Inv d r0) (hp : r1.pkgEnd = r0.pkgEnd) :
    wp (do setOffset d r0.offset; pure (0, PRes.failed) : LexM (Nat × PRes))
      (fun a r' => Inv d r' ∧ PkgRel r0 a r') r1 := by
  apply wp_bind
  apply wp_setOffset
  have : (if r0.offset > d.size then d.size else r0.offset) = r0.offset := by
    have := h0.1; split <;> omega
  rw [this]
  have hr : ({ r1 with offset := r0.offset } : Reader) = r0 := by
    cases r0; cases r1; simp at hp ⊢; exact hp
  rw [hr]
  exact wp_pure ⟨h0, Or.inl ⟨rfl, rfl⟩⟩

theorem rel_parsePkgLength (d : Bytes) : LexRel d (parsePkgLength d) PkgRel := by
  apply LexRel.of_wp
  intro r hr
  have h1 := hr.1
  have h2 := hr.2
  unfold parsePkgLength
  apply wp_bind; apply wp_offset
  apply wp_bind
  apply wp_readByte hr
  · intro _; exact pkgFail d r r hr rfl
  · intro lead hlt _
    have i1 : Inv d { r with offset := r.offset + 1 } := ⟨by show r.offset + 1 ≤ d.size; omega, h2⟩
    dsimp only
    split
    · exact wp_pure ⟨i1, Or.inr ⟨rfl, rfl, by show r.offset < r.offset + 1; omega, by show r.offset + 1 ≤ r.offset + 4; omega, by show r.offset + 1 ≤ r.pkgEnd; omega⟩⟩
    · apply wp_bind
      apply wp_readByte i1
      · intro _; exact pkgFail d r _ hr rfl
      · intro b1 hlt1 _
        have hlt1' : r.offset + 1 < r.pkgEnd := hlt1
        exact wp_pure ⟨⟨by show r.offset + 1 + 1 ≤ d.size; omega, h2⟩, Or.inr ⟨rfl, rfl, by show r.offset < r.offset + 1 + 1; omega, by show r.offset + 1 + 1 ≤ r.offset + 4; omega, by show r.offset + 1 + 1 ≤ r.pkgEnd; omega⟩⟩
    · apply wp_bind
      apply wp_readByte i1
      · intro _; exact pkgFail d r _ hr rfl
      · intro b1 hlt1 _
        have hlt1' : r.offset + 1 < r.pkgEnd := hlt1
        have i2 : Inv d { offset := r.offset + 1 + 1, pkgEnd := r.pkgEnd } := ⟨by show r.offset + 1 + 1 ≤ d.size; omega, h2⟩
        apply wp_bind
        apply wp_readByte i2
        · intro _; exact pkgFail d r _ hr rfl
        · intro b2 hlt2 _
          have hlt2' : r.offset + 1 + 1 < r.pkgEnd := hlt2
          exact wp_pure ⟨⟨by show r.offset + 1 + 1 + 1 ≤ d.size; omega, h2⟩, Or.inr ⟨rfl, rfl, by show r.offset < r.offset + 1 + 1 + 1; omega, by show r.offset + 1 + 1 + 1 ≤ r.offset + 4; omega, by show r.offset + 1 + 1 + 1 ≤ r.pkgEnd; omega⟩⟩
    · apply wp_bind
      apply wp_readByte i1
      · intro _; exact pkgFail d r _ hr rfl
      · intro b1 hlt1 _
        have hlt1' : r.offset + 1 < r.pkgEnd := hlt1
        have i2 : Inv d { offset := r.offset + 1 + 1, pkgEnd := r.pkgEnd } := ⟨by show r.offset + 1 + 1 ≤ d.size; omega, h2⟩
        apply wp_bind
        apply wp_readByte i2
        · intro _; exact pkgFail d r _ hr rfl
        · intro b2 hlt2 _
          have hlt2' : r.offset + 1 + 1 < r.pkgEnd := hlt2
          have i3 : Inv d { offset := r.offset + 1 + 1 + 1, pkgEnd := r.pkgEnd } := ⟨by show r.offset + 1 + 1 + 1 ≤ d.size; omega, h2⟩
          apply wp_bind
          apply wp_readByte i3
          · intro _; exact pkgFail d r _ hr rfl
          · intro b3 hlt3 _
            have hlt3' : r.offset + 1 + 1 + 1 < r.pkgEnd := hlt3
            exact wp_pure ⟨⟨by show r.offset + 1 + 1 + 1 + 1 ≤ d.size; omega, h2⟩, Or.inr ⟨rfl, rfl, by show r.offset < r.offset + 1 + 1 + 1 + 1; omega, by show r.offset + 1 + 1 + 1 + 1 ≤ r.offset + 4; omega, by show r.offset + 1 + 1 + 1 + 1 ≤ r.pkgEnd; omega⟩⟩

def NumRel (n : Nat) (r : Reader) (a : Nat × PRes) (r' : Reader) : Prop :=
  r'.pkgEnd = r.pkgEnd ∧ r.offset ≤ r'.offset ∧ r'.offset ≤ r.offset + n ∧
  ((a.2 = .ok ∧ r'.offset = r.offset + n) ∨ a.2 = .failed)

theorem rel_parseNumLoop (d : Bytes) (n c acc : Nat) (r : Reader) (hr : Inv d r) :
    wp (parseNumLoop d n c acc) (fun a r' => Inv d r' ∧ NumRel n r a r') r := by
  induction n generalizing c acc r with
  | zero => unfold parseNumLoop; exact wp_pure ⟨hr, rfl, Nat.le_refl _, Nat.le_refl _, Or.inl ⟨rfl, rfl⟩⟩
  | succ n ih =>
    unfold parseNumLoop
    apply wp_bind
    apply wp_readByte hr
    · intro _; exact wp_pure ⟨hr, rfl, Nat.le_refl _, by omega, Or.inr rfl⟩
    · intro b hlt _
      have i1 : Inv d { r with offset := r.offset + 1 } := ⟨by show r.offset + 1 ≤ d.size; have := hr.2; omega, hr.2⟩
      refine wp_mono (ih (c + 1) _ _ i1) ?_
      intro a r' ⟨hi, hp, h1, h2, h3⟩
      refine ⟨hi, hp, ?_, ?_, ?_⟩
      · have : r.offset + 1 ≤ r'.offset := h1; omega
      · have : r'.offset ≤ r.offset + 1 + n := h2; omega
      · rcases h3 with ⟨ho, he⟩ | hf
        · left; refine ⟨ho, ?_⟩; have : r'.offset = r.offset + 1 + n := he; omega
        · right; exact hf

theorem rel_parseNumConstant (d : Bytes) (n : Nat) : LexRel d (parseNumConstant d n) (NumRel n) :=
  LexRel.of_wp fun r hr => rel_parseNumLoop d n 0 0 r hr

def StrRel (d : Bytes) (r : Reader) (a : Slice × PRes) (r' : Reader) : Prop :=
  r'.pkgEnd = r.pkgEnd ∧ r.offset ≤ r'.offset ∧ SliceIn d a.1 ∧
  ((a.2 = .ok ∧ r.offset < r'.offset) ∨ a.2 = .failed)

theorem rel_parseStringLoop (d : Bytes) (f len : Nat) (r : Reader) (hr : Inv d r) :
    wp (parseStringLoop d f len) (fun a r' => Inv d r' ∧ r'.pkgEnd = r.pkgEnd ∧ r.offset + a.1 ≤ r'.offset + len ∧
      ((a.2 = .ok ∧ r.offset < r'.offset) ∨ a.2 = .failed)) r := by
  induction f generalizing len r with
  | zero => unfold parseStringLoop; exact wp_pure ⟨hr, rfl, by simp, Or.inr rfl⟩
  | succ f ih =>
    unfold parseStringLoop
    apply wp_bind
    apply wp_readByte hr
    · intro _; exact wp_pure ⟨hr, rfl, by simp, Or.inr rfl⟩
    · intro b hlt _
      have i1 : Inv d { r with offset := r.offset + 1 } := ⟨by show r.offset + 1 ≤ d.size; have := hr.2; omega, hr.2⟩
      dsimp only
      split
      · exact wp_pure ⟨i1, rfl, by show r.offset + len ≤ r.offset + 1 + len; omega, Or.inl ⟨rfl, by show r.offset < r.offset + 1; omega⟩⟩
      · split
        · refine wp_mono (ih (len + 1) _ i1) ?_
          intro a r' ⟨hi, hp, h1, h2⟩
          refine ⟨hi, hp, ?_, ?_⟩
          · have : r.offset + 1 + a.1 ≤ r'.offset + (len + 1) := h1; omega
          · rcases h2 with ⟨ho, hl⟩ | hf
            · left; refine ⟨ho, ?_⟩; have : r.offset + 1 < r'.offset := hl; omega
            · right; exact hf
        · exact wp_pure ⟨i1, rfl, by show r.offset + len ≤ r.offset + 1 + len; omega, Or.inr rfl⟩

theorem rel_parseString (d : Bytes) : LexRel d (parseString d) (StrRel d) := by
  apply LexRel.of_wp
  intro r hr
  unfold parseString
  apply wp_bind
  apply wp_dataPtr hr
  · intro _
    apply wp_bind
    refine wp_mono (rel_parseStringLoop d _ 0 r hr) ?_
    intro a r' ⟨hi, hp, h1, h2⟩
    refine wp_pure ⟨hi, hp, ?_, (by intro o ho; simp at ho), h2⟩
    omega
  · intro _
    apply wp_bind
    refine wp_mono (rel_parseStringLoop d _ 0 r hr) ?_
    intro a r' ⟨hi, hp, h1, h2⟩
    refine wp_pure ⟨hi, hp, by omega, ?_, h2⟩
    intro off ho
    simp only [Option.some.injEq] at ho
    subst ho
    have := hi.1
    show r.offset + a.1 ≤ d.size
    omega

theorem pkgval (l b1 b2 b3 : Nat) (h1 : b1 < 256) (h2 : b2 < 256) (h3 : b3 < 256) :
    b3 <<< 20 ||| b2 <<< 12 ||| b1 <<< 4 ||| (l &&& 0xf) < 268435456 := by
  have e : (268435456 : Nat) = 2 ^ 28 := by decide
  rw [e]
  have hl : l &&& 0xf < 2 ^ 28 := Nat.lt_of_le_of_lt Nat.and_le_right (by decide)
  have s1 : b1 <<< 4 < 2 ^ 28 := by rw [Nat.shiftLeft_eq]; omega
  have s2 : b2 <<< 12 < 2 ^ 28 := by rw [Nat.shiftLeft_eq]; omega
  have s3 : b3 <<< 20 < 2 ^ 28 := by rw [Nat.shiftLeft_eq]; omega
  exact Nat.or_lt_two_pow (Nat.or_lt_two_pow (Nat.or_lt_two_pow s3 s2) s1) hl

theorem pkgFailV (d : Bytes) (o : Nat) (r1 : Reader) :
    wp (do setOffset d o; pure (0, PRes.failed) : LexM (Nat × PRes)) (fun a _ => a.1 < 268435456) r1 := by
  apply wp_bind; apply wp_setOffset; exact wp_pure (by decide)

/-- the decoded PkgLength is below 2^28 -/
theorem parsePkgLength_val (d : Bytes) (r : Reader) (hr : Inv d r) :
    wp (parsePkgLength d) (fun a _ => a.1 < 268435456) r := by
  have h2 := hr.2
  unfold parsePkgLength
  apply wp_bind; apply wp_offset
  apply wp_bind
  apply wp_readByte hr
  · intro _; exact pkgFailV d _ _
  · intro lead hlt _
    have i1 : Inv d { r with offset := r.offset + 1 } := ⟨by show r.offset + 1 ≤ d.size; omega, h2⟩
    have hl := lead.toNat_lt
    dsimp only
    split
    · exact wp_pure (by show lead.toNat < 268435456; omega)
    · apply wp_bind
      apply wp_readByte i1
      · intro _; exact pkgFailV d _ _
      · intro b1 hlt1 _
        have hlt1' : r.offset + 1 < r.pkgEnd := hlt1
        refine wp_pure ?_
        have := pkgval lead.toNat b1.toNat 0 0 b1.toNat_lt (by decide) (by decide)
        simpa using this
    · apply wp_bind
      apply wp_readByte i1
      · intro _; exact pkgFailV d _ _
      · intro b1 hlt1 _
        have hlt1' : r.offset + 1 < r.pkgEnd := hlt1
        have i2 : Inv d { offset := r.offset + 1 + 1, pkgEnd := r.pkgEnd } := ⟨by show r.offset + 1 + 1 ≤ d.size; omega, h2⟩
        apply wp_bind
        apply wp_readByte i2
        · intro _; exact pkgFailV d _ _
        · intro b2 hlt2 _
          refine wp_pure ?_
          have := pkgval lead.toNat b1.toNat b2.toNat 0 b1.toNat_lt b2.toNat_lt (by decide)
          simpa using this
    · apply wp_bind
      apply wp_readByte i1
      · intro _; exact pkgFailV d _ _
      · intro b1 hlt1 _
        have hlt1' : r.offset + 1 < r.pkgEnd := hlt1
        have i2 : Inv d { offset := r.offset + 1 + 1, pkgEnd := r.pkgEnd } := ⟨by show r.offset + 1 + 1 ≤ d.size; omega, h2⟩
        apply wp_bind
        apply wp_readByte i2
        · intro _; exact pkgFailV d _ _
        · intro b2 hlt2 _
          have hlt2' : r.offset + 1 + 1 < r.pkgEnd := hlt2
          have i3 : Inv d { offset := r.offset + 1 + 1 + 1, pkgEnd := r.pkgEnd } := ⟨by show r.offset + 1 + 1 + 1 ≤ d.size; omega, h2⟩
          apply wp_bind
          apply wp_readByte i3
          · intro _; exact pkgFailV d _ _
          · intro b3 _ _
            exact wp_pure (pkgval lead.toNat b1.toNat b2.toNat b3.toNat b1.toNat_lt b2.toNat_lt b3.toNat_lt)

/-- `PkgRel` together with the value bound -/
def PkgRelV (r : Reader) (a : Nat × PRes) (r' : Reader) : Prop := PkgRel r a r' ∧ a.1 < 268435456

theorem rel_parsePkgLengthV (d : Bytes) : LexRel d (parsePkgLength d) PkgRelV := by
  intro r hr
  obtain ⟨a, r', e, hi, hR⟩ := rel_parsePkgLength d r hr
  obtain ⟨a2, r2, e2, hv⟩ := parsePkgLength_val d r hr
  rw [e] at e2; cases e2
  exact ⟨a, r', e, hi, hR, hv⟩

/-! ### actions that leave `pkgEnd` alone -/

structure PKE {α : Type} (x : LexM α) : Prop where
  run : ∀ r a r', x r = .ok (a, r') → r'.pkgEnd = r.pkgEnd

theorem PKE.pure {α : Type} (a : α) : PKE (pure a : LexM α) := ⟨fun r a' r' e => by cases e; rfl⟩
theorem PKE.bind {α β : Type} {x : LexM α} {f : α → LexM β} (hx : PKE x) (hf : ∀ a, PKE (f a)) : PKE (x >>= f) := by
  constructor
  intro r b r' e
  have e' : (StateT.bind x f) r = .ok (b, r') := e
  simp only [StateT.bind] at e'
  cases hxe : x r with
  | error err => rw [hxe] at e'; cases e'
  | ok ar =>
    obtain ⟨a, r1⟩ := ar
    rw [hxe] at e'
    rw [(hf a).run r1 b r' e', hx.run r a r1 hxe]

theorem pke_readByte (d : Bytes) : PKE (readByte d) := by
  constructor; intro r a r' e; unfold readByte at e
  split at e
  · cases e; rfl
  · split at e
    · cases e; rfl
    · cases e
theorem pke_peekByte (d : Bytes) : PKE (peekByte d) := by
  constructor; intro r a r' e; unfold peekByte at e
  split at e
  · cases e; rfl
  · split at e
    · cases e; rfl
    · cases e
theorem pke_unreadByte : PKE unreadByte := by
  constructor; intro r a r' e; unfold unreadByte at e
  split at e <;> (cases e; rfl)
theorem pke_offset : PKE offset := ⟨fun r a r' e => by cases e; rfl⟩
theorem pke_pkgEnd : PKE pkgEnd := ⟨fun r a r' e => by cases e; rfl⟩
theorem pke_eof : PKE eof := ⟨fun r a r' e => by cases e; rfl⟩
theorem pke_dataPtr (d : Bytes) : PKE (dataPtr d) := by
  constructor; intro r a r' e; unfold dataPtr at e
  split at e
  · cases e; rfl
  · split at e
    · cases e; rfl
    · cases e
theorem pke_setOffset (d : Bytes) (o : Nat) : PKE (setOffset d o) := ⟨fun r a r' e => by cases e; rfl⟩

macro "pke_step" : tactic => `(tactic| first
  | exact PKE.pure _
  | exact pke_readByte _ | exact pke_peekByte _ | exact pke_unreadByte | exact pke_offset | exact pke_pkgEnd
  | exact pke_eof | exact pke_dataPtr _ | exact pke_setOffset _ _
  | assumption
  | apply PKE.bind
  | intro _
  | split
  | dsimp only)
macro "pke_tac" : tactic => `(tactic| repeat' pke_step)

theorem pke_skipNamePrefix (d : Bytes) (f : Nat) : PKE (skipNamePrefix d f) := by
  induction f with
  | zero => unfold skipNamePrefix; pke_tac
  | succ f ih => unfold skipNamePrefix; pke_tac
theorem pke_parseNamePath (d : Bytes) (n s : Nat) : PKE (parseNamePath d n s) := by
  unfold parseNamePath; pke_tac
theorem pke_parseNameString (d : Bytes) : PKE (parseNameString d) := by
  unfold parseNameString
  have h1 := pke_skipNamePrefix d (d.size + 1)
  have h2 := pke_parseNamePath d
  pke_tac
  all_goals first | exact h2 _ _ | skip
theorem pke_checkOpcode (d : Bytes) (o n : Nat) : PKE (checkOpcode d o n) := by
  unfold checkOpcode; pke_tac
theorem pke_nextOpcode (d : Bytes) : PKE (nextOpcode d) := by
  unfold nextOpcode
  have := pke_checkOpcode d
  pke_tac
  all_goals first | exact this _ _ | skip

def NameRel (d : Bytes) (r : Reader) (a : Slice × PRes) (r' : Reader) : Prop :=
  r'.pkgEnd = r.pkgEnd ∧ r.offset ≤ r'.offset ∧ SliceIn d a.1 ∧
  ((a.2 = .ok ∧ r.offset < r'.offset) ∨ a.2 = .failed)

theorem parseNameString_prog (d : Bytes) (hd : d.size + 1024 ≤ 4294967296) (r : Reader) (h : Inv d r) :
    wp (parseNameString d) (fun a r' => r.offset ≤ r'.offset ∧ ((a.2 = .ok ∧ r.offset < r'.offset) ∨ a.2 = .failed)) r := by
  unfold parseNameString
  apply wp_bind
  have body : ∀ data : Option Nat,
      wp (do
        let startOffset ← offset
        if (← skipNamePrefix d (d.size + 1)) then
          let next := ((← readByte d).getD 0).toNat
          match ← parseNamePath d next startOffset with
          | none => return ({}, PRes.failed)
          | some startOffset =>
            return ({ data := data, len := u32 ((← offset) + 4294967296 - startOffset) }, PRes.ok)
        else return ({}, PRes.failed) : LexM (Slice × PRes))
      (fun a r' => r.offset ≤ r'.offset ∧ ((a.2 = .ok ∧ r.offset < r'.offset) ∨ a.2 = .failed)) r := by
    intro data
    apply wp_bind; apply wp_offset
    apply wp_bind
    refine wp_mono (skipNamePrefix_spec d _ r h) ?_
    intro b r1 ⟨hi1, hle1, hpe1, hb1⟩
    split
    · rename_i hbt
      have hlt1 := hb1 hbt
      apply wp_bind
      apply wp_readByte hi1
      · intro hc; omega
      · intro b1 _ _
        have hi2 : Inv d { r1 with offset := r1.offset + 1 } := ⟨by show r1.offset + 1 ≤ d.size; have := hi1.2; omega, hi1.2⟩
        apply wp_bind
        refine wp_mono (parseNamePath_spec d hd _ r.offset _ hi2) ?_
        intro a r3 ⟨hi3, hle3, hst⟩
        have hle3' : r1.offset + 1 ≤ r3.offset := hle3
        split
        · exact wp_pure ⟨by omega, Or.inr rfl⟩
        · apply wp_bind; apply wp_offset
          exact wp_pure ⟨by omega, Or.inl ⟨rfl, by omega⟩⟩
    · exact wp_pure ⟨hle1, Or.inr rfl⟩
  apply wp_dataPtr h
  · intro _; exact body none
  · intro _; exact body (some r.offset)

theorem rel_parseNameString (d : Bytes) (hd : d.size + 1024 ≤ 4294967296) : LexRel d (parseNameString d) (NameRel d) := by
  intro r hr
  obtain ⟨a, r', e, hi, hsl, _⟩ := parseNameString_slice d hd r hr
  obtain ⟨a2, r2, e2, hle, hres⟩ := parseNameString_prog d hd r hr
  rw [e] at e2; cases e2
  exact ⟨a, r', e, hi, (pke_parseNameString d).run r a r' e, hle, hsl, hres⟩

def OpRel (r : Reader) (a : Nat × PRes) (r' : Reader) : Prop :=
  (a.2 = .failed ∧ a.1 = 0xffff ∧ r' = r) ∨
  (a.2 = .ok ∧ pOpcodeTableIndex a.1 false ≠ badOpcode ∧ a.1 ≤ 0x1fe ∧ r'.pkgEnd = r.pkgEnd ∧
    r.offset < r'.offset ∧ r'.offset ≤ r.offset + 2)

theorem rel_checkOpcode (d : Bytes) (hd : d.size + 1024 ≤ 4294967296) (op n : Nat) (hop : op ≤ 0x1fe) (r0 r : Reader)
    (hr0 : Inv d r0) (hr : Inv d r) (hp : r.pkgEnd = r0.pkgEnd) (ho : r.offset = r0.offset + n) (hn : 1 ≤ n ∧ n ≤ 2) :
    wp (checkOpcode d op n) (fun a r' => Inv d r' ∧ OpRel r0 a r') r := by
  unfold checkOpcode
  split
  · apply wp_bind; apply wp_offset
    apply wp_bind; apply wp_setOffset
    have h1 := hr0.1
    have hu : u32 (r.offset + 4294967296 - n) = r0.offset := by unfold u32; omega
    rw [hu]
    have : (if r0.offset > d.size then d.size else r0.offset) = r0.offset := by split <;> omega
    rw [this]
    have hrr : ({ r with offset := r0.offset } : Reader) = r0 := by
      cases r0; cases r; simp at hp ⊢; exact hp
    rw [hrr]
    exact wp_pure ⟨hr0, Or.inl ⟨rfl, rfl, rfl⟩⟩
  · rename_i hne
    exact wp_pure ⟨hr, Or.inr ⟨rfl, hne, hop, hp, by omega, by omega⟩⟩

theorem rel_nextOpcode (d : Bytes) (hd : d.size + 1024 ≤ 4294967296) : LexRel d (nextOpcode d) OpRel := by
  apply LexRel.of_wp
  intro r hr
  have h2 := hr.2
  unfold nextOpcode
  apply wp_bind
  apply wp_readByte hr
  · intro _; exact wp_pure ⟨hr, Or.inl ⟨rfl, rfl, rfl⟩⟩
  · intro b hlt _
    have i1 : Inv d { r with offset := r.offset + 1 } := ⟨by show r.offset + 1 ≤ d.size; omega, h2⟩
    dsimp only
    split
    · apply wp_bind
      apply wp_readByte i1
      · intro _
        apply wp_bind
        apply wp_unreadByte
        · intro h0; exact absurd h0 (by show r.offset + 1 ≠ 0; omega)
        · intro _
          have hrr : ({ offset := r.offset + 1 - 1, pkgEnd := r.pkgEnd } : Reader) = r := by cases r; simp
          show wp (pure _) _ ({ offset := r.offset + 1 - 1, pkgEnd := r.pkgEnd } : Reader)
          rw [hrr]
          exact wp_pure ⟨hr, Or.inl ⟨rfl, rfl, rfl⟩⟩
      · intro b2 hlt2 _
        have hlt2' : r.offset + 1 < r.pkgEnd := hlt2
        have i2 : Inv d { offset := r.offset + 1 + 1, pkgEnd := r.pkgEnd } := ⟨by show r.offset + 1 + 1 ≤ d.size; omega, h2⟩
        exact rel_checkOpcode d hd _ 2 (by have := b2.toNat_lt; omega) r _ hr i2 rfl (by show r.offset + 1 + 1 = r.offset + 2; omega) (by omega)
    · exact rel_checkOpcode d hd _ 1 (by have := b.toNat_lt; omega) r _ hr i1 rfl rfl (by omega)

/-! ## generic run lemmas, relations and definitions shared by the developments that build on this file
(`Proof/AmlPasses.lean`, `Proof/AmlFirstPassG.lean`, `Proof/AmlMerge.lean`) -/

theorem bind_ex {α β : Type} {x : P α} {f : α → P β} {s s1 : PState} {a : α} {Q : β → PState → Prop}
    (e : x s = .ok (a, s1)) (h : ∃ b s2, f a s1 = .ok (b, s2) ∧ Q b s2) :
    ∃ b s2, (x >>= f) s = .ok (b, s2) ∧ Q b s2 := by
  obtain ⟨b, s2, e2, hq⟩ := h
  refine ⟨b, s2, ?_, hq⟩
  show (StateT.bind x f) s = _
  simp only [StateT.bind, e]
  exact e2

theorem pure_ex {α : Type} {a : α} {s : PState} {Q : α → PState → Prop} (h : Q a s) :
    ∃ b s2, (pure a : P α) s = .ok (b, s2) ∧ Q b s2 := ⟨a, s, rfl, h⟩

theorem lex_ex {α : Type} {d : Bytes} {x : LexM α} {R : Reader → α → Reader → Prop} (hx : LexRel d x R)
    {s : PState} (hs : Inv d s.r) :
    ∃ a r', lex x s = .ok (a, { s with r := r' }) ∧ Inv d r' ∧ R s.r a r' := by
  obtain ⟨a, r', e, hi, hR⟩ := hx s.r hs
  refine ⟨a, r', ?_, hi, hR⟩
  unfold lex
  simp only [e, bind, Except.bind, pure, Except.pure]

theorem updObj_ex {s : PState} {i : Nat} (f : Obj → Obj) (hi : i < s.tree.pool.size) :
    updObj i f s = .ok ((), { s with tree := setAt s.tree i f }) := by
  unfold updObj tree
  simp only [upd_eq f hi, bind, Except.bind, pure, Except.pure]

theorem getObj_ex {s : PState} {i : Nat} (hi : i < s.tree.pool.size) : getObj i s = .ok (slot s.tree i, s) := by
  unfold getObj
  simp only [obj_eq hi, bind, Except.bind, pure, Except.pure]

theorem tree_ex {s : PState} {f : ObjectTree → Res ObjectTree} {t' : ObjectTree} (e : f s.tree = .ok t') :
    tree f s = .ok ((), { s with tree := t' }) := by
  unfold tree
  simp only [e, bind, Except.bind, pure, Except.pure]

/-- the opcodes whose objects carry an invariant of their own (`Method`: flags argument, `Scope`: shape of the
directive): no payload step turns an object into one of them or out of one of them -/
def isK (op : Nat) : Bool := op == opMethod || op == opScope || op == opIntScopeBlock || op == opIntNamePathOrMethodCall

/-- a step that changes only the reader (forward, same `pkgEnd`) and the payload of slot `obj` -/
structure PayOnly (obj : Nat) (s s' : PState) : Prop where
  links : SameLinks s.tree s'.tree
  others : ∀ x, x ≠ obj → slot s'.tree x = slot s.tree x
  scope : s'.scopeStack = s.scopeStack
  pkg : s'.pkgEndStack = s.pkgEndStack
  same : s'.allBlocks = s.allBlocks ∧ s'.tableHandle = s.tableHandle ∧ s'.streamEnd = s.streamEnd
  pkgEnd : s'.r.pkgEnd = s.r.pkgEnd
  off : s.r.offset ≤ s'.r.offset
  /-- `obj` keeps its opcode, or goes from one opcode outside of `isK` to another -/
  opc : (slot s'.tree obj).opcode = (slot s.tree obj).opcode ∨
    (isK (slot s.tree obj).opcode = false ∧ isK (slot s'.tree obj).opcode = false)
  /-- a `Method` / `Scope` / scope block keeps its name and its table handle -/
  nmk : isK (slot s.tree obj).opcode = true → (slot s'.tree obj).name = (slot s.tree obj).name ∧
    (slot s'.tree obj).tableHandle = (slot s.tree obj).tableHandle
  /-- … and its table row -/
  vik : isK (slot s.tree obj).opcode = true → (slot s'.tree obj).infoIndex = (slot s.tree obj).infoIndex

theorem isK_method : isK opMethod = true := by decide
theorem isK_scope : isK opScope = true := by decide
theorem isK_block : isK opIntScopeBlock = true := by decide
theorem isK_call : isK opIntNamePathOrMethodCall = true := by decide

/-- `obj` neither becomes nor stops being a `Method` -/
theorem PayOnly.mth {obj : Nat} {s s' : PState} (h : PayOnly obj s s') :
    (slot s'.tree obj).opcode = opMethod ↔ (slot s.tree obj).opcode = opMethod := by
  rcases h.opc with e | ⟨e1, e2⟩
  · rw [e]
  · constructor
    · intro hq; rw [hq, isK_method] at e2; cases e2
    · intro hq; rw [hq, isK_method] at e1; cases e1

/-- `obj` neither becomes nor stops being a `Scope` -/
theorem PayOnly.scp {obj : Nat} {s s' : PState} (h : PayOnly obj s s') :
    (slot s'.tree obj).opcode = opScope ↔ (slot s.tree obj).opcode = opScope := by
  rcases h.opc with e | ⟨e1, e2⟩
  · rw [e]
  · constructor
    · intro hq; rw [hq, isK_scope] at e2; cases e2
    · intro hq; rw [hq, isK_scope] at e1; cases e1

theorem PayOnly.notK {obj : Nat} {s s' : PState} (h : PayOnly obj s s') (hk : isK (slot s.tree obj).opcode = false) :
    isK (slot s'.tree obj).opcode = false := by
  rcases h.opc with e | ⟨_, e2⟩
  · rw [e]; exact hk
  · exact e2

/-- a `Method` keeps its name -/
theorem PayOnly.nm {obj : Nat} {s s' : PState} (h : PayOnly obj s s') (ho : (slot s.tree obj).opcode = opMethod) :
    (slot s'.tree obj).name = (slot s.tree obj).name := (h.nmk (by rw [ho]; exact isK_method)).1

theorem SameLinks.refl (t : ObjectTree) : SameLinks t t :=
  ⟨rfl, rfl, fun _ => rfl, fun _ => rfl, fun _ => rfl, fun _ => rfl, fun _ => rfl, fun _ => rfl, fun _ => rfl⟩

theorem SameLinks.trans {a b c : ObjectTree} (h1 : SameLinks a b) (h2 : SameLinks b c) : SameLinks a c :=
  ⟨by rw [h2.size, h1.size], by rw [h2.head, h1.head], fun x => by rw [h2.p, h1.p], fun x => by rw [h2.pv, h1.pv],
   fun x => by rw [h2.nx, h1.nx], fun x => by rw [h2.fi, h1.fi], fun x => by rw [h2.la, h1.la],
   fun x => by rw [h2.live, h1.live], fun x => by rw [h2.index, h1.index]⟩

theorem PayOnly.refl (obj : Nat) (s : PState) : PayOnly obj s s :=
  ⟨SameLinks.refl _, fun _ _ => rfl, rfl, rfl, ⟨rfl, rfl, rfl⟩, rfl, Nat.le_refl _, Or.inl rfl, fun _ => ⟨rfl, rfl⟩, fun _ => rfl⟩

theorem PayOnly.trans {obj : Nat} {a b c : PState} (h1 : PayOnly obj a b) (h2 : PayOnly obj b c) : PayOnly obj a c :=
  ⟨h1.links.trans h2.links, fun x hx => by rw [h2.others x hx, h1.others x hx], by rw [h2.scope, h1.scope],
   by rw [h2.pkg, h1.pkg], ⟨by rw [h2.same.1, h1.same.1], by rw [h2.same.2.1, h1.same.2.1], by rw [h2.same.2.2, h1.same.2.2]⟩,
   by rw [h2.pkgEnd, h1.pkgEnd], Nat.le_trans h1.off h2.off, by
     rcases h1.opc with e1 | ⟨a1, b1⟩
     · rcases h2.opc with e2 | ⟨a2, b2⟩
       · exact Or.inl (by rw [e2, e1])
       · exact Or.inr ⟨by rw [← e1]; exact a2, b2⟩
     · exact Or.inr ⟨a1, h2.notK b1⟩,
   fun hm => by
     have hm1 : isK (slot b.tree obj).opcode = true := by
       rcases h1.opc with e1 | ⟨a1, _⟩
       · rw [e1]; exact hm
       · rw [a1] at hm; cases hm
     exact ⟨by rw [(h2.nmk hm1).1, (h1.nmk hm).1], by rw [(h2.nmk hm1).2, (h1.nmk hm).2]⟩,
   fun hm => by
     have hm1 : isK (slot b.tree obj).opcode = true := by
       rcases h1.opc with e1 | ⟨a1, _⟩
       · rw [e1]; exact hm
       · rw [a1] at hm; cases hm
     rw [h2.vik hm1, h1.vik hm]⟩

theorem PayOnly.ofR (obj : Nat) (s : PState) (r' : Reader) (hp : r'.pkgEnd = s.r.pkgEnd) (ho : s.r.offset ≤ r'.offset) :
    PayOnly obj s { s with r := r' } :=
  ⟨SameLinks.refl _, fun _ _ => rfl, rfl, rfl, ⟨rfl, rfl, rfl⟩, hp, ho, Or.inl rfl, fun _ => ⟨rfl, rfl⟩, fun _ => rfl⟩

theorem PayOnly.ofSetAt (obj : Nat) (s : PState) (f : Obj → Obj) (hf : KeepsLinks f) (hl : KeepsLive s.tree obj f)
    (hm : (f (slot s.tree obj)).opcode = (slot s.tree obj).opcode ∨
      (isK (slot s.tree obj).opcode = false ∧ isK (f (slot s.tree obj)).opcode = false))
    (hn : isK (slot s.tree obj).opcode = true → (f (slot s.tree obj)).name = (slot s.tree obj).name ∧
      (f (slot s.tree obj)).tableHandle = (slot s.tree obj).tableHandle)
    (hv : isK (slot s.tree obj).opcode = true → (f (slot s.tree obj)).infoIndex = (slot s.tree obj).infoIndex) :
    PayOnly obj s { s with tree := setAt s.tree obj f } := by
  refine ⟨sameLinks_setAt s.tree obj f hf hl, ?_, rfl, rfl, ⟨rfl, rfl, rfl⟩, rfl, Nat.le_refl _, ?_, ?_, ?_⟩
  · intro x hx
    show slot (setAt s.tree obj f) x = slot s.tree x
    rw [slot_setAt']
    split
    · rename_i hc; exact absurd hc.1.symm hx
    · rfl
  · show (slot (setAt s.tree obj f) obj).opcode = _ ∨ (_ ∧ isK (slot (setAt s.tree obj f) obj).opcode = false)
    rw [slot_setAt']
    split
    · exact hm
    · exact Or.inl rfl
  · intro ho
    show (slot (setAt s.tree obj f) obj).name = _ ∧ (slot (setAt s.tree obj f) obj).tableHandle = _
    rw [slot_setAt']
    split
    · exact hn ho
    · exact ⟨rfl, rfl⟩
  · intro ho
    show (slot (setAt s.tree obj f) obj).infoIndex = _
    rw [slot_setAt']
    split
    · exact hv ho
    · rfl

macro "keeps_links" : tactic => `(tactic| (intro o; exact ⟨rfl, rfl, rfl, rfl, rfl, rfl⟩))

/-- a reader-only step that keeps `pkgEnd` and moves forward is payload-only -/
theorem PayOnly.ofLex (obj : Nat) {s s1 : PState} (hs1 : s1 = { s with r := s1.r }) (hp : s1.r.pkgEnd = s.r.pkgEnd)
    (ho : s.r.offset ≤ s1.r.offset) : PayOnly obj s s1 := by
  rw [hs1]; exact PayOnly.ofR obj s _ hp ho

/-- progress of a decoder: success consumed at least one byte -/
def Prog (s s' : PState) (res : PRes) : Prop := (res = .ok ∧ s.r.offset < s'.r.offset) ∨ res = .failed

set_option maxRecDepth 20000 in
theorem info_const :
    InfoOK (pOpcodeTableIndex 0 true) ∧ InfoOK (pOpcodeTableIndex opBytePrefix true) ∧
    InfoOK (pOpcodeTableIndex opWordPrefix true) ∧ InfoOK (pOpcodeTableIndex opDwordPrefix true) ∧
    InfoOK (pOpcodeTableIndex opQwordPrefix true) ∧ InfoOK (pOpcodeTableIndex opStringPrefix true) ∧
    InfoOK (pOpcodeTableIndex opIntNamePath true) ∧ InfoOK (pOpcodeTableIndex opIntByteList true) ∧
    InfoOK (pOpcodeTableIndex opIntScopeBlock true) ∧ InfoOK (pOpcodeTableIndex opIntConnection true) ∧
    InfoOK (pOpcodeTableIndex opIntNamedField true) ∧ InfoOK (pOpcodeTableIndex opIntNamePathOrMethodCall true) ∧
    InfoOK (pOpcodeTableIndex opIntResolvedNamePath true) ∧ InfoOK (pOpcodeTableIndex opIntMethodCall true) := by
  unfold InfoOK; decide +kernel

def IsNum (argType : Nat) : Prop :=
  argType = argTypeByteData ∨ argType = argTypeWordData ∨ argType = argTypeDwordData ∨ argType = argTypeQwordData

theorem prog_of_num {s s' : PState} {res : PRes} {n : Nat} (hn : 1 ≤ n)
    (h : (res = .ok ∧ s'.r.offset = s.r.offset + n) ∨ res = .failed) : Prog s s' res := by
  rcases h with ⟨ho, he⟩ | hf
  · exact Or.inl ⟨ho, by omega⟩
  · exact Or.inr hf

theorem derefP_some_ex {s : PState} (i : Nat) : derefP (some i) s = .ok (i, s) := rfl

theorem rel_parseByteListRaw (d : Bytes) (n : Nat) : LexRel d (parseByteListRaw d n) (fun r _ r' =>
    r'.pkgEnd = r.pkgEnd ∧ r'.offset = (if u32 (r.offset + n) > d.size then d.size else u32 (r.offset + n))) := by
  apply LexRel.of_wp
  intro r hr
  unfold parseByteListRaw
  have hi : Inv d { r with offset := if u32 (r.offset + n) > d.size then d.size else u32 (r.offset + n) } := by
    refine ⟨?_, hr.2⟩
    show (if u32 (r.offset + n) > d.size then d.size else u32 (r.offset + n)) ≤ d.size
    split <;> omega
  apply wp_bind
  apply wp_dataPtr hr
  · intro _
    apply wp_bind; apply wp_offset
    apply wp_bind; apply wp_setOffset
    exact wp_pure ⟨hi, rfl, rfl⟩
  · intro _
    apply wp_bind; apply wp_offset
    apply wp_bind; apply wp_setOffset
    exact wp_pure ⟨hi, rfl, rfl⟩

theorem reader_ex (s : PState) : reader s = .ok (s.r, s) := rfl

theorem optP_ex {α : Type} (a : α) (s : PState) : optP (some a) s = .ok (a, s) := rfl

theorem allBlocks_ex (s : PState) : allBlocks s = .ok (s.allBlocks, s) := rfl

/-- fuel `parseTarget` needs with `r` bytes left in the table -/
def needT (r : Nat) : Nat := 13 * r + 2

def needArg (r : Nat) : Nat := needT r + 1

def needArgs (r j : Nat) : Nat := needArg r + (8 - j)

def needOA (r : Nat) : Nat := needArgs r 0 + 1

def needNext (r : Nat) : Nat := needOA r + 1

/-- scope pushes the rest of row `info` from argument `j` may make beyond its pkgEnd pushes -/
def G (info j : Nat) : Nat := if 1 ≤ j ∧ tlFrom info j = true then 1 else 0

/-- `curObj` hangs in the tree, or its row has no `FieldList` -/
def Att (s : PState) (info curObj : Nat) : Prop := C13.P s.tree curObj ≠ INV ∨ noFL info = true

theorem samePay_value {t t' : ObjectTree} (h : SamePay t t') (x : Nat) : (slot t' x).value = (slot t x).value :=
  congrArg (fun p => p.2.2.2.2.2.2.2) (h.pay x)

theorem needArgs_next {r r' j f : Nat} (h : needArgs r j ≤ f + 1) (hr : r' ≤ r) (hj : j < 8) : needArgs r' (j + 1) ≤ f := by
  unfold needArgs needArg needT at *; omega

theorem G_zero (info : Nat) : G info 0 = 0 := by
  unfold G; rw [if_neg (by omega)]

theorem needNext_mono {r r' : Nat} (h : r' ≤ r) : needNext r' ≤ needNext r := by
  unfold needNext needOA needArgs needArg needT; omega

/-- `p.init(…)`, `p.scopeEnter(0)` and `p.parseObjectList()`: what `ParseAML` does before the tree passes -/
def firstPass (d : Bytes) (fuel handle : Nat) : P PRes := do
  init d handle
  scopeEnter 0
  parseObjectList d fuel fuel

/-- what `ParseAML` does with the result of the first pass -/
def afterFirstPass (d : Bytes) (fuel : Nat) (r : PRes) : P Bool :=
  if r = .failed then pure false
  else do
    if (← connectNamedObjArgs d fuel 0) ≠ .ok then pure false
    else do
      modify fun s => { s with resolvePasses := 1 }
      if !(← resolveLoopPasses d fuel fuel) then pure false
      else if (← parseDeferredBlocks d fuel fuel 0) ≠ .ok then pure false
      else if (← resolveMethodCalls d fuel 0) ≠ .ok then pure false
      else if (← connectNonNamedObjArgs fuel 0) ≠ .ok then pure false
      else pure true

/-- `ParseAML` is the first pass followed by the rest -/
theorem parseAML_eq (d : Bytes) (fuel handle : Nat) :
    parseAML d fuel handle = firstPass d fuel handle >>= afterFirstPass d fuel := by
  unfold parseAML parseAMLBody firstPass afterFirstPass
  simp only [bind_assoc]

/-- a panic or exhausted fuel of the first pass is one of `ParseAML`, and a failed first pass makes `ParseAML`
return its error in the same state -/
theorem parseAML_of_firstPass (d : Bytes) (fuel handle : Nat) (s : PState) :
    (∀ e, firstPass d fuel handle s = .error e → parseAML d fuel handle s = .error e) ∧
    (∀ s', firstPass d fuel handle s = .ok (.failed, s') → parseAML d fuel handle s = .ok (false, s')) := by
  rw [parseAML_eq]
  constructor
  · intro e he
    show (StateT.bind _ _) s = _
    simp only [StateT.bind, he]
    rfl
  · intro s' he
    show (StateT.bind _ _) s = _
    simp only [StateT.bind, he]
    rfl

/-- `fuelFor` covers the fuel the first pass needs -/
theorem fuelFor_enough (d : Bytes) (t : ObjectTree) : 13 * d.size + 13 ≤ fuelFor d t := by
  unfold fuelFor; omega

end Firefly.AmlParser
