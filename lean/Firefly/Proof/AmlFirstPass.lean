import Firefly.Proof.AmlRows
/-!
Total correctness of the first pass (`parseObjectList` in `parseModeSkipAmbiguousBlocks`) of a table
parsed into a pool without freed slots: no `.panic`, no `.outOfFuel` with fuel linear in the table
length, and the pool stays well-formed (`Firefly.C13.WF`).
-/
namespace Firefly.AmlParser
open Firefly.AmlLex Firefly.AmlTree Firefly.C13
open Firefly.Gen.C12

/-! ## relational specifications of the lexical actions -/

/-- result and final reader of a lexical action from a reader inside the table -/
def LexRel {α : Type} (d : Bytes) (x : LexM α) (R : Reader → α → Reader → Prop) : Prop :=
  ∀ r, Inv d r → ∃ a r', x r = .ok (a, r') ∧ Inv d r' ∧ R r a r'

theorem LexRel.of_wp {α : Type} {d : Bytes} {x : LexM α} {R : Reader → α → Reader → Prop}
    (h : ∀ r, Inv d r → wp x (fun a r' => Inv d r' ∧ R r a r') r) : LexRel d x R := by
  intro r hr
  obtain ⟨a, r', e, hi, hR⟩ := h r hr
  exact ⟨a, r', e, hi, hR⟩

theorem rel_offset (d : Bytes) : LexRel d offset (fun r a r' => a = r.offset ∧ r' = r) :=
  fun r hr => ⟨_, _, rfl, hr, rfl, rfl⟩
theorem rel_eof (d : Bytes) : LexRel d eof (fun r a r' => a = r.eof ∧ r' = r) :=
  fun r hr => ⟨_, _, rfl, hr, rfl, rfl⟩

theorem rel_readByte (d : Bytes) : LexRel d (readByte d) (fun r a r' =>
    (a = none ∧ r' = r ∧ r.pkgEnd ≤ r.offset) ∨
    (∃ b, a = some b ∧ r' = { r with offset := r.offset + 1 } ∧ r.offset < r.pkgEnd)) := by
  apply LexRel.of_wp
  intro r hr
  apply wp_readByte hr
  · intro h; exact ⟨hr, Or.inl ⟨rfl, rfl, h⟩⟩
  · intro b hlt _
    exact ⟨⟨by show r.offset + 1 ≤ d.size; have := hr.2; omega, hr.2⟩, Or.inr ⟨b, rfl, rfl, hlt⟩⟩

theorem rel_unreadByte (d : Bytes) : LexRel d unreadByte (fun r _ r' =>
    r'.pkgEnd = r.pkgEnd ∧ r'.offset = r.offset - 1) := by
  intro r hr
  unfold unreadByte
  split
  · rename_i h0; exact ⟨_, _, rfl, hr, rfl, by omega⟩
  · exact ⟨_, _, rfl, ⟨by show r.offset - 1 ≤ d.size; have := hr.1; omega, hr.2⟩, rfl, rfl⟩

theorem rel_setOffset (d : Bytes) (off : Nat) : LexRel d (setOffset d off) (fun r _ r' =>
    r'.pkgEnd = r.pkgEnd ∧ r'.offset = (if off > d.size then d.size else off)) := by
  intro r hr
  refine ⟨_, _, rfl, ⟨?_, hr.2⟩, rfl, rfl⟩
  show (if off > d.size then d.size else off) ≤ d.size
  split <;> omega

theorem rel_setPkgEnd (d : Bytes) (e : Nat) : LexRel d (setPkgEnd d e) (fun r a r' =>
    r'.offset = r.offset ∧ ((a = true ∧ r'.pkgEnd = e ∧ e ≤ d.size) ∨ (a = false ∧ r' = r ∧ e > d.size))) := by
  intro r hr
  unfold setPkgEnd
  split
  · rename_i h; exact ⟨_, _, rfl, hr, rfl, Or.inr ⟨rfl, rfl, h⟩⟩
  · rename_i h; exact ⟨_, _, rfl, ⟨hr.1, by simp at h; exact h⟩, rfl, Or.inl ⟨rfl, rfl, by simp at h; exact h⟩⟩

/-- what `parsePkgLength` does to the reader: nothing on failure, 1–4 bytes forward on success -/
def PkgRel (r : Reader) (a : Nat × PRes) (r' : Reader) : Prop :=
  (a.2 = .failed ∧ r' = r) ∨
  (a.2 = .ok ∧ r'.pkgEnd = r.pkgEnd ∧ r.offset < r'.offset ∧ r'.offset ≤ r.offset + 4 ∧ r'.offset ≤ r.pkgEnd)

theorem pkgFail (d : Bytes) (r0 r1 : Reader) (h0 : Inv d r0) (hp : r1.pkgEnd = r0.pkgEnd) :
    wp (do setOffset d r0.offset; pure (0, PRes.failed) : LexM (Nat × PRes))
      (fun a r' => Inv d r' ∧ PkgRel r0 a r') r1 := by
  apply wp_bind
  apply wp_setOffset
  have : (if r0.offset > d.size then d.size else r0.offset) = r0.offset := by
    have := h0.1; split <;> omega
  rw [this]
  have hr : ({ r1 with offset := r0.offset } : Reader) = r0 := by
    cases r0; cases r1; simp at hp ⊢; exact hp
  rw [hr]
  exact wp_pure ⟨h0, Or.inl ⟨rfl, rfl⟩⟩

theorem rel_parsePkgLength (d : Bytes) : LexRel d (parsePkgLength d) PkgRel := by
  apply LexRel.of_wp
  intro r hr
  have h1 := hr.1
  have h2 := hr.2
  unfold parsePkgLength
  apply wp_bind; apply wp_offset
  apply wp_bind
  apply wp_readByte hr
  · intro _; exact pkgFail d r r hr rfl
  · intro lead hlt _
    have i1 : Inv d { r with offset := r.offset + 1 } := ⟨by show r.offset + 1 ≤ d.size; omega, h2⟩
    dsimp only
    split
    · exact wp_pure ⟨i1, Or.inr ⟨rfl, rfl, by show r.offset < r.offset + 1; omega, by show r.offset + 1 ≤ r.offset + 4; omega, by show r.offset + 1 ≤ r.pkgEnd; omega⟩⟩
    · apply wp_bind
      apply wp_readByte i1
      · intro _; exact pkgFail d r _ hr rfl
      · intro b1 hlt1 _
        have hlt1' : r.offset + 1 < r.pkgEnd := hlt1
        exact wp_pure ⟨⟨by show r.offset + 1 + 1 ≤ d.size; omega, h2⟩, Or.inr ⟨rfl, rfl, by show r.offset < r.offset + 1 + 1; omega, by show r.offset + 1 + 1 ≤ r.offset + 4; omega, by show r.offset + 1 + 1 ≤ r.pkgEnd; omega⟩⟩
    · apply wp_bind
      apply wp_readByte i1
      · intro _; exact pkgFail d r _ hr rfl
      · intro b1 hlt1 _
        have hlt1' : r.offset + 1 < r.pkgEnd := hlt1
        have i2 : Inv d { offset := r.offset + 1 + 1, pkgEnd := r.pkgEnd } := ⟨by show r.offset + 1 + 1 ≤ d.size; omega, h2⟩
        apply wp_bind
        apply wp_readByte i2
        · intro _; exact pkgFail d r _ hr rfl
        · intro b2 hlt2 _
          have hlt2' : r.offset + 1 + 1 < r.pkgEnd := hlt2
          exact wp_pure ⟨⟨by show r.offset + 1 + 1 + 1 ≤ d.size; omega, h2⟩, Or.inr ⟨rfl, rfl, by show r.offset < r.offset + 1 + 1 + 1; omega, by show r.offset + 1 + 1 + 1 ≤ r.offset + 4; omega, by show r.offset + 1 + 1 + 1 ≤ r.pkgEnd; omega⟩⟩
    · apply wp_bind
      apply wp_readByte i1
      · intro _; exact pkgFail d r _ hr rfl
      · intro b1 hlt1 _
        have hlt1' : r.offset + 1 < r.pkgEnd := hlt1
        have i2 : Inv d { offset := r.offset + 1 + 1, pkgEnd := r.pkgEnd } := ⟨by show r.offset + 1 + 1 ≤ d.size; omega, h2⟩
        apply wp_bind
        apply wp_readByte i2
        · intro _; exact pkgFail d r _ hr rfl
        · intro b2 hlt2 _
          have hlt2' : r.offset + 1 + 1 < r.pkgEnd := hlt2
          have i3 : Inv d { offset := r.offset + 1 + 1 + 1, pkgEnd := r.pkgEnd } := ⟨by show r.offset + 1 + 1 + 1 ≤ d.size; omega, h2⟩
          apply wp_bind
          apply wp_readByte i3
          · intro _; exact pkgFail d r _ hr rfl
          · intro b3 hlt3 _
            have hlt3' : r.offset + 1 + 1 + 1 < r.pkgEnd := hlt3
            exact wp_pure ⟨⟨by show r.offset + 1 + 1 + 1 + 1 ≤ d.size; omega, h2⟩, Or.inr ⟨rfl, rfl, by show r.offset < r.offset + 1 + 1 + 1 + 1; omega, by show r.offset + 1 + 1 + 1 + 1 ≤ r.offset + 4; omega, by show r.offset + 1 + 1 + 1 + 1 ≤ r.pkgEnd; omega⟩⟩

def NumRel (n : Nat) (r : Reader) (a : Nat × PRes) (r' : Reader) : Prop :=
  r'.pkgEnd = r.pkgEnd ∧ r.offset ≤ r'.offset ∧ r'.offset ≤ r.offset + n ∧
  ((a.2 = .ok ∧ r'.offset = r.offset + n) ∨ a.2 = .failed)

theorem rel_parseNumLoop (d : Bytes) (n c acc : Nat) (r : Reader) (hr : Inv d r) :
    wp (parseNumLoop d n c acc) (fun a r' => Inv d r' ∧ NumRel n r a r') r := by
  induction n generalizing c acc r with
  | zero => unfold parseNumLoop; exact wp_pure ⟨hr, rfl, Nat.le_refl _, Nat.le_refl _, Or.inl ⟨rfl, rfl⟩⟩
  | succ n ih =>
    unfold parseNumLoop
    apply wp_bind
    apply wp_readByte hr
    · intro _; exact wp_pure ⟨hr, rfl, Nat.le_refl _, by omega, Or.inr rfl⟩
    · intro b hlt _
      have i1 : Inv d { r with offset := r.offset + 1 } := ⟨by show r.offset + 1 ≤ d.size; have := hr.2; omega, hr.2⟩
      refine wp_mono (ih (c + 1) _ _ i1) ?_
      intro a r' ⟨hi, hp, h1, h2, h3⟩
      refine ⟨hi, hp, ?_, ?_, ?_⟩
      · have : r.offset + 1 ≤ r'.offset := h1; omega
      · have : r'.offset ≤ r.offset + 1 + n := h2; omega
      · rcases h3 with ⟨ho, he⟩ | hf
        · left; refine ⟨ho, ?_⟩; have : r'.offset = r.offset + 1 + n := he; omega
        · right; exact hf

theorem rel_parseNumConstant (d : Bytes) (n : Nat) : LexRel d (parseNumConstant d n) (NumRel n) :=
  LexRel.of_wp fun r hr => rel_parseNumLoop d n 0 0 r hr

def StrRel (d : Bytes) (r : Reader) (a : Slice × PRes) (r' : Reader) : Prop :=
  r'.pkgEnd = r.pkgEnd ∧ r.offset ≤ r'.offset ∧ SliceIn d a.1 ∧
  ((a.2 = .ok ∧ r.offset < r'.offset) ∨ a.2 = .failed)

theorem rel_parseStringLoop (d : Bytes) (f len : Nat) (r : Reader) (hr : Inv d r) :
    wp (parseStringLoop d f len) (fun a r' => Inv d r' ∧ r'.pkgEnd = r.pkgEnd ∧ r.offset + a.1 ≤ r'.offset + len ∧
      ((a.2 = .ok ∧ r.offset < r'.offset) ∨ a.2 = .failed)) r := by
  induction f generalizing len r with
  | zero => unfold parseStringLoop; exact wp_pure ⟨hr, rfl, by simp, Or.inr rfl⟩
  | succ f ih =>
    unfold parseStringLoop
    apply wp_bind
    apply wp_readByte hr
    · intro _; exact wp_pure ⟨hr, rfl, by simp, Or.inr rfl⟩
    · intro b hlt _
      have i1 : Inv d { r with offset := r.offset + 1 } := ⟨by show r.offset + 1 ≤ d.size; have := hr.2; omega, hr.2⟩
      dsimp only
      split
      · exact wp_pure ⟨i1, rfl, by show r.offset + len ≤ r.offset + 1 + len; omega, Or.inl ⟨rfl, by show r.offset < r.offset + 1; omega⟩⟩
      · split
        · refine wp_mono (ih (len + 1) _ i1) ?_
          intro a r' ⟨hi, hp, h1, h2⟩
          refine ⟨hi, hp, ?_, ?_⟩
          · have : r.offset + 1 + a.1 ≤ r'.offset + (len + 1) := h1; omega
          · rcases h2 with ⟨ho, hl⟩ | hf
            · left; refine ⟨ho, ?_⟩; have : r.offset + 1 < r'.offset := hl; omega
            · right; exact hf
        · exact wp_pure ⟨i1, rfl, by show r.offset + len ≤ r.offset + 1 + len; omega, Or.inr rfl⟩

theorem rel_parseString (d : Bytes) : LexRel d (parseString d) (StrRel d) := by
  apply LexRel.of_wp
  intro r hr
  unfold parseString
  apply wp_bind
  apply wp_dataPtr hr
  · intro _
    apply wp_bind
    refine wp_mono (rel_parseStringLoop d _ 0 r hr) ?_
    intro a r' ⟨hi, hp, h1, h2⟩
    refine wp_pure ⟨hi, hp, ?_, (by intro o ho; simp at ho), h2⟩
    omega
  · intro _
    apply wp_bind
    refine wp_mono (rel_parseStringLoop d _ 0 r hr) ?_
    intro a r' ⟨hi, hp, h1, h2⟩
    refine wp_pure ⟨hi, hp, by omega, ?_, h2⟩
    intro off ho
    simp only [Option.some.injEq] at ho
    subst ho
    have := hi.1
    show r.offset + a.1 ≤ d.size
    omega

theorem pkgval (l b1 b2 b3 : Nat) (h1 : b1 < 256) (h2 : b2 < 256) (h3 : b3 < 256) :
    b3 <<< 20 ||| b2 <<< 12 ||| b1 <<< 4 ||| (l &&& 0xf) < 268435456 := by
  have e : (268435456 : Nat) = 2 ^ 28 := by decide
  rw [e]
  have hl : l &&& 0xf < 2 ^ 28 := Nat.lt_of_le_of_lt Nat.and_le_right (by decide)
  have s1 : b1 <<< 4 < 2 ^ 28 := by rw [Nat.shiftLeft_eq]; omega
  have s2 : b2 <<< 12 < 2 ^ 28 := by rw [Nat.shiftLeft_eq]; omega
  have s3 : b3 <<< 20 < 2 ^ 28 := by rw [Nat.shiftLeft_eq]; omega
  exact Nat.or_lt_two_pow (Nat.or_lt_two_pow (Nat.or_lt_two_pow s3 s2) s1) hl

theorem pkgFailV (d : Bytes) (o : Nat) (r1 : Reader) :
    wp (do setOffset d o; pure (0, PRes.failed) : LexM (Nat × PRes)) (fun a _ => a.1 < 268435456) r1 := by
  apply wp_bind; apply wp_setOffset; exact wp_pure (by decide)

/-- the decoded PkgLength is below 2^28 -/
theorem parsePkgLength_val (d : Bytes) (r : Reader) (hr : Inv d r) :
    wp (parsePkgLength d) (fun a _ => a.1 < 268435456) r := by
  have h2 := hr.2
  unfold parsePkgLength
  apply wp_bind; apply wp_offset
  apply wp_bind
  apply wp_readByte hr
  · intro _; exact pkgFailV d _ _
  · intro lead hlt _
    have i1 : Inv d { r with offset := r.offset + 1 } := ⟨by show r.offset + 1 ≤ d.size; omega, h2⟩
    have hl := lead.toNat_lt
    dsimp only
    split
    · exact wp_pure (by show lead.toNat < 268435456; omega)
    · apply wp_bind
      apply wp_readByte i1
      · intro _; exact pkgFailV d _ _
      · intro b1 hlt1 _
        have hlt1' : r.offset + 1 < r.pkgEnd := hlt1
        refine wp_pure ?_
        have := pkgval lead.toNat b1.toNat 0 0 b1.toNat_lt (by decide) (by decide)
        simpa using this
    · apply wp_bind
      apply wp_readByte i1
      · intro _; exact pkgFailV d _ _
      · intro b1 hlt1 _
        have hlt1' : r.offset + 1 < r.pkgEnd := hlt1
        have i2 : Inv d { offset := r.offset + 1 + 1, pkgEnd := r.pkgEnd } := ⟨by show r.offset + 1 + 1 ≤ d.size; omega, h2⟩
        apply wp_bind
        apply wp_readByte i2
        · intro _; exact pkgFailV d _ _
        · intro b2 hlt2 _
          refine wp_pure ?_
          have := pkgval lead.toNat b1.toNat b2.toNat 0 b1.toNat_lt b2.toNat_lt (by decide)
          simpa using this
    · apply wp_bind
      apply wp_readByte i1
      · intro _; exact pkgFailV d _ _
      · intro b1 hlt1 _
        have hlt1' : r.offset + 1 < r.pkgEnd := hlt1
        have i2 : Inv d { offset := r.offset + 1 + 1, pkgEnd := r.pkgEnd } := ⟨by show r.offset + 1 + 1 ≤ d.size; omega, h2⟩
        apply wp_bind
        apply wp_readByte i2
        · intro _; exact pkgFailV d _ _
        · intro b2 hlt2 _
          have hlt2' : r.offset + 1 + 1 < r.pkgEnd := hlt2
          have i3 : Inv d { offset := r.offset + 1 + 1 + 1, pkgEnd := r.pkgEnd } := ⟨by show r.offset + 1 + 1 + 1 ≤ d.size; omega, h2⟩
          apply wp_bind
          apply wp_readByte i3
          · intro _; exact pkgFailV d _ _
          · intro b3 _ _
            exact wp_pure (pkgval lead.toNat b1.toNat b2.toNat b3.toNat b1.toNat_lt b2.toNat_lt b3.toNat_lt)

/-- `PkgRel` together with the value bound -/
def PkgRelV (r : Reader) (a : Nat × PRes) (r' : Reader) : Prop := PkgRel r a r' ∧ a.1 < 268435456

theorem rel_parsePkgLengthV (d : Bytes) : LexRel d (parsePkgLength d) PkgRelV := by
  intro r hr
  obtain ⟨a, r', e, hi, hR⟩ := rel_parsePkgLength d r hr
  obtain ⟨a2, r2, e2, hv⟩ := parsePkgLength_val d r hr
  rw [e] at e2; cases e2
  exact ⟨a, r', e, hi, hR, hv⟩

/-! ### actions that leave `pkgEnd` alone -/

structure PKE {α : Type} (x : LexM α) : Prop where
  run : ∀ r a r', x r = .ok (a, r') → r'.pkgEnd = r.pkgEnd

theorem PKE.pure {α : Type} (a : α) : PKE (pure a : LexM α) := ⟨fun r a' r' e => by cases e; rfl⟩
theorem PKE.bind {α β : Type} {x : LexM α} {f : α → LexM β} (hx : PKE x) (hf : ∀ a, PKE (f a)) : PKE (x >>= f) := by
  constructor
  intro r b r' e
  have e' : (StateT.bind x f) r = .ok (b, r') := e
  simp only [StateT.bind] at e'
  cases hxe : x r with
  | error err => rw [hxe] at e'; cases e'
  | ok ar =>
    obtain ⟨a, r1⟩ := ar
    rw [hxe] at e'
    rw [(hf a).run r1 b r' e', hx.run r a r1 hxe]

theorem pke_readByte (d : Bytes) : PKE (readByte d) := by
  constructor; intro r a r' e; unfold readByte at e
  split at e
  · cases e; rfl
  · split at e
    · cases e; rfl
    · cases e
theorem pke_peekByte (d : Bytes) : PKE (peekByte d) := by
  constructor; intro r a r' e; unfold peekByte at e
  split at e
  · cases e; rfl
  · split at e
    · cases e; rfl
    · cases e
theorem pke_unreadByte : PKE unreadByte := by
  constructor; intro r a r' e; unfold unreadByte at e
  split at e <;> (cases e; rfl)
theorem pke_offset : PKE offset := ⟨fun r a r' e => by cases e; rfl⟩
theorem pke_pkgEnd : PKE pkgEnd := ⟨fun r a r' e => by cases e; rfl⟩
theorem pke_eof : PKE eof := ⟨fun r a r' e => by cases e; rfl⟩
theorem pke_dataPtr (d : Bytes) : PKE (dataPtr d) := by
  constructor; intro r a r' e; unfold dataPtr at e
  split at e
  · cases e; rfl
  · split at e
    · cases e; rfl
    · cases e
theorem pke_setOffset (d : Bytes) (o : Nat) : PKE (setOffset d o) := ⟨fun r a r' e => by cases e; rfl⟩

macro "pke_step" : tactic => `(tactic| first
  | exact PKE.pure _
  | exact pke_readByte _ | exact pke_peekByte _ | exact pke_unreadByte | exact pke_offset | exact pke_pkgEnd
  | exact pke_eof | exact pke_dataPtr _ | exact pke_setOffset _ _
  | assumption
  | apply PKE.bind
  | intro _
  | split
  | dsimp only)
macro "pke_tac" : tactic => `(tactic| repeat' pke_step)

theorem pke_skipNamePrefix (d : Bytes) (f : Nat) : PKE (skipNamePrefix d f) := by
  induction f with
  | zero => unfold skipNamePrefix; pke_tac
  | succ f ih => unfold skipNamePrefix; pke_tac
theorem pke_parseNamePath (d : Bytes) (n s : Nat) : PKE (parseNamePath d n s) := by
  unfold parseNamePath; pke_tac
theorem pke_parseNameString (d : Bytes) : PKE (parseNameString d) := by
  unfold parseNameString
  have h1 := pke_skipNamePrefix d (d.size + 1)
  have h2 := pke_parseNamePath d
  pke_tac
  all_goals first | exact h2 _ _ | skip
theorem pke_checkOpcode (d : Bytes) (o n : Nat) : PKE (checkOpcode d o n) := by
  unfold checkOpcode; pke_tac
theorem pke_nextOpcode (d : Bytes) : PKE (nextOpcode d) := by
  unfold nextOpcode
  have := pke_checkOpcode d
  pke_tac
  all_goals first | exact this _ _ | skip

def NameRel (d : Bytes) (r : Reader) (a : Slice × PRes) (r' : Reader) : Prop :=
  r'.pkgEnd = r.pkgEnd ∧ r.offset ≤ r'.offset ∧ SliceIn d a.1 ∧
  ((a.2 = .ok ∧ r.offset < r'.offset) ∨ a.2 = .failed)

theorem parseNameString_prog (d : Bytes) (hd : d.size + 1024 ≤ 4294967296) (r : Reader) (h : Inv d r) :
    wp (parseNameString d) (fun a r' => r.offset ≤ r'.offset ∧ ((a.2 = .ok ∧ r.offset < r'.offset) ∨ a.2 = .failed)) r := by
  unfold parseNameString
  apply wp_bind
  have body : ∀ data : Option Nat,
      wp (do
        let startOffset ← offset
        if (← skipNamePrefix d (d.size + 1)) then
          let next := ((← readByte d).getD 0).toNat
          match ← parseNamePath d next startOffset with
          | none => return ({}, PRes.failed)
          | some startOffset =>
            return ({ data := data, len := u32 ((← offset) + 4294967296 - startOffset) }, PRes.ok)
        else return ({}, PRes.failed) : LexM (Slice × PRes))
      (fun a r' => r.offset ≤ r'.offset ∧ ((a.2 = .ok ∧ r.offset < r'.offset) ∨ a.2 = .failed)) r := by
    intro data
    apply wp_bind; apply wp_offset
    apply wp_bind
    refine wp_mono (skipNamePrefix_spec d _ r h) ?_
    intro b r1 ⟨hi1, hle1, hpe1, hb1⟩
    split
    · rename_i hbt
      have hlt1 := hb1 hbt
      apply wp_bind
      apply wp_readByte hi1
      · intro hc; omega
      · intro b1 _ _
        have hi2 : Inv d { r1 with offset := r1.offset + 1 } := ⟨by show r1.offset + 1 ≤ d.size; have := hi1.2; omega, hi1.2⟩
        apply wp_bind
        refine wp_mono (parseNamePath_spec d hd _ r.offset _ hi2) ?_
        intro a r3 ⟨hi3, hle3, hst⟩
        have hle3' : r1.offset + 1 ≤ r3.offset := hle3
        split
        · exact wp_pure ⟨by omega, Or.inr rfl⟩
        · apply wp_bind; apply wp_offset
          exact wp_pure ⟨by omega, Or.inl ⟨rfl, by omega⟩⟩
    · exact wp_pure ⟨hle1, Or.inr rfl⟩
  apply wp_dataPtr h
  · intro _; exact body none
  · intro _; exact body (some r.offset)

theorem rel_parseNameString (d : Bytes) (hd : d.size + 1024 ≤ 4294967296) : LexRel d (parseNameString d) (NameRel d) := by
  intro r hr
  obtain ⟨a, r', e, hi, hsl, _⟩ := parseNameString_slice d hd r hr
  obtain ⟨a2, r2, e2, hle, hres⟩ := parseNameString_prog d hd r hr
  rw [e] at e2; cases e2
  exact ⟨a, r', e, hi, (pke_parseNameString d).run r a r' e, hle, hsl, hres⟩

def OpRel (r : Reader) (a : Nat × PRes) (r' : Reader) : Prop :=
  (a.2 = .failed ∧ a.1 = 0xffff ∧ r' = r) ∨
  (a.2 = .ok ∧ pOpcodeTableIndex a.1 false ≠ badOpcode ∧ a.1 ≤ 0x1fe ∧ r'.pkgEnd = r.pkgEnd ∧
    r.offset < r'.offset ∧ r'.offset ≤ r.offset + 2)

theorem rel_checkOpcode (d : Bytes) (hd : d.size + 1024 ≤ 4294967296) (op n : Nat) (hop : op ≤ 0x1fe) (r0 r : Reader)
    (hr0 : Inv d r0) (hr : Inv d r) (hp : r.pkgEnd = r0.pkgEnd) (ho : r.offset = r0.offset + n) (hn : 1 ≤ n ∧ n ≤ 2) :
    wp (checkOpcode d op n) (fun a r' => Inv d r' ∧ OpRel r0 a r') r := by
  unfold checkOpcode
  split
  · apply wp_bind; apply wp_offset
    apply wp_bind; apply wp_setOffset
    have h1 := hr0.1
    have hu : u32 (r.offset + 4294967296 - n) = r0.offset := by unfold u32; omega
    rw [hu]
    have : (if r0.offset > d.size then d.size else r0.offset) = r0.offset := by split <;> omega
    rw [this]
    have hrr : ({ r with offset := r0.offset } : Reader) = r0 := by
      cases r0; cases r; simp at hp ⊢; exact hp
    rw [hrr]
    exact wp_pure ⟨hr0, Or.inl ⟨rfl, rfl, rfl⟩⟩
  · rename_i hne
    exact wp_pure ⟨hr, Or.inr ⟨rfl, hne, hop, hp, by omega, by omega⟩⟩

theorem rel_nextOpcode (d : Bytes) (hd : d.size + 1024 ≤ 4294967296) : LexRel d (nextOpcode d) OpRel := by
  apply LexRel.of_wp
  intro r hr
  have h2 := hr.2
  unfold nextOpcode
  apply wp_bind
  apply wp_readByte hr
  · intro _; exact wp_pure ⟨hr, Or.inl ⟨rfl, rfl, rfl⟩⟩
  · intro b hlt _
    have i1 : Inv d { r with offset := r.offset + 1 } := ⟨by show r.offset + 1 ≤ d.size; omega, h2⟩
    dsimp only
    split
    · apply wp_bind
      apply wp_readByte i1
      · intro _
        apply wp_bind
        apply wp_unreadByte
        · intro h0; exact absurd h0 (by show r.offset + 1 ≠ 0; omega)
        · intro _
          have hrr : ({ offset := r.offset + 1 - 1, pkgEnd := r.pkgEnd } : Reader) = r := by cases r; simp
          show wp (pure _) _ ({ offset := r.offset + 1 - 1, pkgEnd := r.pkgEnd } : Reader)
          rw [hrr]
          exact wp_pure ⟨hr, Or.inl ⟨rfl, rfl, rfl⟩⟩
      · intro b2 hlt2 _
        have hlt2' : r.offset + 1 < r.pkgEnd := hlt2
        have i2 : Inv d { offset := r.offset + 1 + 1, pkgEnd := r.pkgEnd } := ⟨by show r.offset + 1 + 1 ≤ d.size; omega, h2⟩
        exact rel_checkOpcode d hd _ 2 (by have := b2.toNat_lt; omega) r _ hr i2 rfl (by show r.offset + 1 + 1 = r.offset + 2; omega) (by omega)
    · exact rel_checkOpcode d hd _ 1 (by have := b.toNat_lt; omega) r _ hr i1 rfl rfl (by omega)

/-! ## the state invariant of the first pass and the run lemmas of the primitives -/

/-- invariant of the parser state during the first pass (skip mode) of a table parsed into a pool
without freed slots -/
structure FP (d : Bytes) (s : PState) : Prop where
  inv : Inv d s.r
  tree : TreeOK s.tree
  scopes : ∀ x ∈ s.scopeStack.toList, x < s.tree.pool.size
  skip : s.allBlocks = false

theorem FP.withR {d : Bytes} {s : PState} (h : FP d s) {r' : Reader} (hr : Inv d r') : FP d { s with r := r' } :=
  ⟨hr, h.tree, h.scopes, h.skip⟩

theorem FP.withTree {d : Bytes} {s : PState} (h : FP d s) {t' : ObjectTree} (ht : TreeOK t')
    (hsz : s.tree.pool.size ≤ t'.pool.size) : FP d { s with tree := t' } :=
  ⟨h.inv, ht, fun x hx => Nat.lt_of_lt_of_le (h.scopes x hx) hsz, h.skip⟩

theorem bind_ex {α β : Type} {x : P α} {f : α → P β} {s s1 : PState} {a : α} {Q : β → PState → Prop}
    (e : x s = .ok (a, s1)) (h : ∃ b s2, f a s1 = .ok (b, s2) ∧ Q b s2) :
    ∃ b s2, (x >>= f) s = .ok (b, s2) ∧ Q b s2 := by
  obtain ⟨b, s2, e2, hq⟩ := h
  refine ⟨b, s2, ?_, hq⟩
  show (StateT.bind x f) s = _
  simp only [StateT.bind, e]
  exact e2

theorem pure_ex {α : Type} {a : α} {s : PState} {Q : α → PState → Prop} (h : Q a s) :
    ∃ b s2, (pure a : P α) s = .ok (b, s2) ∧ Q b s2 := ⟨a, s, rfl, h⟩

theorem lex_ex {α : Type} {d : Bytes} {x : LexM α} {R : Reader → α → Reader → Prop} (hx : LexRel d x R)
    {s : PState} (hs : Inv d s.r) :
    ∃ a r', lex x s = .ok (a, { s with r := r' }) ∧ Inv d r' ∧ R s.r a r' := by
  obtain ⟨a, r', e, hi, hR⟩ := hx s.r hs
  refine ⟨a, r', ?_, hi, hR⟩
  unfold lex
  simp only [e, bind, Except.bind, pure, Except.pure]

theorem updObj_ex {s : PState} {i : Nat} (f : Obj → Obj) (hi : i < s.tree.pool.size) :
    updObj i f s = .ok ((), { s with tree := setAt s.tree i f }) := by
  unfold updObj tree
  simp only [upd_eq f hi, bind, Except.bind, pure, Except.pure]

theorem getObj_ex {s : PState} {i : Nat} (hi : i < s.tree.pool.size) : getObj i s = .ok (slot s.tree i, s) := by
  unfold getObj
  simp only [obj_eq hi, bind, Except.bind, pure, Except.pure]

theorem objectAt_live_ex {d : Bytes} {s : PState} (h : FP d s) {i : Nat} (hi : i < s.tree.pool.size) :
    objectAt i s = .ok (some i, s) := by
  unfold objectAt
  rw [objectAt_live (h.tree.allLive i hi)]
  rfl

theorem newObject_ex {d : Bytes} {s : PState} (h : FP d s) (op : Nat) (hsz : s.tree.pool.size < INV)
    (hop : op ≠ pOpIntFreedObject) (hinfo : InfoOK (pOpcodeTableIndex op true)) :
    ∃ t', newObject op s = .ok (s.tree.pool.size, { s with tree := t' }) ∧ TreeOK t' ∧
      t'.pool.size = s.tree.pool.size + 1 ∧ (∀ x, x < s.tree.pool.size → slot t' x = slot s.tree x) ∧
      slot t' s.tree.pool.size = initObj op (pOpcodeTableIndex op true) s.tableHandle { index := s.tree.pool.size } := by
  obtain ⟨t', e, ht, hs1, hold, hnew⟩ := treeOK_newObject h.tree op (pOpcodeTableIndex op true) s.tableHandle hsz hop hinfo
  refine ⟨t', ?_, ht, hs1, hold, hnew⟩
  unfold newObject
  simp only [e, bind, Except.bind, pure, Except.pure]

theorem tree_ex {s : PState} {f : ObjectTree → Res ObjectTree} {t' : ObjectTree} (e : f s.tree = .ok t') :
    tree f s = .ok ((), { s with tree := t' }) := by
  unfold tree
  simp only [e, bind, Except.bind, pure, Except.pure]

theorem scopeCurrent_ex {d : Bytes} {s : PState} (h : FP d s) (hne : s.scopeStack.size ≠ 0) :
    ∃ sc, scopeCurrent s = .ok (some sc, s) ∧ sc < s.tree.pool.size := by
  unfold scopeCurrent
  cases hb : s.scopeStack.back? with
  | none =>
    exfalso; apply hne
    simp only [Array.back?_eq_none_iff] at hb
    rw [hb]; rfl
  | some sc =>
    have hmem : sc ∈ s.scopeStack.toList := by
      have := Array.mem_of_back? hb
      exact Array.mem_toList_iff.mpr this
    have hlt := h.scopes sc hmem
    refine ⟨sc, ?_, hlt⟩
    simp only [objectAt_live (h.tree.allLive sc hlt)]
    rfl

/-! ## growth relation between states of the first pass -/

/-- what every first-pass function guarantees about the state it leaves: the reader only moves
forward, the pool only grows and by at most 16 objects per consumed byte plus `c`, parents of existing
objects are untouched, the two stacks only grow, scope pushes are covered by pkgEnd pushes plus the
credit `g`, and pkgEnd pushes by consumed bytes -/
structure Grow (c g : Nat) (s s' : PState) : Prop where
  off : s.r.offset ≤ s'.r.offset
  pool : s.tree.pool.size ≤ s'.tree.pool.size
  budget : s'.tree.pool.size + 16 * s.r.offset ≤ s.tree.pool.size + 16 * s'.r.offset + c
  oldP : ∀ x, x < s.tree.pool.size → C13.P s'.tree x = C13.P s.tree x
  sc : s.scopeStack.size ≤ s'.scopeStack.size
  pk : s.pkgEndStack.size ≤ s'.pkgEndStack.size
  scpk : s'.scopeStack.size + s.pkgEndStack.size ≤ s.scopeStack.size + s'.pkgEndStack.size + g
  pkoff : s'.pkgEndStack.size + s.r.offset ≤ s.pkgEndStack.size + s'.r.offset
  same : s'.allBlocks = s.allBlocks ∧ s'.tableHandle = s.tableHandle ∧ s'.streamEnd = s.streamEnd

theorem Grow.refl (s : PState) : Grow 0 0 s s :=
  ⟨Nat.le_refl _, Nat.le_refl _, by omega, fun _ _ => rfl, Nat.le_refl _, Nat.le_refl _, by omega, by omega, rfl, rfl, rfl⟩

theorem Grow.trans {c1 g1 c2 g2 : Nat} {a b c : PState} (h1 : Grow c1 g1 a b) (h2 : Grow c2 g2 b c) :
    Grow (c1 + c2) (g1 + g2) a c := by
  refine ⟨Nat.le_trans h1.off h2.off, Nat.le_trans h1.pool h2.pool, ?_, ?_, Nat.le_trans h1.sc h2.sc,
    Nat.le_trans h1.pk h2.pk, ?_, ?_, ?_⟩
  · have := h1.budget; have := h2.budget; omega
  · intro x hx; rw [h2.oldP x (Nat.lt_of_lt_of_le hx h1.pool), h1.oldP x hx]
  · have := h1.scpk; have := h2.scpk; omega
  · have := h1.pkoff; have := h2.pkoff; omega
  · exact ⟨by rw [h2.same.1, h1.same.1], by rw [h2.same.2.1, h1.same.2.1], by rw [h2.same.2.2, h1.same.2.2]⟩

theorem Grow.weaken {c g c' g' : Nat} {a b : PState} (h : Grow c g a b) (hc : c ≤ c') (hg : g ≤ g') : Grow c' g' a b :=
  ⟨h.off, h.pool, by have := h.budget; omega, h.oldP, h.sc, h.pk, by have := h.scpk; omega, h.pkoff, h.same⟩

/-- a reader-only step that moves forward -/
theorem Grow.ofR (s : PState) (r' : Reader) (h : s.r.offset ≤ r'.offset) : Grow 0 0 s { s with r := r' } :=
  ⟨h, Nat.le_refl _, by show s.tree.pool.size + 16 * s.r.offset ≤ s.tree.pool.size + 16 * r'.offset + 0; omega,
   fun _ _ => rfl, Nat.le_refl _, Nat.le_refl _, by dsimp only; omega,
   by show s.pkgEndStack.size + s.r.offset ≤ s.pkgEndStack.size + r'.offset; omega, rfl, rfl, rfl⟩

/-- a payload update of one slot -/
theorem Grow.ofSetAt (s : PState) (i : Nat) (f : Obj → Obj) (hf : KeepsLinks f) (hl : KeepsLive s.tree i f) :
    Grow 0 0 s { s with tree := setAt s.tree i f } :=
  ⟨Nat.le_refl _, by simp, by simp, fun x _ => (sameLinks_setAt s.tree i f hf hl).p x, Nat.le_refl _, Nat.le_refl _,
   by dsimp only; omega, by dsimp only; omega, rfl, rfl, rfl⟩

/-! ## payload-only steps -/

/-- a step that changes only the reader (forward, same `pkgEnd`) and the payload of slot `obj` -/
structure PayOnly (obj : Nat) (s s' : PState) : Prop where
  links : SameLinks s.tree s'.tree
  others : ∀ x, x ≠ obj → slot s'.tree x = slot s.tree x
  scope : s'.scopeStack = s.scopeStack
  pkg : s'.pkgEndStack = s.pkgEndStack
  same : s'.allBlocks = s.allBlocks ∧ s'.tableHandle = s.tableHandle ∧ s'.streamEnd = s.streamEnd
  pkgEnd : s'.r.pkgEnd = s.r.pkgEnd
  off : s.r.offset ≤ s'.r.offset

theorem PayOnly.grow {obj : Nat} {s s' : PState} (h : PayOnly obj s s') : Grow 0 0 s s' :=
  ⟨h.off, by rw [h.links.size]; exact Nat.le_refl _, by rw [h.links.size]; have := h.off; omega,
   fun x _ => h.links.p x, by rw [h.scope]; exact Nat.le_refl _, by rw [h.pkg]; exact Nat.le_refl _,
   by rw [h.scope, h.pkg]; omega, by rw [h.pkg]; have := h.off; omega, h.same⟩

theorem SameLinks.refl (t : ObjectTree) : SameLinks t t :=
  ⟨rfl, rfl, fun _ => rfl, fun _ => rfl, fun _ => rfl, fun _ => rfl, fun _ => rfl, fun _ => rfl, fun _ => rfl⟩
theorem SameLinks.trans {a b c : ObjectTree} (h1 : SameLinks a b) (h2 : SameLinks b c) : SameLinks a c :=
  ⟨by rw [h2.size, h1.size], by rw [h2.head, h1.head], fun x => by rw [h2.p, h1.p], fun x => by rw [h2.pv, h1.pv],
   fun x => by rw [h2.nx, h1.nx], fun x => by rw [h2.fi, h1.fi], fun x => by rw [h2.la, h1.la],
   fun x => by rw [h2.live, h1.live], fun x => by rw [h2.index, h1.index]⟩

theorem PayOnly.refl (obj : Nat) (s : PState) : PayOnly obj s s :=
  ⟨SameLinks.refl _, fun _ _ => rfl, rfl, rfl, ⟨rfl, rfl, rfl⟩, rfl, Nat.le_refl _⟩
theorem PayOnly.trans {obj : Nat} {a b c : PState} (h1 : PayOnly obj a b) (h2 : PayOnly obj b c) : PayOnly obj a c :=
  ⟨h1.links.trans h2.links, fun x hx => by rw [h2.others x hx, h1.others x hx], by rw [h2.scope, h1.scope],
   by rw [h2.pkg, h1.pkg], ⟨by rw [h2.same.1, h1.same.1], by rw [h2.same.2.1, h1.same.2.1], by rw [h2.same.2.2, h1.same.2.2]⟩,
   by rw [h2.pkgEnd, h1.pkgEnd], Nat.le_trans h1.off h2.off⟩

theorem PayOnly.ofR (obj : Nat) (s : PState) (r' : Reader) (hp : r'.pkgEnd = s.r.pkgEnd) (ho : s.r.offset ≤ r'.offset) :
    PayOnly obj s { s with r := r' } :=
  ⟨SameLinks.refl _, fun _ _ => rfl, rfl, rfl, ⟨rfl, rfl, rfl⟩, hp, ho⟩

theorem PayOnly.ofSetAt (obj : Nat) (s : PState) (f : Obj → Obj) (hf : KeepsLinks f) (hl : KeepsLive s.tree obj f) :
    PayOnly obj s { s with tree := setAt s.tree obj f } := by
  refine ⟨sameLinks_setAt s.tree obj f hf hl, ?_, rfl, rfl, ⟨rfl, rfl, rfl⟩, rfl, Nat.le_refl _⟩
  intro x hx
  show slot (setAt s.tree obj f) x = slot s.tree x
  rw [slot_setAt']
  split
  · rename_i hc; exact absurd hc.1.symm hx
  · rfl

/-- FP is preserved by a payload-only step that keeps the table index of `obj` valid -/
theorem FP.payOnly {d : Bytes} {obj : Nat} {s s' : PState} (h : FP d s) (hp : PayOnly obj s s') (hi : Inv d s'.r)
    (hinfo : obj < s.tree.pool.size → InfoOK (slot s'.tree obj).infoIndex) : FP d s' := by
  refine ⟨hi, ⟨wf_of_sameLinks h.tree.wf hp.links, ?_, ?_, ?_, by rw [hp.links.size]; exact h.tree.nonempty⟩, ?_, by rw [hp.same.1]; exact h.skip⟩
  · intro x hx; rw [hp.links.live]; exact h.tree.allLive x (by rw [← hp.links.size]; exact hx)
  · intro x hx hpx; rw [hp.links.p] at hpx ⊢; exact h.tree.mono x (by rw [← hp.links.size]; exact hx) hpx
  · intro x hx
    have hx' : x < s.tree.pool.size := by rw [← hp.links.size]; exact hx
    by_cases hxo : x = obj
    · subst hxo; exact hinfo hx'
    · rw [hp.others x hxo]; exact h.tree.info x hx'
  · intro x hx; rw [hp.scope] at hx; rw [hp.links.size]; exact h.scopes x hx

macro "keeps_links" : tactic => `(tactic| (intro o; exact ⟨rfl, rfl, rfl, rfl, rfl, rfl⟩))

theorem upd_step {d : Bytes} {s : PState} (h : FP d s) {obj : Nat} (ho : obj < s.tree.pool.size) (f : Obj → Obj)
    (hf : KeepsLinks f) (hl : KeepsLive s.tree obj f) (hinfo : InfoOK (f (slot s.tree obj)).infoIndex) :
    ∃ s1, updObj obj f s = .ok ((), s1) ∧ FP d s1 ∧ PayOnly obj s s1 ∧ slot s1.tree obj = f (slot s.tree obj) ∧
      s1.r = s.r := by
  refine ⟨_, updObj_ex f ho, ?_, PayOnly.ofSetAt obj s f hf hl, ?_, rfl⟩
  · exact ⟨h.inv, treeOK_setAt h.tree obj f hf hl (fun _ => hinfo), fun x hx => by simpa using h.scopes x hx, h.skip⟩
  · show slot (setAt s.tree obj f) obj = _
    rw [slot_setAt']; simp [ho]

theorem lex_step {α : Type} {d : Bytes} {x : LexM α} {R : Reader → α → Reader → Prop} (hx : LexRel d x R)
    {s : PState} (h : FP d s) :
    ∃ a s1, lex x s = .ok (a, s1) ∧ FP d s1 ∧ R s.r a s1.r ∧ s1 = { s with r := s1.r } := by
  obtain ⟨a, r', e, hi, hR⟩ := lex_ex hx h.inv
  exact ⟨a, _, e, h.withR hi, hR, rfl⟩

/-- a reader-only step that keeps `pkgEnd` and moves forward is payload-only -/
theorem PayOnly.ofLex (obj : Nat) {s s1 : PState} (hs1 : s1 = { s with r := s1.r }) (hp : s1.r.pkgEnd = s.r.pkgEnd)
    (ho : s.r.offset ≤ s1.r.offset) : PayOnly obj s s1 := by
  rw [hs1]; exact PayOnly.ofR obj s _ hp ho

/-- `obj.value, res = parseNumConstant(n)` -/
theorem setNumValue_tot {d : Bytes} {s : PState} (h : FP d s) {obj : Nat} (ho : obj < s.tree.pool.size) (n : Nat) :
    ∃ res s', setNumValue d obj n s = .ok (res, s') ∧ FP d s' ∧ PayOnly obj s s' ∧
      (∃ v, slot s'.tree obj = { slot s.tree obj with value := .u64 v }) ∧
      ((res = .ok ∧ s'.r.offset = s.r.offset + n) ∨ res = .failed) := by
  unfold setNumValue
  obtain ⟨vr, s1, e1, h1, hR, hs1⟩ := lex_step (rel_parseNumConstant d n) h
  refine bind_ex e1 ?_
  have ht1 : s1.tree = s.tree := by rw [hs1]
  have ho1 : obj < s1.tree.pool.size := by rw [ht1]; exact ho
  obtain ⟨s2, e2, h2, hp2, hsl, hr2⟩ := upd_step h1 ho1 (fun o => { o with value := .u64 vr.1 }) (by keeps_links) Iff.rfl
    (by rw [ht1]; exact h.tree.info obj ho)
  refine bind_ex e2 (pure_ex ⟨h2, (PayOnly.ofLex obj hs1 hR.1 hR.2.1).trans hp2, ⟨vr.1, by rw [hsl, ht1]⟩, ?_⟩)
  rw [hr2]
  rcases hR.2.2.2 with ⟨hok, he⟩ | hf
  · exact Or.inl ⟨hok, he⟩
  · exact Or.inr hf

/-- progress of a decoder: success consumed at least one byte -/
def Prog (s s' : PState) (res : PRes) : Prop := (res = .ok ∧ s.r.offset < s'.r.offset) ∨ res = .failed

theorem setStringValue_tot {d : Bytes} {s : PState} (h : FP d s) {obj : Nat} (ho : obj < s.tree.pool.size) :
    ∃ res s', setStringValue d obj s = .ok (res, s') ∧ FP d s' ∧ PayOnly obj s s' ∧ Prog s s' res ∧
      (∃ v, slot s'.tree obj = { slot s.tree obj with value := v }) := by
  unfold setStringValue
  obtain ⟨sr, s1, e1, h1, hR, hs1⟩ := lex_step (rel_parseString d) h
  refine bind_ex e1 ?_
  have ht1 : s1.tree = s.tree := by rw [hs1]
  have ho1 : obj < s1.tree.pool.size := by rw [ht1]; exact ho
  obtain ⟨s2, e2, h2, hp2, hsl2, hr2⟩ := upd_step h1 ho1 (fun o => { o with value := sliceVal sr.1 }) (by keeps_links) Iff.rfl
    (by rw [ht1]; exact h.tree.info obj ho)
  refine bind_ex e2 (pure_ex ⟨h2, (PayOnly.ofLex obj hs1 hR.1 hR.2.1).trans hp2, ?_, ⟨_, by rw [hsl2, ht1]⟩⟩)
  unfold Prog; rw [hr2]; exact hR.2.2.2

theorem setNameValue_tot {d : Bytes} (hd : d.size + 1024 ≤ 4294967296) {s : PState} (h : FP d s) {obj : Nat}
    (ho : obj < s.tree.pool.size) :
    ∃ res s', setNameValue d obj s = .ok (res, s') ∧ FP d s' ∧ PayOnly obj s s' ∧ Prog s s' res ∧
      (∃ v, slot s'.tree obj = { slot s.tree obj with value := v }) := by
  unfold setNameValue
  obtain ⟨sr, s1, e1, h1, hR, hs1⟩ := lex_step (rel_parseNameString d hd) h
  refine bind_ex e1 ?_
  have ht1 : s1.tree = s.tree := by rw [hs1]
  have ho1 : obj < s1.tree.pool.size := by rw [ht1]; exact ho
  obtain ⟨s2, e2, h2, hp2, hsl2, hr2⟩ := upd_step h1 ho1 (fun o => { o with value := sliceVal sr.1 }) (by keeps_links) Iff.rfl
    (by rw [ht1]; exact h.tree.info obj ho)
  refine bind_ex e2 (pure_ex ⟨h2, (PayOnly.ofLex obj hs1 hR.1 hR.2.1).trans hp2, ?_, ⟨_, by rw [hsl2, ht1]⟩⟩)
  unfold Prog; rw [hr2]; exact hR.2.2.2

theorem live_opcode_ne {t : ObjectTree} (h : TreeOK t) {i : Nat} (hi : i < t.pool.size) :
    (slot t i).opcode ≠ pOpIntFreedObject := live_opcode (h.allLive i hi)

theorem setOpcode_tot {d : Bytes} {s : PState} (h : FP d s) {obj : Nat} (ho : obj < s.tree.pool.size) (op : Nat)
    (hop : op ≠ pOpIntFreedObject) :
    ∃ a s', setOpcode obj op s = .ok (a, s') ∧ FP d s' ∧ PayOnly obj s s' ∧ s'.r = s.r ∧
      slot s'.tree obj = { slot s.tree obj with opcode := op } := by
  unfold setOpcode
  have hl : KeepsLive s.tree obj (fun o => { o with opcode := op }) := by
    unfold KeepsLive
    constructor
    · intro hc; exact absurd hc hop
    · intro hc; exact absurd hc (live_opcode_ne h.tree ho)
  obtain ⟨s1, e1, h1, hp1, hsl, hr1⟩ := upd_step h ho (fun o => { o with opcode := op }) (by keeps_links) hl (h.tree.info obj ho)
  exact ⟨(), s1, e1, h1, hp1, hr1, hsl⟩

theorem finishSimpleArg_tot {d : Bytes} {s : PState} (h : FP d s) {obj : Nat} (ho : obj < s.tree.pool.size) (res : PRes)
    (hinfo : InfoOK (pOpcodeTableIndex (slot s.tree obj).opcode true)) :
    ∃ a s', finishSimpleArg obj res s = .ok (a, s') ∧ a = (some obj, res) ∧ FP d s' ∧ PayOnly obj s s' ∧ s'.r = s.r ∧
      (slot s'.tree obj).value = (slot s.tree obj).value := by
  unfold finishSimpleArg
  refine bind_ex (getObj_ex ho) ?_
  obtain ⟨s1, e1, h1, hp1, hsl, hr1⟩ := upd_step h ho
    (fun o' => { o' with infoIndex := pOpcodeTableIndex (slot s.tree obj).opcode true }) (by keeps_links) Iff.rfl hinfo
  refine bind_ex e1 (pure_ex ⟨rfl, h1, hp1, hr1, by rw [hsl]⟩)

/-- one object was pushed, detached and childless; everything else is as before, the reader moved
forward with the same `pkgEnd` -/
structure Fresh1 (s s' : PState) : Prop where
  size : s'.tree.pool.size = s.tree.pool.size + 1
  old : ∀ x, x < s.tree.pool.size → slot s'.tree x = slot s.tree x
  pn : C13.P s'.tree s.tree.pool.size = INV
  fin : Fi s'.tree s.tree.pool.size = INV
  scope : s'.scopeStack = s.scopeStack
  pkg : s'.pkgEndStack = s.pkgEndStack
  same : s'.allBlocks = s.allBlocks ∧ s'.tableHandle = s.tableHandle ∧ s'.streamEnd = s.streamEnd
  pkgEnd : s'.r.pkgEnd = s.r.pkgEnd
  off : s.r.offset ≤ s'.r.offset

theorem Fresh1.grow {s s' : PState} (h : Fresh1 s s') : Grow 1 0 s s' :=
  ⟨h.off, by rw [h.size]; omega, by rw [h.size]; have := h.off; omega,
   fun x hx => by unfold C13.P; rw [h.old x hx], by rw [h.scope]; exact Nat.le_refl _, by rw [h.pkg]; exact Nat.le_refl _,
   by rw [h.scope, h.pkg]; omega, by rw [h.pkg]; have := h.off; omega, h.same⟩

/-- a fresh object followed by payload-only steps on it -/
theorem Fresh1.thenPay {s s1 s2 : PState} (h : Fresh1 s s1) (hp : PayOnly s.tree.pool.size s1 s2) : Fresh1 s s2 := by
  refine ⟨by rw [hp.links.size, h.size], ?_, by rw [hp.links.p]; exact h.pn, by rw [hp.links.fi]; exact h.fin,
    by rw [hp.scope, h.scope], by rw [hp.pkg, h.pkg],
    ⟨by rw [hp.same.1, h.same.1], by rw [hp.same.2.1, h.same.2.1], by rw [hp.same.2.2, h.same.2.2]⟩,
    by rw [hp.pkgEnd, h.pkgEnd], Nat.le_trans h.off hp.off⟩
  intro x hx
  rw [hp.others x (by omega), h.old x hx]

/-- a payload-only step before the fresh object is created -/
theorem Fresh1.afterLex {s s0 s1 : PState} (hs0 : s0 = { s with r := s0.r }) (hp : s0.r.pkgEnd = s.r.pkgEnd)
    (ho : s.r.offset ≤ s0.r.offset) (h : Fresh1 s0 s1) : Fresh1 s s1 := by
  have ht : s0.tree = s.tree := by rw [hs0]
  have hsc : s0.scopeStack = s.scopeStack := by rw [hs0]
  have hpk : s0.pkgEndStack = s.pkgEndStack := by rw [hs0]
  have hab : s0.allBlocks = s.allBlocks ∧ s0.tableHandle = s.tableHandle ∧ s0.streamEnd = s.streamEnd := by
    rw [hs0]; exact ⟨rfl, rfl, rfl⟩
  refine ⟨by rw [h.size, ht], fun x hx => by rw [h.old x (by rw [ht]; exact hx), ht], by rw [← ht]; exact h.pn,
    by rw [← ht]; exact h.fin, by rw [h.scope, hsc], by rw [h.pkg, hpk],
    ⟨by rw [h.same.1, hab.1], by rw [h.same.2.1, hab.2.1], by rw [h.same.2.2, hab.2.2]⟩, by rw [h.pkgEnd, hp],
    Nat.le_trans ho h.off⟩

/-- `newObject` as a step -/
theorem newObject_step {d : Bytes} {s : PState} (h : FP d s) (op : Nat) (hsz : s.tree.pool.size < INV)
    (hop : op ≠ pOpIntFreedObject) (hinfo : InfoOK (pOpcodeTableIndex op true)) :
    ∃ s1, newObject op s = .ok (s.tree.pool.size, s1) ∧ FP d s1 ∧ Fresh1 s s1 ∧ s1.r = s.r ∧
      slot s1.tree s.tree.pool.size = initObj op (pOpcodeTableIndex op true) s.tableHandle { index := s.tree.pool.size } := by
  obtain ⟨t', e, ht, hs1, hold, hnew⟩ := newObject_ex h op hsz hop hinfo
  refine ⟨_, e, h.withTree ht (by rw [hs1]; omega), ?_, rfl, hnew⟩
  refine ⟨hs1, hold, ?_, ?_, rfl, rfl, ⟨rfl, rfl, rfl⟩, rfl, Nat.le_refl _⟩
  · show C13.P t' s.tree.pool.size = INV
    unfold C13.P; rw [hnew]; rfl
  · show Fi t' s.tree.pool.size = INV
    unfold Fi; rw [hnew]; rfl

set_option maxRecDepth 20000 in
theorem info_const :
    InfoOK (pOpcodeTableIndex 0 true) ∧ InfoOK (pOpcodeTableIndex opBytePrefix true) ∧
    InfoOK (pOpcodeTableIndex opWordPrefix true) ∧ InfoOK (pOpcodeTableIndex opDwordPrefix true) ∧
    InfoOK (pOpcodeTableIndex opQwordPrefix true) ∧ InfoOK (pOpcodeTableIndex opStringPrefix true) ∧
    InfoOK (pOpcodeTableIndex opIntNamePath true) ∧ InfoOK (pOpcodeTableIndex opIntByteList true) ∧
    InfoOK (pOpcodeTableIndex opIntScopeBlock true) ∧ InfoOK (pOpcodeTableIndex opIntConnection true) ∧
    InfoOK (pOpcodeTableIndex opIntNamedField true) ∧ InfoOK (pOpcodeTableIndex opIntNamePathOrMethodCall true) ∧
    InfoOK (pOpcodeTableIndex opIntResolvedNamePath true) ∧ InfoOK (pOpcodeTableIndex opIntMethodCall true) := by
  unfold InfoOK; decide +kernel

theorem simpleNum_tot {d : Bytes} {s : PState} (h : FP d s) {obj : Nat} (ho : obj < s.tree.pool.size) (op n : Nat)
    (hop : op ≠ pOpIntFreedObject) (hinfo : InfoOK (pOpcodeTableIndex op true)) :
    ∃ a s', simpleNum d obj op n s = .ok (a, s') ∧ a.1 = some obj ∧ FP d s' ∧ PayOnly obj s s' ∧
      (∃ v, (slot s'.tree obj).value = .u64 v) ∧ ((a.2 = .ok ∧ s'.r.offset = s.r.offset + n) ∨ a.2 = .failed) := by
  unfold simpleNum
  obtain ⟨_, s1, e1, h1, hp1, hr1, hsl1⟩ := setOpcode_tot h ho op hop
  refine bind_ex e1 ?_
  have ho1 : obj < s1.tree.pool.size := by rw [hp1.links.size]; exact ho
  obtain ⟨res, s2, e2, h2, hp2, ⟨v, hv⟩, hres⟩ := setNumValue_tot h1 ho1 n
  refine bind_ex e2 ?_
  have ho2 : obj < s2.tree.pool.size := by rw [hp2.links.size]; exact ho1
  obtain ⟨a, s3, e3, ha, h3, hp3, hr3, hv3⟩ := finishSimpleArg_tot h2 ho2 res (by rw [hv, hsl1]; exact hinfo)
  refine ⟨a, s3, e3, by rw [ha], h3, (hp1.trans hp2).trans hp3, ⟨v, by rw [hv3, hv]⟩, ?_⟩
  rw [ha, hr3, ← hr1]; exact hres

theorem simpleString_tot {d : Bytes} {s : PState} (h : FP d s) {obj : Nat} (ho : obj < s.tree.pool.size) :
    ∃ a s', simpleString d obj s = .ok (a, s') ∧ a.1 = some obj ∧ FP d s' ∧ PayOnly obj s s' ∧ Prog s s' a.2 := by
  unfold simpleString
  obtain ⟨_, s1, e1, h1, hp1, hr1, hsl1⟩ := setOpcode_tot h ho opStringPrefix (by decide)
  refine bind_ex e1 ?_
  have ho1 : obj < s1.tree.pool.size := by rw [hp1.links.size]; exact ho
  obtain ⟨res, s2, e2, h2, hp2, hres, ⟨v, hv⟩⟩ := setStringValue_tot h1 ho1
  refine bind_ex e2 ?_
  have ho2 : obj < s2.tree.pool.size := by rw [hp2.links.size]; exact ho1
  obtain ⟨a, s3, e3, ha, h3, hp3, hr3, _⟩ := finishSimpleArg_tot h2 ho2 res (by rw [hv, hsl1]; exact info_const.2.2.2.2.2.1)
  refine ⟨a, s3, e3, by rw [ha], h3, (hp1.trans hp2).trans hp3, ?_⟩
  unfold Prog at hres ⊢
  rw [ha, hr3, ← hr1]; exact hres

theorem simpleName_tot {d : Bytes} (hd : d.size + 1024 ≤ 4294967296) {s : PState} (h : FP d s) {obj : Nat}
    (ho : obj < s.tree.pool.size) :
    ∃ a s', simpleName d obj s = .ok (a, s') ∧ a.1 = some obj ∧ FP d s' ∧ PayOnly obj s s' ∧ Prog s s' a.2 := by
  unfold simpleName
  obtain ⟨_, s1, e1, h1, hp1, hr1, hsl1⟩ := setOpcode_tot h ho opIntNamePath (by decide)
  refine bind_ex e1 ?_
  have ho1 : obj < s1.tree.pool.size := by rw [hp1.links.size]; exact ho
  obtain ⟨res, s2, e2, h2, hp2, hres, ⟨v, hv⟩⟩ := setNameValue_tot hd h1 ho1
  refine bind_ex e2 ?_
  have ho2 : obj < s2.tree.pool.size := by rw [hp2.links.size]; exact ho1
  obtain ⟨a, s3, e3, ha, h3, hp3, hr3, _⟩ := finishSimpleArg_tot h2 ho2 res (by rw [hv, hsl1]; exact info_const.2.2.2.2.2.2.1)
  refine ⟨a, s3, e3, by rw [ha], h3, (hp1.trans hp2).trans hp3, ?_⟩
  unfold Prog at hres ⊢
  rw [ha, hr3, ← hr1]; exact hres

def IsNum (argType : Nat) : Prop :=
  argType = argTypeByteData ∨ argType = argTypeWordData ∨ argType = argTypeDwordData ∨ argType = argTypeQwordData

theorem prog_of_num {s s' : PState} {res : PRes} {n : Nat} (hn : 1 ≤ n)
    (h : (res = .ok ∧ s'.r.offset = s.r.offset + n) ∨ res = .failed) : Prog s s' res := by
  rcases h with ⟨ho, he⟩ | hf
  · exact Or.inl ⟨ho, by omega⟩
  · exact Or.inr hf

/-- `parseSimpleArg(argType)`: one fresh detached object, its value set -/
theorem parseSimpleArg_tot {d : Bytes} (hd : d.size + 1024 ≤ 4294967296) {s : PState} (h : FP d s)
    (hsz : s.tree.pool.size < INV) (argType : Nat) :
    ∃ a s', parseSimpleArg d argType s = .ok (a, s') ∧ FP d s' ∧ Fresh1 s s' ∧
      ((a.1 = some s.tree.pool.size ∧ Prog s s' a.2 ∧
          (IsNum argType → ∃ v, (slot s'.tree s.tree.pool.size).value = .u64 v)) ∨ a = (none, .failed)) := by
  unfold parseSimpleArg
  obtain ⟨s1, e1, h1, f1, hr1, _⟩ := newObject_step h 0 hsz (by decide) info_const.1
  refine bind_ex e1 ?_
  obtain ⟨off, s2, e2, h2, hR2, hs2⟩ := lex_step (rel_offset d) h1
  refine bind_ex e2 ?_
  have hr2 : s2.r = s1.r := hR2.2
  have ht2 : s2.tree = s1.tree := by rw [hs2]
  have hobj : s.tree.pool.size < s2.tree.pool.size := by rw [ht2, f1.size]; omega
  obtain ⟨s3, e3, h3, hp3, _, hr3⟩ := upd_step h2 hobj (fun o => { o with amlOffset := off }) (by keeps_links) Iff.rfl
    (h2.tree.info _ hobj)
  refine bind_ex e3 ?_
  have hobj3 : s.tree.pool.size < s3.tree.pool.size := by rw [hp3.links.size]; exact hobj
  have f3 : Fresh1 s s3 := by
    refine Fresh1.thenPay f1 ((PayOnly.ofLex _ hs2 (by rw [hr2]) (by rw [hr2]; exact Nat.le_refl _)).trans hp3)
  have num : ∀ op n, 1 ≤ n → op ≠ pOpIntFreedObject → InfoOK (pOpcodeTableIndex op true) → IsNum argType →
      ∃ a s', simpleNum d s.tree.pool.size op n s3 = .ok (a, s') ∧ FP d s' ∧ Fresh1 s s' ∧
      ((a.1 = some s.tree.pool.size ∧ Prog s s' a.2 ∧
          (IsNum argType → ∃ v, (slot s'.tree s.tree.pool.size).value = .u64 v)) ∨ a = (none, .failed)) := by
    intro op n hn hop hinfo _
    obtain ⟨a, s4, e4, ha, h4, hp4, hv, hres⟩ := simpleNum_tot h3 hobj3 op n hop hinfo
    refine ⟨a, s4, e4, h4, f3.thenPay hp4, Or.inl ⟨ha, ?_, fun _ => hv⟩⟩
    have := prog_of_num hn hres
    unfold Prog at this ⊢
    have h03 : s.r.offset ≤ s3.r.offset := f3.off
    rcases this with ⟨ho, hl⟩ | hf
    · exact Or.inl ⟨ho, by omega⟩
    · exact Or.inr hf
  split
  · rename_i hc; exact num _ 1 (by omega) (by decide) info_const.2.1 (Or.inl hc)
  · split
    · rename_i hc; exact num _ 2 (by omega) (by decide) info_const.2.2.1 (Or.inr (Or.inl hc))
    · split
      · rename_i hc; exact num _ 4 (by omega) (by decide) info_const.2.2.2.1 (Or.inr (Or.inr (Or.inl hc)))
      · split
        · rename_i hc; exact num _ 8 (by omega) (by decide) info_const.2.2.2.2.1 (Or.inr (Or.inr (Or.inr hc)))
        · rename_i n1 n2 n3 n4
          have notNum : ¬ IsNum argType := by
            intro hn; rcases hn with h | h | h | h <;> contradiction
          split
          · obtain ⟨a, s4, e4, ha, h4, hp4, hres⟩ := simpleString_tot h3 hobj3
            refine ⟨a, s4, e4, h4, f3.thenPay hp4, Or.inl ⟨ha, ?_, fun hn => absurd hn notNum⟩⟩
            unfold Prog at hres ⊢
            have h03 : s.r.offset ≤ s3.r.offset := f3.off
            rcases hres with ⟨ho, hl⟩ | hf
            · exact Or.inl ⟨ho, by omega⟩
            · exact Or.inr hf
          · split
            · obtain ⟨a, s4, e4, ha, h4, hp4, hres⟩ := simpleName_tot hd h3 hobj3
              refine ⟨a, s4, e4, h4, f3.thenPay hp4, Or.inl ⟨ha, ?_, fun hn => absurd hn notNum⟩⟩
              unfold Prog at hres ⊢
              have h03 : s.r.offset ≤ s3.r.offset := f3.off
              rcases hres with ⟨ho, hl⟩ | hf
              · exact Or.inl ⟨ho, by omega⟩
              · exact Or.inr hf
            · exact pure_ex ⟨h3, f3, Or.inr rfl⟩

/-! ## field lists -/

theorem setNameByte_tot {d : Bytes} {s : PState} (h : FP d s) {field : Nat} (hf : field < s.tree.pool.size) (i : Nat) (b : UInt8) :
    ∃ a s', setNameByte field i b s = .ok (a, s') ∧ FP d s' ∧ PayOnly field s s' ∧ s'.r = s.r := by
  unfold setNameByte
  obtain ⟨s1, e1, h1, hp1, _, hr1⟩ := upd_step h hf
    (fun o => { o with name := Name.ofList ((o.name.toList.take i) ++ [b] ++ (o.name.toList.drop (i+1))) })
    (by keeps_links) Iff.rfl (h.tree.info field hf)
  exact ⟨(), s1, e1, h1, hp1, hr1⟩

theorem readFieldName_tot {d : Bytes} {field : Nat} (n : Nat) : ∀ (i : Nat) {s : PState}, FP d s → field < s.tree.pool.size →
    ∃ b s', readFieldName d field n i s = .ok (b, s') ∧ FP d s' ∧ PayOnly field s s' ∧
      (b = true → s'.r.offset = s.r.offset + n) := by
  induction n with
  | zero =>
    intro i s h hf
    unfold readFieldName
    exact pure_ex ⟨h, PayOnly.refl _ _, fun _ => rfl⟩
  | succ n ih =>
    intro i s h hf
    unfold readFieldName
    obtain ⟨ob, s1, e1, h1, hR, hs1⟩ := lex_step (rel_readByte d) h
    refine bind_ex e1 ?_
    have ht1 : s1.tree = s.tree := by rw [hs1]
    have hf1 : field < s1.tree.pool.size := by rw [ht1]; exact hf
    rcases hR with ⟨hn, hr, _⟩ | ⟨b, hb, hr, hlt⟩
    · subst hn
      obtain ⟨_, s2, e2, h2, hp2, hr2⟩ := setNameByte_tot h1 hf1 i 0
      refine bind_ex e2 (pure_ex ⟨h2, ?_, fun hc => by cases hc⟩)
      exact (PayOnly.ofLex field hs1 (by rw [hr]) (by rw [hr]; exact Nat.le_refl _)).trans hp2
    · subst hb
      obtain ⟨_, s2, e2, h2, hp2, hr2⟩ := setNameByte_tot h1 hf1 i b
      refine bind_ex e2 ?_
      have hf2 : field < s2.tree.pool.size := by rw [hp2.links.size]; exact hf1
      obtain ⟨b', s3, e3, h3, hp3, hoff⟩ := ih (i + 1) h2 hf2
      refine ⟨b', s3, e3, h3, ?_, ?_⟩
      · exact ((PayOnly.ofLex field hs1 (by rw [hr]) (by rw [hr]; show s.r.offset ≤ s.r.offset + 1; omega)).trans hp2).trans hp3
      · intro hb'
        rw [hoff hb', hr2, hr]
        show s.r.offset + 1 + n = s.r.offset + (n + 1)
        omega

/-- steps that leave both stacks alone: the reader goes back at most `b` bytes, at most `m` objects
are pushed, parents of existing objects are untouched -/
structure GrowE (b m : Nat) (s s' : PState) : Prop where
  offb : s.r.offset ≤ s'.r.offset + b
  pool : s.tree.pool.size ≤ s'.tree.pool.size
  poolUp : s'.tree.pool.size ≤ s.tree.pool.size + m
  oldP : ∀ x, x < s.tree.pool.size → C13.P s'.tree x = C13.P s.tree x
  scope : s'.scopeStack = s.scopeStack
  pkg : s'.pkgEndStack = s.pkgEndStack
  same : s'.allBlocks = s.allBlocks ∧ s'.tableHandle = s.tableHandle ∧ s'.streamEnd = s.streamEnd

theorem GrowE.refl (s : PState) : GrowE 0 0 s s :=
  ⟨by omega, Nat.le_refl _, by omega, fun _ _ => rfl, rfl, rfl, rfl, rfl, rfl⟩

theorem GrowE.trans {b1 m1 b2 m2 : Nat} {a b c : PState} (h1 : GrowE b1 m1 a b) (h2 : GrowE b2 m2 b c) :
    GrowE (b1 + b2) (m1 + m2) a c :=
  ⟨by have := h1.offb; have := h2.offb; omega, Nat.le_trans h1.pool h2.pool, by have := h1.poolUp; have := h2.poolUp; omega,
   fun x hx => by rw [h2.oldP x (Nat.lt_of_lt_of_le hx h1.pool), h1.oldP x hx], by rw [h2.scope, h1.scope],
   by rw [h2.pkg, h1.pkg], ⟨by rw [h2.same.1, h1.same.1], by rw [h2.same.2.1, h1.same.2.1], by rw [h2.same.2.2, h1.same.2.2]⟩⟩

theorem GrowE.weaken {b m b' m' : Nat} {a c : PState} (h : GrowE b m a c) (hb : b ≤ b') (hm : m ≤ m') : GrowE b' m' a c :=
  ⟨by have := h.offb; omega, h.pool, by have := h.poolUp; omega, h.oldP, h.scope, h.pkg, h.same⟩

theorem PayOnly.growE {obj : Nat} {s s' : PState} (h : PayOnly obj s s') : GrowE 0 0 s s' :=
  ⟨by have := h.off; omega, by rw [h.links.size]; exact Nat.le_refl _, by rw [h.links.size]; omega,
   fun x _ => h.links.p x, h.scope, h.pkg, h.same⟩

theorem Fresh1.growE {s s' : PState} (h : Fresh1 s s') : GrowE 0 1 s s' :=
  ⟨by have := h.off; omega, by rw [h.size]; omega, by rw [h.size]; omega,
   fun x hx => by unfold C13.P; rw [h.old x hx], h.scope, h.pkg, h.same⟩

/-- a reader-only step -/
theorem GrowE.ofLex {s s1 : PState} (b : Nat) (hs1 : s1 = { s with r := s1.r }) (ho : s.r.offset ≤ s1.r.offset + b) :
    GrowE b 0 s s1 := by
  have ht : s1.tree = s.tree := by rw [hs1]
  refine ⟨ho, by rw [ht]; exact Nat.le_refl _, by rw [ht]; omega, fun x _ => by rw [ht], by rw [hs1], by rw [hs1], ?_⟩
  rw [hs1]; exact ⟨rfl, rfl, rfl⟩

/-- turn equal-stack growth without backward movement into `Grow` -/
theorem GrowE.grow {m : Nat} {s s' : PState} (h : GrowE 0 m s s') : Grow m 0 s s' :=
  ⟨by have := h.offb; omega, h.pool, by have := h.poolUp; have := h.offb; omega, h.oldP,
   by rw [h.scope]; exact Nat.le_refl _, by rw [h.pkg]; exact Nat.le_refl _, by rw [h.scope, h.pkg]; omega,
   by rw [h.pkg]; have := h.offb; omega, h.same⟩

/-- what the field-list loop needs to know about its object and its insertion point -/
def FieldInv (s : PState) (curObj : Nat) (st : FieldSt) : Prop :=
  curObj < s.tree.pool.size ∧ st.appendAfter < s.tree.pool.size ∧ C13.P s.tree curObj ≠ INV ∧
  C13.P s.tree st.appendAfter = C13.P s.tree curObj

theorem FieldInv.mono {s s' : PState} {curObj : Nat} {st : FieldSt} {b m : Nat} (h : FieldInv s curObj st)
    (g : GrowE b m s s') : FieldInv s' curObj st :=
  ⟨Nat.lt_of_lt_of_le h.1 g.pool, Nat.lt_of_lt_of_le h.2.1 g.pool, by rw [g.oldP _ h.1]; exact h.2.2.1,
   by rw [g.oldP _ h.2.1, g.oldP _ h.1]; exact h.2.2.2⟩

/-- `case 0x00: // ReservedField` -/
theorem fieldReserved_tot {d : Bytes} {s : PState} (h : FP d s) (st : FieldSt) :
    ∃ a s', fieldReserved d st s = .ok (a, s') ∧ FP d s' ∧ GrowE 0 0 s s' ∧
      (∀ st', a = .inr st' → st'.appendAfter = st.appendAfter ∧ s.r.offset < s'.r.offset) := by
  unfold fieldReserved
  obtain ⟨pr, s1, e1, h1, hR, hs1⟩ := lex_step (rel_parsePkgLength d) h
  refine bind_ex e1 ?_
  rcases hR with ⟨hf, hr⟩ | ⟨hok, hp, hlt, _, _⟩
  · rw [if_pos hf]
    exact pure_ex ⟨h1, GrowE.ofLex 0 hs1 (by rw [hr]; omega), fun st' hc => by cases hc⟩
  · rw [if_neg (by rw [hok]; decide)]
    refine pure_ex ⟨h1, GrowE.ofLex 0 hs1 (by omega), ?_⟩
    intro st' hc
    cases hc
    exact ⟨rfl, hlt⟩

/-- one `parseNumConstant(1)` step of the access-field cases -/
theorem num1_step {d : Bytes} {s : PState} (h : FP d s) :
    ∃ v s1, lex (parseNumConstant d 1) s = .ok (v, s1) ∧ FP d s1 ∧ s1 = { s with r := s1.r } ∧
      s.r.offset ≤ s1.r.offset ∧ ((v.2 = .ok ∧ s1.r.offset = s.r.offset + 1) ∨ v.2 = .failed) := by
  obtain ⟨v, s1, e1, h1, hR, hs1⟩ := lex_step (rel_parseNumConstant d 1) h
  exact ⟨v, s1, e1, h1, hs1, hR.2.1, hR.2.2.2⟩

theorem fieldAccess_tot {d : Bytes} {s : PState} (h : FP d s) (st : FieldSt) :
    ∃ a s', fieldAccess d st s = .ok (a, s') ∧ FP d s' ∧ GrowE 0 0 s s' ∧
      (∀ st', a = .inr st' → st'.appendAfter = st.appendAfter ∧ s.r.offset < s'.r.offset) := by
  unfold fieldAccess
  obtain ⟨v1, s1, e1, h1, hs1, hle1, hres1⟩ := num1_step h
  refine bind_ex e1 ?_
  have g1 := GrowE.ofLex 0 hs1 (by omega)
  rcases hres1 with ⟨hok1, hoff1⟩ | hf1
  · rw [if_neg (by rw [hok1]; decide)]
    obtain ⟨v2, s2, e2, h2, hs2, hle2, hres2⟩ := num1_step h1
    refine bind_ex e2 ?_
    have g2 := g1.trans (GrowE.ofLex 0 hs2 (by omega))
    rcases hres2 with ⟨hok2, hoff2⟩ | hf2
    · rw [if_neg (by rw [hok2]; decide)]
      refine pure_ex ⟨h2, g2, ?_⟩
      intro st' hc; cases hc
      exact ⟨rfl, by omega⟩
    · rw [if_pos hf2]
      exact pure_ex ⟨h2, g2, fun st' hc => by cases hc⟩
  · rw [if_pos hf1]
    exact pure_ex ⟨h1, g1, fun st' hc => by cases hc⟩

theorem fieldExtAccess_tot {d : Bytes} {s : PState} (h : FP d s) (st : FieldSt) :
    ∃ a s', fieldExtAccess d st s = .ok (a, s') ∧ FP d s' ∧ GrowE 0 0 s s' ∧
      (∀ st', a = .inr st' → st'.appendAfter = st.appendAfter ∧ s.r.offset < s'.r.offset) := by
  unfold fieldExtAccess
  obtain ⟨v1, s1, e1, h1, hs1, hle1, hres1⟩ := num1_step h
  refine bind_ex e1 ?_
  have g1 := GrowE.ofLex 0 hs1 (by omega)
  rcases hres1 with ⟨hok1, hoff1⟩ | hf1
  · rw [if_neg (by rw [hok1]; decide)]
    obtain ⟨v2, s2, e2, h2, hs2, hle2, hres2⟩ := num1_step h1
    refine bind_ex e2 ?_
    have g2 := g1.trans (GrowE.ofLex 0 hs2 (by omega))
    rcases hres2 with ⟨hok2, hoff2⟩ | hf2
    · rw [if_neg (by rw [hok2]; decide)]
      obtain ⟨v3, s3, e3, h3, hs3, hle3, hres3⟩ := num1_step h2
      refine bind_ex e3 ?_
      have g3 := g2.trans (GrowE.ofLex 0 hs3 (by omega))
      rcases hres3 with ⟨hok3, hoff3⟩ | hf3
      · rw [if_neg (by rw [hok3]; decide)]
        refine pure_ex ⟨h3, g3, ?_⟩
        intro st' hc; cases hc
        exact ⟨rfl, by omega⟩
      · rw [if_pos hf3]
        exact pure_ex ⟨h3, g3, fun st' hc => by cases hc⟩
    · rw [if_pos hf2]
      exact pure_ex ⟨h2, g2, fun st' hc => by cases hc⟩
  · rw [if_pos hf1]
    exact pure_ex ⟨h1, g1, fun st' hc => by cases hc⟩

theorem derefP_some_ex {s : PState} (i : Nat) : derefP (some i) s = .ok (i, s) := rfl

/-- `default:` a named field -/
theorem fieldNamed_tot {d : Bytes} {s : PState} (h : FP d s) (curObj : Nat) (st : FieldSt) (hfi : FieldInv s curObj st)
    (hsz : s.tree.pool.size < INV) :
    ∃ a s', fieldNamed d curObj st s = .ok (a, s') ∧ FP d s' ∧ GrowE 1 1 s s' ∧
      (∀ st', a = .inr st' → FieldInv s' curObj st' ∧ s.r.offset + 3 < s'.r.offset) := by
  unfold fieldNamed
  obtain ⟨_, s1, e1, h1, hR1, hs1⟩ := lex_step (rel_unreadByte d) h
  refine bind_ex e1 ?_
  have g1 : GrowE 1 0 s s1 := GrowE.ofLex 1 hs1 (by have := hR1.2; omega)
  have hsz1 : s1.tree.pool.size < INV := by rw [hs1]; exact hsz
  obtain ⟨s2, e2, h2, f2, hr2, _⟩ := newObject_step h1 opIntNamedField hsz1 (by decide) info_const.2.2.2.2.2.2.2.2.2.2.1
  refine bind_ex e2 ?_
  have hn : s1.tree.pool.size = s.tree.pool.size := by rw [hs1]
  obtain ⟨off, s3, e3, h3, hR3, hs3⟩ := lex_step (rel_offset d) h2
  refine bind_ex e3 ?_
  have hr3 : s3.r = s2.r := hR3.2
  have ht3 : s3.tree = s2.tree := by rw [hs3]
  have hf3 : s1.tree.pool.size < s3.tree.pool.size := by rw [ht3, f2.size]; omega
  obtain ⟨s4, e4, h4, hp4, _, hr4⟩ := upd_step h3 hf3 (fun o => { o with amlOffset := off }) (by keeps_links) Iff.rfl
    (h3.tree.info _ hf3)
  refine bind_ex e4 ?_
  have hf4 : s1.tree.pool.size < s4.tree.pool.size := by rw [hp4.links.size]; exact hf3
  obtain ⟨b, s5, e5, h5, hp5, hoff5⟩ := readFieldName_tot (d := d) (field := s1.tree.pool.size) Gen.C12.amlNameLen 0 h4 hf4
  refine bind_ex e5 ?_
  have f5 : Fresh1 s1 s5 :=
    f2.thenPay (((PayOnly.ofLex _ hs3 (by rw [hr3]) (by rw [hr3]; exact Nat.le_refl _)).trans hp4).trans hp5)
  have g5 : GrowE 1 1 s s5 := g1.trans f5.growE
  cases b with
  | false => exact pure_ex ⟨h5, g5, fun st' hc => by cases hc⟩
  | true =>
    have ho5 := hoff5 rfl
    simp only [Bool.not_true, Bool.false_eq_true, ↓reduceIte]
    obtain ⟨pr, s6, e6, h6, hR6, hs6⟩ := lex_step (rel_parsePkgLength d) h5
    refine bind_ex e6 ?_
    have ht6 : s6.tree = s5.tree := by rw [hs6]
    rcases hR6 with ⟨hf, hr⟩ | ⟨hok, hp, hlt, _, _⟩
    · rw [if_pos (by rw [hf]; decide)]
      exact pure_ex ⟨h6, g5.trans (GrowE.ofLex 0 hs6 (by rw [hr]; omega)), fun st' hc => by cases hc⟩
    · rw [if_neg (by rw [hok]; decide)]
      have g6 : GrowE 1 1 s s6 := g5.trans (GrowE.ofLex 0 hs6 (by omega))
      have hc6 : curObj < s6.tree.pool.size := Nat.lt_of_lt_of_le hfi.1 g6.pool
      refine bind_ex (getObj_ex hc6) ?_
      have hfield6 : s1.tree.pool.size < s6.tree.pool.size := by rw [ht6, f5.size]; omega
      obtain ⟨s7, e7, h7, hp7, _, hr7⟩ := upd_step h6 hfield6
        (fun o => { o with value := Val.field st.nextFieldOffset pr.1 st.accessLength st.accessType st.accessAttrib st.lockType st.updateType st.connectionIndex (slot s6.tree curObj).index })
        (by keeps_links) Iff.rfl (h6.tree.info _ hfield6)
      refine bind_ex e7 ?_
      have g7 : GrowE 1 1 s s7 := g6.trans hp7.growE
      have fi7 : FieldInv s7 curObj st := hfi.mono g7
      -- the parent of curObj
      have hpar : C13.P s7.tree curObj = (slot s6.tree curObj).parentIndex := by
        rw [hp7.links.p]; rfl
      have hparlt : C13.P s7.tree curObj < curObj := h7.tree.mono curObj fi7.1 fi7.2.2.1
      have hparsz : C13.P s7.tree curObj < s7.tree.pool.size := by have := fi7.1; omega
      rw [← hpar]
      refine bind_ex (objectAt_live_ex h7 hparsz) ?_
      refine bind_ex (derefP_some_ex _) ?_
      -- the field is detached and newer than the parent
      have hfield7 : s1.tree.pool.size < s7.tree.pool.size := by rw [hp7.links.size]; exact hfield6
      have hpf : C13.P s7.tree s1.tree.pool.size = INV := by
        rw [hp7.links.p, ht6]; exact f5.pn
      have hlt : C13.P s7.tree curObj < s1.tree.pool.size := by rw [hn]; have := hfi.1; omega
      obtain ⟨t', e8, ht', _, hP8⟩ := treeOK_appendAfter h7.tree hlt hfield7 hpf fi7.2.1 fi7.2.2.2
      have sz8 : t'.pool.size = s7.tree.pool.size := (appendAfter_samePay e8).size
      refine bind_ex (tree_ex e8) (pure_ex ⟨h7.withTree ht' (by rw [sz8]; exact Nat.le_refl _), ?_, ?_⟩)
      · refine ⟨g7.offb, by show s.tree.pool.size ≤ t'.pool.size; rw [sz8]; exact g7.pool,
          by show t'.pool.size ≤ _; rw [sz8]; exact g7.poolUp, ?_, g7.scope, g7.pkg, g7.same⟩
        intro x hx
        show C13.P t' x = _
        rw [hP8, if_neg (by rw [hn]; omega)]
        exact g7.oldP x hx
      · intro st' hc
        cases hc
        refine ⟨⟨?_, ?_, ?_, ?_⟩, ?_⟩
        · show curObj < t'.pool.size; rw [sz8]; exact fi7.1
        · show s1.tree.pool.size < t'.pool.size; rw [sz8]; exact hfield7
        · show C13.P t' curObj ≠ INV
          rw [hP8, if_neg (by rw [hn]; have := hfi.1; omega)]; exact fi7.2.2.1
        · show C13.P t' s1.tree.pool.size = C13.P t' curObj
          rw [hP8, hP8, if_pos rfl, if_neg (by rw [hn]; have := hfi.1; omega)]
        · show s.r.offset + 3 < s7.r.offset
          have e1' : s1.r.offset = s.r.offset - 1 := hR1.2
          have : s4.r.offset = s1.r.offset := by rw [hr4, hr3, hr2]
          have : s5.r.offset = s4.r.offset + Gen.C12.amlNameLen := ho5
          have : Gen.C12.amlNameLen = 4 := rfl
          have : s7.r = s6.r := hr7
          rw [this]
          omega

theorem rel_parseByteListRaw (d : Bytes) (n : Nat) : LexRel d (parseByteListRaw d n) (fun r _ r' =>
    r'.pkgEnd = r.pkgEnd ∧ r'.offset = (if u32 (r.offset + n) > d.size then d.size else u32 (r.offset + n))) := by
  apply LexRel.of_wp
  intro r hr
  unfold parseByteListRaw
  have hi : Inv d { r with offset := if u32 (r.offset + n) > d.size then d.size else u32 (r.offset + n) } := by
    refine ⟨?_, hr.2⟩
    show (if u32 (r.offset + n) > d.size then d.size else u32 (r.offset + n)) ≤ d.size
    split <;> omega
  apply wp_bind
  apply wp_dataPtr hr
  · intro _
    apply wp_bind; apply wp_offset
    apply wp_bind; apply wp_setOffset
    exact wp_pure ⟨hi, rfl, rfl⟩
  · intro _
    apply wp_bind; apply wp_offset
    apply wp_bind; apply wp_setOffset
    exact wp_pure ⟨hi, rfl, rfl⟩

/-- `parseByteList(obj, n)` when the `n` bytes fit below `pkgEnd` -/
theorem parseByteList_tot {d : Bytes} (hd : d.size + 1024 ≤ 4294967296) {s : PState} (h : FP d s) {obj : Nat}
    (ho : obj < s.tree.pool.size) (n : Nat) (hfit : s.r.offset + n ≤ s.r.pkgEnd) :
    ∃ a s', parseByteList d obj n s = .ok (a, s') ∧ FP d s' ∧ PayOnly obj s s' ∧ s'.r.offset = s.r.offset + n := by
  unfold parseByteList
  have hl : KeepsLive s.tree obj (fun o => { o with opcode := opIntByteList }) := by
    unfold KeepsLive
    have hne : opIntByteList ≠ pOpIntFreedObject := by decide
    exact ⟨fun hc => absurd hc hne, fun hc => absurd hc (live_opcode_ne h.tree ho)⟩
  obtain ⟨s1, e1, h1, hp1, _, hr1⟩ := upd_step h ho (fun o => { o with opcode := opIntByteList }) (by keeps_links) hl
    (h.tree.info obj ho)
  refine bind_ex e1 ?_
  have ho1 : obj < s1.tree.pool.size := by rw [hp1.links.size]; exact ho
  obtain ⟨s2, e2, h2, hp2, _, hr2⟩ := upd_step h1 ho1
    (fun o => { o with infoIndex := pOpcodeTableIndex opIntByteList true }) (by keeps_links) Iff.rfl
    (by dsimp only; exact info_const.2.2.2.2.2.2.2.1)
  refine bind_ex e2 ?_
  obtain ⟨sl, s3, e3, h3, hR3, hs3⟩ := lex_step (rel_parseByteListRaw d n) h2
  refine bind_ex e3 ?_
  have ht3 : s3.tree = s2.tree := by rw [hs3]
  have ho3 : obj < s3.tree.pool.size := by rw [ht3, hp2.links.size]; exact ho1
  have hoff3 : s3.r.offset = s.r.offset + n := by
    rw [hR3.2, hr2, hr1]
    have h1' := h.inv.1; have h2' := h.inv.2
    have : u32 (s.r.offset + n) = s.r.offset + n := by unfold u32; omega
    rw [this]; split <;> omega
  obtain ⟨s4, e4, h4, hp4, _, hr4⟩ := upd_step h3 ho3 (fun o => { o with value := sliceVal sl }) (by keeps_links) Iff.rfl
    (h3.tree.info obj ho3)
  refine ⟨(), s4, e4, h4, ?_, by rw [hr4, hoff3]⟩
  refine ((hp1.trans hp2).trans (PayOnly.ofLex obj hs3 hR3.1 ?_)).trans hp4
  rw [hoff3, hr2, hr1]; omega

/-- `append(obj, arg)` as a step -/
theorem append_step {d : Bytes} {s : PState} (h : FP d s) {obj arg : Nat} (hlt : obj < arg) (ha : arg < s.tree.pool.size)
    (hp : C13.P s.tree arg = INV) :
    ∃ s1, tree (·.append obj arg) s = .ok ((), s1) ∧ FP d s1 ∧ s1 = { s with tree := s1.tree } ∧
      s1.tree.pool.size = s.tree.pool.size ∧ SamePay s.tree s1.tree ∧
      (∀ x, C13.P s1.tree x = if x = arg then obj else C13.P s.tree x) ∧ La s1.tree obj = arg := by
  obtain ⟨t', e, ht', sp, hP, hLa, _, _⟩ := treeOK_append h.tree hlt ha hp
  refine ⟨_, tree_ex e, h.withTree ht' (by rw [sp.size]; exact Nat.le_refl _), rfl, sp.size, sp, hP, ?_⟩
  show La t' obj = arg
  rw [hLa]; simp

/-- growth up to `s1`, then an append of an object that did not exist in the base state -/
theorem GrowE.thenAppend {b m : Nat} {s s1 s2 : PState} (g : GrowE b m s s1) {obj arg : Nat}
    (hs2 : s2 = { s1 with tree := s2.tree }) (hsz : s2.tree.pool.size = s1.tree.pool.size)
    (hP : ∀ x, C13.P s2.tree x = if x = arg then obj else C13.P s1.tree x) (hnew : s.tree.pool.size ≤ arg) :
    GrowE b m s s2 := by
  have hr : s2.r = s1.r := by rw [hs2]
  refine ⟨by rw [hr]; exact g.offb, by rw [hsz]; exact g.pool, by rw [hsz]; exact g.poolUp, ?_, by rw [hs2]; exact g.scope,
    by rw [hs2]; exact g.pkg, by rw [hs2]; exact g.same⟩
  intro x hx
  rw [hP, if_neg (by omega)]
  exact g.oldP x hx

theorem connName_tot {d : Bytes} (hd : d.size + 1024 ≤ 4294967296) {s : PState} (h : FP d s) (hsz : s.tree.pool.size < INV) :
    ∃ a s', connName d s = .ok (a, s') ∧ FP d s' ∧ GrowE 1 1 s s' ∧
      (∀ c, a = .inr c → c = s.tree.pool.size ∧ c < s'.tree.pool.size ∧ C13.P s'.tree c = INV ∧
        s.r.offset ≤ s'.r.offset) := by
  unfold connName
  obtain ⟨_, s1, e1, h1, hR1, hs1⟩ := lex_step (rel_unreadByte d) h
  refine bind_ex e1 ?_
  have g1 : GrowE 1 0 s s1 := GrowE.ofLex 1 hs1 (by have := hR1.2; omega)
  have hn : s1.tree.pool.size = s.tree.pool.size := by rw [hs1]
  obtain ⟨s2, e2, h2, f2, hr2, _⟩ := newObject_step h1 opIntNamePath (by rw [hn]; exact hsz) (by decide) info_const.2.2.2.2.2.2.1
  refine bind_ex e2 ?_
  obtain ⟨off, s3, e3, h3, hR3, hs3⟩ := lex_step (rel_offset d) h2
  refine bind_ex e3 ?_
  have hr3 : s3.r = s2.r := hR3.2
  have ht3 : s3.tree = s2.tree := by rw [hs3]
  have hf3 : s1.tree.pool.size < s3.tree.pool.size := by rw [ht3, f2.size]; omega
  obtain ⟨s4, e4, h4, hp4, _, hr4⟩ := upd_step h3 hf3 (fun o => { o with amlOffset := off }) (by keeps_links) Iff.rfl
    (h3.tree.info _ hf3)
  refine bind_ex e4 ?_
  have hf4 : s1.tree.pool.size < s4.tree.pool.size := by rw [hp4.links.size]; exact hf3
  obtain ⟨res, s5, e5, h5, hp5, hprog, _⟩ := setNameValue_tot hd h4 hf4
  refine bind_ex e5 ?_
  have f5 : Fresh1 s1 s5 :=
    f2.thenPay (((PayOnly.ofLex _ hs3 (by rw [hr3]) (by rw [hr3]; exact Nat.le_refl _)).trans hp4).trans hp5)
  have g5 : GrowE 1 1 s s5 := g1.trans f5.growE
  by_cases hres : res = .ok
  · rw [if_neg (by rw [hres]; decide)]
    refine pure_ex ⟨h5, g5, ?_⟩
    intro c hc
    cases hc
    refine ⟨hn, by rw [f5.size]; omega, f5.pn, ?_⟩
    rcases hprog with ⟨_, hlt⟩ | hf
    · have : s4.r.offset = s1.r.offset := by rw [hr4, hr3, hr2]
      have := hR1.2
      omega
    · rw [hres] at hf; cases hf
  · rw [if_pos hres]
    exact pure_ex ⟨h5, g5, fun c hc => by cases hc⟩

/-- reader-only: "Read data length" of a Connection buffer -/
theorem connBufferLen_tot {d : Bytes} (hd : d.size + 1024 ≤ 4294967296) {s : PState} (h : FP d s) (o p : Nat) :
    ∃ a s', connBufferLen d o p s = .ok (a, s') ∧ FP d s' ∧ s' = { s with r := s'.r } ∧ s.r.offset ≤ s'.r.offset := by
  unfold connBufferLen
  obtain ⟨b, s1, e1, h1, hR1, hs1⟩ := lex_step (rel_setPkgEnd d (u32 (o + p))) h
  refine bind_ex e1 ?_
  have ho1 : s1.r.offset = s.r.offset := hR1.1
  cases b with
  | false => exact pure_ex ⟨h1, hs1, by omega⟩
  | true =>
    simp only [Bool.not_true, Bool.false_eq_true, ↓reduceIte]
    obtain ⟨opr, s2, e2, h2, hR2, hs2⟩ := lex_step (rel_nextOpcode d hd) h1
    refine bind_ex e2 ?_
    have hs2' : s2 = { s with r := s2.r } := by rw [hs2, hs1]
    have ho2 : s1.r.offset ≤ s2.r.offset := by
      rcases hR2 with ⟨_, _, hr⟩ | ⟨_, _, _, _, hlt, _⟩
      · rw [hr]; exact Nat.le_refl _
      · omega
    by_cases hres : opr.2 = .ok
    · rw [if_neg (by rw [hres]; decide)]
      have fin : ∀ (dl : Nat × PRes) (s3 : PState), FP d s3 → s3 = { s with r := s3.r } → s.r.offset ≤ s3.r.offset →
          ∃ a s', (if dl.2 = .failed then pure (.inl dl.2) else pure (.inr dl.1) : P (Sum PRes Nat)) s3 = .ok (a, s') ∧
            FP d s' ∧ s' = { s with r := s'.r } ∧ s.r.offset ≤ s'.r.offset := by
        intro dl s3 h3 hs3 ho3
        split
        · exact pure_ex ⟨h3, hs3, ho3⟩
        · exact pure_ex ⟨h3, hs3, ho3⟩
      have numc : ∀ n, ∃ a s', ((lex (parseNumConstant d n) : P (Nat × PRes)) >>= fun dl =>
          (if dl.2 = .failed then pure (.inl dl.2) else pure (.inr dl.1) : P (Sum PRes Nat))) s2 = .ok (a, s') ∧
            FP d s' ∧ s' = { s with r := s'.r } ∧ s.r.offset ≤ s'.r.offset := by
        intro n
        obtain ⟨dl, s3, e3, h3, hR3, hs3⟩ := lex_step (rel_parseNumConstant d n) h2
        refine bind_ex e3 (fin dl s3 h3 (by rw [hs3, hs2']) (by have := hR3.2.1; omega))
      split
      · exact numc 1
      · split
        · exact numc 2
        · split
          · exact numc 4
          · exact bind_ex (s1 := s2) rfl (fin (0, PRes.ok) s2 h2 hs2' (by omega))
    · rw [if_pos hres]
      exact pure_ex ⟨h2, hs2', by omega⟩

theorem reader_ex (s : PState) : reader s = .ok (s.r, s) := rfl

/-- the tail of the Connection-buffer case -/
theorem connBufferFinish_tot {d : Bytes} (hd : d.size + 268435456 ≤ 4294967296) {s : PState} (h : FP d s)
    (hsz : s.tree.pool.size < INV) (origPkgEnd origOffset pkgLen dataLen : Nat) (hpl : pkgLen < 268435456)
    (hoo : origOffset ≤ d.size) :
    ∃ a s', connBufferFinish d origPkgEnd origOffset pkgLen dataLen s = .ok (a, s') ∧ FP d s' ∧
      GrowE (s.r.offset - origOffset) 1 s s' ∧
      (∀ c, a = .inr c → c = s.tree.pool.size ∧ c < s'.tree.pool.size ∧ C13.P s'.tree c = INV ∧
        origOffset ≤ s'.r.offset) := by
  have hd' : d.size + 1024 ≤ 4294967296 := by omega
  unfold connBufferFinish
  refine bind_ex (reader_ex s) ?_
  by_cases hfit : s.r.offset + dataLen > s.r.pkgEnd
  · rw [if_pos hfit]
    exact pure_ex ⟨h, (GrowE.refl s).weaken (by omega) (by omega), fun c hc => by cases hc⟩
  · rw [if_neg hfit]
    obtain ⟨s1, e1, h1, f1, hr1, _⟩ := newObject_step h opIntByteList hsz (by decide) info_const.2.2.2.2.2.2.2.1
    refine bind_ex e1 ?_
    have hc1 : s.tree.pool.size < s1.tree.pool.size := by rw [f1.size]; omega
    obtain ⟨s2, e2, h2, hp2, _, hr2⟩ := upd_step h1 hc1 (fun o => { o with amlOffset := origOffset }) (by keeps_links) Iff.rfl
      (h1.tree.info _ hc1)
    refine bind_ex e2 ?_
    have hc2 : s.tree.pool.size < s2.tree.pool.size := by rw [hp2.links.size]; exact hc1
    have hle : u32 dataLen ≤ dataLen := Nat.mod_le _ _
    obtain ⟨_, s3, e3, h3, hp3, hoff3⟩ := parseByteList_tot hd' h2 hc2 (u32 dataLen) (by rw [hr2, hr1]; omega)
    refine bind_ex e3 ?_
    obtain ⟨_, s4, e4, h4, hR4, hs4⟩ := lex_step (rel_setPkgEnd d origPkgEnd) h3
    refine bind_ex e4 ?_
    obtain ⟨_, s5, e5, h5, hR5, hs5⟩ := lex_step (rel_setOffset d (u32 (origOffset + pkgLen))) h4
    refine bind_ex e5 ?_
    have f3 : Fresh1 s s3 := f1.thenPay (hp2.trans hp3)
    have hfin : origOffset ≤ s5.r.offset := by
      rw [hR5.2]
      have : u32 (origOffset + pkgLen) = origOffset + pkgLen := by unfold u32; omega
      rw [this]; split <;> omega
    have g5 : GrowE (s.r.offset - origOffset) 1 s s5 := by
      have g3 := f3.growE
      have ht4 : s4.tree = s3.tree := by rw [hs4]
      have ht5 : s5.tree = s4.tree := by rw [hs5]
      refine ⟨by omega, by rw [ht5, ht4]; exact g3.pool, by rw [ht5, ht4]; exact g3.poolUp,
        fun x hx => by rw [ht5, ht4]; exact g3.oldP x hx, by rw [hs5, hs4]; exact g3.scope, by rw [hs5, hs4]; exact g3.pkg,
        by rw [hs5, hs4]; exact g3.same⟩
    refine pure_ex ⟨h5, g5, ?_⟩
    intro c hc
    cases hc
    have ht4 : s4.tree = s3.tree := by rw [hs4]
    have ht5 : s5.tree = s4.tree := by rw [hs5]
    exact ⟨rfl, by rw [ht5, ht4, f3.size]; omega, by rw [ht5, ht4]; exact f3.pn, hfin⟩

/-- `case uint8(pOpBuffer):` of a Connection -/
theorem connBuffer_tot {d : Bytes} (hd : d.size + 268435456 ≤ 4294967296) {s : PState} (h : FP d s)
    (hsz : s.tree.pool.size < INV) :
    ∃ a s', connBuffer d s = .ok (a, s') ∧ FP d s' ∧ GrowE 0 1 s s' ∧
      (∀ c, a = .inr c → c = s.tree.pool.size ∧ c < s'.tree.pool.size ∧ C13.P s'.tree c = INV) := by
  have hd' : d.size + 1024 ≤ 4294967296 := by omega
  unfold connBuffer
  refine bind_ex (reader_ex s) ?_
  obtain ⟨pr, s1, e1, h1, ⟨hR1, hv1⟩, hs1⟩ := lex_step (rel_parsePkgLengthV d) h
  refine bind_ex e1 ?_
  have ht1 : s1.tree = s.tree := by rw [hs1]
  have hoo : s.r.offset ≤ d.size := h.inv.1
  have ho1 : s.r.offset ≤ s1.r.offset := by
    rcases hR1 with ⟨_, hr⟩ | ⟨_, _, hlt, _, _⟩
    · rw [hr]; exact Nat.le_refl _
    · omega
  have g1 : GrowE 0 0 s s1 := GrowE.ofLex 0 hs1 (by omega)
  have conv : ∀ {s2 : PState} {a : Sum PRes Nat} {s' : PState}, GrowE 0 0 s s2 →
      GrowE (s2.r.offset - s.r.offset) 1 s2 s' →
      (∀ c, a = .inr c → c = s2.tree.pool.size ∧ c < s'.tree.pool.size ∧ C13.P s'.tree c = INV ∧ s.r.offset ≤ s'.r.offset) →
      s2.tree.pool.size = s.tree.pool.size →
      GrowE 0 1 s s' ∧ (∀ c, a = .inr c → c = s.tree.pool.size ∧ c < s'.tree.pool.size ∧ C13.P s'.tree c = INV) := by
    intro s2 a s' g2 gf hc hn
    have gt := g2.trans gf
    refine ⟨⟨?_, gt.pool, by have := gt.poolUp; omega, gt.oldP, gt.scope, gt.pkg, gt.same⟩, ?_⟩
    · have := gf.offb; have := g2.offb; omega
    · intro c hcc
      obtain ⟨h1, h2, h3, _⟩ := hc c hcc
      exact ⟨by rw [h1, hn], h2, h3⟩
  by_cases hres : pr.2 = .ok
  · rw [if_neg (by rw [hres]; decide)]
    by_cases hpos : pr.1 > 0
    · rw [if_pos hpos]
      obtain ⟨a2, s2, e2, h2, hs2, ho2⟩ := connBufferLen_tot hd' h1 s.r.offset pr.1
      refine bind_ex e2 ?_
      have ht2 : s2.tree = s.tree := by rw [hs2, ht1]
      cases a2 with
      | inl res => exact pure_ex ⟨h2, (g1.trans (GrowE.ofLex 0 hs2 (by omega))).weaken (by omega) (by omega), fun c hc => by cases hc⟩
      | inr dataLen =>
        obtain ⟨a, s', e3, h3, g3, hc3⟩ := connBufferFinish_tot hd h2 (by rw [ht2]; exact hsz) s.r.pkgEnd s.r.offset pr.1 dataLen hv1 hoo
        have := conv (g1.trans (GrowE.ofLex 0 hs2 (by omega))) g3 hc3 (by rw [ht2])
        exact ⟨a, s', e3, h3, this.1, this.2⟩
    · rw [if_neg hpos]
      obtain ⟨a, s', e3, h3, g3, hc3⟩ := connBufferFinish_tot hd h1 (by rw [ht1]; exact hsz) s.r.pkgEnd s.r.offset pr.1 0 hv1 hoo
      have := conv g1 g3 hc3 (by rw [ht1])
      exact ⟨a, s', e3, h3, this.1, this.2⟩
  · rw [if_pos hres]
    exact pure_ex ⟨h1, g1.weaken (by omega) (by omega), fun c hc => by cases hc⟩

/-- `case 0x02: // Connection` -/
theorem fieldConnection_tot {d : Bytes} (hd : d.size + 268435456 ≤ 4294967296) {s : PState} (h : FP d s)
    (curObj : Nat) (st : FieldSt) (hc : curObj < s.tree.pool.size) (hsz : s.tree.pool.size + 1 < INV) :
    ∃ a s', fieldConnection d curObj st s = .ok (a, s') ∧ FP d s' ∧ GrowE 0 2 s s' ∧
      (∀ st', a = .inr st' → st'.appendAfter = st.appendAfter ∧ s.r.offset < s'.r.offset) := by
  have hd' : d.size + 1024 ≤ 4294967296 := by omega
  unfold fieldConnection
  obtain ⟨ob, s1, e1, h1, hR1, hs1⟩ := lex_step (rel_readByte d) h
  refine bind_ex e1 ?_
  have ht1 : s1.tree = s.tree := by rw [hs1]
  rcases hR1 with ⟨hn, hr, _⟩ | ⟨b, hb, hr, hlt⟩
  · subst hn
    exact pure_ex ⟨h1, (GrowE.ofLex 0 hs1 (by rw [hr]; omega)).weaken (by omega) (by omega), fun st' hc => by cases hc⟩
  · subst hb
    have ho1 : s1.r.offset = s.r.offset + 1 := by rw [hr]
    have g1 : GrowE 0 0 s s1 := GrowE.ofLex 0 hs1 (by omega)
    dsimp only
    obtain ⟨s2, e2, h2, f2, hr2, hnew2⟩ := newObject_step h1 opIntConnection (by rw [ht1]; omega) (by decide)
      info_const.2.2.2.2.2.2.2.2.2.1
    refine bind_ex e2 ?_
    have hn1 : s1.tree.pool.size = s.tree.pool.size := by rw [ht1]
    have hc2 : s1.tree.pool.size < s2.tree.pool.size := by rw [f2.size]; omega
    refine bind_ex (getObj_ex hc2) ?_
    have hcur2 : curObj < s1.tree.pool.size := by rw [hn1]; exact hc
    obtain ⟨s3, e3, h3, hs3, hsz3, _, hP3, _⟩ := append_step h2 hcur2 hc2 f2.pn
    refine bind_ex e3 ?_
    have g3 : GrowE 0 1 s s3 := (g1.trans f2.growE).thenAppend hs3 hsz3 hP3 (by omega)
    have hsz3' : s3.tree.pool.size = s.tree.pool.size + 1 := by rw [hsz3, f2.size, hn1]
    have hr3 : s3.r = s2.r := by rw [hs3]
    -- the connection argument
    have arg : ∃ a s4, (if b.toNat = opBuffer then connBuffer d else connName d) s3 = .ok (a, s4) ∧ FP d s4 ∧ GrowE 1 1 s3 s4 ∧
        (∀ c, a = .inr c → c = s3.tree.pool.size ∧ c < s4.tree.pool.size ∧ C13.P s4.tree c = INV ∧
          s3.r.offset ≤ s4.r.offset) := by
      split
      · obtain ⟨a, s4, e4, h4, g4, hc4⟩ := connBuffer_tot hd h3 (by omega)
        refine ⟨a, s4, e4, h4, g4.weaken (by omega) (by omega), ?_⟩
        intro c hcc
        obtain ⟨q1, q2, q3⟩ := hc4 c hcc
        exact ⟨q1, q2, q3, by have := g4.offb; omega⟩
      · exact connName_tot hd' h3 (by omega)
    obtain ⟨a, s4, e4, h4, g4, hc4⟩ := arg
    refine bind_ex e4 ?_
    have g4' : GrowE 1 2 s s4 := g3.trans g4
    have hoff4 : s.r.offset ≤ s4.r.offset := by
      have := g4.offb; rw [hr3, hr2, ho1] at this; omega
    cases a with
    | inl res =>
      exact pure_ex ⟨h4, ⟨by omega, g4'.pool, g4'.poolUp, g4'.oldP, g4'.scope, g4'.pkg, g4'.same⟩, fun st' hc => by cases hc⟩
    | inr connArg =>
      obtain ⟨q1, q2, q3, q4⟩ := hc4 connArg rfl
      have hconn4 : s1.tree.pool.size < connArg := by rw [q1, hsz3, f2.size]; omega
      obtain ⟨s5, e5, h5, hs5, hsz5, _, hP5, _⟩ := append_step h4 hconn4 q2 q3
      refine bind_ex e5 (pure_ex ⟨h5, ?_, ?_⟩)
      · have g5 := g4'.thenAppend hs5 hsz5 hP5 (by rw [q1, hsz3']; omega)
        have hr5 : s5.r = s4.r := by rw [hs5]
        exact ⟨by rw [hr5]; omega, g5.pool, g5.poolUp, g5.oldP, g5.scope, g5.pkg, g5.same⟩
      · intro st' hcc
        cases hcc
        have hr5 : s5.r = s4.r := by rw [hs5]
        refine ⟨rfl, ?_⟩
        rw [hr5]; rw [hr3, hr2, ho1] at q4; omega

/-- one iteration of the field-list loop (the reader is not at EOF) -/
theorem fieldStep_tot {d : Bytes} (hd : d.size + 268435456 ≤ 4294967296) {s : PState} (h : FP d s)
    (curObj : Nat) (st : FieldSt) (hfi : FieldInv s curObj st) (hsz : s.tree.pool.size + 1 < INV)
    (hne : s.r.offset < s.r.pkgEnd) :
    ∃ a s', fieldStep d curObj st s = .ok (a, s') ∧ FP d s' ∧ GrowE 0 2 s s' ∧
      (∀ st', a = .inr st' → FieldInv s' curObj st' ∧ s.r.offset < s'.r.offset) := by
  unfold fieldStep
  obtain ⟨ob, s1, e1, h1, hR1, hs1⟩ := lex_step (rel_readByte d) h
  refine bind_ex e1 ?_
  have ht1 : s1.tree = s.tree := by rw [hs1]
  rcases hR1 with ⟨_, _, hge⟩ | ⟨b, hb, hr, _⟩
  · omega
  · subst hb
    have ho1 : s1.r.offset = s.r.offset + 1 := by rw [hr]
    have g1 : GrowE 0 0 s s1 := GrowE.ofLex 0 hs1 (by omega)
    have fi1 : FieldInv s1 curObj st := hfi.mono g1
    have same : ∀ {a : FieldStep} {s' : PState}, FP d s' → GrowE 0 0 s1 s' →
        (∀ st', a = .inr st' → st'.appendAfter = st.appendAfter ∧ s1.r.offset < s'.r.offset) →
        FP d s' ∧ GrowE 0 2 s s' ∧ (∀ st', a = .inr st' → FieldInv s' curObj st' ∧ s.r.offset < s'.r.offset) := by
      intro a s' h' g' hc'
      refine ⟨h', (g1.trans g').weaken (by omega) (by omega), ?_⟩
      intro st' hcc
      obtain ⟨q1, q2⟩ := hc' st' hcc
      have := fi1.mono g'
      exact ⟨⟨this.1, by rw [q1]; exact this.2.1, this.2.2.1, by rw [q1]; exact this.2.2.2⟩, by omega⟩
    split
    · obtain ⟨a, s', e, h', g', hc'⟩ := fieldReserved_tot h1 st
      exact ⟨a, s', e, same h' g' hc'⟩
    · split
      · obtain ⟨a, s', e, h', g', hc'⟩ := fieldAccess_tot h1 st
        exact ⟨a, s', e, same h' g' hc'⟩
      · split
        · obtain ⟨a, s', e, h', g', hc'⟩ := fieldExtAccess_tot h1 st
          exact ⟨a, s', e, same h' g' hc'⟩
        · split
          · obtain ⟨a, s', e, h', g', hc'⟩ := fieldConnection_tot hd h1 curObj st fi1.1 (by rw [ht1]; exact hsz)
            refine ⟨a, s', e, h', (g1.trans g').weaken (by omega) (by omega), ?_⟩
            intro st' hcc
            obtain ⟨q1, q2⟩ := hc' st' hcc
            have := fi1.mono g'
            exact ⟨⟨this.1, by rw [q1]; exact this.2.1, this.2.2.1, by rw [q1]; exact this.2.2.2⟩, by omega⟩
          · obtain ⟨a, s', e, h', g', hc'⟩ := fieldNamed_tot h1 curObj st fi1 (by rw [ht1]; omega)
            have gt := g1.trans g'
            refine ⟨a, s', e, h', ⟨by have := g'.offb; omega, gt.pool, by have := gt.poolUp; omega, gt.oldP, gt.scope, gt.pkg, gt.same⟩, ?_⟩
            intro st' hcc
            obtain ⟨q1, q2⟩ := hc' st' hcc
            exact ⟨q1, by omega⟩

/-- the object budget: `k` more objects fit besides 16 for every byte not yet consumed -/
def Bud (d : Bytes) (k : Nat) (s : PState) : Prop := s.tree.pool.size + 16 * (d.size - s.r.offset) + k ≤ INV

theorem Bud.step {d : Bytes} {k c g : Nat} {s s' : PState} (h : Bud d k s) (hg : Grow c g s s') (hi : s'.r.offset ≤ d.size)
    (hck : c ≤ k) : Bud d (k - c) s' := by
  unfold Bud at h ⊢
  have := hg.budget; have := hg.off
  omega

/-- an equal-stacks step that consumed a byte and made at most 16 objects -/
theorem GrowE.growProg {m : Nat} {s s' : PState} (h : GrowE 0 m s s') (hp : s.r.offset < s'.r.offset) (hm : m ≤ 16) :
    Grow 0 0 s s' :=
  ⟨by omega, h.pool, by have := h.poolUp; omega, h.oldP, by rw [h.scope]; exact Nat.le_refl _, by rw [h.pkg]; exact Nat.le_refl _,
   by rw [h.scope, h.pkg]; omega, by rw [h.pkg]; omega, h.same⟩

/-- the `for !p.r.EOF()` loop of `parseFieldElements` -/
theorem fieldLoop_tot {d : Bytes} (hd : d.size + 268435456 ≤ 4294967296) (curObj : Nat) :
    ∀ (f : Nat) (st : FieldSt) {s : PState}, FP d s → FieldInv s curObj st → Bud d 2 s → d.size - s.r.offset + 1 ≤ f →
    ∃ res s', fieldLoop d curObj f st s = .ok (res, s') ∧ FP d s' ∧ Grow 2 0 s s' ∧
      s'.scopeStack = s.scopeStack ∧ s'.pkgEndStack = s.pkgEndStack := by
  intro f
  induction f with
  | zero => intro st s _ _ _ hf; omega
  | succ f ih =>
    intro st s h hfi hb hf
    unfold fieldLoop
    obtain ⟨b, s1, e1, h1, hR1, hs1⟩ := lex_step (rel_eof d) h
    refine bind_ex e1 ?_
    have hs : s1 = s := by rw [hs1, hR1.2]
    subst hs
    rw [hR1.1]
    by_cases he : s1.r.eof = true
    · rw [if_pos he]
      exact pure_ex ⟨h, (Grow.refl s1).weaken (by omega) (by omega), rfl, rfl⟩
    · rw [if_neg he]
      have hne : s1.r.offset < s1.r.pkgEnd := by
        unfold Reader.eof at he; simp at he; exact he
      have hsz : s1.tree.pool.size + 1 < INV := by unfold Bud at hb; omega
      obtain ⟨a, s2, e2, h2, g2, hc2⟩ := fieldStep_tot hd h curObj st hfi hsz hne
      refine bind_ex e2 ?_
      cases a with
      | inl res => exact pure_ex ⟨h2, g2.grow, g2.scope, g2.pkg⟩
      | inr st' =>
        obtain ⟨fi2, hp2⟩ := hc2 st' rfl
        have gg := g2.growProg hp2 (by omega)
        have hi2 := h2.inv.1
        have hb2 : Bud d 2 s2 := by have := hb.step gg hi2 (by omega); exact this
        obtain ⟨res, s3, e3, h3, g3, hsc3, hpk3⟩ := ih st' h2 fi2 hb2 (by omega)
        refine ⟨res, s3, e3, h3, ?_, by rw [hsc3, g2.scope], by rw [hpk3, g2.pkg]⟩
        have := gg.trans g3
        exact this.weaken (by omega) (by omega)

/-- `parseFieldElements(curObj)`: `curObj` is attached and its last argument is an integer -/
theorem parseFieldElements_tot {d : Bytes} (hd : d.size + 268435456 ≤ 4294967296) {s : PState} (h : FP d s) (curObj : Nat)
    (hc : curObj < s.tree.pool.size) (hp : C13.P s.tree curObj ≠ INV) (hla : La s.tree curObj < s.tree.pool.size)
    (hv : ∃ v, (slot s.tree (La s.tree curObj)).value = .u64 v) (hb : Bud d 2 s) :
    ∃ res s', parseFieldElements d curObj s = .ok (res, s') ∧ FP d s' ∧ Grow 2 0 s s' ∧
      s'.scopeStack = s.scopeStack ∧ s'.pkgEndStack = s.pkgEndStack := by
  unfold parseFieldElements
  refine bind_ex (getObj_ex hc) ?_
  refine bind_ex (objectAt_live_ex h hla) ?_
  refine bind_ex (derefP_some_ex _) ?_
  obtain ⟨v, hv⟩ := hv
  have e4 : u64Value (La s.tree curObj) s = .ok (v, s) := by
    unfold u64Value
    show (StateT.bind _ _) s = _
    simp only [StateT.bind, getObj_ex hla, bind, Except.bind, hv]
    rfl
  refine bind_ex e4 ?_
  exact fieldLoop_tot hd curObj (d.size + 1) _ h ⟨hc, hc, hp, rfl⟩ hb (by omega)

/-! ## the remaining argument kinds -/

/-- growth up to `s1`, then an append of an object that did not exist in the base state -/
theorem Grow.thenAppend {c g : Nat} {s s1 s2 : PState} (gr : Grow c g s s1) {obj arg : Nat}
    (hs2 : s2 = { s1 with tree := s2.tree }) (hsz : s2.tree.pool.size = s1.tree.pool.size)
    (hP : ∀ x, C13.P s2.tree x = if x = arg then obj else C13.P s1.tree x) (hnew : s.tree.pool.size ≤ arg) :
    Grow c g s s2 := by
  have hr : s2.r = s1.r := by rw [hs2]
  have hsc : s2.scopeStack = s1.scopeStack := by rw [hs2]
  have hpk : s2.pkgEndStack = s1.pkgEndStack := by rw [hs2]
  refine ⟨by rw [hr]; exact gr.off, by rw [hsz]; exact gr.pool, by rw [hsz, hr]; exact gr.budget, ?_,
    by rw [hsc]; exact gr.sc, by rw [hpk]; exact gr.pk, by rw [hsc, hpk]; exact gr.scpk, by rw [hpk, hr]; exact gr.pkoff,
    by rw [hs2]; exact gr.same⟩
  intro x hx
  rw [hP, if_neg (by omega)]
  exact gr.oldP x hx

theorem optP_ex {α : Type} (a : α) (s : PState) : optP (some a) s = .ok (a, s) := rfl
theorem allBlocks_ex (s : PState) : allBlocks s = .ok (s.allBlocks, s) := rfl

/-- `pushPkgEnd(e)` -/
theorem pushPkgEnd_step {d : Bytes} {s : PState} (h : FP d s) (e : Nat) :
    ∃ b s', pushPkgEnd d e s = .ok (b, s') ∧ FP d s' ∧
      s' = { s with pkgEndStack := s.pkgEndStack.push e, r := s'.r } ∧ s'.r.offset = s.r.offset := by
  unfold pushPkgEnd
  have e0 : (modify fun s => { s with pkgEndStack := s.pkgEndStack.push e } : P Unit) s =
      .ok ((), { s with pkgEndStack := s.pkgEndStack.push e }) := rfl
  refine bind_ex e0 ?_
  have h0 : FP d { s with pkgEndStack := s.pkgEndStack.push e } := ⟨h.inv, h.tree, h.scopes, h.skip⟩
  obtain ⟨b, s1, e1, h1, hR1, hs1⟩ := lex_step (rel_setPkgEnd d e) h0
  exact ⟨b, s1, e1, h1, hs1, hR1.1⟩

/-- `case pArgTypePkgLen:` in the first pass -/
theorem parsePkgLenArg_tot {d : Bytes} (hd : d.size + 268435456 ≤ 4294967296) {s : PState} (h : FP d s) (info curObj : Nat)
    (hc : curObj < s.tree.pool.size) (hinfo : InfoOK info) :
    ∃ a s', parsePkgLenArg d info curObj s = .ok (a, s') ∧ FP d s' ∧ a.1 = none ∧ Grow 0 0 s s' ∧
      s'.scopeStack = s.scopeStack ∧ s'.tree.pool.size = s.tree.pool.size ∧
      (a.2 = .ok → s'.pkgEndStack.size = s.pkgEndStack.size + 1) := by
  unfold parsePkgLenArg
  obtain ⟨o0, s1, e1, h1, hR1, hs1⟩ := lex_step (rel_offset d) h
  refine bind_ex e1 ?_
  have hss : s1 = s := by rw [hs1, hR1.2]
  subst hss
  obtain ⟨pr, s2, e2, h2, hR2, hs2⟩ := lex_step (rel_parsePkgLengthV d) h
  refine bind_ex e2 ?_
  have ht2 : s2.tree = s1.tree := by rw [hs2]
  have hsc2 : s2.scopeStack = s1.scopeStack := by rw [hs2]
  have hpk2 : s2.pkgEndStack = s1.pkgEndStack := by rw [hs2]
  have hle2 : s1.r.offset ≤ s2.r.offset := by
    rcases hR2.1 with ⟨_, hr⟩ | ⟨_, _, hlt, _⟩
    · rw [hr]; exact Nat.le_refl _
    · omega
  have g2 : Grow 0 0 s1 s2 := by rw [hs2]; exact Grow.ofR s1 _ hle2
  split
  · exact pure_ex ⟨h2, rfl, g2, hsc2, by rw [ht2], fun hc2 => by rename_i hne; exact absurd hc2 hne⟩
  · rename_i hok
    have hok : pr.2 = .ok := by
      by_cases hq : pr.2 = .ok
      · exact hq
      · exact absurd hq hok
    obtain ⟨hlt2, hoff2⟩ : s1.r.offset < s2.r.offset ∧ s2.r.offset ≤ s1.r.offset + 4 := by
      rcases hR2.1 with ⟨hf, _⟩ | ⟨_, _, hlt, hle, _⟩
      · rw [hok] at hf; cases hf
      · exact ⟨hlt, hle⟩
    have hv := hR2.2
    obtain ⟨fl, hfl⟩ := opFlags_of_info hinfo
    rw [hfl]
    refine bind_ex (optP_ex fl s2) ?_
    refine bind_ex (allBlocks_ex s2) ?_
    have hi1 := h.inv.1
    have hu : u32 (o0 + pr.1) = s1.r.offset + pr.1 := by rw [hR1.1]; unfold u32; omega
    rw [hu]
    split
    · -- deferred: remember the end of the block and skip it
      have hc2 : curObj < s2.tree.pool.size := by rw [ht2]; exact hc
      obtain ⟨s3, e3, h3, hp3, _, hr3⟩ := upd_step h2 hc2 (fun o => { o with pkgEnd := s1.r.offset + pr.1 }) (by keeps_links) Iff.rfl
        (h2.tree.info curObj hc2)
      refine bind_ex e3 ?_
      obtain ⟨_, s4, e4, h4, hR4, hs4⟩ := lex_step (rel_setOffset d (s1.r.offset + pr.1)) h3
      refine bind_ex e4 (pure_ex ⟨h4, rfl, ?_, ?_, ?_, fun hc4 => by cases hc4⟩)
      · have hle4 : s3.r.offset ≤ s4.r.offset + 4 ∧ s1.r.offset ≤ s4.r.offset := by
          rw [hR4.2, hr3]; split <;> omega
        have g3 : Grow 0 0 s1 s3 := g2.trans hp3.grow
        have ht4 : s4.tree = s3.tree := by rw [hs4]
        have hsc4 : s4.scopeStack = s3.scopeStack := by rw [hs4]
        have hpk4 : s4.pkgEndStack = s3.pkgEndStack := by rw [hs4]
        refine ⟨hle4.2, by rw [ht4]; exact g3.pool, ?_, fun x hx => by rw [ht4]; exact g3.oldP x hx,
          by rw [hsc4]; exact g3.sc, by rw [hpk4]; exact g3.pk, ?_, ?_, by rw [hs4]; exact g3.same⟩
        · rw [ht4, hp3.links.size, ht2]; omega
        · rw [hsc4, hpk4, hp3.scope, hp3.pkg, hsc2, hpk2]; omega
        · rw [hpk4, hp3.pkg, hpk2]; omega
      · have : s4.scopeStack = s3.scopeStack := by rw [hs4]
        rw [this, hp3.scope, hsc2]
      · have : s4.tree = s3.tree := by rw [hs4]
        rw [this, hp3.links.size, ht2]
    · obtain ⟨b, s3, e3, h3, hs3, ho3⟩ := pushPkgEnd_step h2 (s1.r.offset + pr.1)
      refine bind_ex e3 ?_
      have ht3 : s3.tree = s2.tree := by rw [hs3]
      have hsc3 : s3.scopeStack = s2.scopeStack := by rw [hs3]
      have hpk3 : s3.pkgEndStack = s2.pkgEndStack.push (s1.r.offset + pr.1) := by rw [hs3]
      have hsame3 : s3.allBlocks = s2.allBlocks ∧ s3.tableHandle = s2.tableHandle ∧ s3.streamEnd = s2.streamEnd := by
        rw [hs3]; exact ⟨rfl, rfl, rfl⟩
      have g3 : Grow 0 0 s1 s3 := by
        refine ⟨by omega, by rw [ht3, ht2]; exact Nat.le_refl _, by rw [ht3, ht2]; omega, fun x _ => by rw [ht3, ht2],
          by rw [hsc3, hsc2]; exact Nat.le_refl _, by rw [hpk3, hpk2]; simp, by rw [hsc3, hsc2, hpk3, hpk2]; simp,
          by rw [hpk3, hpk2]; simp; omega, ?_⟩
        rw [hsame3.1, hsame3.2.1, hsame3.2.2]; exact g2.same
      have hfin : FP d s3 ∧ Grow 0 0 s1 s3 ∧ s3.scopeStack = s1.scopeStack ∧ s3.tree.pool.size = s1.tree.pool.size ∧
          s3.pkgEndStack.size = s1.pkgEndStack.size + 1 :=
        ⟨h3, g3, by rw [hsc3, hsc2], by rw [ht3, ht2], by rw [hpk3, hpk2]; simp⟩
      split
      · exact pure_ex ⟨hfin.1, rfl, hfin.2.1, hfin.2.2.1, hfin.2.2.2.1, fun hc4 => by cases hc4⟩
      · exact pure_ex ⟨hfin.1, rfl, hfin.2.1, hfin.2.2.1, hfin.2.2.2.1, fun _ => hfin.2.2.2.2⟩

/-- the scope block of a `TermList` argument: a fresh detached object whose index is pushed on the scope stack -/
theorem newScopeBlock_tot {d : Bytes} {s : PState} (h : FP d s) (hsz : s.tree.pool.size < INV) :
    ∃ a s', newScopeBlock s = .ok (a, s') ∧ a = s.tree.pool.size ∧ FP d s' ∧ Grow 1 1 s s' ∧
      s'.tree.pool.size = s.tree.pool.size + 1 ∧ C13.P s'.tree s.tree.pool.size = INV ∧
      s'.scopeStack = s.scopeStack.push s.tree.pool.size ∧ s'.pkgEndStack = s.pkgEndStack ∧ s'.r = s.r := by
  unfold newScopeBlock
  obtain ⟨s1, e1, h1, f1, hr1, hnew1⟩ := newObject_step h opIntScopeBlock hsz (by decide) info_const.2.2.2.2.2.2.2.2.1
  refine bind_ex e1 ?_
  obtain ⟨off, s2, e2, h2, hR2, hs2⟩ := lex_step (rel_offset d) h1
  refine bind_ex e2 ?_
  have hss : s2 = s1 := by rw [hs2, hR2.2]
  subst hss
  have hobj : s.tree.pool.size < s2.tree.pool.size := by rw [f1.size]; omega
  obtain ⟨s3, e3, h3, hp3, hsl3, hr3⟩ := upd_step h2 hobj (fun o => { o with amlOffset := off }) (by keeps_links) Iff.rfl
    (h2.tree.info _ hobj)
  refine bind_ex e3 ?_
  have hobj3 : s.tree.pool.size < s3.tree.pool.size := by rw [hp3.links.size]; exact hobj
  refine bind_ex (getObj_ex hobj3) ?_
  have hidx : (slot s3.tree s.tree.pool.size).index = s.tree.pool.size := by
    rw [hsl3, hnew1]; rfl
  rw [hidx]
  have f3 : Fresh1 s s3 := f1.thenPay hp3
  have e4 : scopeEnter s.tree.pool.size s3 = .ok ((), { s3 with scopeStack := s3.scopeStack.push s.tree.pool.size }) := rfl
  refine bind_ex e4 (pure_ex ⟨rfl, ?_, ?_, f3.size, f3.pn, by rw [← f3.scope], f3.pkg, by show s3.r = s.r; rw [hr3, hr1]⟩)
  · refine ⟨h3.inv, h3.tree, ?_, h3.skip⟩
    intro x hx
    show x < s3.tree.pool.size
    simp only [Array.toList_push, List.mem_append, List.mem_singleton] at hx
    rcases hx with hx | hx
    · exact h3.scopes x hx
    · rw [hx]; exact hobj3
  · have g3 := f3.grow
    exact ⟨g3.off, g3.pool, g3.budget, g3.oldP, by show s.scopeStack.size ≤ (s3.scopeStack.push _).size; rw [f3.scope]; simp,
      g3.pk, by show (s3.scopeStack.push _).size + _ ≤ _; rw [f3.scope, f3.pkg]; simp; omega, g3.pkoff, g3.same⟩

/-- first-pass branch of `parseNamePathOrMethodCall` -/
theorem namePathOrCallObject_tot {d : Bytes} {s : PState} (h : FP d s) (hsz : s.tree.pool.size < INV)
    (hne : s.scopeStack.size ≠ 0) (curOffset : Nat) (pathExpr : Slice) :
    ∃ res s', namePathOrCallObject curOffset pathExpr s = .ok (res, s') ∧ res = .ok ∧ FP d s' ∧ Grow 1 0 s s' ∧
      s'.r = s.r ∧ s'.scopeStack = s.scopeStack ∧ s'.pkgEndStack = s.pkgEndStack := by
  unfold namePathOrCallObject
  obtain ⟨s1, e1, h1, f1, hr1, hnew1⟩ := newObject_step h opIntNamePathOrMethodCall hsz (by decide)
    info_const.2.2.2.2.2.2.2.2.2.2.2.1
  refine bind_ex e1 ?_
  have hobj : s.tree.pool.size < s1.tree.pool.size := by rw [f1.size]; omega
  obtain ⟨s2, e2, h2, hp2, _, hr2⟩ := upd_step h1 hobj (fun o => { o with amlOffset := curOffset }) (by keeps_links) Iff.rfl
    (h1.tree.info _ hobj)
  refine bind_ex e2 ?_
  have hobj2 : s.tree.pool.size < s2.tree.pool.size := by rw [hp2.links.size]; exact hobj
  obtain ⟨s3, e3, h3, hp3, _, hr3⟩ := upd_step h2 hobj2 (fun o => { o with value := sliceVal pathExpr }) (by keeps_links) Iff.rfl
    (h2.tree.info _ hobj2)
  refine bind_ex e3 ?_
  have hobj3 : s.tree.pool.size < s3.tree.pool.size := by rw [hp3.links.size]; exact hobj2
  have f3 : Fresh1 s s3 := (f1.thenPay hp2).thenPay hp3
  have hne3 : s3.scopeStack.size ≠ 0 := by rw [f3.scope]; exact hne
  obtain ⟨sc, e4, hsc⟩ := scopeCurrent_ex h3 hne3
  refine bind_ex e4 ?_
  refine bind_ex (derefP_some_ex sc) ?_
  have hscs : sc < s.tree.pool.size := by
    have hmem : sc ∈ s.scopeStack.toList := by
      unfold scopeCurrent at e4
      cases hb : s3.scopeStack.back? with
      | none => rw [hb] at e4; cases e4
      | some x =>
        rw [hb] at e4
        have : x = sc := by
          simp only [objectAt_live (h3.tree.allLive x (h3.scopes x (Array.mem_toList_iff.mpr (Array.mem_of_back? hb))))] at e4
          cases e4; rfl
        rw [← this, ← f3.scope]
        exact Array.mem_toList_iff.mpr (Array.mem_of_back? hb)
    exact h.scopes sc hmem
  obtain ⟨s5, e5, h5, hs5, hsz5, _, hP5, _⟩ := append_step h3 hscs hobj3 (by rw [hp3.links.p, hp2.links.p]; exact f1.pn)
  refine bind_ex e5 (pure_ex ⟨rfl, h5, f3.grow.thenAppend hs5 hsz5 hP5 (Nat.le_refl _), ?_, ?_, ?_⟩)
  · have : s5.r = s3.r := by rw [hs5]
    rw [this, hr3, hr2, hr1]
  · have : s5.scopeStack = s3.scopeStack := by rw [hs5]
    rw [this, f3.scope]
  · have : s5.pkgEndStack = s3.pkgEndStack := by rw [hs5]
    rw [this, f3.pkg]

/-! ## the mutually recursive object parser in the first pass -/

theorem Bud.mono {d : Bytes} {k k' : Nat} {s : PState} (h : Bud d k s) (hk : k' ≤ k) : Bud d k' s := by
  unfold Bud at h ⊢; omega

/-- a reader-only step that consumed a byte buys 16 objects -/
theorem Bud.consume {d : Bytes} {k : Nat} {s s1 : PState} (h : Bud d k s) (ht : s1.tree = s.tree)
    (hlt : s.r.offset < s1.r.offset) (hi : s1.r.offset ≤ d.size) : Bud d (k + 16) s1 := by
  unfold Bud at h ⊢; rw [ht]; omega

theorem Bud.size_lt {d : Bytes} {k : Nat} {s : PState} (h : Bud d (k + 1) s) : s.tree.pool.size < INV := by
  unfold Bud at h; omega

/-- a reader-only step that consumed a byte pays for up to 16 objects of what follows -/
theorem Grow.absorb {c g : Nat} {s s1 s' : PState} (hs1 : s1 = { s with r := s1.r }) (hlt : s.r.offset < s1.r.offset)
    (gr : Grow c g s1 s') (hc : c ≤ 16) : Grow 0 g s s' := by
  have ht : s1.tree = s.tree := by rw [hs1]
  have hsc : s1.scopeStack = s.scopeStack := by rw [hs1]
  have hpk : s1.pkgEndStack = s.pkgEndStack := by rw [hs1]
  have hsame : s1.allBlocks = s.allBlocks ∧ s1.tableHandle = s.tableHandle ∧ s1.streamEnd = s.streamEnd := by
    rw [hs1]; exact ⟨rfl, rfl, rfl⟩
  refine ⟨by have := gr.off; omega, by rw [← ht]; exact gr.pool, by have := gr.budget; rw [ht] at this; omega,
    fun x hx => by rw [gr.oldP x (by rw [ht]; exact hx), ht], by rw [← hsc]; exact gr.sc, by rw [← hpk]; exact gr.pk,
    by have := gr.scpk; rw [hsc, hpk] at this; exact this, by have := gr.pkoff; rw [hpk] at this; omega, ?_⟩
  rw [gr.same.1, gr.same.2.1, gr.same.2.2]; exact hsame

/-- a reader-only step forward -/
theorem Grow.ofLex {s s1 : PState} (hs1 : s1 = { s with r := s1.r }) (hle : s.r.offset ≤ s1.r.offset) : Grow 0 0 s s1 := by
  rw [hs1]; exact Grow.ofR s _ hle

/-- `parseNamePathOrMethodCall()` in the first pass: a `pOpIntNamePathOrMethodCall` object under the current scope -/
theorem parseNamePathOrMethodCall_skip {d : Bytes} (hd : d.size + 268435456 ≤ 4294967296) (f : Nat) {s : PState} (h : FP d s)
    (hne : s.scopeStack.size ≠ 0) (hb : Bud d 0 s) :
    ∃ res s', parseNamePathOrMethodCall d (f + 1) s = .ok (res, s') ∧ FP d s' ∧ Grow 0 0 s s' ∧
      (res = .ok → s.r.offset < s'.r.offset) := by
  have hd' : d.size + 1024 ≤ 4294967296 := by omega
  unfold parseNamePathOrMethodCall
  obtain ⟨o0, s1, e1, h1, hR1, hs1⟩ := lex_step (rel_offset d) h
  refine bind_ex e1 ?_
  have hss : s1 = s := by rw [hs1, hR1.2]
  subst hss
  obtain ⟨sr, s2, e2, h2, hR2, hs2⟩ := lex_step (rel_parseNameString d hd') h
  refine bind_ex e2 ?_
  have g2 : Grow 0 0 s1 s2 := Grow.ofLex hs2 hR2.2.1
  split
  · exact pure_ex ⟨h2, g2, fun hc => by cases hc⟩
  · rename_i hok
    have hlt : s1.r.offset < s2.r.offset := by
      rcases hR2.2.2.2 with ⟨_, hlt⟩ | hf
      · exact hlt
      · exact absurd (by rw [hf]; decide) hok
    refine bind_ex (allBlocks_ex s2) ?_
    have hsk : s2.allBlocks = false := h2.skip
    rw [hsk]
    have ht2 : s2.tree = s1.tree := by rw [hs2]
    have hb2 : Bud d 16 s2 := hb.consume ht2 hlt h2.inv.1
    have hne2 : s2.scopeStack.size ≠ 0 := by rw [hs2]; exact hne
    obtain ⟨res, s3, e3, hres, h3, g3, hr3, _, _⟩ := namePathOrCallObject_tot h2 (hb2.mono (k' := 1) (by omega)).size_lt hne2 o0 sr.1
    refine ⟨res, s3, e3, h3, Grow.absorb hs2 hlt g3 (by omega), fun _ => by rw [hr3]; exact hlt⟩

/-- fuel `parseTarget` needs with `r` bytes left in the table -/
def needT (r : Nat) : Nat := 13 * r + 2
def needArg (r : Nat) : Nat := needT r + 1
def needArgs (r j : Nat) : Nat := needArg r + (8 - j)
def needOA (r : Nat) : Nat := needArgs r 0 + 1
def needNext (r : Nat) : Nat := needOA r + 1

/-- an object a parser function hands back to be appended: created by the call, still detached -/
def RetOK (s s' : PState) (o : Option Nat) : Prop :=
  ∀ a, o = some a → s.tree.pool.size ≤ a ∧ a < s'.tree.pool.size ∧ C13.P s'.tree a = INV

/-- scope pushes the rest of row `info` from argument `j` may make beyond its pkgEnd pushes -/
def G (info j : Nat) : Nat := if 1 ≤ j ∧ tlFrom info j = true then 1 else 0

/-- `curObj` hangs in the tree, or its row has no `FieldList` -/
def Att (s : PState) (info curObj : Nat) : Prop := C13.P s.tree curObj ≠ INV ∨ noFL info = true

/-- the argument before `j` was a `ByteData`: it is the last argument of `curObj` and holds an integer -/
def PrevOK (s : PState) (info curObj j : Nat) : Prop :=
  1 ≤ j → argAt info (j - 1) = argTypeByteData →
    La s.tree curObj < s.tree.pool.size ∧ ∃ v, (slot s.tree (La s.tree curObj)).value = .u64 v

/-- total correctness of the mutually recursive functions with fuel `f` in the first pass -/
structure FirstPassTot (d : Bytes) (f : Nat) : Prop where
  target : ∀ {s : PState}, FP d s → Bud d 1 s → needT (d.size - s.r.offset) ≤ f →
    ∃ a s', parseTarget d f s = .ok (a, s') ∧ FP d s' ∧ Grow 1 0 s s' ∧ RetOK s s' a.1
  arg : ∀ {s : PState} (info curObj argType : Nat), FP d s → curObj < s.tree.pool.size → InfoOK info → Bud d 2 s →
    argType ≠ argTypeByteList →
    (argType = argTypeFieldList → C13.P s.tree curObj ≠ INV ∧ La s.tree curObj < s.tree.pool.size ∧
      ∃ v, (slot s.tree (La s.tree curObj)).value = .u64 v) →
    needArg (d.size - s.r.offset) ≤ f →
    ∃ a s', parseArg d f info curObj argType s = .ok (a, s') ∧ FP d s' ∧
      Grow 2 (if argType = argTypeTermList then 1 else 0) s s' ∧ RetOK s s' a.1 ∧
      (argType = argTypeByteData → a.2 = .ok → ∃ x v, a.1 = some x ∧ (slot s'.tree x).value = .u64 v) ∧
      (argType = argTypePkgLen → s'.scopeStack.size = s.scopeStack.size ∧
        (a.2 = .ok → s'.pkgEndStack.size = s.pkgEndStack.size + 1)) ∧
      (argType = argTypeTermArg ∨ argType = argTypeTermList → a.2 ≠ .ok)
  args : ∀ {s : PState} (info curObj j : Nat), FP d s → curObj < s.tree.pool.size → InfoOK info → rowFacts info = true →
    j ≤ argCnt info → Bud d (2 * (7 - j)) s → Att s info curObj → PrevOK s info curObj j →
    (1 ≤ j → argAt info (j - 1) ≠ argTypeTermArg) → needArgs (d.size - s.r.offset) j ≤ f →
    ∃ res s', parseArgs d f info curObj j s = .ok (res, s') ∧ FP d s' ∧ Grow (2 * (7 - j)) (G info j) s s'
  objectArgs : ∀ {s : PState} (curObj : Nat), FP d s → curObj < s.tree.pool.size →
    rowFacts (slot s.tree curObj).infoIndex = true → Att s (slot s.tree curObj).infoIndex curObj → Bud d 14 s →
    needOA (d.size - s.r.offset) ≤ f →
    ∃ res s', parseObjectArgs d f curObj s = .ok (res, s') ∧ FP d s' ∧ Grow 14 0 s s'
  nextObject : ∀ {s : PState}, FP d s → s.scopeStack.size ≠ 0 → Bud d 0 s → needNext (d.size - s.r.offset) ≤ f →
    ∃ res s', parseNextObject d f s = .ok (res, s') ∧ FP d s' ∧ Grow 0 0 s s' ∧ (res = .ok → s.r.offset < s'.r.offset)

theorem target_step {d : Bytes} (hd : d.size + 268435456 ≤ 4294967296) {f : Nat} (ih : FirstPassTot d f) {s : PState}
    (h : FP d s) (hb : Bud d 1 s) (hf : needT (d.size - s.r.offset) ≤ f + 1) :
    ∃ a s', parseTarget d (f + 1) s = .ok (a, s') ∧ FP d s' ∧ Grow 1 0 s s' ∧ RetOK s s' a.1 := by
  have hd' : d.size + 1024 ≤ 4294967296 := by omega
  unfold parseTarget
  obtain ⟨o0, s1, e1, h1, hR1, hs1⟩ := lex_step (rel_offset d) h
  refine bind_ex e1 ?_
  have hss : s1 = s := by rw [hs1, hR1.2]
  subst hss
  obtain ⟨opr, s2, e2, h2, hR2, hs2⟩ := lex_step (rel_nextOpcode d hd') h
  refine bind_ex e2 ?_
  have ht2 : s2.tree = s1.tree := by rw [hs2]
  rcases hR2 with ⟨hfail, _, hr2⟩ | ⟨hok, hbad, hop, _, hlt, _⟩
  · -- a name
    rw [if_neg (by rw [hfail]; decide)]
    obtain ⟨_, s3, e3, h3, hR3, hs3⟩ := lex_step (rel_setOffset d o0) h2
    refine bind_ex e3 ?_
    have hr3 : s3.r = s1.r := by
      have hoff : s3.r.offset = s1.r.offset := by
        rw [hR3.2, hR1.1]; have := h.inv.1; split <;> omega
      have hpk : s3.r.pkgEnd = s1.r.pkgEnd := by rw [hR3.1, hr2]
      cases hq : s3.r; cases hq1 : s1.r
      rw [hq] at hoff hpk; rw [hq1] at hoff hpk
      simp only at hoff hpk; rw [hoff, hpk]
    have hss3 : s3 = s1 := by rw [hs3, hs2, hr3]
    subst hss3
    obtain ⟨s4, e4, h4, f4, hr4, _⟩ := newObject_step h3 opIntNamePath (hb.mono (Nat.le_refl _)).size_lt (by decide)
      info_const.2.2.2.2.2.2.1
    refine bind_ex e4 ?_
    have hobj : s3.tree.pool.size < s4.tree.pool.size := by rw [f4.size]; omega
    obtain ⟨s5, e5, h5, hp5, _, hr5⟩ := upd_step h4 hobj (fun o => { o with amlOffset := o0 }) (by keeps_links) Iff.rfl
      (h4.tree.info _ hobj)
    refine bind_ex e5 ?_
    have hobj5 : s3.tree.pool.size < s5.tree.pool.size := by rw [hp5.links.size]; exact hobj
    obtain ⟨res, s6, e6, h6, hp6, _, _⟩ := setNameValue_tot hd' h5 hobj5
    refine bind_ex e6 (pure_ex ⟨h6, ?_, ?_⟩)
    · exact ((f4.thenPay hp5).thenPay hp6).grow
    · intro a ha
      cases ha
      have f6 := (f4.thenPay hp5).thenPay hp6
      exact ⟨Nat.le_refl _, by rw [f6.size]; omega, f6.pn⟩
  · rw [if_pos hok]
    have g2 : Grow 0 0 s1 s2 := Grow.ofLex hs2 (by omega)
    by_cases hz : opr.1 = opZero
    · rw [if_pos hz]
      exact pure_ex ⟨h2, g2.weaken (by omega) (by omega), fun a ha => by cases ha⟩
    · rw [if_neg hz]
      split
      · rename_i htarget
        have htop : isTargetOp opr.1 = true := by
          unfold isTargetOp
          simp only [Bool.or_eq_true, beq_iff_eq]
          rcases htarget with h | h | h | h | h
          · exact Or.inl (Or.inl (Or.inl (Or.inl h)))
          · exact Or.inl (Or.inl (Or.inl (Or.inr h)))
          · exact Or.inl (Or.inl (Or.inr h))
          · exact Or.inl (Or.inr h)
          · exact Or.inr h
        obtain ⟨hrow, hinfo, hnf, hnofl⟩ := op_facts hop hbad
        have hb2 : Bud d 17 s2 := hb.consume ht2 hlt h2.inv.1
        obtain ⟨s3, e3, h3, f3, hr3, hnew3⟩ := newObject_step h2 opr.1 (hb2.mono (k' := 1) (by omega)).size_lt hnf hinfo
        refine bind_ex e3 ?_
        rw [ht2] at e3 hnew3 ⊢
        have hobj : s1.tree.pool.size < s3.tree.pool.size := by rw [f3.size, ht2]; omega
        obtain ⟨s4, e4, h4, hp4, hsl4, hr4⟩ := upd_step h3 hobj (fun o => { o with amlOffset := o0 }) (by keeps_links) Iff.rfl
          (h3.tree.info _ hobj)
        refine bind_ex e4 ?_
        have hobj4 : s1.tree.pool.size < s4.tree.pool.size := by rw [hp4.links.size]; exact hobj
        have hinfo4 : (slot s4.tree s1.tree.pool.size).infoIndex = pOpcodeTableIndex opr.1 true := by
          rw [hsl4, hnew3]; rfl
        have f4 : Fresh1 s2 s4 := f3.thenPay (by rw [ht2]; exact hp4)
        have g4 : Grow 1 0 s2 s4 := f4.grow
        have hb4 : Bud d 14 s4 := by
          have := hb2.step g4 h4.inv.1 (by omega); exact this.mono (by omega)
        have hfuel : needOA (d.size - s4.r.offset) ≤ f := by
          have h1 := g4.off
          have h2' := h4.inv.1
          unfold needT at hf; unfold needOA needArgs needArg needT; omega
        obtain ⟨res, s5, e5, h5, g5⟩ := ih.objectArgs (s := s4) s1.tree.pool.size h4 hobj4 (by rw [hinfo4]; exact hrow)
          (Or.inr (by rw [hinfo4]; exact hnofl htop)) hb4 hfuel
        refine bind_ex e5 (pure_ex ⟨h5, ?_, ?_⟩)
        · have := Grow.absorb hs2 hlt (g4.trans g5) (by omega)
          exact this.weaken (by omega) (by omega)
        · intro a ha
          cases ha
          refine ⟨Nat.le_refl _, Nat.lt_of_lt_of_le hobj4 g5.pool, ?_⟩
          rw [g5.oldP _ hobj4]
          have := f4.pn; rw [ht2] at this; exact this
      · exact pure_ex ⟨h2, g2.weaken (by omega) (by omega), fun a ha => by cases ha⟩

theorem arg_step {d : Bytes} (hd : d.size + 268435456 ≤ 4294967296) {f : Nat} (ih : FirstPassTot d f) {s : PState}
    (info curObj argType : Nat) (h : FP d s) (hc : curObj < s.tree.pool.size) (hinfo : InfoOK info) (hb : Bud d 2 s)
    (hnbl : argType ≠ argTypeByteList)
    (hfl : argType = argTypeFieldList → C13.P s.tree curObj ≠ INV ∧ La s.tree curObj < s.tree.pool.size ∧
      ∃ v, (slot s.tree (La s.tree curObj)).value = .u64 v)
    (hf : needArg (d.size - s.r.offset) ≤ f + 1) :
    ∃ a s', parseArg d (f + 1) info curObj argType s = .ok (a, s') ∧ FP d s' ∧
      Grow 2 (if argType = argTypeTermList then 1 else 0) s s' ∧ RetOK s s' a.1 ∧
      (argType = argTypeByteData → a.2 = .ok → ∃ x v, a.1 = some x ∧ (slot s'.tree x).value = .u64 v) ∧
      (argType = argTypePkgLen → s'.scopeStack.size = s.scopeStack.size ∧
        (a.2 = .ok → s'.pkgEndStack.size = s.pkgEndStack.size + 1)) ∧
      (argType = argTypeTermArg ∨ argType = argTypeTermList → a.2 ≠ .ok) := by
  have hd' : d.size + 1024 ≤ 4294967296 := by omega
  unfold parseArg
  by_cases hsimple : isSimpleArg argType = true
  · rw [if_pos hsimple]
    have hntl : argType ≠ argTypeTermList := by intro hq; rw [hq] at hsimple; revert hsimple; decide
    have hnpk : argType ≠ argTypePkgLen := by intro hq; rw [hq] at hsimple; revert hsimple; decide
    have hnta : argType ≠ argTypeTermArg := by intro hq; rw [hq] at hsimple; revert hsimple; decide
    rw [if_neg hntl]
    obtain ⟨a, s', e, h', f', hres⟩ := parseSimpleArg_tot hd' h (hb.mono (k' := 1) (by omega)).size_lt argType
    refine ⟨a, s', e, h', f'.grow.weaken (by omega) (by omega), ?_, ?_, fun hq => absurd hq hnpk, ?_⟩
    · intro x hx
      rcases hres with ⟨ha, _, _⟩ | ha
      · rw [ha] at hx; cases hx
        exact ⟨Nat.le_refl _, by rw [f'.size]; omega, f'.pn⟩
      · rw [ha] at hx; cases hx
    · intro hbd hok
      rcases hres with ⟨ha, _, hv⟩ | ha
      · obtain ⟨v, hv⟩ := hv (Or.inl hbd)
        exact ⟨_, v, ha, hv⟩
      · rw [ha] at hok; cases hok
    · intro hq; rcases hq with hq | hq
      · exact absurd hq hnta
      · exact absurd hq hntl
  · rw [if_neg hsimple, if_neg hnbl]
    by_cases hpk : argType = argTypePkgLen
    · rw [if_pos hpk]
      have hntl : argType ≠ argTypeTermList := by rw [hpk]; decide
      rw [if_neg hntl]
      obtain ⟨a, s', e, h', ha, g', hsc, _, hpush⟩ := parsePkgLenArg_tot hd h info curObj hc hinfo
      refine ⟨a, s', e, h', g'.weaken (by omega) (by omega), fun x hx => (by rw [ha] at hx; cases hx),
        fun hq => (by rw [hpk] at hq; cases hq), fun _ => ⟨by rw [hsc], hpush⟩, ?_⟩
      intro hq; rcases hq with hq | hq
      · rw [hpk] at hq; cases hq
      · exact absurd hq hntl
    · rw [if_neg hpk]
      by_cases hfld : argType = argTypeFieldList
      · rw [if_pos hfld]
        have hntl : argType ≠ argTypeTermList := by rw [hfld]; decide
        rw [if_neg hntl]
        obtain ⟨hp, hla, hv⟩ := hfl hfld
        obtain ⟨res, s', e, h', g', _, _⟩ := parseFieldElements_tot hd h curObj hc hp hla hv hb
        refine bind_ex e (pure_ex ⟨h', g', fun x hx => (by cases hx), fun hq => (by rw [hfld] at hq; cases hq),
          fun hq => absurd hq hpk, ?_⟩)
        intro hq; rcases hq with hq | hq
        · rw [hfld] at hq; cases hq
        · exact absurd hq hntl
      · rw [if_neg hfld]
        by_cases hta : argType = argTypeTermArg ∨ argType = argTypeDataRefObj
        · rw [if_pos hta]
          have hntl : argType ≠ argTypeTermList := by rcases hta with hq | hq <;> rw [hq] <;> decide
          rw [if_neg hntl]
          refine bind_ex (allBlocks_ex s) ?_
          rw [h.skip]
          refine pure_ex ⟨h, (Grow.refl s).weaken (by omega) (by omega), fun x hx => (by cases hx), ?_, fun hq => absurd hq hpk,
            fun _ hq => by cases hq⟩
          intro hq; rcases hta with hq2 | hq2 <;> rw [hq2] at hq <;> cases hq
        · rw [if_neg hta]
          by_cases htl : argType = argTypeTermList
          · rw [if_pos htl, if_pos htl]
            obtain ⟨a, s', e, ha, h', g', hsz, hpn, _, _, _⟩ := newScopeBlock_tot h (hb.mono (k' := 1) (by omega)).size_lt
            refine bind_ex e ?_
            refine bind_ex (allBlocks_ex s') ?_
            rw [h'.skip]
            refine pure_ex ⟨h', g'.weaken (by omega) (by omega), ?_, fun hq => (by rw [htl] at hq; cases hq),
              fun hq => absurd hq hpk, fun _ hq => by cases hq⟩
            intro x hx
            cases hx
            rw [ha]
            exact ⟨Nat.le_refl _, by rw [hsz]; omega, hpn⟩
          · rw [if_neg htl, if_neg htl]
            have hfuel : needT (d.size - s.r.offset) ≤ f := by unfold needArg at hf; omega
            obtain ⟨a, s', e, h', g', hret⟩ := ih.target h (hb.mono (by omega)) hfuel
            refine ⟨a, s', e, h', g'.weaken (by omega) (by omega), hret, ?_, fun hq => absurd hq hpk, ?_⟩
            · intro hq; rw [hq] at hsimple; exact absurd (by decide) hsimple
            · intro hq; rcases hq with hq | hq
              · exact absurd (Or.inl hq) hta
              · exact absurd hq htl

/-- a pkgEnd push (no scope push) pays for one scope push of what follows -/
theorem Grow.afterPkg {c1 c2 : Nat} {s s1 s' : PState} (g1 : Grow c1 0 s s1)
    (hsc : s1.scopeStack.size = s.scopeStack.size) (hpk : s1.pkgEndStack.size = s.pkgEndStack.size + 1)
    (g2 : Grow c2 1 s1 s') : Grow (c1 + c2) 0 s s' := by
  have t := g1.trans g2
  exact ⟨t.off, t.pool, t.budget, t.oldP, t.sc, t.pk, by have := g2.scpk; omega, t.pkoff, t.same⟩

theorem samePay_value {t t' : ObjectTree} (h : SamePay t t') (x : Nat) : (slot t' x).value = (slot t x).value :=
  congrArg (fun p => p.2.2.2.2.2.2.2) (h.pay x)

theorem needArgs_next {r r' j f : Nat} (h : needArgs r j ≤ f + 1) (hr : r' ≤ r) (hj : j < 8) : needArgs r' (j + 1) ≤ f := by
  unfold needArgs needArg needT at *; omega

theorem args_step {d : Bytes} {f : Nat} (ih : FirstPassTot d f) {s : PState}
    (info curObj j : Nat) (h : FP d s) (hc : curObj < s.tree.pool.size) (hinfo : InfoOK info) (hrow : rowFacts info = true)
    (hj : j ≤ argCnt info) (hb : Bud d (2 * (7 - j)) s) (hatt : Att s info curObj) (hprev : PrevOK s info curObj j)
    (hpast : 1 ≤ j → argAt info (j - 1) ≠ argTypeTermArg) (hf : needArgs (d.size - s.r.offset) j ≤ f + 1) :
    ∃ res s', parseArgs d (f + 1) info curObj j s = .ok (res, s') ∧ FP d s' ∧ Grow (2 * (7 - j)) (G info j) s s' := by
  unfold parseArgs
  rw [opArgCount_of_info hinfo]
  refine bind_ex (optP_ex _ s) ?_
  have hcnt := rowFacts_cnt hrow
  by_cases hlt : j < argCnt info
  · rw [if_pos hlt, opArg_of_info hinfo j]
    refine bind_ex (optP_ex _ s) ?_
    have hj8 : j < 8 := by omega
    have hnbl : argAt info j ≠ argTypeByteList := by
      intro hq
      obtain ⟨q1, q2⟩ := rowFacts_bl hrow hj8 hq
      exact hpast q1 q2
    have hfl : argAt info j = argTypeFieldList → C13.P s.tree curObj ≠ INV ∧ La s.tree curObj < s.tree.pool.size ∧
        ∃ v, (slot s.tree (La s.tree curObj)).value = .u64 v := by
      intro hq
      obtain ⟨q1, q2⟩ := rowFacts_fl hrow hj8 hq
      obtain ⟨q3, q4⟩ := hprev q1 q2
      refine ⟨?_, q3, q4⟩
      rcases hatt with hp | hno
      · exact hp
      · exact absurd hq (noFL_at hno hj8)
    have hfuel : needArg (d.size - s.r.offset) ≤ f := by unfold needArgs at hf; omega
    obtain ⟨⟨a1, a2⟩, s1, e1, h1, g1, hret, hbd, hpkl, hstop⟩ :=
      ih.arg info curObj (argAt info j) h hc hinfo (hb.mono (by omega)) hnbl hfl hfuel
    refine bind_ex e1 ?_
    dsimp only at hret hbd hpkl hstop ⊢
    have hc1 : curObj < s1.tree.pool.size := Nat.lt_of_lt_of_le hc g1.pool
    have hGle : (if argAt info j = argTypeTermList then 1 else 0) ≤ G info j := by
      split
      · rename_i htl
        have := rowFacts_tl hrow hj8 htl
        unfold G
        rw [if_pos ⟨this.1, tlFrom_of_at hj8 htl⟩]
        exact Nat.le_refl _
      · exact Nat.zero_le _
    have cont : ∀ s2 : PState, FP d s2 → Grow 2 (if argAt info j = argTypeTermList then 1 else 0) s s2 → s2.r = s1.r →
        s2.tree.pool.size = s1.tree.pool.size → s2.scopeStack = s1.scopeStack → s2.pkgEndStack = s1.pkgEndStack →
        (∀ x, a1 = some x → La s2.tree curObj = x ∧ (slot s2.tree x).value = (slot s1.tree x).value) →
        ∃ res s', (if a2 = .ok then parseArgs d f info curObj (j + 1) else pure a2) s2 = .ok (res, s') ∧ FP d s' ∧
          Grow (2 * (7 - j)) (G info j) s s' := by
      intro s2 h2 g2 hr2 hsz2 hsc2 hpk2 hla2
      by_cases hok : a2 = .ok
      · rw [if_pos hok]
        have hntl : argAt info j ≠ argTypeTermList := fun hq => hstop (Or.inr hq) hok
        rw [if_neg hntl] at g2
        have hc2 : curObj < s2.tree.pool.size := by rw [hsz2]; exact hc1
        have hb2 : Bud d (2 * (7 - (j + 1))) s2 := by
          have := hb.step g2 h2.inv.1 (by omega)
          exact this.mono (by omega)
        have hatt2 : Att s2 info curObj := by
          unfold Att at hatt ⊢
          rw [g2.oldP curObj hc]; exact hatt
        have hprev2 : PrevOK s2 info curObj (j + 1) := by
          intro _ hq
          have hq' : argAt info j = argTypeByteData := hq
          obtain ⟨x, v, hx, hv⟩ := hbd hq' hok
          obtain ⟨q1, q2⟩ := hla2 x hx
          obtain ⟨_, q4, _⟩ := hret x hx
          rw [q1]
          exact ⟨by rw [hsz2]; exact q4, v, by rw [q2]; exact hv⟩
        have hpast2 : 1 ≤ j + 1 → argAt info (j + 1 - 1) ≠ argTypeTermArg := by
          intro _ hq
          exact hstop (Or.inl hq) hok
        have hfuel2 : needArgs (d.size - s2.r.offset) (j + 1) ≤ f :=
          needArgs_next hf (Nat.sub_le_sub_left g2.off _) hj8
        obtain ⟨res, s3, e3, h3, g3⟩ := ih.args info curObj (j + 1) h2 hc2 hinfo hrow (by omega) hb2 hatt2 hprev2 hpast2 hfuel2
        refine ⟨res, s3, e3, h3, ?_⟩
        have hcc : 2 + 2 * (7 - (j + 1)) = 2 * (7 - j) := by omega
        by_cases hG1 : 1 ≤ j + 1 ∧ tlFrom info (j + 1) = true
        · have hGv : G info (j + 1) = 1 := by unfold G; rw [if_pos hG1]
          rw [hGv] at g3
          by_cases hj0 : j = 0
          · -- the `PkgLen` at index 0 pushed a pkgEnd
            have hpk0 : argAt info j = argTypePkgLen := by rw [hj0]; exact tlFrom_pkg hrow hG1.2
            obtain ⟨q1, q2⟩ := hpkl hpk0
            have := g2.afterPkg (by rw [hsc2]; exact q1) (by rw [hpk2]; exact q2 hok) g3
            rw [hcc] at this
            exact this.weaken (Nat.le_refl _) (Nat.zero_le _)
          · have hGj : G info j = 1 := by unfold G; rw [if_pos ⟨by omega, tlFrom_mono hG1.2⟩]
            rw [hGj]
            have := g2.trans g3
            rw [hcc] at this
            exact this
        · have hGv : G info (j + 1) = 0 := by unfold G; rw [if_neg hG1]
          rw [hGv] at g3
          have := g2.trans g3
          rw [hcc] at this
          exact this.weaken (Nat.le_refl _) (Nat.zero_le _)
      · rw [if_neg hok]
        exact pure_ex ⟨h2, g2.weaken (by omega) hGle⟩
    -- the returned object becomes the last argument of `curObj`
    cases a1 with
    | none => exact cont s1 h1 g1 rfl rfl rfl rfl (fun x hx => by cases hx)
    | some x =>
      obtain ⟨q1, q2, q3⟩ := hret x rfl
      obtain ⟨s2, e2, h2, hs2, hsz2, sp2, hP2, hLa2⟩ := append_step h1 (Nat.lt_of_lt_of_le hc q1) q2 q3
      refine bind_ex e2 ?_
      refine cont s2 h2 (g1.thenAppend hs2 hsz2 hP2 q1) (by rw [hs2]) hsz2 (by rw [hs2]) (by rw [hs2]) ?_
      intro y hy
      cases hy
      exact ⟨hLa2, samePay_value sp2 _⟩
  · rw [if_neg hlt]
    exact pure_ex ⟨h, (Grow.refl s).weaken (Nat.zero_le _) (Nat.zero_le _)⟩

theorem G_zero (info : Nat) : G info 0 = 0 := by
  unfold G; rw [if_neg (by omega)]

theorem objectArgs_step {d : Bytes} {f : Nat} (ih : FirstPassTot d f) {s : PState} (curObj : Nat) (h : FP d s)
    (hc : curObj < s.tree.pool.size) (hrow : rowFacts (slot s.tree curObj).infoIndex = true)
    (hatt : Att s (slot s.tree curObj).infoIndex curObj) (hb : Bud d 14 s) (hf : needOA (d.size - s.r.offset) ≤ f + 1) :
    ∃ res s', parseObjectArgs d (f + 1) curObj s = .ok (res, s') ∧ FP d s' ∧ Grow 14 0 s s' := by
  unfold parseObjectArgs
  refine bind_ex (getObj_ex hc) ?_
  have num : ∀ n, ∃ res s', (setNumValue d curObj n >>= fun res => (fun res => (pure (if res = PRes.shortCircuit then PRes.ok else res) : P PRes)) res) s =
      .ok (res, s') ∧ FP d s' ∧ Grow 14 0 s s' := by
    intro n
    obtain ⟨res, s', e, h', hp, _, _⟩ := setNumValue_tot h hc n
    refine bind_ex e ?_
    exact pure_ex ⟨h', hp.grow.weaken (by omega) (by omega)⟩
  split
  · exact num 1
  · split
    · exact num 2
    · split
      · exact num 4
      · split
        · exact num 8
        · split
          · obtain ⟨res, s', e, h', hp, _, _⟩ := setStringValue_tot h hc
            refine bind_ex e ?_
            exact pure_ex ⟨h', hp.grow.weaken (by omega) (by omega)⟩
          · have hinfo := h.tree.info curObj hc
            obtain ⟨fl, hfl⟩ := opFlags_of_info hinfo
            rw [hfl]
            refine bind_ex (optP_ex fl s) ?_
            have hfuel : needArgs (d.size - s.r.offset) 0 ≤ f := by unfold needOA at hf; omega
            obtain ⟨res, s', e, h', g'⟩ := ih.args (slot s.tree curObj).infoIndex curObj 0 h hc hinfo hrow (Nat.zero_le _)
              (hb.mono (by omega)) hatt (fun h0 => by omega) (fun h0 => by omega) hfuel
            rw [G_zero] at g'
            refine bind_ex e ?_
            exact pure_ex ⟨h', g'.weaken (by omega) (Nat.le_refl _)⟩

theorem nextObject_step {d : Bytes} (hd : d.size + 268435456 ≤ 4294967296) {f : Nat} (ih : FirstPassTot d f) {s : PState}
    (h : FP d s) (hne : s.scopeStack.size ≠ 0) (hb : Bud d 0 s) (hf : needNext (d.size - s.r.offset) ≤ f + 1) :
    ∃ res s', parseNextObject d (f + 1) s = .ok (res, s') ∧ FP d s' ∧ Grow 0 0 s s' ∧
      (res = .ok → s.r.offset < s'.r.offset) := by
  have hd' : d.size + 1024 ≤ 4294967296 := by omega
  unfold parseNextObject
  obtain ⟨o0, s1, e1, h1, hR1, hs1⟩ := lex_step (rel_offset d) h
  refine bind_ex e1 ?_
  have hss : s1 = s := by rw [hs1, hR1.2]
  subst hss
  obtain ⟨opr, s2, e2, h2, hR2, hs2⟩ := lex_step (rel_nextOpcode d hd') h
  refine bind_ex e2 ?_
  have ht2 : s2.tree = s1.tree := by rw [hs2]
  rcases hR2 with ⟨hfail, hop, hr2⟩ | ⟨hok, hbad, hop, _, hlt, _⟩
  · -- not an opcode: a name
    rw [if_neg (by rw [hop]; decide), if_pos hfail]
    have hss2 : s2 = s1 := by rw [hs2, hr2]
    subst hss2
    obtain ⟨f', hf'⟩ : ∃ f', f = f' + 1 := by
      cases f with
      | zero => unfold needNext needOA needArgs needArg needT at hf; omega
      | succ f' => exact ⟨f', rfl⟩
    rw [hf']
    exact parseNamePathOrMethodCall_skip hd f' h hne hb
  · have g2 : Grow 0 0 s1 s2 := Grow.ofLex hs2 (by omega)
    by_cases hnoop : opr.1 = opNoop
    · rw [if_pos hnoop]
      exact pure_ex ⟨h2, g2, fun _ => hlt⟩
    · rw [if_neg hnoop, if_neg (by rw [hok]; decide)]
      obtain ⟨hrow, hinfo, hnf, _⟩ := op_facts hop hbad
      have hb2 : Bud d 16 s2 := hb.consume ht2 hlt h2.inv.1
      obtain ⟨s3, e3, h3, f3, hr3, hnew3⟩ := newObject_step h2 opr.1 (hb2.mono (k' := 1) (by omega)).size_lt hnf hinfo
      refine bind_ex e3 ?_
      rw [ht2] at e3 hnew3 ⊢
      have hobj : s1.tree.pool.size < s3.tree.pool.size := by rw [f3.size, ht2]; omega
      obtain ⟨s4, e4, h4, hp4, hsl4, hr4⟩ := upd_step h3 hobj (fun o => { o with amlOffset := o0 }) (by keeps_links) Iff.rfl
        (h3.tree.info _ hobj)
      refine bind_ex e4 ?_
      have hobj4 : s1.tree.pool.size < s4.tree.pool.size := by rw [hp4.links.size]; exact hobj
      have f4 : Fresh1 s2 s4 := f3.thenPay (by rw [ht2]; exact hp4)
      have hne4 : s4.scopeStack.size ≠ 0 := by rw [f4.scope, hs2]; exact hne
      obtain ⟨sc, e5, hsc⟩ := scopeCurrent_ex h4 hne4
      refine bind_ex e5 ?_
      refine bind_ex (derefP_some_ex sc) ?_
      have hscs : sc < s1.tree.pool.size := by
        have hmem : sc ∈ s1.scopeStack.toList := by
          unfold scopeCurrent at e5
          cases hbk : s4.scopeStack.back? with
          | none => rw [hbk] at e5; cases e5
          | some x =>
            rw [hbk] at e5
            have : x = sc := by
              simp only [objectAt_live (h4.tree.allLive x (h4.scopes x (Array.mem_toList_iff.mpr (Array.mem_of_back? hbk))))] at e5
              cases e5; rfl
            have hsc4 : s4.scopeStack = s1.scopeStack := by rw [f4.scope, hs2]
            rw [← this, ← hsc4]
            exact Array.mem_toList_iff.mpr (Array.mem_of_back? hbk)
        exact h.scopes sc hmem
      have hpn4 : C13.P s4.tree s1.tree.pool.size = INV := by have := f4.pn; rw [ht2] at this; exact this
      obtain ⟨s6, e6, h6, hs6, hsz6, sp6, hP6, _⟩ := append_step h4 hscs hobj4 hpn4
      refine bind_ex e6 ?_
      have g6 : Grow 1 0 s2 s6 := f4.grow.thenAppend hs6 hsz6 hP6 (by rw [ht2]; exact Nat.le_refl _)
      have hobj6 : s1.tree.pool.size < s6.tree.pool.size := by rw [hsz6]; exact hobj4
      have hinfo6 : (slot s6.tree s1.tree.pool.size).infoIndex = pOpcodeTableIndex opr.1 true := by
        have hpay := congrArg (fun p => p.2.1) (sp6.pay s1.tree.pool.size)
        have : (slot s6.tree s1.tree.pool.size).infoIndex = (slot s4.tree s1.tree.pool.size).infoIndex := hpay
        rw [this, hsl4, hnew3]; rfl
      have hb6 : Bud d 14 s6 := by
        have := hb2.step g6 h6.inv.1 (by omega); exact this.mono (by omega)
      have hfuel : needOA (d.size - s6.r.offset) ≤ f := by
        have hle : d.size - s6.r.offset ≤ d.size - s1.r.offset := Nat.sub_le_sub_left (Nat.le_trans g2.off g6.off) _
        unfold needNext at hf
        unfold needOA needArgs needArg needT at hf ⊢
        omega
      have hP : C13.P s6.tree s1.tree.pool.size = sc := by rw [hP6, if_pos rfl]
      have hscne : sc ≠ INV := by
        have := (hb2.mono (k' := 1) (by omega)).size_lt
        rw [ht2] at this; omega
      obtain ⟨res, s7, e7, h7, g7⟩ := ih.objectArgs (s := s6) s1.tree.pool.size h6 hobj6 (by rw [hinfo6]; exact hrow)
        (Or.inl (by rw [hP]; exact hscne)) hb6 hfuel
      have gfin := Grow.absorb hs2 hlt (g6.trans g7) (by omega)
      exact ⟨res, s7, e7, h7, gfin, fun _ => by have := g6.off; have := g7.off; omega⟩

/-- the object parser in the first pass is total for every amount of fuel that covers the bytes left -/
theorem firstPassTot {d : Bytes} (hd : d.size + 268435456 ≤ 4294967296) (f : Nat) : FirstPassTot d f := by
  induction f with
  | zero =>
    refine ⟨?_, ?_, ?_, ?_, ?_⟩
    · intro s _ _ hf; unfold needT at hf; omega
    · intro s _ _ _ _ _ _ _ _ _ hf; unfold needArg needT at hf; omega
    · intro s _ _ j _ _ _ _ _ _ _ _ _ hf; unfold needArgs needArg needT at hf; omega
    · intro s _ _ _ _ _ _ hf; unfold needOA needArgs needArg needT at hf; omega
    · intro s _ _ _ hf; unfold needNext needOA needArgs needArg needT at hf; omega
  | succ f ih =>
    exact ⟨fun h hb hf => target_step hd ih h hb hf,
      fun info curObj argType h hc hinfo hb hnbl hfl hf => arg_step hd ih info curObj argType h hc hinfo hb hnbl hfl hf,
      fun info curObj j h hc hinfo hrow hj hb hatt hprev hpast hf => args_step ih info curObj j h hc hinfo hrow hj hb hatt hprev hpast hf,
      fun curObj h hc hrow hatt hb hf => objectArgs_step ih curObj h hc hrow hatt hb hf,
      fun h hne hb hf => nextObject_step hd ih h hne hb hf⟩

/-! ## `parseObjectList` -/

theorem needNext_mono {r r' : Nat} (h : r' ≤ r) : needNext r' ≤ needNext r := by
  unfold needNext needOA needArgs needArg needT; omega

/-- the inner loop of `parseObjectList` -/
theorem objectListInner_tot {d : Bytes} (hd : d.size + 268435456 ≤ 4294967296) (fuel : Nat) :
    ∀ (n : Nat) {s : PState}, FP d s → s.scopeStack.size ≠ 0 → Bud d 0 s → needNext (d.size - s.r.offset) ≤ fuel →
      d.size - s.r.offset + 1 ≤ n →
      ∃ b s', objectListInner d fuel n s = .ok (b, s') ∧ FP d s' ∧ Grow 0 0 s s' := by
  intro n
  induction n with
  | zero => intro s _ _ _ _ hn; omega
  | succ n ih =>
    intro s h hne hb hfuel hn
    unfold objectListInner
    obtain ⟨b, s1, e1, h1, hR1, hs1⟩ := lex_step (rel_eof d) h
    refine bind_ex e1 ?_
    have hss : s1 = s := by rw [hs1, hR1.2]
    subst hss
    by_cases he : b = true
    · rw [if_pos he]
      exact pure_ex ⟨h, Grow.refl s1⟩
    · rw [if_neg he]
      obtain ⟨res, s2, e2, h2, g2, hprog⟩ := (firstPassTot hd fuel).nextObject h hne hb hfuel
      refine bind_ex e2 ?_
      by_cases hok : res = .ok
      · rw [if_neg (by rw [hok]; decide)]
        have hlt := hprog hok
        have hi2 := h2.inv.1
        obtain ⟨b3, s3, e3, h3, g3⟩ := ih h2 (by have := g2.sc; omega) (hb.step g2 hi2 (Nat.le_refl _))
          (Nat.le_trans (needNext_mono (by omega)) hfuel) (by omega)
        exact ⟨b3, s3, e3, h3, g2.trans g3⟩
      · rw [if_pos hok]
        exact pure_ex ⟨h2, g2⟩

/-- `popPkgEnd()` -/
theorem popPkgEnd_step {d : Bytes} {s : PState} (h : FP d s) :
    ∃ (a : Unit) (s' : PState), popPkgEnd d s = .ok (a, s') ∧ FP d s' ∧ s'.tree = s.tree ∧ s'.scopeStack = s.scopeStack ∧
      s'.pkgEndStack = s.pkgEndStack.pop ∧ s'.r.offset = s.r.offset := by
  unfold popPkgEnd
  have e0 : (modify fun s => if s.pkgEndStack.size ≠ 0 then { s with pkgEndStack := s.pkgEndStack.pop } else s : P Unit) s =
      .ok ((), { s with pkgEndStack := s.pkgEndStack.pop }) := by
    show Except.ok ((), if s.pkgEndStack.size ≠ 0 then { s with pkgEndStack := s.pkgEndStack.pop } else s) = _
    split
    · rfl
    · rename_i h0
      have h0 : s.pkgEndStack.size = 0 := by omega
      have : s.pkgEndStack.pop = s.pkgEndStack := by
        have : s.pkgEndStack = #[] := Array.eq_empty_of_size_eq_zero h0
        rw [this]; rfl
      rw [this]
  refine bind_ex e0 ?_
  have h0 : FP d { s with pkgEndStack := s.pkgEndStack.pop } := ⟨h.inv, h.tree, h.scopes, h.skip⟩
  have e1 : pkgEndTop { s with pkgEndStack := s.pkgEndStack.pop } =
      .ok (s.pkgEndStack.pop.back?, { s with pkgEndStack := s.pkgEndStack.pop }) := rfl
  refine bind_ex e1 ?_
  cases s.pkgEndStack.pop.back? with
  | none => exact pure_ex ⟨h0, rfl, rfl, rfl, rfl⟩
  | some e =>
    obtain ⟨b, s2, e2, h2, hR2, hs2⟩ := lex_step (rel_setPkgEnd d e) h0
    refine bind_ex e2 ?_
    exact pure_ex ⟨h2, by rw [hs2], by rw [hs2], by rw [hs2], hR2.1⟩

/-- `scopeExit()` with a non-empty scope stack -/
theorem scopeExit_step {d : Bytes} {s : PState} (h : FP d s) (hne : s.scopeStack.size ≠ 0) :
    ∃ s', scopeExit s = .ok ((), s') ∧ FP d s' ∧ s' = { s with scopeStack := s.scopeStack.pop } := by
  refine ⟨{ s with scopeStack := s.scopeStack.pop }, ?_, ⟨h.inv, h.tree, ?_, h.skip⟩, rfl⟩
  · unfold scopeExit
    rw [if_neg hne]; rfl
  · intro x hx
    show x < s.tree.pool.size
    apply h.scopes x
    simp only [Array.toList_pop] at hx
    exact (List.dropLast_sublist _).subset hx

/-- `parseObjectList()`: total, and the first-pass invariant holds at the end -/
theorem parseObjectList_tot {d : Bytes} (hd : d.size + 268435456 ≤ 4294967296) (fuel : Nat) :
    ∀ (n : Nat) {s : PState}, FP d s → Bud d 0 s → s.scopeStack.size ≤ s.pkgEndStack.size →
      needNext (d.size - s.r.offset) ≤ fuel → d.size - s.r.offset + 1 ≤ fuel →
      d.size - s.r.offset + s.pkgEndStack.size + 1 ≤ n →
      ∃ res s', parseObjectList d fuel n s = .ok (res, s') ∧ FP d s' := by
  intro n
  induction n with
  | zero => intro s _ _ _ _ _ hn; omega
  | succ n ih =>
    intro s h hb hstk hfuel hfuel2 hn
    unfold parseObjectList
    have e0 : stackSizes s = .ok ((s.pkgEndStack.size, s.scopeStack.size), s) := rfl
    refine bind_ex e0 ?_
    by_cases hz : s.scopeStack.size = 0
    · rw [if_pos hz]
      exact pure_ex h
    · rw [if_neg hz]
      obtain ⟨b, s1, e1, h1, g1⟩ := objectListInner_tot hd fuel fuel h hz hb hfuel hfuel2
      refine bind_ex e1 ?_
      by_cases hbt : b = true
      · rw [hbt]
        have e2 : stackSizes s1 = .ok ((s1.pkgEndStack.size, s1.scopeStack.size), s1) := rfl
        refine bind_ex e2 ?_
        have hne1 : s1.scopeStack.size ≠ 0 := by have := g1.sc; omega
        have hstk1 : s1.scopeStack.size ≤ s1.pkgEndStack.size := by have := g1.scpk; omega
        have hi1 := h1.inv.1
        have hb1 : Bud d 0 s1 := hb.step g1 hi1 (Nat.le_refl _)
        have hmeas : d.size - s1.r.offset + s1.pkgEndStack.size ≤ d.size - s.r.offset + s.pkgEndStack.size := by
          have := g1.pkoff; have := g1.off; omega
        have hoff := g1.off
        -- what follows the optional `scopeExit`
        have cont : ∀ s2 : PState, FP d s2 → s2.tree = s1.tree → s2.r = s1.r → s2.pkgEndStack = s1.pkgEndStack →
            s2.scopeStack.size + 1 ≤ s1.pkgEndStack.size →
            ∃ res s', (popPkgEnd d >>= fun _ => parseObjectList d fuel n) s2 = .ok (res, s') ∧ FP d s' := by
          intro s2 h2 ht2 hr2 hpk2 hsc2
          obtain ⟨_, s3, e3, h3, ht3, hsc3, hpk3, ho3⟩ := popPkgEnd_step h2
          refine bind_ex e3 ?_
          have hpk3s : s3.pkgEndStack.size + 1 = s1.pkgEndStack.size := by
            rw [hpk3, hpk2]; simp only [Array.size_pop]; omega
          have ho31 : s3.r.offset = s1.r.offset := by rw [ho3, hr2]
          have hb3 : Bud d 0 s3 := by
            unfold Bud at hb1 ⊢; rw [ht3, ht2, ho31]; exact hb1
          exact ih h3 hb3 (by rw [hsc3]; omega) (by rw [ho31]; exact Nat.le_trans (needNext_mono (by omega)) hfuel)
            (by rw [ho31]; omega) (by rw [ho31]; omega)
        dsimp only
        split
        · rename_i heq
          obtain ⟨s2, e2', h2, hs2⟩ := scopeExit_step h1 hne1
          refine bind_ex e2' ?_
          refine cont s2 h2 (by rw [hs2]) (by rw [hs2]) (by rw [hs2]) ?_
          rw [hs2]; show s1.scopeStack.pop.size + 1 ≤ _
          simp only [Array.size_pop]; omega
        · rename_i hneq
          exact cont s1 h1 rfl rfl rfl (by omega)
      · have hbf : b = false := by cases b <;> simp_all
        rw [hbf]
        exact pure_ex h1

/-! ## the first pass of `ParseAML` -/

/-- `p.init(…)`, `p.scopeEnter(0)` and `p.parseObjectList()`: what `ParseAML` does before the tree passes -/
def firstPass (d : Bytes) (fuel handle : Nat) : P PRes := do
  init d handle
  scopeEnter 0
  parseObjectList d fuel fuel

/-- what `ParseAML` does with the result of the first pass -/
def afterFirstPass (d : Bytes) (fuel : Nat) (r : PRes) : P Bool :=
  if r = .failed then pure false
  else do
    if (← connectNamedObjArgs d fuel 0) ≠ .ok then pure false
    else do
      modify fun s => { s with resolvePasses := 1 }
      if !(← resolveLoopPasses d fuel fuel) then pure false
      else if (← parseDeferredBlocks d fuel fuel 0) ≠ .ok then pure false
      else if (← resolveMethodCalls d fuel 0) ≠ .ok then pure false
      else if (← connectNonNamedObjArgs fuel 0) ≠ .ok then pure false
      else pure true

/-- `ParseAML` is the first pass followed by the rest -/
theorem parseAML_eq (d : Bytes) (fuel handle : Nat) :
    parseAML d fuel handle = firstPass d fuel handle >>= afterFirstPass d fuel := by
  unfold parseAML parseAMLBody firstPass afterFirstPass
  simp only [bind_assoc]

/-- a panic or exhausted fuel of the first pass is one of `ParseAML`, and a failed first pass makes `ParseAML`
return its error in the same state -/
theorem parseAML_of_firstPass (d : Bytes) (fuel handle : Nat) (s : PState) :
    (∀ e, firstPass d fuel handle s = .error e → parseAML d fuel handle s = .error e) ∧
    (∀ s', firstPass d fuel handle s = .ok (.failed, s') → parseAML d fuel handle s = .ok (false, s')) := by
  rw [parseAML_eq]
  constructor
  · intro e he
    show (StateT.bind _ _) s = _
    simp only [StateT.bind, he]
    rfl
  · intro s' he
    show (StateT.bind _ _) s = _
    simp only [StateT.bind, he]
    rfl

/-- the first pass of a table below 256 MiB parsed into a pool without freed slots (for instance the pool
`CreateDefaultScopes` builds) with room for 16 objects per table byte: it returns normally and leaves the
first-pass invariant, in particular a well-formed pool -/
theorem firstPass_tot {d : Bytes} (hd : d.size + 268435456 ≤ 4294967296) {s : PState} (ht : TreeOK s.tree)
    (hsz : s.tree.pool.size + 16 * d.size ≤ INV) (fuel handle : Nat) (hfuel : 13 * d.size + 13 ≤ fuel) :
    ∃ res s', firstPass d fuel handle s = .ok (res, s') ∧ FP d s' := by
  unfold firstPass
  let s0 : PState := { s with tableHandle := handle, resolvePasses := 0, mergedScopes := 0, relocatedObjects := 0, allBlocks := false, scopeStack := #[], pkgEndStack := #[] }
  let s1 : PState := { s0 with r := Reader.init d headerLen, streamEnd := d.size }
  have h1 : FP d s1 := ⟨⟨by show (if headerLen > d.size then d.size else headerLen) ≤ d.size; split <;> omega, Nat.le_refl _⟩,
    ht, fun x hx => (by cases hx), rfl⟩
  obtain ⟨b, s2, e2, h2, hs2, ho2⟩ := pushPkgEnd_step h1 d.size
  have e3 : scopeEnter 0 s2 = .ok ((), { s2 with scopeStack := s2.scopeStack.push 0 }) := rfl
  have hinit : ∃ (u : Unit) (s' : PState), init d handle s = .ok (u, s') ∧ s' = s2 := by
    unfold init
    refine bind_ex (s1 := s0) rfl ?_
    refine bind_ex (s1 := s1) rfl ?_
    refine bind_ex e2 ?_
    exact pure_ex rfl
  obtain ⟨_, s', hinit, hs'⟩ := hinit
  rw [hs'] at hinit
  refine bind_ex hinit ?_
  refine bind_ex e3 ?_
  have ht2 : s2.tree = s.tree := by rw [hs2]
  have hsc2 : s2.scopeStack = #[] := by rw [hs2]
  have hpk2 : s2.pkgEndStack = #[d.size] := by rw [hs2]; rfl
  have h3 : FP d { s2 with scopeStack := s2.scopeStack.push 0 } := by
    refine ⟨h2.inv, h2.tree, ?_, h2.skip⟩
    intro x hx
    show x < s2.tree.pool.size
    rw [hsc2] at hx
    simp at hx
    rw [hx]; exact h2.tree.nonempty
  have hi := h2.inv.1
  refine parseObjectList_tot hd fuel fuel h3 ?_ ?_ ?_ ?_ ?_
  · unfold Bud; show s2.tree.pool.size + 16 * (d.size - s2.r.offset) + 0 ≤ INV
    rw [ht2]; omega
  · show (s2.scopeStack.push 0).size ≤ s2.pkgEndStack.size
    rw [hsc2, hpk2]; simp
  · show needNext (d.size - s2.r.offset) ≤ fuel
    unfold needNext needOA needArgs needArg needT; omega
  · show d.size - s2.r.offset + 1 ≤ fuel
    omega
  · show d.size - s2.r.offset + s2.pkgEndStack.size + 1 ≤ fuel
    rw [hpk2]; simp; omega

/-- `fuelFor` covers the fuel the first pass needs -/
theorem fuelFor_enough (d : Bytes) (t : ObjectTree) : 13 * d.size + 13 ≤ fuelFor d t := by
  unfold fuelFor; omega

/-- executable check of `TreeOK` (used for the non-vacuity example: the default scopes) -/
def treeOKb (t : ObjectTree) : Bool :=
  wfCheck t && decide (0 < t.pool.size) &&
  (List.range t.pool.size).all fun x =>
    live t x && (C13.P t x == INV || decide (C13.P t x < x)) && (opFlags (slot t x).infoIndex).isSome

theorem treeOK_of_b {t : ObjectTree} (h : treeOKb t = true) : TreeOK t := by
  unfold treeOKb at h
  simp only [Bool.and_eq_true, decide_eq_true_eq, List.all_eq_true, List.mem_range, Bool.or_eq_true, beq_iff_eq] at h
  obtain ⟨⟨hw, hne⟩, hall⟩ := h
  refine ⟨by unfold wfCheck at hw; exact wfCert_sound' hw, fun i hi => (hall i hi).1.1, ?_, fun x hx => (hall x hx).2, hne⟩
  intro x hx hp
  rcases (hall x hx).1.2 with h1 | h1
  · exact absurd h1 hp
  · exact h1

end Firefly.AmlParser
