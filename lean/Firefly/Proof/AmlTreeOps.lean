import Firefly.Proof.AmlTree
/-!
Lemmas for C13: the editing operations of the object pool preserve `WF`.
-/
namespace Firefly.C13
open Firefly.AmlTree Firefly.AmlTree.ObjectTree

/-- `localOK` as a proposition -/
structure LocalP (t : ObjectTree) (i : Nat) : Prop where
  lp : P t i = INV ∨ live t (P t i) = true
  lpv : Pv t i = INV ∨ live t (Pv t i) = true
  lnx : Nx t i = INV ∨ live t (Nx t i) = true
  lfi : Fi t i = INV ∨ live t (Fi t i) = true
  lla : La t i = INV ∨ live t (La t i) = true
  det : P t i = INV → Pv t i = INV ∧ Nx t i = INV
  pv : Pv t i ≠ INV → Nx t (Pv t i) = i ∧ P t (Pv t i) = P t i
  nx : Nx t i ≠ INV → Pv t (Nx t i) = i ∧ P t (Nx t i) = P t i
  first : P t i ≠ INV → Pv t i = INV → Fi t (P t i) = i
  last : P t i ≠ INV → Nx t i = INV → La t (P t i) = i
  fi : Fi t i ≠ INV → P t (Fi t i) = i ∧ Pv t (Fi t i) = INV
  la : La t i ≠ INV → P t (La t i) = i ∧ Nx t (La t i) = INV
  ends : Fi t i = INV ↔ La t i = INV

theorem localOK_iff (t : ObjectTree) (i : Nat) : localOK t i = true ↔ LocalP t i := by
  constructor
  · intro h
    simp only [localOK, Bool.and_eq_true, Bool.or_eq_true, decide_eq_true_eq, ne_eq,
      decide_not, Bool.not_eq_true', decide_eq_false_iff_not, beq_iff_eq, decide_eq_decide, linkOK_iff] at h
    obtain ⟨⟨⟨⟨⟨⟨⟨⟨⟨⟨⟨⟨a1, a2⟩, a3⟩, a4⟩, a5⟩, c1⟩, c2⟩, c3⟩, c4⟩, c5⟩, c6⟩, c7⟩, c8⟩ := h
    exact ⟨a1, a2, a3, a4, a5, by grind, by grind, by grind, by grind, by grind, by grind, by grind, c8⟩
  · intro h
    obtain ⟨a1, a2, a3, a4, a5, c1, c2, c3, c4, c5, c6, c7, c8⟩ := h
    simp only [localOK, Bool.and_eq_true, Bool.or_eq_true, decide_eq_true_eq, ne_eq,
      decide_not, Bool.not_eq_true', decide_eq_false_iff_not, beq_iff_eq, decide_eq_decide, linkOK_iff]
    refine ⟨⟨⟨⟨⟨⟨⟨⟨⟨⟨⟨⟨a1, a2⟩, a3⟩, a4⟩, a5⟩, ?_⟩, ?_⟩, ?_⟩, ?_⟩, ?_⟩, ?_⟩, ?_⟩, c8⟩ <;> grind

theorem WF.lP {t : ObjectTree} (w : WF t) {i : Nat} (h : live t i = true) : LocalP t i :=
  (localOK_iff t i).1 (w.loc i h)

/-! ### field accessors after one write -/

section setAt
variable (t : ObjectTree) (i : Nat) (f : Obj → Obj) (h : i < t.pool.size)
include h

theorem P_setAt (x : Nat) : P (setAt t i f) x = if i = x then (f (slot t x)).parentIndex else P t x := by
  simp only [P, slot_setAt t i f x h]; split <;> rfl
theorem Pv_setAt (x : Nat) : Pv (setAt t i f) x = if i = x then (f (slot t x)).prevSiblingIndex else Pv t x := by
  simp only [Pv, slot_setAt t i f x h]; split <;> rfl
theorem Nx_setAt (x : Nat) : Nx (setAt t i f) x = if i = x then (f (slot t x)).nextSiblingIndex else Nx t x := by
  simp only [Nx, slot_setAt t i f x h]; split <;> rfl
theorem Fi_setAt (x : Nat) : Fi (setAt t i f) x = if i = x then (f (slot t x)).firstArgIndex else Fi t x := by
  simp only [Fi, slot_setAt t i f x h]; split <;> rfl
theorem La_setAt (x : Nat) : La (setAt t i f) x = if i = x then (f (slot t x)).lastArgIndex else La t x := by
  simp only [La, slot_setAt t i f x h]; split <;> rfl
theorem live_setAt (x : Nat) (hop : (f (slot t i)).opcode = (slot t i).opcode) :
    live (setAt t i f) x = live t x := by
  simp only [live, size_setAt, slot_setAt t i f x h]
  by_cases e : i = x
  · subst e; simp [hop]
  · simp [e]
end setAt

/-! ### the free chain has no repetition -/

theorem freeChain_det {t : ObjectTree} : ∀ (l1 l2 : List Nat) (a : Nat), t.pool.size ≤ INV →
    FreeChain t a l1 → FreeChain t a l2 → l1 = l2 := by
  intro l1
  induction l1 with
  | nil =>
    intro l2 a hs h1 h2
    cases l2 with
    | nil => rfl
    | cons y ys =>
      have : a = INV := h1
      obtain ⟨rfl, hy, _⟩ := h2
      omega
  | cons x xs ih =>
    intro l2 a hs h1 h2
    obtain ⟨rfl, hx, _, h1'⟩ := h1
    cases l2 with
    | nil => have : a = INV := h2; omega
    | cons y ys =>
      obtain ⟨rfl, _, _, h2'⟩ := h2
      rw [ih ys _ hs h1' h2']

theorem freeChain_suffix {t : ObjectTree} : ∀ (l : List Nat) (a x : Nat), FreeChain t a l → x ∈ l →
    ∃ l', FreeChain t x l' ∧ l'.length ≤ l.length := by
  intro l
  induction l with
  | nil => intro a x _ hx; simp at hx
  | cons y ys ih =>
    intro a x hc hx
    obtain ⟨rfl, hy, hl, hc'⟩ := hc
    rcases List.mem_cons.1 hx with rfl | hx
    · exact ⟨x :: ys, ⟨rfl, hy, hl, hc'⟩, by simp⟩
    · obtain ⟨l', h1, h2⟩ := ih _ x hc' hx
      exact ⟨l', h1, by simp; omega⟩

theorem freeChain_head_notin {t : ObjectTree} (hs : t.pool.size ≤ INV) {h : Nat} {xs : List Nat}
    (hc : FreeChain t h (h :: xs)) : h ∉ xs := by
  intro hm
  obtain ⟨l', h1, h2⟩ := freeChain_suffix xs _ h hc.2.2.2 hm
  have := freeChain_det _ _ _ hs h1 hc
  subst this
  simp at h2; omega

/-- a chain that avoids the positions where two pools differ is a chain of both -/
theorem freeChain_congr {t t' : ObjectTree} (hsz : t.pool.size ≤ t'.pool.size) :
    ∀ (l : List Nat) (a : Nat), (∀ x ∈ l, live t' x = live t x ∧ Nx t' x = Nx t x) →
      FreeChain t a l → FreeChain t' a l := by
  intro l
  induction l with
  | nil => intro a _ h; exact h
  | cons y ys ih =>
    intro a hsame hc
    obtain ⟨rfl, hy, hl, hc'⟩ := hc
    have := hsame a (by simp)
    refine ⟨rfl, by omega, by rw [this.1]; exact hl, ?_⟩
    rw [this.2]
    exact ih _ (fun x hx => hsame x (by simp [hx])) hc'

/-! ### newObject -/

/-- the reset every `newObject` applies -/
def initObj (opcode info th : Nat) (o : Obj) : Obj :=
  { o with opcode := opcode, infoIndex := info, tableHandle := th,
           parentIndex := InvalidIndex, prevSiblingIndex := InvalidIndex,
           nextSiblingIndex := InvalidIndex, firstArgIndex := InvalidIndex,
           lastArgIndex := InvalidIndex, value := .none }

/-- a pool `t'` that agrees with `t` everywhere except at `n`, where a fresh detached live object
sits, and whose live set is that of `t` plus `n` -/
structure Fresh (t t' : ObjectTree) (n : Nat) : Prop where
  nlive : live t n = false
  same : ∀ x, x ≠ n → slot t' x = slot t x
  livex : ∀ x, x ≠ n → live t' x = live t x
  liven : live t' n = true
  pn : P t' n = INV
  pvn : Pv t' n = INV
  nxn : Nx t' n = INV
  fin : Fi t' n = INV
  lan : La t' n = INV

theorem Fresh.localP {t t' : ObjectTree} {n : Nat} (fr : Fresh t t' n) (w : WF t) :
    ∀ i, live t' i = true → LocalP t' i := by
  intro i hl
  by_cases hi : i = n
  · subst hi
    refine ⟨Or.inl fr.pn, Or.inl fr.pvn, Or.inl fr.nxn, Or.inl fr.fin, Or.inl fr.lan, ?_, ?_, ?_, ?_, ?_, ?_, ?_, ?_⟩
    · intro _; exact ⟨fr.pvn, fr.nxn⟩
    · intro h; exact absurd fr.pvn h
    · intro h; exact absurd fr.nxn h
    · intro h; exact absurd fr.pn h
    · intro h; exact absurd fr.pn h
    · intro h; exact absurd fr.fin h
    · intro h; exact absurd fr.lan h
    · simp [fr.fin, fr.lan]
  · have hl0 : live t i = true := by rw [← fr.livex i hi]; exact hl
    have lp := w.lP hl0
    have hne : ∀ x, live t x = true → x ≠ n := fun x hx e => by rw [e, fr.nlive] at hx; cases hx
    have acc : ∀ x, x ≠ n → P t' x = P t x ∧ Pv t' x = Pv t x ∧ Nx t' x = Nx t x ∧ Fi t' x = Fi t x ∧ La t' x = La t x := by
      intro x hx; simp [P, Pv, Nx, Fi, La, fr.same x hx]
    have lv : ∀ x, live t x = true → live t' x = true := fun x hx => by rw [fr.livex x (hne x hx)]; exact hx
    obtain ⟨a1, a2, a3, a4, a5⟩ := acc i hi
    obtain ⟨b1, b2, b3, b4, b5, c1, c2, c3, c4, c5, c6, c7, c8⟩ := lp
    have up : ∀ y, (y = INV ∨ live t y = true) → (y = INV ∨ live t' y = true) := fun y hy => hy.elim Or.inl (fun h => Or.inr (lv y h))
    refine ⟨?_, ?_, ?_, ?_, ?_, ?_, ?_, ?_, ?_, ?_, ?_, ?_, ?_⟩
    · rw [a1]; exact up _ b1
    · rw [a2]; exact up _ b2
    · rw [a3]; exact up _ b3
    · rw [a4]; exact up _ b4
    · rw [a5]; exact up _ b5
    · rw [a1, a2, a3]; exact c1
    · rw [a2, a1]; intro h
      have hy := hne _ (b2.resolve_left h)
      rw [(acc _ hy).2.2.1, (acc _ hy).1]; exact c2 h
    · rw [a3, a1]; intro h
      have hy := hne _ (b3.resolve_left h)
      rw [(acc _ hy).2.1, (acc _ hy).1]; exact c3 h
    · rw [a1, a2]; intro h h'
      have hy := hne _ (b1.resolve_left h)
      rw [(acc _ hy).2.2.2.1]; exact c4 h h'
    · rw [a1, a3]; intro h h'
      have hy := hne _ (b1.resolve_left h)
      rw [(acc _ hy).2.2.2.2]; exact c5 h h'
    · rw [a4]; intro h
      have hy := hne _ (b4.resolve_left h)
      rw [(acc _ hy).1, (acc _ hy).2.1]; exact c6 h
    · rw [a5]; intro h
      have hy := hne _ (b5.resolve_left h)
      rw [(acc _ hy).1, (acc _ hy).2.2.1]; exact c7 h
    · rw [a4, a5]; exact c8

theorem Fresh.wf {t t' : ObjectTree} {n : Nat} (fr : Fresh t t' n) (w : WF t)
    (hsz : t'.pool.size ≤ INV) (hidx : ∀ i, i < t'.pool.size → (slot t' i).index = i)
    (hfree : ∃ fl, FreeChain t' t'.freeListHeadIndex fl ∧ ∀ i, i < t'.pool.size → live t' i = false → i ∈ fl) :
    WF t' := by
  have hne : ∀ x, live t' x = true → x ≠ n → live t x = true := fun x hx e => by rw [← fr.livex x e]; exact hx
  refine ⟨hsz, hidx, fun i hl => (localOK_iff t' i).2 (fr.localP w i hl), ?_, ?_, hfree⟩
  · obtain ⟨rk, hrk⟩ := w.rank
    refine ⟨rk, fun i hl hp => ?_⟩
    have hi : i ≠ n := fun e => hp (e ▸ fr.pn)
    have : P t' i = P t i := by simp [P, fr.same i hi]
    rw [this] at hp ⊢
    exact hrk i (hne i hl hi) hp
  · obtain ⟨pos, hpos⟩ := w.order
    refine ⟨pos, fun i hl hp => ?_⟩
    have hi : i ≠ n := fun e => hp (e ▸ fr.nxn)
    have : Nx t' i = Nx t i := by simp [Nx, fr.same i hi]
    rw [this] at hp ⊢
    exact hpos i (hne i hl hi) hp

theorem slot_push (t : ObjectTree) (o : Obj) (x : Nat) :
    slot { t with pool := t.pool.push o } x = if x = t.pool.size then o else slot t x := by
  simp only [slot, Array.getElem?_push]
  split <;> rfl

/-- `newObject` under its contract (`pool.size < 2^32-1`, the opcode is not the freed marker):
succeeds, preserves `WF`, and adds exactly one fresh detached live object. -/
theorem newObject_wf {t : ObjectTree} (w : WF t) (opcode info th : Nat)
    (hpre : t.pool.size < INV) (hop : opcode ≠ pOpIntFreedObject) :
    ∃ t' i, t.newObject opcode info th = .ok (t', i) ∧ WF t' ∧ Fresh t t' i := by
  obtain ⟨fl, hc, hall⟩ := w.free
  have hh := freeChain_head w.size_le hc
  by_cases h0 : t.freeListHeadIndex = InvalidIndex
  · -- the pool grows
    have hfl : fl = [] := hh.1.1 h0
    have hlive : ∀ j, j < t.pool.size → live t j = true := by
      intro j hj
      cases hj' : live t j with
      | true => rfl
      | false => have := hall j hj hj'; simp [hfl] at this
    refine ⟨{ t with pool := t.pool.push (initObj opcode info th { index := t.pool.size }) }, t.pool.size, ?_, ?_⟩
    · unfold ObjectTree.newObject
      rw [if_neg (by simp [h0])]
      rfl
    have fr : Fresh t { t with pool := t.pool.push (initObj opcode info th { index := t.pool.size }) } t.pool.size := by
      refine ⟨by simp [live], ?_, ?_, ?_, ?_, ?_, ?_, ?_, ?_⟩
      · intro x hx; simp [slot_push, hx]
      · intro x hx
        simp only [live, slot_push, hx, if_false, Array.size_push]
        by_cases hx' : x < t.pool.size
        · simp [hx']; omega
        · simp [hx']; omega
      · simp [live, slot_push, initObj, hop]
      all_goals simp [P, Pv, Nx, Fi, La, slot_push, initObj, INV]
    refine ⟨fr.wf w (by simp; omega) ?_ ⟨[], h0, ?_⟩, fr⟩
    · intro i hi
      simp only [slot_push]
      split
      · rename_i e; simp [initObj, e]
      · rename_i e; simp at hi; exact w.index_eq i (by omega)
    · intro i hi hl
      simp at hi
      by_cases e : i = t.pool.size
      · rw [e, fr.liven] at hl; cases hl
      · rw [fr.livex i e, hlive i (by omega)] at hl; cases hl
  · -- a freed slot is reused
    obtain ⟨hlt, hnl⟩ := hh.2 h0
    cases fl with
    | nil => exact absurd (hh.1.2 rfl) h0
    | cons x xs =>
      obtain ⟨hx, _, _, hc'⟩ := id hc
      subst hx
      have hnotin := freeChain_head_notin w.size_le hc
      let t0 : ObjectTree := { t with freeListHeadIndex := (slot t t.freeListHeadIndex).nextSiblingIndex }
      have hsl0 : ∀ y, slot t0 y = slot t y := fun y => rfl
      refine ⟨setAt t0 t.freeListHeadIndex (initObj opcode info th), t.freeListHeadIndex, ?_, ?_⟩
      · simp only [ObjectTree.newObject, ne_eq, h0, not_false_eq_true, if_true, obj_eq hlt, bind, Except.bind]
        rw [upd_eq _ (by simpa using hlt)]
        rfl
      have hlt0 : t.freeListHeadIndex < t0.pool.size := hlt
      have fr : Fresh t (setAt t0 t.freeListHeadIndex (initObj opcode info th)) t.freeListHeadIndex := by
        refine ⟨hnl, ?_, ?_, ?_, ?_, ?_, ?_, ?_, ?_⟩
        · intro y hy; rw [slot_setAt _ _ _ _ hlt0]; simp [Ne.symm hy, hsl0]
        · intro y hy
          simp only [live, size_setAt, slot_setAt _ _ _ _ hlt0, Ne.symm hy, if_false]
          rfl
        · simp only [live, size_setAt, slot_setAt _ _ _ _ hlt0, if_true]
          simp [initObj, hop]; exact hlt
        all_goals simp [P, Pv, Nx, Fi, La, slot_setAt _ _ _ _ hlt0, initObj, INV]
      refine ⟨fr.wf w (by simpa using w.size_le) ?_ ⟨xs, ?_, ?_⟩, fr⟩
      · intro i hi
        rw [slot_setAt _ _ _ _ hlt0]
        split
        · rename_i e; subst e; simp only [initObj]; exact w.index_eq _ hlt
        · exact w.index_eq i (by simpa using hi)
      · have : (setAt t0 t.freeListHeadIndex (initObj opcode info th)).freeListHeadIndex = Nx t t.freeListHeadIndex := rfl
        rw [this]
        apply freeChain_congr (t := t) (by simp [t0]) xs _ _ hc'
        intro y hy
        have hyn : y ≠ t.freeListHeadIndex := fun e => hnotin (by rw [← e]; exact hy)
        exact ⟨fr.livex y hyn, by simp [Nx, fr.same y hyn]⟩
      · intro i hi hl
        have hin : i ≠ t.freeListHeadIndex := fun e => by rw [e, fr.liven] at hl; cases hl
        rw [fr.livex i hin] at hl
        have := hall i (by simpa using hi) hl
        rcases List.mem_cons.1 this with e | e
        · exact absurd e hin
        · exact e

/-! ### every child is in its parent's child list -/

theorem chain_succ_mem {t : ObjectTree} (_hs : t.pool.size ≤ INV) :
    ∀ (l : List Nat) (a j : Nat), Chain t (Nx t) a l → j ∈ l → Nx t j ≠ INV → Nx t j ∈ l := by
  intro l
  induction l with
  | nil => intro a j _ hj; simp at hj
  | cons x xs ih =>
    intro a j hc hj hn
    obtain ⟨rfl, hl, hc'⟩ := hc
    rcases List.mem_cons.1 hj with rfl | hj
    · cases xs with
      | nil => exact absurd hc' hn
      | cons y ys => obtain ⟨e, _, _⟩ := hc'; simp [e]
    · exact List.mem_cons_of_mem _ (ih _ j hc' hj hn)

theorem WF.child_mem {t : ObjectTree} (w : WF t) {p : Nat} {l : List Nat} (hc : Chain t (Nx t) (Fi t p) l)
    (pos : Nat → Nat) (hpos : ∀ i, live t i = true → Nx t i ≠ INV → pos i < pos (Nx t i)) :
    ∀ (n i : Nat), pos i ≤ n → live t i = true → P t i = p → p ≠ INV → i ∈ l := by
  intro n
  induction n with
  | zero =>
    intro i hn hl hp hpn
    have lp := w.lP hl
    by_cases hpv : Pv t i = INV
    · have := lp.first (hp ▸ hpn) hpv
      rw [hp] at this
      cases l with
      | nil => exact absurd (this ▸ hc : i = INV) (live_ne_INV w.size_le hl)
      | cons x xs => obtain ⟨e, _, _⟩ := hc; rw [this] at e; simp [e]
    · have hj := lp.lpv.resolve_left hpv
      have := hpos _ hj (by rw [(lp.pv hpv).1]; exact live_ne_INV w.size_le hl)
      rw [(lp.pv hpv).1] at this
      omega
  | succ n ih =>
    intro i hn hl hp hpn
    have lp := w.lP hl
    by_cases hpv : Pv t i = INV
    · have := lp.first (hp ▸ hpn) hpv
      rw [hp] at this
      cases l with
      | nil => exact absurd (this ▸ hc : i = INV) (live_ne_INV w.size_le hl)
      | cons x xs => obtain ⟨e, _, _⟩ := hc; rw [this] at e; simp [e]
    · have hj := lp.lpv.resolve_left hpv
      have hne : Nx t (Pv t i) ≠ INV := by rw [(lp.pv hpv).1]; exact live_ne_INV w.size_le hl
      have := hpos _ hj hne
      rw [(lp.pv hpv).1] at this
      have hmem := ih (Pv t i) (by omega) hj (by rw [(lp.pv hpv).2, hp]) hpn
      have := chain_succ_mem w.size_le l _ _ hc hmem hne
      rwa [(lp.pv hpv).1] at this

/-! ### the forest's derived parent is the pool's parent link -/

theorem find?_unique {α : Type} (q : α → Bool) (x : α) :
    ∀ (l : List α), x ∈ l → q x = true → (∀ y ∈ l, q y = true → y = x) → l.find? q = some x := by
  intro l
  induction l with
  | nil => intro h; simp at h
  | cons a l ih =>
    intro hx hq hu
    by_cases ha : q a = true
    · have := hu a (by simp) ha
      subst this
      simp [List.find?, ha]
    · have hax : x ≠ a := fun e => ha (e ▸ hq)
      simp only [List.find?, ha]
      have hx' : x ∈ l := by
        rcases List.mem_cons.1 hx with e | e
        · exact absurd e hax
        · exact e
      exact ih hx' hq (fun y hy => hu y (List.mem_cons_of_mem _ hy))

theorem WF.kids_mem {t : ObjectTree} (w : WF t) (p : Nat) (hl : live t p = true) (k : Nat) :
    k ∈ (abs t).kids p ↔ (live t k = true ∧ P t k = p) := by
  obtain ⟨l, hc, ha, _⟩ := w.args_eq hl
  have hk : (abs t).kids p = l := by simp [abs, ha]
  rw [hk]
  constructor
  · exact w.chain_parent l (Fi t p) p hc (fun hne => ((w.localP hl).2.2.2.2.2.1 hne).1) k
  · rintro ⟨hlk, hp⟩
    obtain ⟨pos, hpos⟩ := w.order
    exact w.child_mem hc pos hpos (pos k) k (Nat.le_refl _) hlk hp (live_ne_INV w.size_le hl)

theorem mem_ids {t : ObjectTree} (p : Nat) : p ∈ (abs t).ids ↔ live t p = true := by
  simp only [abs, List.mem_filter, List.mem_range]
  exact ⟨fun h => h.2, fun h => ⟨live_lt h, h⟩⟩

/-- `parentOf` on the abstracted forest (a search through the child lists) is the parent link -/
theorem WF.parentOf_abs {t : ObjectTree} (w : WF t) (i : Nat) (hl : live t i = true) :
    (abs t).parentOf i = if P t i = INV then none else some (P t i) := by
  unfold Forest.parentOf
  by_cases hp : P t i = INV
  · simp only [hp, if_true, List.find?_eq_none]
    intro p hpm hc
    have hpl := (mem_ids p).1 hpm
    have := (w.kids_mem p hpl i).1 (by simpa using hc)
    have hne := live_ne_INV w.size_le hpl
    rw [hp] at this
    exact hne this.2.symm
  · simp only [hp, if_false]
    have hpl : live t (P t i) = true := (w.links hl).1.resolve_left hp
    apply find?_unique
    · exact (mem_ids _).2 hpl
    · simpa using (w.kids_mem _ hpl i).2 ⟨hl, rfl⟩
    · intro y hy hc
      have := (w.kids_mem y ((mem_ids y).1 hy) i).1 (by simpa using hc)
      exact this.2.symm

/-- the `'^'` loop on `k` carets is `climb` -/
theorem WF.findCarets_climb {t : ObjectTree} (w : WF t) :
    ∀ (k scope : Nat), live t scope = true →
      t.findCarets scope (List.replicate k 0x5e) = .ok (optIdx ((abs t).climb k scope)) := by
  intro k
  induction k with
  | zero => intro scope _; rfl
  | succ k ih =>
    intro scope hl
    simp only [List.replicate_succ, findCarets, if_true, objectAt_live hl, deref_some, obj_eq (live_lt hl),
      bind, Except.bind, Forest.climb, w.parentOf_abs scope hl]
    by_cases hp : P t scope = INV
    · have : (slot t scope).parentIndex = InvalidIndex := hp
      simp [this, hp, optIdx, INV, pure, Except.pure]
    · have hp' : ¬ (slot t scope).parentIndex = InvalidIndex := hp
      simp only [hp', if_false, hp, Option.bind]
      exact ih _ ((w.links hl).1.resolve_left hp)

/-! ### pools are determined by their slots -/

theorem slot_setAt' (t : ObjectTree) (i : Nat) (f : Obj → Obj) (j : Nat) :
    slot (setAt t i f) j = if i = j ∧ j < t.pool.size then f (slot t j) else slot t j := by
  simp only [slot, setAt, Array.getElem?_modify]
  by_cases hij : i = j
  · subst hij
    by_cases h : i < t.pool.size
    · simp [h]
    · simp [h]
  · simp [hij]

theorem ext_slot {t1 t2 : ObjectTree} (hs : t1.pool.size = t2.pool.size)
    (hf : t1.freeListHeadIndex = t2.freeListHeadIndex) (h : ∀ j, slot t1 j = slot t2 j) : t1 = t2 := by
  cases t1 with | mk p1 f1 =>
  cases t2 with | mk p2 f2 =>
  simp only at hs hf
  subst hf
  congr 1
  apply Array.ext hs
  intro j h1 h2
  have := h j
  simpa [slot, h1, h2] using this

theorem setAt_id' (t : ObjectTree) (i : Nat) : setAt t i (fun o => o) = t :=
  ext_slot (by simp) rfl (fun j => by simp [slot_setAt'])

theorem setAt_oob (t : ObjectTree) (i : Nat) (f : Obj → Obj) (h : ¬ i < t.pool.size) : setAt t i f = t :=
  ext_slot (by simp) rfl (fun j => by
    rw [slot_setAt']
    split
    · rename_i c; omega
    · rfl)

section acc
variable (t : ObjectTree) (i : Nat) (f : Obj → Obj) (x : Nat)
theorem P_setAt' : P (setAt t i f) x = if i = x ∧ x < t.pool.size then (f (slot t x)).parentIndex else P t x := by
  simp only [P, slot_setAt']; split <;> rfl
theorem Pv_setAt' : Pv (setAt t i f) x = if i = x ∧ x < t.pool.size then (f (slot t x)).prevSiblingIndex else Pv t x := by
  simp only [Pv, slot_setAt']; split <;> rfl
theorem Nx_setAt' : Nx (setAt t i f) x = if i = x ∧ x < t.pool.size then (f (slot t x)).nextSiblingIndex else Nx t x := by
  simp only [Nx, slot_setAt']; split <;> rfl
theorem Fi_setAt' : Fi (setAt t i f) x = if i = x ∧ x < t.pool.size then (f (slot t x)).firstArgIndex else Fi t x := by
  simp only [Fi, slot_setAt']; split <;> rfl
theorem La_setAt' : La (setAt t i f) x = if i = x ∧ x < t.pool.size then (f (slot t x)).lastArgIndex else La t x := by
  simp only [La, slot_setAt']; split <;> rfl
theorem index_setAt' : (slot (setAt t i f) x).index = if i = x ∧ x < t.pool.size then (f (slot t x)).index else (slot t x).index := by
  simp only [slot_setAt']; split <;> rfl
theorem opcode_setAt' : (slot (setAt t i f) x).opcode = if i = x ∧ x < t.pool.size then (f (slot t x)).opcode else (slot t x).opcode := by
  simp only [slot_setAt']; split <;> rfl
theorem name_setAt' : (slot (setAt t i f) x).name = if i = x ∧ x < t.pool.size then (f (slot t x)).name else (slot t x).name := by
  simp only [slot_setAt']; split <;> rfl
end acc

/-- discharges "this update does not touch that field" side conditions -/
macro "keep_tac" : tactic => `(tactic| (intro o; simp only [apply_ite Obj.nextSiblingIndex,
  apply_ite Obj.prevSiblingIndex, apply_ite Obj.parentIndex, apply_ite Obj.firstArgIndex,
  apply_ite Obj.lastArgIndex, apply_ite Obj.opcode, apply_ite Obj.index, apply_ite Obj.name, ite_self]))

section keep
variable (t : ObjectTree) (i : Nat) (f : Obj → Obj) (x : Nat)
theorem P_keep (hf : ∀ o, (f o).parentIndex = o.parentIndex) : P (setAt t i f) x = P t x := by
  rw [P_setAt']; split <;> simp [hf, P]
theorem Pv_keep (hf : ∀ o, (f o).prevSiblingIndex = o.prevSiblingIndex) : Pv (setAt t i f) x = Pv t x := by
  rw [Pv_setAt']; split <;> simp [hf, Pv]
theorem Nx_keep (hf : ∀ o, (f o).nextSiblingIndex = o.nextSiblingIndex) : Nx (setAt t i f) x = Nx t x := by
  rw [Nx_setAt']; split <;> simp [hf, Nx]
theorem Fi_keep (hf : ∀ o, (f o).firstArgIndex = o.firstArgIndex) : Fi (setAt t i f) x = Fi t x := by
  rw [Fi_setAt']; split <;> simp [hf, Fi]
theorem La_keep (hf : ∀ o, (f o).lastArgIndex = o.lastArgIndex) : La (setAt t i f) x = La t x := by
  rw [La_setAt']; split <;> simp [hf, La]
theorem live_keep (hf : ∀ o, (f o).opcode = o.opcode) : live (setAt t i f) x = live t x := by
  simp only [live, size_setAt, opcode_setAt']
  split <;> simp [hf]
end keep

/-! ### detach -/

/-- the state `detach(obj, arg)` produces when every dereference succeeds -/
def detachPure (t : ObjectTree) (obj arg : Nat) : ObjectTree :=
  let t1 := setAt t obj fun o => if Fi t obj = (slot t arg).index then { o with firstArgIndex := Nx t arg } else o
  let t2 := setAt t1 obj fun o => if La t1 obj = (slot t1 arg).index then { o with lastArgIndex := Pv t1 arg } else o
  let t3 := setAt t2 (Nx t2 arg) fun x => { x with prevSiblingIndex := Pv t2 arg }
  let t4 := setAt t3 (Pv t3 arg) fun x => { x with nextSiblingIndex := Nx t3 arg }
  let t5 := setAt t4 arg fun a => { a with prevSiblingIndex := InvalidIndex }
  let t6 := setAt t5 arg fun a => { a with nextSiblingIndex := InvalidIndex }
  setAt t6 arg fun a => { a with parentIndex := InvalidIndex }

theorem detachFirst_eq {t : ObjectTree} {obj arg : Nat} (ho : obj < t.pool.size) (ha : arg < t.pool.size) :
    t.detachFirst obj arg = .ok (setAt t obj fun o =>
      if Fi t obj = (slot t arg).index then { o with firstArgIndex := Nx t arg } else o) := by
  simp only [detachFirst, obj_eq ho, obj_eq ha, bind, Except.bind]
  by_cases c : (slot t obj).firstArgIndex = (slot t arg).index
  · simp only [c, if_true, upd_eq _ ho, Fi]; rfl
  · simp only [c, if_false, pure, Except.pure, Fi]
    congr 1
    exact (setAt_id' t obj).symm

theorem detachLast_eq {t : ObjectTree} {obj arg : Nat} (ho : obj < t.pool.size) (ha : arg < t.pool.size) :
    t.detachLast obj arg = .ok (setAt t obj fun o =>
      if La t obj = (slot t arg).index then { o with lastArgIndex := Pv t arg } else o) := by
  simp only [detachLast, obj_eq ho, obj_eq ha, bind, Except.bind]
  by_cases c : (slot t obj).lastArgIndex = (slot t arg).index
  · simp only [c, if_true, upd_eq _ ho, La]; rfl
  · simp only [c, if_false, pure, Except.pure, La]
    congr 1
    exact (setAt_id' t obj).symm

theorem detachNext_eq {t : ObjectTree} {arg : Nat} (hs : t.pool.size ≤ INV) (ha : arg < t.pool.size)
    (hnx : Nx t arg = INV ∨ live t (Nx t arg) = true) :
    t.detachNext arg = .ok (setAt t (Nx t arg) fun x => { x with prevSiblingIndex := Pv t arg }) := by
  simp only [detachNext, obj_eq ha, bind, Except.bind]
  by_cases c : (slot t arg).nextSiblingIndex = InvalidIndex
  · simp only [c, ne_eq, not_true_eq_false, if_false, pure, Except.pure]
    congr 1
    have : Nx t arg = InvalidIndex := c
    rw [this, setAt_oob]
    show ¬ INV < t.pool.size
    omega
  · have hl : live t (Nx t arg) = true := hnx.resolve_left c
    have hl' : live t (slot t arg).nextSiblingIndex = true := hl
    simp only [ne_eq, c, not_false_eq_true, if_true, objectAt_live hl', deref_some]
    rw [upd_eq _ (live_lt hl')]
    rfl

theorem detachPrev_eq {t : ObjectTree} {arg : Nat} (hs : t.pool.size ≤ INV) (ha : arg < t.pool.size)
    (hpv : Pv t arg = INV ∨ live t (Pv t arg) = true) :
    t.detachPrev arg = .ok (setAt t (Pv t arg) fun x => { x with nextSiblingIndex := Nx t arg }) := by
  simp only [detachPrev, obj_eq ha, bind, Except.bind]
  by_cases c : (slot t arg).prevSiblingIndex = InvalidIndex
  · simp only [c, ne_eq, not_true_eq_false, if_false, pure, Except.pure]
    congr 1
    have : Pv t arg = InvalidIndex := c
    rw [this, setAt_oob]
    show ¬ INV < t.pool.size
    omega
  · have hl : live t (Pv t arg) = true := hpv.resolve_left c
    have hl' : live t (slot t arg).prevSiblingIndex = true := hl
    simp only [ne_eq, c, not_false_eq_true, if_true, objectAt_live hl', deref_some]
    rw [upd_eq _ (live_lt hl')]
    rfl

theorem detachClear_eq {t : ObjectTree} {arg : Nat} (ha : arg < t.pool.size) :
    t.detachClear arg = .ok (setAt (setAt (setAt t arg fun a => { a with prevSiblingIndex := InvalidIndex })
      arg fun a => { a with nextSiblingIndex := InvalidIndex }) arg fun a => { a with parentIndex := InvalidIndex }) := by
  simp only [detachClear, bind, Except.bind]
  rw [upd_eq _ ha]
  simp only []
  rw [upd_eq _ (by simpa using ha)]
  simp only []
  rw [upd_eq _ (by simpa using ha)]

theorem detach_eq {t : ObjectTree} {obj arg : Nat} (hs : t.pool.size ≤ INV)
    (ho : obj < t.pool.size) (ha : arg < t.pool.size)
    (hnx : Nx t arg = INV ∨ live t (Nx t arg) = true) (hpv : Pv t arg = INV ∨ live t (Pv t arg) = true)
    (hne : Nx t arg ≠ arg) :
    t.detach obj arg = .ok (detachPure t obj arg) := by
  unfold ObjectTree.detach detachPure
  simp only [bind, Except.bind]
  rw [detachFirst_eq ho ha]
  simp only []
  rw [detachLast_eq (by simpa using ho) (by simpa using ha)]
  simp only []
  rw [detachNext_eq (by simpa using hs) (by simpa using ha) ?h3]
  simp only []
  rw [detachPrev_eq (by simpa using hs) (by simpa using ha) ?h4]
  simp only []
  rw [detachClear_eq (by simpa using ha)]
  case h3 =>
    rw [Nx_keep _ _ _ _ (by keep_tac), Nx_keep _ _ _ _ (by keep_tac),
      live_keep _ _ _ _ (by keep_tac), live_keep _ _ _ _ (by keep_tac)]
    exact hnx
  case h4 =>
    rw [Pv_setAt', Nx_keep _ _ _ _ (by keep_tac), Nx_keep _ _ _ _ (by keep_tac), if_neg (fun c => hne c.1),
      Pv_keep _ _ _ _ (by keep_tac), Pv_keep _ _ _ _ (by keep_tac),
      live_keep _ _ _ _ (by keep_tac), live_keep _ _ _ _ (by keep_tac), live_keep _ _ _ _ (by keep_tac)]
    exact hpv

/-- the links of `detachPure`, field by field -/
theorem detachPure_spec {t : ObjectTree} {obj arg : Nat} (hs : t.pool.size ≤ INV)
    (ho : obj < t.pool.size) (ha : arg < t.pool.size) (hidx : (slot t arg).index = arg)
    (hoa : obj ≠ arg) (hna : Nx t arg ≠ arg) (hpa : Pv t arg ≠ arg)
    (hnx : Nx t arg = INV ∨ Nx t arg < t.pool.size) (hpv : Pv t arg = INV ∨ Pv t arg < t.pool.size) :
    (∀ x, P (detachPure t obj arg) x = if x = arg then INV else P t x) ∧
    (∀ x, Pv (detachPure t obj arg) x =
      if x = arg then INV else if x = Nx t arg ∧ Nx t arg ≠ INV then Pv t arg else Pv t x) ∧
    (∀ x, Nx (detachPure t obj arg) x =
      if x = arg then INV else if x = Pv t arg ∧ Pv t arg ≠ INV then Nx t arg else Nx t x) ∧
    (∀ x, Fi (detachPure t obj arg) x = if x = obj ∧ Fi t obj = arg then Nx t arg else Fi t x) ∧
    (∀ x, La (detachPure t obj arg) x = if x = obj ∧ La t obj = arg then Pv t arg else La t x) := by
  have hI : INV = InvalidIndex := rfl
  refine ⟨?_, ?_, ?_, ?_, ?_⟩ <;> intro x <;>
    simp only [detachPure, P, Pv, Nx, Fi, La, slot_setAt', size_setAt,
      apply_ite Obj.nextSiblingIndex, apply_ite Obj.prevSiblingIndex, apply_ite Obj.parentIndex,
      apply_ite Obj.firstArgIndex, apply_ite Obj.lastArgIndex, apply_ite Obj.index, hidx, ite_self] at * <;> grind

theorem freeChain_dead {t : ObjectTree} : ∀ (l : List Nat) (a : Nat), FreeChain t a l → ∀ x ∈ l, live t x = false := by
  intro l
  induction l with
  | nil => intro a _ x hx; simp at hx
  | cons y ys ih =>
    intro a hc x hx
    obtain ⟨rfl, _, hl, hc'⟩ := hc
    rcases List.mem_cons.1 hx with rfl | hx
    · exact hl
    · exact ih _ hc' x hx

/-- an operation that only rewires links of live objects: the non-link parts of `WF` carry over -/
theorem WF.transfer {t t' : ObjectTree} (w : WF t) (hsz : t'.pool.size = t.pool.size)
    (hfh : t'.freeListHeadIndex = t.freeListHeadIndex)
    (hlive : ∀ x, live t' x = live t x) (hidx : ∀ x, (slot t' x).index = (slot t x).index)
    (hnx : ∀ x, live t x = false → Nx t' x = Nx t x)
    (hloc : ∀ i, live t' i = true → LocalP t' i)
    (hrk : ∃ rk : Nat → Nat, ∀ i, live t' i = true → P t' i ≠ INV → rk (P t' i) < rk i)
    (hpos : ∃ pos : Nat → Nat, ∀ i, live t' i = true → Nx t' i ≠ INV → pos i < pos (Nx t' i)) : WF t' := by
  refine ⟨by rw [hsz]; exact w.size_le, ?_, fun i hl => (localOK_iff t' i).2 (hloc i hl), hrk, hpos, ?_⟩
  · intro i hi; rw [hidx]; exact w.index_eq i (by rw [← hsz]; exact hi)
  · obtain ⟨fl, hc, hall⟩ := w.free
    refine ⟨fl, ?_, ?_⟩
    · rw [hfh]
      apply freeChain_congr (t := t) (by omega) fl _ _ hc
      intro x hx
      exact ⟨hlive x, hnx x (freeChain_dead fl _ hc x hx)⟩
    · intro i hi hl
      exact hall i (by rw [← hsz]; exact hi) (by rw [← hlive]; exact hl)

theorem detach_loc {t t' : ObjectTree} (w : WF t) {obj arg : Nat}
    (ho : live t obj = true) (ha : live t arg = true) (hp : P t arg = obj)
    (hlive : ∀ x, live t' x = live t x)
    (hP : ∀ x, P t' x = if x = arg then INV else P t x)
    (hPv : ∀ x, Pv t' x = if x = arg then INV else if x = Nx t arg ∧ Nx t arg ≠ INV then Pv t arg else Pv t x)
    (hNx : ∀ x, Nx t' x = if x = arg then INV else if x = Pv t arg ∧ Pv t arg ≠ INV then Nx t arg else Nx t x)
    (hFi : ∀ x, Fi t' x = if x = obj ∧ Fi t obj = arg then Nx t arg else Fi t x)
    (hLa : ∀ x, La t' x = if x = obj ∧ La t obj = arg then Pv t arg else La t x)
    (rk : Nat → Nat) (hrk : ∀ i, live t i = true → P t i ≠ INV → rk (P t i) < rk i)
    (pos : Nat → Nat) (hpos : ∀ i, live t i = true → Nx t i ≠ INV → pos i < pos (Nx t i)) :
    ∀ i, live t' i = true → LocalP t' i := by
  intro i hi
  rw [hlive] at hi
  have hinv : ∀ j, live t j = true → j ≠ INV := fun j hj => live_ne_INV w.size_le hj
  have L1 := fun j (hj : live t j = true) => (w.lP hj).lp
  have L2 := fun j (hj : live t j = true) => (w.lP hj).lpv
  have L3 := fun j (hj : live t j = true) => (w.lP hj).lnx
  have L4 := fun j (hj : live t j = true) => (w.lP hj).lfi
  have L5 := fun j (hj : live t j = true) => (w.lP hj).lla
  have C1 := fun j (hj : live t j = true) => (w.lP hj).det
  have C2 := fun j (hj : live t j = true) => (w.lP hj).pv
  have C3 := fun j (hj : live t j = true) => (w.lP hj).nx
  have C4 := fun j (hj : live t j = true) => (w.lP hj).first
  have C5 := fun j (hj : live t j = true) => (w.lP hj).last
  have C6 := fun j (hj : live t j = true) => (w.lP hj).fi
  have C7 := fun j (hj : live t j = true) => (w.lP hj).la
  have C8 := fun j (hj : live t j = true) => (w.lP hj).ends
  constructor
  all_goals (simp only [hP, hPv, hNx, hFi, hLa, hlive])
  all_goals grind

/-- what `detachPure` leaves alone -/
theorem detachPure_frame (t : ObjectTree) (obj arg : Nat) :
    (detachPure t obj arg).pool.size = t.pool.size ∧
    (detachPure t obj arg).freeListHeadIndex = t.freeListHeadIndex ∧
    (∀ x, live (detachPure t obj arg) x = live t x) ∧
    (∀ x, (slot (detachPure t obj arg) x).index = (slot t x).index) ∧
    (∀ x, (slot (detachPure t obj arg) x).name = (slot t x).name) := by
  refine ⟨by simp [detachPure], by simp [detachPure], ?_, ?_, ?_⟩
  · intro x
    simp only [detachPure]
    rw [live_keep _ _ _ _ (by keep_tac), live_keep _ _ _ _ (by keep_tac), live_keep _ _ _ _ (by keep_tac),
      live_keep _ _ _ _ (by keep_tac), live_keep _ _ _ _ (by keep_tac), live_keep _ _ _ _ (by keep_tac),
      live_keep _ _ _ _ (by keep_tac)]
  · intro x
    simp only [detachPure, slot_setAt', apply_ite Obj.index, ite_self]
  · intro x
    simp only [detachPure, slot_setAt', apply_ite Obj.name, ite_self]

/-- **detach** under its contract: succeeds, preserves `WF`; links change as stated -/
theorem detach_wf {t : ObjectTree} (w : WF t) {obj arg : Nat} (hpre : detachPre t obj arg = true) :
    ∃ t', t.detach obj arg = .ok t' ∧ WF t' ∧
      t'.pool.size = t.pool.size ∧ (∀ x, live t' x = live t x) ∧ (∀ x, (slot t' x).name = (slot t x).name) ∧
      (∀ x, P t' x = if x = arg then INV else P t x) ∧
      (∀ x, Pv t' x = if x = arg then INV else if x = Nx t arg ∧ Nx t arg ≠ INV then Pv t arg else Pv t x) ∧
      (∀ x, Nx t' x = if x = arg then INV else if x = Pv t arg ∧ Pv t arg ≠ INV then Nx t arg else Nx t x) ∧
      (∀ x, Fi t' x = if x = obj ∧ Fi t obj = arg then Nx t arg else Fi t x) ∧
      (∀ x, La t' x = if x = obj ∧ La t obj = arg then Pv t arg else La t x) := by
  simp only [detachPre, Bool.and_eq_true, decide_eq_true_eq] at hpre
  obtain ⟨⟨ho, ha⟩, hp⟩ := hpre
  obtain ⟨rk, hrk⟩ := w.rank
  obtain ⟨pos, hpos⟩ := w.order
  have lpa := w.lP ha
  have hinv : ∀ j, live t j = true → j ≠ INV := fun j hj => live_ne_INV w.size_le hj
  have hoa : obj ≠ arg := by
    intro e
    have := hrk arg ha (by rw [hp]; exact hinv _ ho)
    rw [hp, e] at this; omega
  have hna : Nx t arg ≠ arg := by
    intro e
    have := hpos arg ha (by rw [e]; exact hinv _ ha)
    rw [e] at this; omega
  have hpa : Pv t arg ≠ arg := by
    intro e
    have h1 : Pv t arg ≠ INV := by rw [e]; exact hinv _ ha
    have hl := lpa.lpv.resolve_left h1
    have := hpos _ hl (by rw [(lpa.pv h1).1]; exact hinv _ ha)
    rw [(lpa.pv h1).1] at this
    rw [e] at this; omega
  have hlt : ∀ y, (y = INV ∨ live t y = true) → (y = INV ∨ y < t.pool.size) :=
    fun y hy => hy.elim Or.inl (fun h => Or.inr (live_lt h))
  refine ⟨detachPure t obj arg, detach_eq w.size_le (live_lt ho) (live_lt ha) lpa.lnx lpa.lpv hna, ?_⟩
  obtain ⟨hP, hPv, hNx, hFi, hLa⟩ := detachPure_spec w.size_le (live_lt ho) (live_lt ha)
    (w.index_eq arg (live_lt ha)) hoa hna hpa (hlt _ lpa.lnx) (hlt _ lpa.lpv)
  obtain ⟨hsz, hfh, hlive, hidx, hname⟩ := detachPure_frame t obj arg
  generalize detachPure t obj arg = T at *
  refine ⟨?_, hsz, hlive, hname, hP, hPv, hNx, hFi, hLa⟩
  apply w.transfer hsz hfh hlive hidx
  · intro x hx
    rw [hNx]
    have h1 : x ≠ arg := fun e => by rw [e, ha] at hx; cases hx
    have h2 : ¬ (x = Pv t arg ∧ Pv t arg ≠ INV) := fun ⟨e, h⟩ => by
      have := lpa.lpv.resolve_left h
      rw [← e, hx] at this; cases this
    simp [h1, h2]
  · exact detach_loc w ho ha hp hlive hP hPv hNx hFi hLa rk hrk pos hpos
  · refine ⟨rk, fun i hl hpi => ?_⟩
    rw [hlive] at hl
    rw [hP] at hpi ⊢
    split at hpi
    · exact absurd rfl hpi
    · rename_i h; simp only [h, if_false]; exact hrk i hl hpi
  · refine ⟨pos, fun i hl hni => ?_⟩
    rw [hlive] at hl
    rw [hNx] at hni ⊢
    have C2 := fun j (hj : live t j = true) => (w.lP hj).pv
    have L2 := fun j (hj : live t j = true) => (w.lP hj).lpv
    grind

/-! ### append -/

/-- the state `append(obj, arg)` produces when every dereference succeeds -/
def appendPure (t : ObjectTree) (obj arg : Nat) : ObjectTree :=
  let t1 := setAt t arg fun a => { a with parentIndex := (slot t obj).index }
  if La t1 obj = InvalidIndex then
    let t2 := setAt t1 obj fun o => { o with firstArgIndex := (slot t1 arg).index }
    setAt t2 obj fun o => { o with lastArgIndex := (slot t1 arg).index }
  else
    let t2 := setAt t1 (La t1 obj) fun l => { l with nextSiblingIndex := (slot t1 arg).index }
    let t3 := setAt t2 arg fun a => { a with prevSiblingIndex := (slot t2 (La t1 obj)).index }
    let t4 := setAt t3 arg fun a => { a with nextSiblingIndex := InvalidIndex }
    setAt t4 obj fun o => { o with lastArgIndex := (slot t1 arg).index }

theorem append_eq {t : ObjectTree} {obj arg : Nat} (ho : obj < t.pool.size) (ha : arg < t.pool.size)
    (hla : ∀ t1, t1 = (setAt t arg fun a => { a with parentIndex := (slot t obj).index }) →
       La t1 obj = INV ∨ live t1 (La t1 obj) = true) :
    t.append obj arg = .ok (appendPure t obj arg) := by
  unfold ObjectTree.append appendPure
  simp only [obj_eq ho, bind, Except.bind]
  rw [upd_eq _ ha]
  simp only []
  have hla := hla _ rfl
  generalize hT : (setAt t arg fun a => { a with parentIndex := (slot t obj).index }) = t1 at *
  have hs1 : t1.pool.size = t.pool.size := by rw [← hT]; simp
  have ho1 : obj < t1.pool.size := by omega
  have ha1 : arg < t1.pool.size := by omega
  rw [obj_eq ho1, obj_eq ha1]
  simp only []
  by_cases c : (slot t1 obj).lastArgIndex = InvalidIndex
  · have c' : La t1 obj = InvalidIndex := c
    simp only [c, c', if_true]
    rw [upd_eq _ ho1]
    simp only []
    rw [upd_eq _ (by simpa using ho1)]
  · have c' : ¬ La t1 obj = InvalidIndex := c
    have hl : live t1 (La t1 obj) = true := hla.resolve_left c
    have hl' : live t1 (slot t1 obj).lastArgIndex = true := hl
    simp only [c, c', if_false, objectAt_live hl', deref_some]
    rw [upd_eq _ (live_lt hl')]
    simp only []
    rw [obj_eq (by simpa using live_lt hl')]
    simp only []
    rw [upd_eq _ (by simpa using ha1)]
    simp only []
    rw [upd_eq _ (by simpa using ha1)]
    simp only []
    rw [upd_eq _ (by simpa using ho1)]
    rfl

theorem appendPure_spec {t : ObjectTree} {obj arg : Nat} (hs : t.pool.size ≤ INV)
    (ho : obj < t.pool.size) (ha : arg < t.pool.size)
    (hio : (slot t obj).index = obj) (hia : (slot t arg).index = arg)
    (hil : La t obj ≠ INV → La t obj < t.pool.size ∧ (slot t (La t obj)).index = La t obj)
    (hoa : obj ≠ arg) (hlo : La t obj ≠ arg) (hpv : Pv t arg = INV) (hnx : Nx t arg = INV) :
    (∀ x, P (appendPure t obj arg) x = if x = arg then obj else P t x) ∧
    (∀ x, Pv (appendPure t obj arg) x = if x = arg then La t obj else Pv t x) ∧
    (∀ x, Nx (appendPure t obj arg) x =
      if x = arg then INV else if x = La t obj ∧ La t obj ≠ INV then arg else Nx t x) ∧
    (∀ x, Fi (appendPure t obj arg) x = if x = obj ∧ La t obj = INV then arg else Fi t x) ∧
    (∀ x, La (appendPure t obj arg) x = if x = obj then arg else La t x) := by
  have h1 : La (setAt t arg fun a => { a with parentIndex := (slot t obj).index }) obj = La t obj :=
    La_keep _ _ _ _ (by keep_tac)
  by_cases c : La t obj = InvalidIndex
  · have c1 : La (setAt t arg fun a => { a with parentIndex := (slot t obj).index }) obj = InvalidIndex := by
      rw [h1]; exact c
    refine ⟨?_, ?_, ?_, ?_, ?_⟩ <;> intro x <;> simp only [appendPure, h1, c, if_true] <;>
      simp only [P, Pv, Nx, Fi, La, slot_setAt', size_setAt,
        apply_ite Obj.nextSiblingIndex, apply_ite Obj.prevSiblingIndex, apply_ite Obj.parentIndex,
        apply_ite Obj.firstArgIndex, apply_ite Obj.lastArgIndex, apply_ite Obj.index, hio, hia, ite_self] at * <;> grind
  · have c1 : ¬ La (setAt t arg fun a => { a with parentIndex := (slot t obj).index }) obj = InvalidIndex := by
      rw [h1]; exact c
    obtain ⟨hll, hil⟩ := hil c
    refine ⟨?_, ?_, ?_, ?_, ?_⟩ <;> intro x <;> simp only [appendPure, h1, c, if_false] <;>
      simp only [P, Pv, Nx, Fi, La, slot_setAt', size_setAt,
        apply_ite Obj.nextSiblingIndex, apply_ite Obj.prevSiblingIndex, apply_ite Obj.parentIndex,
        apply_ite Obj.firstArgIndex, apply_ite Obj.lastArgIndex, apply_ite Obj.index, hio, hia, ite_self] at * <;> grind

theorem append_loc {t t' : ObjectTree} (w : WF t) {obj arg : Nat}
    (ho : live t obj = true) (ha : live t arg = true) (hp : P t arg = INV) (hoa : obj ≠ arg)
    (hlive : ∀ x, live t' x = live t x)
    (hP : ∀ x, P t' x = if x = arg then obj else P t x)
    (hPv : ∀ x, Pv t' x = if x = arg then La t obj else Pv t x)
    (hNx : ∀ x, Nx t' x = if x = arg then INV else if x = La t obj ∧ La t obj ≠ INV then arg else Nx t x)
    (hFi : ∀ x, Fi t' x = if x = obj ∧ La t obj = INV then arg else Fi t x)
    (hLa : ∀ x, La t' x = if x = obj then arg else La t x) :
    ∀ i, live t' i = true → LocalP t' i := by
  intro i hi
  rw [hlive] at hi
  have hinv : ∀ j, live t j = true → j ≠ INV := fun j hj => live_ne_INV w.size_le hj
  have L1 := fun j (hj : live t j = true) => (w.lP hj).lp
  have L2 := fun j (hj : live t j = true) => (w.lP hj).lpv
  have L3 := fun j (hj : live t j = true) => (w.lP hj).lnx
  have L4 := fun j (hj : live t j = true) => (w.lP hj).lfi
  have L5 := fun j (hj : live t j = true) => (w.lP hj).lla
  have C1 := fun j (hj : live t j = true) => (w.lP hj).det
  have C2 := fun j (hj : live t j = true) => (w.lP hj).pv
  have C3 := fun j (hj : live t j = true) => (w.lP hj).nx
  have C4 := fun j (hj : live t j = true) => (w.lP hj).first
  have C5 := fun j (hj : live t j = true) => (w.lP hj).last
  have C6 := fun j (hj : live t j = true) => (w.lP hj).fi
  have C7 := fun j (hj : live t j = true) => (w.lP hj).la
  have C8 := fun j (hj : live t j = true) => (w.lP hj).ends
  constructor
  all_goals (simp only [hP, hPv, hNx, hFi, hLa, hlive])
  all_goals grind

/-- what `appendPure` leaves alone -/
theorem appendPure_frame (t : ObjectTree) (obj arg : Nat) :
    (appendPure t obj arg).pool.size = t.pool.size ∧
    (appendPure t obj arg).freeListHeadIndex = t.freeListHeadIndex ∧
    (∀ x, live (appendPure t obj arg) x = live t x) ∧
    (∀ x, (slot (appendPure t obj arg) x).index = (slot t x).index) ∧
    (∀ x, (slot (appendPure t obj arg) x).name = (slot t x).name) := by
  unfold appendPure
  simp only []
  split
  · refine ⟨by simp, by simp, ?_, ?_, ?_⟩
    · intro x
      rw [live_keep _ _ _ _ (by keep_tac), live_keep _ _ _ _ (by keep_tac), live_keep _ _ _ _ (by keep_tac)]
    · intro x; simp only [slot_setAt', apply_ite Obj.index, ite_self]
    · intro x; simp only [slot_setAt', apply_ite Obj.name, ite_self]
  · refine ⟨by simp, by simp, ?_, ?_, ?_⟩
    · intro x
      rw [live_keep _ _ _ _ (by keep_tac), live_keep _ _ _ _ (by keep_tac), live_keep _ _ _ _ (by keep_tac),
        live_keep _ _ _ _ (by keep_tac), live_keep _ _ _ _ (by keep_tac)]
    · intro x; simp only [slot_setAt', apply_ite Obj.index, ite_self]
    · intro x; simp only [slot_setAt', apply_ite Obj.name, ite_self]

/-! ### ancestors -/

/-- `a` lies on the parent chain of `x` (is `x` or an ancestor of `x`) -/
def anc (t : ObjectTree) (a x : Nat) : Prop := ∃ l, Chain t (P t) x l ∧ a ∈ l

theorem chain_det {t : ObjectTree} (step : Nat → Nat) (hs : t.pool.size ≤ INV) :
    ∀ (l1 l2 : List Nat) (a : Nat), Chain t step a l1 → Chain t step a l2 → l1 = l2 := by
  intro l1
  induction l1 with
  | nil =>
    intro l2 a h1 h2
    cases l2 with
    | nil => rfl
    | cons y ys =>
      have : a = INV := h1
      obtain ⟨rfl, hy, _⟩ := h2
      exact absurd this (live_ne_INV hs hy)
  | cons x xs ih =>
    intro l2 a h1 h2
    obtain ⟨rfl, hx, h1'⟩ := h1
    cases l2 with
    | nil => exact absurd (h2 : a = INV) (live_ne_INV hs hx)
    | cons y ys =>
      obtain ⟨rfl, _, h2'⟩ := h2
      rw [ih ys _ h1' h2']

theorem isAnc_of_chain {t : ObjectTree} (hs : t.pool.size ≤ INV) (a : Nat) :
    ∀ (l : List Nat) (f x : Nat), Chain t (P t) x l → l.length ≤ f → a ∈ l →
      isAncestorOrSelf t a f x = true := by
  intro l
  induction l with
  | nil => intro f x _ _ h; simp at h
  | cons y ys ih =>
    intro f x hc hf hm
    obtain ⟨rfl, hl, hc'⟩ := hc
    cases f with
    | zero => simp at hf
    | succ f =>
      simp only [isAncestorOrSelf, Bool.or_eq_true, decide_eq_true_eq, Bool.and_eq_true, ne_eq, decide_not,
        Bool.not_eq_true', decide_eq_false_iff_not]
      rcases List.mem_cons.1 hm with e | e
      · exact Or.inl e.symm
      · right
        cases ys with
        | nil => simp at e
        | cons z zs =>
          obtain ⟨hz, hzl, _⟩ := id hc'
          refine ⟨by rw [hz]; exact live_ne_INV hs hzl, ?_⟩
          exact ih f _ hc' (by simpa using hf) e

theorem WF.not_anc {t : ObjectTree} (w : WF t) {a x : Nat} (hx : live t x = true)
    (h : isAncestorOrSelf t a t.fuel x = false) : ¬ anc t a x := by
  rintro ⟨l, hc, hm⟩
  obtain ⟨l', hc', hlen⟩ := w.parChain x (Or.inr hx)
  have := chain_det (P t) w.size_le _ _ _ hc hc'
  subst this
  have := isAnc_of_chain w.size_le a l t.fuel x hc (by simp [ObjectTree.fuel]; omega) hm
  rw [h] at this; cases this

theorem WF.anc_self {t : ObjectTree} (w : WF t) {a : Nat} (ha : live t a = true) : anc t a a := by
  obtain ⟨l, hc, _⟩ := w.parChain a (Or.inr ha)
  cases l with
  | nil => exact absurd (hc : a = INV) (live_ne_INV w.size_le ha)
  | cons y ys => obtain ⟨rfl, _, _⟩ := id hc; exact ⟨_, hc, by simp⟩

theorem WF.anc_step {t : ObjectTree} (w : WF t) {a i : Nat} (hi : live t i = true) (hne : i ≠ a) :
    anc t a i ↔ anc t a (P t i) := by
  constructor
  · rintro ⟨l, hc, hm⟩
    cases l with
    | nil => exact absurd (hc : i = INV) (live_ne_INV w.size_le hi)
    | cons y ys =>
      obtain ⟨rfl, _, hc'⟩ := hc
      rcases List.mem_cons.1 hm with e | e
      · exact absurd e.symm hne
      · exact ⟨ys, hc', e⟩
  · rintro ⟨l, hc, hm⟩
    exact ⟨i :: l, ⟨rfl, hi, hc⟩, List.mem_cons_of_mem _ hm⟩

/-- **append** under its contract: succeeds, preserves `WF`; links change as stated -/
theorem append_wf {t : ObjectTree} (w : WF t) {obj arg : Nat} (hpre : appendPre t obj arg = true) :
    ∃ t', t.append obj arg = .ok t' ∧ WF t' ∧
      t'.pool.size = t.pool.size ∧ (∀ x, live t' x = live t x) ∧ (∀ x, (slot t' x).name = (slot t x).name) ∧
      (∀ x, P t' x = if x = arg then obj else P t x) ∧
      (∀ x, Pv t' x = if x = arg then La t obj else Pv t x) ∧
      (∀ x, Nx t' x = if x = arg then INV else if x = La t obj ∧ La t obj ≠ INV then arg else Nx t x) ∧
      (∀ x, Fi t' x = if x = obj ∧ La t obj = INV then arg else Fi t x) ∧
      (∀ x, La t' x = if x = obj then arg else La t x) := by
  simp only [appendPre, Bool.and_eq_true, decide_eq_true_eq, Bool.not_eq_true'] at hpre
  obtain ⟨⟨⟨ho, ha⟩, hp⟩, hanc⟩ := hpre
  obtain ⟨rk, hrk⟩ := w.rank
  obtain ⟨pos, hpos⟩ := w.order
  have lpa := w.lP ha
  have lpo := w.lP ho
  have hinv : ∀ j, live t j = true → j ≠ INV := fun j hj => live_ne_INV w.size_le hj
  have hnanc : ¬ anc t arg obj := w.not_anc ho hanc
  have hoa : obj ≠ arg := fun e => hnanc (by rw [e]; exact w.anc_self ha)
  have hpv : Pv t arg = INV := (lpa.det hp).1
  have hnx : Nx t arg = INV := (lpa.det hp).2
  have hlo : La t obj ≠ arg := by
    intro e
    have h1 : La t obj ≠ INV := by rw [e]; exact hinv _ ha
    have := (lpo.la h1).1
    rw [e, hp] at this
    exact hinv _ ho this.symm
  have hil : La t obj ≠ INV → La t obj < t.pool.size ∧ (slot t (La t obj)).index = La t obj := by
    intro h
    have hl := live_lt (lpo.lla.resolve_left h)
    exact ⟨hl, w.index_eq _ hl⟩
  have heq : t.append obj arg = .ok (appendPure t obj arg) := by
    apply append_eq (live_lt ho) (live_lt ha)
    intro t1 ht1
    have h1 : La t1 obj = La t obj := by rw [ht1]; exact La_keep _ _ _ _ (by keep_tac)
    have h2 : ∀ x, live t1 x = live t x := by intro x; rw [ht1]; exact live_keep _ _ _ _ (by keep_tac)
    rw [h1, h2]; exact lpo.lla
  refine ⟨appendPure t obj arg, heq, ?_⟩
  obtain ⟨hP, hPv, hNx, hFi, hLa⟩ := appendPure_spec w.size_le (live_lt ho) (live_lt ha)
    (w.index_eq obj (live_lt ho)) (w.index_eq arg (live_lt ha)) hil hoa hlo hpv hnx
  obtain ⟨hsz, hfh, hlive, hidx, hname⟩ := appendPure_frame t obj arg
  generalize appendPure t obj arg = T at *
  refine ⟨?_, hsz, hlive, hname, hP, hPv, hNx, hFi, hLa⟩
  apply w.transfer hsz hfh hlive hidx
  · intro x hx
    rw [hNx]
    have h1 : x ≠ arg := fun e => by rw [e, ha] at hx; cases hx
    have h2 : ¬ (x = La t obj ∧ La t obj ≠ INV) := fun ⟨e, h⟩ => by
      have := lpo.lla.resolve_left h
      rw [← e, hx] at this; cases this
    simp [h1, h2]
  · exact append_loc w ho ha hp hoa hlive hP hPv hNx hFi hLa
  · -- ranks: everything below `arg` is lifted above `obj`
    classical
    refine ⟨fun x => if anc t arg x then rk x + rk obj + 1 else rk x, fun i hl hpi => ?_⟩
    rw [hlive] at hl
    rw [hP] at hpi ⊢
    by_cases hi : i = arg
    · subst hi
      simp only [if_true, hnanc, if_false, w.anc_self ha]
      omega
    · simp only [hi, if_false] at hpi ⊢
      have := hrk i hl hpi
      have hst := w.anc_step (a := arg) hl hi
      by_cases h : anc t arg i
      · simp only [h, hst.1 h, if_true]; omega
      · have h2 : ¬ anc t arg (P t i) := fun h' => h (hst.2 h')
        simp only [h, h2, if_false]; exact this
  · -- order: `arg` goes right after the old last argument
    refine ⟨fun x => if x = arg then pos (La t obj) + 1 else pos x, fun i hl hni => ?_⟩
    rw [hlive] at hl
    rw [hNx] at hni ⊢
    have C2 := fun j (hj : live t j = true) => (w.lP hj).pv
    have C3 := fun j (hj : live t j = true) => (w.lP hj).nx
    have L3 := fun j (hj : live t j = true) => (w.lP hj).lnx
    grind

/-! ### appendAfter -/

/-! the five writes of the insert case of `appendAfter(obj, arg, nextTo)` -/
def ins1 (t : ObjectTree) (obj arg : Nat) : ObjectTree :=
  setAt t arg fun a => { a with parentIndex := (slot t obj).index }
def ins2 (t : ObjectTree) (arg nextTo : Nat) : ObjectTree :=
  setAt t arg fun a => { a with prevSiblingIndex := (slot t nextTo).index }
def ins3 (t : ObjectTree) (arg nextTo : Nat) : ObjectTree :=
  setAt t arg fun a => { a with nextSiblingIndex := (slot t nextTo).nextSiblingIndex }
def ins4 (t : ObjectTree) (arg : Nat) : ObjectTree :=
  setAt t (slot t arg).nextSiblingIndex fun x => { x with prevSiblingIndex := (slot t arg).index }
def ins5 (t : ObjectTree) (arg nextTo : Nat) : ObjectTree :=
  setAt t nextTo fun n => { n with nextSiblingIndex := (slot t arg).index }

/-- the state `appendAfter(obj, arg, nextTo)` produces in the insert case (`nextTo` is not last) -/
def insertPure (t : ObjectTree) (obj arg nextTo : Nat) : ObjectTree :=
  ins5 (ins4 (ins3 (ins2 (ins1 t obj arg) arg nextTo) arg nextTo) arg) arg nextTo

@[simp] theorem size_ins1 (t : ObjectTree) (o a : Nat) : (ins1 t o a).pool.size = t.pool.size := by simp [ins1]
@[simp] theorem size_ins2 (t : ObjectTree) (a n : Nat) : (ins2 t a n).pool.size = t.pool.size := by simp [ins2]
@[simp] theorem size_ins3 (t : ObjectTree) (a n : Nat) : (ins3 t a n).pool.size = t.pool.size := by simp [ins3]
@[simp] theorem size_ins4 (t : ObjectTree) (a : Nat) : (ins4 t a).pool.size = t.pool.size := by simp [ins4]
@[simp] theorem size_ins5 (t : ObjectTree) (a n : Nat) : (ins5 t a n).pool.size = t.pool.size := by simp [ins5]

theorem appendAfter_eq {t : ObjectTree} {obj arg nextTo : Nat} (ho : obj < t.pool.size) (ha : arg < t.pool.size)
    (hn : nextTo < t.pool.size) (hm : Nx t nextTo ≠ INV) (hml : live t (Nx t nextTo) = true) (hna : nextTo ≠ arg) :
    t.appendAfter obj arg nextTo = .ok (insertPure t obj arg nextTo) := by
  unfold ObjectTree.appendAfter insertPure
  have hm' : ¬ (slot t nextTo).nextSiblingIndex = InvalidIndex := hm
  simp only [obj_eq hn, bind, Except.bind, hm', if_false, obj_eq ho]
  have e1 : (t.upd arg fun a => { a with parentIndex := (slot t obj).index }) = .ok (ins1 t obj arg) := upd_eq _ ha
  rw [e1]; simp only []
  rw [obj_eq (by simpa using hn)]; simp only []
  have e2 : ((ins1 t obj arg).upd arg fun a => { a with prevSiblingIndex := (slot (ins1 t obj arg) nextTo).index }) =
      .ok (ins2 (ins1 t obj arg) arg nextTo) := upd_eq _ (by simpa using ha)
  rw [e2]; simp only []
  rw [obj_eq (by simpa using hn)]; simp only []
  have e3 : ((ins2 (ins1 t obj arg) arg nextTo).upd arg fun a =>
      { a with nextSiblingIndex := (slot (ins2 (ins1 t obj arg) arg nextTo) nextTo).nextSiblingIndex }) =
      .ok (ins3 (ins2 (ins1 t obj arg) arg nextTo) arg nextTo) := upd_eq _ (by simpa using ha)
  rw [e3]; simp only []
  generalize hT3 : ins3 (ins2 (ins1 t obj arg) arg nextTo) arg nextTo = t3
  have hs3 : t3.pool.size = t.pool.size := by rw [← hT3]; simp
  have hnx3 : (slot t3 arg).nextSiblingIndex = Nx t nextTo := by
    rw [← hT3]
    simp only [ins3, ins2, ins1, Nx, slot_setAt', size_setAt, apply_ite Obj.nextSiblingIndex, ite_self]
    grind
  have hl3 : live t3 (Nx t nextTo) = true := by
    rw [← hT3]
    simp only [ins3, ins2, ins1]
    rw [live_keep _ _ _ _ (by keep_tac), live_keep _ _ _ _ (by keep_tac), live_keep _ _ _ _ (by keep_tac)]
    exact hml
  rw [obj_eq (by omega)]; simp only []
  rw [hnx3, objectAt_live hl3, deref_some]; simp only []
  have e4 : (t3.upd (Nx t nextTo) fun x => { x with prevSiblingIndex := (slot t3 arg).index }) = .ok (ins4 t3 arg) := by
    rw [upd_eq _ (live_lt hl3)]; simp only [ins4, hnx3]
  rw [e4]; simp only []
  rw [obj_eq (by simp; omega)]; simp only []
  have e5 : ((ins4 t3 arg).upd nextTo fun n => { n with nextSiblingIndex := (slot (ins4 t3 arg) arg).index }) =
      .ok (ins5 (ins4 t3 arg) arg nextTo) := upd_eq _ (by simp; omega)
  rw [e5]

theorem insertPure_spec {t : ObjectTree} {obj arg nextTo : Nat}
    (ho : obj < t.pool.size) (ha : arg < t.pool.size) (hn : nextTo < t.pool.size)
    (hio : (slot t obj).index = obj) (hia : (slot t arg).index = arg) (hin : (slot t nextTo).index = nextTo)
    (hml : Nx t nextTo < t.pool.size) (hna : nextTo ≠ arg) (hma : Nx t nextTo ≠ arg) (hmn : Nx t nextTo ≠ nextTo) :
    (∀ x, P (insertPure t obj arg nextTo) x = if x = arg then obj else P t x) ∧
    (∀ x, Pv (insertPure t obj arg nextTo) x =
      if x = arg then nextTo else if x = Nx t nextTo then arg else Pv t x) ∧
    (∀ x, Nx (insertPure t obj arg nextTo) x =
      if x = arg then Nx t nextTo else if x = nextTo then arg else Nx t x) ∧
    (∀ x, Fi (insertPure t obj arg nextTo) x = Fi t x) ∧
    (∀ x, La (insertPure t obj arg nextTo) x = La t x) := by
  refine ⟨?_, ?_, ?_, ?_, ?_⟩ <;> intro x <;>
    simp only [insertPure, ins1, ins2, ins3, ins4, ins5, P, Pv, Nx, Fi, La, slot_setAt', size_setAt,
      apply_ite Obj.nextSiblingIndex, apply_ite Obj.prevSiblingIndex, apply_ite Obj.parentIndex,
      apply_ite Obj.firstArgIndex, apply_ite Obj.lastArgIndex, apply_ite Obj.index, hio, hia, hin, ite_self] at * <;>
    grind

theorem insertPure_frame (t : ObjectTree) (obj arg nextTo : Nat) :
    (insertPure t obj arg nextTo).pool.size = t.pool.size ∧
    (insertPure t obj arg nextTo).freeListHeadIndex = t.freeListHeadIndex ∧
    (∀ x, live (insertPure t obj arg nextTo) x = live t x) ∧
    (∀ x, (slot (insertPure t obj arg nextTo) x).index = (slot t x).index) ∧
    (∀ x, (slot (insertPure t obj arg nextTo) x).name = (slot t x).name) := by
  refine ⟨by simp [insertPure], by simp [insertPure, ins1, ins2, ins3, ins4, ins5], ?_, ?_, ?_⟩
  · intro x
    simp only [insertPure, ins1, ins2, ins3, ins4, ins5]
    rw [live_keep _ _ _ _ (by keep_tac), live_keep _ _ _ _ (by keep_tac), live_keep _ _ _ _ (by keep_tac),
      live_keep _ _ _ _ (by keep_tac), live_keep _ _ _ _ (by keep_tac)]
  · intro x; simp only [insertPure, ins1, ins2, ins3, ins4, ins5, slot_setAt', apply_ite Obj.index, ite_self]
  · intro x; simp only [insertPure, ins1, ins2, ins3, ins4, ins5, slot_setAt', apply_ite Obj.name, ite_self]

theorem insert_loc {t t' : ObjectTree} (w : WF t) {obj arg nextTo : Nat}
    (ho : live t obj = true) (ha : live t arg = true) (hn : live t nextTo = true)
    (hp : P t arg = INV) (hpn : P t nextTo = obj) (hm : Nx t nextTo ≠ INV) (hoa : obj ≠ arg)
    (hlive : ∀ x, live t' x = live t x)
    (hP : ∀ x, P t' x = if x = arg then obj else P t x)
    (hPv : ∀ x, Pv t' x = if x = arg then nextTo else if x = Nx t nextTo then arg else Pv t x)
    (hNx : ∀ x, Nx t' x = if x = arg then Nx t nextTo else if x = nextTo then arg else Nx t x)
    (hFi : ∀ x, Fi t' x = Fi t x)
    (hLa : ∀ x, La t' x = La t x) :
    ∀ i, live t' i = true → LocalP t' i := by
  intro i hi
  rw [hlive] at hi
  have hinv : ∀ j, live t j = true → j ≠ INV := fun j hj => live_ne_INV w.size_le hj
  have L1 := fun j (hj : live t j = true) => (w.lP hj).lp
  have L2 := fun j (hj : live t j = true) => (w.lP hj).lpv
  have L3 := fun j (hj : live t j = true) => (w.lP hj).lnx
  have L4 := fun j (hj : live t j = true) => (w.lP hj).lfi
  have L5 := fun j (hj : live t j = true) => (w.lP hj).lla
  have C1 := fun j (hj : live t j = true) => (w.lP hj).det
  have C2 := fun j (hj : live t j = true) => (w.lP hj).pv
  have C3 := fun j (hj : live t j = true) => (w.lP hj).nx
  have C4 := fun j (hj : live t j = true) => (w.lP hj).first
  have C5 := fun j (hj : live t j = true) => (w.lP hj).last
  have C6 := fun j (hj : live t j = true) => (w.lP hj).fi
  have C7 := fun j (hj : live t j = true) => (w.lP hj).la
  have C8 := fun j (hj : live t j = true) => (w.lP hj).ends
  constructor
  all_goals (simp only [hP, hPv, hNx, hFi, hLa, hlive])
  all_goals grind

/-- **appendAfter** under its contract: succeeds, preserves `WF`; links change as stated -/
theorem appendAfter_wf {t : ObjectTree} (w : WF t) {obj arg nextTo : Nat}
    (hpre : appendAfterPre t obj arg nextTo = true) :
    ∃ t', t.appendAfter obj arg nextTo = .ok t' ∧ WF t' ∧
      t'.pool.size = t.pool.size ∧ (∀ x, live t' x = live t x) ∧ (∀ x, (slot t' x).name = (slot t x).name) ∧
      (∀ x, P t' x = if x = arg then obj else P t x) ∧
      (∀ x, Pv t' x = if x = arg then nextTo else if x = Nx t nextTo ∧ Nx t nextTo ≠ INV then arg else Pv t x) ∧
      (∀ x, Nx t' x = if x = arg then Nx t nextTo else if x = nextTo then arg else Nx t x) ∧
      (∀ x, Fi t' x = Fi t x) ∧
      (∀ x, La t' x = if x = obj ∧ Nx t nextTo = INV then arg else La t x) := by
  have hpre0 := hpre
  simp only [appendAfterPre, Bool.and_eq_true, decide_eq_true_eq] at hpre
  obtain ⟨⟨hap, hn⟩, hpn⟩ := hpre
  have hap0 := hap
  simp only [appendPre, Bool.and_eq_true, decide_eq_true_eq, Bool.not_eq_true'] at hap
  obtain ⟨⟨⟨ho, ha⟩, hp⟩, hanc⟩ := hap
  have lpn := w.lP hn
  have lpa := w.lP ha
  have hinv : ∀ j, live t j = true → j ≠ INV := fun j hj => live_ne_INV w.size_le hj
  have hnanc : ¬ anc t arg obj := w.not_anc ho hanc
  have hoa : obj ≠ arg := fun e => hnanc (by rw [e]; exact w.anc_self ha)
  have hna : nextTo ≠ arg := by
    intro e; rw [e, hp] at hpn; exact hinv _ ho hpn.symm
  by_cases hm : Nx t nextTo = INV
  · -- `nextTo` is the last argument: a plain append
    have hla : La t obj = nextTo := by
      have := lpn.last (by rw [hpn]; exact hinv _ ho) hm
      rwa [hpn] at this
    obtain ⟨t', he, w', hsz, hlive, hname, hP, hPv, hNx, hFi, hLa⟩ := append_wf w hap0
    refine ⟨t', ?_, w', hsz, hlive, hname, hP, ?_, ?_, ?_, ?_⟩
    · have hm' : (slot t nextTo).nextSiblingIndex = InvalidIndex := hm
      simp only [ObjectTree.appendAfter, obj_eq (live_lt hn), bind, Except.bind, hm', if_true]
      exact he
    · intro x; rw [hPv, hla]; simp [hm]
    · intro x; rw [hNx, hla, hm]
      have : nextTo ≠ INV := hinv _ hn
      simp [this]
    · intro x; rw [hFi, hla]
      have : nextTo ≠ INV := hinv _ hn
      simp [this]
    · intro x; rw [hLa]; simp [hm]
  · -- insertion between `nextTo` and its next sibling
    have hml : live t (Nx t nextTo) = true := lpn.lnx.resolve_left hm
    obtain ⟨rk, hrk⟩ := w.rank
    obtain ⟨pos, hpos⟩ := w.order
    have hma : Nx t nextTo ≠ arg := by
      intro e
      have := (lpn.nx hm).2
      rw [e, hp, hpn] at this
      exact hinv _ ho this.symm
    have hmn : Nx t nextTo ≠ nextTo := by
      intro e
      have := hpos _ hn hm
      rw [e] at this; omega
    refine ⟨insertPure t obj arg nextTo,
      appendAfter_eq (live_lt ho) (live_lt ha) (live_lt hn) hm hml hna, ?_⟩
    obtain ⟨hP, hPv, hNx, hFi, hLa⟩ := insertPure_spec (live_lt ho) (live_lt ha) (live_lt hn)
      (w.index_eq _ (live_lt ho)) (w.index_eq _ (live_lt ha)) (w.index_eq _ (live_lt hn))
      (live_lt hml) hna hma hmn
    obtain ⟨hsz, hfh, hlive, hidx, hname⟩ := insertPure_frame t obj arg nextTo
    generalize insertPure t obj arg nextTo = T at *
    refine ⟨?_, hsz, hlive, hname, hP, ?_, hNx, hFi, ?_⟩
    · apply w.transfer hsz hfh hlive hidx
      · intro x hx
        rw [hNx]
        have h1 : x ≠ arg := fun e => by rw [e, ha] at hx; cases hx
        have h2 : x ≠ nextTo := fun e => by rw [e, hn] at hx; cases hx
        simp [h1, h2]
      · exact insert_loc w ho ha hn hp hpn hm hoa hlive hP hPv hNx hFi hLa
      · classical
        refine ⟨fun x => if anc t arg x then rk x + rk obj + 1 else rk x, fun i hl hpi => ?_⟩
        rw [hlive] at hl
        rw [hP] at hpi ⊢
        by_cases hi : i = arg
        · subst hi
          simp only [if_true, hnanc, if_false, w.anc_self ha]
          omega
        · simp only [hi, if_false] at hpi ⊢
          have := hrk i hl hpi
          have hst := w.anc_step (a := arg) hl hi
          by_cases h : anc t arg i
          · simp only [h, hst.1 h, if_true]; omega
          · have h2 : ¬ anc t arg (P t i) := fun h' => h (hst.2 h')
            simp only [h, h2, if_false]; exact this
      · refine ⟨fun x => if x = arg then 2 * pos nextTo + 1 else 2 * pos x, fun i hl hni => ?_⟩
        rw [hlive] at hl
        rw [hNx] at hni ⊢
        have C2 := fun j (hj : live t j = true) => (w.lP hj).pv
        have C3 := fun j (hj : live t j = true) => (w.lP hj).nx
        have L3 := fun j (hj : live t j = true) => (w.lP hj).lnx
        have hpm := hpos _ hn hm
        have hpva := (lpa.det hp).1
        grind
    · intro x; rw [hPv]; simp [hm]
    · intro x; rw [hLa]; simp [hm]

/-! ### free -/

/-- the state the second half of `free(obj)` produces -/
def pushPure (t : ObjectTree) (obj : Nat) : ObjectTree :=
  let t2 := setAt t obj fun o => { o with opcode := pOpIntFreedObject }
  let t3 := setAt t2 obj fun o => { o with nextSiblingIndex := t2.freeListHeadIndex }
  { t3 with freeListHeadIndex := (slot t3 obj).index }

theorem freePush_eq {t : ObjectTree} {obj : Nat} (ho : obj < t.pool.size)
    (hfi : Fi t obj = INV) (hla : La t obj = INV) : t.freePush obj = .ok (pushPure t obj) := by
  have h1 : (slot t obj).firstArgIndex = InvalidIndex := hfi
  have h2 : (slot t obj).lastArgIndex = InvalidIndex := hla
  simp only [freePush, obj_eq ho, bind, Except.bind, h1, h2, ne_eq, not_true_eq_false, or_self, if_false]
  rw [upd_eq _ ho]; simp only []
  rw [upd_eq _ (by simpa using ho)]; simp only []
  rw [obj_eq (by simpa using ho)]
  rfl

theorem push_loc {t t' : ObjectTree} (w : WF t) {obj : Nat} (ho : live t obj = true)
    (hp : P t obj = INV) (hfi : Fi t obj = INV) (hla : La t obj = INV)
    (hlive : ∀ x, live t' x = (live t x && decide (x ≠ obj)))
    (hsame : ∀ x, x ≠ obj → slot t' x = slot t x) :
    ∀ i, live t' i = true → LocalP t' i := by
  intro i hi
  rw [hlive] at hi
  simp only [Bool.and_eq_true, decide_eq_true_eq] at hi
  obtain ⟨hi, hio⟩ := hi
  have hinv : ∀ j, live t j = true → j ≠ INV := fun j hj => live_ne_INV w.size_le hj
  have hpv : Pv t obj = INV := ((w.lP ho).det hp).1
  have hnx : Nx t obj = INV := ((w.lP ho).det hp).2
  have hkids : ∀ j, live t j = true → P t j ≠ obj := by
    intro j hj e
    have := (w.kids_mem obj ho j).2 ⟨hj, e⟩
    obtain ⟨l, hc, ha, _⟩ := w.args_eq ho
    rw [hfi] at hc
    cases l with
    | nil => simp [abs, ha] at this
    | cons y ys => obtain ⟨e1, hy, _⟩ := hc; exact hinv _ hy e1.symm
  have aP : ∀ x, x ≠ obj → P t' x = P t x := fun x hx => by simp [P, hsame x hx]
  have aPv : ∀ x, x ≠ obj → Pv t' x = Pv t x := fun x hx => by simp [Pv, hsame x hx]
  have aNx : ∀ x, x ≠ obj → Nx t' x = Nx t x := fun x hx => by simp [Nx, hsame x hx]
  have aFi : ∀ x, x ≠ obj → Fi t' x = Fi t x := fun x hx => by simp [Fi, hsame x hx]
  have aLa : ∀ x, x ≠ obj → La t' x = La t x := fun x hx => by simp [La, hsame x hx]
  have L1 := fun j (hj : live t j = true) => (w.lP hj).lp
  have L2 := fun j (hj : live t j = true) => (w.lP hj).lpv
  have L3 := fun j (hj : live t j = true) => (w.lP hj).lnx
  have L4 := fun j (hj : live t j = true) => (w.lP hj).lfi
  have L5 := fun j (hj : live t j = true) => (w.lP hj).lla
  have C1 := fun j (hj : live t j = true) => (w.lP hj).det
  have C2 := fun j (hj : live t j = true) => (w.lP hj).pv
  have C3 := fun j (hj : live t j = true) => (w.lP hj).nx
  have C4 := fun j (hj : live t j = true) => (w.lP hj).first
  have C5 := fun j (hj : live t j = true) => (w.lP hj).last
  have C6 := fun j (hj : live t j = true) => (w.lP hj).fi
  have C7 := fun j (hj : live t j = true) => (w.lP hj).la
  have C8 := fun j (hj : live t j = true) => (w.lP hj).ends
  have hl' : ∀ x, live t' x = true ↔ (live t x = true ∧ x ≠ obj) := by
    intro x; rw [hlive]; simp
  constructor
  all_goals grind

/-- pushing a detached, argument-less live object on the free list preserves `WF` -/
theorem freePush_wf {t : ObjectTree} (w : WF t) {obj : Nat} (ho : live t obj = true)
    (hp : P t obj = INV) (hfi : Fi t obj = INV) (hla : La t obj = INV) :
    ∃ t', t.freePush obj = .ok t' ∧ WF t' ∧ t'.pool.size = t.pool.size ∧
      (∀ x, live t' x = (live t x && decide (x ≠ obj))) ∧
      (∀ x, x ≠ obj → slot t' x = slot t x) ∧
      t'.freeListHeadIndex = obj ∧ Nx t' obj = t.freeListHeadIndex := by
  have hlt := live_lt ho
  refine ⟨pushPure t obj, freePush_eq hlt hfi hla, ?_⟩
  have hsz : (pushPure t obj).pool.size = t.pool.size := by simp [pushPure]
  have hslot : ∀ x, slot (pushPure t obj) x = if obj = x ∧ x < t.pool.size then
      { slot t x with opcode := pOpIntFreedObject, nextSiblingIndex := t.freeListHeadIndex } else slot t x := by
    intro x
    show slot (setAt (setAt t obj fun o => { o with opcode := pOpIntFreedObject }) obj
      fun o => { o with nextSiblingIndex := t.freeListHeadIndex }) x = _
    rw [slot_setAt', slot_setAt']
    simp only [size_setAt]
    split <;> rfl
  have hsame : ∀ x, x ≠ obj → slot (pushPure t obj) x = slot t x := by
    intro x hx; rw [hslot]; simp [Ne.symm hx]
  have hobj : slot (pushPure t obj) obj =
      { slot t obj with opcode := pOpIntFreedObject, nextSiblingIndex := t.freeListHeadIndex } := by
    rw [hslot]; simp [hlt]
  have hlive : ∀ x, live (pushPure t obj) x = (live t x && decide (x ≠ obj)) := by
    intro x
    by_cases hx : x = obj
    · subst hx
      simp [live, hobj]
    · simp only [live, hsz, hsame x hx, hx, ne_eq, not_false_eq_true, decide_true, Bool.and_true]
  have hfh : (pushPure t obj).freeListHeadIndex = obj := by
    show (slot (pushPure t obj) obj).index = obj
    rw [hobj]; exact w.index_eq obj hlt
  have hnxo : Nx (pushPure t obj) obj = t.freeListHeadIndex := by simp [Nx, hobj]
  refine ⟨?_, hsz, hlive, hsame, hfh, hnxo⟩
  have hl' : ∀ x, live (pushPure t obj) x = true ↔ (live t x = true ∧ x ≠ obj) := by
    intro x; rw [hlive]; simp
  have hloc := push_loc w ho hp hfi hla hlive hsame
  generalize pushPure t obj = T at *
  refine ⟨by rw [hsz]; exact w.size_le, ?_, fun i hl => (localOK_iff T i).2 (hloc i hl), ?_, ?_, ?_⟩
  · intro i hi
    by_cases hx : i = obj
    · subst hx; rw [hobj]; exact w.index_eq i hlt
    · rw [hsame i hx]; exact w.index_eq i (by omega)
  · obtain ⟨rk, hrk⟩ := w.rank
    refine ⟨rk, fun i hl hpi => ?_⟩
    obtain ⟨hl, hx⟩ := (hl' i).1 hl
    have : P T i = P t i := by simp [P, hsame i hx]
    rw [this] at hpi ⊢
    exact hrk i hl hpi
  · obtain ⟨pos, hpos⟩ := w.order
    refine ⟨pos, fun i hl hpi => ?_⟩
    obtain ⟨hl, hx⟩ := (hl' i).1 hl
    have : Nx T i = Nx t i := by simp [Nx, hsame i hx]
    rw [this] at hpi ⊢
    exact hpos i hl hpi
  · obtain ⟨fl, hc, hall⟩ := w.free
    refine ⟨obj :: fl, ?_, ?_⟩
    · rw [hfh]
      refine ⟨rfl, by omega, by rw [hlive]; simp, ?_⟩
      rw [hnxo]
      apply freeChain_congr (t := t) (by omega) fl _ _ hc
      intro x hx
      have hd := freeChain_dead fl _ hc x hx
      have hxo : x ≠ obj := fun e => by rw [e, ho] at hd; cases hd
      exact ⟨by rw [hlive, hd]; simp, by simp [Nx, hsame x hxo]⟩
    · intro i hi hl
      by_cases hx : i = obj
      · simp [hx]
      · rw [hlive] at hl
        simp only [hx, ne_eq, not_false_eq_true, decide_true, Bool.and_true] at hl
        exact List.mem_cons_of_mem _ (hall i (by omega) hl)

/-- **free** under its contract (live, no arguments): succeeds, preserves `WF`; `obj` is unlinked
from its parent (if any) exactly as `detach` does, dies, and becomes the head of the free list -/
theorem free_wf {t : ObjectTree} (w : WF t) {obj : Nat} (hpre : freePre t obj = true) :
    ∃ t', t.free obj = .ok t' ∧ WF t' ∧ t'.pool.size = t.pool.size ∧
      (∀ x, live t' x = (live t x && decide (x ≠ obj))) ∧
      t'.freeListHeadIndex = obj ∧ Nx t' obj = t.freeListHeadIndex ∧
      ∃ t1, ((P t obj = INV ∧ t1 = t) ∨ (P t obj ≠ INV ∧ t.detach (P t obj) obj = .ok t1)) ∧
        ∀ x, x ≠ obj → slot t' x = slot t1 x := by
  simp only [freePre, Bool.and_eq_true, decide_eq_true_eq] at hpre
  obtain ⟨⟨ho, hfi⟩, hla⟩ := hpre
  have lpo := w.lP ho
  have hinv : ∀ j, live t j = true → j ≠ INV := fun j hj => live_ne_INV w.size_le hj
  by_cases hp : P t obj = INV
  · have hd : t.freeDetach obj = .ok t := by
      have : (slot t obj).parentIndex = InvalidIndex := hp
      simp [freeDetach, obj_eq (live_lt ho), bind, Except.bind, this, pure, Except.pure]
    obtain ⟨t', he, w', hsz, hlive, hsame, hfh, hnx⟩ := freePush_wf w ho hp hfi hla
    refine ⟨t', ?_, w', hsz, hlive, hfh, hnx, t, Or.inl ⟨hp, rfl⟩, hsame⟩
    simp only [ObjectTree.free, hd, bind, Except.bind]; exact he
  · have hpl : live t (P t obj) = true := lpo.lp.resolve_left hp
    have hdp : detachPre t (P t obj) obj = true := by simp [detachPre, hpl, ho]
    obtain ⟨t1, he1, w1, hsz1, hlive1, _, hP1, hPv1, hNx1, hFi1, hLa1⟩ := detach_wf w hdp
    have hne : P t obj ≠ obj := by
      obtain ⟨rk, hrk⟩ := w.rank
      intro e
      have := hrk obj ho hp
      rw [e] at this; omega
    have hd : t.freeDetach obj = .ok t1 := by
      have : ¬ (slot t obj).parentIndex = InvalidIndex := hp
      have hl' : live t (slot t obj).parentIndex = true := hpl
      simp only [freeDetach, obj_eq (live_lt ho), bind, Except.bind, ne_eq, this, not_false_eq_true, if_true,
        objectAt_live hl', deref_some]
      exact he1
    have ho1 : live t1 obj = true := by rw [hlive1]; exact ho
    have hp1 : P t1 obj = INV := by rw [hP1]; simp
    have hfi1 : Fi t1 obj = INV := by rw [hFi1]; simp [Ne.symm hne, hfi]
    have hla1 : La t1 obj = INV := by rw [hLa1]; simp [Ne.symm hne, hla]
    obtain ⟨t', he, w', hsz, hlive, hsame, hfh, hnx⟩ := freePush_wf w1 ho1 hp1 hfi1 hla1
    refine ⟨t', ?_, w', by omega, ?_, hfh, ?_, t1, Or.inr ⟨hp, he1⟩, hsame⟩
    · simp only [ObjectTree.free, hd, bind, Except.bind]; exact he
    · intro x; rw [hlive, hlive1]
    · rw [hnx]
      have := (detachPure_frame t (P t obj) obj).2.1
      have e : t1 = detachPure t (P t obj) obj := by
        have h2 := detach_eq w.size_le (live_lt hpl) (live_lt ho) lpo.lnx lpo.lpv (by
          obtain ⟨pos, hpos⟩ := w.order
          intro e
          have := hpos obj ho (by rw [e]; exact hinv _ ho)
          rw [e] at this; omega)
        rw [he1] at h2
        exact Except.ok.inj h2
      rw [e]; exact this

end Firefly.C13
