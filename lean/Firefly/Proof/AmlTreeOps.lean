import Firefly.Proof.AmlTree
/-!
Lemmas for C13: the editing operations of the object pool preserve `WF`.
-/
namespace Firefly.C13
open Firefly.AmlTree Firefly.AmlTree.ObjectTree

end Firefly.C13
