import Firefly.Proof.AmlTree
/-!
Lemmas for C13: the editing operations of the object pool preserve `WF`.
-/
namespace Firefly.C13
open Firefly.AmlTree Firefly.AmlTree.ObjectTree

/-- `localOK` as a proposition -/
structure LocalP (t : ObjectTree) (i : Nat) : Prop where
  lp : P t i = INV ∨ live t (P t i) = true
  lpv : Pv t i = INV ∨ live t (Pv t i) = true
  lnx : Nx t i = INV ∨ live t (Nx t i) = true
  lfi : Fi t i = INV ∨ live t (Fi t i) = true
  lla : La t i = INV ∨ live t (La t i) = true
  det : P t i = INV → Pv t i = INV ∧ Nx t i = INV
  pv : Pv t i ≠ INV → Nx t (Pv t i) = i ∧ P t (Pv t i) = P t i
  nx : Nx t i ≠ INV → Pv t (Nx t i) = i ∧ P t (Nx t i) = P t i
  first : P t i ≠ INV → Pv t i = INV → Fi t (P t i) = i
  last : P t i ≠ INV → Nx t i = INV → La t (P t i) = i
  fi : Fi t i ≠ INV → P t (Fi t i) = i ∧ Pv t (Fi t i) = INV
  la : La t i ≠ INV → P t (La t i) = i ∧ Nx t (La t i) = INV
  ends : Fi t i = INV ↔ La t i = INV

theorem localOK_iff (t : ObjectTree) (i : Nat) : localOK t i = true ↔ LocalP t i := by
  constructor
  · intro h
    simp only [localOK, Bool.and_eq_true, Bool.or_eq_true, decide_eq_true_eq, ne_eq,
      decide_not, Bool.not_eq_true', decide_eq_false_iff_not, beq_iff_eq, decide_eq_decide, linkOK_iff] at h
    obtain ⟨⟨⟨⟨⟨⟨⟨⟨⟨⟨⟨⟨a1, a2⟩, a3⟩, a4⟩, a5⟩, c1⟩, c2⟩, c3⟩, c4⟩, c5⟩, c6⟩, c7⟩, c8⟩ := h
    exact ⟨a1, a2, a3, a4, a5, by grind, by grind, by grind, by grind, by grind, by grind, by grind, c8⟩
  · intro h
    obtain ⟨a1, a2, a3, a4, a5, c1, c2, c3, c4, c5, c6, c7, c8⟩ := h
    simp only [localOK, Bool.and_eq_true, Bool.or_eq_true, decide_eq_true_eq, ne_eq,
      decide_not, Bool.not_eq_true', decide_eq_false_iff_not, beq_iff_eq, decide_eq_decide, linkOK_iff]
    refine ⟨⟨⟨⟨⟨⟨⟨⟨⟨⟨⟨⟨a1, a2⟩, a3⟩, a4⟩, a5⟩, ?_⟩, ?_⟩, ?_⟩, ?_⟩, ?_⟩, ?_⟩, ?_⟩, c8⟩ <;> grind

theorem WF.lP {t : ObjectTree} (w : WF t) {i : Nat} (h : live t i = true) : LocalP t i :=
  (localOK_iff t i).1 (w.loc i h)

/-! ### field accessors after one write -/

section setAt
variable (t : ObjectTree) (i : Nat) (f : Obj → Obj) (h : i < t.pool.size)
include h

theorem P_setAt (x : Nat) : P (setAt t i f) x = if i = x then (f (slot t x)).parentIndex else P t x := by
  simp only [P, slot_setAt t i f x h]; split <;> rfl
theorem Pv_setAt (x : Nat) : Pv (setAt t i f) x = if i = x then (f (slot t x)).prevSiblingIndex else Pv t x := by
  simp only [Pv, slot_setAt t i f x h]; split <;> rfl
theorem Nx_setAt (x : Nat) : Nx (setAt t i f) x = if i = x then (f (slot t x)).nextSiblingIndex else Nx t x := by
  simp only [Nx, slot_setAt t i f x h]; split <;> rfl
theorem Fi_setAt (x : Nat) : Fi (setAt t i f) x = if i = x then (f (slot t x)).firstArgIndex else Fi t x := by
  simp only [Fi, slot_setAt t i f x h]; split <;> rfl
theorem La_setAt (x : Nat) : La (setAt t i f) x = if i = x then (f (slot t x)).lastArgIndex else La t x := by
  simp only [La, slot_setAt t i f x h]; split <;> rfl
theorem live_setAt (x : Nat) (hop : (f (slot t i)).opcode = (slot t i).opcode) :
    live (setAt t i f) x = live t x := by
  simp only [live, size_setAt, slot_setAt t i f x h]
  by_cases e : i = x
  · subst e; simp [hop]
  · simp [e]
end setAt

/-! ### the free chain has no repetition -/

theorem freeChain_det {t : ObjectTree} : ∀ (l1 l2 : List Nat) (a : Nat), t.pool.size ≤ INV →
    FreeChain t a l1 → FreeChain t a l2 → l1 = l2 := by
  intro l1
  induction l1 with
  | nil =>
    intro l2 a hs h1 h2
    cases l2 with
    | nil => rfl
    | cons y ys =>
      have : a = INV := h1
      obtain ⟨rfl, hy, _⟩ := h2
      omega
  | cons x xs ih =>
    intro l2 a hs h1 h2
    obtain ⟨rfl, hx, _, h1'⟩ := h1
    cases l2 with
    | nil => have : a = INV := h2; omega
    | cons y ys =>
      obtain ⟨rfl, _, _, h2'⟩ := h2
      rw [ih ys _ hs h1' h2']

theorem freeChain_suffix {t : ObjectTree} : ∀ (l : List Nat) (a x : Nat), FreeChain t a l → x ∈ l →
    ∃ l', FreeChain t x l' ∧ l'.length ≤ l.length := by
  intro l
  induction l with
  | nil => intro a x _ hx; simp at hx
  | cons y ys ih =>
    intro a x hc hx
    obtain ⟨rfl, hy, hl, hc'⟩ := hc
    rcases List.mem_cons.1 hx with rfl | hx
    · exact ⟨x :: ys, ⟨rfl, hy, hl, hc'⟩, by simp⟩
    · obtain ⟨l', h1, h2⟩ := ih _ x hc' hx
      exact ⟨l', h1, by simp; omega⟩

theorem freeChain_head_notin {t : ObjectTree} (hs : t.pool.size ≤ INV) {h : Nat} {xs : List Nat}
    (hc : FreeChain t h (h :: xs)) : h ∉ xs := by
  intro hm
  obtain ⟨l', h1, h2⟩ := freeChain_suffix xs _ h hc.2.2.2 hm
  have := freeChain_det _ _ _ hs h1 hc
  subst this
  simp at h2; omega

/-- a chain that avoids the positions where two pools differ is a chain of both -/
theorem freeChain_congr {t t' : ObjectTree} (hsz : t.pool.size ≤ t'.pool.size) :
    ∀ (l : List Nat) (a : Nat), (∀ x ∈ l, live t' x = live t x ∧ Nx t' x = Nx t x) →
      FreeChain t a l → FreeChain t' a l := by
  intro l
  induction l with
  | nil => intro a _ h; exact h
  | cons y ys ih =>
    intro a hsame hc
    obtain ⟨rfl, hy, hl, hc'⟩ := hc
    have := hsame a (by simp)
    refine ⟨rfl, by omega, by rw [this.1]; exact hl, ?_⟩
    rw [this.2]
    exact ih _ (fun x hx => hsame x (by simp [hx])) hc'

/-! ### newObject -/

/-- the reset every `newObject` applies -/
def initObj (opcode info th : Nat) (o : Obj) : Obj :=
  { o with opcode := opcode, infoIndex := info, tableHandle := th,
           parentIndex := InvalidIndex, prevSiblingIndex := InvalidIndex,
           nextSiblingIndex := InvalidIndex, firstArgIndex := InvalidIndex,
           lastArgIndex := InvalidIndex, value := .none }

/-- a pool `t'` that agrees with `t` everywhere except at `n`, where a fresh detached live object
sits, and whose live set is that of `t` plus `n` -/
structure Fresh (t t' : ObjectTree) (n : Nat) : Prop where
  nlive : live t n = false
  same : ∀ x, x ≠ n → slot t' x = slot t x
  livex : ∀ x, x ≠ n → live t' x = live t x
  liven : live t' n = true
  pn : P t' n = INV
  pvn : Pv t' n = INV
  nxn : Nx t' n = INV
  fin : Fi t' n = INV
  lan : La t' n = INV

theorem Fresh.localP {t t' : ObjectTree} {n : Nat} (fr : Fresh t t' n) (w : WF t) :
    ∀ i, live t' i = true → LocalP t' i := by
  intro i hl
  by_cases hi : i = n
  · subst hi
    refine ⟨Or.inl fr.pn, Or.inl fr.pvn, Or.inl fr.nxn, Or.inl fr.fin, Or.inl fr.lan, ?_, ?_, ?_, ?_, ?_, ?_, ?_, ?_⟩
    · intro _; exact ⟨fr.pvn, fr.nxn⟩
    · intro h; exact absurd fr.pvn h
    · intro h; exact absurd fr.nxn h
    · intro h; exact absurd fr.pn h
    · intro h; exact absurd fr.pn h
    · intro h; exact absurd fr.fin h
    · intro h; exact absurd fr.lan h
    · simp [fr.fin, fr.lan]
  · have hl0 : live t i = true := by rw [← fr.livex i hi]; exact hl
    have lp := w.lP hl0
    have hne : ∀ x, live t x = true → x ≠ n := fun x hx e => by rw [e, fr.nlive] at hx; cases hx
    have acc : ∀ x, x ≠ n → P t' x = P t x ∧ Pv t' x = Pv t x ∧ Nx t' x = Nx t x ∧ Fi t' x = Fi t x ∧ La t' x = La t x := by
      intro x hx; simp [P, Pv, Nx, Fi, La, fr.same x hx]
    have lv : ∀ x, live t x = true → live t' x = true := fun x hx => by rw [fr.livex x (hne x hx)]; exact hx
    obtain ⟨a1, a2, a3, a4, a5⟩ := acc i hi
    obtain ⟨b1, b2, b3, b4, b5, c1, c2, c3, c4, c5, c6, c7, c8⟩ := lp
    have up : ∀ y, (y = INV ∨ live t y = true) → (y = INV ∨ live t' y = true) := fun y hy => hy.elim Or.inl (fun h => Or.inr (lv y h))
    refine ⟨?_, ?_, ?_, ?_, ?_, ?_, ?_, ?_, ?_, ?_, ?_, ?_, ?_⟩
    · rw [a1]; exact up _ b1
    · rw [a2]; exact up _ b2
    · rw [a3]; exact up _ b3
    · rw [a4]; exact up _ b4
    · rw [a5]; exact up _ b5
    · rw [a1, a2, a3]; exact c1
    · rw [a2, a1]; intro h
      have hy := hne _ (b2.resolve_left h)
      rw [(acc _ hy).2.2.1, (acc _ hy).1]; exact c2 h
    · rw [a3, a1]; intro h
      have hy := hne _ (b3.resolve_left h)
      rw [(acc _ hy).2.1, (acc _ hy).1]; exact c3 h
    · rw [a1, a2]; intro h h'
      have hy := hne _ (b1.resolve_left h)
      rw [(acc _ hy).2.2.2.1]; exact c4 h h'
    · rw [a1, a3]; intro h h'
      have hy := hne _ (b1.resolve_left h)
      rw [(acc _ hy).2.2.2.2]; exact c5 h h'
    · rw [a4]; intro h
      have hy := hne _ (b4.resolve_left h)
      rw [(acc _ hy).1, (acc _ hy).2.1]; exact c6 h
    · rw [a5]; intro h
      have hy := hne _ (b5.resolve_left h)
      rw [(acc _ hy).1, (acc _ hy).2.2.1]; exact c7 h
    · rw [a4, a5]; exact c8

theorem Fresh.wf {t t' : ObjectTree} {n : Nat} (fr : Fresh t t' n) (w : WF t)
    (hsz : t'.pool.size ≤ INV) (hidx : ∀ i, i < t'.pool.size → (slot t' i).index = i)
    (hfree : ∃ fl, FreeChain t' t'.freeListHeadIndex fl ∧ ∀ i, i < t'.pool.size → live t' i = false → i ∈ fl) :
    WF t' := by
  have hne : ∀ x, live t' x = true → x ≠ n → live t x = true := fun x hx e => by rw [← fr.livex x e]; exact hx
  refine ⟨hsz, hidx, fun i hl => (localOK_iff t' i).2 (fr.localP w i hl), ?_, ?_, hfree⟩
  · obtain ⟨rk, hrk⟩ := w.rank
    refine ⟨rk, fun i hl hp => ?_⟩
    have hi : i ≠ n := fun e => hp (e ▸ fr.pn)
    have : P t' i = P t i := by simp [P, fr.same i hi]
    rw [this] at hp ⊢
    exact hrk i (hne i hl hi) hp
  · obtain ⟨pos, hpos⟩ := w.order
    refine ⟨pos, fun i hl hp => ?_⟩
    have hi : i ≠ n := fun e => hp (e ▸ fr.nxn)
    have : Nx t' i = Nx t i := by simp [Nx, fr.same i hi]
    rw [this] at hp ⊢
    exact hpos i (hne i hl hi) hp

theorem slot_push (t : ObjectTree) (o : Obj) (x : Nat) :
    slot { t with pool := t.pool.push o } x = if x = t.pool.size then o else slot t x := by
  simp only [slot, Array.getElem?_push]
  split <;> rfl

/-- `newObject` under its contract (`pool.size < 2^32-1`, the opcode is not the freed marker):
succeeds, preserves `WF`, and adds exactly one fresh detached live object. -/
theorem newObject_wf {t : ObjectTree} (w : WF t) (opcode info th : Nat)
    (hpre : t.pool.size < INV) (hop : opcode ≠ pOpIntFreedObject) :
    ∃ t' i, t.newObject opcode info th = .ok (t', i) ∧ WF t' ∧ Fresh t t' i := by
  obtain ⟨fl, hc, hall⟩ := w.free
  have hh := freeChain_head w.size_le hc
  by_cases h0 : t.freeListHeadIndex = InvalidIndex
  · -- the pool grows
    have hfl : fl = [] := hh.1.1 h0
    have hlive : ∀ j, j < t.pool.size → live t j = true := by
      intro j hj
      cases hj' : live t j with
      | true => rfl
      | false => have := hall j hj hj'; simp [hfl] at this
    refine ⟨{ t with pool := t.pool.push (initObj opcode info th { index := t.pool.size }) }, t.pool.size, ?_, ?_⟩
    · unfold ObjectTree.newObject
      rw [if_neg (by simp [h0])]
      rfl
    have fr : Fresh t { t with pool := t.pool.push (initObj opcode info th { index := t.pool.size }) } t.pool.size := by
      refine ⟨by simp [live], ?_, ?_, ?_, ?_, ?_, ?_, ?_, ?_⟩
      · intro x hx; simp [slot_push, hx]
      · intro x hx
        simp only [live, slot_push, hx, if_false, Array.size_push]
        by_cases hx' : x < t.pool.size
        · simp [hx']; omega
        · simp [hx']; omega
      · simp [live, slot_push, initObj, hop]
      all_goals simp [P, Pv, Nx, Fi, La, slot_push, initObj, INV]
    refine ⟨fr.wf w (by simp; omega) ?_ ⟨[], h0, ?_⟩, fr⟩
    · intro i hi
      simp only [slot_push]
      split
      · rename_i e; simp [initObj, e]
      · rename_i e; simp at hi; exact w.index_eq i (by omega)
    · intro i hi hl
      simp at hi
      by_cases e : i = t.pool.size
      · rw [e, fr.liven] at hl; cases hl
      · rw [fr.livex i e, hlive i (by omega)] at hl; cases hl
  · -- a freed slot is reused
    obtain ⟨hlt, hnl⟩ := hh.2 h0
    cases fl with
    | nil => exact absurd (hh.1.2 rfl) h0
    | cons x xs =>
      obtain ⟨hx, _, _, hc'⟩ := id hc
      subst hx
      have hnotin := freeChain_head_notin w.size_le hc
      let t0 : ObjectTree := { t with freeListHeadIndex := (slot t t.freeListHeadIndex).nextSiblingIndex }
      have hsl0 : ∀ y, slot t0 y = slot t y := fun y => rfl
      refine ⟨setAt t0 t.freeListHeadIndex (initObj opcode info th), t.freeListHeadIndex, ?_, ?_⟩
      · simp only [ObjectTree.newObject, ne_eq, h0, not_false_eq_true, if_true, obj_eq hlt, bind, Except.bind]
        rw [upd_eq _ (by simpa using hlt)]
        rfl
      have hlt0 : t.freeListHeadIndex < t0.pool.size := hlt
      have fr : Fresh t (setAt t0 t.freeListHeadIndex (initObj opcode info th)) t.freeListHeadIndex := by
        refine ⟨hnl, ?_, ?_, ?_, ?_, ?_, ?_, ?_, ?_⟩
        · intro y hy; rw [slot_setAt _ _ _ _ hlt0]; simp [Ne.symm hy, hsl0]
        · intro y hy
          simp only [live, size_setAt, slot_setAt _ _ _ _ hlt0, Ne.symm hy, if_false]
          rfl
        · simp only [live, size_setAt, slot_setAt _ _ _ _ hlt0, if_true]
          simp [initObj, hop]; exact hlt
        all_goals simp [P, Pv, Nx, Fi, La, slot_setAt _ _ _ _ hlt0, initObj, INV]
      refine ⟨fr.wf w (by simpa using w.size_le) ?_ ⟨xs, ?_, ?_⟩, fr⟩
      · intro i hi
        rw [slot_setAt _ _ _ _ hlt0]
        split
        · rename_i e; subst e; simp only [initObj]; exact w.index_eq _ hlt
        · exact w.index_eq i (by simpa using hi)
      · have : (setAt t0 t.freeListHeadIndex (initObj opcode info th)).freeListHeadIndex = Nx t t.freeListHeadIndex := rfl
        rw [this]
        apply freeChain_congr (t := t) (by simp [t0]) xs _ _ hc'
        intro y hy
        have hyn : y ≠ t.freeListHeadIndex := fun e => hnotin (by rw [← e]; exact hy)
        exact ⟨fr.livex y hyn, by simp [Nx, fr.same y hyn]⟩
      · intro i hi hl
        have hin : i ≠ t.freeListHeadIndex := fun e => by rw [e, fr.liven] at hl; cases hl
        rw [fr.livex i hin] at hl
        have := hall i (by simpa using hi) hl
        rcases List.mem_cons.1 this with e | e
        · exact absurd e hin
        · exact e

/-! ### every child is in its parent's child list -/

theorem chain_succ_mem {t : ObjectTree} (_hs : t.pool.size ≤ INV) :
    ∀ (l : List Nat) (a j : Nat), Chain t (Nx t) a l → j ∈ l → Nx t j ≠ INV → Nx t j ∈ l := by
  intro l
  induction l with
  | nil => intro a j _ hj; simp at hj
  | cons x xs ih =>
    intro a j hc hj hn
    obtain ⟨rfl, hl, hc'⟩ := hc
    rcases List.mem_cons.1 hj with rfl | hj
    · cases xs with
      | nil => exact absurd hc' hn
      | cons y ys => obtain ⟨e, _, _⟩ := hc'; simp [e]
    · exact List.mem_cons_of_mem _ (ih _ j hc' hj hn)

theorem WF.child_mem {t : ObjectTree} (w : WF t) {p : Nat} {l : List Nat} (hc : Chain t (Nx t) (Fi t p) l)
    (pos : Nat → Nat) (hpos : ∀ i, live t i = true → Nx t i ≠ INV → pos i < pos (Nx t i)) :
    ∀ (n i : Nat), pos i ≤ n → live t i = true → P t i = p → p ≠ INV → i ∈ l := by
  intro n
  induction n with
  | zero =>
    intro i hn hl hp hpn
    have lp := w.lP hl
    by_cases hpv : Pv t i = INV
    · have := lp.first (hp ▸ hpn) hpv
      rw [hp] at this
      cases l with
      | nil => exact absurd (this ▸ hc : i = INV) (live_ne_INV w.size_le hl)
      | cons x xs => obtain ⟨e, _, _⟩ := hc; rw [this] at e; simp [e]
    · have hj := lp.lpv.resolve_left hpv
      have := hpos _ hj (by rw [(lp.pv hpv).1]; exact live_ne_INV w.size_le hl)
      rw [(lp.pv hpv).1] at this
      omega
  | succ n ih =>
    intro i hn hl hp hpn
    have lp := w.lP hl
    by_cases hpv : Pv t i = INV
    · have := lp.first (hp ▸ hpn) hpv
      rw [hp] at this
      cases l with
      | nil => exact absurd (this ▸ hc : i = INV) (live_ne_INV w.size_le hl)
      | cons x xs => obtain ⟨e, _, _⟩ := hc; rw [this] at e; simp [e]
    · have hj := lp.lpv.resolve_left hpv
      have hne : Nx t (Pv t i) ≠ INV := by rw [(lp.pv hpv).1]; exact live_ne_INV w.size_le hl
      have := hpos _ hj hne
      rw [(lp.pv hpv).1] at this
      have hmem := ih (Pv t i) (by omega) hj (by rw [(lp.pv hpv).2, hp]) hpn
      have := chain_succ_mem w.size_le l _ _ hc hmem hne
      rwa [(lp.pv hpv).1] at this

/-! ### the forest's derived parent is the pool's parent link -/

theorem find?_unique {α : Type} (q : α → Bool) (x : α) :
    ∀ (l : List α), x ∈ l → q x = true → (∀ y ∈ l, q y = true → y = x) → l.find? q = some x := by
  intro l
  induction l with
  | nil => intro h; simp at h
  | cons a l ih =>
    intro hx hq hu
    by_cases ha : q a = true
    · have := hu a (by simp) ha
      subst this
      simp [List.find?, ha]
    · have hax : x ≠ a := fun e => ha (e ▸ hq)
      simp only [List.find?, ha]
      have hx' : x ∈ l := by
        rcases List.mem_cons.1 hx with e | e
        · exact absurd e hax
        · exact e
      exact ih hx' hq (fun y hy => hu y (List.mem_cons_of_mem _ hy))

theorem WF.kids_mem {t : ObjectTree} (w : WF t) (p : Nat) (hl : live t p = true) (k : Nat) :
    k ∈ (abs t).kids p ↔ (live t k = true ∧ P t k = p) := by
  obtain ⟨l, hc, ha, _⟩ := w.args_eq hl
  have hk : (abs t).kids p = l := by simp [abs, ha]
  rw [hk]
  constructor
  · exact w.chain_parent l (Fi t p) p hc (fun hne => ((w.localP hl).2.2.2.2.2.1 hne).1) k
  · rintro ⟨hlk, hp⟩
    obtain ⟨pos, hpos⟩ := w.order
    exact w.child_mem hc pos hpos (pos k) k (Nat.le_refl _) hlk hp (live_ne_INV w.size_le hl)

theorem mem_ids {t : ObjectTree} (p : Nat) : p ∈ (abs t).ids ↔ live t p = true := by
  simp only [abs, List.mem_filter, List.mem_range]
  exact ⟨fun h => h.2, fun h => ⟨live_lt h, h⟩⟩

/-- `parentOf` on the abstracted forest (a search through the child lists) is the parent link -/
theorem WF.parentOf_abs {t : ObjectTree} (w : WF t) (i : Nat) (hl : live t i = true) :
    (abs t).parentOf i = if P t i = INV then none else some (P t i) := by
  unfold Forest.parentOf
  by_cases hp : P t i = INV
  · simp only [hp, if_true, List.find?_eq_none]
    intro p hpm hc
    have hpl := (mem_ids p).1 hpm
    have := (w.kids_mem p hpl i).1 (by simpa using hc)
    have hne := live_ne_INV w.size_le hpl
    rw [hp] at this
    exact hne this.2.symm
  · simp only [hp, if_false]
    have hpl : live t (P t i) = true := (w.links hl).1.resolve_left hp
    apply find?_unique
    · exact (mem_ids _).2 hpl
    · simpa using (w.kids_mem _ hpl i).2 ⟨hl, rfl⟩
    · intro y hy hc
      have := (w.kids_mem y ((mem_ids y).1 hy) i).1 (by simpa using hc)
      exact this.2.symm

/-- the `'^'` loop on `k` carets is `climb` -/
theorem WF.findCarets_climb {t : ObjectTree} (w : WF t) :
    ∀ (k scope : Nat), live t scope = true →
      t.findCarets scope (List.replicate k 0x5e) = .ok (optIdx ((abs t).climb k scope)) := by
  intro k
  induction k with
  | zero => intro scope _; rfl
  | succ k ih =>
    intro scope hl
    simp only [List.replicate_succ, findCarets, if_true, objectAt_live hl, deref_some, obj_eq (live_lt hl),
      bind, Except.bind, Forest.climb, w.parentOf_abs scope hl]
    by_cases hp : P t scope = INV
    · have : (slot t scope).parentIndex = InvalidIndex := hp
      simp [this, hp, optIdx, INV, pure, Except.pure]
    · have hp' : ¬ (slot t scope).parentIndex = InvalidIndex := hp
      simp only [hp', if_false, hp, Option.bind]
      exact ih _ ((w.links hl).1.resolve_left hp)

end Firefly.C13
