import Firefly.Proof.AmlTreeOps
import Firefly.Proof.AmlParser
/-!
Total-correctness reasoning about the parser model: tree-level facts (`TreeOK`, the invariant of the
first pass of a table parsed into a pool without freed slots) and the run lemmas of the primitives.
-/
namespace Firefly.AmlParser
open Firefly.AmlLex Firefly.AmlTree Firefly.C13
open Firefly.Gen.C12 (invalidIndex)

/-- the non-link part of an object -/
def Pay (o : Obj) : Nat × Nat × Nat × Name × Nat × Nat × Nat × Val :=
  (o.opcode, o.infoIndex, o.tableHandle, o.name, o.index, o.amlOffset, o.pkgEnd, o.value)

/-- `t'` has the same size, free-list head and payloads as `t` (only links may differ) -/
structure SamePay (t t' : ObjectTree) : Prop where
  size : t'.pool.size = t.pool.size
  head : t'.freeListHeadIndex = t.freeListHeadIndex
  pay : ∀ x, Pay (slot t' x) = Pay (slot t x)

theorem SamePay.refl (t : ObjectTree) : SamePay t t := ⟨rfl, rfl, fun _ => rfl⟩
theorem SamePay.trans {a b c : ObjectTree} (h1 : SamePay a b) (h2 : SamePay b c) : SamePay a c :=
  ⟨by rw [h2.size, h1.size], by rw [h2.head, h1.head], fun x => by rw [h2.pay, h1.pay]⟩

theorem samePay_setAt (t : ObjectTree) (i : Nat) (f : Obj → Obj) (hf : ∀ o, Pay (f o) = Pay o) :
    SamePay t (setAt t i f) := by
  refine ⟨by simp, rfl, ?_⟩
  intro x
  rw [slot_setAt']
  split
  · exact hf _
  · rfl

/-- an `ObjectTree` computation that only rewrites links -/
structure KP (t0 : ObjectTree) (x : Res ObjectTree) : Prop where
  run : ∀ t', x = .ok t' → SamePay t0 t'

theorem KP.pure {t0 t : ObjectTree} (h : SamePay t0 t) : KP t0 (pure t) := ⟨fun t' e => by cases e; exact h⟩
theorem KP.throw {t0 : ObjectTree} (e : Err) : KP t0 (throw e) := ⟨fun _ h => by cases h⟩
theorem KP.bind_tree {t0 : ObjectTree} {x : Res ObjectTree} {f : ObjectTree → Res ObjectTree}
    (hx : KP t0 x) (hf : ∀ t, SamePay t0 t → KP t0 (f t)) : KP t0 (x >>= f) := by
  constructor
  intro t' e
  cases hxe : x with
  | error err => rw [hxe] at e; cases e
  | ok t1 => rw [hxe] at e; exact (hf t1 (hx.run t1 hxe)).run t' e
theorem KP.bind_read {t0 : ObjectTree} {α : Type} {x : Res α} {f : α → Res ObjectTree}
    (hf : ∀ a, KP t0 (f a)) : KP t0 (x >>= f) := by
  constructor
  intro t' e
  cases hxe : x with
  | error err => rw [hxe] at e; cases e
  | ok a => rw [hxe] at e; exact (hf a).run t' e
theorem KP.upd {t0 t : ObjectTree} (h : SamePay t0 t) (i : Nat) (f : Obj → Obj) (hf : ∀ o, Pay (f o) = Pay o) :
    KP t0 (t.upd i f) := by
  constructor
  intro t' e
  by_cases hi : i < t.pool.size
  · rw [upd_eq f hi] at e; cases e
    exact h.trans (samePay_setAt t i f hf)
  · unfold ObjectTree.upd at e; simp [hi] at e

macro "kp_step" : tactic => `(tactic| first
  | exact KP.pure (by assumption)
  | exact KP.throw _
  | (apply KP.upd (by assumption); intro _; rfl)
  | assumption
  | (refine KP.bind_tree ?_ ?_)
  | (refine KP.bind_read ?_)
  | intro _
  | split
  | dsimp only)
macro "kp_tac" : tactic => `(tactic| repeat' kp_step)

theorem kp_append {t0 t : ObjectTree} (h : SamePay t0 t) (obj arg : Nat) : KP t0 (t.append obj arg) := by
  unfold ObjectTree.append; kp_tac

theorem kp_appendAfter {t0 t : ObjectTree} (h : SamePay t0 t) (obj arg nextTo : Nat) :
    KP t0 (t.appendAfter obj arg nextTo) := by
  unfold ObjectTree.appendAfter
  kp_tac
  all_goals first | (apply kp_append; assumption) | skip

theorem kp_detach {t0 t : ObjectTree} (h : SamePay t0 t) (obj arg : Nat) : KP t0 (t.detach obj arg) := by
  have h1 : ∀ t, SamePay t0 t → KP t0 (t.detachFirst obj arg) := by
    intro t h; unfold ObjectTree.detachFirst; kp_tac
  have h2 : ∀ t, SamePay t0 t → KP t0 (t.detachLast obj arg) := by
    intro t h; unfold ObjectTree.detachLast; kp_tac
  have h3 : ∀ t, SamePay t0 t → KP t0 (t.detachNext arg) := by
    intro t h; unfold ObjectTree.detachNext; kp_tac
  have h4 : ∀ t, SamePay t0 t → KP t0 (t.detachPrev arg) := by
    intro t h; unfold ObjectTree.detachPrev; kp_tac
  have h5 : ∀ t, SamePay t0 t → KP t0 (t.detachClear arg) := by
    intro t h; unfold ObjectTree.detachClear; kp_tac
  unfold ObjectTree.detach
  apply KP.bind_tree (h1 t h); intro t1 k1
  apply KP.bind_tree (h2 t1 k1); intro t2 k2
  apply KP.bind_tree (h3 t2 k2); intro t3 k3
  apply KP.bind_tree (h4 t3 k3); intro t4 k4
  exact h5 t4 k4

theorem append_samePay {t t' : ObjectTree} {obj arg : Nat} (e : t.append obj arg = .ok t') : SamePay t t' :=
  (kp_append (SamePay.refl t) obj arg).run t' e
theorem appendAfter_samePay {t t' : ObjectTree} {obj arg n : Nat} (e : t.appendAfter obj arg n = .ok t') : SamePay t t' :=
  (kp_appendAfter (SamePay.refl t) obj arg n).run t' e
theorem detach_samePay {t t' : ObjectTree} {obj arg : Nat} (e : t.detach obj arg = .ok t') : SamePay t t' :=
  (kp_detach (SamePay.refl t) obj arg).run t' e

/-! ## `TreeOK`: the tree invariant of the first pass -/

/-- same links, liveness and `index` everywhere -/
structure SameLinks (t t' : ObjectTree) : Prop where
  size : t'.pool.size = t.pool.size
  head : t'.freeListHeadIndex = t.freeListHeadIndex
  p : ∀ x, C13.P t' x = C13.P t x
  pv : ∀ x, Pv t' x = Pv t x
  nx : ∀ x, Nx t' x = Nx t x
  fi : ∀ x, Fi t' x = Fi t x
  la : ∀ x, La t' x = La t x
  live : ∀ x, live t' x = live t x
  index : ∀ x, (slot t' x).index = (slot t x).index

theorem wf_of_sameLinks {t t' : ObjectTree} (w : WF t) (h : SameLinks t t') : WF t' := by
  have hP : C13.P t' = C13.P t := funext h.p
  have hPv : Pv t' = Pv t := funext h.pv
  have hNx : Nx t' = Nx t := funext h.nx
  have hFi : Fi t' = Fi t := funext h.fi
  have hLa : La t' = La t := funext h.la
  have hlive : live t' = live t := funext h.live
  apply WF.transfer w h.size h.head h.live h.index (fun x _ => h.nx x)
  · intro i hl
    have : localOK t' i = localOK t i := by
      simp only [localOK, linkOK, hP, hPv, hNx, hFi, hLa, hlive]
    exact (localOK_iff t' i).1 (by rw [this]; exact w.loc i (by rw [← h.live]; exact hl))
  · obtain ⟨rk, hrk⟩ := w.rank
    exact ⟨rk, fun i hl hp => by rw [hP] at hp ⊢; exact hrk i (by rw [← h.live]; exact hl) hp⟩
  · obtain ⟨pos, hpos⟩ := w.order
    exact ⟨pos, fun i hl hn => by rw [hNx] at hn ⊢; exact hpos i (by rw [← h.live]; exact hl) hn⟩

/-- `f` changes neither links nor `index` nor whether the slot is freed -/
def KeepsLinks (f : Obj → Obj) : Prop :=
  ∀ o, (f o).parentIndex = o.parentIndex ∧ (f o).prevSiblingIndex = o.prevSiblingIndex ∧
    (f o).nextSiblingIndex = o.nextSiblingIndex ∧ (f o).firstArgIndex = o.firstArgIndex ∧
    (f o).lastArgIndex = o.lastArgIndex ∧ (f o).index = o.index

/-- `f` does not change whether slot `i` is freed -/
def KeepsLive (t : ObjectTree) (i : Nat) (f : Obj → Obj) : Prop :=
  (f (slot t i)).opcode = pOpIntFreedObject ↔ (slot t i).opcode = pOpIntFreedObject

theorem sameLinks_setAt (t : ObjectTree) (i : Nat) (f : Obj → Obj) (hf : KeepsLinks f) (hl : KeepsLive t i f) :
    SameLinks t (setAt t i f) := by
  refine ⟨by simp, rfl, ?_, ?_, ?_, ?_, ?_, ?_, ?_⟩
  · intro x; exact P_keep t i f x (fun o => (hf o).1)
  · intro x; exact Pv_keep t i f x (fun o => (hf o).2.1)
  · intro x; exact Nx_keep t i f x (fun o => (hf o).2.2.1)
  · intro x; exact Fi_keep t i f x (fun o => (hf o).2.2.2.1)
  · intro x; exact La_keep t i f x (fun o => (hf o).2.2.2.2.1)
  · intro x
    simp only [live, size_setAt, opcode_setAt']
    split
    · rename_i hc
      have : (f (slot t x)).opcode = pOpIntFreedObject ↔ (slot t x).opcode = pOpIntFreedObject := by
        have := hl; unfold KeepsLive at this; rw [hc.1] at this; exact this
      by_cases ho : (slot t x).opcode = pOpIntFreedObject
      · simp [ho, this.2 ho]
      · have hn : ¬ (f (slot t x)).opcode = pOpIntFreedObject := fun h => ho (this.1 h)
        simp [ho, hn]
    · rfl
  · intro x; rw [index_setAt']; split
    · exact (hf _).2.2.2.2.2
    · rfl

/-- `pOpcodeTable[i]` exists -/
def InfoOK (i : Nat) : Prop := (opFlags i).isSome = true

/-- the tree invariant of the first pass of a table parsed into a pool without freed slots -/
structure TreeOK (t : ObjectTree) : Prop where
  wf : WF t
  allLive : ∀ i, i < t.pool.size → live t i = true
  mono : ∀ x, x < t.pool.size → C13.P t x ≠ INV → C13.P t x < x
  info : ∀ x, x < t.pool.size → InfoOK (slot t x).infoIndex
  nonempty : 0 < t.pool.size

theorem TreeOK.head {t : ObjectTree} (h : TreeOK t) : t.freeListHeadIndex = InvalidIndex := by
  obtain ⟨fl, hc, _⟩ := h.wf.free
  have hh := freeChain_head h.wf.size_le hc
  by_cases e : t.freeListHeadIndex = INV
  · exact e
  · have := hh.2 e
    have := h.allLive _ this.1
    simp_all

theorem treeOK_setAt {t : ObjectTree} (h : TreeOK t) (i : Nat) (f : Obj → Obj) (hf : KeepsLinks f)
    (hl : KeepsLive t i f)
    (hinfo : i < t.pool.size → InfoOK (f (slot t i)).infoIndex) : TreeOK (setAt t i f) := by
  have sl := sameLinks_setAt t i f hf hl
  refine ⟨wf_of_sameLinks h.wf sl, ?_, ?_, ?_, by simpa using h.nonempty⟩
  · intro x hx; rw [sl.live]; exact h.allLive x (by simpa using hx)
  · intro x hx hp; rw [sl.p] at hp ⊢; exact h.mono x (by simpa using hx) hp
  · intro x hx
    have hx' : x < t.pool.size := by simpa using hx
    rw [slot_setAt']
    split
    · rename_i hc; obtain ⟨rfl, _⟩ := hc; exact hinfo hx'
    · exact h.info x hx'

theorem mono_not_anc {t : ObjectTree} (h : TreeOK t) (a : Nat) :
    ∀ f x, x < a → x < t.pool.size → C13.isAncestorOrSelf t a f x = false := by
  intro f
  induction f with
  | zero => intro x _ _; rfl
  | succ f ih =>
    intro x hxa hx
    unfold C13.isAncestorOrSelf
    have hne : x ≠ a := by omega
    by_cases hp : C13.P t x = INV
    · simp [hne, hp]
    · have hlt := h.mono x hx hp
      have hlive := (h.wf.lP (h.allLive x hx)).lp
      have hps : C13.P t x < t.pool.size := by
        rcases hlive with e | e
        · exact absurd e hp
        · exact live_lt e
      simp [hne, ih (C13.P t x) (by omega) hps]

/-- `newObject` on a pool without freed slots: the object is pushed at position `pool.size` -/
theorem treeOK_newObject {t : ObjectTree} (h : TreeOK t) (opcode info th : Nat) (hsz : t.pool.size < INV)
    (hop : opcode ≠ pOpIntFreedObject) (hinfo : InfoOK info) :
    ∃ t', t.newObject opcode info th = .ok (t', t.pool.size) ∧ TreeOK t' ∧
      t'.pool.size = t.pool.size + 1 ∧ (∀ x, x < t.pool.size → slot t' x = slot t x) ∧
      slot t' t.pool.size = initObj opcode info th { index := t.pool.size } := by
  obtain ⟨t', i, e, w', fr⟩ := newObject_wf h.wf opcode info th hsz hop
  have hh := h.head
  have e2 : t.newObject opcode info th =
      .ok ({ t with pool := t.pool.push (initObj opcode info th { index := t.pool.size }) }, t.pool.size) := by
    unfold ObjectTree.newObject
    simp only [hh, ne_eq, not_true_eq_false, ite_false]
    rfl
  rw [e2] at e
  cases e
  have hslot : ∀ x, x < t.pool.size → slot { t with pool := t.pool.push (initObj opcode info th { index := t.pool.size }) } x = slot t x := by
    intro x hx; rw [slot_push]; simp [Nat.ne_of_lt hx]
  have hnew : slot { t with pool := t.pool.push (initObj opcode info th { index := t.pool.size }) } t.pool.size
      = initObj opcode info th { index := t.pool.size } := by
    rw [slot_push]; simp
  refine ⟨_, e2, ⟨w', ?_, ?_, ?_, by simp⟩, by simp, hslot, hnew⟩
  · intro x hx
    by_cases hxn : x = t.pool.size
    · subst hxn; exact fr.liven
    · rw [fr.livex x hxn]; exact h.allLive x (by simp at hx; omega)
  · intro x hx hp
    by_cases hxn : x = t.pool.size
    · subst hxn; exact absurd fr.pn hp
    · have hx' : x < t.pool.size := by simp at hx; omega
      have : C13.P { t with pool := t.pool.push (initObj opcode info th { index := t.pool.size }) } x = C13.P t x := by
        unfold C13.P; rw [hslot x hx']
      rw [this] at hp ⊢
      exact h.mono x hx' hp
  · intro x hx
    by_cases hxn : x = t.pool.size
    · subst hxn; rw [hnew]; exact hinfo
    · have hx' : x < t.pool.size := by simp at hx; omega
      rw [hslot x hx']; exact h.info x hx'

/-- `append(obj, arg)` with `obj < arg` and `arg` detached -/
theorem treeOK_append {t : ObjectTree} (h : TreeOK t) {obj arg : Nat} (hlt : obj < arg) (ha : arg < t.pool.size)
    (hp : C13.P t arg = INV) :
    ∃ t', t.append obj arg = .ok t' ∧ TreeOK t' ∧ SamePay t t' ∧
      (∀ x, C13.P t' x = if x = arg then obj else C13.P t x) ∧
      (∀ x, La t' x = if x = obj then arg else La t x) ∧
      (∀ x, Fi t' x = if x = obj ∧ La t obj = INV then arg else Fi t x) ∧
      (∀ x, Nx t' x = if x = arg then INV else if x = La t obj ∧ La t obj ≠ INV then arg else Nx t x) := by
  have ho : obj < t.pool.size := by omega
  have hpre : appendPre t obj arg = true := by
    simp only [appendPre, Bool.and_eq_true, decide_eq_true_eq, Bool.not_eq_true']
    exact ⟨⟨⟨h.allLive obj ho, h.allLive arg ha⟩, hp⟩, mono_not_anc h arg _ obj hlt ho⟩
  obtain ⟨t', e, w', hsz, hlive, _, hP, _, hNx, hFi, hLa⟩ := append_wf h.wf hpre
  have sp := append_samePay e
  refine ⟨t', e, ⟨w', ?_, ?_, ?_, by rw [hsz]; exact h.nonempty⟩, sp, hP, hLa, hFi, hNx⟩
  · intro x hx; rw [hlive]; exact h.allLive x (by rw [← hsz]; exact hx)
  · intro x hx hpx
    rw [hP] at hpx ⊢
    split
    · rename_i hxa; subst hxa; exact hlt
    · rename_i hxa; simp only [hxa, ite_false] at hpx; exact h.mono x (by rw [← hsz]; exact hx) hpx
  · intro x hx
    have := sp.pay x
    have hi : (slot t' x).infoIndex = (slot t x).infoIndex := by
      have := congrArg (fun p => p.2.1) this; exact this
    rw [hi]; exact h.info x (by rw [← hsz]; exact hx)

/-- `appendAfter(obj, arg, nextTo)` with `obj < arg`, `arg` detached and `nextTo` a child of `obj` -/
theorem treeOK_appendAfter {t : ObjectTree} (h : TreeOK t) {obj arg nextTo : Nat} (hlt : obj < arg)
    (ha : arg < t.pool.size) (hp : C13.P t arg = INV) (hn : nextTo < t.pool.size) (hpn : C13.P t nextTo = obj) :
    ∃ t', t.appendAfter obj arg nextTo = .ok t' ∧ TreeOK t' ∧ SamePay t t' ∧
      (∀ x, C13.P t' x = if x = arg then obj else C13.P t x) := by
  have ho : obj < t.pool.size := by omega
  have hpre : appendAfterPre t obj arg nextTo = true := by
    simp only [appendAfterPre, appendPre, Bool.and_eq_true, decide_eq_true_eq, Bool.not_eq_true']
    exact ⟨⟨⟨⟨⟨h.allLive obj ho, h.allLive arg ha⟩, hp⟩, mono_not_anc h arg _ obj hlt ho⟩, h.allLive nextTo hn⟩, hpn⟩
  obtain ⟨t', e, w', hsz, hlive, _, hP, _, _, _, _⟩ := appendAfter_wf h.wf hpre
  have sp := appendAfter_samePay e
  refine ⟨t', e, ⟨w', ?_, ?_, ?_, by rw [hsz]; exact h.nonempty⟩, sp, hP⟩
  · intro x hx; rw [hlive]; exact h.allLive x (by rw [← hsz]; exact hx)
  · intro x hx hpx
    rw [hP] at hpx ⊢
    split
    · rename_i hxa; subst hxa; exact hlt
    · rename_i hxa; simp only [hxa, ite_false] at hpx; exact h.mono x (by rw [← hsz]; exact hx) hpx
  · intro x hx
    have := sp.pay x
    have hi : (slot t' x).infoIndex = (slot t x).infoIndex := by
      have := congrArg (fun p => p.2.1) this; exact this
    rw [hi]; exact h.info x (by rw [← hsz]; exact hx)

end Firefly.AmlParser
