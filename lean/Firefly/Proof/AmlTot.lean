import Firefly.Proof.AmlTreeOps
import Firefly.Proof.AmlParser
/-!
Tree-level facts shared by the total-correctness / panic-freedom proofs about the parser model: payloads
(`Pay`, `SamePay`: the tree operations only change links), `SameLinks`, `KeepsLinks`/`KeepsLive`, `InfoOK`.
-/
namespace Firefly.AmlParser
open Firefly.AmlLex Firefly.AmlTree Firefly.C13
open Firefly.Gen.C12 (invalidIndex)

/-- the non-link part of an object -/
def Pay (o : Obj) : Nat × Nat × Nat × Name × Nat × Nat × Nat × Val :=
  (o.opcode, o.infoIndex, o.tableHandle, o.name, o.index, o.amlOffset, o.pkgEnd, o.value)

/-- `t'` has the same size, free-list head and payloads as `t` (only links may differ) -/
structure SamePay (t t' : ObjectTree) : Prop where
  size : t'.pool.size = t.pool.size
  head : t'.freeListHeadIndex = t.freeListHeadIndex
  pay : ∀ x, Pay (slot t' x) = Pay (slot t x)

theorem SamePay.refl (t : ObjectTree) : SamePay t t := ⟨rfl, rfl, fun _ => rfl⟩
theorem SamePay.trans {a b c : ObjectTree} (h1 : SamePay a b) (h2 : SamePay b c) : SamePay a c :=
  ⟨by rw [h2.size, h1.size], by rw [h2.head, h1.head], fun x => by rw [h2.pay, h1.pay]⟩

theorem samePay_setAt (t : ObjectTree) (i : Nat) (f : Obj → Obj) (hf : ∀ o, Pay (f o) = Pay o) :
    SamePay t (setAt t i f) := by
  refine ⟨by simp, rfl, ?_⟩
  intro x
  rw [slot_setAt']
  split
  · exact hf _
  · rfl

/-- an `ObjectTree` computation that only rewrites links -/
structure KP (t0 : ObjectTree) (x : Res ObjectTree) : Prop where
  run : ∀ t', x = .ok t' → SamePay t0 t'

theorem KP.pure {t0 t : ObjectTree} (h : SamePay t0 t) : KP t0 (pure t) := ⟨fun t' e => by cases e; exact h⟩
theorem KP.throw {t0 : ObjectTree} (e : Err) : KP t0 (throw e) := ⟨fun _ h => by cases h⟩
theorem KP.bind_tree {t0 : ObjectTree} {x : Res ObjectTree} {f : ObjectTree → Res ObjectTree}
    (hx : KP t0 x) (hf : ∀ t, SamePay t0 t → KP t0 (f t)) : KP t0 (x >>= f) := by
  constructor
  intro t' e
  cases hxe : x with
  | error err => rw [hxe] at e; cases e
  | ok t1 => rw [hxe] at e; exact (hf t1 (hx.run t1 hxe)).run t' e
theorem KP.bind_read {t0 : ObjectTree} {α : Type} {x : Res α} {f : α → Res ObjectTree}
    (hf : ∀ a, KP t0 (f a)) : KP t0 (x >>= f) := by
  constructor
  intro t' e
  cases hxe : x with
  | error err => rw [hxe] at e; cases e
  | ok a => rw [hxe] at e; exact (hf a).run t' e
theorem KP.upd {t0 t : ObjectTree} (h : SamePay t0 t) (i : Nat) (f : Obj → Obj) (hf : ∀ o, Pay (f o) = Pay o) :
    KP t0 (t.upd i f) := by
  constructor
  intro t' e
  by_cases hi : i < t.pool.size
  · rw [upd_eq f hi] at e; cases e
    exact h.trans (samePay_setAt t i f hf)
  · unfold ObjectTree.upd at e; simp [hi] at e

macro "kp_step" : tactic => `(tactic| first
  | exact KP.pure (by assumption)
  | exact KP.throw _
  | (apply KP.upd (by assumption); intro _; rfl)
  | assumption
  | (refine KP.bind_tree ?_ ?_)
  | (refine KP.bind_read ?_)
  | intro _
  | split
  | dsimp only)
macro "kp_tac" : tactic => `(tactic| repeat' kp_step)

theorem kp_append {t0 t : ObjectTree} (h : SamePay t0 t) (obj arg : Nat) : KP t0 (t.append obj arg) := by
  unfold ObjectTree.append; kp_tac

theorem kp_appendAfter {t0 t : ObjectTree} (h : SamePay t0 t) (obj arg nextTo : Nat) :
    KP t0 (t.appendAfter obj arg nextTo) := by
  unfold ObjectTree.appendAfter
  kp_tac
  all_goals first | (apply kp_append; assumption) | skip

theorem kp_detach {t0 t : ObjectTree} (h : SamePay t0 t) (obj arg : Nat) : KP t0 (t.detach obj arg) := by
  have h1 : ∀ t, SamePay t0 t → KP t0 (t.detachFirst obj arg) := by
    intro t h; unfold ObjectTree.detachFirst; kp_tac
  have h2 : ∀ t, SamePay t0 t → KP t0 (t.detachLast obj arg) := by
    intro t h; unfold ObjectTree.detachLast; kp_tac
  have h3 : ∀ t, SamePay t0 t → KP t0 (t.detachNext arg) := by
    intro t h; unfold ObjectTree.detachNext; kp_tac
  have h4 : ∀ t, SamePay t0 t → KP t0 (t.detachPrev arg) := by
    intro t h; unfold ObjectTree.detachPrev; kp_tac
  have h5 : ∀ t, SamePay t0 t → KP t0 (t.detachClear arg) := by
    intro t h; unfold ObjectTree.detachClear; kp_tac
  unfold ObjectTree.detach
  apply KP.bind_tree (h1 t h); intro t1 k1
  apply KP.bind_tree (h2 t1 k1); intro t2 k2
  apply KP.bind_tree (h3 t2 k2); intro t3 k3
  apply KP.bind_tree (h4 t3 k3); intro t4 k4
  exact h5 t4 k4

theorem append_samePay {t t' : ObjectTree} {obj arg : Nat} (e : t.append obj arg = .ok t') : SamePay t t' :=
  (kp_append (SamePay.refl t) obj arg).run t' e
theorem appendAfter_samePay {t t' : ObjectTree} {obj arg n : Nat} (e : t.appendAfter obj arg n = .ok t') : SamePay t t' :=
  (kp_appendAfter (SamePay.refl t) obj arg n).run t' e
theorem detach_samePay {t t' : ObjectTree} {obj arg : Nat} (e : t.detach obj arg = .ok t') : SamePay t t' :=
  (kp_detach (SamePay.refl t) obj arg).run t' e

/-! ## payload updates keep the links -/

/-- same links, liveness and `index` everywhere -/
structure SameLinks (t t' : ObjectTree) : Prop where
  size : t'.pool.size = t.pool.size
  head : t'.freeListHeadIndex = t.freeListHeadIndex
  p : ∀ x, C13.P t' x = C13.P t x
  pv : ∀ x, Pv t' x = Pv t x
  nx : ∀ x, Nx t' x = Nx t x
  fi : ∀ x, Fi t' x = Fi t x
  la : ∀ x, La t' x = La t x
  live : ∀ x, live t' x = live t x
  index : ∀ x, (slot t' x).index = (slot t x).index

theorem wf_of_sameLinks {t t' : ObjectTree} (w : WF t) (h : SameLinks t t') : WF t' := by
  have hP : C13.P t' = C13.P t := funext h.p
  have hPv : Pv t' = Pv t := funext h.pv
  have hNx : Nx t' = Nx t := funext h.nx
  have hFi : Fi t' = Fi t := funext h.fi
  have hLa : La t' = La t := funext h.la
  have hlive : live t' = live t := funext h.live
  apply WF.transfer w h.size h.head h.live h.index (fun x _ => h.nx x)
  · intro i hl
    have : localOK t' i = localOK t i := by
      simp only [localOK, linkOK, hP, hPv, hNx, hFi, hLa, hlive]
    exact (localOK_iff t' i).1 (by rw [this]; exact w.loc i (by rw [← h.live]; exact hl))
  · obtain ⟨rk, hrk⟩ := w.rank
    exact ⟨rk, fun i hl hp => by rw [hP] at hp ⊢; exact hrk i (by rw [← h.live]; exact hl) hp⟩
  · obtain ⟨pos, hpos⟩ := w.order
    exact ⟨pos, fun i hl hn => by rw [hNx] at hn ⊢; exact hpos i (by rw [← h.live]; exact hl) hn⟩

/-- `f` changes neither links nor `index` nor whether the slot is freed -/
def KeepsLinks (f : Obj → Obj) : Prop :=
  ∀ o, (f o).parentIndex = o.parentIndex ∧ (f o).prevSiblingIndex = o.prevSiblingIndex ∧
    (f o).nextSiblingIndex = o.nextSiblingIndex ∧ (f o).firstArgIndex = o.firstArgIndex ∧
    (f o).lastArgIndex = o.lastArgIndex ∧ (f o).index = o.index

/-- `f` does not change whether slot `i` is freed -/
def KeepsLive (t : ObjectTree) (i : Nat) (f : Obj → Obj) : Prop :=
  (f (slot t i)).opcode = pOpIntFreedObject ↔ (slot t i).opcode = pOpIntFreedObject

theorem sameLinks_setAt (t : ObjectTree) (i : Nat) (f : Obj → Obj) (hf : KeepsLinks f) (hl : KeepsLive t i f) :
    SameLinks t (setAt t i f) := by
  refine ⟨by simp, rfl, ?_, ?_, ?_, ?_, ?_, ?_, ?_⟩
  · intro x; exact P_keep t i f x (fun o => (hf o).1)
  · intro x; exact Pv_keep t i f x (fun o => (hf o).2.1)
  · intro x; exact Nx_keep t i f x (fun o => (hf o).2.2.1)
  · intro x; exact Fi_keep t i f x (fun o => (hf o).2.2.2.1)
  · intro x; exact La_keep t i f x (fun o => (hf o).2.2.2.2.1)
  · intro x
    simp only [live, size_setAt, opcode_setAt']
    split
    · rename_i hc
      have : (f (slot t x)).opcode = pOpIntFreedObject ↔ (slot t x).opcode = pOpIntFreedObject := by
        have := hl; unfold KeepsLive at this; rw [hc.1] at this; exact this
      by_cases ho : (slot t x).opcode = pOpIntFreedObject
      · simp [ho, this.2 ho]
      · have hn : ¬ (f (slot t x)).opcode = pOpIntFreedObject := fun h => ho (this.1 h)
        simp [ho, hn]
    · rfl
  · intro x; rw [index_setAt']; split
    · exact (hf _).2.2.2.2.2
    · rfl

/-- `pOpcodeTable[i]` exists -/
def InfoOK (i : Nat) : Prop := (opFlags i).isSome = true

end Firefly.AmlParser
