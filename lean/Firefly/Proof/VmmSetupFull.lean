import Firefly.Proof.VmmZero
import Firefly.Proof.VmmSetup
/-! `setupPDTForKernel` at the level of address spaces. -/
namespace Firefly.Vmm
open Firefly.Gen.C04

/-- the abstract effect of a list of successful `Map` requests (later requests win) -/
def applyCalls (as : AS) : List (W × W × W) → AS
  | [] => as
  | (p, f, fl) :: r => applyCalls (absStep as (.map p f fl) 0) r

theorem applyCalls_congr_at {as as' : AS} (l : List (W × W × W)) (va : W) (h : as va = as' va) :
    applyCalls as l va = applyCalls as' l va := by
  induction l generalizing as as' with
  | nil => exact h
  | cons c l ih => obtain ⟨p, f, fl⟩ := c; exact ih (absStep_congr_at _ 0 va h)

theorem applyCalls_append (as : AS) (l1 l2 : List (W × W × W)) :
    applyCalls as (l1 ++ l2) = applyCalls (applyCalls as l1) l2 := by
  induction l1 generalizing as with
  | nil => rfl
  | cons c l ih => obtain ⟨p, f, fl⟩ := c; exact ih _

/-- an address on none of the requested pages keeps its entry -/
theorem applyCalls_not_mem (as : AS) (l : List (W × W × W)) (va : W)
    (h : ∀ c ∈ l, ¬SamePage va (pageAddr c.1)) : applyCalls as l va = as va := by
  induction l generalizing as with
  | nil => rfl
  | cons c l ih =>
    obtain ⟨p, f, fl⟩ := c
    simp only [applyCalls]
    rw [ih _ (fun c hc => h c (List.mem_cons_of_mem _ hc))]
    have := h (p, f, fl) List.mem_cons_self
    simp [absStep, this]

/-- with pairwise distinct pages, a requested page gets exactly its request's entry -/
theorem applyCalls_mem (as : AS) (l : List (W × W × W)) (va : W)
    (hpw : l.Pairwise (fun a b => ¬SamePage (pageAddr a.1) (pageAddr b.1)))
    {p f fl : W} (hm : (p, f, fl) ∈ l) (hs : SamePage va (pageAddr p)) :
    applyCalls as l va = if mkEntry f fl &&& 1#64 = 0#64 then none else some (mkEntry f fl) := by
  induction l generalizing as with
  | nil => cases hm
  | cons c l ih =>
    obtain ⟨p', f', fl'⟩ := c
    have hpw' := List.pairwise_cons.1 hpw
    simp only [applyCalls]
    rcases List.mem_cons.1 hm with heq | hm'
    · cases heq
      rw [applyCalls_not_mem _ l va (fun c hc hsc => hpw'.1 c hc (by
        unfold SamePage at hs hsc ⊢; rw [← hs, hsc]))]
      simp [absStep, hs]
    · exact ih _ hpw'.2 hm'

/-- `PageDirectoryTable.Map` on `P`, as a mapping function -/
def pdtMp (P : W) : MapFn := fun page frame flags st => pdtMap st P page frame flags

/-- **A run of `PageDirectoryTable.Map` calls on the inactive table** (stopping at the first error):
never faults; both address spaces stay well formed and disjoint; memory outside the inactive tree is
bit-identical; if every call succeeded the inactive address space is the old one with the requests
applied in order, otherwise the error is the allocator's or the guard's. -/
theorem pdtSeq_full {A P : W} {ownA : Own} (calls : List (W × W × W)) : ∀ (st : St) (ownP : Own),
    Dual st A P ownA ownP → (∀ c ∈ calls, UserVA (pageAddr c.1)) →
    ∃ code st' ownP', seqCalls (pdtMp P) calls 0 st = .ok (code, st') ∧ Dual st' A P ownA ownP' ∧
      SameRegs st st' ∧ (∀ F x, ownP F = some x → ownP' F = some x) ∧
      (∀ F j, ownP' F = none → st'.mem.rd F j = st.mem.rd F j) ∧ (∃ used, st.free = used ++ st'.free) ∧
      (code = 0 → ∀ va', UserVA va' →
        hwEntry st'.mem (P <<< 12) va' = applyCalls (hwEntry st.mem (P <<< 12)) calls va') ∧
      (code ≠ 0 → code = eAlloc ∨ code = eRWZero) := by
  induction calls with
  | nil =>
    intro st ownP d _
    exact ⟨0, st, ownP, rfl, d, SameRegs.refl _, fun _ _ h => h, fun _ _ _ => rfl, ⟨[], rfl⟩, fun _ _ _ => rfl,
      fun h => absurd rfl h⟩
  | cons c calls ih =>
    intro st ownP d hu
    obtain ⟨p, f, fl⟩ := c
    obtain ⟨c1, st1, own1, h1, d1, ext1, foot1, regs1, sub1, out1⟩ :=
      pdtMap_full d p f fl (hu (p, f, fl) List.mem_cons_self)
    simp only [seqCalls, ne_eq, not_true_eq_false, if_false, pdtMp]
    rw [h1]
    simp only
    by_cases hc : c1 = 0
    · subst hc
      obtain ⟨c2, st2, own2, h2, d2, regs2, ext2, foot2, sub2, ok2, err2⟩ :=
        ih st1 own1 d1 (fun c hc => hu c (List.mem_cons_of_mem _ hc))
      refine ⟨c2, st2, own2, h2, d2, regs1.trans regs2, fun F x h => ext2 F x (ext1 F x h), ?_, ?_, ?_, err2⟩
      · intro F j hF
        have : own1 F = none := by
          cases hx : own1 F with
          | none => rfl
          | some x => rw [ext2 F x hx] at hF; cases hF
        rw [foot2 F j hF, foot1 F j this]
      · obtain ⟨u1, hu1⟩ := sub1; obtain ⟨u2, hu2⟩ := sub2
        exact ⟨u1 ++ u2, by rw [hu1, hu2, List.append_assoc]⟩
      · intro hc2 va' hu'
        rw [ok2 hc2 va' hu']
        simp only [applyCalls]
        apply applyCalls_congr_at
        unfold PdtOutcome at out1
        rcases out1 with ⟨_, _, h3⟩ | ⟨hne, _⟩
        · rw [h3 va' hu']; simp [absStep]
        · exact absurd rfl hne
    · refine ⟨c1, st1, own1, seqCalls_err _ _ _ _ hc, d1, regs1, ext1, foot1, sub1, fun h => absurd h hc, fun _ => ?_⟩
      unfold PdtOutcome at out1
      rcases out1 with ⟨h0, _⟩ | ⟨_, _, _, h4⟩
      · exact absurd h0 hc
      · rcases h4 with ⟨h, _⟩ | ⟨h, _⟩
        · exact Or.inl h
        · exact Or.inr h

/-! ### `PageDirectoryTable.Init` -/

theorem entWalk_idx_congr (m : Mem) (va va' : W) : ∀ (ls : List Nat) (T : W), (∀ L ∈ ls, kidx va L = kidx va' L) →
    entWalk m va ls T = entWalk m va' ls T := by
  intro ls
  induction ls with
  | nil => intro T _; rfl
  | cons L rest ih =>
    intro T h
    have hL := h L List.mem_cons_self
    have hr := fun T' => ih T' (fun L' hL' => h L' (List.mem_cons_of_mem _ hL'))
    cases rest with
    | nil => simp [entWalk, hL]
    | cons L' rest' =>
      rw [entWalk, entWalk, hL]
      simp only [hr]

theorem hwEntry_samePage (m : Mem) (R : W) {va va' : W} (h : SamePage va va') : hwEntry m R va = hwEntry m R va' := by
  unfold hwEntry
  apply entWalk_idx_congr
  intro L hL
  have : L < 4 := by
    have : L ∈ [0, 1, 2, 3] := hL
    simp at this; omega
  exact h.idx L this

/-- `Good` only depends on the words of the owned frames and of the active root's last entry -/
theorem Good.of_rd {st st' : St} {R : W} {own : Own} (g : Good st R own) (hcr3 : st'.cr3 = st.cr3)
    (hfree : st'.free = st.free) (hbk : ∀ f, st'.mem.backed f = st.mem.backed f)
    (hrd : ∀ F x, own F = some x → ∀ j, st'.mem.rd F j = st.mem.rd F j)
    (htop : st'.mem.rd (frameN (st.cr3 &&& hwMask)) 511 = st.mem.rd (frameN (st.cr3 &&& hwMask)) 511) :
    Good st' R own := by
  have hR := hrd _ _ g.owned.root 511
  refine ⟨⟨?_, ?_⟩, g.owned.congr hbk hrd, by rw [hcr3]; exact g.act, ?_, by rw [hfree]; exact g.nodup⟩
  · obtain ⟨a, b, c, d⟩ := g.win.top
    rw [hcr3]
    exact ⟨by rw [hbk]; exact a, by rw [htop]; exact b, by rw [htop]; exact c, by rw [htop]; exact d⟩
  · obtain ⟨a, b, c, d⟩ := g.win.self
    exact ⟨by rw [hbk]; exact a, by rw [hR]; exact b, by rw [hR]; exact c, by rw [hR]; exact d⟩
  · intro f hf
    rw [hfree] at hf
    obtain ⟨a1, a2, a3, a4⟩ := g.free f hf
    exact ⟨a1, by rw [hbk]; exact a2, a3, by rw [hcr3]; exact a4⟩

/-- ownership of a table that consists of its root only -/
def ownRoot (P : W) : Own := fun F => if F = P.toNat then some (0, []) else none

/-- a frame that is zero except for a recursive last entry is a well-formed (empty) address space -/
theorem Owned.root_only {m : Mem} {P : W} (hfo : FrameOK P) (hb : m.backed P.toNat = true)
    (hz : ∀ j, j ≠ 511 → m.rd P.toNat j = 0#64) (h511 : m.rd P.toNat 511 &&& 128#64 = 0#64) :
    Owned m (P <<< 12) (ownRoot P) := by
  have hfN := frameN_shl12 hfo
  refine ⟨by simp [ownRoot, hfN], ?_, ?_, ?_, ?_, ?_, ?_⟩
  · intro F G x hF hG
    simp only [ownRoot] at hF hG
    by_cases h1 : F = P.toNat <;> by_cases h2 : G = P.toNat <;> simp_all
  · intro F x hF; simp only [ownRoot] at hF
    by_cases h1 : F = P.toNat
    · rw [h1]; exact hb
    · simp [h1] at hF
  · intro F L pre hF; simp only [ownRoot] at hF
    by_cases h1 : F = P.toNat <;> simp [h1] at hF; omega
  · intro F L pre i hF _; simp only [ownRoot] at hF
    by_cases h1 : F = P.toNat
    · rw [h1]
      by_cases hi : i = 511
      · rw [hi]; exact h511
      · rw [hz i hi]; decide
    · simp [h1] at hF
  · intro F L pre i hF _ hi hp; simp only [ownRoot] at hF
    by_cases h1 : F = P.toNat
    · simp [h1] at hF
      rw [h1] at hp
      by_cases h : i = 511
      · exact absurd ⟨hF.1.symm, h⟩ hi
      · rw [hz i h] at hp; exact absurd rfl hp
    · simp [h1] at hF
  · intro G L pre' hG; simp only [ownRoot] at hG
    by_cases h1 : G = P.toNat <;> simp [h1] at hG

/-- an address space that consists of its root only has no pages -/
theorem hwEntry_root_only {m : Mem} {P : W} (hfo : FrameOK P) (hz : ∀ j, j ≠ 511 → m.rd P.toNat j = 0#64)
    (va : W) (hu : UserVA va) : hwEntry m (P <<< 12) va = none := by
  unfold hwEntry
  rw [lv_cons 0 (by omega)]
  apply entWalk_absent
  rw [frameN_shl12 hfo, hz _ hu]; decide

theorem tempL_facts : UserVA (tempVA + lastEntryOff) ∧ SamePage (tempVA + lastEntryOff) tempVA ∧
    (tempVA + lastEntryOff) &&& 0xfff#64 = lastEntryOff := by
  refine ⟨by unfold UserVA; decide, by unfold SamePage; decide, by decide⟩

/-- what a successful `PageDirectoryTable.Init` of a fresh frame `P` establishes -/
structure InitPost (st st' : St) (A P : W) (ownA ownA' : Own) : Prop where
  dual : Dual st' A P ownA' (ownRoot P)
  empty : ∀ va, UserVA va → hwEntry st'.mem (P <<< 12) va = none
  active : ∀ va, UserVA va → hwEntry st'.mem (A <<< 12) va =
    if SamePage va tempVA then none else hwEntry st.mem (A <<< 12) va
  ext : ∀ F x, ownA F = some x → ownA' F = some x
  sub : ∃ used, st.free = used ++ st'.free
  regs : SameRegs st st'

set_option maxHeartbeats 1000000 in
/-- **`PageDirectoryTable.Init` of a fresh frame** (RAM, < 2^40, not a table, not in the allocator, not
the active root): either the temporary mapping cannot get its tables (allocator error, returned), or
`P` becomes a well-formed, empty address space disjoint from the active one, whose entries are
unchanged except that the temporary page ends unmapped. -/
theorem pdtInit_full {st : St} {A P : W} {ownA : Own} (g : Good st (A <<< 12) ownA) (hcr3 : st.cr3 = A <<< 12)
    (hfa : FrameOK A) (hfo : FrameOK P) (hpb : st.mem.backed P.toNat = true) (hpn : ownA P.toNat = none)
    (hpf : ∀ f ∈ st.free, f.toNat ≠ P.toNat) (hpa : P.toNat ≠ A.toNat) (htf : st.tmpFail = false)
    (hz : (st.protect && P == st.zeroFrame) = false) :
    ∃ code st', pdtInit st P = .ok (code, st') ∧
      ((code = 0 ∧ ∃ ownA', InitPost st st' A P ownA ownA') ∨ (code = eAlloc ∧ st'.free = [] ∧ st'.cr3 = st.cr3)) := by
  have hcm : st.cr3 &&& hwMask = A <<< 12 := by rw [hcr3, shl12_and_hwMask hfa]
  have hfNA := frameN_shl12 hfa
  have hfNP := frameN_shl12 hfo
  have hne : (frameAddr P == st.cr3) = false := by
    cases hb : frameAddr P == st.cr3 with
    | false => rfl
    | true =>
      have : P <<< 12 = A <<< 12 := by rw [← hcr3]; exact eq_of_beq hb
      exact absurd (congrArg BitVec.toNat (shl12_inj hfo hfa this)) hpa
  have hut : UserVA (pageAddr (pageOf tempVA)) := by rw [tempVA_page]; exact userVA_temp
  obtain ⟨code, st2, own2, hm, post, out⟩ := mapOp_full g (pageOf tempVA) P (fPresent ||| fRW) hut
  rw [tempVA_page] at post out
  have hmt : mapTemporaryFn st P =
      (if code ≠ 0 then .ok ((code, 0), st2) else .ok ((0, pageOf tempVA), st2)) := by
    simp only [mapTemporaryFn, htf, Bool.false_eq_true, if_false, mapTemporary, hz, hm]
  unfold pdtInit
  simp only [hne, Bool.false_eq_true, if_false, hmt]
  rcases out with (⟨rfl, _, has2⟩ | ⟨rfl, hfe, _, _⟩) | ⟨_, _, hp, hzz, _⟩
  rotate_left
  · exact ⟨eAlloc, st2, by simp [eAlloc], Or.inr ⟨rfl, hfe, post.regs.cr3⟩⟩
  · exfalso
    have : (st.protect && P == st.zeroFrame) = true := by simp [hp, hzz]
    rw [hz] at this; cases this
  simp only [ne_eq, not_true_eq_false, if_false, tempVA_page]
  -- facts about st2
  have hpn2 : own2 P.toNat = none := by
    cases hx : own2 P.toNat with
    | none => rfl
    | some x =>
      obtain ⟨f, hf, hfe⟩ := post.newfree _ hpn (by rw [hx]; simp)
      exact absurd hfe (hpf f hf)
  have hcr2 : st2.cr3 &&& hwMask = A <<< 12 := by rw [post.regs.cr3]; exact hcm
  have hfl3 : FlagsOK (fPresent ||| fRW) := by unfold FlagsOK; decide
  have hpres3 : mkEntry P (fPresent ||| fRW) &&& 1#64 ≠ 0#64 := by rw [mkEntry_low 1#64 (by decide)]; decide
  have hasT2 : hwEntry st2.mem (A <<< 12) tempVA = some (mkEntry P (fPresent ||| fRW)) := by
    rw [has2 tempVA userVA_temp, if_pos (show SamePage tempVA tempVA from rfl), if_neg hpres3]
  have hmmuT : mmu st2.mem st2.cr3 tempVA = some (P <<< 12) := by
    unfold mmu
    rw [hcr2, mmuWalk_eq_hwEntry post.good.owned userVA_temp, hasT2]
    have h2 : tempVA &&& 0xfff#64 = 0#64 := by decide
    simp [mkEntry_frame hfo hfl3, h2]
  have hcN : ((P <<< 12) >>> 12).toNat = P.toNat := hfNP
  have hbk2 : st2.mem.backed P.toNat = true := by rw [post.regs.backed]; exact hpb
  have hal : (P <<< 12) &&& 0xfff#64 = 0#64 := shl12_and_low _ (by decide)
  have hms : memsetPage st2 tempVA = .ok { st2 with mem := st2.mem.setFrame P.toNat (fun _ => 0) } := by
    unfold memsetPage
    rw [hmmuT]
    simp only [hcN, hbk2, hal, beq_self_eq_true, Bool.and_self, if_true]
  rw [hms]
  simp only
  let st3 : St := { st2 with mem := st2.mem.setFrame P.toNat (fun _ => 0) }
  have hown2P : ∀ F x, own2 F = some x → F ≠ P.toNat := fun F x hF h => by rw [h, hpn2] at hF; cases hF
  have hAP2 : frameN (st2.cr3 &&& hwMask) ≠ P.toNat := by rw [hcr2, hfNA]; exact Ne.symm hpa
  have g3 : Good st3 (A <<< 12) own2 := by
    refine post.good.of_rd rfl rfl (fun _ => rfl) (fun F x hF j => ?_) ?_
    · simp only [st3, rd_setFrame, if_neg (Ne.symm (hown2P F x hF))]
    · simp only [st3, rd_setFrame, if_neg (Ne.symm hAP2)]
  have has3 : ∀ va', UserVA va' → hwEntry st3.mem (A <<< 12) va' = hwEntry st2.mem (A <<< 12) va' := fun va' hu' =>
    hwEntry_congr_owned (m' := st3.mem) post.good.owned (fun _ => rfl)
      (fun F x hF j => by simp only [st3, rd_setFrame, if_neg (Ne.symm (hown2P F x hF))]) va' hu'
  -- the last entry of the new root, through the temporary page
  obtain ⟨tu, tsp, toff⟩ := tempL_facts
  have hpp : ptePtr st3 (tempVA + lastEntryOff) = some (P.toNat, 511) := by
    unfold ptePtr mmu
    rw [show st3.cr3 &&& hwMask = A <<< 12 from hcr2, mmuWalk_eq_hwEntry g3.owned tu, hwEntry_samePage _ _ tsp,
      has3 tempVA userVA_temp, hasT2]
    simp only [Option.map, mkEntry_frame hfo hfl3, toff]
    exact physLoc_last (st := st3) hfo (by simpa [st3] using hbk2)
  rw [show ({ st2 with mem := st2.mem.setFrame P.toNat (fun _ => 0) } : St) = st3 from rfl, hpp]
  simp only
  let st4 : St := st3.wrLoc (P.toNat, 511) (setFrame (setFlags 0 (fPresent ||| fRW)) P)
  have g4 : Good st4 (A <<< 12) own2 := by
    refine g3.of_rd rfl rfl (fun _ => rfl) (fun F x hF j => ?_) ?_
    · simp only [st4, St.wrLoc, rd_wr]; rw [if_neg (fun h => (hown2P F x hF) h.1.symm)]
    · simp only [st4, St.wrLoc, rd_wr]; rw [if_neg (fun h => hAP2 h.1.symm)]
  have has4 : ∀ va', UserVA va' → hwEntry st4.mem (A <<< 12) va' = hwEntry st3.mem (A <<< 12) va' := fun va' hu' =>
    hwEntry_congr_owned (m' := st4.mem) g3.owned (fun _ => rfl)
      (fun F x hF j => by simp only [st4, St.wrLoc, rd_wr]; rw [if_neg (fun h => (hown2P F x hF) h.1.symm)]) va' hu'
  obtain ⟨ucode, st5, hum, uout⟩ := unmapOp_full g4 (pageOf tempVA) hut
  rw [tempVA_page] at uout
  rw [show (st3.wrLoc (P.toNat, 511) (setFrame (setFlags 0 (fPresent ||| fRW)) P)) = st4 from rfl, hum]
  rcases uout with ⟨rfl, g5, r5, f5, _, foot5, _, as5⟩ | ⟨_, _, hnone⟩
  rotate_left
  · exfalso; rw [has4 tempVA userVA_temp, has3 tempVA userVA_temp, hasT2] at hnone; cases hnone
  refine ⟨0, st5, rfl, Or.inl ⟨rfl, own2, ?_⟩⟩
  -- the new root's words
  have hrdP : ∀ j, st5.mem.rd P.toNat j =
      if j = 511 then setFrame (setFlags 0 (fPresent ||| fRW)) P else 0#64 := by
    intro j
    rw [foot5 _ _ hpn2]
    simp only [st4, st3, St.wrLoc, rd_wr, rd_setFrame]
    by_cases hj : j = 511
    · simp [hj]
    · have h1 : ¬ 511 = j := fun h => hj h.symm
      simp [hj, h1]
  have hzP : ∀ j, j ≠ 511 → st5.mem.rd P.toNat j = 0#64 := fun j hj => by rw [hrdP, if_neg hj]
  have h511 : st5.mem.rd P.toNat 511 = setFrame (setFlags 0 (fPresent ||| fRW)) P := by rw [hrdP, if_pos rfl]
  have hbk5 : st5.mem.backed P.toNat = true := by
    rw [r5.backed]; simpa [st4, st3, St.wrLoc] using hbk2
  have hcr5 : st5.cr3 = A <<< 12 := by rw [r5.cr3]; show st2.cr3 = _; rw [post.regs.cr3]; exact hcr3
  have hpl : Link st5.mem (P <<< 12) 511 (P <<< 12) := by
    refine ⟨by rw [hfNP]; exact hbk5, ?_, ?_, ?_⟩ <;> rw [hfNP, h511]
    · rw [setFrame_and_low _ _ _ (by decide)]; decide
    · rw [setFrame_and_low _ _ _ (by decide)]; decide
    · exact setFrame_frame _ hfo
  have hfree5 : ∀ f ∈ st5.free, f ∈ st.free := by
    obtain ⟨used, hused⟩ := post.sub
    intro f hf; rw [hused]; apply List.mem_append_right; rw [f5] at hf; exact hf
  refine ⟨⟨g5, ⟨hcr5, hfa, hfo, Ne.symm hpa, g5.win.self, hpl⟩, ?_, ?_, ?_⟩, ?_, ?_, post.ext, ?_, ?_⟩
  · refine Owned.root_only hfo hbk5 hzP ?_
    rw [h511, setFrame_and_low _ _ _ (by decide)]; decide
  · intro F hF
    simp only [ownRoot]
    rw [if_neg]; intro h; rw [h, hpn2] at hF; exact hF rfl
  · intro f hf
    simp only [ownRoot]
    rw [if_neg (hpf f (hfree5 f hf))]
  · exact fun va hu => hwEntry_root_only hfo hzP va hu
  · intro va hu
    rw [as5 va hu]
    by_cases ht : SamePage va tempVA
    · rw [if_pos ht, if_pos ht]
    · rw [if_neg ht, if_neg ht, has4 va hu, has3 va hu, has2 va hu, if_neg ht]
  · obtain ⟨used, hused⟩ := post.sub
    exact ⟨used, by rw [hused]; congr 1; exact f5.symm⟩
  · exact post.regs.trans (SameRegs.trans (b := st3) ⟨rfl, rfl, rfl, rfl, rfl, rfl, fun _ => rfl⟩
      (SameRegs.trans (b := st4) ⟨rfl, rfl, rfl, rfl, rfl, rfl, fun _ => rfl⟩ r5))

/-! ### copying the early reservations -/

theorem pageAddr_pageOf_toNat (x : W) : (pageAddr (pageOf x)).toNat = x.toNat / 4096 * 4096 := by
  have hps : pageSizeW - 1 = 4096#64 - 1 := by decide
  have := x.isLt
  unfold pageAddr pageOf
  rw [hps, show pageShift = 12 from rfl, BitVec.toNat_shiftLeft, Firefly.Bits.toNat_ushr12,
    Firefly.Bits.toNat_and_mask12, Nat.shiftLeft_eq]
  omega

theorem samePage_pageOf (x : W) : SamePage (pageAddr (pageOf x)) x := by
  unfold SamePage
  apply (idxs_eq_iff _ _ 4).2
  intro k hk
  have h := pageAddr_pageOf_toNat x
  have hk' : k = 0 ∨ k = 1 ∨ k = 2 ∨ k = 3 := by omega
  unfold kidx
  rw [h]
  rcases hk' with rfl | rfl | rfl | rfl <;> simp <;> omega

theorem userVA_pageOf {x : W} (h : UserVA x) : UserVA (pageAddr (pageOf x)) := by
  unfold UserVA at h ⊢
  rw [(samePage_pageOf x).idx 0 (by omega)]; exact h

/-- the page addresses the reservation loop visits -/
def resAddrs (a : W) : Nat → List W
  | 0 => []
  | n + 1 => a :: resAddrs (a + pageSizeW) n

/-- the mapping request the loop issues for address `a`, given the active address space `m, A` -/
def resCall (m : Mem) (A a : W) : W × W × W :=
  (pageOf a,
   (match hwEntry m (A <<< 12) a with
    | some e => ((e &&& hwMask) + (a &&& 0xfff#64)) >>> pageShift
    | none => 0),
   fPresent ||| fRW)

/-- **The reservation-copy loop of `setupPDTForKernel`**: for each reserved page, in order, `Translate`
in the active address space and `PageDirectoryTable.Map` of the translated frame, Present|RW, into
the new table; stops at the first error (`ErrInvalidMapping` if a reserved page is not mapped, the
allocator's error).  On success the new address space is the old one with those requests applied;
the active address space and all memory outside the new tree are untouched. -/
theorem copyRes_full {A P : W} {ownA : Own} (n : Nat) : ∀ (a : W) (st : St) (ownP : Own),
    Dual st A P ownA ownP → (∀ x ∈ resAddrs a n, UserVA x) →
    ∃ code st' ownP', copyReservations P n a st = .ok (code, st') ∧ Dual st' A P ownA ownP' ∧
      SameRegs st st' ∧ (∀ F x, ownP F = some x → ownP' F = some x) ∧
      (∀ F j, ownP' F = none → st'.mem.rd F j = st.mem.rd F j) ∧ (∃ used, st.free = used ++ st'.free) ∧
      (code = 0 → (∀ x ∈ resAddrs a n, hwEntry st.mem (A <<< 12) x ≠ none) ∧
        ∀ va', UserVA va' → hwEntry st'.mem (P <<< 12) va' =
          applyCalls (hwEntry st.mem (P <<< 12)) ((resAddrs a n).map (resCall st.mem A)) va') ∧
      (code ≠ 0 → code = eInvalidMapping ∨ code = eAlloc ∨ code = eRWZero) := by
  induction n with
  | zero =>
    intro a st ownP d _
    exact ⟨0, st, ownP, rfl, d, SameRegs.refl _, fun _ _ h => h, fun _ _ _ => rfl, ⟨[], rfl⟩,
      fun _ => ⟨(fun x hx => by cases hx), fun _ _ => rfl⟩, fun h => absurd rfl h⟩
  | succ n ih =>
    intro a st ownP d hu
    have hua := hu a List.mem_cons_self
    have htr := translate_abs d.ga a hua
    simp only [copyReservations]
    rw [htr]
    cases he : hwEntry st.mem (A <<< 12) a with
    | none =>
      refine ⟨eInvalidMapping, st, ownP, by simp [eInvalidMapping], d, SameRegs.refl _, fun _ _ h => h, fun _ _ _ => rfl,
        ⟨[], rfl⟩, fun h => by simp [eInvalidMapping] at h, fun _ => Or.inl rfl⟩
    | some e =>
      simp only [ne_eq, not_true_eq_false, if_false]
      obtain ⟨c1, st1, own1, h1, d1, ext1, foot1, regs1, sub1, out1⟩ :=
        pdtMap_full d (pageOf a) (((e &&& hwMask) + (a &&& 0xfff#64)) >>> pageShift) (fPresent ||| fRW) (userVA_pageOf hua)
      rw [h1]
      simp only
      -- the active address space is as before
      have hA1 : ∀ va', UserVA va' → hwEntry st1.mem (A <<< 12) va' = hwEntry st.mem (A <<< 12) va' := fun va' hu' =>
        hwEntry_congr_owned (m' := st1.mem) d.ga.owned regs1.backed
          (fun F x hF j => foot1 F j (d1.disj F (by rw [hF]; simp))) va' hu'
      by_cases hc : c1 = 0
      · subst hc
        simp only [ne_eq, not_true_eq_false, if_false]
        obtain ⟨c2, st2, own2, h2, d2, regs2, ext2, foot2, sub2, ok2, err2⟩ :=
          ih (a + pageSizeW) st1 own1 d1 (fun x hx => hu x (List.mem_cons_of_mem _ hx))
        refine ⟨c2, st2, own2, h2, d2, regs1.trans regs2, fun F x h => ext2 F x (ext1 F x h), ?_, ?_, ?_, err2⟩
        · intro F j hF
          have : own1 F = none := by
            cases hx : own1 F with
            | none => rfl
            | some x => rw [ext2 F x hx] at hF; cases hF
          rw [foot2 F j hF, foot1 F j this]
        · obtain ⟨u1, hu1⟩ := sub1; obtain ⟨u2, hu2⟩ := sub2
          exact ⟨u1 ++ u2, by rw [hu1, hu2, List.append_assoc]⟩
        · intro hc2
          obtain ⟨hm2, has2⟩ := ok2 hc2
          refine ⟨?_, fun va' hu' => ?_⟩
          · intro x hx
            rcases List.mem_cons.1 hx with rfl | hx'
            · rw [he]; simp
            · rw [← hA1 x (hu x (List.mem_cons_of_mem _ hx'))]; exact hm2 x hx'
          · rw [has2 va' hu']
            simp only [resAddrs, List.map_cons, applyCalls]
            have hcalls : (resAddrs (a + pageSizeW) n).map (resCall st1.mem A) =
                (resAddrs (a + pageSizeW) n).map (resCall st.mem A) := by
              apply List.map_congr_left
              intro x hx
              simp only [resCall, hA1 x (hu x (List.mem_cons_of_mem _ hx))]
            rw [hcalls]
            apply applyCalls_congr_at
            unfold PdtOutcome at out1
            rcases out1 with ⟨_, _, h3⟩ | ⟨hne, _⟩
            · rw [h3 va' hu']
              simp only [resCall, he, absStep, ne_eq, not_true_eq_false, if_false]
            · exact absurd rfl hne
      · refine ⟨c1, st1, own1, by simp [hc], d1, regs1, ext1, foot1, sub1, fun h => absurd h hc, fun _ => ?_⟩
        unfold PdtOutcome at out1
        rcases out1 with ⟨h0, _⟩ | ⟨_, _, _, h4⟩
        · exact absurd h0 hc
        · rcases h4 with ⟨h, _⟩ | ⟨h, _⟩
          · exact Or.inr (Or.inl h)
          · exact Or.inr (Or.inr h)

/-! ### `setupPDTForKernel` -/

/-- number of reserved pages the copy loop visits -/
def resCount (cursor : W) : Nat :=
  if cursor < tempVA then ((tempVA - cursor).toNat + (pageSize - 1)) / pageSize else 0

/-- all mapping requests of `setupPDTForKernel`, in order: the sections', then the reservations' -/
def setupCalls (m : Mem) (A off cursor : W) (secs : List Section) : List (W × W × W) :=
  allSectionCalls off secs ++ (resAddrs cursor (resCount cursor)).map (resCall m A)

set_option maxHeartbeats 1000000 in
/-- **`setupPDTForKernel`, at the level of address spaces.**  Boot address space well formed
(`Good`, CR3 = `A<<12`), guard not yet armed, temporary mapping not refused; the pages of the sections
(with `addr ≥ off`) and the reserved pages lie outside the recursive slot, reserved pages are not the
temporary page.  Then the call never faults and either returns an error without switching CR3, or
returns 0 and: CR3 = `P<<12` where `P` is the first frame the allocator handed out (= `kernelPDT`),
the tables of `P` form a well-formed tree, every reserved page was mapped in the boot address space,
and the new address space is exactly the empty one with the requests `setupCalls` applied in order. -/
theorem setup_full {st : St} {A : W} {ownA : Own} (g : Good st (A <<< 12) ownA) (hcr3 : st.cr3 = A <<< 12)
    (hfa : FrameOK A) (htf : st.tmpFail = false) (hprot : st.protect = false) (off : W) (secs : List Section)
    (husec : ∀ c ∈ allSectionCalls off secs, UserVA (pageAddr c.1))
    (hures : ∀ x ∈ resAddrs st.cursor (resCount st.cursor), UserVA x ∧ ¬SamePage x tempVA) :
    ∃ code st', setupPDTForKernel st off secs = .ok (code, st') ∧
      (code = 0 → ∃ P rest ownP', st.free = P :: rest ∧ st'.cr3 = P <<< 12 ∧ st'.kpdt = P ∧ FrameOK P ∧
        Owned st'.mem (P <<< 12) ownP' ∧
        (∀ x ∈ resAddrs st.cursor (resCount st.cursor), hwEntry st.mem (A <<< 12) x ≠ none) ∧
        ∀ va, UserVA va → hwEntry st'.mem (P <<< 12) va =
          applyCalls (fun _ => none) (setupCalls st.mem A off st.cursor secs) va) ∧
      (code ≠ 0 → st'.cr3 = st.cr3 ∧ (code = eAlloc ∨ code = eInvalidMapping ∨ code = eRWZero)) := by
  unfold setupPDTForKernel
  cases hfree : st.free with
  | nil =>
    refine ⟨eAlloc, st, by simp [allocFrame, hfree], fun h => by simp [eAlloc] at h, fun _ => ⟨rfl, Or.inl rfl⟩⟩
  | cons P rest =>
    have halloc : allocFrame st = some (P, { st with free := rest, allocs := st.allocs + 1 }) := by
      simp [allocFrame, hfree]
    simp only [halloc]
    let st1 : St := { st with free := rest, allocs := st.allocs + 1, kpdt := P }
    obtain ⟨hfo, hpb, hpn, hpA⟩ := g.free P (by rw [hfree]; exact List.mem_cons_self)
    have hcm : st.cr3 &&& hwMask = A <<< 12 := by rw [hcr3, shl12_and_hwMask hfa]
    have hnd := g.nodup
    rw [hfree, List.map_cons, List.nodup_cons] at hnd
    have g1 : Good st1 (A <<< 12) ownA := by
      have gp := g.pop hfree (st.allocs + 1)
      exact ⟨⟨gp.win.top, gp.win.self⟩, gp.owned, gp.act, gp.free, gp.nodup⟩
    have hz1 : (st1.protect && P == st1.zeroFrame) = false := by
      show (st.protect && P == st.zeroFrame) = false
      rw [hprot]; rfl
    obtain ⟨c2, st2, hi, out2⟩ := pdtInit_full (st := st1) g1 hcr3 hfa hfo hpb hpn
      (fun f hf h => hnd.1 (by rw [← h]; exact List.mem_map_of_mem hf))
      (by rw [hcm, frameN_shl12 hfa] at hpA; exact hpA) htf hz1
    rw [show ({ st with free := rest, allocs := st.allocs + 1, kpdt := P } : St) = st1 from rfl, hi]
    simp only
    rcases out2 with ⟨rfl, ownA2, ip⟩ | ⟨rfl, _, hcrf⟩
    rotate_left
    · exact ⟨eAlloc, st2, by simp [eAlloc], fun h => by simp [eAlloc] at h, fun _ => ⟨hcrf, Or.inl rfl⟩⟩
    simp only [ne_eq, not_true_eq_false, if_false]
    -- sections
    have hvs : visitSections P off secs 0 st2 = seqCalls (pdtMp P) (allSectionCalls off secs) 0 st2 :=
      visitSectionsG_eq _ off secs 0 st2
    obtain ⟨c3, st3, own3, h3, d3, regs3, ext3, foot3, sub3, ok3, err3⟩ :=
      pdtSeq_full (allSectionCalls off secs) st2 (ownRoot P) ip.dual husec
    rw [hvs, h3]
    simp only
    have hcr2 : st2.cr3 = st.cr3 := by rw [ip.regs.cr3]
    have hcr3' : st3.cr3 = st.cr3 := by rw [regs3.cr3, hcr2]
    by_cases hc3 : c3 = 0
    rotate_left
    · refine ⟨c3, st3, by simp [hc3], fun h => absurd h hc3, fun _ => ⟨hcr3', ?_⟩⟩
      rcases err3 hc3 with h | h
      · exact Or.inl h
      · exact Or.inr (Or.inr h)
    subst hc3
    simp only [ne_eq, not_true_eq_false, if_false]
    -- reservations
    have hcur : st3.cursor = st.cursor := by rw [regs3.cursor, ip.regs.cursor]
    have hn : (if st3.cursor < tempVA then ((tempVA - st3.cursor).toNat + (pageSize - 1)) / pageSize else 0) =
        resCount st.cursor := by rw [hcur]; rfl
    rw [hn, hcur]
    obtain ⟨c4, st4, own4, h4, d4, regs4, ext4, foot4, sub4, ok4, err4⟩ :=
      copyRes_full (resCount st.cursor) st.cursor st3 own3 d3 (fun x hx => (hures x hx).1)
    rw [h4]
    simp only
    by_cases hc4 : c4 = 0
    rotate_left
    · refine ⟨c4, st4, by simp [hc4], fun h => absurd h hc4, fun _ => ⟨by rw [regs4.cr3, hcr3'], ?_⟩⟩
      rcases err4 hc4 with h | h | h
      · exact Or.inr (Or.inl h)
      · exact Or.inl h
      · exact Or.inr (Or.inr h)
    subst hc4
    simp only [ne_eq, not_true_eq_false, if_false]
    -- the active address space seen by the reservation loop is the boot one
    have hA3 : ∀ x, UserVA x → ¬SamePage x tempVA → hwEntry st3.mem (A <<< 12) x = hwEntry st.mem (A <<< 12) x := by
      intro x hux hnt
      have e32 : hwEntry st3.mem (A <<< 12) x = hwEntry st2.mem (A <<< 12) x :=
        hwEntry_congr_owned (m' := st3.mem) ip.dual.ga.owned regs3.backed
          (fun F y hF j => foot3 F j (d3.disj F (by rw [hF]; simp))) x hux
      rw [e32, ip.active x hux, if_neg hnt]
    obtain ⟨hmapped, has4⟩ := ok4 rfl
    refine ⟨0, pdtActivate st4 P, rfl, fun _ => ⟨P, rest, own4, rfl, rfl, ?_, hfo, d4.op, ?_, ?_⟩, fun h => absurd rfl h⟩
    · show st4.kpdt = P
      rw [regs4.kpdt, regs3.kpdt, ip.regs.kpdt]
    · intro x hx
      rw [← hA3 x (hures x hx).1 (hures x hx).2]; exact hmapped x hx
    · intro va hu
      show hwEntry st4.mem (P <<< 12) va = _
      rw [has4 va hu]
      unfold setupCalls
      rw [applyCalls_append]
      have hcalls : (resAddrs st.cursor (resCount st.cursor)).map (resCall st3.mem A) =
          (resAddrs st.cursor (resCount st.cursor)).map (resCall st.mem A) := by
        apply List.map_congr_left
        intro x hx
        simp only [resCall, hA3 x (hures x hx).1 (hures x hx).2]
      rw [hcalls]
      apply applyCalls_congr_at
      rw [ok3 rfl va hu]
      apply applyCalls_congr_at
      exact ip.empty va hu

/-! ### reading the result -/

theorem sectionFlags_present (sf : W) : sectionFlags sf &&& 1#64 ≠ 0#64 := by
  rw [sectionFlags_cases]
  by_cases h4 : (sf &&& 4#64) = 0#64 <;> by_cases h1 : (sf &&& 1#64) = 0#64 <;> simp [h4, h1] <;> decide

/-- a translated address, shifted back to a frame number, is the entry's frame field -/
theorem frame_roundtrip (e o : W) (ho : o.toNat < 4096) :
    FrameOK (((e &&& hwMask) + o) >>> pageShift) ∧ (((e &&& hwMask) + o) >>> pageShift) <<< 12 = e &&& hwMask := by
  have h := and_hwMask_toNat e
  have he := e.isLt
  have hsum : ((e &&& hwMask) + o).toNat = (e &&& hwMask).toNat + o.toNat := by
    rw [BitVec.toNat_add, h]; omega
  constructor
  · unfold FrameOK
    simp only [pageShift, BitVec.toNat_ushiftRight, Nat.shiftRight_eq_div_pow, hsum, h]; omega
  · apply BitVec.eq_of_toNat_eq
    simp only [pageShift, BitVec.toNat_shiftLeft, BitVec.toNat_ushiftRight, Nat.shiftRight_eq_div_pow, Nat.shiftLeft_eq,
      hsum, h]
    omega

/-- the request for page `i` of a section is among the section requests -/
theorem sectionCall_mem (off : W) (secs : List Section) (s : Section) (hs : s ∈ secs) (hoff : ¬ s.addr < off)
    (i : Nat) (hi : i < sectionPageCount s) :
    (pageOf s.addr + BitVec.ofNat 64 i, ((s.addr - off) >>> pageShift) + BitVec.ofNat 64 i, sectionFlags s.flags) ∈
      allSectionCalls off secs := by
  unfold allSectionCalls
  rw [List.mem_flatMap]
  refine ⟨s, List.mem_filter.2 ⟨hs, by simp [hoff]⟩, ?_⟩
  unfold sectionCalls
  rw [List.mem_map]
  refine ⟨(pageOf s.addr + BitVec.ofNat 64 i, ((s.addr - off) >>> pageShift) + BitVec.ofNat 64 i), ?_, rfl⟩
  have := run_get (pageOf s.addr) ((s.addr - off) >>> pageShift) (sectionPageCount s) i hi
  exact List.mem_of_getElem? this

end Firefly.Vmm
