import Firefly.Proof.AmlObjRt
import Firefly.Proof.AmlKids
/-!
Declaration-level round trip (`C11`): the first pass on a `Name` declaration creates the `Name` object under the
current scope with its name-path argument carrying the encoded path.
-/
namespace Firefly.AmlParser.F
open Firefly.AmlLex Firefly.AmlTree Firefly.C13 Firefly.AmlParser Firefly.AmlParser.G Firefly.AmlParser.S
open Firefly.Gen.C12

/-- a one-byte opcode -/
theorem nextOpcode_one (d : Bytes) (o pe : Nat) (b : UInt8) (hb : d[o]? = some b) (hlt : o < pe)
    (hne : b.toNat ≠ extOpPrefix) (hok : pOpcodeTableIndex b.toNat false ≠ badOpcode) :
    nextOpcode d { offset := o, pkgEnd := pe } = .ok ((b.toNat, PRes.ok), { offset := o + 1, pkgEnd := pe }) := by
  have hne0 : (decide (pe ≤ o)) = false := by simp; omega
  unfold nextOpcode checkOpcode
  simp only [bind, StateT.bind, readByte, Reader.eof, hne0, hb, pure, Except.pure, Except.bind, Bool.false_eq_true, ↓reduceIte,
    hne, hok, StateT.pure]

set_option maxRecDepth 20000 in
/-- the table row of `Name`: a name string and a data object -/
theorem name_row : pOpcodeTableIndex 8 false ≠ badOpcode ∧ InfoOK (pOpcodeTableIndex 8 true) ∧
    argCnt (pOpcodeTableIndex 8 true) = 2 ∧ argAt (pOpcodeTableIndex 8 true) 0 = argTypeNameString ∧
    argAt (pOpcodeTableIndex 8 true) 1 = argTypeDataRefObj ∧ (8 : Nat) ≠ pOpIntFreedObject := by
  unfold InfoOK
  decide +kernel

/-- what a declaration step of the first pass does to the objects that existed: they stay, under the same parents and
with the same payload; only the innermost scope block `top` gets a new last child `x` -/
structure OldKept (s s' : PState) (top x : Nat) : Prop where
  lv : ∀ y, live s.tree y = true → live s'.tree y = true
  par : ∀ y, live s.tree y = true → C13.P s'.tree y = C13.P s.tree y
  pay : ∀ y, live s.tree y = true → Pay (slot s'.tree y) = Pay (slot s.tree y)
  kids : ∀ y, live s.tree y = true → K s'.tree y = if y = top then K s.tree y ++ [x] else K s.tree y

/-- the objects a `Name` declaration creates in the first pass: the `Name` object `x` and its name path `c` -/
structure NameDecl (d : Bytes) (s s' : PState) (x c off len : Nat) : Prop where
  fp : FP d s'
  nx : live s.tree x = false
  nc : live s.tree c = false
  lx : live s'.tree x = true
  lc : live s'.tree c = true
  opx : (slot s'.tree x).opcode = 8
  infx : (slot s'.tree x).infoIndex = pOpcodeTableIndex 8 true
  thx : (slot s'.tree x).tableHandle = s.tableHandle
  opc : (slot s'.tree c).opcode = opIntNamePath
  infc : (slot s'.tree c).infoIndex = pOpcodeTableIndex opIntNamePath true
  thc : (slot s'.tree c).tableHandle = s.tableHandle
  valc : (slot s'.tree c).value = .bytes off len
  kx : K s'.tree x = [c]
  kc : K s'.tree c = []
  px : C13.P s'.tree x = topOf s
  pc : C13.P s'.tree c = x
  rest : SameRest s s'
  old : OldKept s s' (topOf s) x
  size : s'.tree.pool.size ≤ s.tree.pool.size + 2

/-- **the first pass on a `Name` declaration**: with the reader at the bytes `08 <NameString>` inside the current package,
`parseNextObject` (skip mode) succeeds; it creates a `Name` object `x` as the last child of the innermost scope block and a
name-path object `c` as its only argument, whose value is the `[]byte` covering exactly the encoded path; the reader stands
behind the name (the data object that follows is parsed as the next object), the scope stack is unchanged and the pool is
well-formed -/
theorem name_decl_first_pass {d : Bytes} (hd : d.size + 1024 ≤ 4294967296) (f : Nat) {s : PState} (h : FP d s)
    (hsk : s.allBlocks = false) (hne : s.scopeStack.size ≠ 0) (hsz : s.tree.pool.size + 2 < INV)
    (root : Bool) (carets : Nat) (segs : List (List UInt8)) (base pe : Nat) (hr : s.r = { offset := base, pkgEnd := pe })
    (hpe : pe ≤ d.size) (hok : NameOK segs) (hop : d[base]? = some 0x08)
    (henc : ∀ i, i < (encName root carets segs).length → d[base + 1 + i]? = (encName root carets segs)[i]?)
    (hfit : base + 1 + (encName root carets segs).length ≤ pe) :
    ∃ a s', parseNextObject d (f + 5) s = .ok (a, s') ∧ a = PRes.ok ∧ ∃ x c, FP d s' ∧
      live s.tree x = false ∧ live s.tree c = false ∧ live s'.tree x = true ∧ live s'.tree c = true ∧
      (slot s'.tree x).opcode = 8 ∧ C13.P s'.tree x = topOf s ∧ La s'.tree (topOf s) = x ∧
      Fi s'.tree x = c ∧ La s'.tree x = c ∧ C13.P s'.tree c = x ∧ (slot s'.tree c).opcode = opIntNamePath ∧
      (slot s'.tree c).value = .bytes (base + 1) ((encName root carets segs).length - (if segs = [] then 1 else 0)) ∧
      s'.r = { offset := base + 1 + (encName root carets segs).length, pkgEnd := pe } ∧ s'.scopeStack = s.scopeStack ∧
      (∀ y, live s.tree y = true → live s'.tree y = true ∧ C13.P s'.tree y = C13.P s.tree y) ∧
      NameDecl d s s' x c (base + 1) ((encName root carets segs).length - (if segs = [] then 1 else 0)) := by
  obtain ⟨r1, r2, r3, r4, r5, r6⟩ := name_row
  have w := h.tree.wf
  have hL : 1 ≤ (encName root carets segs).length := by
    rw [encName_eq, List.length_append]
    have : 1 ≤ (nameBody segs).length := by
      unfold nameBody
      obtain ⟨h4, _, _⟩ := hok
      match segs, h4 with
      | [], _ => simp
      | [s0], h4 => have := h4 s0 (List.mem_cons_self ..); show 1 ≤ s0.length; omega
      | [s0, t0], _ => simp
      | _ :: _ :: _ :: _, _ => simp
    omega
  unfold parseNextObject
  -- the offset and the opcode
  have e1 : lex offset s = .ok (base, s) := by
    have : offset s.r = .ok (base, s.r) := by rw [hr]; rfl
    have := lex_eq this
    rw [this]
  refine bind_ex e1 ?_
  have eop : lex (nextOpcode d) s = .ok (((8 : Nat), PRes.ok), { s with r := { offset := base + 1, pkgEnd := pe } }) := by
    apply lex_eq
    rw [hr]
    exact nextOpcode_one d base pe 0x08 hop (by omega) (by decide) r1
  refine bind_ex eop ?_
  generalize hs2 : ({ s with r := { offset := base + 1, pkgEnd := pe } } : PState) = s2
  have h2 : FP d s2 := by
    rw [← hs2]
    exact ⟨⟨by show base + 1 ≤ d.size; omega, hpe⟩, h.tree, h.scopes⟩
  have ht2 : s2.tree = s.tree := by rw [← hs2]
  have hsc2 : s2.scopeStack = s.scopeStack := by rw [← hs2]
  have hr2 : s2.r = { offset := base + 1, pkgEnd := pe } := by rw [← hs2]
  rw [if_neg (by decide), if_neg (by decide)]
  -- the `Name` object
  obtain ⟨x, s3, e3, h3, f3, hr3, hop3, hinfo3, _⟩ := newObject_step h2 8 (by rw [ht2]; omega) r6 r2
  refine bind_ex e3 ?_
  have hth3 : (slot s3.tree x).tableHandle = s.tableHandle := by rw [newObject_handle e3, ← hs2]
  have hobj3 : live s3.tree x = true := f3.liven
  obtain ⟨s4, e4, h4, hp4, hsl4, hr4⟩ := upd_step h3 hobj3 (fun o => { o with amlOffset := base }) (by keeps_links) Iff.rfl
    (h3.tree.info _ hobj3)
  refine bind_ex e4 ?_
  have f4 : Fresh1 x s2 s4 := f3.thenPay hp4
  have hop4 : (slot s4.tree x).opcode = 8 := by rw [hsl4]; exact hop3
  have hinfo4 : (slot s4.tree x).infoIndex = pOpcodeTableIndex 8 true := by rw [hsl4]; exact hinfo3
  have hth4 : (slot s4.tree x).tableHandle = s.tableHandle := by rw [hsl4]; exact hth3
  obtain ⟨hk4x, hk4⟩ := fresh1_kids f4 h2.tree.wf h4.tree.wf
  have hne4 : s4.scopeStack.size ≠ 0 := by rw [f4.scope, hsc2]; exact hne
  obtain ⟨esc, _, _⟩ := scopeCurrent_top h4 hne4
  have htop4 : topOf s4 = topOf s := by unfold topOf; rw [f4.scope, hsc2]
  rw [htop4] at esc
  refine bind_ex esc ?_
  refine bind_ex (derefP_some_ex _) ?_
  obtain ⟨_, htopl, _⟩ := scopeCurrent_top h hne
  have htopl2 : live s2.tree (topOf s) = true := by rw [ht2]; exact htopl
  have hx2 : live s2.tree x = false := f4.nlive
  obtain ⟨s5, e5, h5, hs5, hsz5, sp5, hl5, hP5, hLa5, hNx5, hFi5, hK5⟩ :=
    append_step_k h4 h2.tree.wf (fun y hy => ⟨by rw [f4.livex y (f4.ne hy)]; exact hy, by
      show (slot s4.tree y).parentIndex = (slot s2.tree y).parentIndex; rw [f4.old y (f4.ne hy)]⟩) htopl2 hx2 f4.liven f4.pn
  refine bind_ex e5 ?_
  have hx5 : live s5.tree x = true := by rw [hl5]; exact f4.liven
  have hop5 : (slot s5.tree x).opcode = 8 := by rw [pay_opcode (sp5.pay x)]; exact hop4
  have hinfo5 : (slot s5.tree x).infoIndex = pOpcodeTableIndex 8 true := by rw [pay_info (sp5.pay x)]; exact hinfo4
  have hth5 : (slot s5.tree x).tableHandle = s.tableHandle := by rw [pay_handle (sp5.pay x)]; exact hth4
  have htopx : topOf s ≠ x := fun e => by rw [e, hx2] at htopl2; cases htopl2
  have hfi5 : Fi s5.tree x = INV := by rw [hFi5, if_neg (fun hq => htopx hq.1.symm)]; exact f4.fin
  have hla5 : La s5.tree x = INV := (h5.tree.wf.lP hx5).ends.1 hfi5
  have hr5 : s5.r = { offset := base + 1, pkgEnd := pe } := by
    have : s5.r = s4.r := by rw [hs5]
    rw [this, hr4, hr3, hr2]
  have hsc5 : s5.scopeStack = s.scopeStack := by
    have : s5.scopeStack = s4.scopeStack := by rw [hs5]
    rw [this, f4.scope, hsc2]
  have hab5 : s5.allBlocks = false := by
    have : s5.allBlocks = s4.allBlocks := by rw [hs5]
    rw [this, f4.same.1, ← hs2]; exact hsk
  -- its arguments
  unfold parseObjectArgs
  refine bind_ex (getObj_live hx5) ?_
  rw [hop5]
  rw [if_neg (by decide), if_neg (by decide), if_neg (by decide), if_neg (by decide), if_neg (by decide)]
  rw [hinfo5]
  obtain ⟨fl, hfl⟩ := opFlags_of_info r2
  rw [hfl]
  have eargs : ∃ a s7, parseArgs d (f + 3) (pOpcodeTableIndex 8 true) x 0 s5 = .ok (a, s7) ∧ a = PRes.shortCircuit ∧ ∃ c, FP d s7 ∧
      live s5.tree c = false ∧ live s7.tree c = true ∧ Fi s7.tree x = c ∧ La s7.tree x = c ∧ C13.P s7.tree c = x ∧
      (slot s7.tree c).opcode = opIntNamePath ∧
      (slot s7.tree c).value = .bytes (base + 1) ((encName root carets segs).length - (if segs = [] then 1 else 0)) ∧
      s7.r = { offset := base + 1 + (encName root carets segs).length, pkgEnd := pe } ∧ s7.scopeStack = s5.scopeStack ∧
      Nx s7.tree x = Nx s5.tree x ∧
      (∀ y, live s5.tree y = true → live s7.tree y = true ∧ C13.P s7.tree y = C13.P s5.tree y ∧
        Pay (slot s7.tree y) = Pay (slot s5.tree y)) ∧
      (slot s7.tree c).infoIndex = pOpcodeTableIndex opIntNamePath true ∧ (slot s7.tree c).tableHandle = s5.tableHandle ∧
      K s7.tree c = [] ∧ (∀ y, live s5.tree y = true → K s7.tree y = if y = x then K s5.tree x ++ [c] else K s5.tree y) ∧
      SameRest s5 s7 ∧ s7.tree.pool.size ≤ s5.tree.pool.size + 1 := by
    unfold parseArgs
    rw [opArgCount_of_info r2, r3]
    refine bind_ex (optP_ex _ s5) ?_
    rw [if_pos (by omega), opArg_of_info r2 0, r4]
    refine bind_ex (optP_ex _ s5) ?_
    -- the name string
    unfold parseArg
    rw [if_pos (by decide)]
    obtain ⟨c, s6, e6, h6, c1, c2, c3, c4, c5, c6, fc, ci, cth⟩ := name_object_roundtrip hd h5 (by
        have := f4.size.2
        rw [hsz5]; rw [ht2] at this; omega)
      root carets segs (base + 1) pe hr5 hpe hok henc hfit
    refine bind_ex e6 ?_
    dsimp only
    -- `append(curObj, c)`
    have hx6 : live s6.tree x = true := by rw [fc.livex x (fc.ne hx5)]; exact hx5
    obtain ⟨hk6c, hk6⟩ := fresh1_kids fc h5.tree.wf h6.tree.wf
    obtain ⟨s7, e7, h7, hs7, hsz7, sp7, hl7, hP7, hLa7, hNx7, hFi7, hK7⟩ :=
      append_step_k h6 h5.tree.wf (fun y hy => ⟨by rw [fc.livex y (fc.ne hy)]; exact hy, by
        show (slot s6.tree y).parentIndex = (slot s5.tree y).parentIndex; rw [fc.old y (fc.ne hy)]⟩) hx5 c1 c2 c3
    refine bind_ex e7 ?_
    rw [if_pos rfl]
    have hla6 : La s6.tree x = INV := by
      show (slot s6.tree x).lastArgIndex = INV
      rw [fc.old x (fc.ne hx5)]; exact hla5
    have hr7 : s7.r = { offset := base + 1 + (encName root carets segs).length, pkgEnd := pe } := by
      have : s7.r = s6.r := by rw [hs7]
      rw [this, c6]
    have hab7 : s7.allBlocks = false := by
      have : s7.allBlocks = s6.allBlocks := by rw [hs7]
      rw [this, fc.same.1]; exact hab5
    have hsc7 : s7.scopeStack = s5.scopeStack := by
      have : s7.scopeStack = s6.scopeStack := by rw [hs7]
      rw [this, fc.scope]
    -- the data object: not parsed in the first pass
    unfold parseArgs
    rw [opArgCount_of_info r2, r3]
    refine bind_ex (optP_ex _ s7) ?_
    rw [if_pos (by omega), opArg_of_info r2 1, r5]
    refine bind_ex (optP_ex _ s7) ?_
    unfold parseArg
    rw [if_neg (by decide), if_neg (by decide), if_neg (by decide), if_neg (by decide), if_pos (Or.inr rfl)]
    have earg : (allBlocks >>= fun b => if b = true then parseStrictTermArg d f x
        else (pure (none, PRes.shortCircuit) : P (Option Nat × PRes))) s7 = .ok ((none, PRes.shortCircuit), s7) := by
      show (StateT.bind _ _) s7 = _
      simp only [StateT.bind, allBlocks_ex s7, Except.bind, hab7, Bool.false_eq_true, ↓reduceIte]
      rfl
    refine bind_ex earg ?_
    dsimp only
    rw [if_neg (by decide)]
    refine pure_ex ⟨rfl, c, h7, c1, by rw [hl7]; exact c2, by rw [hFi7, if_pos ⟨rfl, hla6⟩], hLa7, by rw [hP7, if_pos rfl],
      by rw [pay_opcode (sp7.pay c)]; exact c5, by rw [pay_value (sp7.pay c)]; exact c4, hr7, hsc7, ?_, ?_,
      by rw [pay_info (sp7.pay c)]; exact ci, by rw [pay_handle (sp7.pay c)]; exact cth, ?_, ?_,
      (fresh1_rest fc).trans (SameRest.ofTree hs7), by rw [hsz7]; exact fc.size.2⟩
    · have hxc : x ≠ c := fc.ne hx5
      rw [hNx7, if_neg hxc, if_neg (fun hq => by rw [hla6] at hq; exact hq.2 rfl)]
      show (slot s6.tree x).nextSiblingIndex = (slot s5.tree x).nextSiblingIndex
      rw [fc.old x hxc]
    · intro y hy
      have hyc : y ≠ c := fc.ne hy
      refine ⟨by rw [hl7, fc.livex y hyc]; exact hy, ?_, ?_⟩
      · rw [hP7, if_neg hyc]
        show (slot s6.tree y).parentIndex = (slot s5.tree y).parentIndex
        rw [fc.old y hyc]
      · rw [sp7.pay y, fc.old y hyc]
    · have hcx : c ≠ x := fun e => (fc.ne hx5) e.symm
      rw [hK7 c c2, if_neg hcx]; exact hk6c
    · intro y hy
      have hy6 : live s6.tree y = true := by rw [fc.livex y (fc.ne hy)]; exact hy
      rw [hK7 y hy6]
      by_cases hyx : y = x
      · rw [if_pos hyx, if_pos hyx, hk6 x hx5]
      · rw [if_neg hyx, if_neg hyx, hk6 y hy]
  obtain ⟨a7, s7, e7, ha7, c, h7, c1, c2, c3, c4, c5, c6, c7, c8, c9, cnx, c10, c11, c12, c13, c14, c15, c16⟩ := eargs
  refine bind_ex (optP_ex fl s5) ?_
  refine bind_ex e7 ?_
  rw [ha7]
  refine pure_ex ⟨by decide, x, c, h7, by rw [← ht2]; exact hx2, ?_, (c10 x hx5).1, c2, ?_, ?_, ?_, c3, c4, c5, c6, c7, c8,
    by rw [c9, hsc5], ?_, ?_⟩
  · -- `c` was not live in `s`
    cases hq : live s.tree c with
    | false => rfl
    | true =>
      have : live s5.tree c = true := by
        rw [hl5, f4.livex c (f4.ne (by rw [ht2]; exact hq)), ht2]; exact hq
      rw [c1] at this; cases this
  · rw [pay_opcode (c10 x hx5).2.2]; exact hop5
  · rw [(c10 x hx5).2.1, hP5, if_pos rfl]
  · have hP7x : C13.P s7.tree x = topOf s := by rw [(c10 x hx5).2.1, hP5, if_pos rfl]
    exact la_of_last h7.tree.wf (c10 x hx5).1 hP7x (live_ne_INV w.size_le htopl) (by rw [cnx, hNx5, if_pos rfl])
  · intro y hy
    have hy2 : live s2.tree y = true := by rw [ht2]; exact hy
    have hy5 : live s5.tree y = true := by rw [hl5, f4.livex y (f4.ne hy2)]; exact hy2
    refine ⟨(c10 y hy5).1, ?_⟩
    rw [(c10 y hy5).2.1, hP5, if_neg (f4.ne hy2)]
    show (slot s4.tree y).parentIndex = (slot s.tree y).parentIndex
    rw [f4.old y (f4.ne hy2), ht2]
  · have hc_s : live s.tree c = false := by
      cases hq : live s.tree c with
      | false => rfl
      | true =>
        have : live s5.tree c = true := by
          rw [hl5, f4.livex c (f4.ne (by rw [ht2]; exact hq)), ht2]; exact hq
        rw [c1] at this; cases this
    have r25 : SameRest s s5 := by
      have a : SameRest s s2 := by rw [← hs2]; exact SameRest.ofR _
      exact (a.trans (fresh1_rest f4)).trans (SameRest.ofTree hs5)
    have hold5 : ∀ y, live s.tree y = true → live s5.tree y = true := by
      intro y hy
      have hy2 : live s2.tree y = true := by rw [ht2]; exact hy
      rw [hl5, f4.livex y (f4.ne hy2)]; exact hy2
    have htop4 : live s4.tree (topOf s) = true := by rw [f4.livex _ (f4.ne htopl2)]; exact htopl2
    refine ⟨h7, by rw [← ht2]; exact hx2, hc_s, (c10 x hx5).1, c2, ?_, ?_, ?_, c6, c11, ?_, c7, ?_, c13, ?_, c5, r25.trans c15, ?_, ?_⟩
    · rw [pay_opcode (c10 x hx5).2.2]; exact hop5
    · rw [pay_info (c10 x hx5).2.2]; exact hinfo5
    · rw [pay_handle (c10 x hx5).2.2]; exact hth5
    · rw [c12, r25.th]
    · rw [c14 x hx5, if_pos rfl, hK5 x f4.liven, if_neg (fun e => htopx e.symm), hk4x]; rfl
    · rw [(c10 x hx5).2.1, hP5, if_pos rfl]
    · refine ⟨fun y hy => (c10 y (hold5 y hy)).1, ?_, ?_, ?_⟩
      · intro y hy
        have hy2 : live s2.tree y = true := by rw [ht2]; exact hy
        rw [(c10 y (hold5 y hy)).2.1, hP5, if_neg (f4.ne hy2)]
        show (slot s4.tree y).parentIndex = (slot s.tree y).parentIndex
        rw [f4.old y (f4.ne hy2), ht2]
      · intro y hy
        have hy2 : live s2.tree y = true := by rw [ht2]; exact hy
        rw [(c10 y (hold5 y hy)).2.2, sp5.pay y, f4.old y (f4.ne hy2), ht2]
      · intro y hy
        have hy2 : live s2.tree y = true := by rw [ht2]; exact hy
        have hyx : y ≠ x := f4.ne hy2
        have hy4 : live s4.tree y = true := by rw [f4.livex y hyx]; exact hy2
        rw [c14 y (hold5 y hy), if_neg hyx, hK5 y hy4]
        by_cases hyt : y = topOf s
        · rw [if_pos hyt, if_pos hyt, hyt, hk4 _ htopl2, ht2]
        · rw [if_neg hyt, if_neg hyt, hk4 y hy2, ht2]
    · have := f4.size.2
      rw [ht2] at this
      omega

/-- `name_decl_first_pass`, the structured form -/
theorem name_decl_k {d : Bytes} (hd : d.size + 1024 ≤ 4294967296) (f : Nat) {s : PState} (h : FP d s)
    (hsk : s.allBlocks = false) (hne : s.scopeStack.size ≠ 0) (hsz : s.tree.pool.size + 2 < INV)
    (root : Bool) (carets : Nat) (segs : List (List UInt8)) (base pe : Nat) (hr : s.r = { offset := base, pkgEnd := pe })
    (hpe : pe ≤ d.size) (hok : NameOK segs) (hop : d[base]? = some 0x08)
    (henc : ∀ i, i < (encName root carets segs).length → d[base + 1 + i]? = (encName root carets segs)[i]?)
    (hfit : base + 1 + (encName root carets segs).length ≤ pe) :
    ∃ s' x c, parseNextObject d (f + 5) s = .ok (PRes.ok, s') ∧
      NameDecl d s s' x c (base + 1) ((encName root carets segs).length - (if segs = [] then 1 else 0)) ∧
      s'.r = { offset := base + 1 + (encName root carets segs).length, pkgEnd := pe } := by
  obtain ⟨a, s', e, ha, x, c, _, _, _, _, _, _, _, _, _, _, _, _, _, hr', _, _, nd⟩ :=
    name_decl_first_pass hd f h hsk hne hsz root carets segs base pe hr hpe hok hop henc hfit
  subst ha
  exact ⟨s', x, c, e, nd, hr'⟩

end Firefly.AmlParser.F
