import Firefly.Proof.AmlFirstPassG
import Firefly.Proof.AmlMerge
/-!
The strict (second-pass) mode of the object parser: `parseDeferred` on one deferred block never ends in `.panic`
and leaves a well-formed tree (`Props/C12.lean`, `deferred_block_no_panic_WF`).

Part 1: the `Method` invariant (`MS`): every live `Method` object other than the one whose lexical arguments are
being read has a second argument that holds an integer — what `parseNamePathOrMethodCall` dereferences without a
check (`ArgAt(target, 1).value.(uint64)`).
-/
namespace Firefly.AmlParser.S
open Firefly.AmlLex Firefly.AmlTree Firefly.C13 Firefly.AmlParser Firefly.AmlParser.G
open Firefly.Gen.C12

/-- `m` has a first and a second argument and the second holds an integer -/
def Sh (t : ObjectTree) (m : Nat) : Prop :=
  ∃ v, live t (Fi t m) = true ∧ live t (Nx t (Fi t m)) = true ∧ (slot t (Nx t (Fi t m))).value = .u64 v

/-- every live `Method` other than `ex` and outside of `X` is complete.  `X` = the incomplete `Method` objects a
rejected earlier table left behind: unnamed and outside of every scope that is parsed, so that no lookup finds
them (`UnF` below) -/
def MS (X : Nat → Prop) (ex : Option Nat) (t : ObjectTree) : Prop :=
  ∀ m, live t m = true → (slot t m).opcode = opMethod → some m ≠ ex → ¬ X m → Sh t m

variable {X : Nat → Prop}

theorem MS.weaken {t : ObjectTree} (h : MS X none t) (ex : Option Nat) : MS X ex t :=
  fun m hl ho _ hx => h m hl ho (by intro hc; cases hc) hx

/-- `Sh` only looks at three link/payload facts -/
theorem Sh.transfer {t t' : ObjectTree} {m : Nat} (h : Sh t m) (hfi : Fi t' m = Fi t m)
    (hnx : Nx t' (Fi t m) = Nx t (Fi t m)) (hl : ∀ x, live t x = true → live t' x = true)
    (hv : (slot t' (Nx t (Fi t m))).value = (slot t (Nx t (Fi t m))).value) : Sh t' m := by
  obtain ⟨v, h1, h2, h3⟩ := h
  refine ⟨v, ?_, ?_, ?_⟩
  · rw [hfi]; exact hl _ h1
  · rw [hfi, hnx]; exact hl _ h2
  · rw [hfi, hnx, hv]; exact h3

/-- the kids of a complete method: parents -/
theorem Sh.parents {t : ObjectTree} (w : WF t) {m : Nat} (hm : live t m = true) (h : Sh t m) :
    C13.P t (Fi t m) = m ∧ C13.P t (Nx t (Fi t m)) = m ∧ Fi t m ≠ INV ∧ Nx t (Fi t m) ≠ INV := by
  obtain ⟨v, h1, h2, _⟩ := h
  have n1 : Fi t m ≠ INV := live_ne_INV w.size_le h1
  have n2 : Nx t (Fi t m) ≠ INV := live_ne_INV w.size_le h2
  have p1 := ((w.lP hm).fi n1).1
  have p2 := ((w.lP h1).nx n2).2
  exact ⟨p1, by rw [p2, p1], n1, n2⟩

/-- `append` keeps every complete method complete (arguments are added at the end) -/
theorem Sh.append {t t' : ObjectTree} (w : WF t) {obj arg m : Nat} (hm : live t m = true) (h : Sh t m)
    (ha : C13.P t arg = INV) (ho : live t obj = true)
    (hl : ∀ x, live t' x = live t x) (sp : SamePay t t')
    (hNx : ∀ x, Nx t' x = if x = arg then INV else if x = La t obj ∧ La t obj ≠ INV then arg else Nx t x)
    (hFi : ∀ x, Fi t' x = if x = obj ∧ La t obj = INV then arg else Fi t x) : Sh t' m := by
  obtain ⟨p1, p2, n1, n2⟩ := h.parents w hm
  have hm0 : m ≠ INV := live_ne_INV w.size_le hm
  apply h.transfer
  · rw [hFi]
    split
    · rename_i hc
      exfalso
      -- `m = obj` without arguments contradicts the first argument
      have := (w.lP hm).ends.2 (by rw [hc.1]; exact hc.2)
      exact n1 this
    · rfl
  · rw [hNx]
    split
    · rename_i hc
      rw [hc, ha] at p1
      exact absurd p1.symm hm0
    · split
      · rename_i hc
        exfalso
        have := ((w.lP ho).la hc.2).2
        rw [← hc.1] at this
        exact n2 this
      · rfl
  · intro x hx; rw [hl]; exact hx
  · exact congrArg (fun p => p.2.2.2.2.2.2.2) (sp.pay _)

/-- `detach` of an argument other than the first two keeps a complete method complete -/
theorem Sh.detach {t t' : ObjectTree} (w : WF t) {obj arg m : Nat} (hm : live t m = true) (h : Sh t m)
    (ha : live t arg = true) (hp : C13.P t arg = obj)
    (hne : m = obj → arg ≠ Fi t m ∧ arg ≠ Nx t (Fi t m))
    (hl : ∀ x, live t' x = live t x) (sp : SamePay t t')
    (hNx : ∀ x, Nx t' x = if x = arg then INV else if x = Pv t arg ∧ Pv t arg ≠ INV then Nx t arg else Nx t x)
    (hFi : ∀ x, Fi t' x = if x = obj ∧ Fi t obj = arg then Nx t arg else Fi t x) : Sh t' m := by
  obtain ⟨p1, p2, n1, n2⟩ := h.parents w hm
  have hne' : arg ≠ Fi t m ∧ arg ≠ Nx t (Fi t m) := by
    by_cases hmo : m = obj
    · exact hne hmo
    · constructor
      · intro e; rw [e, p1] at hp; exact hmo hp
      · intro e; rw [e, p2] at hp; exact hmo hp
  apply h.transfer
  · rw [hFi]
    split
    · rename_i hc
      exfalso
      rw [hc.1] at hne'
      exact hne'.1 hc.2.symm
    · rfl
  · rw [hNx, if_neg (fun e => hne'.1 e.symm)]
    split
    · rename_i hc
      exfalso
      have := ((w.lP ha).pv hc.2).1
      rw [← hc.1] at this
      exact hne'.2 this.symm
    · rfl
  · intro x hx; rw [hl]; exact hx
  · exact congrArg (fun p => p.2.2.2.2.2.2.2) (sp.pay _)

/-- a payload update of `x` that keeps its value, or of an object that is nobody's argument -/
theorem Sh.setAt {t : ObjectTree} (w : WF t) {x m : Nat} (f : Obj → Obj) (hm : live t m = true) (h : Sh t m)
    (sl : SameLinks t (setAt t x f)) (hv : (f (slot t x)).value = (slot t x).value ∨ C13.P t x = INV) :
    Sh (setAt t x f) m := by
  obtain ⟨_, p2, _, _⟩ := h.parents w hm
  have hm0 : m ≠ INV := live_ne_INV w.size_le hm
  apply h.transfer (sl.fi m) (sl.nx _) (fun y hy => by rw [sl.live]; exact hy)
  rw [slot_setAt']
  split
  · rename_i hc
    rcases hv with hv | hv
    · rw [← hc.1]; exact hv
    · rw [← hc.1, hv] at p2; exact absurd p2.symm hm0
  · rfl

/-- what `ArgAt(target, 1)` returns for a complete method -/
theorem Sh.argAt {t : ObjectTree} (w : WF t) {m : Nat} (hm : live t m = true) (h : Sh t m) :
    t.ArgAt (some m) 1 = .ok (some (Nx t (Fi t m))) := by
  obtain ⟨v, h1, h2, _⟩ := h
  have n1 : Fi t m ≠ INV := live_ne_INV w.size_le h1
  have n2 : Nx t (Fi t m) ≠ INV := live_ne_INV w.size_le h2
  have hsz : t.fuel = (t.pool.size - 1) + 1 + 1 := by
    have := live_lt hm; unfold ObjectTree.fuel; omega
  unfold ObjectTree.ArgAt
  simp only [obj_eq (live_lt hm), bind, Except.bind]
  rw [hsz]
  unfold ObjectTree.argLoop
  have e1 : (slot t m).firstArgIndex = Fi t m := rfl
  rw [e1, if_neg (show ¬ Fi t m = InvalidIndex from n1), if_neg (by decide)]
  simp only [objectAt_live h1, ObjectTree.deref, obj_eq (live_lt h1), bind, Except.bind]
  unfold ObjectTree.argLoop
  have e2 : (slot t (Fi t m)).nextSiblingIndex = Nx t (Fi t m) := rfl
  rw [e2, if_neg (show ¬ Nx t (Fi t m) = InvalidIndex from n2), if_pos rfl, objectAt_live h2]

/-! ## the growth relation of the strict mode -/

/-- what a strict-mode parser function guarantees about the tree and the reader: progress, object budget, and a
frame — `T` = the parents whose argument lists may have changed -/
structure SGrow (T : Nat → Prop) (c : Nat) (s s' : PState) : Prop where
  off : s.r.offset ≤ s'.r.offset
  pool : s.tree.pool.size ≤ s'.tree.pool.size
  budget : s'.tree.pool.size + 16 * s.r.offset ≤ s.tree.pool.size + 16 * s'.r.offset + c
  oldP : ∀ x, live s.tree x = true → C13.P s'.tree x = C13.P s.tree x
  oldLive : ∀ x, live s.tree x = true → live s'.tree x = true
  fiK : ∀ x, live s.tree x = true → ¬ T x → Fi s'.tree x = Fi s.tree x
  kidK : ∀ x, live s.tree x = true → C13.P s.tree x ≠ INV → ¬ T (C13.P s.tree x) →
    Nx s'.tree x = Nx s.tree x ∧ Pay (slot s'.tree x) = Pay (slot s.tree x)
  payK : ∀ x, live s.tree x = true → ¬ T x → (C13.P s.tree x ≠ INV ∨ x = 0) → Pay (slot s'.tree x) = Pay (slot s.tree x)
  kfr : KFr s s'
  same : s'.allBlocks = s.allBlocks ∧ s'.tableHandle = s.tableHandle ∧ s'.streamEnd = s.streamEnd

variable {T : Nat → Prop}

theorem SGrow.mK {c : Nat} {s s' : PState} (h : SGrow T c s s') (x : Nat) (hx : live s.tree x = true) :
    (slot s'.tree x).opcode = opMethod ↔ (slot s.tree x).opcode = opMethod := h.kfr.mK x hx
theorem SGrow.nameK {c : Nat} {s s' : PState} (h : SGrow T c s s') (x : Nat) (hx : live s.tree x = true)
    (ho : (slot s.tree x).opcode = opMethod) : (slot s'.tree x).name = (slot s.tree x).name := h.kfr.nameK x hx ho

/-- a step that leaves the tree and the offset alone (stack operations, `pkgEnd` changes) -/
theorem SGrow.ofSame {s s' : PState} (ht : s'.tree = s.tree) (ho : s.r.offset ≤ s'.r.offset)
    (hsame : s'.allBlocks = s.allBlocks ∧ s'.tableHandle = s.tableHandle ∧ s'.streamEnd = s.streamEnd) : SGrow T 0 s s' :=
  ⟨ho, by rw [ht]; exact Nat.le_refl _, by rw [ht]; omega, fun _ _ => by rw [ht], fun _ h => by rw [ht]; exact h,
   fun _ _ _ => by rw [ht], fun _ _ _ _ => by rw [ht]; exact ⟨rfl, rfl⟩, fun _ _ _ _ => by rw [ht], KFr.ofTree ht, hsame⟩

theorem SGrow.refl (s : PState) : SGrow T 0 s s := SGrow.ofSame rfl (Nat.le_refl _) ⟨rfl, rfl, rfl⟩

theorem SGrow.trans {c1 c2 : Nat} {a b c : PState} (h1 : SGrow T c1 a b) (h2 : SGrow T c2 b c) : SGrow T (c1 + c2) a c := by
  refine ⟨Nat.le_trans h1.off h2.off, Nat.le_trans h1.pool h2.pool, by have := h1.budget; have := h2.budget; omega,
    fun x hx => by rw [h2.oldP x (h1.oldLive x hx), h1.oldP x hx], fun x hx => h2.oldLive x (h1.oldLive x hx), ?_, ?_, ?_,
    h1.kfr.trans h2.kfr h1.oldLive h2.oldLive, ?_⟩
  · intro x hx ht
    rw [h2.fiK x (h1.oldLive x hx) ht, h1.fiK x hx ht]
  · intro x hx hp ht
    obtain ⟨n1, p1⟩ := h1.kidK x hx hp ht
    obtain ⟨n2, p2⟩ := h2.kidK x (h1.oldLive x hx) (by rw [h1.oldP x hx]; exact hp) (by rw [h1.oldP x hx]; exact ht)
    exact ⟨by rw [n2, n1], by rw [p2, p1]⟩
  · intro x hx ht hp
    rw [h2.payK x (h1.oldLive x hx) ht (by rw [h1.oldP x hx]; exact hp), h1.payK x hx ht hp]
  · exact ⟨by rw [h2.same.1, h1.same.1], by rw [h2.same.2.1, h1.same.2.1], by rw [h2.same.2.2, h1.same.2.2]⟩

theorem SGrow.weaken {c c' : Nat} {a b : PState} (h : SGrow T c a b) (hc : c ≤ c') : SGrow T c' a b :=
  ⟨h.off, h.pool, by have := h.budget; omega, h.oldP, h.oldLive, h.fiK, h.kidK, h.payK, h.kfr, h.same⟩

/-- a smaller set of touched parents, up to objects that did not exist -/
theorem SGrow.mono {T' : Nat → Prop} {c : Nat} {a b : PState} (h : SGrow T' c a b) (w : WF a.tree)
    (hT : ∀ x, live a.tree x = true → T' x → T x) : SGrow T c a b := by
  refine ⟨h.off, h.pool, h.budget, h.oldP, h.oldLive, fun x hx ht => h.fiK x hx (fun hq => ht (hT x hx hq)), ?_,
    fun x hx ht hp => h.payK x hx (fun hq => ht (hT x hx hq)) hp, h.kfr, h.same⟩
  intro x hx hp ht
  refine h.kidK x hx hp (fun hq => ht (hT _ ?_ hq))
  rcases (w.lP hx).lp with h0 | h0
  · exact absurd h0 hp
  · exact h0

/-- a reader-only step forward -/
theorem SGrow.ofLex {s s1 : PState} (hs1 : s1 = { s with r := s1.r }) (hle : s.r.offset ≤ s1.r.offset) : SGrow T 0 s s1 :=
  SGrow.ofSame (by rw [hs1]) hle (by rw [hs1]; exact ⟨rfl, rfl, rfl⟩)

/-- a reader-only step that consumed a byte pays for up to 16 objects of what follows -/
theorem SGrow.absorb {c : Nat} {s s1 s' : PState} (hs1 : s1 = { s with r := s1.r }) (hlt : s.r.offset < s1.r.offset)
    (gr : SGrow T c s1 s') (hc : c ≤ 16) : SGrow T 0 s s' := by
  have g1 : SGrow T 0 s s1 := SGrow.ofLex hs1 (by omega)
  have t := g1.trans gr
  have ht : s1.tree = s.tree := by rw [hs1]
  exact ⟨t.off, t.pool, by have := gr.budget; rw [ht] at this; omega, t.oldP, t.oldLive, t.fiK, t.kidK, t.payK, t.kfr, t.same⟩

/-- one fresh object -/
theorem SGrow.ofFresh1 {n : Nat} {s s' : PState} (h : Fresh1 n s s') : SGrow T 1 s s' :=
  ⟨h.off, h.size.1, by have := h.size.2; have := h.off; omega,
   fun x hx => by unfold C13.P; rw [h.old x (h.ne hx)], fun x hx => by rw [h.livex x (h.ne hx)]; exact hx,
   fun x hx _ => by unfold Fi; rw [h.old x (h.ne hx)],
   fun x hx _ _ => ⟨by unfold Nx; rw [h.old x (h.ne hx)], by rw [h.old x (h.ne hx)]⟩,
   fun x hx _ _ => by rw [h.old x (h.ne hx)], KFr.ofFresh h, h.same⟩

/-- a payload-only step on an object that may be touched and is detached or hangs under a parent that may be touched -/
theorem SGrow.ofPay {obj : Nat} {s s' : PState} (h : PayOnly obj s s') (hp : C13.P s.tree obj = INV ∨ T (C13.P s.tree obj))
    (hT : T obj) (ho : live s.tree obj = true) : SGrow T 0 s s' := by
  refine ⟨h.off, by rw [h.links.size]; exact Nat.le_refl _, by rw [h.links.size]; have := h.off; omega,
   fun x _ => h.links.p x, fun x hx => by rw [h.links.live]; exact hx, fun x _ _ => h.links.fi x, ?_, ?_, KFr.ofPay h ho, h.same⟩
  · intro x _ hpx hTx
    have hne : x ≠ obj := by
      intro e
      rw [e] at hpx hTx
      rcases hp with hp | hp
      · exact hpx hp
      · exact hTx hp
    exact ⟨h.links.nx x, by rw [h.others x hne]⟩
  · intro x _ hTx _
    have hne : x ≠ obj := fun e => hTx (e ▸ hT)
    rw [h.others x hne]

/-- growth up to `s1`, then an `append` under a parent that may be touched or did not exist, of an object that
did not exist in the base state -/
theorem SGrow.thenAppend {c : Nat} {s s1 s2 : PState} (g : SGrow T c s s1) {obj arg : Nat}
    (hs2 : s2 = { s1 with tree := s2.tree }) (hsz : s2.tree.pool.size = s1.tree.pool.size)
    (hl : ∀ x, live s2.tree x = live s1.tree x)
    (hP : ∀ x, C13.P s2.tree x = if x = arg then obj else C13.P s1.tree x) (hnew : live s.tree arg = false)
    (hT : T obj ∨ (WF s.tree ∧ live s.tree obj = false)) (w1 : WF s1.tree) (ho1 : live s1.tree obj = true)
    (sp : SamePay s1.tree s2.tree)
    (hNx : ∀ x, Nx s2.tree x = if x = arg then INV else if x = La s1.tree obj ∧ La s1.tree obj ≠ INV then arg else Nx s1.tree x)
    (hFi : ∀ x, Fi s2.tree x = if x = obj ∧ La s1.tree obj = INV then arg else Fi s1.tree x) :
    SGrow T c s s2 := by
  have hr : s2.r = s1.r := by rw [hs2]
  have hne : ∀ x, live s.tree x = true → x ≠ arg := fun x hx e => by rw [e, hnew] at hx; cases hx
  refine ⟨by rw [hr]; exact g.off, by rw [hsz]; exact g.pool, by rw [hsz, hr]; exact g.budget, ?_,
    fun x hx => by rw [hl]; exact g.oldLive x hx, ?_, ?_, ?_, g.kfr.trans (KFr.ofSamePay sp) g.oldLive (fun x hx => by rw [hl]; exact hx), by rw [hs2]; exact g.same⟩
  · intro x hx
    rw [hP, if_neg (hne x hx)]
    exact g.oldP x hx
  · intro x hx hTx
    have hxo : x ≠ obj := by
      intro e
      rcases hT with hT | ⟨_, hno⟩
      · exact hTx (by rw [e]; exact hT)
      · rw [e, hno] at hx; cases hx
    rw [hFi, if_neg (fun hc => hxo hc.1)]
    exact g.fiK x hx hTx
  · intro x hx hp hTx
    have hpay : Pay (slot s2.tree x) = Pay (slot s1.tree x) := sp.pay x
    rw [hNx, if_neg (hne x hx)]
    split
    · rename_i hc
      exfalso
      have hla := ((w1.lP ho1).la hc.2).1
      rw [← hc.1, g.oldP x hx] at hla
      rcases hT with hT | ⟨w, hno⟩
      · exact hTx (by rw [hla]; exact hT)
      · rcases (w.lP hx).lp with h0 | h0
        · exact hp h0
        · rw [hla, hno] at h0; cases h0
    · obtain ⟨n1, p1⟩ := g.kidK x hx hp hTx
      exact ⟨n1, by rw [hpay, p1]⟩
  · intro x hx hTx hpx
    rw [sp.pay x]; exact g.payK x hx hTx hpx

/-- growth up to `s1`, then a `detach`, from a parent that may be touched or did not exist, of an object that
did not exist in the base state -/
theorem SGrow.thenDetach {c : Nat} {s s1 s2 : PState} (g : SGrow T c s s1) {obj arg : Nat}
    (hs2 : s2 = { s1 with tree := s2.tree }) (hsz : s2.tree.pool.size = s1.tree.pool.size)
    (hl : ∀ x, live s2.tree x = live s1.tree x)
    (hP : ∀ x, C13.P s2.tree x = if x = arg then INV else C13.P s1.tree x) (hnew : live s.tree arg = false)
    (hT : T obj ∨ (WF s.tree ∧ live s.tree obj = false)) (w1 : WF s1.tree) (ha1 : live s1.tree arg = true)
    (hpa : C13.P s1.tree arg = obj) (sp : SamePay s1.tree s2.tree)
    (hNx : ∀ x, Nx s2.tree x = if x = arg then INV else if x = Pv s1.tree arg ∧ Pv s1.tree arg ≠ INV then Nx s1.tree arg else Nx s1.tree x)
    (hFi : ∀ x, Fi s2.tree x = if x = obj ∧ Fi s1.tree obj = arg then Nx s1.tree arg else Fi s1.tree x) :
    SGrow T c s s2 := by
  have hr : s2.r = s1.r := by rw [hs2]
  have hne : ∀ x, live s.tree x = true → x ≠ arg := fun x hx e => by rw [e, hnew] at hx; cases hx
  refine ⟨by rw [hr]; exact g.off, by rw [hsz]; exact g.pool, by rw [hsz, hr]; exact g.budget, ?_,
    fun x hx => by rw [hl]; exact g.oldLive x hx, ?_, ?_, ?_, g.kfr.trans (KFr.ofSamePay sp) g.oldLive (fun x hx => by rw [hl]; exact hx), by rw [hs2]; exact g.same⟩
  · intro x hx
    rw [hP, if_neg (hne x hx)]
    exact g.oldP x hx
  · intro x hx hTx
    have hxo : x ≠ obj := by
      intro e
      rcases hT with hT | ⟨_, hno⟩
      · exact hTx (by rw [e]; exact hT)
      · rw [e, hno] at hx; cases hx
    rw [hFi, if_neg (fun hc => hxo hc.1)]
    exact g.fiK x hx hTx
  · intro x hx hp hTx
    have hpay : Pay (slot s2.tree x) = Pay (slot s1.tree x) := sp.pay x
    rw [hNx, if_neg (hne x hx)]
    split
    · rename_i hc
      exfalso
      have hpp := ((w1.lP ha1).pv hc.2).2
      rw [← hc.1, hpa, g.oldP x hx] at hpp
      rcases hT with hT | ⟨w, hno⟩
      · exact hTx (by rw [hpp]; exact hT)
      · rcases (w.lP hx).lp with h0 | h0
        · exact hp h0
        · rw [hpp, hno] at h0; cases h0
    · obtain ⟨n1, p1⟩ := g.kidK x hx hp hTx
      exact ⟨n1, by rw [hpay, p1]⟩
  · intro x hx hTx hpx
    rw [sp.pay x]; exact g.payK x hx hTx hpx

/-- the first-pass relations of the mode-agnostic argument parsers as strict growth -/
theorem SGrow.ofGrowFrm {c g : Nat} {s s' : PState} (gr : Grow c g s s') (fr : FrmS T s s') : SGrow T c s s' :=
  ⟨gr.off, gr.pool, gr.budget, gr.oldP, gr.oldLive, fr.fiK, fr.kidK, fr.payK, fr.kfr, gr.same⟩

/-! ## `MS` along the steps of the parser -/

theorem MS.ofSome {t : ObjectTree} {c : Nat} (h : MS X (some c) t) (hc : (slot t c).opcode ≠ opMethod) : MS X none t := by
  intro m hl ho _ hx
  exact h m hl ho (by intro e; cases e; exact hc ho) hx

/-- a fresh object: it is not a `Method`, or it is the exception -/
theorem MS.fresh {ex : Option Nat} {n : Nat} {s s' : PState} (hms : MS X ex s.tree) (h : Fresh1 n s s')
    (hn : (slot s'.tree n).opcode = opMethod → ex = some n) : MS X ex s'.tree := by
  intro m hl ho hex hx
  by_cases hmn : m = n
  · subst hmn; exact absurd (hn ho).symm hex
  · have hl0 : live s.tree m = true := by rw [← h.livex m hmn]; exact hl
    have hsh := hms m hl0 (by rw [← h.old m hmn]; exact ho) hex hx
    obtain ⟨v, h1, h2, _⟩ := hsh
    have hne : ∀ x, live s.tree x = true → x ≠ n := fun x hx => h.ne hx
    apply Sh.transfer ⟨v, h1, h2, ‹_›⟩
    · unfold Fi; rw [h.old m hmn]
    · unfold Nx; rw [h.old _ (hne _ h1)]
    · intro x hx; rw [h.livex x (hne x hx)]; exact hx
    · rw [h.old _ (hne _ h2)]

/-- a payload-only step on an object that is not the second argument of a method -/
theorem MS.pay {ex : Option Nat} {obj : Nat} {s s' : PState} (hms : MS X ex s.tree) (w : WF s.tree) (h : PayOnly obj s s')
    (hp : C13.P s.tree obj = INV ∨ (slot s.tree (C13.P s.tree obj)).opcode ≠ opMethod) : MS X ex s'.tree := by
  intro m hl ho hex hx
  have hl0 : live s.tree m = true := by rw [← h.links.live]; exact hl
  have ho0 : (slot s.tree m).opcode = opMethod := by
    by_cases hm : m = obj
    · rw [hm] at ho ⊢; exact h.mth.1 ho
    · rw [← h.others m hm]; exact ho
  have hsh := hms m hl0 ho0 hex hx
  obtain ⟨_, p2, _, _⟩ := hsh.parents w hl0
  have hm0 : m ≠ INV := live_ne_INV w.size_le hl0
  apply hsh.transfer (h.links.fi m) (h.links.nx _) (fun x hx => by rw [h.links.live]; exact hx)
  have hne : Nx s.tree (Fi s.tree m) ≠ obj := by
    intro e
    rw [e] at p2
    rcases hp with hp | hp
    · rw [hp] at p2; exact hm0 p2.symm
    · rw [p2] at hp; exact hp ho0
  rw [h.others _ hne]

/-- `append` -/
theorem MS.append {ex : Option Nat} {t t' : ObjectTree} (hms : MS X ex t) (w : WF t) {obj arg : Nat}
    (ha : C13.P t arg = INV) (ho : live t obj = true)
    (hl : ∀ x, live t' x = live t x) (sp : SamePay t t')
    (hNx : ∀ x, Nx t' x = if x = arg then INV else if x = La t obj ∧ La t obj ≠ INV then arg else Nx t x)
    (hFi : ∀ x, Fi t' x = if x = obj ∧ La t obj = INV then arg else Fi t x) : MS X ex t' := by
  intro m hm hop hex hx
  have hm0 : live t m = true := by rw [← hl]; exact hm
  have hop0 : (slot t m).opcode = opMethod := by
    have : (slot t' m).opcode = (slot t m).opcode := congrArg (fun p => p.1) (sp.pay m)
    rw [← this]; exact hop
  exact (hms m hm0 hop0 hex hx).append w hm0 ha ho hl sp hNx hFi

/-- `detach` from an object that is not a method -/
theorem MS.detach {ex : Option Nat} {t t' : ObjectTree} (hms : MS X ex t) (w : WF t) {obj arg : Nat}
    (ha : live t arg = true) (hp : C13.P t arg = obj)
    (hne : ∀ m, m = obj → (slot t m).opcode = opMethod → some m ≠ ex → ¬ X m → arg ≠ Fi t m ∧ arg ≠ Nx t (Fi t m))
    (hl : ∀ x, live t' x = live t x) (sp : SamePay t t')
    (hNx : ∀ x, Nx t' x = if x = arg then INV else if x = Pv t arg ∧ Pv t arg ≠ INV then Nx t arg else Nx t x)
    (hFi : ∀ x, Fi t' x = if x = obj ∧ Fi t obj = arg then Nx t arg else Fi t x) : MS X ex t' := by
  intro m hm hop hex hx
  have hm0 : live t m = true := by rw [← hl]; exact hm
  have hop0 : (slot t m).opcode = opMethod := by
    have : (slot t' m).opcode = (slot t m).opcode := congrArg (fun p => p.1) (sp.pay m)
    rw [← this]; exact hop
  exact (hms m hm0 hop0 hex hx).detach w hm0 ha hp (fun e => hne m e hop0 hex hx) hl sp hNx hFi

/-- a frame whose touched parents contain no complete method -/
theorem MS.frm {ex : Option Nat} {s s' : PState} (hms : MS X ex s.tree) (w : WF s.tree) (fr : FrmS T s s')
    (hT : ∀ m, live s.tree m = true → (slot s.tree m).opcode = opMethod → some m ≠ ex → ¬ T m) : MS X ex s'.tree := by
  intro m hl ho hex hx
  cases hl0 : live s.tree m with
  | false => exact absurd ho (fr.newOp m hl0 hl)
  | true =>
    have ho0 := (fr.mK m hl0).1 ho
    have hsh := hms m hl0 ho0 hex hx
    obtain ⟨p1, p2, n1, n2⟩ := hsh.parents w hl0
    have hm0 : m ≠ INV := live_ne_INV w.size_le hl0
    have hnT := hT m hl0 ho0 hex
    obtain ⟨v, h1, h2, h3⟩ := hsh
    have k1 := fr.kidK _ h1 (by rw [p1]; exact hm0) (by rw [p1]; exact hnT)
    have k2 := fr.kidK _ h2 (by rw [p2]; exact hm0) (by rw [p2]; exact hnT)
    apply Sh.transfer ⟨v, h1, h2, h3⟩ (fr.fiK m hl0 hnT) k1.1 fr.oldLive
    exact congrArg (fun p => p.2.2.2.2.2.2.2) k2.2

/-! ## the state of the strict mode -/

/-- no `Method` object is on the scope stack: objects are never appended to a method through the stack -/
def StackNM (s : PState) : Prop := ∀ x ∈ s.scopeStack.toList, (slot s.tree x).opcode ≠ opMethod

/-- the index on top of the scope stack -/
def topOf (s : PState) : Nat := s.scopeStack.back?.getD INV

/-- the invariant of the parser state in the strict mode -/
structure SP (d : Bytes) (s : PState) : Prop where
  fp : FP d s
  ab : s.allBlocks = true
  nm : StackNM s

theorem scopeCurrent_top {d : Bytes} {s : PState} (h : FP d s) (hne : s.scopeStack.size ≠ 0) :
    scopeCurrent s = .ok (some (topOf s), s) ∧ live s.tree (topOf s) = true ∧ topOf s ∈ s.scopeStack.toList := by
  unfold scopeCurrent topOf
  cases hb : s.scopeStack.back? with
  | none =>
    exfalso; apply hne
    simp only [Array.back?_eq_none_iff] at hb
    rw [hb]; rfl
  | some sc =>
    have hmem : sc ∈ s.scopeStack.toList := Array.mem_toList_iff.mpr (Array.mem_of_back? hb)
    have hl := h.scopes sc hmem
    refine ⟨?_, hl, hmem⟩
    simp only [objectAt_live hl, Option.getD_some]
    rfl

theorem topOf_push (s : PState) (x : Nat) {s' : PState} (h : s'.scopeStack = s.scopeStack.push x) : topOf s' = x := by
  unfold topOf; rw [h]; simp

/-- `StackNM` after a step: the stack of `s'` holds entries of `s` (whose being-a-method did not change) and `extra` -/
theorem StackNM.step {s s' : PState} {d : Bytes} (h : StackNM s) (hf : FP d s)
    (hmK : ∀ x, live s.tree x = true → ((slot s'.tree x).opcode = opMethod ↔ (slot s.tree x).opcode = opMethod))
    (hst : ∀ x ∈ s'.scopeStack.toList, x ∈ s.scopeStack.toList ∨ (slot s'.tree x).opcode ≠ opMethod) : StackNM s' := by
  intro x hx
  rcases hst x hx with h0 | h0
  · exact fun hq => h x h0 ((hmK x (hf.scopes x h0)).1 hq)
  · exact h0

/-! ## the lead byte of a parsed name string -/

theorem sliceBytes_head (d : Bytes) (off len : Nat) (b : UInt8) (h : (sliceBytes d off len)[0]? = some b) :
    len ≠ 0 ∧ d[off]? = some b := by
  unfold sliceBytes at h
  rw [Array.getElem?_toList] at h
  simp only [Array.getElem?_extract] at h
  split at h
  · rename_i hlt
    refine ⟨by omega, ?_⟩
    simpa using h
  · cases h

theorem skipNamePrefix_lead (d : Bytes) (f : Nat) (r : Reader) (h : Inv d r) :
    wp (skipNamePrefix d f) (fun b r' => Inv d r' ∧ r.offset ≤ r'.offset ∧
      (r.offset < r'.offset → ∃ c, d[r.offset]? = some c ∧ c ≠ 0) ∧ (b = true → r'.offset < r'.pkgEnd)) r := by
  induction f generalizing r with
  | zero => unfold skipNamePrefix; exact wp_pure ⟨h, Nat.le_refl _, fun hq => by omega, by simp⟩
  | succ f ih =>
    unfold skipNamePrefix
    apply wp_bind
    apply wp_peekByte h
    · intro _; exact wp_pure ⟨h, Nat.le_refl _, fun hq => by omega, by simp⟩
    · intro b hlt hb
      dsimp only
      split
      · exact wp_pure ⟨h, Nat.le_refl _, fun hq => by omega, fun _ => hlt⟩
      · rename_i hpre
        apply wp_bind
        apply wp_readByte h
        · intro hc; omega
        · intro b' _ _
          have h' : Inv d { r with offset := r.offset + 1 } := ⟨by show r.offset + 1 ≤ d.size; have := h.2; omega, h.2⟩
          refine wp_mono (ih _ h') ?_
          intro a r' ⟨hi, hle, _, hbt⟩
          refine ⟨hi, by simp only at hle; omega, fun _ => ⟨b, hb, ?_⟩, hbt⟩
          intro hz
          apply hpre
          rw [hz]
          decide
theorem parseNamePath_null (d : Bytes) (hd : d.size + 1024 ≤ 4294967296) (next start : Nat) (r : Reader) (h : Inv d r) :
    wp (parseNamePath d next start) (fun a r' => next = 0 → a = some (start + 1) ∧ r' = r) r := by
  by_cases hn : next = 0
  · subst hn
    unfold parseNamePath
    rw [if_pos rfl]
    exact wp_pure (fun _ => ⟨rfl, rfl⟩)
  · exact wp_mono (parseNamePath_spec d hd next start r h) (fun _ _ _ h0 => absurd h0 hn)

/-- a name string that was parsed and is not empty starts with a byte other than zero: a prefix character, the
dual / multi name prefix or a lead name character -/
theorem parseNameString_lead (d : Bytes) (hd : d.size + 1024 ≤ 4294967296) (r : Reader) (h : Inv d r) :
    wp (parseNameString d) (fun a _ => a.2 = .ok → a.1.len ≠ 0 → ∃ c, d[r.offset]? = some c ∧ c ≠ 0) r := by
  unfold parseNameString
  have body : ∀ data : Option Nat,
      wp (do
        let startOffset ← offset
        if (← skipNamePrefix d (d.size + 1)) then
          let next := ((← readByte d).getD 0).toNat
          match ← parseNamePath d next startOffset with
          | none => return ({}, PRes.failed)
          | some startOffset =>
            return ({ data := data, len := u32 ((← offset) + 4294967296 - startOffset) }, PRes.ok)
        else return ({}, PRes.failed) : LexM (Slice × PRes))
      (fun a _ => a.2 = .ok → a.1.len ≠ 0 → ∃ c, d[r.offset]? = some c ∧ c ≠ 0) r := by
    intro data
    apply wp_bind; apply wp_offset
    apply wp_bind
    refine wp_mono (skipNamePrefix_lead d _ r h) ?_
    intro b r1 ⟨hi1, hle1, hlead, hbt⟩
    split
    · rename_i hb
      have hlt1 := hbt hb
      apply wp_bind
      apply wp_readByte hi1
      · intro hc; omega
      · intro b1 _ hb1
        have hi2 : Inv d { r1 with offset := r1.offset + 1 } := ⟨by show r1.offset + 1 ≤ d.size; have := hi1.2; omega, hi1.2⟩
        apply wp_bind
        by_cases hz : b1.toNat = 0
        · refine wp_mono (parseNamePath_null d hd _ r.offset _ hi2) ?_
          intro a r3 hnull
          obtain ⟨ha, hr3⟩ := hnull (by show ((some b1).getD 0).toNat = 0; exact hz)
          subst ha; subst hr3
          dsimp only
          apply wp_bind; apply wp_offset
          refine wp_pure ?_
          intro _ hlen
          by_cases hmv : r.offset < r1.offset
          · exact hlead hmv
          · exfalso; apply hlen
            have : r1.offset = r.offset := by omega
            show u32 (r1.offset + 1 + 4294967296 - (r.offset + 1)) = 0
            rw [this]; unfold u32
            omega
        · refine wp_mono (parseNamePath_spec d hd _ r.offset _ hi2) ?_
          intro a r3 _
          split
          · exact wp_pure (fun hc => by cases hc)
          · apply wp_bind; apply wp_offset
            refine wp_pure ?_
            intro _ _
            by_cases hmv : r.offset < r1.offset
            · exact hlead hmv
            · have : r1.offset = r.offset := by omega
              rw [this] at hb1
              refine ⟨b1, hb1, ?_⟩
              intro hq; apply hz; rw [hq]; rfl
    · exact wp_pure (fun hc => by cases hc)
  apply wp_bind
  apply wp_dataPtr h
  · intro _; exact body none
  · intro _; exact body (some r.offset)

/-- `parseNameString` with the lead-byte fact -/
theorem rel_parseNameString' (d : Bytes) (hd : d.size + 1024 ≤ 4294967296) : LexRel d (parseNameString d) (fun r a r' =>
    NameRel d r a r' ∧ (a.2 = .ok → ∀ b, (sliceExpr d a.1)[0]? = some b → b ≠ 0)) := by
  intro r hr
  obtain ⟨a, r', e, hi, hR⟩ := rel_parseNameString d hd r hr
  obtain ⟨a1, r1, e1, _, _, hdat⟩ := parseNameString_slice d hd r hr
  obtain ⟨a2, r2, e2, hlead⟩ := parseNameString_lead d hd r hr
  rw [e] at e1 e2
  cases e1; cases e2
  refine ⟨a, r', e, hi, hR, ?_⟩
  intro hok b hb
  have hd0 := hdat hok
  unfold sliceExpr at hb
  rw [hd0] at hb
  obtain ⟨hlen, hb0⟩ := sliceBytes_head d _ _ b hb
  obtain ⟨c, hc, hcn⟩ := hlead hok hlen
  rw [hc] at hb0
  cases hb0
  exact hcn

/-! ## incomplete methods nobody can find -/

theorem chain_transfer' {t t' : ObjectTree} (hl : ∀ y, live t y = true → live t' y = true) :
    ∀ (l : List Nat) (x : Nat), Chain t (C13.P t) x l → (∀ y ∈ l, C13.P t' y = C13.P t y) → Chain t' (C13.P t') x l := by
  intro l
  induction l with
  | nil => intro x h _; exact h
  | cons y ys ih =>
    intro x h hp
    obtain ⟨rfl, hy, hc⟩ := h
    refine ⟨rfl, hl _ hy, ?_⟩
    rw [hp x (List.mem_cons_self ..)]
    exact ih _ hc (fun z hz => hp z (List.mem_cons_of_mem _ hz))

theorem chain_live {t : ObjectTree} : ∀ (l : List Nat) (x : Nat), Chain t (C13.P t) x l → ∀ y ∈ l, live t y = true := by
  intro l
  induction l with
  | nil => intro x _ y hy; cases hy
  | cons z zs ih =>
    intro x h y hy
    obtain ⟨rfl, hz, hc⟩ := h
    rcases List.mem_cons.1 hy with e | e
    · rw [e]; exact hz
    · exact ih _ hc y e

/-- objects that existed keep their ancestors when the objects that existed keep their parents -/
theorem anc_old {t t' : ObjectTree} (w : WF t) (w' : WF t') (hl : ∀ y, live t y = true → live t' y = true)
    (hp : ∀ y, live t y = true → C13.P t' y = C13.P t y) {a r0 : Nat} (hr : live t r0 = true) (h : anc t' a r0) : anc t a r0 := by
  obtain ⟨l, hc, _⟩ := w.parChain r0 (Or.inr hr)
  have hc' : Chain t' (C13.P t') r0 l := chain_transfer' hl l r0 hc (fun y hy => hp y (chain_live l r0 hc y hy))
  obtain ⟨l', hc2, hm⟩ := h
  have : l' = l := chain_det (C13.P t') w'.size_le _ _ _ hc2 hc'
  rw [this] at hm
  exact ⟨l, hc, hm⟩

theorem not_anc_INV {t : ObjectTree} (w : WF t) (a : Nat) : ¬ anc t a INV := by
  rintro ⟨l, hc, hm⟩
  cases l with
  | nil => cases hm
  | cons y ys =>
    obtain ⟨rfl, hy, _⟩ := hc
    exact live_ne_INV w.size_le hy rfl

/-- an ancestor of an element of the parent chain of `c` is an ancestor of `c` -/
theorem anc_of_mem_chain {t : ObjectTree} (w : WF t) {a b : Nat} : ∀ (l : List Nat) (c : Nat), Chain t (C13.P t) c l → b ∈ l →
    anc t a b → anc t a c := by
  intro l
  induction l with
  | nil => intro c _ hm _; cases hm
  | cons x xs ih =>
    intro c hc hm hab
    obtain ⟨rfl, hx, hc'⟩ := hc
    rcases List.mem_cons.1 hm with e | e
    · rw [← e]; exact hab
    · have := ih _ hc' e hab
      by_cases hca : c = a
      · rw [hca]; exact w.anc_self (hca ▸ hx)
      · exact (w.anc_step hx hca).2 this

open Firefly.AmlTree.ObjectTree in
theorem closestLoop_mem {t : ObjectTree} (hs : t.pool.size ≤ INV) (named : Nat → Option Bool)
    (hn : ∀ i, live t i = true → (named (slot t i).infoIndex).isSome = true) :
    ∀ (l : List Nat) (f a : Nat), Chain t (C13.P t) a l → l.length ≤ f →
      ∃ r, closestLoop named t f a = .ok r ∧ (r = INV ∨ r ∈ l) := by
  intro l
  induction l with
  | nil =>
    intro f a hc _
    have : a = INV := hc
    cases f <;> exact ⟨INV, by simp [closestLoop, this, INV], Or.inl rfl⟩
  | cons x xs ih =>
    intro f a hc hf
    obtain ⟨rfl, hl, hc'⟩ := hc
    cases f with
    | zero => simp at hf
    | succ f =>
      have hne : a ≠ InvalidIndex := live_ne_INV hs hl
      simp only [closestLoop, hne, if_false, objectAt_live hl, deref_some, obj_eq (live_lt hl), bind, Except.bind]
      by_cases hsc : (slot t a).opcode = pOpScope
      · simp only [hsc, if_true]; exact ⟨_, rfl, Or.inl rfl⟩
      · simp only [hsc, if_false]
        have := hn a hl
        cases hnm : named (slot t a).infoIndex with
        | none => simp [hnm] at this
        | some b =>
          cases b with
          | true => exact ⟨a, rfl, Or.inr (List.mem_cons_self ..)⟩
          | false =>
            obtain ⟨r, er, hr⟩ := ih f _ hc' (by simpa using hf)
            refine ⟨r, er, ?_⟩
            rcases hr with hr | hr
            · exact Or.inl hr
            · exact Or.inr (List.mem_cons_of_mem _ hr)

/-- the closest named ancestor is an ancestor: what encloses it encloses the scope it was looked up from -/
theorem closest_anc {t : ObjectTree} (w : WF t) (named : Nat → Option Bool)
    (hn : ∀ i, live t i = true → (named (slot t i).infoIndex).isSome = true) (i : Nat) (hl : live t i = true) :
    ∃ r, t.ClosestNamedAncestor named (some i) = .ok r ∧ (r = INV ∨ (live t r = true ∧ ∀ a, anc t a r → anc t a i)) := by
  obtain ⟨l, hc, hlen⟩ := w.parChain (C13.P t i) (w.links hl).1
  obtain ⟨r, er, hr⟩ := closestLoop_mem w.size_le named hn l t.fuel _ hc (by simp [ObjectTree.fuel]; omega)
  refine ⟨r, by simpa [ObjectTree.ClosestNamedAncestor, obj_eq (live_lt hl), bind, Except.bind, C13.P] using er, ?_⟩
  rcases hr with hr | hr
  · exact Or.inl hr
  · have hci : Chain t (C13.P t) i (i :: l) := ⟨rfl, hl, hc⟩
    exact Or.inr ⟨chain_live l _ hc r hr, fun a ha => anc_of_mem_chain w (i :: l) i hci (List.mem_cons_of_mem _ hr) ha⟩

/-- the objects of `X` are live, and those that are methods have no name, do not enclose the root and do not
enclose `ref`: no lookup from a scope at or below `ref` finds them -/
def UnF (X : Nat → Prop) (s : PState) (ref : Nat) : Prop :=
  ∀ g, X g → live s.tree g = true ∧ ((slot s.tree g).opcode = opMethod →
    (slot s.tree g).name.b0 = 0 ∧ ¬ anc s.tree g 0 ∧ ¬ anc s.tree g ref)

theorem UnF.notFresh {s : PState} {ref c : Nat} (h : UnF X s ref) (hc : live s.tree c = false) : ¬ X c := by
  intro hx
  rw [(h c hx).1] at hc; cases hc

theorem UnF.toINV {s : PState} {ref : Nat} (h : UnF X s ref) (w : WF s.tree) : UnF X s INV :=
  fun g hg => ⟨(h g hg).1, fun ho => ⟨((h g hg).2 ho).1, ((h g hg).2 ho).2.1, not_anc_INV w _⟩⟩

theorem UnF.notSelf {s : PState} {ref : Nat} (h : UnF X s ref) (w : WF s.tree) (hl : live s.tree ref = true)
    (ho : (slot s.tree ref).opcode = opMethod) : ¬ X ref :=
  fun hx => ((h ref hx).2 ho).2.2 (w.anc_self hl)

/-- the same tree -/
theorem UnF.ofTree {s s' : PState} {ref : Nat} (h : UnF X s ref) (ht : s'.tree = s.tree) : UnF X s' ref := by
  intro g hg; rw [ht]; exact h g hg

/-- along strict growth, for a reference that existed (or none) -/
theorem UnF.grow {s s' : PState} {ref c : Nat} (h : UnF X s ref) (g : SGrow T c s s') (w : WF s.tree) (w' : WF s'.tree)
    (hroot : live s.tree 0 = true) (hr : ref = INV ∨ live s.tree ref = true) : UnF X s' ref := by
  intro x hx
  obtain ⟨hl, hm⟩ := h x hx
  refine ⟨g.oldLive x hl, fun ho' => ?_⟩
  have ho := (g.mK x hl).1 ho'
  obtain ⟨hn, h0, hrf⟩ := hm ho
  refine ⟨by rw [g.nameK x hl ho]; exact hn, fun ha => h0 (anc_old w w' g.oldLive g.oldP hroot ha), ?_⟩
  rcases hr with hr | hr
  · rw [hr]; exact not_anc_INV w' _
  · exact fun ha => hrf (anc_old w w' g.oldLive g.oldP hr ha)

/-- a new reference under the old one -/
theorem UnF.child {s : PState} {ref c : Nat} (h : UnF X s ref) (w : WF s.tree) (hc : live s.tree c = true)
    (hp : C13.P s.tree c = ref) (hx : ¬ X c) : UnF X s c := by
  intro g hg
  obtain ⟨hl, hm⟩ := h g hg
  refine ⟨hl, fun ho => ⟨(hm ho).1, (hm ho).2.1, ?_⟩⟩
  have hne : c ≠ g := fun e => hx (e ▸ hg)
  intro ha
  have := (w.anc_step hc hne).1 ha
  rw [hp] at this
  exact (hm ho).2.2 this

/-- a detached reference -/
theorem UnF.orphan {s : PState} {ref c : Nat} (h : UnF X s ref) (w : WF s.tree) (hc : live s.tree c = true)
    (hp : C13.P s.tree c = INV) (hx : ¬ X c) : UnF X s c := by
  have := (h.toINV w).child w hc hp hx
  exact this

/-! ## facts about the opcode table -/

/-- the table row of `Method` -/
def methodInfo : Nat := pOpcodeTableIndex opMethod true

set_option maxRecDepth 20000 in
theorem method_row : argCnt methodInfo = 4 ∧ argAt methodInfo 0 = argTypePkgLen ∧ argAt methodInfo 1 = argTypeNameString ∧
    argAt methodInfo 2 = argTypeByteData ∧ argAt methodInfo 3 = argTypeTermList := by decide +kernel

theorem method_ops : pOpIsType2 opMethod = false ∧ pOpIsDataObject opMethod = false ∧ pOpIsArg opMethod = false ∧
    isTargetOp opMethod = false := by decide +kernel

theorem method_flags : (opFlags methodInfo).map (fun fl => hasFlag fl flagDeferParsing) = some false := by decide +kernel

/-- the argument kinds that create at most one detached object and touch nothing else -/
def Leaf (argType : Nat) : Prop := isSimpleArg argType = true ∨ argType = argTypePkgLen

theorem method_arg_kinds {j : Nat} (hj : j < argCnt methodInfo) : Leaf (argAt methodInfo j) ∨ argAt methodInfo j = argTypeTermList := by
  obtain ⟨h4, a0, a1, a2, a3⟩ := method_row
  rw [h4] at hj
  have : j = 0 ∨ j = 1 ∨ j = 2 ∨ j = 3 := by omega
  rcases this with h | h | h | h <;> subst h
  · exact Or.inl (Or.inr a0)
  · exact Or.inl (Or.inl (by rw [a1]; decide))
  · exact Or.inl (Or.inl (by rw [a2]; decide))
  · exact Or.inr a3

/-! ## reader lemmas of the strict mode -/

/-- `peekNextOpcode` returns what `nextOpcode` will return and leaves the reader alone -/
theorem rel_peekNextOpcode (d : Bytes) (hd : d.size + 1024 ≤ 4294967296) : LexRel d (peekNextOpcode d) (fun r a r' =>
    r' = r ∧ ∃ r2, nextOpcode d r = .ok (a, r2) ∧ Inv d r2 ∧ OpRel r a r2) := by
  intro r hr
  obtain ⟨a, r2, e, hi, hR⟩ := rel_nextOpcode d hd r hr
  have hpk : r2.pkgEnd = r.pkgEnd := by
    rcases hR with ⟨_, _, h⟩ | ⟨_, _, _, h, _⟩
    · rw [h]
    · exact h
  refine ⟨a, r, ?_, hr, rfl, r2, e, hi, hR⟩
  unfold peekNextOpcode
  show (StateT.bind (offset) _) r = _
  simp only [StateT.bind, offset, bind, Except.bind, pure, Except.pure, e, setOffset]
  have : (if r.offset > d.size then d.size else r.offset) = r.offset := by
    have := hr.1; split <;> omega
  rw [this]
  cases r; cases r2
  simp only at hpk
  subst hpk
  rfl

/-- the object budget along strict growth -/
theorem budS {d : Bytes} {k c : Nat} {s s' : PState} (h : Bud d k s) (hg : SGrow T c s s') (hi : s'.r.offset ≤ d.size)
    (hck : c ≤ k) : Bud d (k - c) s' := by
  unfold Bud at h ⊢
  have := hg.budget; have := hg.off
  omega

/-- `case pArgTypePkgLen:` in the strict mode: only the reader and the package-end stack change -/
theorem parsePkgLenArg_strict {d : Bytes} (hd : d.size + 268435456 ≤ 4294967296) {s : PState} (h : FP d s) (info curObj : Nat)
    (hab : s.allBlocks = true) (hinfo : InfoOK info) :
    ∃ a s', parsePkgLenArg d info curObj s = .ok (a, s') ∧ FP d s' ∧ a.1 = none ∧ s'.tree = s.tree ∧
      s'.scopeStack = s.scopeStack ∧ s.r.offset ≤ s'.r.offset ∧
      (s'.allBlocks = s.allBlocks ∧ s'.tableHandle = s.tableHandle ∧ s'.streamEnd = s.streamEnd) ∧
      (a.2 = .ok ∨ a.2 = .failed) := by
  unfold parsePkgLenArg
  obtain ⟨o0, s1, e1, h1, hR1, hs1⟩ := lex_step (rel_offset d) h
  refine bind_ex e1 ?_
  have hss : s1 = s := by rw [hs1, hR1.2]
  subst hss
  obtain ⟨pr, s2, e2, h2, hR2, hs2⟩ := lex_step (rel_parsePkgLengthV d) h
  refine bind_ex e2 ?_
  have ht2 : s2.tree = s1.tree := by rw [hs2]
  have hsc2 : s2.scopeStack = s1.scopeStack := by rw [hs2]
  have hsame2 : s2.allBlocks = s1.allBlocks ∧ s2.tableHandle = s1.tableHandle ∧ s2.streamEnd = s1.streamEnd := by
    rw [hs2]; exact ⟨rfl, rfl, rfl⟩
  have hle2 : s1.r.offset ≤ s2.r.offset := by
    rcases hR2.1 with ⟨_, hr⟩ | ⟨_, _, hlt, _⟩
    · rw [hr]; exact Nat.le_refl _
    · omega
  split
  · refine pure_ex ⟨h2, rfl, ht2, hsc2, hle2, hsame2, ?_⟩
    rcases hR2.1 with ⟨hq, _⟩ | ⟨hq, _⟩
    · exact Or.inr hq
    · exact Or.inl hq
  · obtain ⟨fl, hfl⟩ := opFlags_of_info hinfo
    rw [hfl]
    refine bind_ex (optP_ex fl s2) ?_
    refine bind_ex (allBlocks_ex s2) ?_
    have hab2 : s2.allBlocks = true := by rw [hsame2.1]; exact hab
    rw [hab2]
    simp only [Bool.not_true, Bool.false_eq_true, false_and, ↓reduceIte]
    obtain ⟨b, s3, e3, h3, hs3, ho3⟩ := pushPkgEnd_step h2 (u32 (o0 + pr.1))
    refine bind_ex e3 ?_
    have ht3 : s3.tree = s2.tree := by rw [hs3]
    have hsc3 : s3.scopeStack = s2.scopeStack := by rw [hs3]
    have hsame3 : s3.allBlocks = s2.allBlocks ∧ s3.tableHandle = s2.tableHandle ∧ s3.streamEnd = s2.streamEnd := by
      rw [hs3]; exact ⟨rfl, rfl, rfl⟩
    have fin : FP d s3 ∧ s3.tree = s1.tree ∧ s3.scopeStack = s1.scopeStack ∧ s1.r.offset ≤ s3.r.offset ∧
        (s3.allBlocks = s1.allBlocks ∧ s3.tableHandle = s1.tableHandle ∧ s3.streamEnd = s1.streamEnd) :=
      ⟨h3, by rw [ht3, ht2], by rw [hsc3, hsc2], by rw [ho3]; exact hle2,
       by rw [hsame3.1, hsame3.2.1, hsame3.2.2]; exact hsame2⟩
    split
    · exact pure_ex ⟨fin.1, rfl, fin.2.1, fin.2.2.1, fin.2.2.2.1, fin.2.2.2.2, Or.inr rfl⟩
    · exact pure_ex ⟨fin.1, rfl, fin.2.1, fin.2.2.1, fin.2.2.2.1, fin.2.2.2.2, Or.inl rfl⟩

theorem popPkgEnd_stepS {d : Bytes} {s : PState} (h : FP d s) :
    ∃ (a : Unit) (s' : PState), popPkgEnd d s = .ok (a, s') ∧ FP d s' ∧ s'.tree = s.tree ∧ s'.scopeStack = s.scopeStack ∧
      s'.r.offset = s.r.offset ∧ (s'.allBlocks = s.allBlocks ∧ s'.tableHandle = s.tableHandle ∧ s'.streamEnd = s.streamEnd) := by
  unfold popPkgEnd
  have e0 : (modify fun s => if s.pkgEndStack.size ≠ 0 then { s with pkgEndStack := s.pkgEndStack.pop } else s : P Unit) s =
      .ok ((), { s with pkgEndStack := s.pkgEndStack.pop }) := by
    show Except.ok ((), if s.pkgEndStack.size ≠ 0 then { s with pkgEndStack := s.pkgEndStack.pop } else s) = _
    split
    · rfl
    · rename_i h0
      have h0 : s.pkgEndStack.size = 0 := by omega
      have : s.pkgEndStack.pop = s.pkgEndStack := by
        have : s.pkgEndStack = #[] := Array.eq_empty_of_size_eq_zero h0
        rw [this]; rfl
      rw [this]
  refine bind_ex e0 ?_
  have h0 : FP d { s with pkgEndStack := s.pkgEndStack.pop } := ⟨h.inv, h.tree, h.scopes⟩
  have e1 : pkgEndTop { s with pkgEndStack := s.pkgEndStack.pop } =
      .ok (s.pkgEndStack.pop.back?, { s with pkgEndStack := s.pkgEndStack.pop }) := rfl
  refine bind_ex e1 ?_
  cases s.pkgEndStack.pop.back? with
  | none => exact pure_ex ⟨h0, rfl, rfl, rfl, rfl, rfl, rfl⟩
  | some e =>
    obtain ⟨b, s2, e2, h2, hR2, hs2⟩ := lex_step (rel_setPkgEnd d e) h0
    refine bind_ex e2 ?_
    exact pure_ex ⟨h2, by rw [hs2], by rw [hs2], hR2.1, by rw [hs2]; exact ⟨rfl, rfl, rfl⟩⟩

/-- `if p.r.EOF() { p.popPkgEnd() }` -/
theorem eofPop_step {d : Bytes} {s : PState} (h : FP d s) :
    ∃ (a : Unit) (s' : PState), (do if (← lex eof) then popPkgEnd d else pure () : P Unit) s = .ok (a, s') ∧ FP d s' ∧
      s'.tree = s.tree ∧ s'.scopeStack = s.scopeStack ∧ s'.r.offset = s.r.offset ∧
      (s'.allBlocks = s.allBlocks ∧ s'.tableHandle = s.tableHandle ∧ s'.streamEnd = s.streamEnd) := by
  obtain ⟨b, s1, e1, h1, hR1, hs1⟩ := lex_step (rel_eof d) h
  refine bind_ex e1 ?_
  have hs : s1 = s := by rw [hs1, hR1.2]
  subst hs
  cases b with
  | true => exact popPkgEnd_stepS h
  | false => exact pure_ex ⟨h, rfl, rfl, rfl, rfl, rfl, rfl⟩

/-- `detach(obj, arg)` of an argument of `obj` -/
theorem detach_stepS {d : Bytes} {s : PState} (h : FP d s) {obj arg : Nat} (ho : live s.tree obj = true)
    (ha : live s.tree arg = true) (hp : C13.P s.tree arg = obj) :
    ∃ s1, tree (·.detach obj arg) s = .ok ((), s1) ∧ FP d s1 ∧ s1 = { s with tree := s1.tree } ∧
      s1.tree.pool.size = s.tree.pool.size ∧ SamePay s.tree s1.tree ∧ (∀ x, live s1.tree x = live s.tree x) ∧
      (∀ x, C13.P s1.tree x = if x = arg then INV else C13.P s.tree x) ∧
      (∀ x, Nx s1.tree x = if x = arg then INV else if x = Pv s.tree arg ∧ Pv s.tree arg ≠ INV then Nx s.tree arg else Nx s.tree x) ∧
      (∀ x, Fi s1.tree x = if x = obj ∧ Fi s.tree obj = arg then Nx s.tree arg else Fi s.tree x) := by
  have hpre : detachPre s.tree obj arg = true := by
    simp only [detachPre, Bool.and_eq_true, decide_eq_true_eq]
    exact ⟨⟨ho, ha⟩, hp⟩
  obtain ⟨t', e, w', hsz, hlive, _, hP, _, hNx, hFi, _⟩ := detach_wf h.tree.wf hpre
  have sp := detach_samePay e
  have ht' : TreeG t' := by
    refine ⟨w', ?_, by rw [hlive]; exact h.tree.root⟩
    intro x hx
    have hi : (slot t' x).infoIndex = (slot s.tree x).infoIndex := congrArg (fun p => p.2.1) (sp.pay x)
    rw [hi]; exact h.tree.info x (by rw [← hlive]; exact hx)
  exact ⟨_, tree_ex e, h.withTree ht' (fun x hx => by rw [hlive]; exact hx), rfl, hsz, sp, hlive, hP, hNx, hFi⟩

/-- `if p.r.EOF() { p.popPkgEnd() }` followed by `k` -/
theorem eofPop_np {d : Bytes} {β : Type} {k : Unit → P β} {s : PState} (h : FP d s) {R : β → PState → Prop}
    (hk : ∀ s', FP d s' → s'.tree = s.tree → s'.scopeStack = s.scopeStack → s'.r.offset = s.r.offset →
      (s'.allBlocks = s.allBlocks ∧ s'.tableHandle = s.tableHandle ∧ s'.streamEnd = s.streamEnd) → NPs (k ()) s' R) :
    NPs (lex eof >>= fun b => if b = true then popPkgEnd d >>= k else k ()) s R := by
  obtain ⟨b, s1, e1, h1, hR1, hs1⟩ := lex_step (rel_eof d) h
  refine NPs.step e1 ?_
  have hs : s1 = s := by rw [hs1, hR1.2]
  subst hs
  cases b with
  | true =>
    obtain ⟨_, s2, e2, h2, ht2, hsc2, ho2, hsame2⟩ := popPkgEnd_stepS h
    rw [if_pos rfl]
    exact NPs.step e2 (hk s2 h2 ht2 hsc2 ho2 hsame2)
  | false =>
    rw [if_neg (by decide)]
    exact hk s1 h rfl rfl rfl ⟨rfl, rfl, rfl⟩

theorem scopeEnter_ex (x : Nat) (s : PState) : scopeEnter x s = .ok ((), { s with scopeStack := s.scopeStack.push x }) := rfl

/-! ## the contracts of the mutually recursive functions in the strict mode -/

/-- touched parents of a function that works under the current scope -/
abbrev TTop (s : PState) : Nat → Prop := fun x => x = topOf s
/-- touched parents of a function that reads the arguments of `curObj` -/
abbrev TCur (s : PState) (curObj : Nat) : Nat → Prop := fun x => x = curObj ∨ x = C13.P s.tree curObj

/-- `curObj` hangs under an object that is not a method (or nowhere) -/
def ParNM (s : PState) (curObj : Nat) : Prop :=
  C13.P s.tree curObj = INV ∨ (slot s.tree (C13.P s.tree curObj)).opcode ≠ opMethod

/-- the method invariant while argument `j` of `curObj` (table row `info`) is read: a `Method` gets its name and
its flags first -/
def MSx (X : Nat → Prop) (s : PState) (info curObj j : Nat) : Prop :=
  if info = methodInfo then
    (j ≤ 1 → MS X (some curObj) s.tree ∧ Fi s.tree curObj = INV ∧ La s.tree curObj = INV) ∧
    (j = 2 → MS X (some curObj) s.tree ∧ La s.tree curObj = Fi s.tree curObj ∧ live s.tree (Fi s.tree curObj) = true) ∧
    (3 ≤ j → MS X none s.tree)
  else MS X none s.tree

theorem MSx.toSome {s : PState} {info curObj j : Nat} (h : MSx X s info curObj j) : MS X (some curObj) s.tree := by
  unfold MSx at h
  split at h
  · by_cases h1 : j ≤ 1
    · exact (h.1 h1).1
    · by_cases h2 : j = 2
      · exact (h.2.1 h2).1
      · exact (h.2.2 (by omega)).weaken _
  · exact h.weaken _

/-- a new childless object -/
theorem MSx.ofBlank' {s : PState} {info c : Nat} (h : MS X (some c) s.tree)
    (hnm : info ≠ methodInfo → (slot s.tree c).opcode ≠ opMethod) (w : WF s.tree) (hl : live s.tree c = true)
    (hfi : Fi s.tree c = INV) : MSx X s info c 0 := by
  unfold MSx
  split
  · refine ⟨fun _ => ⟨h, hfi, (w.lP hl).ends.1 hfi⟩, fun h2 => by omega, fun h3 => by omega⟩
  · rename_i hi
    exact h.ofSome (hnm hi)

theorem MSx.ofBlank {s : PState} {info c : Nat} (h : MS X none s.tree) (w : WF s.tree) (hl : live s.tree c = true)
    (hfi : Fi s.tree c = INV) : MSx X s info c 0 := by
  unfold MSx
  split
  · refine ⟨fun _ => ⟨h.weaken _, hfi, (w.lP hl).ends.1 hfi⟩, fun h2 => by omega, fun h3 => by omega⟩
  · exact h

/-- what every strict-mode function leaves behind (`ok` = it reported success) -/
def PostS (d : Bytes) (T : Nat → Prop) (c : Nat) (s s' : PState) (ok extra : Prop) : Prop :=
  FP d s' ∧ SGrow T c s s' ∧ s.scopeStack.size ≤ s'.scopeStack.size ∧ (ok → s'.scopeStack = s.scopeStack ∧ extra)

/-- panic-freedom (and what they guarantee) of the mutually recursive functions with fuel `f` in the strict mode -/
structure SNP (X : Nat → Prop) (d : Bytes) (f : Nat) : Prop where
  next : ∀ {s : PState}, SP d s → MS X none s.tree → UnF X s (topOf s) → s.scopeStack.size ≠ 0 → Bud d 0 s →
    NPs (parseNextObject d f) s (fun res s' => PostS d (TTop s) 0 s s' (res ≠ .failed) (MS X none s'.tree))
  namePath : ∀ {s : PState}, SP d s → MS X none s.tree → UnF X s (topOf s) → s.scopeStack.size ≠ 0 → Bud d 0 s →
    NPs (parseNamePathOrMethodCall d f) s (fun res s' => PostS d (TTop s) 0 s s' (res ≠ .failed)
      (MS X none s'.tree ∧ live s.tree (La s'.tree (topOf s)) = false ∧ live s'.tree (La s'.tree (topOf s)) = true))
  termList : ∀ {s : PState}, SP d s → MS X none s.tree → UnF X s (topOf s) → s.scopeStack.size ≠ 0 → Bud d 0 s →
    NPs (termListLoop d f) s (fun b s' => PostS d (TTop s) 0 s s' (b = true) (MS X none s'.tree))
  methodArgs : ∀ {s : PState} (n : Nat), SP d s → MS X none s.tree → UnF X s (topOf s) → s.scopeStack.size ≠ 0 → Bud d 0 s →
    NPs (methodArgsLoop d f n) s (fun b s' => PostS d (TTop s) 0 s s' (b = true) (MS X none s'.tree))
  objArgs : ∀ {s : PState} (curObj : Nat), SP d s → live s.tree curObj = true →
    rowFacts (slot s.tree curObj).infoIndex = true → Att s (slot s.tree curObj).infoIndex curObj → Bud d 14 s →
    MSx X s (slot s.tree curObj).infoIndex curObj 0 → UnF X s curObj →
    ((slot s.tree curObj).opcode = opMethod → (slot s.tree curObj).infoIndex = methodInfo) → ParNM s curObj →
    NPs (parseObjectArgs d f curObj) s (fun res s' => PostS d (TCur s curObj) 14 s s' (res ≠ .failed) (MS X none s'.tree))
  args : ∀ {s : PState} (info curObj j : Nat), SP d s → live s.tree curObj = true → InfoOK info → rowFacts info = true →
    j ≤ argCnt info → Bud d (2 * (7 - j)) s → Att s info curObj → PrevOK s info curObj j → MSx X s info curObj j →
    UnF X s curObj →
    ((slot s.tree curObj).opcode = opMethod → info = methodInfo) → ParNM s curObj →
    NPs (parseArgs d f info curObj j) s (fun res s' => PostS d (TCur s curObj) (2 * (7 - j)) s s' (res ≠ .failed) (MS X none s'.tree))
  arg : ∀ {s : PState} (info curObj argType : Nat) (ex : Option Nat), SP d s → live s.tree curObj = true → InfoOK info →
    Bud d 2 s →
    (argType = argTypeFieldList → C13.P s.tree curObj ≠ INV ∧ live s.tree (La s.tree curObj) = true ∧
      ∃ v, (slot s.tree (La s.tree curObj)).value = .u64 v) →
    MS X ex s.tree → UnF X s curObj → (¬ Leaf argType → ex = none) →
    ((slot s.tree curObj).opcode = opMethod → Leaf argType ∨ argType = argTypeTermList) → ParNM s curObj →
    NPs (parseArg d f info curObj argType) s (fun a s' => PostS d (TCur s curObj) 2 s s' (a.2 ≠ .failed) (MS X ex s'.tree) ∧
      RetOK s s' a.1 ∧ (Leaf argType → ∀ x, live s.tree x = true → slot s'.tree x = slot s.tree x) ∧
      (argType = argTypeByteData → a.2 = .ok → ∃ x v, a.1 = some x ∧ (slot s'.tree x).value = .u64 v) ∧
      (argType = argTypePkgLen → a.1 = none) ∧ (isSimpleArg argType = true → a.2 = .ok → ∃ x, a.1 = some x) ∧
      (Leaf argType → a.2 = .ok ∨ a.2 = .failed))
  strictTermArg : ∀ {s : PState} (curObj : Nat), SP d s → live s.tree curObj = true →
    (slot s.tree curObj).opcode ≠ opMethod → MS X none s.tree → UnF X s curObj → Bud d 2 s →
    NPs (parseStrictTermArg d f curObj) s (fun a s' => PostS d (fun x => x = curObj) 2 s s' (a.2 ≠ .failed) (MS X none s'.tree) ∧
      RetOK s s' a.1)
  target : ∀ {s : PState}, SP d s → MS X none s.tree → UnF X s INV → Bud d 1 s →
    NPs (parseTarget d f) s (fun a s' => PostS d (fun _ => False) 1 s s' (a.2 ≠ .failed) (MS X none s'.tree) ∧ RetOK s s' a.1)

/-- the strict invariant after a step that left the stack alone -/
theorem SP.step {d : Bytes} {s s' : PState} (h : SP d s) (hf : FP d s') (g : SGrow T c s s')
    (hst : ∀ x ∈ s'.scopeStack.toList, x ∈ s.scopeStack.toList ∨ (slot s'.tree x).opcode ≠ opMethod) : SP d s' :=
  ⟨hf, by rw [g.same.1]; exact h.ab, h.nm.step h.fp g.mK hst⟩

theorem live_not_INV {t : ObjectTree} (w : WF t) : live t INV = false := by
  cases h : live t INV with
  | false => rfl
  | true => exact absurd rfl (live_ne_INV w.size_le h)

/-- `parseTarget()` in the strict mode -/
theorem target_stepS {d : Bytes} (hd : d.size + 268435456 ≤ 4294967296) {f : Nat} (ih : SNP X d f) {s : PState}
    (hS : SP d s) (hms : MS X none s.tree) (hu : UnF X s INV) (hb : Bud d 1 s) :
    NPs (parseTarget d (f + 1)) s (fun a s' => PostS d (fun _ => False) 1 s s' (a.2 ≠ .failed) (MS X none s'.tree) ∧ RetOK s s' a.1) := by
  have hd' : d.size + 1024 ≤ 4294967296 := by omega
  have h := hS.fp
  unfold parseTarget
  obtain ⟨o0, s1, e1, h1, hR1, hs1⟩ := lex_step (rel_offset d) h
  refine NPs.step e1 ?_
  have hss : s1 = s := by rw [hs1, hR1.2]
  subst hss
  obtain ⟨opr, s2, e2, h2, hR2, hs2⟩ := lex_step (rel_nextOpcode d hd') h
  refine NPs.step e2 ?_
  have ht2 : s2.tree = s1.tree := by rw [hs2]
  have hsc2 : s2.scopeStack = s1.scopeStack := by rw [hs2]
  rcases hR2 with ⟨hfail, _, hr2⟩ | ⟨hok, hbad, hop, _, hlt, _⟩
  · -- a name
    rw [if_neg (by rw [hfail]; decide)]
    obtain ⟨_, s3, e3, h3, hR3, hs3⟩ := lex_step (rel_setOffset d o0) h2
    refine NPs.step e3 ?_
    have hr3 : s3.r = s1.r := by
      have hoff : s3.r.offset = s1.r.offset := by
        rw [hR3.2, hR1.1]; have := h.inv.1; split <;> omega
      have hpk : s3.r.pkgEnd = s1.r.pkgEnd := by rw [hR3.1, hr2]
      cases hq : s3.r; cases hq1 : s1.r
      rw [hq] at hoff hpk; rw [hq1] at hoff hpk
      simp only at hoff hpk; rw [hoff, hpk]
    have hss3 : s3 = s1 := by rw [hs3, hs2, hr3]
    subst hss3
    obtain ⟨n, s4, e4, h4, f4, hr4, hop4, _⟩ := newObject_step h3 opIntNamePath (hb.mono (Nat.le_refl _)).size_lt (by decide)
      info_const.2.2.2.2.2.2.1
    refine NPs.step e4 ?_
    have hobj : live s4.tree n = true := f4.liven
    obtain ⟨s5, e5, h5, hp5, _, hr5⟩ := upd_step h4 hobj (fun o => { o with amlOffset := o0 }) (by keeps_links) Iff.rfl
      (h4.tree.info _ hobj)
    refine NPs.step e5 ?_
    have hobj5 : live s5.tree n = true := by rw [hp5.links.live]; exact hobj
    obtain ⟨res, s6, e6, h6, hp6, _, _⟩ := setNameValue_tot hd' h5 hobj5
    have f6 := (f4.thenPay hp5).thenPay hp6
    refine NPs.step e6 (NPs.pure ⟨⟨h6, SGrow.ofFresh1 f6, by rw [f6.scope]; exact Nat.le_refl _, fun _ => ⟨f6.scope, ?_⟩⟩, ?_⟩)
    · apply hms.fresh f6
      intro hq
      exfalso
      have := (hp5.trans hp6).mth.1 hq
      rw [hop4] at this
      revert this; decide
    · intro a ha
      cases ha
      exact ⟨f6.nlive, f6.liven, f6.pn⟩
  · rw [if_pos hok]
    have g2 : SGrow (fun _ => False) 0 s1 s2 := SGrow.ofLex hs2 (by omega)
    have post2 : PostS d (fun _ => False) 1 s1 s2 True (MS X none s2.tree) :=
      ⟨h2, g2.weaken (by omega), by rw [hsc2]; exact Nat.le_refl _, fun _ => ⟨hsc2, by rw [ht2]; exact hms⟩⟩
    by_cases hz : opr.1 = opZero
    · rw [if_pos hz]
      exact NPs.pure ⟨⟨post2.1, post2.2.1, post2.2.2.1, fun _ => post2.2.2.2 trivial⟩, fun a ha => by cases ha⟩
    · rw [if_neg hz]
      split
      · rename_i htarget
        have htop : isTargetOp opr.1 = true := by
          unfold isTargetOp
          simp only [Bool.or_eq_true, beq_iff_eq]
          rcases htarget with h | h | h | h | h
          · exact Or.inl (Or.inl (Or.inl (Or.inl h)))
          · exact Or.inl (Or.inl (Or.inl (Or.inr h)))
          · exact Or.inl (Or.inl (Or.inr h))
          · exact Or.inl (Or.inr h)
          · exact Or.inr h
        have hnm : opr.1 ≠ opMethod := by
          intro hq; rw [hq, method_ops.2.2.2] at htop; cases htop
        obtain ⟨hrow, hinfo, hnf, hnofl⟩ := op_facts hop hbad
        have hb2 : Bud d 17 s2 := hb.consume ht2 hlt h2.inv.1
        obtain ⟨n, s3, e3, h3, f3, hr3, hop3, hinfo3, _⟩ := newObject_step h2 opr.1 (hb2.mono (k' := 1) (by omega)).size_lt hnf hinfo
        refine NPs.step e3 ?_
        have hobj : live s3.tree n = true := f3.liven
        obtain ⟨s4, e4, h4, hp4, hsl4, hr4⟩ := upd_step h3 hobj (fun o => { o with amlOffset := o0 }) (by keeps_links) Iff.rfl
          (h3.tree.info _ hobj)
        refine NPs.step e4 ?_
        have hobj4 : live s4.tree n = true := by rw [hp4.links.live]; exact hobj
        have hinfo4 : (slot s4.tree n).infoIndex = pOpcodeTableIndex opr.1 true := by rw [hsl4]; exact hinfo3
        have hop4 : (slot s4.tree n).opcode = opr.1 := by rw [hsl4]; exact hop3
        have f4 : Fresh1 n s2 s4 := f3.thenPay hp4
        have g4 : SGrow (TCur s4 n) 1 s2 s4 := SGrow.ofFresh1 f4
        have hb4 : Bud d 14 s4 := by
          have := budS hb2 g4 h4.inv.1 (by omega); exact this.mono (by omega)
        have hms2 : MS X none s2.tree := by rw [ht2]; exact hms
        have hms4 : MS X none s4.tree := hms2.fresh f4 (fun hq => absurd (hop4 ▸ hq) hnm)
        have hsc4 : s4.scopeStack = s1.scopeStack := by rw [f4.scope, hsc2]
        have g14 : SGrow (TCur s4 n) 1 s1 s4 := (SGrow.ofLex hs2 (by omega)).trans g4
        have hS4 : SP d s4 := hS.step h4 g14 (fun x hx => Or.inl (by rw [← hsc4]; exact hx))
        have hn1 : live s1.tree n = false := by rw [← ht2]; exact f4.nlive
        have hu4 : UnF X s4 n := ((hu.grow g14 h.tree.wf h4.tree.wf h.tree.root (Or.inl rfl)).orphan h4.tree.wf hobj4 f4.pn
          (hu.notFresh hn1))
        have := ih.objArgs (s := s4) n hS4 hobj4 (by rw [hinfo4]; exact hrow) (Or.inr (by rw [hinfo4]; exact hnofl htop)) hb4
          (MSx.ofBlank hms4 h4.tree.wf hobj4 f4.fin) hu4 (fun hq => absurd (hop4 ▸ hq) hnm) (Or.inl f4.pn)
        refine NPs.bind this ?_
        intro res s5 ⟨h5, g5, hsz5, hok5⟩
        refine NPs.pure ⟨⟨h5, ?_, by rw [← hsc4]; exact hsz5, fun hq => ⟨by rw [(hok5 hq).1, hsc4], (hok5 hq).2⟩⟩, ?_⟩
        · have g25 := SGrow.absorb hs2 hlt (g4.trans g5) (by omega)
          refine (g25.mono h.tree.wf ?_).weaken (by omega)
          intro x hx hT
          rcases hT with hT | hT
          · rw [hT, hn1] at hx; cases hx
          · rw [hT, f4.pn, live_not_INV h.tree.wf] at hx; cases hx
        · intro a ha
          cases ha
          exact ⟨hn1, g5.oldLive _ hobj4, by rw [g5.oldP _ hobj4]; exact f4.pn⟩
      · exact NPs.pure ⟨⟨post2.1, post2.2.1, post2.2.2.1, fun hq => absurd rfl hq⟩, fun a ha => by cases ha⟩

theorem lex_of_eq {α : Type} {x : LexM α} {s : PState} {a : α} {r' : Reader} (e : x s.r = .ok (a, r')) :
    lex x s = .ok (a, { s with r := r' }) := by
  unfold lex
  simp only [e, bind, Except.bind, pure, Except.pure]

theorem stack_pop_push (a : Array Nat) (x : Nat) : (a.push x).pop = a := Array.pop_push

/-- `parseStrictTermArg(curObj)` -/
theorem strictTermArg_stepS {d : Bytes} (hd : d.size + 268435456 ≤ 4294967296) {f : Nat} (ih : SNP X d f) {s : PState}
    (curObj : Nat) (hS : SP d s) (hc : live s.tree curObj = true) (hnm : (slot s.tree curObj).opcode ≠ opMethod)
    (hms : MS X none s.tree) (hu : UnF X s curObj) (hb : Bud d 2 s) :
    NPs (parseStrictTermArg d (f + 1) curObj) s (fun a s' =>
      PostS d (fun x => x = curObj) 2 s s' (a.2 ≠ .failed) (MS X none s'.tree) ∧ RetOK s s' a.1) := by
  have hd' : d.size + 1024 ≤ 4294967296 := by omega
  have h := hS.fp
  have w := h.tree.wf
  unfold parseStrictTermArg
  obtain ⟨o0, s1, e1, h1, hR1, hs1⟩ := lex_step (rel_offset d) h
  refine NPs.step e1 ?_
  have hss : s1 = s := by rw [hs1, hR1.2]
  subst hss
  obtain ⟨opr, s2, e2, h2, ⟨hr2, r2, en, hi2, hR⟩, hs2⟩ := lex_step (rel_peekNextOpcode d hd') h
  refine NPs.step e2 ?_
  have hss2 : s2 = s1 := by rw [hs2, hr2]
  subst hss2
  have hidx : (slot s2.tree curObj).index = curObj := w.index_eq curObj (live_lt hc)
  by_cases hok : opr.2 = .ok
  · rw [if_neg (by rw [hok]; decide)]
    rcases hR with ⟨hf, _, _⟩ | ⟨_, hbad, hop, hpk, hlt, _⟩
    · rw [hok] at hf; cases hf
    split
    · exact NPs.pure ⟨⟨h, (SGrow.refl s2).weaken (by omega), Nat.le_refl _, fun hq => absurd rfl hq⟩, fun a ha => by cases ha⟩
    · rename_i hty
      have hnmo : opr.1 ≠ opMethod := by
        intro hq
        apply hty
        rw [hq, method_ops.1, method_ops.2.1, method_ops.2.2.1]
        decide
      obtain ⟨hrow, hinfo, hnf, _⟩ := op_facts hop hbad
      -- the opcode is consumed
      have e3 := lex_of_eq (s := s2) en
      refine NPs.step e3 ?_
      have h3 : FP d { s2 with r := r2 } := h.withR hi2
      generalize hs3 : ({ s2 with r := r2 } : PState) = s3 at e3 h3
      have hs3' : s3 = { s2 with r := s3.r } := by rw [← hs3]
      have ht3 : s3.tree = s2.tree := by rw [← hs3]
      have hsc3 : s3.scopeStack = s2.scopeStack := by rw [← hs3]
      have hlt3 : s2.r.offset < s3.r.offset := by rw [← hs3]; exact hlt
      have hb3 : Bud d 18 s3 := hb.consume ht3 hlt3 h3.inv.1
      obtain ⟨n, s4, e4, h4, f4, hr4, hop4, hinfo4, _⟩ := newObject_step h3 opr.1 (hb3.mono (k' := 1) (by omega)).size_lt hnf hinfo
      refine NPs.step e4 ?_
      have hobj : live s4.tree n = true := f4.liven
      obtain ⟨s5, e5, h5, hp5, hsl5, hr5⟩ := upd_step h4 hobj (fun o => { o with amlOffset := o0 }) (by keeps_links) Iff.rfl
        (h4.tree.info _ hobj)
      refine NPs.step e5 ?_
      have hobj5 : live s5.tree n = true := by rw [hp5.links.live]; exact hobj
      have f5 : Fresh1 n s3 s5 := f4.thenPay hp5
      have hop5 : (slot s5.tree n).opcode = opr.1 := by rw [hsl5]; exact hop4
      have hinfo5 : (slot s5.tree n).infoIndex = pOpcodeTableIndex opr.1 true := by rw [hsl5]; exact hinfo4
      let T2 : Nat → Prop := fun x => x = curObj ∨ x = n
      have g35 : SGrow T2 1 s3 s5 := SGrow.ofFresh1 f5
      have hc3 : live s3.tree curObj = true := by rw [ht3]; exact hc
      have hn3 : live s3.tree n = false := f5.nlive
      obtain ⟨s6, e6, h6, hs6, hsz6, sp6, hl6, hP6, _, hNx6, hFi6⟩ :=
        append_step h5 h3.tree.wf (fun x hx => ⟨g35.oldLive x hx, g35.oldP x hx⟩) hc3 hn3 hobj5 f5.pn
      refine NPs.step e6 ?_
      have hc5 : live s5.tree curObj = true := g35.oldLive _ hc3
      have g36 : SGrow T2 1 s3 s6 := g35.thenAppend hs6 hsz6 hl6 hP6 hn3 (Or.inl (Or.inl rfl)) h5.tree.wf hc5 sp6 hNx6 hFi6
      have hobj6 : live s6.tree n = true := by rw [hl6]; exact hobj5
      have hc6 : live s6.tree curObj = true := by rw [hl6]; exact hc5
      have hP6n : C13.P s6.tree n = curObj := by rw [hP6, if_pos rfl]
      have hcn : curObj ≠ n := fun e => by rw [e, hn3] at hc3; cases hc3
      have hcINV : curObj ≠ INV := live_ne_INV w.size_le hc
      have hop6 : (slot s6.tree n).opcode = opr.1 := by
        have : (slot s6.tree n).opcode = (slot s5.tree n).opcode := congrArg (fun p => p.1) (sp6.pay n)
        rw [this]; exact hop5
      have hinfo6 : (slot s6.tree n).infoIndex = pOpcodeTableIndex opr.1 true := by
        have : (slot s6.tree n).infoIndex = (slot s5.tree n).infoIndex := congrArg (fun p => p.2.1) (sp6.pay n)
        rw [this]; exact hinfo5
      have hnm6 : (slot s6.tree curObj).opcode ≠ opMethod := fun hq => hnm (by
        have := (g36.mK curObj hc3).1 hq; rw [ht3] at this; exact this)
      have hms3 : MS X none s3.tree := by rw [ht3]; exact hms
      have hms5 : MS X none s5.tree := hms3.fresh f5 (fun hq => absurd (hop5 ▸ hq) hnmo)
      have hms6 : MS X none s6.tree := hms5.append h5.tree.wf f5.pn hc5 hl6 sp6 hNx6 hFi6
      have hfi6 : Fi s6.tree n = INV := by
        rw [hFi6, if_neg (fun hq => hcn hq.1.symm)]
        have : Fi s5.tree n = Fi s4.tree n := hp5.links.fi n
        rw [this]; exact f4.fin
      have hb6 : Bud d 14 s6 := by
        have := budS hb3 g36 h6.inv.1 (by omega); exact this.mono (by omega)
      have hsc6 : s6.scopeStack = s2.scopeStack := by rw [hs6]; show s5.scopeStack = _; rw [f5.scope, hsc3]
      have g26 : SGrow T2 1 s2 s6 := (SGrow.ofLex hs3' (by omega)).trans g36 |>.weaken (by omega)
      have hS6 : SP d s6 := hS.step h6 g26 (fun x hx => Or.inl (by rw [← hsc6]; exact hx))
      have hu6 : UnF X s6 n := ((hu.grow g26 w h6.tree.wf h.tree.root (Or.inr hc)).child h6.tree.wf hobj6 hP6n
        (hu.notFresh (by rw [← ht3]; exact hn3)))
      have := ih.objArgs (s := s6) n hS6 hobj6 (by rw [hinfo6]; exact hrow) (Or.inl (by rw [hP6n]; exact hcINV)) hb6
        (MSx.ofBlank hms6 h6.tree.wf hobj6 hfi6) hu6 (fun hq => absurd (hop6 ▸ hq) hnmo) (Or.inr (by rw [hP6n]; exact hnm6))
      refine NPs.bind this ?_
      intro res s7 ⟨h7, g7, hsz7, hok7⟩
      have g67 : SGrow T2 14 s6 s7 := g7.mono h6.tree.wf (fun x _ hT => by
        rcases hT with hT | hT
        · exact Or.inr hT
        · rw [hP6n] at hT; exact Or.inl hT)
      have g37 : SGrow T2 15 s3 s7 := g36.trans g67
      have hc7 : live s7.tree curObj = true := g7.oldLive _ hc6
      have hn7 : live s7.tree n = true := g7.oldLive _ hobj6
      have hP7n : C13.P s7.tree n = curObj := by rw [g7.oldP _ hobj6]; exact hP6n
      obtain ⟨s8, e8, h8, hs8, hsz8, sp8, hl8, hP8, hNx8, hFi8⟩ := detach_stepS h7 hc7 hn7 hP7n
      refine NPs.step e8 ?_
      have g38 : SGrow T2 15 s3 s8 := g37.thenDetach hs8 hsz8 hl8 hP8 hn3 (Or.inl (Or.inl rfl)) h7.tree.wf hn7 hP7n sp8 hNx8 hFi8
      refine eofPop_np h8 ?_
      intro s9 h9 ht9 hsc9 ho9 hsame9
      refine NPs.pure ⟨⟨h9, ?_, ?_, ?_⟩, ?_⟩
      · have g89 : SGrow T2 0 s8 s9 := SGrow.ofSame ht9 (by omega) hsame9
        have g29 := SGrow.absorb hs3' hlt3 (g38.trans g89) (by omega)
        refine (g29.mono w ?_).weaken (by omega)
        intro x hx hT
        rcases hT with hT | hT
        · exact hT
        · rw [hT, ← ht3, hn3] at hx; cases hx
      · rw [hsc9, hs8]; show s2.scopeStack.size ≤ s7.scopeStack.size; rw [← hsc6]; exact hsz7
      · intro hq
        obtain ⟨q1, q2⟩ := hok7 hq
        refine ⟨by rw [hsc9, hs8]; show s7.scopeStack = _; rw [q1, hsc6], ?_⟩
        rw [ht9]
        have hnm7 : (slot s7.tree curObj).opcode ≠ opMethod := fun hq => hnm6 ((g7.mK curObj hc6).1 hq)
        exact q2.detach h7.tree.wf hn7 hP7n (fun m hm ho _ => absurd (hm ▸ ho) hnm7) hl8 sp8 hNx8 hFi8
      · intro a ha
        cases ha
        refine ⟨by rw [← ht3]; exact hn3, by rw [ht9, hl8]; exact hn7, ?_⟩
        rw [ht9, hP8, if_pos rfl]
  · rw [if_pos hok]
    -- a name: a method call or a reference, parsed with `curObj` as the scope and taken off again
    refine NPs.step (getObj_live hc) ?_
    rw [hidx]
    refine NPs.step (scopeEnter_ex curObj s2) ?_
    generalize hsA : ({ s2 with scopeStack := s2.scopeStack.push curObj } : PState) = sA
    have htA : sA.tree = s2.tree := by rw [← hsA]
    have hscA : sA.scopeStack = s2.scopeStack.push curObj := by rw [← hsA]
    have hrA : sA.r = s2.r := by rw [← hsA]
    have hsameA : sA.allBlocks = s2.allBlocks ∧ sA.tableHandle = s2.tableHandle ∧ sA.streamEnd = s2.streamEnd := by
      rw [← hsA]; exact ⟨rfl, rfl, rfl⟩
    have hA : FP d sA := by
      refine ⟨by rw [hrA]; exact h.inv, by rw [htA]; exact h.tree, ?_⟩
      intro x hx
      rw [hscA, Array.toList_push, List.mem_append, List.mem_singleton] at hx
      rw [htA]
      rcases hx with hx | hx
      · exact h.scopes x hx
      · rw [hx]; exact hc
    have hSA : SP d sA := by
      refine ⟨hA, by rw [hsameA.1]; exact hS.ab, ?_⟩
      intro x hx
      rw [hscA, Array.toList_push, List.mem_append, List.mem_singleton] at hx
      rw [htA]
      rcases hx with hx | hx
      · exact hS.nm x hx
      · rw [hx]; exact hnm
    have htopA : topOf sA = curObj := topOf_push s2 curObj hscA
    have hbA : Bud d 0 sA := by unfold Bud at hb ⊢; rw [htA, hrA]; omega
    have huA : UnF X sA (topOf sA) := by rw [htopA]; exact hu.ofTree htA
    have := ih.namePath (s := sA) hSA (by rw [htA]; exact hms) huA (by rw [hscA]; simp) hbA
    refine NPs.bind this ?_
    intro res sB ⟨hB, gB, hszB, hokB⟩
    rw [htopA] at hokB
    have hneB : sB.scopeStack.size ≠ 0 := by
      have : sA.scopeStack.size = s2.scopeStack.size + 1 := by rw [hscA]; simp
      omega
    obtain ⟨sC, eC, hC, hsC⟩ := scopeExit_step hB hneB
    refine NPs.step eC ?_
    have htC : sC.tree = sB.tree := by rw [hsC]
    have hscC : sC.scopeStack = sB.scopeStack.pop := by rw [hsC]
    have gAB : SGrow (fun x => x = curObj) 0 sA sB := gB.mono hA.tree.wf (fun x _ hT => by rw [← htopA]; exact hT)
    have g2A : SGrow (fun x => x = curObj) 0 s2 sA := SGrow.ofSame htA (by rw [hrA]; exact Nat.le_refl _) hsameA
    have gBC : SGrow (fun x => x = curObj) 0 sB sC := SGrow.ofSame htC (by rw [hsC]; exact Nat.le_refl _) (by rw [hsC]; exact ⟨rfl, rfl, rfl⟩)
    have g2C : SGrow (fun x => x = curObj) 0 s2 sC := (g2A.trans gAB).trans gBC
    have hszC : s2.scopeStack.size ≤ sC.scopeStack.size := by
      have : sA.scopeStack.size = s2.scopeStack.size + 1 := by rw [hscA]; simp
      rw [hscC]; simp; omega
    by_cases hres : res = .ok
    · rw [if_pos hres]
      obtain ⟨q1, q2, q3, q4⟩ := hokB (by rw [hres]; decide)
      have hcC : live sC.tree curObj = true := g2C.oldLive _ hc
      refine NPs.step (getObj_live hcC) ?_
      have hla : (slot sC.tree curObj).lastArgIndex = La sB.tree curObj := by rw [htC]; rfl
      rw [hla]
      have htl : live sC.tree (La sB.tree curObj) = true := by rw [htC]; exact q4
      refine NPs.step (objectAt_live' htl) ?_
      refine NPs.step (derefP_some_ex _) ?_
      have hcB : live sB.tree curObj = true := by rw [← htC]; exact hcC
      have hlaP : C13.P sC.tree (La sB.tree curObj) = curObj := by
        rw [htC]
        exact ((hB.tree.wf.lP hcB).la (live_ne_INV hB.tree.wf.size_le q4)).1
      obtain ⟨sD, eD, hD, hsD, hszD, spD, hlD, hPD, hNxD, hFiD⟩ := detach_stepS hC hcC htl hlaP
      refine NPs.step eD ?_
      have hnew : live s2.tree (La sB.tree curObj) = false := by rw [← htA]; exact q3
      have g2D : SGrow (fun x => x = curObj) 0 s2 sD :=
        g2C.thenDetach hsD hszD hlD hPD hnew (Or.inl rfl) hC.tree.wf htl hlaP spD hNxD hFiD
      have hnmC : (slot sC.tree curObj).opcode ≠ opMethod := fun hq => hnm ((g2C.mK curObj hc).1 hq)
      have hmsD : MS X none sD.tree := by
        have q2' : MS X none sC.tree := by rw [htC]; exact q2
        exact q2'.detach hC.tree.wf htl hlaP (fun m hm ho _ => absurd (hm ▸ ho) hnmC) hlD spD hNxD hFiD
      have hscD : sD.scopeStack = s2.scopeStack := by
        rw [hsD]; show sC.scopeStack = _
        rw [hscC, q1, hscA, stack_pop_push]
      refine NPs.step (a := some (La sB.tree curObj)) (s1 := sD) rfl ?_
      refine eofPop_np hD ?_
      intro sE hE htE hscE hoE hsameE
      have gDE : SGrow (fun x => x = curObj) 0 sD sE := SGrow.ofSame htE (by omega) hsameE
      refine NPs.pure ⟨⟨hE, (g2D.trans gDE).weaken (by omega), by rw [hscE, hscD]; exact Nat.le_refl _,
        fun _ => ⟨by rw [hscE, hscD], by rw [htE]; exact hmsD⟩⟩, ?_⟩
      intro a ha
      cases ha
      refine ⟨hnew, by rw [htE, hlD]; exact htl, ?_⟩
      rw [htE, hPD, if_pos rfl]
    · rw [if_neg hres]
      refine NPs.step (a := none) (s1 := sC) rfl ?_
      refine eofPop_np hC ?_
      intro sE hE htE hscE hoE hsameE
      have gCE : SGrow (fun x => x = curObj) 0 sC sE := SGrow.ofSame htE (by omega) hsameE
      refine NPs.pure ⟨⟨hE, (g2C.trans gCE).weaken (by omega), by rw [hscE]; exact hszC, fun hq => ?_⟩,
        fun a ha => by cases ha⟩
      obtain ⟨q1, q2, _, _⟩ := hokB hq
      exact ⟨by rw [hscE, hscC, q1, hscA, stack_pop_push], by rw [htE, htC]; exact q2⟩

theorem liftR_ok {α : Type} {x : Res α} {a : α} (e : x = .ok a) (s : PState) : liftR x s = .ok (a, s) := by
  unfold liftR; rw [e]; rfl

theorem u64Value_ex {s : PState} {c v : Nat} (hl : live s.tree c = true) (hv : (slot s.tree c).value = .u64 v) :
    u64Value c s = .ok (v, s) := by
  unfold u64Value
  show (StateT.bind _ _) s = _
  simp only [StateT.bind, getObj_live hl, bind, Except.bind, hv]
  rfl

theorem namedInfo_some {i : Nat} (h : InfoOK i) : (namedInfo i).isSome = true := by
  obtain ⟨fl, hfl⟩ := opFlags_of_info h
  unfold namedInfo; rw [hfl]; rfl

/-- the strict invariant after `scopeEnter(x)` of a live object that is not a method -/
theorem SP.push {d : Bytes} {s sA : PState} (hS : SP d s) {x : Nat} (hx : live s.tree x = true)
    (hnm : (slot s.tree x).opcode ≠ opMethod) (hsA : sA = { s with scopeStack := s.scopeStack.push x }) : SP d sA := by
  have htA : sA.tree = s.tree := by rw [hsA]
  have hscA : sA.scopeStack = s.scopeStack.push x := by rw [hsA]
  have hrA : sA.r = s.r := by rw [hsA]
  refine ⟨⟨by rw [hrA]; exact hS.fp.inv, by rw [htA]; exact hS.fp.tree, ?_⟩, by rw [hsA]; exact hS.ab, ?_⟩
  · intro y hy
    rw [hscA, Array.toList_push, List.mem_append, List.mem_singleton] at hy
    rw [htA]
    rcases hy with hy | hy
    · exact hS.fp.scopes y hy
    · rw [hy]; exact hx
  · intro y hy
    rw [hscA, Array.toList_push, List.mem_append, List.mem_singleton] at hy
    rw [htA]
    rcases hy with hy | hy
    · exact hS.nm y hy
    · rw [hy]; exact hnm

/-- `parseNamePathOrMethodCall()` in the strict mode -/
theorem namePath_stepS {d : Bytes} (hd : d.size + 268435456 ≤ 4294967296) {f : Nat} (ih : SNP X d f) {s : PState}
    (hS : SP d s) (hms : MS X none s.tree) (hu : UnF X s (topOf s)) (hne : s.scopeStack.size ≠ 0) (hb : Bud d 0 s) :
    NPs (parseNamePathOrMethodCall d (f + 1)) s (fun res s' => PostS d (TTop s) 0 s s' (res ≠ .failed)
      (MS X none s'.tree ∧ live s.tree (La s'.tree (topOf s)) = false ∧ live s'.tree (La s'.tree (topOf s)) = true)) := by
  have hd' : d.size + 1024 ≤ 4294967296 := by omega
  have h := hS.fp
  have w := h.tree.wf
  unfold parseNamePathOrMethodCall
  obtain ⟨o0, s1, e1, h1, hR1, hs1⟩ := lex_step (rel_offset d) h
  refine NPs.step e1 ?_
  have hss : s1 = s := by rw [hs1, hR1.2]
  subst hss
  obtain ⟨sr, s2, e2, h2, ⟨hR2, hlead2⟩, hs2⟩ := lex_step (rel_parseNameString' d hd') h
  refine NPs.step e2 ?_
  have ht2 : s2.tree = s1.tree := by rw [hs2]
  have hsc2 : s2.scopeStack = s1.scopeStack := by rw [hs2]
  have hsame2 : s2.allBlocks = s1.allBlocks ∧ s2.tableHandle = s1.tableHandle ∧ s2.streamEnd = s1.streamEnd := by
    rw [hs2]; exact ⟨rfl, rfl, rfl⟩
  have g12 : ∀ T : Nat → Prop, SGrow T 0 s1 s2 := fun T => SGrow.ofLex hs2 hR2.2.1
  have fail2 : PostS d (TTop s1) 0 s1 s2 (PRes.failed ≠ .failed)
      (MS X none s2.tree ∧ live s1.tree (La s2.tree (topOf s1)) = false ∧ live s2.tree (La s2.tree (topOf s1)) = true) :=
    ⟨h2, g12 _, by rw [hsc2]; exact Nat.le_refl _, fun hq => absurd rfl hq⟩
  split
  · exact NPs.pure fail2
  · rename_i hok
    have hlt : s1.r.offset < s2.r.offset := by
      rcases hR2.2.2.2 with ⟨_, hlt⟩ | hf
      · exact hlt
      · exact absurd (by rw [hf]; decide) hok
    refine NPs.step (allBlocks_ex s2) ?_
    have hab2 : s2.allBlocks = true := by rw [hsame2.1]; exact hS.ab
    rw [hab2]
    simp only [Bool.not_true, Bool.false_eq_true, ↓reduceIte]
    have hne2 : s2.scopeStack.size ≠ 0 := by rw [hsc2]; exact hne
    obtain ⟨esc, htopl, htopm⟩ := scopeCurrent_top h2 hne2
    have htop2 : topOf s2 = topOf s1 := by unfold topOf; rw [hsc2]
    rw [htop2] at esc htopl htopm
    have htopl' : live s1.tree (topOf s1) = true := by rw [← ht2]; exact htopl
    refine NPs.step esc ?_
    refine NPs.step (a := s2.tree) (s1 := s2) rfl ?_
    obtain ⟨anc0, eanc, hanc⟩ := closest_anc h2.tree.wf namedInfo
      (fun i hi => namedInfo_some (h2.tree.info i hi)) (topOf s1) htopl
    refine NPs.step (liftR_ok eanc s2) ?_
    have hanc' : anc0 = INV ∨ live s2.tree anc0 = true := by
      rcases hanc with h0 | h0
      · exact Or.inl h0
      · exact Or.inr h0.1
    obtain ⟨ti, eti, hti⟩ := find_total' h2.tree.wf h2.tree.root anc0 hanc' (sliceExpr d sr.1)
    have hsrok : sr.2 = .ok := by
      by_cases hq : sr.2 = .ok
      · exact hq
      · exact absurd hq hok
    -- an incomplete method left behind by an earlier table is not what the lookup returns
    have hnotX : ti ≠ INV → live s2.tree ti = true → (slot s2.tree ti).opcode = opMethod → ¬ X ti := by
      intro hti0 htl hmo hx
      have hu2 : UnF X s2 (topOf s1) := hu.ofTree ht2
      obtain ⟨hn0, h00, href⟩ := (hu2 ti hx).2 hmo
      have hsanc : anc0 = INV ∨ (live s2.tree anc0 = true ∧ ¬ anc s2.tree ti anc0) := by
        rcases hanc with h0 | h0
        · exact Or.inl h0
        · exact Or.inr ⟨h0.1, fun ha => href (h0.2 ti ha)⟩
      have := find_avoid h2.tree.wf h2.tree.root hn0 h00 anc0 hsanc (sliceExpr d sr.1)
        (fun _ b hb => hlead2 hsrok b hb) ti eti hti0
      exact this.2 (h2.tree.wf.anc_self htl)
    refine NPs.step (liftR_ok eti s2) ?_
    by_cases hinv : ti = invalidIndex
    · rw [if_pos hinv]
      exact NPs.pure fail2
    · rw [if_neg hinv]
      have htil : live s2.tree ti = true := by
        rcases hti with h0 | h0
        · exact absurd h0 hinv
        · exact h0
      refine NPs.step (objectAt_live' htil) ?_
      have hb2 : Bud d 16 s2 := hb.consume ht2 hlt h2.inv.1
      obtain ⟨n, s3, e3, h3, f3, hr3, hop3, hinfo3, hidx3⟩ := newObject_step h2 opIntResolvedNamePath
        (hb2.mono (k' := 1) (by omega)).size_lt (by decide) info_const.2.2.2.2.2.2.2.2.2.2.2.2.1
      refine NPs.step e3 ?_
      have hobj3 : live s3.tree n = true := f3.liven
      obtain ⟨s4, e4, h4, hp4, hsl4, hr4⟩ := upd_step h3 hobj3 (fun o => { o with amlOffset := o0 }) (by keeps_links) Iff.rfl
        (h3.tree.info _ hobj3)
      refine NPs.step e4 ?_
      have hobj4 : live s4.tree n = true := by rw [hp4.links.live]; exact hobj3
      obtain ⟨s5, e5, h5, hp5, hsl5, hr5⟩ := upd_step h4 hobj4 (fun o => { o with value := .idx ti }) (by keeps_links) Iff.rfl
        (h4.tree.info _ hobj4)
      refine NPs.step e5 ?_
      have hobj5 : live s5.tree n = true := by rw [hp5.links.live]; exact hobj4
      have f5 : Fresh1 n s2 s5 := (f3.thenPay hp4).thenPay hp5
      have hop5 : (slot s5.tree n).opcode = opIntResolvedNamePath := by rw [hsl5, hsl4]; exact hop3
      have hidx5 : (slot s5.tree n).index = n := by rw [hsl5, hsl4]; exact hidx3
      have hne5 : s5.scopeStack.size ≠ 0 := by rw [f5.scope]; exact hne2
      obtain ⟨esc5, _, _⟩ := scopeCurrent_top h5 hne5
      have htop5 : topOf s5 = topOf s1 := by unfold topOf; rw [f5.scope, hsc2]
      rw [htop5] at esc5
      refine NPs.step esc5 ?_
      refine NPs.step (derefP_some_ex _) ?_
      let T3 : Nat → Prop := fun x => x = topOf s1 ∨ x = n
      have g25 : SGrow T3 1 s2 s5 := SGrow.ofFresh1 f5
      have hn2 : live s2.tree n = false := f5.nlive
      obtain ⟨s6, e6, h6, hs6, hsz6, sp6, hl6, hP6, hLa6, hNx6, hFi6⟩ :=
        append_step h5 h2.tree.wf (fun x hx => ⟨g25.oldLive x hx, g25.oldP x hx⟩) htopl hn2 hobj5 f5.pn
      refine NPs.step e6 ?_
      have htop5l : live s5.tree (topOf s1) = true := g25.oldLive _ htopl
      have g26 : SGrow T3 1 s2 s6 := g25.thenAppend hs6 hsz6 hl6 hP6 hn2 (Or.inl (Or.inl rfl)) h5.tree.wf htop5l sp6 hNx6 hFi6
      have hobj6 : live s6.tree n = true := by rw [hl6]; exact hobj5
      have hti6 : live s6.tree ti = true := g26.oldLive _ htil
      refine NPs.step (derefP_some_ex _) ?_
      refine NPs.step (getObj_live hti6) ?_
      have hms2 : MS X none s2.tree := by rw [ht2]; exact hms
      have hms5 : MS X none s5.tree := hms2.fresh f5 (fun hq => absurd (hop5 ▸ hq) (by decide))
      have hms6 : MS X none s6.tree := hms5.append h5.tree.wf f5.pn htop5l hl6 sp6 hNx6 hFi6
      have hsc6 : s6.scopeStack = s1.scopeStack := by rw [hs6]; show s5.scopeStack = _; rw [f5.scope, hsc2]
      have hn1 : live s1.tree n = false := by rw [← ht2]; exact hn2
      have htopn : topOf s1 ≠ n := fun e => by rw [e, hn2] at htopl; cases htopl
      have fin : ∀ {c : Nat} {s' : PState}, SGrow T3 c s2 s' → c ≤ 16 → SGrow (TTop s1) 0 s1 s' := by
        intro c s' g hc
        refine (SGrow.absorb hs2 hlt g hc).mono w ?_
        intro x hx hT
        rcases hT with hT | hT
        · exact hT
        · rw [hT, hn1] at hx; cases hx
      have hP6n : C13.P s6.tree n = topOf s1 := by rw [hP6, if_pos rfl]
      have hNx6n : Nx s6.tree n = INV := by rw [hNx6, if_pos rfl]
      by_cases hmeth : (slot s6.tree ti).opcode = opMethod
      · rw [if_neg (fun hq => hq hmeth)]
        -- a method call: the arguments follow
        have hop6 : (slot s6.tree n).opcode = opIntResolvedNamePath := by
          have : (slot s6.tree n).opcode = (slot s5.tree n).opcode := congrArg (fun p => p.1) (sp6.pay n)
          rw [this]; exact hop5
        have hidx6 : (slot s6.tree n).index = n := h6.tree.wf.index_eq n (live_lt hobj6)
        have hl7 : KeepsLive s6.tree n (fun o => { o with opcode := opIntMethodCall }) := by
          unfold KeepsLive
          exact ⟨fun hq => absurd (show opIntMethodCall = pOpIntFreedObject from hq) (by decide), fun hq => absurd hq (live_opcode hobj6)⟩
        obtain ⟨s7, e7, h7, hp7, hsl7, hr7⟩ := upd_step h6 hobj6 (fun o => { o with opcode := opIntMethodCall }) (by keeps_links) hl7
          (h6.tree.info _ hobj6)
          (Or.inr ⟨by rw [hop6]; decide, (show isK opIntMethodCall = false by decide)⟩)
          (fun hq => absurd (hop6 ▸ hq : isK opIntResolvedNamePath = true) (by decide))
        refine NPs.step e7 ?_
        have hobj7 : live s7.tree n = true := by rw [hp7.links.live]; exact hobj6
        obtain ⟨s8, e8, h8, hp8, hsl8, hr8⟩ := upd_step h7 hobj7
          (fun o => { o with infoIndex := pOpcodeTableIndex opIntMethodCall true }) (by keeps_links) Iff.rfl
          (by dsimp only; exact info_const.2.2.2.2.2.2.2.2.2.2.2.2.2) (Or.inl rfl) (fun _ => ⟨rfl, rfl⟩)
          (fun hq => by
            rw [hsl7] at hq
            have : isK opIntMethodCall = true := hq
            exact absurd this (by decide))
        refine NPs.step e8 ?_
        have hobj8 : live s8.tree n = true := by rw [hp8.links.live]; exact hobj7
        have hp68 : PayOnly n s6 s8 := hp7.trans hp8
        have htopnm : (slot s6.tree (topOf s1)).opcode ≠ opMethod := by
          have h0 := hS.nm _ (by rw [← hsc2]; exact htopm)
          intro hq
          have := (g26.mK _ htopl).1 hq
          rw [ht2] at this; exact h0 this
        have hms8 : MS X none s8.tree := hms6.pay h6.tree.wf hp68 (Or.inr (by rw [hP6n]; exact htopnm))
        have g68 : SGrow T3 0 s6 s8 := SGrow.ofPay hp68 (Or.inr (by rw [hP6n]; exact Or.inl rfl)) (Or.inr rfl) hobj6
        have g28 : SGrow T3 1 s2 s8 := g26.trans g68
        refine NPs.step (getObj_live hobj8) ?_
        have hidx8 : (slot s8.tree n).index = n := h8.tree.wf.index_eq n (live_lt hobj8)
        rw [hidx8]
        refine NPs.step (scopeEnter_ex n s8) ?_
        generalize hs9 : ({ s8 with scopeStack := s8.scopeStack.push n } : PState) = s9
        have ht9 : s9.tree = s8.tree := by rw [← hs9]
        have hsc9 : s9.scopeStack = s8.scopeStack.push n := by rw [← hs9]
        have hr9 : s9.r = s8.r := by rw [← hs9]
        have hsame9 : s9.allBlocks = s8.allBlocks ∧ s9.tableHandle = s8.tableHandle ∧ s9.streamEnd = s8.streamEnd := by
          rw [← hs9]; exact ⟨rfl, rfl, rfl⟩
        have hsc8 : s8.scopeStack = s1.scopeStack := by rw [hp68.scope, hsc6]
        have g18 : SGrow T3 1 s1 s8 := ((g12 T3).trans g28).weaken (by omega)
        have hS8 : SP d s8 := hS.step h8 g18 (fun x hx => Or.inl (by rw [← hsc8]; exact hx))
        have hop8 : (slot s8.tree n).opcode = opIntMethodCall := by rw [hsl8, hsl7]
        have hS9 : SP d s9 := hS8.push hobj8 (by rw [hop8]; decide) hs9.symm
        refine NPs.step (a := s9.tree) (s1 := s9) rfl ?_
        -- the flags of the method
        have hti8 : live s8.tree ti = true := g68.oldLive _ hti6
        have htin : ti ≠ n := fun e => by rw [e, hn2] at htil; cases htil
        have hmeth8 : (slot s8.tree ti).opcode = opMethod := by rw [hp68.others ti htin]; exact hmeth
        have hsh := hms8 ti hti8 hmeth8 (by intro hq; cases hq)
          (hnotX hinv htil ((g26.mK ti htil).1 hmeth))
        have eArg := hsh.argAt h8.tree.wf hti8
        rw [← ht9] at eArg
        refine NPs.step (liftR_ok eArg s9) ?_
        refine NPs.step (derefP_some_ex _) ?_
        obtain ⟨v, _, hc2l, hc2v⟩ := hsh
        rw [← ht9] at hc2l hc2v
        refine NPs.step (u64Value_ex hc2l hc2v) ?_
        have hb9 : Bud d 0 s9 := by
          have := budS hb2 g28 h8.inv.1 (by omega)
          unfold Bud at this ⊢; rw [ht9, hr9]; omega
        have htop9' : topOf s9 = n := topOf_push s8 n hsc9
        have hu9 : UnF X s9 (topOf s9) := by
          rw [htop9']
          have hu8 : UnF X s8 (topOf s1) := hu.grow g18 w h8.tree.wf h.tree.root (Or.inr htopl')
          exact (hu8.child h8.tree.wf hobj8 (by rw [hp68.links.p]; exact hP6n) (hu.notFresh hn1)).ofTree ht9
        have := ih.methodArgs (s := s9) (v &&& 7) hS9 (by rw [ht9]; exact hms8) hu9 (by rw [hsc9]; simp) hb9
        refine NPs.bind this ?_
        intro b s10 ⟨h10, g10, hsz10, hok10⟩
        have htop9 : topOf s9 = n := topOf_push s8 n hsc9
        have hne10 : s10.scopeStack.size ≠ 0 := by
          have : s9.scopeStack.size = s8.scopeStack.size + 1 := by rw [hsc9]; simp
          omega
        obtain ⟨s11, e11, h11, hs11⟩ := scopeExit_step h10 hne10
        have ht11 : s11.tree = s10.tree := by rw [hs11]
        have hsc11 : s11.scopeStack = s10.scopeStack.pop := by rw [hs11]
        have g89 : SGrow T3 0 s8 s9 := SGrow.ofSame ht9 (by rw [hr9]; exact Nat.le_refl _) hsame9
        have g910 : SGrow T3 0 s9 s10 := g10.mono hS9.fp.tree.wf (fun x _ hT => by
          have hT' : x = topOf s9 := hT
          rw [htop9] at hT'; exact Or.inr hT')
        have g1011 : SGrow T3 0 s10 s11 := SGrow.ofSame ht11 (by rw [hs11]; exact Nat.le_refl _) (by rw [hs11]; exact ⟨rfl, rfl, rfl⟩)
        have g211 : SGrow T3 1 s2 s11 := ((g28.trans g89).trans g910).trans g1011
        have hsz11 : s1.scopeStack.size ≤ s11.scopeStack.size := by
          have : s9.scopeStack.size = s8.scopeStack.size + 1 := by rw [hsc9]; simp
          rw [hsc11, ← hsc8]; simp; omega
        cases b with
        | false =>
          simp only [Bool.not_false, ↓reduceIte]
          refine NPs.step e11 (NPs.pure ⟨h11, fin g211 (by omega), hsz11, fun hq => absurd rfl hq⟩)
        | true =>
          simp only [Bool.not_true, Bool.false_eq_true, ↓reduceIte]
          obtain ⟨q1, q2⟩ := hok10 rfl
          refine NPs.step e11 (NPs.pure ⟨h11, fin g211 (by omega), hsz11, fun _ => ⟨?_, by rw [ht11]; exact q2, ?_⟩⟩)
          · rw [hsc11, q1, hsc9, stack_pop_push, hsc8]
          · -- `n` is still the last argument of the scope
            have hn9 : live s9.tree n = true := by rw [ht9]; exact hobj8
            have hP9n : C13.P s9.tree n = topOf s1 := by rw [ht9, hp68.links.p]; exact hP6n
            have hNx9n : Nx s9.tree n = INV := by rw [ht9, hp68.links.nx]; exact hNx6n
            have htopINV : topOf s1 ≠ INV := live_ne_INV h2.tree.wf.size_le htopl
            have k := g10.kidK n hn9 (by rw [hP9n]; exact htopINV) (by
              rw [hP9n]; show ¬ (topOf s1 = topOf s9); rw [htop9]; exact htopn)
            have hn10 : live s10.tree n = true := g10.oldLive _ hn9
            have hla := (h10.tree.wf.lP hn10).last (by rw [g10.oldP _ hn9, hP9n]; exact htopINV) (by rw [k.1]; exact hNx9n)
            rw [g10.oldP _ hn9, hP9n] at hla
            rw [ht11, hla]
            exact ⟨hn1, hn10⟩
      · rw [if_pos hmeth]
        refine NPs.pure ⟨h6, fin g26 (by omega), by rw [hsc6]; exact Nat.le_refl _, fun _ => ⟨hsc6, hms6, ?_⟩⟩
        rw [hLa6]
        exact ⟨hn1, hobj6⟩

/-- two steps under the same scope -/
theorem PostS.seq {d : Bytes} {s s1 s2 : PState} {ok2 extra : Prop} (w : WF s.tree)
    (p1 : PostS d (TTop s) 0 s s1 True True) (p2 : PostS d (TTop s1) 0 s1 s2 ok2 extra) :
    PostS d (TTop s) 0 s s2 ok2 extra := by
  obtain ⟨_, g1, hz1, hk1⟩ := p1
  obtain ⟨h2, g2, hz2, hk2⟩ := p2
  have hst := (hk1 trivial).1
  have htop : topOf s1 = topOf s := by unfold topOf; rw [hst]
  have g2' : SGrow (TTop s) 0 s1 s2 := by
    have : TTop s1 = TTop s := by unfold TTop; rw [htop]
    rw [← this]; exact g2
  exact ⟨h2, g1.trans g2', by rw [← hst]; exact hz2, fun hq => ⟨by rw [(hk2 hq).1, hst], (hk2 hq).2⟩⟩

/-- what the two loops need after one successful `parseNextObject` -/
theorem after_next {d : Bytes} {s s1 : PState} (hS : SP d s) (hu : UnF X s (topOf s)) (hne : s.scopeStack.size ≠ 0)
    (hb : Bud d 0 s) (p : PostS d (TTop s) 0 s s1 True (MS X none s1.tree)) :
    SP d s1 ∧ MS X none s1.tree ∧ UnF X s1 (topOf s1) ∧ s1.scopeStack.size ≠ 0 ∧ Bud d 0 s1 := by
  obtain ⟨h1, g1, _, hk⟩ := p
  obtain ⟨hst, hms1⟩ := hk trivial
  obtain ⟨_, htopl, _⟩ := scopeCurrent_top hS.fp hne
  have htop : topOf s1 = topOf s := by unfold topOf; rw [hst]
  refine ⟨hS.step h1 g1 (fun x hx => Or.inl (by rw [← hst]; exact hx)), hms1, ?_, by rw [hst]; exact hne, ?_⟩
  · rw [htop]; exact hu.grow g1 hS.fp.tree.wf h1.tree.wf hS.fp.tree.root (Or.inr htopl)
  · have := budS hb g1 h1.inv.1 (Nat.le_refl _)
    exact this

theorem methodArgs_stepS {d : Bytes} {f : Nat} (ih : SNP X d f) {s : PState} (n : Nat)
    (hS : SP d s) (hms : MS X none s.tree) (hu : UnF X s (topOf s)) (hne : s.scopeStack.size ≠ 0) (hb : Bud d 0 s) :
    NPs (methodArgsLoop d (f + 1) n) s (fun b s' => PostS d (TTop s) 0 s s' (b = true) (MS X none s'.tree)) := by
  unfold methodArgsLoop
  cases n with
  | zero => exact NPs.pure ⟨hS.fp, SGrow.refl s, Nat.le_refl _, fun _ => ⟨rfl, hms⟩⟩
  | succ n =>
    refine NPs.bind (ih.next hS hms hu hne hb) ?_
    intro res s1 p1
    by_cases hok : res = .ok
    · rw [if_neg (fun hq => hq hok)]
      have p1' : PostS d (TTop s) 0 s s1 True (MS X none s1.tree) := ⟨p1.1, p1.2.1, p1.2.2.1, fun _ => p1.2.2.2 (by rw [hok]; decide)⟩
      obtain ⟨hS1, hms1, hu1, hne1, hb1⟩ := after_next hS hu hne hb p1'
      refine (ih.methodArgs n hS1 hms1 hu1 hne1 hb1).mono ?_
      intro b s2 p2
      exact PostS.seq hS.fp.tree.wf ⟨p1'.1, p1'.2.1, p1'.2.2.1, fun _ => ⟨(p1'.2.2.2 trivial).1, trivial⟩⟩ p2
    · rw [if_pos hok]
      exact NPs.pure ⟨p1.1, p1.2.1, p1.2.2.1, fun hq => by cases hq⟩

theorem termList_stepS {d : Bytes} {f : Nat} (ih : SNP X d f) {s : PState}
    (hS : SP d s) (hms : MS X none s.tree) (hu : UnF X s (topOf s)) (hne : s.scopeStack.size ≠ 0) (hb : Bud d 0 s) :
    NPs (termListLoop d (f + 1)) s (fun b s' => PostS d (TTop s) 0 s s' (b = true) (MS X none s'.tree)) := by
  unfold termListLoop
  obtain ⟨b, s0, e0, h0, hR0, hs0⟩ := lex_step (rel_eof d) hS.fp
  refine NPs.step e0 ?_
  have hss : s0 = s := by rw [hs0, hR0.2]
  subst hss
  cases b with
  | true =>
    rw [if_pos rfl]
    exact NPs.pure ⟨hS.fp, SGrow.refl s0, Nat.le_refl _, fun _ => ⟨rfl, hms⟩⟩
  | false =>
    rw [if_neg (by decide)]
    refine NPs.bind (ih.next hS hms hu hne hb) ?_
    intro res s1 p1
    by_cases hok : res = .ok
    · rw [if_neg (fun hq => hq hok)]
      have p1' : PostS d (TTop s0) 0 s0 s1 True (MS X none s1.tree) := ⟨p1.1, p1.2.1, p1.2.2.1, fun _ => p1.2.2.2 (by rw [hok]; decide)⟩
      obtain ⟨hS1, hms1, hu1, hne1, hb1⟩ := after_next hS hu hne hb p1'
      refine (ih.termList hS1 hms1 hu1 hne1 hb1).mono ?_
      intro b s2 p2
      exact PostS.seq hS.fp.tree.wf ⟨p1'.1, p1'.2.1, p1'.2.2.1, fun _ => ⟨(p1'.2.2.2 trivial).1, trivial⟩⟩ p2
    · rw [if_pos hok]
      exact NPs.pure ⟨p1.1, p1.2.1, p1.2.2.1, fun hq => by cases hq⟩

/-- `parseNextObject()` in the strict mode -/
theorem next_stepS {d : Bytes} (hd : d.size + 268435456 ≤ 4294967296) {f : Nat} (ih : SNP X d f) {s : PState}
    (hS : SP d s) (hms : MS X none s.tree) (hu : UnF X s (topOf s)) (hne : s.scopeStack.size ≠ 0) (hb : Bud d 0 s) :
    NPs (parseNextObject d (f + 1)) s (fun res s' => PostS d (TTop s) 0 s s' (res ≠ .failed) (MS X none s'.tree)) := by
  have hd' : d.size + 1024 ≤ 4294967296 := by omega
  have h := hS.fp
  have w := h.tree.wf
  unfold parseNextObject
  obtain ⟨o0, s1, e1, h1, hR1, hs1⟩ := lex_step (rel_offset d) h
  refine NPs.step e1 ?_
  have hss : s1 = s := by rw [hs1, hR1.2]
  subst hss
  obtain ⟨opr, s2, e2, h2, hR2, hs2⟩ := lex_step (rel_nextOpcode d hd') h
  refine NPs.step e2 ?_
  have ht2 : s2.tree = s1.tree := by rw [hs2]
  have hsc2 : s2.scopeStack = s1.scopeStack := by rw [hs2]
  rcases hR2 with ⟨hfail, hop, hr2⟩ | ⟨hok, hbad, hop, _, hlt, _⟩
  · -- not an opcode: a name
    rw [if_neg (by rw [hop]; decide), if_pos hfail]
    have hss2 : s2 = s1 := by rw [hs2, hr2]
    subst hss2
    refine (ih.namePath hS hms hu hne hb).mono ?_
    intro res s' p
    exact ⟨p.1, p.2.1, p.2.2.1, fun hq => ⟨(p.2.2.2 hq).1, (p.2.2.2 hq).2.1⟩⟩
  · by_cases hnoop : opr.1 = opNoop
    · rw [if_pos hnoop]
      exact NPs.pure ⟨h2, SGrow.ofLex hs2 (by omega), by rw [hsc2]; exact Nat.le_refl _, fun _ => ⟨hsc2, by rw [ht2]; exact hms⟩⟩
    · rw [if_neg hnoop, if_neg (by rw [hok]; decide)]
      obtain ⟨hrow, hinfo, hnf, _⟩ := op_facts hop hbad
      have hb2 : Bud d 16 s2 := hb.consume ht2 hlt h2.inv.1
      obtain ⟨n, s3, e3, h3, f3, hr3, hop3, hinfo3, _⟩ := newObject_step h2 opr.1 (hb2.mono (k' := 1) (by omega)).size_lt hnf hinfo
      refine NPs.step e3 ?_
      have hobj : live s3.tree n = true := f3.liven
      obtain ⟨s4, e4, h4, hp4, hsl4, hr4⟩ := upd_step h3 hobj (fun o => { o with amlOffset := o0 }) (by keeps_links) Iff.rfl
        (h3.tree.info _ hobj)
      refine NPs.step e4 ?_
      have hobj4 : live s4.tree n = true := by rw [hp4.links.live]; exact hobj
      have f4 : Fresh1 n s2 s4 := f3.thenPay hp4
      have hop4 : (slot s4.tree n).opcode = opr.1 := by rw [hsl4]; exact hop3
      have hinfo4 : (slot s4.tree n).infoIndex = pOpcodeTableIndex opr.1 true := by rw [hsl4]; exact hinfo3
      have hne4 : s4.scopeStack.size ≠ 0 := by rw [f4.scope, hsc2]; exact hne
      obtain ⟨esc, _, _⟩ := scopeCurrent_top h4 hne4
      have htop4 : topOf s4 = topOf s1 := by unfold topOf; rw [f4.scope, hsc2]
      rw [htop4] at esc
      refine NPs.step esc ?_
      refine NPs.step (derefP_some_ex _) ?_
      obtain ⟨_, htopl, htopm⟩ := scopeCurrent_top h hne
      have htopl2 : live s2.tree (topOf s1) = true := by rw [ht2]; exact htopl
      let T3 : Nat → Prop := fun x => x = topOf s1 ∨ x = n
      have g24 : SGrow T3 1 s2 s4 := SGrow.ofFresh1 f4
      have hn2 : live s2.tree n = false := f4.nlive
      obtain ⟨s6, e6, h6, hs6, hsz6, sp6, hl6, hP6, hLa6, hNx6, hFi6⟩ :=
        append_step h4 h2.tree.wf (fun x hx => ⟨g24.oldLive x hx, g24.oldP x hx⟩) htopl2 hn2 hobj4 f4.pn
      refine NPs.step e6 ?_
      have htop4l : live s4.tree (topOf s1) = true := g24.oldLive _ htopl2
      have g26 : SGrow T3 1 s2 s6 := g24.thenAppend hs6 hsz6 hl6 hP6 hn2 (Or.inl (Or.inl rfl)) h4.tree.wf htop4l sp6 hNx6 hFi6
      have hobj6 : live s6.tree n = true := by rw [hl6]; exact hobj4
      have hop6 : (slot s6.tree n).opcode = opr.1 := by
        have : (slot s6.tree n).opcode = (slot s4.tree n).opcode := congrArg (fun p => p.1) (sp6.pay n)
        rw [this]; exact hop4
      have hinfo6 : (slot s6.tree n).infoIndex = pOpcodeTableIndex opr.1 true := by
        have : (slot s6.tree n).infoIndex = (slot s4.tree n).infoIndex := congrArg (fun p => p.2.1) (sp6.pay n)
        rw [this]; exact hinfo4
      have hms2 : MS X (some n) s2.tree := by rw [ht2]; exact hms.weaken _
      have hms4 : MS X (some n) s4.tree := hms2.fresh f4 (fun _ => rfl)
      have hms6 : MS X (some n) s6.tree := hms4.append h4.tree.wf f4.pn htop4l hl6 sp6 hNx6 hFi6
      have hn1 : live s1.tree n = false := by rw [← ht2]; exact hn2
      have htopn : topOf s1 ≠ n := fun e => by rw [e, hn1] at htopl; cases htopl
      have htopINV : topOf s1 ≠ INV := live_ne_INV w.size_le htopl
      have hP6n : C13.P s6.tree n = topOf s1 := by rw [hP6, if_pos rfl]
      have hfi6 : Fi s6.tree n = INV := by
        rw [hFi6, if_neg (fun hq => htopn hq.1.symm)]
        have : Fi s4.tree n = Fi s3.tree n := hp4.links.fi n
        rw [this]; exact f3.fin
      have htopnm : (slot s6.tree (topOf s1)).opcode ≠ opMethod := by
        have h0 := hS.nm _ htopm
        intro hq
        have := (g26.mK _ htopl2).1 hq
        rw [ht2] at this; exact h0 this
      have hb6 : Bud d 14 s6 := by
        have := budS hb2 g26 h6.inv.1 (by omega); exact this.mono (by omega)
      have hsc6 : s6.scopeStack = s1.scopeStack := by rw [hs6]; show s4.scopeStack = _; rw [f4.scope, hsc2]
      have g16 : SGrow T3 1 s1 s6 := ((SGrow.ofLex hs2 (by omega) : SGrow T3 0 s1 s2).trans g26).weaken (by omega)
      have hS6 : SP d s6 := hS.step h6 g16 (fun x hx => Or.inl (by rw [← hsc6]; exact hx))
      have hmsx : MSx X s6 (slot s6.tree n).infoIndex n 0 := by
        apply MSx.ofBlank' hms6 _ h6.tree.wf hobj6 hfi6
        intro hi hq
        apply hi
        rw [hinfo6, ← hop6, hq]; rfl
      have hu6 : UnF X s6 n := ((hu.grow g16 w h6.tree.wf h.tree.root (Or.inr htopl)).child h6.tree.wf hobj6 hP6n
        (hu.notFresh hn1))
      have := ih.objArgs (s := s6) n hS6 hobj6 (by rw [hinfo6]; exact hrow) (Or.inl (by rw [hP6n]; exact htopINV)) hb6
        hmsx hu6 (fun hq => by rw [hinfo6, ← hop6, hq]; rfl) (Or.inr (by rw [hP6n]; exact htopnm))
      refine this.mono ?_
      intro res s7 ⟨h7, g7, hsz7, hok7⟩
      have g67 : SGrow T3 14 s6 s7 := g7.mono h6.tree.wf (fun x _ hT => by
        rcases hT with hT | hT
        · exact Or.inr hT
        · rw [hP6n] at hT; exact Or.inl hT)
      refine ⟨h7, ?_, by rw [← hsc6]; exact hsz7, fun hq => ⟨by rw [(hok7 hq).1, hsc6], (hok7 hq).2⟩⟩
      refine (SGrow.absorb hs2 hlt (g26.trans g67) (by omega)).mono w ?_
      intro x hx hT
      rcases hT with hT | hT
      · exact hT
      · rw [hT, hn1] at hx; cases hx

/-- the scope block of a `TermList`: a fresh `ScopeBlock` object, pushed on the scope stack -/
theorem newScopeBlock_strict {d : Bytes} {s : PState} (h : FP d s) (hsz : s.tree.pool.size < INV) :
    ∃ a s', newScopeBlock s = .ok (a, s') ∧ FP d s' ∧ ∃ sm, FP d sm ∧ Fresh1 a s sm ∧
      s' = { sm with scopeStack := sm.scopeStack.push a } ∧ (slot sm.tree a).opcode = opIntScopeBlock ∧ sm.r = s.r := by
  unfold newScopeBlock
  obtain ⟨n, s1, e1, h1, f1, hr1, hop1, _, hidx1⟩ := newObject_step h opIntScopeBlock hsz (by decide) info_const.2.2.2.2.2.2.2.2.1
  refine bind_ex e1 ?_
  obtain ⟨off, s2, e2, h2, hR2, hs2⟩ := lex_step (rel_offset d) h1
  refine bind_ex e2 ?_
  have hss : s2 = s1 := by rw [hs2, hR2.2]
  subst hss
  have hobj : live s2.tree n = true := f1.liven
  obtain ⟨s3, e3, h3, hp3, hsl3, hr3⟩ := upd_step h2 hobj (fun o => { o with amlOffset := off }) (by keeps_links) Iff.rfl
    (h2.tree.info _ hobj)
  refine bind_ex e3 ?_
  have hobj3 : live s3.tree n = true := by rw [hp3.links.live]; exact hobj
  refine bind_ex (getObj_live hobj3) ?_
  have hidx : (slot s3.tree n).index = n := by rw [hsl3]; exact hidx1
  rw [hidx]
  have f3 : Fresh1 n s s3 := f1.thenPay hp3
  have e4 : scopeEnter n s3 = .ok ((), { s3 with scopeStack := s3.scopeStack.push n }) := rfl
  refine bind_ex e4 (pure_ex ⟨?_, s3, h3, f3, rfl, by rw [hsl3]; exact hop1, by rw [hr3, hr1]⟩)
  refine ⟨h3.inv, h3.tree, ?_⟩
  intro x hx
  show live s3.tree x = true
  simp only [Array.toList_push, List.mem_append, List.mem_singleton] at hx
  rcases hx with hx | hx
  · exact h3.scopes x hx
  · rw [hx]; exact hobj3

theorem leaf_not : ¬ Leaf argTypeByteList ∧ ¬ Leaf argTypeFieldList ∧ ¬ Leaf argTypeTermArg ∧
    ¬ Leaf argTypeDataRefObj ∧ ¬ Leaf argTypeTermList := by
  unfold Leaf
  refine ⟨?_, ?_, ?_, ?_, ?_⟩ <;> decide

/-- `parseArg(info, curObj, argType)` in the strict mode -/
theorem arg_stepS {d : Bytes} (hd : d.size + 268435456 ≤ 4294967296) {f : Nat} (ih : SNP X d f) {s : PState}
    (info curObj argType : Nat) (ex : Option Nat) (hS : SP d s) (hc : live s.tree curObj = true) (hinfo : InfoOK info)
    (hb : Bud d 2 s)
    (hfl : argType = argTypeFieldList → C13.P s.tree curObj ≠ INV ∧ live s.tree (La s.tree curObj) = true ∧
      ∃ v, (slot s.tree (La s.tree curObj)).value = .u64 v)
    (hms : MS X ex s.tree) (hu : UnF X s curObj) (hex : ¬ Leaf argType → ex = none)
    (hmeth : (slot s.tree curObj).opcode = opMethod → Leaf argType ∨ argType = argTypeTermList) (hpar : ParNM s curObj) :
    NPs (parseArg d (f + 1) info curObj argType) s (fun a s' =>
      PostS d (TCur s curObj) 2 s s' (a.2 ≠ .failed) (MS X ex s'.tree) ∧
      RetOK s s' a.1 ∧ (Leaf argType → ∀ x, live s.tree x = true → slot s'.tree x = slot s.tree x) ∧
      (argType = argTypeByteData → a.2 = .ok → ∃ x v, a.1 = some x ∧ (slot s'.tree x).value = .u64 v) ∧
      (argType = argTypePkgLen → a.1 = none) ∧ (isSimpleArg argType = true → a.2 = .ok → ∃ x, a.1 = some x) ∧
      (Leaf argType → a.2 = .ok ∨ a.2 = .failed)) := by
  have hd' : d.size + 1024 ≤ 4294967296 := by omega
  have h := hS.fp
  have w := h.tree.wf
  have hszlt : s.tree.pool.size < INV := (hb.mono (k' := 1) (by omega)).size_lt
  unfold parseArg
  by_cases hsimple : isSimpleArg argType = true
  · rw [if_pos hsimple]
    obtain ⟨a, s', n, e, h', f', hnm', hres⟩ := parseSimpleArg_tot hd' h hszlt argType
    refine NPs.of_eq e ⟨⟨h', (SGrow.ofFresh1 f').weaken (by omega), by rw [f'.scope]; exact Nat.le_refl _,
      fun _ => ⟨f'.scope, hms.fresh f' (fun hq => by rw [hq, isK_method] at hnm'; cases hnm')⟩⟩, ?_, fun _ x hx => f'.old x (f'.ne hx), ?_,
      fun hq => (by rw [hq] at hsimple; exact absurd hsimple (by decide)), ?_, ?_⟩
    · intro x hx
      rcases hres with ⟨ha, _, _⟩ | ha
      · rw [ha] at hx; cases hx
        exact ⟨f'.nlive, f'.liven, f'.pn⟩
      · rw [ha] at hx; cases hx
    · intro hbd hok
      rcases hres with ⟨ha, _, hv⟩ | ha
      · obtain ⟨v, hv⟩ := hv (Or.inl hbd)
        exact ⟨_, v, ha, hv⟩
      · rw [ha] at hok; cases hok
    · intro _ hok
      rcases hres with ⟨ha, _, _⟩ | ha
      · exact ⟨_, ha⟩
      · rw [ha] at hok; cases hok
    · intro _
      rcases hres with ⟨_, hpr, _⟩ | ha
      · rcases hpr with ⟨hq, _⟩ | hq
        · exact Or.inl hq
        · exact Or.inr hq
      · rw [ha]; exact Or.inr rfl
  · rw [if_neg hsimple]
    have hns : isSimpleArg argType = true → ∀ (a : Option Nat × PRes), a.2 = .ok → ∃ x, a.1 = some x := fun hq => absurd hq hsimple
    by_cases hbl : argType = argTypeByteList
    · rw [if_pos hbl]
      have hnl : ¬ Leaf argType := by rw [hbl]; exact leaf_not.1
      have hexn := hex hnl
      subst hexn
      unfold parseByteListArg
      refine NPs.step (reader_ex s) ?_
      by_cases hover : s.r.offset > s.r.pkgEnd
      · rw [if_pos hover]
        exact NPs.pure ⟨⟨h, (SGrow.refl s).weaken (by omega), Nat.le_refl _, fun hq => absurd rfl hq⟩, fun a ha => (by cases ha),
          fun hl => absurd hl hnl, fun hq => absurd (hbl.symm.trans hq) (by decide), fun hq => absurd (hbl.symm.trans hq) (by decide),
          fun hq => absurd hq hsimple, fun hl => absurd hl hnl⟩
      · rw [if_neg hover]
        obtain ⟨n, s1, e1, h1, f1, hr1, hop1, _⟩ := newObject_step h opIntByteList hszlt (by decide) info_const.2.2.2.2.2.2.2.1
        refine NPs.step e1 ?_
        refine NPs.step (reader_ex s1) ?_
        have hi1 := h.inv.1; have hi2 := h.inv.2
        have hlen : u32 (s1.r.pkgEnd + 4294967296 - s1.r.offset) = s.r.pkgEnd - s.r.offset := by
          rw [hr1]; unfold u32; omega
        rw [hlen]
        obtain ⟨_, s2, e2, h2, hp2, _⟩ := parseByteList_tot hd' h1 f1.liven (s.r.pkgEnd - s.r.offset) (by rw [hr1]; omega)
          (by rw [hop1]; decide)
        refine NPs.step e2 ?_
        have f2 := f1.thenPay hp2
        refine NPs.pure ⟨⟨h2, (SGrow.ofFresh1 f2).weaken (by omega), by rw [f2.scope]; exact Nat.le_refl _,
          fun _ => ⟨f2.scope, hms.fresh f2 (fun hq => by
            exfalso
            have := hp2.mth.1 hq
            rw [hop1] at this
            revert this; decide)⟩⟩, ?_, fun hl => absurd hl hnl, fun hq => absurd (hbl.symm.trans hq) (by decide),
          fun hq => absurd (hbl.symm.trans hq) (by decide), fun hq => absurd hq hsimple, fun hl => absurd hl hnl⟩
        intro a ha
        cases ha
        exact ⟨f2.nlive, f2.liven, f2.pn⟩
    · rw [if_neg hbl]
      by_cases hpk : argType = argTypePkgLen
      · rw [if_pos hpk]
        obtain ⟨a, s', e, h', ha, ht', hsc', ho', hsame', hres'⟩ := parsePkgLenArg_strict hd h info curObj hS.ab hinfo
        refine NPs.of_eq e ⟨⟨h', (SGrow.ofSame ht' ho' hsame').weaken (by omega), by rw [hsc']; exact Nat.le_refl _,
          fun _ => ⟨hsc', by rw [ht']; exact hms⟩⟩, fun x hx => (by rw [ha] at hx; cases hx), fun _ x _ => (by rw [ht']),
          fun hq => (by rw [hpk] at hq; cases hq), fun _ => ha, fun hq => absurd hq hsimple, fun _ => hres'⟩
      · rw [if_neg hpk]
        have hnl : ¬ Leaf argType := by
          intro hl; rcases hl with hl | hl
          · exact hsimple hl
          · exact hpk hl
        have hexn := hex hnl
        subst hexn
        by_cases hfld : argType = argTypeFieldList
        · rw [if_pos hfld]
          obtain ⟨hp, hla, hv⟩ := hfl hfld
          obtain ⟨res, s', e, h', g', hsc', _, fr⟩ := parseFieldElements_tot (T := TCur s curObj) hd h curObj hc hp hla hv hb
            (Or.inl rfl) (Or.inr rfl)
          refine NPs.step e (NPs.pure ⟨⟨h', SGrow.ofGrowFrm g' fr, by rw [hsc']; exact Nat.le_refl _, fun _ => ⟨hsc', ?_⟩⟩,
            fun x hx => (by cases hx), fun hl => absurd hl hnl, fun hq => (by rw [hfld] at hq; cases hq),
            fun _ => rfl, fun hq => absurd hq hsimple, fun hl => absurd hl hnl⟩)
          apply hms.frm w fr
          intro m hm ho _ hT
          rcases hT with hT | hT
          · rw [hT] at ho
            rcases hmeth ho with hq | hq
            · exact hnl hq
            · rw [hfld] at hq; cases hq
          · rcases hpar with hq | hq
            · rw [hT] at hm; exact hp hq
            · rw [hT] at ho; exact hq ho
        · rw [if_neg hfld]
          by_cases hta : argType = argTypeTermArg ∨ argType = argTypeDataRefObj
          · rw [if_pos hta]
            refine NPs.step (allBlocks_ex s) ?_
            rw [hS.ab]
            simp only [↓reduceIte]
            have hnmc : (slot s.tree curObj).opcode ≠ opMethod := by
              intro ho
              rcases hmeth ho with hq | hq
              · exact hnl hq
              · rcases hta with hq2 | hq2 <;> rw [hq2] at hq <;> cases hq
            refine (ih.strictTermArg curObj hS hc hnmc hms hu hb).mono ?_
            intro a s' ⟨⟨h', g', hsz', hok'⟩, hret⟩
            refine ⟨⟨h', g'.mono w (fun x _ hT => Or.inl hT), hsz', hok'⟩, hret, fun hl => absurd hl hnl, ?_,
              fun hq => absurd hq hpk, fun hq => absurd hq hsimple, fun hl => absurd hl hnl⟩
            intro hq; rcases hta with hq2 | hq2 <;> rw [hq2] at hq <;> cases hq
          · rw [if_neg hta]
            by_cases htl : argType = argTypeTermList
            · rw [if_pos htl]
              -- a `TermList`: a new scope block under `curObj`, the objects up to the package end, the block taken off again
              obtain ⟨scope, s1, e1, h1, sm, hm, fm, hs1, hopm, hrm⟩ := newScopeBlock_strict h hszlt
              refine NPs.step e1 ?_
              refine NPs.step (allBlocks_ex s1) ?_
              have ht1 : s1.tree = sm.tree := by rw [hs1]
              have hsc1 : s1.scopeStack = s.scopeStack.push scope := by rw [hs1]; show sm.scopeStack.push scope = _; rw [fm.scope]
              have hr1 : s1.r = s.r := by rw [hs1]; exact hrm
              have hsame1 : s1.allBlocks = s.allBlocks ∧ s1.tableHandle = s.tableHandle ∧ s1.streamEnd = s.streamEnd := by
                rw [hs1]; exact fm.same
              rw [hsame1.1, hS.ab]
              simp only [Bool.not_true, Bool.false_eq_true, ↓reduceIte]
              let T4 : Nat → Prop := fun x => TCur s curObj x ∨ x = scope
              have gm : SGrow T4 1 s sm := SGrow.ofFresh1 fm
              have g1 : SGrow T4 1 s s1 := by
                have : SGrow T4 0 sm s1 := SGrow.ofSame ht1 (by rw [hr1, hrm]; exact Nat.le_refl _) (by rw [hs1]; exact ⟨rfl, rfl, rfl⟩)
                exact gm.trans this
              have hns : live s.tree scope = false := fm.nlive
              have hl1 : live s1.tree scope = true := by rw [ht1]; exact fm.liven
              have hp1 : C13.P s1.tree scope = INV := by rw [ht1]; exact fm.pn
              obtain ⟨s2, e2, h2, hs2, hsz2, sp2, hl2, hP2, _, hNx2, hFi2⟩ :=
                append_step h1 w (fun x hx => ⟨g1.oldLive x hx, g1.oldP x hx⟩) hc hns hl1 hp1
              refine NPs.step e2 ?_
              have hc1 : live s1.tree curObj = true := g1.oldLive _ hc
              have g2 : SGrow T4 1 s s2 := g1.thenAppend hs2 hsz2 hl2 hP2 hns (Or.inl (Or.inl (Or.inl rfl))) h1.tree.wf hc1 sp2 hNx2 hFi2
              have hms1 : MS X none s1.tree := by rw [ht1]; exact hms.fresh fm (fun hq => absurd (hopm ▸ hq) (by decide))
              have hms2 : MS X none s2.tree := hms1.append h1.tree.wf hp1 hc1 hl2 sp2 hNx2 hFi2
              have hsc2 : s2.scopeStack = s.scopeStack.push scope := by rw [hs2]; exact hsc1
              have hop2 : (slot s2.tree scope).opcode = opIntScopeBlock := by
                have : (slot s2.tree scope).opcode = (slot s1.tree scope).opcode := congrArg (fun p => p.1) (sp2.pay scope)
                rw [this, ht1]; exact hopm
              have hS2 : SP d s2 := hS.step h2 g2 (fun x hx => by
                rw [hsc2, Array.toList_push, List.mem_append, List.mem_singleton] at hx
                rcases hx with hx | hx
                · exact Or.inl hx
                · rw [hx, hop2]; exact Or.inr (by decide))
              have hb2 : Bud d 0 s2 := by have := budS hb g2 h2.inv.1 (by omega); exact this.mono (by omega)
              have htop2 : topOf s2 = scope := topOf_push s scope hsc2
              have hu2 : UnF X s2 (topOf s2) := by
                rw [htop2]
                exact (hu.grow g2 w h2.tree.wf h.tree.root (Or.inr hc)).child h2.tree.wf (by rw [hl2]; exact hl1)
                  (by rw [hP2, if_pos rfl]) (hu.notFresh hns)
              have := ih.termList (s := s2) hS2 hms2 hu2 (by rw [hsc2]; simp) hb2
              refine NPs.bind this ?_
              intro b s3 ⟨h3, g3, hsz3, hok3⟩
              have g23 : SGrow T4 0 s2 s3 := g3.mono h2.tree.wf (fun x _ hT => by
                have hT' : x = topOf s2 := hT
                rw [htop2] at hT'; exact Or.inr hT')
              have g03 : SGrow T4 1 s s3 := g2.trans g23
              have hfin : ∀ {s' : PState}, SGrow T4 1 s s' → SGrow (TCur s curObj) 2 s s' := by
                intro s' g
                refine (g.mono w ?_).weaken (by omega)
                intro x hx hT
                rcases hT with hT | hT
                · exact hT
                · rw [hT, hns] at hx; cases hx
              have hsz03 : s.scopeStack.size ≤ s3.scopeStack.size := by
                have : s2.scopeStack.size = s.scopeStack.size + 1 := by rw [hsc2]; simp
                omega
              cases b with
              | false =>
                simp only [Bool.not_false, ↓reduceIte]
                exact NPs.pure ⟨⟨h3, hfin g03, hsz03, fun hq => absurd rfl hq⟩, fun a ha => (by cases ha), fun hl => absurd hl hnl,
                  fun hq => (by rw [htl] at hq; cases hq), fun hq => absurd hq hpk, fun hq => absurd hq hsimple,
                  fun hl => absurd hl hnl⟩
              | true =>
                simp only [Bool.not_true, Bool.false_eq_true, ↓reduceIte]
                obtain ⟨q1, q2⟩ := hok3 rfl
                have hne3 : s3.scopeStack.size ≠ 0 := by rw [q1, hsc2]; simp
                obtain ⟨s4, e4, h4, hs4⟩ := scopeExit_step h3 hne3
                refine NPs.step e4 ?_
                have ht4 : s4.tree = s3.tree := by rw [hs4]
                have hsc4 : s4.scopeStack = s.scopeStack := by rw [hs4]; show s3.scopeStack.pop = _; rw [q1, hsc2, stack_pop_push]
                have hc2 : live s2.tree curObj = true := by rw [hl2]; exact hc1
                have hsc2l : live s2.tree scope = true := by rw [hl2]; exact hl1
                have hP2s : C13.P s2.tree scope = curObj := by rw [hP2, if_pos rfl]
                have hc4 : live s4.tree curObj = true := by rw [ht4]; exact g3.oldLive _ hc2
                have hl4 : live s4.tree scope = true := by rw [ht4]; exact g3.oldLive _ hsc2l
                have hP4s : C13.P s4.tree scope = curObj := by rw [ht4, g3.oldP _ hsc2l]; exact hP2s
                obtain ⟨s5, e5, h5, hs5, hsz5, sp5, hl5, hP5, hNx5, hFi5⟩ := detach_stepS h4 hc4 hl4 hP4s
                refine NPs.step e5 ?_
                have g04 : SGrow T4 1 s s4 :=
                  g03.trans (SGrow.ofSame ht4 (by rw [hs4]; exact Nat.le_refl _) (by rw [hs4]; exact ⟨rfl, rfl, rfl⟩))
                have g05 : SGrow T4 1 s s5 :=
                  g04.thenDetach hs5 hsz5 hl5 hP5 hns (Or.inl (Or.inl (Or.inl rfl))) h4.tree.wf hl4 hP4s sp5 hNx5 hFi5
                have hcs : curObj ≠ scope := fun e => by rw [e, hns] at hc; cases hc
                refine NPs.pure ⟨⟨h5, hfin g05, by rw [hs5]; show s.scopeStack.size ≤ s4.scopeStack.size; rw [hsc4]; exact Nat.le_refl _,
                  fun _ => ⟨by rw [hs5]; exact hsc4, ?_⟩⟩, ?_, fun hl => absurd hl hnl, fun hq => (by rw [htl] at hq; cases hq),
                  fun hq => absurd hq hpk, fun hq => absurd hq hsimple, fun hl => absurd hl hnl⟩
                · -- a method keeps its name and its flags in front of the block
                  have q2' : MS X none s4.tree := by rw [ht4]; exact q2
                  apply q2'.detach h4.tree.wf hl4 hP4s _ hl5 sp5 hNx5 hFi5
                  intro m hmo ho4 _ _
                  subst hmo
                  have ho : (slot s.tree m).opcode = opMethod := (g04.mK m hc).1 ho4
                  have hsh := hms m hc ho (by intro hq; cases hq) (hu.notSelf w hc ho)
                  obtain ⟨p1, p2, n1, n2⟩ := hsh.parents w hc
                  obtain ⟨v, l1, l2, _⟩ := hsh
                  have hmINV : m ≠ INV := live_ne_INV w.size_le hc
                  have hnT : ¬ T4 m → False := fun hq => hq (Or.inl (Or.inl rfl))
                  -- first argument: unchanged by the fresh block, by the append (there were arguments), by the loop
                  have hfim : Fi sm.tree m = Fi s.tree m := by unfold Fi; rw [fm.old m (fm.ne hc)]
                  have hlam : La sm.tree m ≠ INV := by
                    intro hq
                    have : La s.tree m = INV := by
                      have : La sm.tree m = La s.tree m := by unfold La; rw [fm.old m (fm.ne hc)]
                      rw [← this]; exact hq
                    exact n1 ((w.lP hc).ends.2 this)
                  have hfi2 : Fi s2.tree m = Fi s.tree m := by
                    rw [hFi2, if_neg (fun hq => hlam (by rw [← ht1]; exact hq.2)), ht1]; exact hfim
                  have hfi4 : Fi s4.tree m = Fi s.tree m := by
                    rw [ht4, g3.fiK m hc2 (by show ¬ (m = topOf s2); rw [htop2]; exact hcs), hfi2]
                  have hnx2 : Nx s2.tree (Fi s.tree m) = Nx s.tree (Fi s.tree m) := by
                    have hne1 : Fi s.tree m ≠ scope := fun e => by rw [e, hns] at l1; cases l1
                    rw [hNx2, if_neg hne1]
                    have hnxm : Nx sm.tree (Fi s.tree m) = Nx s.tree (Fi s.tree m) := by unfold Nx; rw [fm.old _ (fm.ne l1)]
                    split
                    · rename_i hq
                      exfalso
                      have := ((h1.tree.wf.lP hc1).la hq.2).2
                      rw [← hq.1, ht1, hnxm] at this
                      exact n2 this
                    · rw [ht1]; exact hnxm
                  have hl1_2 : live s2.tree (Fi s.tree m) = true := g2.oldLive _ l1
                  have hp1_2 : C13.P s2.tree (Fi s.tree m) = m := by rw [g2.oldP _ l1]; exact p1
                  have hnx4 : Nx s4.tree (Fi s.tree m) = Nx s.tree (Fi s.tree m) := by
                    rw [ht4, (g3.kidK _ hl1_2 (by rw [hp1_2]; exact hmINV) (by
                      rw [hp1_2]; show ¬ (m = topOf s2); rw [htop2]; exact hcs)).1, hnx2]
                  rw [hfi4, hnx4]
                  exact ⟨fun e => (by rw [← e, hns] at l1; cases l1), fun e => (by rw [← e, hns] at l2; cases l2)⟩
                · intro a ha
                  cases ha
                  refine ⟨hns, by rw [hl5]; exact hl4, ?_⟩
                  rw [hP5, if_pos rfl]
            · rw [if_neg htl]
              have hnmc : (slot s.tree curObj).opcode ≠ opMethod := by
                intro ho
                rcases hmeth ho with hq | hq
                · exact hnl hq
                · exact htl hq
              refine (ih.target hS hms (hu.toINV w) (hb.mono (by omega))).mono ?_
              intro a s' ⟨⟨h', g', hsz', hok'⟩, hret⟩
              refine ⟨⟨h', (g'.mono w (fun x _ hT => False.elim hT)).weaken (by omega), hsz', hok'⟩, hret,
                fun hl => absurd hl hnl, ?_, fun hq => absurd hq hpk, fun hq => absurd hq hsimple, fun hl => absurd hl hnl⟩
              intro hq; rw [hq] at hsimple; exact absurd (by decide) hsimple

theorem MS.close {t : ObjectTree} {c : Nat} (h : MS X (some c) t) (hc : Sh t c) : MS X none t := by
  intro m hl ho _ hx
  by_cases hm : m = c
  · rw [hm]; exact hc
  · exact h m hl ho (by intro e; cases e; exact hm rfl) hx

/-- `parseArgs(info, curObj, argOffset)` from argument `j` in the strict mode -/
theorem args_stepS {d : Bytes} {f : Nat} (ih : SNP X d f) {s : PState}
    (info curObj j : Nat) (hS : SP d s) (hc : live s.tree curObj = true) (hinfo : InfoOK info) (hrow : rowFacts info = true)
    (hj : j ≤ argCnt info) (hb : Bud d (2 * (7 - j)) s) (hatt : Att s info curObj) (hprev : PrevOK s info curObj j)
    (hmsx : MSx X s info curObj j) (hu : UnF X s curObj)
    (hcons : (slot s.tree curObj).opcode = opMethod → info = methodInfo) (hpar : ParNM s curObj) :
    NPs (parseArgs d (f + 1) info curObj j) s (fun res s' =>
      PostS d (TCur s curObj) (2 * (7 - j)) s s' (res ≠ .failed) (MS X none s'.tree)) := by
  have h := hS.fp
  have w := h.tree.wf
  unfold parseArgs
  rw [opArgCount_of_info hinfo]
  refine NPs.step (optP_ex _ s) ?_
  have hcnt := rowFacts_cnt hrow
  by_cases hlt : j < argCnt info
  · rw [if_pos hlt, opArg_of_info hinfo j]
    refine NPs.step (optP_ex _ s) ?_
    have hj8 : j < 8 := by omega
    have hfl : argAt info j = argTypeFieldList → C13.P s.tree curObj ≠ INV ∧ live s.tree (La s.tree curObj) = true ∧
        ∃ v, (slot s.tree (La s.tree curObj)).value = .u64 v := by
      intro hq
      obtain ⟨q1, q2⟩ := rowFacts_fl hrow hj8 hq
      obtain ⟨q3, q4⟩ := hprev q1 q2
      refine ⟨?_, q3, q4⟩
      rcases hatt with hp | hno
      · exact hp
      · exact absurd hq (noFL_at hno hj8)
    -- the exception of the method invariant while the name and the flags of a method are read
    let ex : Option Nat := if info = methodInfo ∧ j < 3 then some curObj else none
    have hmsex : MS X ex s.tree := by
      show MS X (if info = methodInfo ∧ j < 3 then some curObj else none) s.tree
      split
      · exact hmsx.toSome
      · rename_i hq
        unfold MSx at hmsx
        split at hmsx
        · rename_i hi
          exact hmsx.2.2 (by
            have : ¬ j < 3 := fun h3 => hq ⟨hi, h3⟩
            omega)
        · exact hmsx
    have hleafM : info = methodInfo → j < 3 → Leaf (argAt info j) := by
      intro hi h3
      rw [hi]
      obtain ⟨_, a0, a1, a2, _⟩ := method_row
      have : j = 0 ∨ j = 1 ∨ j = 2 := by omega
      rcases this with hq | hq | hq <;> subst hq
      · exact Or.inr a0
      · exact Or.inl (by rw [a1]; decide)
      · exact Or.inl (by rw [a2]; decide)
    have hex : ¬ Leaf (argAt info j) → ex = none := by
      intro hnl
      show (if info = methodInfo ∧ j < 3 then some curObj else none) = none
      rw [if_neg (fun hq => hnl (hleafM hq.1 hq.2))]
    have hmeth : (slot s.tree curObj).opcode = opMethod → Leaf (argAt info j) ∨ argAt info j = argTypeTermList := by
      intro ho
      have hi := hcons ho
      rw [hi] at hlt ⊢
      exact method_arg_kinds hlt
    have := ih.arg info curObj (argAt info j) ex hS hc hinfo (hb.mono (by omega)) hfl hmsex hu hex hmeth hpar
    refine NPs.bind this ?_
    intro ⟨a1, a2⟩ s1 ⟨⟨h1, g1, hsz1, hok1⟩, hret, hleaf, hbd, hpkn, hsim, hlf⟩
    dsimp only at hok1 hret hbd hpkn hsim hlf ⊢
    have hc1 : live s1.tree curObj = true := g1.oldLive _ hc
    -- the rest of the loop from a state `s2` in which the returned object is the last argument of `curObj`
    have cont : ∀ s2 : PState, FP d s2 → SGrow (TCur s curObj) 2 s s2 → s2.scopeStack = s1.scopeStack →
        (a2 ≠ .failed → MS X ex s2.tree) →
        (a2 = .ok → MSx X s2 info curObj (j + 1) ∧ PrevOK s2 info curObj (j + 1)) →
        NPs (if a2 = .ok then parseArgs d f info curObj (j + 1) else pure a2) s2 (fun res s' =>
          PostS d (TCur s curObj) (2 * (7 - j)) s s' (res ≠ .failed) (MS X none s'.tree)) := by
      intro s2 h2 g2 hsc2 hgu hnext
      by_cases hok : a2 = .ok
      · rw [if_pos hok]
        obtain ⟨hst1, _⟩ := hok1 (by rw [hok]; decide)
        obtain ⟨hmsx2, hprev2⟩ := hnext hok
        have hst2 : s2.scopeStack = s.scopeStack := by rw [hsc2, hst1]
        have hS2 : SP d s2 := hS.step h2 g2 (fun x hx => Or.inl (by rw [← hst2]; exact hx))
        have hc2 : live s2.tree curObj = true := g2.oldLive _ hc
        have hb2 : Bud d (2 * (7 - (j + 1))) s2 := by
          have := budS hb g2 h2.inv.1 (by omega)
          exact this.mono (by omega)
        have hP2 : C13.P s2.tree curObj = C13.P s.tree curObj := g2.oldP _ hc
        have hatt2 : Att s2 info curObj := by unfold Att at hatt ⊢; rw [hP2]; exact hatt
        have hcons2 : (slot s2.tree curObj).opcode = opMethod → info = methodInfo := fun hq => hcons ((g2.mK _ hc).1 hq)
        have hpar2 : ParNM s2 curObj := by
          unfold ParNM at hpar ⊢
          rw [hP2]
          rcases hpar with hq | hq
          · exact Or.inl hq
          · by_cases hpi : C13.P s.tree curObj = INV
            · exact Or.inl hpi
            · have hpl : live s.tree (C13.P s.tree curObj) = true := by
                rcases (w.lP hc).lp with h0 | h0
                · exact absurd h0 hpi
                · exact h0
              exact Or.inr (fun ho => hq ((g2.mK _ hpl).1 ho))
        have hu2 : UnF X s2 curObj := hu.grow g2 w h2.tree.wf h.tree.root (Or.inr hc)
        have := ih.args info curObj (j + 1) hS2 hc2 hinfo hrow (by omega) hb2 hatt2 hprev2 hmsx2 hu2 hcons2 hpar2
        refine this.mono ?_
        intro res s3 ⟨h3, g3, hsz3, hok3⟩
        have g3' : SGrow (TCur s curObj) (2 * (7 - (j + 1))) s2 s3 := by
          have : TCur s2 curObj = TCur s curObj := by unfold TCur; rw [hP2]
          rw [← this]; exact g3
        refine ⟨h3, ?_, by rw [← hst2]; exact hsz3, fun hq => ⟨by rw [(hok3 hq).1, hst2], (hok3 hq).2⟩⟩
        have := g2.trans g3'
        have hcc : 2 + 2 * (7 - (j + 1)) = 2 * (7 - j) := by omega
        rw [hcc] at this
        exact this
      · rw [if_neg hok]
        refine NPs.pure ⟨h2, g2.weaken (by omega), by rw [hsc2]; exact hsz1, fun hq => ⟨by rw [hsc2]; exact (hok1 hq).1, ?_⟩⟩
        have hm2 := hgu hq
        by_cases hcase : info = methodInfo ∧ j < 3
        · rcases hlf (hleafM hcase.1 hcase.2) with h0 | h0
          · exact absurd h0 hok
          · exact absurd h0 hq
        · have : ex = none := by
            show (if info = methodInfo ∧ j < 3 then some curObj else none) = none
            rw [if_neg hcase]
          rw [this] at hm2; exact hm2
    cases a1 with
    | none =>
      refine cont s1 h1 g1 rfl (fun hq => (hok1 hq).2) ?_
      intro hok
      obtain ⟨_, hms1⟩ := hok1 (by rw [hok]; decide)
      constructor
      · -- no object was returned: not a simple argument
        unfold MSx
        unfold MSx at hmsx
        split
        · rename_i hi
          rw [if_pos hi] at hmsx
          have hnsim : isSimpleArg (argAt info j) = true → False := fun hq => by
            obtain ⟨x, hx⟩ := hsim hq hok; cases hx
          obtain ⟨_, a0, a1', a2', _⟩ := method_row
          refine ⟨?_, ?_, ?_⟩
          · intro hj1
            have hj0 : j = 0 := by omega
            subst hj0
            have hl := hleaf (hleafM hi (by omega))
            obtain ⟨m0, f0, l0⟩ := hmsx.1 (by omega)
            have hms1' : MS X (some curObj) s1.tree := by
              have : ex = some curObj := by
                show (if info = methodInfo ∧ 0 < 3 then some curObj else none) = some curObj
                rw [if_pos ⟨hi, by omega⟩]
              rw [this] at hms1; exact hms1
            refine ⟨hms1', ?_, ?_⟩
            · unfold Fi; rw [hl curObj hc]; exact f0
            · unfold La; rw [hl curObj hc]; exact l0
          · intro hj2
            exfalso
            have hj1 : j = 1 := by omega
            subst hj1
            exact hnsim (by rw [hi, a1']; decide)
          · intro hj3
            have hj23 : j = 2 ∨ 3 ≤ j := by omega
            rcases hj23 with hj2 | hj3'
            · exfalso
              subst hj2
              exact hnsim (by rw [hi, a2']; decide)
            · have : ex = none := by
                show (if info = methodInfo ∧ j < 3 then some curObj else none) = none
                rw [if_neg (fun hq => by omega)]
              rw [this] at hms1; exact hms1
        · rename_i hi
          have : ex = none := by
            show (if info = methodInfo ∧ j < 3 then some curObj else none) = none
            rw [if_neg (fun hq => hi hq.1)]
          rw [this] at hms1; exact hms1
      · intro _ hq
        have hq' : argAt info j = argTypeByteData := hq
        obtain ⟨x, _, hx, _⟩ := hbd hq' hok
        cases hx
    | some x =>
      obtain ⟨q1, q2, q3⟩ := hret x rfl
      obtain ⟨s2, e2, h2, hs2, hsz2, sp2, hl2, hP2, hLa2, hNx2, hFi2⟩ :=
        append_step h1 w (fun y hy => ⟨g1.oldLive y hy, g1.oldP y hy⟩) hc q1 q2 q3
      refine NPs.step e2 ?_
      have g2 : SGrow (TCur s curObj) 2 s s2 := g1.thenAppend hs2 hsz2 hl2 hP2 q1 (Or.inl (Or.inl rfl)) h1.tree.wf hc1 sp2 hNx2 hFi2
      refine cont s2 h2 g2 (by rw [hs2]) (fun hq => (hok1 hq).2.append h1.tree.wf q3 hc1 hl2 sp2 hNx2 hFi2) ?_
      intro hok
      obtain ⟨_, hms1⟩ := hok1 (by rw [hok]; decide)
      have hms2 : MS X ex s2.tree := hms1.append h1.tree.wf q3 hc1 hl2 sp2 hNx2 hFi2
      have hx2 : live s2.tree x = true := by rw [hl2]; exact q2
      constructor
      · unfold MSx
        unfold MSx at hmsx
        split
        · rename_i hi
          rw [if_pos hi] at hmsx
          obtain ⟨_, a0, a1', a2', _⟩ := method_row
          have hnpk : argAt info j ≠ argTypePkgLen := fun hq => by have := hpkn hq; cases this
          have hj0 : j ≠ 0 := fun hq => hnpk (by rw [hq, hi]; exact a0)
          refine ⟨fun hj1 => by omega, ?_, ?_⟩
          · intro hj2
            have hj1 : j = 1 := by omega
            subst hj1
            have hl := hleaf (hleafM hi (by omega))
            obtain ⟨_, f0, l0⟩ := hmsx.1 (by omega)
            have hla1 : La s1.tree curObj = INV := by unfold La; rw [hl curObj hc]; exact l0
            have hexs : ex = some curObj := by
              show (if info = methodInfo ∧ 1 < 3 then some curObj else none) = some curObj
              rw [if_pos ⟨hi, by omega⟩]
            rw [hexs] at hms2
            refine ⟨hms2, ?_, ?_⟩
            · rw [hLa2, hFi2, if_pos ⟨rfl, hla1⟩]
            · rw [hFi2, if_pos ⟨rfl, hla1⟩]; exact hx2
          · intro hj3
            have hj23 : j = 2 ∨ 3 ≤ j := by omega
            rcases hj23 with hj2 | hj3'
            · subst hj2
              have hl := hleaf (hleafM hi (by omega))
              obtain ⟨_, lf, lv⟩ := hmsx.2.1 rfl
              have hexs : ex = some curObj := by
                show (if info = methodInfo ∧ 2 < 3 then some curObj else none) = some curObj
                rw [if_pos ⟨hi, by omega⟩]
              rw [hexs] at hms2
              have hla1 : La s1.tree curObj = La s.tree curObj := by unfold La; rw [hl curObj hc]
              have hfi1 : Fi s1.tree curObj = Fi s.tree curObj := by unfold Fi; rw [hl curObj hc]
              have hc1INV : Fi s.tree curObj ≠ INV := live_ne_INV w.size_le lv
              obtain ⟨y, v, hy, hv⟩ := hbd (by rw [hi]; exact a2') hok
              cases hy
              apply hms2.close
              have hfi2 : Fi s2.tree curObj = Fi s.tree curObj := by
                rw [hFi2, if_neg (fun hq => hc1INV (by rw [← lf, ← hla1]; exact hq.2)), hfi1]
              have hnx2 : Nx s2.tree (Fi s.tree curObj) = x := by
                have hne : Fi s.tree curObj ≠ x := fun e => by rw [← e, lv] at q1; cases q1
                rw [hNx2, if_neg hne, if_pos ⟨by rw [hla1, lf], by rw [hla1, lf]; exact hc1INV⟩]
              refine ⟨v, ?_, ?_, ?_⟩
              · rw [hfi2]; exact g2.oldLive _ lv
              · rw [hfi2, hnx2]; exact hx2
              · rw [hfi2, hnx2, samePay_value sp2]; exact hv
            · have : ex = none := by
                show (if info = methodInfo ∧ j < 3 then some curObj else none) = none
                rw [if_neg (fun hq => by omega)]
              rw [this] at hms2; exact hms2
        · rename_i hi
          have : ex = none := by
            show (if info = methodInfo ∧ j < 3 then some curObj else none) = none
            rw [if_neg (fun hq => hi hq.1)]
          rw [this] at hms2; exact hms2
      · intro _ hq
        have hq' : argAt info j = argTypeByteData := hq
        obtain ⟨y, v, hy, hv⟩ := hbd hq' hok
        cases hy
        rw [hLa2]
        exact ⟨hx2, v, by rw [samePay_value sp2]; exact hv⟩
  · rw [if_neg hlt]
    refine NPs.pure ⟨h, (SGrow.refl s).weaken (Nat.zero_le _), Nat.le_refl _, fun _ => ⟨rfl, ?_⟩⟩
    have hje : j = argCnt info := by omega
    unfold MSx at hmsx
    split at hmsx
    · rename_i hi
      apply hmsx.2.2
      rw [hje, hi, method_row.1]
      omega
    · exact hmsx

/-- `parseObjectArgs(curObj)` in the strict mode -/
theorem objArgs_stepS {d : Bytes} {f : Nat} (ih : SNP X d f) {s : PState} (curObj : Nat) (hS : SP d s)
    (hc : live s.tree curObj = true) (hrow : rowFacts (slot s.tree curObj).infoIndex = true)
    (hatt : Att s (slot s.tree curObj).infoIndex curObj) (hb : Bud d 14 s)
    (hmsx : MSx X s (slot s.tree curObj).infoIndex curObj 0) (hu : UnF X s curObj)
    (hcons : (slot s.tree curObj).opcode = opMethod → (slot s.tree curObj).infoIndex = methodInfo) (hpar : ParNM s curObj) :
    NPs (parseObjectArgs d (f + 1) curObj) s (fun res s' =>
      PostS d (TCur s curObj) 14 s s' (res ≠ .failed) (MS X none s'.tree)) := by
  have h := hS.fp
  have w := h.tree.wf
  unfold parseObjectArgs
  refine NPs.step (getObj_live hc) ?_
  -- a constant: only the value of `curObj` changes
  have pay : ∀ {res : PRes} {s' : PState}, (slot s.tree curObj).opcode ≠ opMethod → FP d s' → PayOnly curObj s s' →
      PostS d (TCur s curObj) 14 s s' ((if res = PRes.shortCircuit then PRes.ok else res) ≠ .failed) (MS X none s'.tree) := by
    intro res s' hnm h' hp
    refine ⟨h', (SGrow.ofPay hp (Or.inr (Or.inr rfl)) (Or.inl rfl) hc).weaken (by omega), by rw [hp.scope]; exact Nat.le_refl _,
      fun _ => ⟨hp.scope, ?_⟩⟩
    exact (hmsx.toSome.ofSome hnm).pay w hp hpar
  have num : ∀ n, (slot s.tree curObj).opcode ≠ opMethod →
      NPs (setNumValue d curObj n >>= fun res => (pure (if res = PRes.shortCircuit then PRes.ok else res) : P PRes)) s
        (fun res s' => PostS d (TCur s curObj) 14 s s' (res ≠ .failed) (MS X none s'.tree)) := by
    intro n hnm
    obtain ⟨res, s', e, h', hp, _, _⟩ := setNumValue_tot h hc n
    exact NPs.step e (NPs.pure (pay hnm h' hp))
  split
  · rename_i ho; exact num 1 (by rw [ho]; decide)
  · split
    · rename_i ho; exact num 2 (by rw [ho]; decide)
    · split
      · rename_i ho; exact num 4 (by rw [ho]; decide)
      · split
        · rename_i ho; exact num 8 (by rw [ho]; decide)
        · split
          · rename_i ho
            obtain ⟨res, s', e, h', hp, _, _⟩ := setStringValue_tot h hc
            exact NPs.step e (NPs.pure (pay (by rw [ho]; decide) h' hp))
          · have hinfo := h.tree.info curObj hc
            obtain ⟨fl, hfl⟩ := opFlags_of_info hinfo
            rw [hfl]
            refine NPs.step (optP_ex fl s) ?_
            have := ih.args (slot s.tree curObj).infoIndex curObj 0 hS hc hinfo hrow (Nat.zero_le _)
              (hb.mono (by omega)) hatt (fun h0 => by omega) hmsx hu hcons hpar
            refine NPs.bind this ?_
            intro res s' ⟨h', g', hsz', hok'⟩
            refine NPs.pure ⟨h', g', hsz', fun hq => hok' ?_⟩
            intro hf
            rw [hf] at hq
            exact hq (by decide)

/-- the strict-mode functions never end in `.panic`, for every amount of fuel -/
theorem snp {d : Bytes} (hd : d.size + 268435456 ≤ 4294967296) (f : Nat) : SNP X d f := by
  induction f with
  | zero =>
    refine ⟨?_, ?_, ?_, ?_, ?_, ?_, ?_, ?_, ?_⟩
    · intro s _ _ _ _ _; unfold parseNextObject; exact NPs.fuel
    · intro s _ _ _ _ _; unfold parseNamePathOrMethodCall; exact NPs.fuel
    · intro s _ _ _ _ _; unfold termListLoop; exact NPs.fuel
    · intro s n _ _ _ _ _; unfold methodArgsLoop; exact NPs.fuel
    · intro s c _ _ _ _ _ _ _ _ _; unfold parseObjectArgs; exact NPs.fuel
    · intro s i c j _ _ _ _ _ _ _ _ _ _ _ _; unfold parseArgs; exact NPs.fuel
    · intro s i c a ex _ _ _ _ _ _ _ _ _ _; unfold parseArg; exact NPs.fuel
    · intro s c _ _ _ _ _ _; unfold parseStrictTermArg; exact NPs.fuel
    · intro s _ _ _ _; unfold parseTarget; exact NPs.fuel
  | succ f ih =>
    exact ⟨fun hS hms hu hne hb => next_stepS hd ih hS hms hu hne hb,
      fun hS hms hu hne hb => namePath_stepS hd ih hS hms hu hne hb,
      fun hS hms hu hne hb => termList_stepS ih hS hms hu hne hb,
      fun n hS hms hu hne hb => methodArgs_stepS ih n hS hms hu hne hb,
      fun c hS hc hrow hatt hb hmsx hu hcons hpar => objArgs_stepS ih c hS hc hrow hatt hb hmsx hu hcons hpar,
      fun i c j hS hc hinfo hrow hj hb hatt hprev hmsx hu hcons hpar => args_stepS ih i c j hS hc hinfo hrow hj hb hatt hprev hmsx hu hcons hpar,
      fun i c a ex hS hc hinfo hb hfl hms hu hex hmeth hpar => arg_stepS hd ih i c a ex hS hc hinfo hb hfl hms hu hex hmeth hpar,
      fun c hS hc hnm hms hu hb => strictTermArg_stepS hd ih c hS hc hnm hms hu hb,
      fun hS hms hu hb => target_stepS hd ih hS hms hu hb⟩

/-! ## one deferred block -/

theorem popAllPkgEnds_ex {d : Bytes} (n : Nat) : ∀ {s : PState}, FP d s →
    ∃ (a : Unit) (s' : PState), popAllPkgEnds d n s = .ok (a, s') ∧ FP d s' ∧ s'.tree = s.tree ∧ s'.scopeStack = s.scopeStack := by
  induction n with
  | zero => intro s h; unfold popAllPkgEnds; exact pure_ex ⟨h, rfl, rfl⟩
  | succ n ih =>
    intro s h
    unfold popAllPkgEnds
    have e0 : stackSizes s = .ok ((s.pkgEndStack.size, s.scopeStack.size), s) := rfl
    refine bind_ex e0 ?_
    split
    · exact pure_ex ⟨h, rfl, rfl⟩
    · obtain ⟨_, s1, e1, h1, ht1, hsc1, _, _⟩ := popPkgEnd_stepS h
      refine bind_ex e1 ?_
      obtain ⟨_, s2, e2, h2, ht2, hsc2⟩ := ih h1
      exact ⟨(), s2, e2, h2, by rw [ht2, ht1], by rw [hsc2, hsc1]⟩

/-- what `parseDeferred` needs to know about the deferred object -/
structure BlockOK (s : PState) (obj : Nat) : Prop where
  live : live s.tree obj = true
  row : rowFacts (slot s.tree obj).infoIndex = true
  notMethod : (slot s.tree obj).opcode ≠ opMethod ∧ (slot s.tree obj).infoIndex ≠ methodInfo
  attached : C13.P s.tree obj ≠ INV
  parent : (slot s.tree (C13.P s.tree obj)).opcode ≠ opMethod

/-- **One deferred block.**  From a state with a well-formed tree in which every `Method` has its flags and no
`Method` is on the scope stack, `parseDeferred(obj)` — the strict re-parse of the arguments of a deferred object —
never ends in `.panic`; whatever it returns, the tree is well formed again, the objects that existed are still
there under the same parents, and on success every `Method` (including the ones the block declared) has its
flags and the scope stack is as before. -/
theorem parseDeferred_np {d : Bytes} (hd : d.size + 268435456 ≤ 4294967296) (fuel : Nat) {s : PState} (obj : Nat)
    (h : FP d s) (hnm : StackNM s) (hms : MS X none s.tree) (hu : UnF X s obj) (hobj : BlockOK s obj)
    (hbud : s.tree.pool.size + 16 * d.size + 16 ≤ INV) :
    NPs (parseDeferred d fuel obj) s (fun res s' => FP d s' ∧
      (∀ x, live s.tree x = true → live s'.tree x = true ∧ C13.P s'.tree x = C13.P s.tree x) ∧
      (res = .ok → MS X none s'.tree ∧ s'.scopeStack = s.scopeStack)) := by
  have hd' : d.size + 1024 ≤ 4294967296 := by omega
  unfold parseDeferred
  refine NPs.step (getObj_live hobj.live) ?_
  refine NPs.step (a := ()) (s1 := { s with allBlocks := true }) rfl ?_
  generalize hs1 : ({ s with allBlocks := true } : PState) = s1
  have ht1 : s1.tree = s.tree := by rw [← hs1]
  have hsc1 : s1.scopeStack = s.scopeStack := by rw [← hs1]
  have h1 : FP d s1 := by rw [← hs1]; exact ⟨h.inv, h.tree, h.scopes⟩
  have hab1 : s1.allBlocks = true := by rw [← hs1]
  refine NPs.step (a := s1.streamEnd) (s1 := s1) rfl ?_
  obtain ⟨_, s2, e2, h2, _, hs2⟩ := lex_step (rel_setPkgEnd d s1.streamEnd) h1
  refine NPs.step e2 ?_
  obtain ⟨_, s3, e3, h3, _, hs3⟩ := lex_step (rel_setOffset d (u32 ((slot s.tree obj).amlOffset + 1))) h2
  refine NPs.step e3 ?_
  have hs3' : s3 = { s1 with r := s3.r } := by rw [hs3, hs2]
  -- the state in which the arguments are parsed: the tree and the stacks of `s`, the reader inside the table
  have main : ∀ s4 : PState, FP d s4 → s4 = { s1 with r := s4.r } →
      NPs (do
        if (← parseObjectArgs d fuel obj) ≠ .ok then pure .failed else do
        popAllPkgEnds d ((← stackSizes).1 + 1)
        pure PRes.ok : P PRes) s4 (fun res s' => FP d s' ∧
          (∀ x, live s.tree x = true → live s'.tree x = true ∧ C13.P s'.tree x = C13.P s.tree x) ∧
          (res = .ok → MS X none s'.tree ∧ s'.scopeStack = s.scopeStack)) := by
    intro s4 h4 hs4
    have ht4 : s4.tree = s.tree := by rw [hs4]; exact ht1
    have hsc4 : s4.scopeStack = s.scopeStack := by rw [hs4]; exact hsc1
    have hS4 : SP d s4 := by
      refine ⟨h4, by rw [hs4]; exact hab1, ?_⟩
      intro x hx
      rw [ht4]; exact hnm x (by rw [← hsc4]; exact hx)
    have hb4 : Bud d 14 s4 := by
      unfold Bud; rw [ht4]
      have := h4.inv.1
      omega
    have hmsx : MSx X s4 (slot s4.tree obj).infoIndex obj 0 := by
      unfold MSx
      rw [ht4, if_neg hobj.notMethod.2]
      exact hms
    have := (snp (X := X) hd fuel).objArgs (s := s4) obj hS4 (by rw [ht4]; exact hobj.live) (by rw [ht4]; exact hobj.row)
      (Or.inl (by rw [ht4]; exact hobj.attached)) hb4 hmsx (hu.ofTree ht4) (fun hq => by rw [ht4] at hq; exact absurd hq hobj.notMethod.1)
      (Or.inr (by rw [ht4]; exact hobj.parent))
    refine NPs.bind this ?_
    intro res s5 ⟨h5, g5, _, hok5⟩
    have hold : ∀ x, live s.tree x = true → live s5.tree x = true ∧ C13.P s5.tree x = C13.P s.tree x := by
      intro x hx
      have hx4 : live s4.tree x = true := by rw [ht4]; exact hx
      exact ⟨g5.oldLive x hx4, by rw [g5.oldP x hx4, ht4]⟩
    by_cases hres : res = .ok
    · rw [if_neg (fun hq => hq hres)]
      refine NPs.step (a := (s5.pkgEndStack.size, s5.scopeStack.size)) (s1 := s5) rfl ?_
      obtain ⟨_, s6, e6, h6, ht6, hsc6⟩ := popAllPkgEnds_ex (s5.pkgEndStack.size + 1) h5
      refine NPs.step e6 (NPs.pure ⟨h6, fun x hx => by rw [ht6]; exact hold x hx, fun _ => ?_⟩)
      obtain ⟨q1, q2⟩ := hok5 (by rw [hres]; decide)
      exact ⟨by rw [ht6]; exact q2, by rw [hsc6, q1, hsc4]⟩
    · rw [if_pos hres]
      exact NPs.pure ⟨h5, hold, fun hq => by cases hq⟩
  split
  · obtain ⟨_, s4, e4, h4, _, hs4⟩ := lex_step (rel_readByte d) h3
    refine NPs.step e4 ?_
    exact main s4 h4 (by rw [hs4, hs3'])
  · exact main s3 h3 hs3'

/-! ## the executable checks of the hypotheses (run by the replay oracle in front of every deferred block) -/

unseal rowFacts argAt argCnt in
theorem rowOKb_eq (i : Nat) : rowOKb i = rowFacts i := rfl

theorem shB_sound {t : ObjectTree} {m : Nat} (h : shB t m = true) : Sh t m := by
  unfold shB at h
  simp only [Bool.and_eq_true] at h
  obtain ⟨⟨h1, h2⟩, h3⟩ := h
  cases hv : (slot t (Nx t (Fi t m))).value with
  | u64 v => exact ⟨v, h1, h2, hv⟩
  | _ => rw [hv] at h3; cases h3

/-- the incomplete methods of `t` -/
def Inc (t : ObjectTree) : Nat → Prop := fun m => live t m = true ∧ (slot t m).opcode = opMethod ∧ ¬ Sh t m

theorem ms_inc (t : ObjectTree) : MS (Inc t) none t := by
  intro m hl ho _ hx
  apply Classical.byContradiction
  intro hsh
  exact hx ⟨hl, ho, hsh⟩

theorem unfB_sound {s : PState} {ref : Nat} (w : WF s.tree) (hroot : live s.tree 0 = true) (hr : live s.tree ref = true)
    (h : unfB s.tree ref = true) : UnF (Inc s.tree) s ref := by
  unfold unfB at h
  simp only [List.all_eq_true, List.mem_range, Bool.or_eq_true, Bool.not_eq_true', Bool.and_eq_false_imp,
    Bool.and_eq_true, beq_iff_eq] at h
  intro g ⟨hl, ho, hns⟩
  refine ⟨hl, fun _ => ?_⟩
  rcases h g (live_lt hl) with (h0 | h0) | h0
  · have := h0 hl
    simp only [beq_eq_false_iff_ne, ne_eq] at this
    exact absurd ho this
  · exact absurd (shB_sound h0) hns
  · obtain ⟨⟨hn, ha0⟩, har⟩ := h0
    exact ⟨hn, w.not_anc hroot ha0, w.not_anc hr har⟩

theorem stackNMb_sound {s : PState} (h : stackNMb s = true) : StackNM s := by
  unfold stackNMb at h
  simp only [List.all_eq_true, bne_iff_ne, ne_eq] at h
  exact h

theorem fpB_sound {d : Bytes} {s : PState} (h : fpB d s = true) : FP d s := by
  unfold fpB at h
  simp only [Bool.and_eq_true, decide_eq_true_eq, List.all_eq_true, List.mem_range, Bool.or_eq_true, Bool.not_eq_true'] at h
  obtain ⟨⟨⟨⟨⟨h1, h2⟩, hw⟩, hroot⟩, hall⟩, hsc⟩ := h
  refine ⟨⟨h1, h2⟩, ⟨by unfold wfCheck at hw; exact wfCert_sound' hw, ?_, hroot⟩, hsc⟩
  intro x hx
  rcases hall x (live_lt hx) with h0 | h0
  · rw [hx] at h0; cases h0
  · exact h0

theorem blockOKb_sound {s : PState} {obj : Nat} (h : blockOKb s obj = true) : BlockOK s obj := by
  unfold blockOKb at h
  simp only [Bool.and_eq_true, bne_iff_ne, ne_eq] at h
  obtain ⟨⟨⟨⟨⟨h1, h2⟩, h3⟩, h4⟩, h5⟩, h6⟩ := h
  exact ⟨h1, by rw [← rowOKb_eq]; exact h2, ⟨h3, h4⟩, h5, h6⟩

/-- an input on which the oracle's audit of a block is silent satisfies the hypotheses of `parseDeferred_np` -/
theorem blockAudit_sound {d : Bytes} {s : PState} {obj : Nat} (h : blockAudit d s obj = []) :
    FP d s ∧ StackNM s ∧ MS (Inc s.tree) none s.tree ∧ UnF (Inc s.tree) s obj ∧ BlockOK s obj ∧
    s.tree.pool.size + 16 * d.size + 16 ≤ INV := by
  unfold blockAudit at h
  simp only [List.append_eq_nil_iff] at h
  obtain ⟨⟨⟨⟨h1, h2⟩, h3⟩, h4⟩, h5⟩ := h
  have hfp : FP d s := by
    apply fpB_sound
    by_cases hq : fpB d s = true
    · exact hq
    · rw [if_neg hq] at h1; cases h1
  have hbo : BlockOK s obj := by
    apply blockOKb_sound
    by_cases hq : blockOKb s obj = true
    · exact hq
    · rw [if_neg hq] at h4; cases h4
  refine ⟨hfp, stackNMb_sound ?_, ms_inc _, unfB_sound hfp.tree.wf hfp.tree.root hbo.live ?_, hbo, ?_⟩
  · by_cases hq : stackNMb s = true
    · exact hq
    · rw [if_neg hq] at h2; cases h2
  · by_cases hq : unfB s.tree obj = true
    · exact hq
    · rw [if_neg hq] at h3; cases h3
  · by_cases hq : s.tree.pool.size + 16 * d.size + 16 ≤ INV
    · exact hq
    · rw [if_neg hq] at h5; cases h5

end Firefly.AmlParser.S
