import Firefly.Proof.VmmPdt
/-! The page-fault handler: which executions can return. -/
namespace Firefly.Vmm
open Firefly.Gen.C04

/-- the fault handler's walk only reads: it returns the state it was given -/
theorem walkFrom_faultCb_state (va : W) (st : St) :
    ∀ (levels : List Nat) (tableAddr : W) (acc acc' : Option Loc) (st' : St),
      walkFrom faultCb va levels tableAddr acc st = .ok (acc', st') → st' = st := by
  intro levels
  induction levels with
  | nil => intro tableAddr acc acc' st' h; simp only [walkFrom] at h; cases h; rfl
  | cons L rest ih =>
    intro tableAddr acc acc' st' h
    simp only [walkFrom] at h
    split at h
    · cases h
    · rename_i loc _
      simp only [faultCb] at h
      cases hp : hasFlags (st.rdLoc loc) fPresent
      · simp only [hp] at h; cases h; rfl
      · simp only [hp] at h; exact ih _ _ _ _ h

/-- an entry is reported only from the last level, and only if it is present -/
theorem walkFrom_faultCb_some (va : W) (st : St) :
    ∀ (levels : List Nat) (tableAddr : W) (loc : Loc) (st' : St), (∀ L ∈ levels, L ≤ pageLevels - 1) →
      walkFrom faultCb va levels tableAddr none st = .ok (some loc, st') →
      hasFlags (st.rdLoc loc) fPresent = true := by
  intro levels
  induction levels with
  | nil => intro tableAddr loc st' _ h; simp only [walkFrom] at h; cases h
  | cons L rest ih =>
    intro tableAddr loc st' hl h
    simp only [walkFrom] at h
    split at h
    · cases h
    · rename_i loc' _
      simp only [faultCb] at h
      cases hp : hasFlags (st.rdLoc loc') fPresent
      · simp [hp] at h
      · simp only [hp] at h
        by_cases hL : L = pageLevels - 1
        · -- last level: the accumulator becomes `some loc'`; any later level could only overwrite it
          simp only [hL, and_self, if_true] at h
          cases rest with
          | nil => simp only [walkFrom] at h; cases h; exact hp
          | cons L' rest' =>
            -- a further level after the last one: it can only report a present entry as well
            have : ∀ (levels : List Nat) (tableAddr : W) (a : Option Loc) (loc : Loc) (st' : St),
                (∀ x, a = some x → hasFlags (st.rdLoc x) fPresent = true) →
                walkFrom faultCb va levels tableAddr a st = .ok (some loc, st') →
                hasFlags (st.rdLoc loc) fPresent = true := by
              intro levels
              induction levels with
              | nil => intro _ a loc st' ha h; simp only [walkFrom] at h; cases h; exact ha _ rfl
              | cons L2 r2 ih2 =>
                intro ta a loc st' ha h
                simp only [walkFrom] at h
                split at h
                · cases h
                · rename_i loc2 _
                  simp only [faultCb] at h
                  cases hp2 : hasFlags (st.rdLoc loc2) fPresent
                  · simp [hp2] at h; obtain ⟨h1, _⟩ := h; exact ha _ h1
                  · simp only [hp2] at h
                    refine ih2 _ _ _ _ ?_ h
                    intro x hx
                    split at hx
                    · cases hx; exact hp2
                    · exact ha _ hx
            exact this _ _ _ _ _ (by intro x hx; cases hx; exact hp) h
        · have : ¬(L = pageLevels - 1 ∧ true = true) := fun hh => hL hh.1
          simp only [hL, false_and, if_false] at h
          exact ih _ _ _ (fun L' hL' => hl L' (List.mem_cons_of_mem _ hL')) h

/-- **Everything else panics.** If `pageFaultHandler` returns (the faulting code resumes) then the
page-table walk found a leaf entry that is present, not writable and marked copy-on-write, a frame
could be allocated and the temporary mapping was not refused. -/
theorem pageFault_ok_inv (st : St) (addr : W) (st' : St) (h : pageFault st addr = .ok ((), st')) :
    ∃ loc, walk faultCb (pageAddr (pageOf addr)) none st = .ok (some loc, st) ∧
      hasFlags (st.rdLoc loc) fPresent = true ∧ hasFlags (st.rdLoc loc) fRW = false ∧
      hasFlags (st.rdLoc loc) fCoW = true ∧ st.free ≠ [] ∧ st.tmpFail = false := by
  unfold pageFault at h
  simp only at h
  split at h
  · cases h
  · rename_i entry st1 hwalk
    have hst : st1 = st := walkFrom_faultCb_state _ _ _ _ _ _ _ hwalk
    subst hst
    split at h
    · cases h
    · rename_i loc
      have hpres := walkFrom_faultCb_some _ _ _ _ _ _ (by decide) hwalk
      split at h
      · rename_i hc
        simp only [Bool.and_eq_true, Bool.not_eq_true'] at hc
        split at h
        · cases h
        · rename_i copy st2 halloc
          have hfree : st1.free ≠ [] := by
            intro hf; simp [allocFrame, hf] at halloc
          refine ⟨loc, hwalk, hpres, hc.1, hc.2, hfree, ?_⟩
          cases htf : st1.tmpFail
          · rfl
          · exfalso
            have hst2 : st2.tmpFail = true := by
              unfold allocFrame at halloc
              split at halloc
              · cases halloc
              · cases halloc; exact htf
            simp only [mapTemporaryFn, hst2, if_true] at h
            simp [eTmp] at h
      · cases h

theorem gpFault_panics (st : St) : gpFault st = .error (.panic (200 + eUnrecoverable)) := rfl

/-! ### the zero-frame guard at every mapping entry point -/
theorem mapOp_guard (st : St) (page flags : W) (hp : st.protect = true) (hrw : (flags &&& fRW) ≠ 0) :
    mapOp st page st.zeroFrame flags = .ok (eRWZero, st) := by
  unfold mapOp
  have : (st.protect && st.zeroFrame == st.zeroFrame && (flags &&& fRW) != 0) = true := by
    simp only [hp, beq_self_eq_true, Bool.true_and, bne_iff_ne]; exact hrw
  rw [if_pos this]

theorem mapTemporary_guard (st : St) (hp : st.protect = true) :
    mapTemporary st st.zeroFrame = .ok ((eRWZero, 0), st) := by
  simp [mapTemporary, hp]

theorem mapLoop_guard (st : St) (n : Nat) (page flags : W) (hp : st.protect = true) (hrw : (flags &&& fRW) ≠ 0) :
    mapLoop flags (n + 1) page st.zeroFrame st = .ok (eRWZero, st) := by
  simp [mapLoop, mapOp_guard st page flags hp hrw, eRWZero]

/-- a successful `Map` under the armed guard never installs a writable mapping of the zero frame -/
theorem mapOp_ok_not_zero_rw (st : St) (page frame flags : W) (st' : St) (hp : st.protect = true)
    (h : mapOp st page frame flags = .ok (0, st')) : ¬(frame = st.zeroFrame ∧ (flags &&& fRW) ≠ 0) := by
  rintro ⟨rfl, hrw⟩
  rw [mapOp_guard st page flags hp hrw] at h
  simp [eRWZero] at h

end Firefly.Vmm
