import Firefly.Proof.VmmOps
/-! Memory frame rules and the symbolic execution of `Map` / `Unmap` along a present path. -/
namespace Firefly.Vmm
open Firefly.Gen.C04

/-! ### memory algebra -/
@[simp] theorem rd_wr (m : Mem) (f i : Nat) (v : W) (f' i' : Nat) :
    (m.wr f i v).rd f' i' = if f = f' ∧ i = i' then v else m.rd f' i' := by
  simp [Mem.rd, Mem.wr, rdLog]

@[simp] theorem rd_setFrame (m : Mem) (f : Nat) (g : Nat → W) (f' i' : Nat) :
    (m.setFrame f g).rd f' i' = if f = f' then g i' else m.rd f' i' := by
  simp [Mem.rd, Mem.setFrame, rdLog]

@[simp] theorem backed_wr (m : Mem) (f i : Nat) (v : W) (f' : Nat) : (m.wr f i v).backed f' = m.backed f' := rfl
@[simp] theorem backed_setFrame (m : Mem) (f : Nat) (g : Nat → W) (f' : Nat) :
    (m.setFrame f g).backed f' = m.backed f' := rfl

theorem Link.wr {m : Mem} {T T' : W} {i : Nat} (h : Link m T i T') (F j : Nat) (v : W)
    (hne : ¬(F = frameN T ∧ j = i)) : Link (m.wr F j v) T i T' := by
  obtain ⟨hb, hp, hh, hn⟩ := h
  refine ⟨by simpa using hb, ?_, ?_, ?_⟩ <;> simp only [rd_wr, if_neg hne] <;> assumption

theorem Link.setFrame {m : Mem} {T T' : W} {i : Nat} (h : Link m T i T') (F : Nat) (g : Nat → W)
    (hne : F ≠ frameN T) : Link (m.setFrame F g) T i T' := by
  obtain ⟨hb, hp, hh, hn⟩ := h
  refine ⟨by simpa using hb, ?_, ?_, ?_⟩ <;> simp only [rd_setFrame, if_neg hne] <;> assumption

/-! ### entries -/
theorem mkEntry_eq (f fl : W) : mkEntry f fl = (f <<< 12) ||| fl := by
  simp [mkEntry, setFlags, setFrame, frameAddr, pageShift]

/-- flags that stay out of the frame field, frame numbers that fit it -/
def FlagsOK (fl : W) : Prop := fl &&& hwMask = 0#64
def FrameOK (f : W) : Prop := f.toNat < 2 ^ 40

theorem shl12_and_hwMask {f : W} (hf : FrameOK f) : (f <<< 12) &&& hwMask = f <<< 12 := by
  apply BitVec.eq_of_toNat_eq
  rw [and_hwMask_toNat]
  unfold FrameOK at hf
  simp only [BitVec.toNat_shiftLeft, Nat.shiftLeft_eq]
  omega

theorem mkEntry_frame {f fl : W} (hf : FrameOK f) (hfl : FlagsOK fl) : mkEntry f fl &&& hwMask = f <<< 12 := by
  rw [mkEntry_eq, BitVec.and_or_distrib_right, shl12_and_hwMask hf, hfl]; simp

theorem shl12_and_low {f : W} (k : W) (hk : k.toNat < 4096) : (f <<< 12) &&& k = 0#64 := by
  ext i hi
  simp only [BitVec.getElem_and, BitVec.getElem_shiftLeft, BitVec.getElem_zero]
  by_cases h : i < 12
  · simp [h]
  · have : k[i] = false := by
      rw [BitVec.getElem_eq_testBit_toNat]; apply Nat.testBit_lt_two_pow
      calc k.toNat < 2 ^ 12 := hk
        _ ≤ 2 ^ i := Nat.pow_le_pow_right (by omega) (by omega)
    simp [this]

/-- the flag bits of an installed entry are exactly the requested ones (below bit 12) -/
theorem mkEntry_low {f fl : W} (k : W) (hk : k.toNat < 4096) : mkEntry f fl &&& k = fl &&& k := by
  rw [mkEntry_eq, BitVec.and_or_distrib_right, shl12_and_low k hk]; simp

/-! ### `Map` / `Unmap` callbacks -/
theorem hasFlags_present_false {e : W} (h : e &&& 1#64 = 0#64) : hasFlags e fPresent = false := by
  cases hf : hasFlags e fPresent
  · rfl
  · exact absurd h ((hasFlags_present _).1 hf)

theorem hasFlags_huge_false {e : W} (h : e &&& 128#64 = 0#64) : hasFlags e fHuge = false := by
  cases hf : hasFlags e fHuge
  · rfl
  · exact absurd h ((hasFlags_huge _).1 hf)

theorem mapCb_present {page frame flags ea : W} {L : Nat} (hL : L < 3) {loc : Loc} {err : Nat} {st : St}
    (hp : st.rdLoc loc &&& 1#64 ≠ 0#64) (hh : st.rdLoc loc &&& 128#64 = 0#64) :
    mapCb page frame flags L ea loc err st = .ok ((true, err), st) := by
  have h1 : ¬ L = pageLevels - 1 := by simp [pageLevels]; omega
  simp [mapCb, h1, hasFlags_huge_false hh, (hasFlags_present _).2 hp]

theorem mapCb_leaf {page frame flags ea : W} {loc : Loc} {err : Nat} {st : St} :
    mapCb page frame flags 3 ea loc err st =
      .ok ((true, err), (st.wrLoc loc (mkEntry frame flags)).flush (pageAddr page)) := by
  simp [mapCb, pageLevels]

theorem unmapCb_present {page ea : W} {L : Nat} (hL : L < 3) {loc : Loc} {err : Nat} {st : St}
    (hp : st.rdLoc loc &&& 1#64 ≠ 0#64) (hh : st.rdLoc loc &&& 128#64 = 0#64) :
    unmapCb page L ea loc err st = .ok ((true, err), st) := by
  have h1 : ¬ L = pageLevels - 1 := by simp [pageLevels]; omega
  simp [unmapCb, h1, hasFlags_huge_false hh, (hasFlags_present _).2 hp]

theorem unmapCb_absent {page ea : W} {L : Nat} (hL : L < 3) {loc : Loc} {err : Nat} {st : St}
    (hp : st.rdLoc loc &&& 1#64 = 0#64) :
    unmapCb page L ea loc err st = .ok ((false, eInvalidMapping), st) := by
  have h1 : ¬ L = pageLevels - 1 := by simp [pageLevels]; omega
  simp [unmapCb, h1, hasFlags_present_false hp]

theorem unmapCb_leaf {page ea : W} {loc : Loc} {err : Nat} {st : St} :
    unmapCb page 3 ea loc err st =
      .ok ((true, err), (st.wrLoc loc (clearFlags (st.rdLoc loc) fPresent)).flush (pageAddr page)) := by
  simp [unmapCb, pageLevels]

/-- the three upper levels of `va`'s path exist: `R -i0-> T1 -i1-> T2 -i2-> T3`, `T3` is RAM -/
structure Path (m : Mem) (R va T1 T2 T3 : W) : Prop where
  l0 : Link m R (kidx va 0) T1
  l1 : Link m T1 (kidx va 1) T2
  l2 : Link m T2 (kidx va 2) T3
  b3 : m.backed (frameN T3) = true

theorem Path.chain3 {m : Mem} {R va T1 T2 T3 : W} (p : Path m R va T1 T2 T3) : Chain m R va 3 T3 :=
  ⟨T2, ⟨T1, ⟨R, rfl, p.l0⟩, p.l1⟩, p.l2⟩

/-- `walk` with a callback that passes the three upper levels unchanged reaches the leaf entry -/
theorem walk_to_leaf {σ : Type} {st : St} {R va T1 T2 T3 : W} (hw : Window st R) (p : Path st.mem R va T1 T2 T3)
    (fn : Walker σ) (a : σ)
    (hfn : ∀ L ea loc, L < 3 → st.rdLoc loc &&& 1#64 ≠ 0#64 → st.rdLoc loc &&& 128#64 = 0#64 →
      fn L ea loc a st = .ok ((true, a), st)) :
    walk fn va a st =
      match fn 3 (E va 3) (frameN T3, kidx va 3) a st with
      | .error e => .error e
      | .ok ((_, a), st) => .ok (a, st) := by
  have c0 : Chain st.mem R va 0 R := rfl
  have c1 : Chain st.mem R va 1 T1 := ⟨R, c0, p.l0⟩
  have c2 : Chain st.mem R va 2 T2 := ⟨T1, c1, p.l1⟩
  rw [walk_eq,
    walkFrom_step _ _ _ _ _ _ _ (ptePtr_E hw va 0 R (by omega) c0 p.l0.backed),
    hfn 0 _ (frameN R, kidx va 0) (by omega) p.l0.present p.l0.nohuge]
  simp only
  rw [walkFrom_step _ _ _ _ _ _ _ (ptePtr_E hw va 1 T1 (by omega) c1 p.l1.backed),
    hfn 1 _ (frameN T1, kidx va 1) (by omega) p.l1.present p.l1.nohuge]
  simp only
  rw [walkFrom_step _ _ _ _ _ _ _ (ptePtr_E hw va 2 T2 (by omega) c2 p.l2.backed),
    hfn 2 _ (frameN T2, kidx va 2) (by omega) p.l2.present p.l2.nohuge]
  simp only
  rw [walkFrom_step _ _ _ _ _ _ _ (ptePtr_E hw va 3 T3 (by omega) p.chain3 p.b3)]
  cases fn 3 (E va 3) (frameN T3, kidx va 3) a st with
  | error e => rfl
  | ok r =>
    obtain ⟨⟨b, a'⟩, st'⟩ := r
    cases b <;> simp [walkFrom]

/-- `Map` on a page whose three upper levels exist: exactly one word of memory changes (the leaf
entry becomes `frame<<12 | flags`), the page's address is flushed, nothing is allocated. -/
theorem mapOp_present {st : St} {R T1 T2 T3 : W} (page frame flags : W) (hw : Window st R)
    (p : Path st.mem R (pageAddr page) T1 T2 T3)
    (hg : (st.protect && frame == st.zeroFrame && (flags &&& fRW) != 0) = false) :
    mapOp st page frame flags =
      .ok (0, (st.wrLoc (frameN T3, kidx (pageAddr page) 3) (mkEntry frame flags)).flush (pageAddr page)) := by
  unfold mapOp
  rw [hg]
  simp only [Bool.false_eq_true, if_false]
  rw [walk_to_leaf hw p (mapCb page frame flags) 0 (fun L ea loc hL hp hh => mapCb_present hL hp hh), mapCb_leaf]

/-- `Unmap` on a page whose three upper levels exist clears the present bit of the leaf entry -/
theorem unmapOp_present {st : St} {R T1 T2 T3 : W} (page : W) (hw : Window st R)
    (p : Path st.mem R (pageAddr page) T1 T2 T3) :
    unmapOp st page =
      .ok (0, (st.wrLoc (frameN T3, kidx (pageAddr page) 3)
        (clearFlags (st.mem.rd (frameN T3) (kidx (pageAddr page) 3)) fPresent)).flush (pageAddr page)) := by
  unfold unmapOp
  rw [walk_to_leaf hw p (unmapCb page) 0 (fun L ea loc hL hp hh => unmapCb_present hL hp hh), unmapCb_leaf]
  rfl

/-- `Unmap` when level `L < 3` of the path is missing: `ErrInvalidMapping`, nothing changes -/
theorem unmapOp_absent {st : St} {R : W} (page : W) (hw : Window st R) (L : Nat) (hL : L < 3) (T : W)
    (hc : Chain st.mem R (pageAddr page) L T) (hb : st.mem.backed (frameN T) = true)
    (hp : st.mem.rd (frameN T) (kidx (pageAddr page) L) &&& 1#64 = 0#64) :
    unmapOp st page = .ok (eInvalidMapping, st) := by
  unfold unmapOp
  rw [walk_eq]
  have h : L = 0 ∨ L = 1 ∨ L = 2 := by omega
  rcases h with h | h | h <;> subst h
  · simp only [Chain] at hc; subst hc
    rw [walkFrom_step _ _ _ _ _ _ _ (ptePtr_E hw _ 0 _ (by omega) rfl hb), unmapCb_absent (by omega) (by exact hp)]
  · obtain ⟨T0, h0, l0⟩ := hc; simp only [Chain] at h0; subst h0
    rw [walkFrom_step _ _ _ _ _ _ _ (ptePtr_E hw _ 0 _ (by omega) rfl l0.backed),
      unmapCb_present (by omega) (by exact l0.present) (by exact l0.nohuge)]
    simp only
    rw [walkFrom_step _ _ _ _ _ _ _ (ptePtr_E hw _ 1 _ (by omega) ⟨_, rfl, l0⟩ hb), unmapCb_absent (by omega) (by exact hp)]
  · obtain ⟨T1, ⟨T0, h0, l0⟩, l1⟩ := hc; simp only [Chain] at h0; subst h0
    rw [walkFrom_step _ _ _ _ _ _ _ (ptePtr_E hw _ 0 _ (by omega) rfl l0.backed),
      unmapCb_present (by omega) (by exact l0.present) (by exact l0.nohuge)]
    simp only
    rw [walkFrom_step _ _ _ _ _ _ _ (ptePtr_E hw _ 1 _ (by omega) ⟨_, rfl, l0⟩ l1.backed),
      unmapCb_present (by omega) (by exact l1.present) (by exact l1.nohuge)]
    simp only
    rw [walkFrom_step _ _ _ _ _ _ _ (ptePtr_E hw _ 2 _ (by omega) ⟨_, ⟨_, rfl, l0⟩, l1⟩ hb),
      unmapCb_absent (by omega) (by exact hp)]

/-! ### region loops -/
/-- `Map` called on each (page, frame) of a list in order, stopping at the first error -/
def seqMap (flags : W) : List (W × W) → St → R Nat
  | [], st => .ok (0, st)
  | (p, f) :: rest, st =>
    match mapOp st p f flags with
    | .error e => .error e
    | .ok (err, st) => if err ≠ 0 then .ok (err, st) else seqMap flags rest st

/-- `n` consecutive pages from `page` paired with `n` consecutive frames from `frame` -/
def run (page frame : W) : Nat → List (W × W)
  | 0 => []
  | n + 1 => (page, frame) :: run (page + 1) (frame + 1) n

theorem mapLoop_eq_seqMap (flags : W) (n : Nat) (page frame : W) (st : St) :
    mapLoop flags n page frame st = seqMap flags (run page frame n) st := by
  induction n generalizing page frame st with
  | zero => rfl
  | succ n ih =>
    simp only [mapLoop, run, seqMap]
    cases mapOp st page frame flags with
    | error e => rfl
    | ok r => obtain ⟨err, st'⟩ := r; simp only [ih]

theorem run_get (page frame : W) (n i : Nat) (hi : i < n) :
    (run page frame n)[i]? = some (page + BitVec.ofNat 64 i, frame + BitVec.ofNat 64 i) := by
  induction n generalizing page frame i with
  | zero => omega
  | succ n ih =>
    cases i with
    | zero => simp [run]
    | succ i =>
      simp only [run, List.getElem?_cons_succ]
      rw [ih _ _ i (by omega)]
      have : ∀ x : W, x + 1 + BitVec.ofNat 64 i = x + BitVec.ofNat 64 (i + 1) := by
        intro x; apply BitVec.eq_of_toNat_eq; simp [BitVec.toNat_add, BitVec.toNat_ofNat]; omega
      rw [this, this]

theorem run_length (page frame : W) (n : Nat) : (run page frame n).length = n := by
  induction n generalizing page frame with
  | zero => rfl
  | succ n ih => simp [run, ih]

theorem roundUp_pages (size : W) (h : roundWraps size = false) :
    (roundUp size >>> pageShift).toNat = (size.toNat + 4095) / 4096 := by
  have hle : size.toNat ≤ 2 ^ 64 - 4096 := by
    unfold roundWraps at h
    have h' : ¬ (size > ~~~(pageSizeW - 1)) := by simpa using h
    have hc : (~~~(pageSizeW - 1)).toNat = 2 ^ 64 - 4096 := by decide
    rw [gt_iff_lt, BitVec.lt_def, hc] at h'
    omega
  have hps : pageSizeW - 1 = 4096#64 - 1 := by decide
  unfold roundUp
  rw [hps, show pageShift = 12 from rfl, Firefly.Bits.toNat_ushr12, Firefly.Bits.toNat_and_mask12, BitVec.toNat_add]
  have : (4096#64 - 1).toNat = 4095 := by decide
  rw [this]
  omega

end Firefly.Vmm
