import Firefly.Proof.VmmOps
/-! Memory frame rules and the symbolic execution of `Map` / `Unmap` along a present path. -/
namespace Firefly.Vmm
open Firefly.Gen.C04

/-! ### memory algebra -/
@[simp] theorem rd_wr (m : Mem) (f i : Nat) (v : W) (f' i' : Nat) :
    (m.wr f i v).rd f' i' = if f = f' ∧ i = i' then v else m.rd f' i' := by
  simp [Mem.rd, Mem.wr, rdLog]

@[simp] theorem rd_setFrame (m : Mem) (f : Nat) (g : Nat → W) (f' i' : Nat) :
    (m.setFrame f g).rd f' i' = if f = f' then g i' else m.rd f' i' := by
  simp [Mem.rd, Mem.setFrame, rdLog]

@[simp] theorem backed_wr (m : Mem) (f i : Nat) (v : W) (f' : Nat) : (m.wr f i v).backed f' = m.backed f' := rfl
@[simp] theorem backed_setFrame (m : Mem) (f : Nat) (g : Nat → W) (f' : Nat) :
    (m.setFrame f g).backed f' = m.backed f' := rfl

theorem Link.wr {m : Mem} {T T' : W} {i : Nat} (h : Link m T i T') (F j : Nat) (v : W)
    (hne : ¬(F = frameN T ∧ j = i)) : Link (m.wr F j v) T i T' := by
  obtain ⟨hb, hp, hh, hn⟩ := h
  refine ⟨by simpa using hb, ?_, ?_, ?_⟩ <;> simp only [rd_wr, if_neg hne] <;> assumption

theorem Link.setFrame {m : Mem} {T T' : W} {i : Nat} (h : Link m T i T') (F : Nat) (g : Nat → W)
    (hne : F ≠ frameN T) : Link (m.setFrame F g) T i T' := by
  obtain ⟨hb, hp, hh, hn⟩ := h
  refine ⟨by simpa using hb, ?_, ?_, ?_⟩ <;> simp only [rd_setFrame, if_neg hne] <;> assumption

/-! ### entries -/
theorem mkEntry_eq (f fl : W) : mkEntry f fl = (f <<< 12) ||| fl := by
  simp [mkEntry, setFlags, setFrame, frameAddr, pageShift]

/-- flags that stay out of the frame field, frame numbers that fit it -/
def FlagsOK (fl : W) : Prop := fl &&& hwMask = 0#64
def FrameOK (f : W) : Prop := f.toNat < 2 ^ 40

theorem shl12_and_hwMask {f : W} (hf : FrameOK f) : (f <<< 12) &&& hwMask = f <<< 12 := by
  apply BitVec.eq_of_toNat_eq
  rw [and_hwMask_toNat]
  unfold FrameOK at hf
  simp only [BitVec.toNat_shiftLeft, Nat.shiftLeft_eq]
  omega

theorem mkEntry_frame {f fl : W} (hf : FrameOK f) (hfl : FlagsOK fl) : mkEntry f fl &&& hwMask = f <<< 12 := by
  rw [mkEntry_eq, BitVec.and_or_distrib_right, shl12_and_hwMask hf, hfl]; simp

theorem shl12_and_low {f : W} (k : W) (hk : k.toNat < 4096) : (f <<< 12) &&& k = 0#64 := by
  apply BitVec.eq_of_toNat_eq
  rw [BitVec.toNat_and]
  simp only [BitVec.toNat_shiftLeft, Nat.shiftLeft_eq, BitVec.toNat_ofNat]
  apply Nat.eq_of_testBit_eq; intro i
  simp only [Nat.testBit_and, Nat.zero_testBit, Nat.zero_mod]
  by_cases hi : i < 12
  · have : (f.toNat * 2 ^ 12 % 2 ^ 64).testBit i = false := by
      rw [Nat.testBit_mod_two_pow]
      have : (f.toNat * 2 ^ 12).testBit i = false := by
        rw [Nat.mul_comm, ← Nat.shiftLeft_eq', Nat.testBit_shiftLeft]; simp; omega
      simp [this]
    simp [this]
  · have : k.toNat.testBit i = false := by
      apply Nat.testBit_lt_two_pow
      calc k.toNat < 4096 := hk
        _ = 2 ^ 12 := by norm_num
        _ ≤ 2 ^ i := Nat.pow_le_pow_right (by omega) (by omega)
    simp [this]

/-- the flag bits of an installed entry are exactly the requested ones (below bit 12) -/
theorem mkEntry_low {f fl : W} (k : W) (hk : k.toNat < 4096) : mkEntry f fl &&& k = fl &&& k := by
  rw [mkEntry_eq, BitVec.and_or_distrib_right, shl12_and_low k hk]; simp

end Firefly.Vmm
