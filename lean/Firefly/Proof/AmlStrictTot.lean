import Firefly.Proof.AmlStrict
/-!
The strict (second-pass) mode of the object parser, total version: with fuel proportional to the bytes left,
`parseDeferred` on one deferred block returns — no `.panic` and no exhausted fuel (`Props/C12.lean`,
`deferred_block_total`).  The proofs are the ones of `Proof/AmlStrict.lean` with the fuel threaded through.
-/
namespace Firefly.AmlParser.ST
open Firefly.AmlLex Firefly.AmlTree Firefly.C13 Firefly.AmlParser Firefly.AmlParser.G Firefly.AmlParser.S
open Firefly.Gen.C12

/-- `x` run from `s` returns, and `Q` holds of what it returns -/
def TPs {α : Type} (x : P α) (s : PState) (Q : α → PState → Prop) : Prop := ∃ a s', x s = .ok (a, s') ∧ Q a s'

theorem TPs.step {α β : Type} {x : P α} {f : α → P β} {s s1 : PState} {a : α} {R : β → PState → Prop}
    (e : x s = .ok (a, s1)) (hf : TPs (f a) s1 R) : TPs (x >>= f) s R := bind_ex e hf

theorem TPs.pure {α : Type} {a : α} {s : PState} {Q : α → PState → Prop} (h : Q a s) : TPs (pure a : P α) s Q := pure_ex h

theorem TPs.bind {α β : Type} {x : P α} {f : α → P β} {s : PState} {Q : α → PState → Prop} {R : β → PState → Prop}
    (hx : TPs x s Q) (hf : ∀ a s1, Q a s1 → TPs (f a) s1 R) : TPs (x >>= f) s R := by
  obtain ⟨a, s1, e, hq⟩ := hx
  exact bind_ex e (hf a s1 hq)

theorem TPs.of_eq {α : Type} {x : P α} {s s1 : PState} {a : α} {Q : α → PState → Prop} (e : x s = .ok (a, s1)) (h : Q a s1) :
    TPs x s Q := ⟨a, s1, e, h⟩

theorem TPs.mono {α : Type} {x : P α} {s : PState} {Q R : α → PState → Prop} (h : TPs x s Q) (hq : ∀ a s', Q a s' → R a s') :
    TPs x s R := by
  obtain ⟨a, s', e, hp⟩ := h
  exact ⟨a, s', e, hq a s' hp⟩

/-- a total run is in particular a run that does not panic -/
theorem TPs.nps {α : Type} {x : P α} {s : PState} {Q : α → PState → Prop} (h : TPs x s Q) : NPs x s Q :=
  NPs.of_ex h

variable {X T : Nat → Prop}

/-- `if p.r.EOF() { p.popPkgEnd() }` followed by `k` -/
theorem eofPop_tp {d : Bytes} {β : Type} {k : Unit → P β} {s : PState} (h : FP d s) {R : β → PState → Prop}
    (hk : ∀ s', FP d s' → s'.tree = s.tree → s'.scopeStack = s.scopeStack → s'.r.offset = s.r.offset →
      (s'.allBlocks = s.allBlocks ∧ s'.tableHandle = s.tableHandle ∧ s'.streamEnd = s.streamEnd) → TPs (k ()) s' R) :
    TPs (lex eof >>= fun b => if b = true then popPkgEnd d >>= k else k ()) s R := by
  obtain ⟨b, s1, e1, h1, hR1, hs1⟩ := lex_step (rel_eof d) h
  refine TPs.step e1 ?_
  have hs : s1 = s := by rw [hs1, hR1.2]
  subst hs
  cases b with
  | true =>
    obtain ⟨_, s2, e2, h2, ht2, hsc2, ho2, hsame2⟩ := popPkgEnd_stepS h
    rw [if_pos rfl]
    exact TPs.step e2 (hk s2 h2 ht2 hsc2 ho2 hsame2)
  | false =>
    rw [if_neg (by decide)]
    exact hk s1 h rfl rfl rfl ⟨rfl, rfl, rfl⟩

/-! ## the fuel each function needs with `r` bytes left in the table -/

def nNP (r : Nat) : Nat := 16 * r + 1
def nNext (r : Nat) : Nat := 16 * r + 2
def nMA (r n : Nat) : Nat := nNext r + n + 1
def nTL (r : Nat) : Nat := nNext r + 1
def nStrict (r : Nat) : Nat := 16 * r + 2
def nTgt (r : Nat) : Nat := 16 * r + 1
def nArg (r : Nat) : Nat := 16 * r + 6
def nArgs (r j : Nat) : Nat := nArg r + (8 - j)
def nOA (r : Nat) : Nat := nArg r + 9

/-- bytes left -/
abbrev rem (d : Bytes) (s : PState) : Nat := d.size - s.r.offset

theorem rem_lt {a b n : Nat} (h1 : a < b) (h2 : b ≤ n) : (n - b) + 1 ≤ n - a := by omega
theorem rem_le {a b : Nat} (n : Nat) (h : a ≤ b) : n - b ≤ n - a := Nat.sub_le_sub_left h n

theorem need_tgt_oa {r r' f : Nat} (h : nTgt r ≤ f + 1) (hr : r' + 1 ≤ r) : nOA r' ≤ f := by
  unfold nTgt at h; unfold nOA nArg; omega
theorem need_strict_oa {r r' f : Nat} (h : nStrict r ≤ f + 1) (hr : r' + 1 ≤ r) : nOA r' ≤ f := by
  unfold nStrict at h; unfold nOA nArg; omega
theorem need_strict_np {r r' f : Nat} (h : nStrict r ≤ f + 1) (hr : r' ≤ r) : nNP r' ≤ f := by
  unfold nStrict at h; unfold nNP; omega
theorem need_np_ma {r r' f n : Nat} (h : nNP r ≤ f + 1) (hr : r' + 1 ≤ r) (hn : n ≤ 7) : nMA r' n ≤ f := by
  unfold nNP at h; unfold nMA nNext; omega
theorem need_ma_next {r f n : Nat} (h : nMA r n ≤ f + 1) : nNext r ≤ f := by
  unfold nMA at h; omega
theorem need_ma_ma {r r' f n : Nat} (h : nMA r (n + 1) ≤ f + 1) (hr : r' ≤ r) : nMA r' n ≤ f := by
  unfold nMA nNext at h ⊢; omega
theorem need_tl_next {r f : Nat} (h : nTL r ≤ f + 1) : nNext r ≤ f := by
  unfold nTL at h; omega
theorem need_tl_tl {r r' f : Nat} (h : nTL r ≤ f + 1) (hr : r' + 1 ≤ r) : nTL r' ≤ f := by
  unfold nTL nNext at h ⊢; omega
theorem need_next_np {r f : Nat} (h : nNext r ≤ f + 1) : nNP r ≤ f := by
  unfold nNext at h; unfold nNP; omega
theorem need_next_oa {r r' f : Nat} (h : nNext r ≤ f + 1) (hr : r' + 1 ≤ r) : nOA r' ≤ f := by
  unfold nNext at h; unfold nOA nArg; omega
theorem need_arg_strict {r f : Nat} (h : nArg r ≤ f + 1) : nStrict r ≤ f := by
  unfold nArg at h; unfold nStrict; omega
theorem need_arg_tl {r r' f : Nat} (h : nArg r ≤ f + 1) (hr : r' ≤ r) : nTL r' ≤ f := by
  unfold nArg at h; unfold nTL nNext; omega
theorem need_arg_tgt {r f : Nat} (h : nArg r ≤ f + 1) : nTgt r ≤ f := by
  unfold nArg at h; unfold nTgt; omega
theorem need_args_arg {r j f : Nat} (h : nArgs r j ≤ f + 1) (hj : j < 8) : nArg r ≤ f := by
  unfold nArgs at h; omega
theorem need_args_next {r r' j f : Nat} (h : nArgs r j ≤ f + 1) (hr : r' ≤ r) (hj : j < 8) : nArgs r' (j + 1) ≤ f := by
  unfold nArgs nArg at h ⊢; omega
theorem need_oa_args {r f : Nat} (h : nOA r ≤ f + 1) : nArgs r 0 ≤ f := by
  unfold nOA at h; unfold nArgs; omega

/-- totality (and what they guarantee) of the mutually recursive functions with fuel `f` in the strict mode -/
structure STP (X : Nat → Prop) (d : Bytes) (f : Nat) : Prop where
  next : ∀ {s : PState}, SP d s → MS X none s.tree → UnF X s (topOf s) → s.scopeStack.size ≠ 0 → Bud d 0 s →
    nNext (rem d s) ≤ f →
    TPs (parseNextObject d f) s (fun res s' => PostS d (TTop s) 0 s s' (res ≠ .failed) (MS X none s'.tree) ∧
      (res = .ok → s.r.offset < s'.r.offset))
  namePath : ∀ {s : PState}, SP d s → MS X none s.tree → UnF X s (topOf s) → s.scopeStack.size ≠ 0 → Bud d 0 s →
    nNP (rem d s) ≤ f →
    TPs (parseNamePathOrMethodCall d f) s (fun res s' => PostS d (TTop s) 0 s s' (res ≠ .failed)
      (MS X none s'.tree ∧ live s.tree (La s'.tree (topOf s)) = false ∧ live s'.tree (La s'.tree (topOf s)) = true) ∧
      (res = .ok → s.r.offset < s'.r.offset))
  termList : ∀ {s : PState}, SP d s → MS X none s.tree → UnF X s (topOf s) → s.scopeStack.size ≠ 0 → Bud d 0 s →
    nTL (rem d s) ≤ f →
    TPs (termListLoop d f) s (fun b s' => PostS d (TTop s) 0 s s' (b = true) (MS X none s'.tree))
  methodArgs : ∀ {s : PState} (n : Nat), SP d s → MS X none s.tree → UnF X s (topOf s) → s.scopeStack.size ≠ 0 → Bud d 0 s →
    nMA (rem d s) n ≤ f →
    TPs (methodArgsLoop d f n) s (fun b s' => PostS d (TTop s) 0 s s' (b = true) (MS X none s'.tree))
  objArgs : ∀ {s : PState} (curObj : Nat), SP d s → live s.tree curObj = true →
    rowFacts (slot s.tree curObj).infoIndex = true → Att s (slot s.tree curObj).infoIndex curObj → Bud d 14 s →
    MSx X s (slot s.tree curObj).infoIndex curObj 0 → UnF X s curObj →
    ((slot s.tree curObj).opcode = opMethod → (slot s.tree curObj).infoIndex = methodInfo) → ParNM s curObj →
    nOA (rem d s) ≤ f →
    TPs (parseObjectArgs d f curObj) s (fun res s' => PostS d (TCur s curObj) 14 s s' (res ≠ .failed) (MS X none s'.tree))
  args : ∀ {s : PState} (info curObj j : Nat), SP d s → live s.tree curObj = true → InfoOK info → rowFacts info = true →
    j ≤ argCnt info → Bud d (2 * (7 - j)) s → Att s info curObj → PrevOK s info curObj j → MSx X s info curObj j →
    UnF X s curObj →
    ((slot s.tree curObj).opcode = opMethod → info = methodInfo) → ParNM s curObj →
    nArgs (rem d s) j ≤ f →
    TPs (parseArgs d f info curObj j) s (fun res s' => PostS d (TCur s curObj) (2 * (7 - j)) s s' (res ≠ .failed) (MS X none s'.tree))
  arg : ∀ {s : PState} (info curObj argType : Nat) (ex : Option Nat), SP d s → live s.tree curObj = true → InfoOK info →
    Bud d 2 s →
    (argType = argTypeFieldList → C13.P s.tree curObj ≠ INV ∧ live s.tree (La s.tree curObj) = true ∧
      ∃ v, (slot s.tree (La s.tree curObj)).value = .u64 v) →
    MS X ex s.tree → UnF X s curObj → (¬ Leaf argType → ex = none) →
    ((slot s.tree curObj).opcode = opMethod → Leaf argType ∨ argType = argTypeTermList) → ParNM s curObj →
    nArg (rem d s) ≤ f →
    TPs (parseArg d f info curObj argType) s (fun a s' => PostS d (TCur s curObj) 2 s s' (a.2 ≠ .failed) (MS X ex s'.tree) ∧
      RetOK s s' a.1 ∧ (Leaf argType → ∀ x, live s.tree x = true → slot s'.tree x = slot s.tree x) ∧
      (argType = argTypeByteData → a.2 = .ok → ∃ x v, a.1 = some x ∧ (slot s'.tree x).value = .u64 v) ∧
      (argType = argTypePkgLen → a.1 = none) ∧ (isSimpleArg argType = true → a.2 = .ok → ∃ x, a.1 = some x) ∧
      (Leaf argType → a.2 = .ok ∨ a.2 = .failed))
  strictTermArg : ∀ {s : PState} (curObj : Nat), SP d s → live s.tree curObj = true →
    (slot s.tree curObj).opcode ≠ opMethod → MS X none s.tree → UnF X s curObj → Bud d 2 s →
    nStrict (rem d s) ≤ f →
    TPs (parseStrictTermArg d f curObj) s (fun a s' => PostS d (fun x => x = curObj) 2 s s' (a.2 ≠ .failed) (MS X none s'.tree) ∧
      RetOK s s' a.1)
  target : ∀ {s : PState}, SP d s → MS X none s.tree → UnF X s INV → Bud d 1 s →
    nTgt (rem d s) ≤ f →
    TPs (parseTarget d f) s (fun a s' => PostS d (fun _ => False) 1 s s' (a.2 ≠ .failed) (MS X none s'.tree) ∧ RetOK s s' a.1)

/-- `parseTarget()` in the strict mode -/
theorem target_stepT {d : Bytes} (hd : d.size + 268435456 ≤ 4294967296) {f : Nat} (ih : STP X d f) {s : PState}
    (hS : SP d s) (hms : MS X none s.tree) (hu : UnF X s INV) (hb : Bud d 1 s) (hf : nTgt (rem d s) ≤ f + 1) :
    TPs (parseTarget d (f + 1)) s (fun a s' => PostS d (fun _ => False) 1 s s' (a.2 ≠ .failed) (MS X none s'.tree) ∧ RetOK s s' a.1) := by
  have hd' : d.size + 1024 ≤ 4294967296 := by omega
  have h := hS.fp
  unfold parseTarget
  obtain ⟨o0, s1, e1, h1, hR1, hs1⟩ := lex_step (rel_offset d) h
  refine TPs.step e1 ?_
  have hss : s1 = s := by rw [hs1, hR1.2]
  subst hss
  obtain ⟨opr, s2, e2, h2, hR2, hs2⟩ := lex_step (rel_nextOpcode d hd') h
  refine TPs.step e2 ?_
  have ht2 : s2.tree = s1.tree := by rw [hs2]
  have hsc2 : s2.scopeStack = s1.scopeStack := by rw [hs2]
  rcases hR2 with ⟨hfail, _, hr2⟩ | ⟨hok, hbad, hop, _, hlt, _⟩
  · -- a name
    rw [if_neg (by rw [hfail]; decide)]
    obtain ⟨_, s3, e3, h3, hR3, hs3⟩ := lex_step (rel_setOffset d o0) h2
    refine TPs.step e3 ?_
    have hr3 : s3.r = s1.r := by
      have hoff : s3.r.offset = s1.r.offset := by
        rw [hR3.2, hR1.1]; have := h.inv.1; split <;> omega
      have hpk : s3.r.pkgEnd = s1.r.pkgEnd := by rw [hR3.1, hr2]
      cases hq : s3.r; cases hq1 : s1.r
      rw [hq] at hoff hpk; rw [hq1] at hoff hpk
      simp only at hoff hpk; rw [hoff, hpk]
    have hss3 : s3 = s1 := by rw [hs3, hs2, hr3]
    subst hss3
    obtain ⟨n, s4, e4, h4, f4, hr4, hop4, _⟩ := newObject_step h3 opIntNamePath (hb.mono (Nat.le_refl _)).size_lt (by decide)
      info_const.2.2.2.2.2.2.1
    refine TPs.step e4 ?_
    have hobj : live s4.tree n = true := f4.liven
    obtain ⟨s5, e5, h5, hp5, _, hr5⟩ := upd_step h4 hobj (fun o => { o with amlOffset := o0 }) (by keeps_links) Iff.rfl
      (h4.tree.info _ hobj)
    refine TPs.step e5 ?_
    have hobj5 : live s5.tree n = true := by rw [hp5.links.live]; exact hobj
    obtain ⟨res, s6, e6, h6, hp6, _, _⟩ := setNameValue_tot hd' h5 hobj5
    have f6 := (f4.thenPay hp5).thenPay hp6
    refine TPs.step e6 (TPs.pure ⟨⟨h6, SGrow.ofFresh1 f6, by rw [f6.scope]; exact Nat.le_refl _, fun _ => ⟨f6.scope, ?_⟩⟩, ?_⟩)
    · apply hms.fresh f6
      intro hq
      exfalso
      have := (hp5.trans hp6).mth.1 hq
      rw [hop4] at this
      revert this; decide
    · intro a ha
      cases ha
      exact ⟨f6.nlive, f6.liven, f6.pn⟩
  · rw [if_pos hok]
    have g2 : SGrow (fun _ => False) 0 s1 s2 := SGrow.ofLex hs2 (by omega)
    have post2 : PostS d (fun _ => False) 1 s1 s2 True (MS X none s2.tree) :=
      ⟨h2, g2.weaken (by omega), by rw [hsc2]; exact Nat.le_refl _, fun _ => ⟨hsc2, by rw [ht2]; exact hms⟩⟩
    by_cases hz : opr.1 = opZero
    · rw [if_pos hz]
      exact TPs.pure ⟨⟨post2.1, post2.2.1, post2.2.2.1, fun _ => post2.2.2.2 trivial⟩, fun a ha => by cases ha⟩
    · rw [if_neg hz]
      split
      · rename_i htarget
        have htop : isTargetOp opr.1 = true := by
          unfold isTargetOp
          simp only [Bool.or_eq_true, beq_iff_eq]
          rcases htarget with h | h | h | h | h
          · exact Or.inl (Or.inl (Or.inl (Or.inl h)))
          · exact Or.inl (Or.inl (Or.inl (Or.inr h)))
          · exact Or.inl (Or.inl (Or.inr h))
          · exact Or.inl (Or.inr h)
          · exact Or.inr h
        have hnm : opr.1 ≠ opMethod := by
          intro hq; rw [hq, method_ops.2.2.2] at htop; cases htop
        obtain ⟨hrow, hinfo, hnf, hnofl⟩ := op_facts hop hbad
        have hb2 : Bud d 17 s2 := hb.consume ht2 hlt h2.inv.1
        obtain ⟨n, s3, e3, h3, f3, hr3, hop3, hinfo3, _⟩ := newObject_step h2 opr.1 (hb2.mono (k' := 1) (by omega)).size_lt hnf hinfo
        refine TPs.step e3 ?_
        have hobj : live s3.tree n = true := f3.liven
        obtain ⟨s4, e4, h4, hp4, hsl4, hr4⟩ := upd_step h3 hobj (fun o => { o with amlOffset := o0 }) (by keeps_links) Iff.rfl
          (h3.tree.info _ hobj)
        refine TPs.step e4 ?_
        have hobj4 : live s4.tree n = true := by rw [hp4.links.live]; exact hobj
        have hinfo4 : (slot s4.tree n).infoIndex = pOpcodeTableIndex opr.1 true := by rw [hsl4]; exact hinfo3
        have hop4 : (slot s4.tree n).opcode = opr.1 := by rw [hsl4]; exact hop3
        have f4 : Fresh1 n s2 s4 := f3.thenPay hp4
        have g4 : SGrow (TCur s4 n) 1 s2 s4 := SGrow.ofFresh1 f4
        have hb4 : Bud d 14 s4 := by
          have := budS hb2 g4 h4.inv.1 (by omega); exact this.mono (by omega)
        have hms2 : MS X none s2.tree := by rw [ht2]; exact hms
        have hms4 : MS X none s4.tree := hms2.fresh f4 (fun hq => absurd (hop4 ▸ hq) hnm)
        have hsc4 : s4.scopeStack = s1.scopeStack := by rw [f4.scope, hsc2]
        have g14 : SGrow (TCur s4 n) 1 s1 s4 := (SGrow.ofLex hs2 (by omega)).trans g4
        have hS4 : SP d s4 := hS.step h4 g14 (fun x hx => Or.inl (by rw [← hsc4]; exact hx))
        have hn1 : live s1.tree n = false := by rw [← ht2]; exact f4.nlive
        have hu4 : UnF X s4 n := ((hu.grow g14 h.tree.wf h4.tree.wf h.tree.root (Or.inl rfl)).orphan h4.tree.wf hobj4 f4.pn
          (hu.notFresh hn1))
        have := ih.objArgs (s := s4) n hS4 hobj4 (by rw [hinfo4]; exact hrow) (Or.inr (by rw [hinfo4]; exact hnofl htop)) hb4
          (MSx.ofBlank hms4 h4.tree.wf hobj4 f4.fin) hu4 (fun hq => absurd (hop4 ▸ hq) hnm) (Or.inl f4.pn)
          (need_tgt_oa hf (rem_lt (Nat.lt_of_lt_of_le hlt g4.off) h4.inv.1))
        refine TPs.bind this ?_
        intro res s5 ⟨h5, g5, hsz5, hok5⟩
        refine TPs.pure ⟨⟨h5, ?_, by rw [← hsc4]; exact hsz5, fun hq => ⟨by rw [(hok5 hq).1, hsc4], (hok5 hq).2⟩⟩, ?_⟩
        · have g25 := SGrow.absorb hs2 hlt (g4.trans g5) (by omega)
          refine (g25.mono h.tree.wf ?_).weaken (by omega)
          intro x hx hT
          rcases hT with hT | hT
          · rw [hT, hn1] at hx; cases hx
          · rw [hT, f4.pn, live_not_INV h.tree.wf] at hx; cases hx
        · intro a ha
          cases ha
          exact ⟨hn1, g5.oldLive _ hobj4, by rw [g5.oldP _ hobj4]; exact f4.pn⟩
      · exact TPs.pure ⟨⟨post2.1, post2.2.1, post2.2.2.1, fun hq => absurd rfl hq⟩, fun a ha => by cases ha⟩

/-- `parseStrictTermArg(curObj)` -/
theorem strictTermArg_stepT {d : Bytes} (hd : d.size + 268435456 ≤ 4294967296) {f : Nat} (ih : STP X d f) {s : PState}
    (curObj : Nat) (hS : SP d s) (hc : live s.tree curObj = true) (hnm : (slot s.tree curObj).opcode ≠ opMethod)
    (hms : MS X none s.tree) (hu : UnF X s curObj) (hb : Bud d 2 s) (hf : nStrict (rem d s) ≤ f + 1) :
    TPs (parseStrictTermArg d (f + 1) curObj) s (fun a s' =>
      PostS d (fun x => x = curObj) 2 s s' (a.2 ≠ .failed) (MS X none s'.tree) ∧ RetOK s s' a.1) := by
  have hd' : d.size + 1024 ≤ 4294967296 := by omega
  have h := hS.fp
  have w := h.tree.wf
  unfold parseStrictTermArg
  obtain ⟨o0, s1, e1, h1, hR1, hs1⟩ := lex_step (rel_offset d) h
  refine TPs.step e1 ?_
  have hss : s1 = s := by rw [hs1, hR1.2]
  subst hss
  obtain ⟨opr, s2, e2, h2, ⟨hr2, r2, en, hi2, hR⟩, hs2⟩ := lex_step (rel_peekNextOpcode d hd') h
  refine TPs.step e2 ?_
  have hss2 : s2 = s1 := by rw [hs2, hr2]
  subst hss2
  have hidx : (slot s2.tree curObj).index = curObj := w.index_eq curObj (live_lt hc)
  by_cases hok : opr.2 = .ok
  · rw [if_neg (by rw [hok]; decide)]
    rcases hR with ⟨hf, _, _⟩ | ⟨_, hbad, hop, hpk, hlt, _⟩
    · rw [hok] at hf; cases hf
    split
    · exact TPs.pure ⟨⟨h, (SGrow.refl s2).weaken (by omega), Nat.le_refl _, fun hq => absurd rfl hq⟩, fun a ha => by cases ha⟩
    · rename_i hty
      have hnmo : opr.1 ≠ opMethod := by
        intro hq
        apply hty
        rw [hq, method_ops.1, method_ops.2.1, method_ops.2.2.1]
        decide
      obtain ⟨hrow, hinfo, hnf, _⟩ := op_facts hop hbad
      -- the opcode is consumed
      have e3 := lex_of_eq (s := s2) en
      refine TPs.step e3 ?_
      have h3 : FP d { s2 with r := r2 } := h.withR hi2
      generalize hs3 : ({ s2 with r := r2 } : PState) = s3 at e3 h3
      have hs3' : s3 = { s2 with r := s3.r } := by rw [← hs3]
      have ht3 : s3.tree = s2.tree := by rw [← hs3]
      have hsc3 : s3.scopeStack = s2.scopeStack := by rw [← hs3]
      have hlt3 : s2.r.offset < s3.r.offset := by rw [← hs3]; exact hlt
      have hb3 : Bud d 18 s3 := hb.consume ht3 hlt3 h3.inv.1
      obtain ⟨n, s4, e4, h4, f4, hr4, hop4, hinfo4, _⟩ := newObject_step h3 opr.1 (hb3.mono (k' := 1) (by omega)).size_lt hnf hinfo
      refine TPs.step e4 ?_
      have hobj : live s4.tree n = true := f4.liven
      obtain ⟨s5, e5, h5, hp5, hsl5, hr5⟩ := upd_step h4 hobj (fun o => { o with amlOffset := o0 }) (by keeps_links) Iff.rfl
        (h4.tree.info _ hobj)
      refine TPs.step e5 ?_
      have hobj5 : live s5.tree n = true := by rw [hp5.links.live]; exact hobj
      have f5 : Fresh1 n s3 s5 := f4.thenPay hp5
      have hop5 : (slot s5.tree n).opcode = opr.1 := by rw [hsl5]; exact hop4
      have hinfo5 : (slot s5.tree n).infoIndex = pOpcodeTableIndex opr.1 true := by rw [hsl5]; exact hinfo4
      let T2 : Nat → Prop := fun x => x = curObj ∨ x = n
      have g35 : SGrow T2 1 s3 s5 := SGrow.ofFresh1 f5
      have hc3 : live s3.tree curObj = true := by rw [ht3]; exact hc
      have hn3 : live s3.tree n = false := f5.nlive
      obtain ⟨s6, e6, h6, hs6, hsz6, sp6, hl6, hP6, _, hNx6, hFi6⟩ :=
        append_step h5 h3.tree.wf (fun x hx => ⟨g35.oldLive x hx, g35.oldP x hx⟩) hc3 hn3 hobj5 f5.pn
      refine TPs.step e6 ?_
      have hc5 : live s5.tree curObj = true := g35.oldLive _ hc3
      have g36 : SGrow T2 1 s3 s6 := g35.thenAppend hs6 hsz6 hl6 hP6 hn3 (Or.inl (Or.inl rfl)) h5.tree.wf hc5 sp6 hNx6 hFi6
      have hobj6 : live s6.tree n = true := by rw [hl6]; exact hobj5
      have hc6 : live s6.tree curObj = true := by rw [hl6]; exact hc5
      have hP6n : C13.P s6.tree n = curObj := by rw [hP6, if_pos rfl]
      have hcn : curObj ≠ n := fun e => by rw [e, hn3] at hc3; cases hc3
      have hcINV : curObj ≠ INV := live_ne_INV w.size_le hc
      have hop6 : (slot s6.tree n).opcode = opr.1 := by
        have : (slot s6.tree n).opcode = (slot s5.tree n).opcode := congrArg (fun p => p.1) (sp6.pay n)
        rw [this]; exact hop5
      have hinfo6 : (slot s6.tree n).infoIndex = pOpcodeTableIndex opr.1 true := by
        have : (slot s6.tree n).infoIndex = (slot s5.tree n).infoIndex := congrArg (fun p => p.2.1) (sp6.pay n)
        rw [this]; exact hinfo5
      have hnm6 : (slot s6.tree curObj).opcode ≠ opMethod := fun hq => hnm (by
        have := (g36.mK curObj hc3).1 hq; rw [ht3] at this; exact this)
      have hms3 : MS X none s3.tree := by rw [ht3]; exact hms
      have hms5 : MS X none s5.tree := hms3.fresh f5 (fun hq => absurd (hop5 ▸ hq) hnmo)
      have hms6 : MS X none s6.tree := hms5.append h5.tree.wf f5.pn hc5 hl6 sp6 hNx6 hFi6
      have hfi6 : Fi s6.tree n = INV := by
        rw [hFi6, if_neg (fun hq => hcn hq.1.symm)]
        have : Fi s5.tree n = Fi s4.tree n := hp5.links.fi n
        rw [this]; exact f4.fin
      have hb6 : Bud d 14 s6 := by
        have := budS hb3 g36 h6.inv.1 (by omega); exact this.mono (by omega)
      have hsc6 : s6.scopeStack = s2.scopeStack := by rw [hs6]; show s5.scopeStack = _; rw [f5.scope, hsc3]
      have g26 : SGrow T2 1 s2 s6 := (SGrow.ofLex hs3' (by omega)).trans g36 |>.weaken (by omega)
      have hS6 : SP d s6 := hS.step h6 g26 (fun x hx => Or.inl (by rw [← hsc6]; exact hx))
      have hu6 : UnF X s6 n := ((hu.grow g26 w h6.tree.wf h.tree.root (Or.inr hc)).child h6.tree.wf hobj6 hP6n
        (hu.notFresh (by rw [← ht3]; exact hn3)))
      have := ih.objArgs (s := s6) n hS6 hobj6 (by rw [hinfo6]; exact hrow) (Or.inl (by rw [hP6n]; exact hcINV)) hb6
        (MSx.ofBlank hms6 h6.tree.wf hobj6 hfi6) hu6 (fun hq => absurd (hop6 ▸ hq) hnmo) (Or.inr (by rw [hP6n]; exact hnm6))
        (need_strict_oa hf (rem_lt (Nat.lt_of_lt_of_le hlt3 g36.off) h6.inv.1))
      refine TPs.bind this ?_
      intro res s7 ⟨h7, g7, hsz7, hok7⟩
      have g67 : SGrow T2 14 s6 s7 := g7.mono h6.tree.wf (fun x _ hT => by
        rcases hT with hT | hT
        · exact Or.inr hT
        · rw [hP6n] at hT; exact Or.inl hT)
      have g37 : SGrow T2 15 s3 s7 := g36.trans g67
      have hc7 : live s7.tree curObj = true := g7.oldLive _ hc6
      have hn7 : live s7.tree n = true := g7.oldLive _ hobj6
      have hP7n : C13.P s7.tree n = curObj := by rw [g7.oldP _ hobj6]; exact hP6n
      obtain ⟨s8, e8, h8, hs8, hsz8, sp8, hl8, hP8, hNx8, hFi8⟩ := detach_stepS h7 hc7 hn7 hP7n
      refine TPs.step e8 ?_
      have g38 : SGrow T2 15 s3 s8 := g37.thenDetach hs8 hsz8 hl8 hP8 hn3 (Or.inl (Or.inl rfl)) h7.tree.wf hn7 hP7n sp8 hNx8 hFi8
      refine eofPop_tp h8 ?_
      intro s9 h9 ht9 hsc9 ho9 hsame9
      refine TPs.pure ⟨⟨h9, ?_, ?_, ?_⟩, ?_⟩
      · have g89 : SGrow T2 0 s8 s9 := SGrow.ofSame ht9 (by omega) hsame9
        have g29 := SGrow.absorb hs3' hlt3 (g38.trans g89) (by omega)
        refine (g29.mono w ?_).weaken (by omega)
        intro x hx hT
        rcases hT with hT | hT
        · exact hT
        · rw [hT, ← ht3, hn3] at hx; cases hx
      · rw [hsc9, hs8]; show s2.scopeStack.size ≤ s7.scopeStack.size; rw [← hsc6]; exact hsz7
      · intro hq
        obtain ⟨q1, q2⟩ := hok7 hq
        refine ⟨by rw [hsc9, hs8]; show s7.scopeStack = _; rw [q1, hsc6], ?_⟩
        rw [ht9]
        have hnm7 : (slot s7.tree curObj).opcode ≠ opMethod := fun hq => hnm6 ((g7.mK curObj hc6).1 hq)
        exact q2.detach h7.tree.wf hn7 hP7n (fun m hm ho _ => absurd (hm ▸ ho) hnm7) hl8 sp8 hNx8 hFi8
      · intro a ha
        cases ha
        refine ⟨by rw [← ht3]; exact hn3, by rw [ht9, hl8]; exact hn7, ?_⟩
        rw [ht9, hP8, if_pos rfl]
  · rw [if_pos hok]
    -- a name: a method call or a reference, parsed with `curObj` as the scope and taken off again
    refine TPs.step (getObj_live hc) ?_
    rw [hidx]
    refine TPs.step (scopeEnter_ex curObj s2) ?_
    generalize hsA : ({ s2 with scopeStack := s2.scopeStack.push curObj } : PState) = sA
    have htA : sA.tree = s2.tree := by rw [← hsA]
    have hscA : sA.scopeStack = s2.scopeStack.push curObj := by rw [← hsA]
    have hrA : sA.r = s2.r := by rw [← hsA]
    have hsameA : sA.allBlocks = s2.allBlocks ∧ sA.tableHandle = s2.tableHandle ∧ sA.streamEnd = s2.streamEnd := by
      rw [← hsA]; exact ⟨rfl, rfl, rfl⟩
    have hA : FP d sA := by
      refine ⟨by rw [hrA]; exact h.inv, by rw [htA]; exact h.tree, ?_⟩
      intro x hx
      rw [hscA, Array.toList_push, List.mem_append, List.mem_singleton] at hx
      rw [htA]
      rcases hx with hx | hx
      · exact h.scopes x hx
      · rw [hx]; exact hc
    have hSA : SP d sA := by
      refine ⟨hA, by rw [hsameA.1]; exact hS.ab, ?_⟩
      intro x hx
      rw [hscA, Array.toList_push, List.mem_append, List.mem_singleton] at hx
      rw [htA]
      rcases hx with hx | hx
      · exact hS.nm x hx
      · rw [hx]; exact hnm
    have htopA : topOf sA = curObj := topOf_push s2 curObj hscA
    have hbA : Bud d 0 sA := by unfold Bud at hb ⊢; rw [htA, hrA]; omega
    have huA : UnF X sA (topOf sA) := by rw [htopA]; exact hu.ofTree htA
    have := ih.namePath (s := sA) hSA (by rw [htA]; exact hms) huA (by rw [hscA]; simp) hbA
      (need_strict_np hf (by show d.size - sA.r.offset ≤ d.size - s2.r.offset; rw [hrA]; exact Nat.le_refl _))
    refine TPs.bind this ?_
    intro res sB ⟨⟨hB, gB, hszB, hokB⟩, _⟩
    rw [htopA] at hokB
    have hneB : sB.scopeStack.size ≠ 0 := by
      have : sA.scopeStack.size = s2.scopeStack.size + 1 := by rw [hscA]; simp
      omega
    obtain ⟨sC, eC, hC, hsC⟩ := scopeExit_step hB hneB
    refine TPs.step eC ?_
    have htC : sC.tree = sB.tree := by rw [hsC]
    have hscC : sC.scopeStack = sB.scopeStack.pop := by rw [hsC]
    have gAB : SGrow (fun x => x = curObj) 0 sA sB := gB.mono hA.tree.wf (fun x _ hT => by rw [← htopA]; exact hT)
    have g2A : SGrow (fun x => x = curObj) 0 s2 sA := SGrow.ofSame htA (by rw [hrA]; exact Nat.le_refl _) hsameA
    have gBC : SGrow (fun x => x = curObj) 0 sB sC := SGrow.ofSame htC (by rw [hsC]; exact Nat.le_refl _) (by rw [hsC]; exact ⟨rfl, rfl, rfl⟩)
    have g2C : SGrow (fun x => x = curObj) 0 s2 sC := (g2A.trans gAB).trans gBC
    have hszC : s2.scopeStack.size ≤ sC.scopeStack.size := by
      have : sA.scopeStack.size = s2.scopeStack.size + 1 := by rw [hscA]; simp
      rw [hscC]; simp; omega
    by_cases hres : res = .ok
    · rw [if_pos hres]
      obtain ⟨q1, q2, q3, q4⟩ := hokB (by rw [hres]; decide)
      have hcC : live sC.tree curObj = true := g2C.oldLive _ hc
      refine TPs.step (getObj_live hcC) ?_
      have hla : (slot sC.tree curObj).lastArgIndex = La sB.tree curObj := by rw [htC]; rfl
      rw [hla]
      have htl : live sC.tree (La sB.tree curObj) = true := by rw [htC]; exact q4
      refine TPs.step (objectAt_live' htl) ?_
      refine TPs.step (derefP_some_ex _) ?_
      have hcB : live sB.tree curObj = true := by rw [← htC]; exact hcC
      have hlaP : C13.P sC.tree (La sB.tree curObj) = curObj := by
        rw [htC]
        exact ((hB.tree.wf.lP hcB).la (live_ne_INV hB.tree.wf.size_le q4)).1
      obtain ⟨sD, eD, hD, hsD, hszD, spD, hlD, hPD, hNxD, hFiD⟩ := detach_stepS hC hcC htl hlaP
      refine TPs.step eD ?_
      have hnew : live s2.tree (La sB.tree curObj) = false := by rw [← htA]; exact q3
      have g2D : SGrow (fun x => x = curObj) 0 s2 sD :=
        g2C.thenDetach hsD hszD hlD hPD hnew (Or.inl rfl) hC.tree.wf htl hlaP spD hNxD hFiD
      have hnmC : (slot sC.tree curObj).opcode ≠ opMethod := fun hq => hnm ((g2C.mK curObj hc).1 hq)
      have hmsD : MS X none sD.tree := by
        have q2' : MS X none sC.tree := by rw [htC]; exact q2
        exact q2'.detach hC.tree.wf htl hlaP (fun m hm ho _ => absurd (hm ▸ ho) hnmC) hlD spD hNxD hFiD
      have hscD : sD.scopeStack = s2.scopeStack := by
        rw [hsD]; show sC.scopeStack = _
        rw [hscC, q1, hscA, stack_pop_push]
      refine TPs.step (a := some (La sB.tree curObj)) (s1 := sD) rfl ?_
      refine eofPop_tp hD ?_
      intro sE hE htE hscE hoE hsameE
      have gDE : SGrow (fun x => x = curObj) 0 sD sE := SGrow.ofSame htE (by omega) hsameE
      refine TPs.pure ⟨⟨hE, (g2D.trans gDE).weaken (by omega), by rw [hscE, hscD]; exact Nat.le_refl _,
        fun _ => ⟨by rw [hscE, hscD], by rw [htE]; exact hmsD⟩⟩, ?_⟩
      intro a ha
      cases ha
      refine ⟨hnew, by rw [htE, hlD]; exact htl, ?_⟩
      rw [htE, hPD, if_pos rfl]
    · rw [if_neg hres]
      refine TPs.step (a := none) (s1 := sC) rfl ?_
      refine eofPop_tp hC ?_
      intro sE hE htE hscE hoE hsameE
      have gCE : SGrow (fun x => x = curObj) 0 sC sE := SGrow.ofSame htE (by omega) hsameE
      refine TPs.pure ⟨⟨hE, (g2C.trans gCE).weaken (by omega), by rw [hscE]; exact hszC, fun hq => ?_⟩,
        fun a ha => by cases ha⟩
      obtain ⟨q1, q2, _, _⟩ := hokB hq
      exact ⟨by rw [hscE, hscC, q1, hscA, stack_pop_push], by rw [htE, htC]; exact q2⟩

/-- `parseNamePathOrMethodCall()` in the strict mode -/
theorem namePath_stepT {d : Bytes} (hd : d.size + 268435456 ≤ 4294967296) {f : Nat} (ih : STP X d f) {s : PState}
    (hS : SP d s) (hms : MS X none s.tree) (hu : UnF X s (topOf s)) (hne : s.scopeStack.size ≠ 0) (hb : Bud d 0 s)
    (hf : nNP (rem d s) ≤ f + 1) :
    TPs (parseNamePathOrMethodCall d (f + 1)) s (fun res s' => PostS d (TTop s) 0 s s' (res ≠ .failed)
      (MS X none s'.tree ∧ live s.tree (La s'.tree (topOf s)) = false ∧ live s'.tree (La s'.tree (topOf s)) = true) ∧
      (res = .ok → s.r.offset < s'.r.offset)) := by
  have hd' : d.size + 1024 ≤ 4294967296 := by omega
  have h := hS.fp
  have w := h.tree.wf
  unfold parseNamePathOrMethodCall
  obtain ⟨o0, s1, e1, h1, hR1, hs1⟩ := lex_step (rel_offset d) h
  refine TPs.step e1 ?_
  have hss : s1 = s := by rw [hs1, hR1.2]
  subst hss
  obtain ⟨sr, s2, e2, h2, ⟨hR2, hlead2⟩, hs2⟩ := lex_step (rel_parseNameString' d hd') h
  refine TPs.step e2 ?_
  have ht2 : s2.tree = s1.tree := by rw [hs2]
  have hsc2 : s2.scopeStack = s1.scopeStack := by rw [hs2]
  have hsame2 : s2.allBlocks = s1.allBlocks ∧ s2.tableHandle = s1.tableHandle ∧ s2.streamEnd = s1.streamEnd := by
    rw [hs2]; exact ⟨rfl, rfl, rfl⟩
  have g12 : ∀ T : Nat → Prop, SGrow T 0 s1 s2 := fun T => SGrow.ofLex hs2 hR2.2.1
  have fail2 : PostS d (TTop s1) 0 s1 s2 (PRes.failed ≠ .failed)
      (MS X none s2.tree ∧ live s1.tree (La s2.tree (topOf s1)) = false ∧ live s2.tree (La s2.tree (topOf s1)) = true) :=
    ⟨h2, g12 _, by rw [hsc2]; exact Nat.le_refl _, fun hq => absurd rfl hq⟩
  split
  · exact TPs.pure ⟨fail2, fun hq => by cases hq⟩
  · rename_i hok
    have hlt : s1.r.offset < s2.r.offset := by
      rcases hR2.2.2.2 with ⟨_, hlt⟩ | hf
      · exact hlt
      · exact absurd (by rw [hf]; decide) hok
    refine TPs.step (allBlocks_ex s2) ?_
    have hab2 : s2.allBlocks = true := by rw [hsame2.1]; exact hS.ab
    rw [hab2]
    simp only [Bool.not_true, Bool.false_eq_true, ↓reduceIte]
    have hne2 : s2.scopeStack.size ≠ 0 := by rw [hsc2]; exact hne
    obtain ⟨esc, htopl, htopm⟩ := scopeCurrent_top h2 hne2
    have htop2 : topOf s2 = topOf s1 := by unfold topOf; rw [hsc2]
    rw [htop2] at esc htopl htopm
    have htopl' : live s1.tree (topOf s1) = true := by rw [← ht2]; exact htopl
    refine TPs.step esc ?_
    refine TPs.step (a := s2.tree) (s1 := s2) rfl ?_
    obtain ⟨anc0, eanc, hanc⟩ := closest_anc h2.tree.wf namedInfo
      (fun i hi => namedInfo_some (h2.tree.info i hi)) (topOf s1) htopl
    refine TPs.step (liftR_ok eanc s2) ?_
    have hanc' : anc0 = INV ∨ live s2.tree anc0 = true := by
      rcases hanc with h0 | h0
      · exact Or.inl h0
      · exact Or.inr h0.1
    obtain ⟨ti, eti, hti⟩ := find_total' h2.tree.wf h2.tree.root anc0 hanc' (sliceExpr d sr.1)
    have hsrok : sr.2 = .ok := by
      by_cases hq : sr.2 = .ok
      · exact hq
      · exact absurd hq hok
    -- an incomplete method left behind by an earlier table is not what the lookup returns
    have hnotX : ti ≠ INV → live s2.tree ti = true → (slot s2.tree ti).opcode = opMethod → ¬ X ti := by
      intro hti0 htl hmo hx
      have hu2 : UnF X s2 (topOf s1) := hu.ofTree ht2
      obtain ⟨hn0, h00, href⟩ := (hu2 ti hx).2 hmo
      have hsanc : anc0 = INV ∨ (live s2.tree anc0 = true ∧ ¬ anc s2.tree ti anc0) := by
        rcases hanc with h0 | h0
        · exact Or.inl h0
        · exact Or.inr ⟨h0.1, fun ha => href (h0.2 ti ha)⟩
      have := find_avoid h2.tree.wf h2.tree.root hn0 h00 anc0 hsanc (sliceExpr d sr.1)
        (fun _ b hb => hlead2 hsrok b hb) ti eti hti0
      exact this.2 (h2.tree.wf.anc_self htl)
    refine TPs.step (liftR_ok eti s2) ?_
    by_cases hinv : ti = invalidIndex
    · rw [if_pos hinv]
      exact TPs.pure ⟨fail2, fun hq => by cases hq⟩
    · rw [if_neg hinv]
      have htil : live s2.tree ti = true := by
        rcases hti with h0 | h0
        · exact absurd h0 hinv
        · exact h0
      refine TPs.step (objectAt_live' htil) ?_
      have hb2 : Bud d 16 s2 := hb.consume ht2 hlt h2.inv.1
      obtain ⟨n, s3, e3, h3, f3, hr3, hop3, hinfo3, hidx3⟩ := newObject_step h2 opIntResolvedNamePath
        (hb2.mono (k' := 1) (by omega)).size_lt (by decide) info_const.2.2.2.2.2.2.2.2.2.2.2.2.1
      refine TPs.step e3 ?_
      have hobj3 : live s3.tree n = true := f3.liven
      obtain ⟨s4, e4, h4, hp4, hsl4, hr4⟩ := upd_step h3 hobj3 (fun o => { o with amlOffset := o0 }) (by keeps_links) Iff.rfl
        (h3.tree.info _ hobj3)
      refine TPs.step e4 ?_
      have hobj4 : live s4.tree n = true := by rw [hp4.links.live]; exact hobj3
      obtain ⟨s5, e5, h5, hp5, hsl5, hr5⟩ := upd_step h4 hobj4 (fun o => { o with value := .idx ti }) (by keeps_links) Iff.rfl
        (h4.tree.info _ hobj4)
      refine TPs.step e5 ?_
      have hobj5 : live s5.tree n = true := by rw [hp5.links.live]; exact hobj4
      have f5 : Fresh1 n s2 s5 := (f3.thenPay hp4).thenPay hp5
      have hop5 : (slot s5.tree n).opcode = opIntResolvedNamePath := by rw [hsl5, hsl4]; exact hop3
      have hidx5 : (slot s5.tree n).index = n := by rw [hsl5, hsl4]; exact hidx3
      have hne5 : s5.scopeStack.size ≠ 0 := by rw [f5.scope]; exact hne2
      obtain ⟨esc5, _, _⟩ := scopeCurrent_top h5 hne5
      have htop5 : topOf s5 = topOf s1 := by unfold topOf; rw [f5.scope, hsc2]
      rw [htop5] at esc5
      refine TPs.step esc5 ?_
      refine TPs.step (derefP_some_ex _) ?_
      let T3 : Nat → Prop := fun x => x = topOf s1 ∨ x = n
      have g25 : SGrow T3 1 s2 s5 := SGrow.ofFresh1 f5
      have hn2 : live s2.tree n = false := f5.nlive
      obtain ⟨s6, e6, h6, hs6, hsz6, sp6, hl6, hP6, hLa6, hNx6, hFi6⟩ :=
        append_step h5 h2.tree.wf (fun x hx => ⟨g25.oldLive x hx, g25.oldP x hx⟩) htopl hn2 hobj5 f5.pn
      refine TPs.step e6 ?_
      have htop5l : live s5.tree (topOf s1) = true := g25.oldLive _ htopl
      have g26 : SGrow T3 1 s2 s6 := g25.thenAppend hs6 hsz6 hl6 hP6 hn2 (Or.inl (Or.inl rfl)) h5.tree.wf htop5l sp6 hNx6 hFi6
      have hobj6 : live s6.tree n = true := by rw [hl6]; exact hobj5
      have hti6 : live s6.tree ti = true := g26.oldLive _ htil
      refine TPs.step (derefP_some_ex _) ?_
      refine TPs.step (getObj_live hti6) ?_
      have hms2 : MS X none s2.tree := by rw [ht2]; exact hms
      have hms5 : MS X none s5.tree := hms2.fresh f5 (fun hq => absurd (hop5 ▸ hq) (by decide))
      have hms6 : MS X none s6.tree := hms5.append h5.tree.wf f5.pn htop5l hl6 sp6 hNx6 hFi6
      have hsc6 : s6.scopeStack = s1.scopeStack := by rw [hs6]; show s5.scopeStack = _; rw [f5.scope, hsc2]
      have hn1 : live s1.tree n = false := by rw [← ht2]; exact hn2
      have htopn : topOf s1 ≠ n := fun e => by rw [e, hn2] at htopl; cases htopl
      have fin : ∀ {c : Nat} {s' : PState}, SGrow T3 c s2 s' → c ≤ 16 → SGrow (TTop s1) 0 s1 s' := by
        intro c s' g hc
        refine (SGrow.absorb hs2 hlt g hc).mono w ?_
        intro x hx hT
        rcases hT with hT | hT
        · exact hT
        · rw [hT, hn1] at hx; cases hx
      have hP6n : C13.P s6.tree n = topOf s1 := by rw [hP6, if_pos rfl]
      have hNx6n : Nx s6.tree n = INV := by rw [hNx6, if_pos rfl]
      by_cases hmeth : (slot s6.tree ti).opcode = opMethod
      · rw [if_neg (fun hq => hq hmeth)]
        -- a method call: the arguments follow
        have hop6 : (slot s6.tree n).opcode = opIntResolvedNamePath := by
          have : (slot s6.tree n).opcode = (slot s5.tree n).opcode := congrArg (fun p => p.1) (sp6.pay n)
          rw [this]; exact hop5
        have hidx6 : (slot s6.tree n).index = n := h6.tree.wf.index_eq n (live_lt hobj6)
        have hl7 : KeepsLive s6.tree n (fun o => { o with opcode := opIntMethodCall }) := by
          unfold KeepsLive
          exact ⟨fun hq => absurd (show opIntMethodCall = pOpIntFreedObject from hq) (by decide), fun hq => absurd hq (live_opcode hobj6)⟩
        obtain ⟨s7, e7, h7, hp7, hsl7, hr7⟩ := upd_step h6 hobj6 (fun o => { o with opcode := opIntMethodCall }) (by keeps_links) hl7
          (h6.tree.info _ hobj6)
          (Or.inr ⟨by rw [hop6]; decide, (show isK opIntMethodCall = false by decide)⟩)
          (fun hq => absurd (hop6 ▸ hq : isK opIntResolvedNamePath = true) (by decide))
        refine TPs.step e7 ?_
        have hobj7 : live s7.tree n = true := by rw [hp7.links.live]; exact hobj6
        obtain ⟨s8, e8, h8, hp8, hsl8, hr8⟩ := upd_step h7 hobj7
          (fun o => { o with infoIndex := pOpcodeTableIndex opIntMethodCall true }) (by keeps_links) Iff.rfl
          (by dsimp only; exact info_const.2.2.2.2.2.2.2.2.2.2.2.2.2) (Or.inl rfl) (fun _ => ⟨rfl, rfl⟩)
          (fun hq => by
            rw [hsl7] at hq
            have : isK opIntMethodCall = true := hq
            exact absurd this (by decide))
        refine TPs.step e8 ?_
        have hobj8 : live s8.tree n = true := by rw [hp8.links.live]; exact hobj7
        have hp68 : PayOnly n s6 s8 := hp7.trans hp8
        have htopnm : (slot s6.tree (topOf s1)).opcode ≠ opMethod := by
          have h0 := hS.nm _ (by rw [← hsc2]; exact htopm)
          intro hq
          have := (g26.mK _ htopl).1 hq
          rw [ht2] at this; exact h0 this
        have hms8 : MS X none s8.tree := hms6.pay h6.tree.wf hp68 (Or.inr (by rw [hP6n]; exact htopnm))
        have g68 : SGrow T3 0 s6 s8 := SGrow.ofPay hp68 (Or.inr (by rw [hP6n]; exact Or.inl rfl)) (Or.inr rfl) hobj6
        have g28 : SGrow T3 1 s2 s8 := g26.trans g68
        refine TPs.step (getObj_live hobj8) ?_
        have hidx8 : (slot s8.tree n).index = n := h8.tree.wf.index_eq n (live_lt hobj8)
        rw [hidx8]
        refine TPs.step (scopeEnter_ex n s8) ?_
        generalize hs9 : ({ s8 with scopeStack := s8.scopeStack.push n } : PState) = s9
        have ht9 : s9.tree = s8.tree := by rw [← hs9]
        have hsc9 : s9.scopeStack = s8.scopeStack.push n := by rw [← hs9]
        have hr9 : s9.r = s8.r := by rw [← hs9]
        have hsame9 : s9.allBlocks = s8.allBlocks ∧ s9.tableHandle = s8.tableHandle ∧ s9.streamEnd = s8.streamEnd := by
          rw [← hs9]; exact ⟨rfl, rfl, rfl⟩
        have hsc8 : s8.scopeStack = s1.scopeStack := by rw [hp68.scope, hsc6]
        have g18 : SGrow T3 1 s1 s8 := ((g12 T3).trans g28).weaken (by omega)
        have hS8 : SP d s8 := hS.step h8 g18 (fun x hx => Or.inl (by rw [← hsc8]; exact hx))
        have hop8 : (slot s8.tree n).opcode = opIntMethodCall := by rw [hsl8, hsl7]
        have hS9 : SP d s9 := hS8.push hobj8 (by rw [hop8]; decide) hs9.symm
        refine TPs.step (a := s9.tree) (s1 := s9) rfl ?_
        -- the flags of the method
        have hti8 : live s8.tree ti = true := g68.oldLive _ hti6
        have htin : ti ≠ n := fun e => by rw [e, hn2] at htil; cases htil
        have hmeth8 : (slot s8.tree ti).opcode = opMethod := by rw [hp68.others ti htin]; exact hmeth
        have hsh := hms8 ti hti8 hmeth8 (by intro hq; cases hq)
          (hnotX hinv htil ((g26.mK ti htil).1 hmeth))
        have eArg := hsh.argAt h8.tree.wf hti8
        rw [← ht9] at eArg
        refine TPs.step (liftR_ok eArg s9) ?_
        refine TPs.step (derefP_some_ex _) ?_
        obtain ⟨v, _, hc2l, hc2v⟩ := hsh
        rw [← ht9] at hc2l hc2v
        refine TPs.step (u64Value_ex hc2l hc2v) ?_
        have hb9 : Bud d 0 s9 := by
          have := budS hb2 g28 h8.inv.1 (by omega)
          unfold Bud at this ⊢; rw [ht9, hr9]; omega
        have htop9' : topOf s9 = n := topOf_push s8 n hsc9
        have hu9 : UnF X s9 (topOf s9) := by
          rw [htop9']
          have hu8 : UnF X s8 (topOf s1) := hu.grow g18 w h8.tree.wf h.tree.root (Or.inr htopl')
          exact (hu8.child h8.tree.wf hobj8 (by rw [hp68.links.p]; exact hP6n) (hu.notFresh hn1)).ofTree ht9
        have hv7 : v &&& 7 ≤ 7 := Nat.and_le_right
        have := ih.methodArgs (s := s9) (v &&& 7) hS9 (by rw [ht9]; exact hms8) hu9 (by rw [hsc9]; simp) hb9
          (need_np_ma hf (by show d.size - s9.r.offset + 1 ≤ d.size - s1.r.offset; rw [hr9]; exact rem_lt (Nat.lt_of_lt_of_le hlt g28.off) h8.inv.1) hv7)
        refine TPs.bind this ?_
        intro b s10 ⟨h10, g10, hsz10, hok10⟩
        have htop9 : topOf s9 = n := topOf_push s8 n hsc9
        have hne10 : s10.scopeStack.size ≠ 0 := by
          have : s9.scopeStack.size = s8.scopeStack.size + 1 := by rw [hsc9]; simp
          omega
        obtain ⟨s11, e11, h11, hs11⟩ := scopeExit_step h10 hne10
        have ht11 : s11.tree = s10.tree := by rw [hs11]
        have hsc11 : s11.scopeStack = s10.scopeStack.pop := by rw [hs11]
        have g89 : SGrow T3 0 s8 s9 := SGrow.ofSame ht9 (by rw [hr9]; exact Nat.le_refl _) hsame9
        have g910 : SGrow T3 0 s9 s10 := g10.mono hS9.fp.tree.wf (fun x _ hT => by
          have hT' : x = topOf s9 := hT
          rw [htop9] at hT'; exact Or.inr hT')
        have g1011 : SGrow T3 0 s10 s11 := SGrow.ofSame ht11 (by rw [hs11]; exact Nat.le_refl _) (by rw [hs11]; exact ⟨rfl, rfl, rfl⟩)
        have g211 : SGrow T3 1 s2 s11 := ((g28.trans g89).trans g910).trans g1011
        have hsz11 : s1.scopeStack.size ≤ s11.scopeStack.size := by
          have : s9.scopeStack.size = s8.scopeStack.size + 1 := by rw [hsc9]; simp
          rw [hsc11, ← hsc8]; simp; omega
        cases b with
        | false =>
          simp only [Bool.not_false, ↓reduceIte]
          refine TPs.step e11 (TPs.pure ⟨⟨h11, fin g211 (by omega), hsz11, fun hq => absurd rfl hq⟩, fun hq => by cases hq⟩)
        | true =>
          simp only [Bool.not_true, Bool.false_eq_true, ↓reduceIte]
          obtain ⟨q1, q2⟩ := hok10 rfl
          have hprog : s1.r.offset < s11.r.offset := by
            have := (fin g211 (by omega)).off
            have := g211.off
            omega
          refine TPs.step e11 (TPs.pure ⟨⟨h11, fin g211 (by omega), hsz11, fun _ => ⟨?_, by rw [ht11]; exact q2, ?_⟩⟩, fun _ => hprog⟩)
          · rw [hsc11, q1, hsc9, stack_pop_push, hsc8]
          · -- `n` is still the last argument of the scope
            have hn9 : live s9.tree n = true := by rw [ht9]; exact hobj8
            have hP9n : C13.P s9.tree n = topOf s1 := by rw [ht9, hp68.links.p]; exact hP6n
            have hNx9n : Nx s9.tree n = INV := by rw [ht9, hp68.links.nx]; exact hNx6n
            have htopINV : topOf s1 ≠ INV := live_ne_INV h2.tree.wf.size_le htopl
            have k := g10.kidK n hn9 (by rw [hP9n]; exact htopINV) (by
              rw [hP9n]; show ¬ (topOf s1 = topOf s9); rw [htop9]; exact htopn)
            have hn10 : live s10.tree n = true := g10.oldLive _ hn9
            have hla := (h10.tree.wf.lP hn10).last (by rw [g10.oldP _ hn9, hP9n]; exact htopINV) (by rw [k.1]; exact hNx9n)
            rw [g10.oldP _ hn9, hP9n] at hla
            rw [ht11, hla]
            exact ⟨hn1, hn10⟩
      · rw [if_pos hmeth]
        refine TPs.pure ⟨⟨h6, fin g26 (by omega), by rw [hsc6]; exact Nat.le_refl _, fun _ => ⟨hsc6, hms6, ?_⟩⟩,
          fun _ => by have := g26.off; omega⟩
        rw [hLa6]
        exact ⟨hn1, hobj6⟩

/-- what the two loops need after one successful `parseNextObject` -/
theorem after_nextT {d : Bytes} {s s1 : PState} (hS : SP d s) (hu : UnF X s (topOf s)) (hne : s.scopeStack.size ≠ 0)
    (hb : Bud d 0 s) (p : PostS d (TTop s) 0 s s1 True (MS X none s1.tree)) :
    SP d s1 ∧ MS X none s1.tree ∧ UnF X s1 (topOf s1) ∧ s1.scopeStack.size ≠ 0 ∧ Bud d 0 s1 := by
  obtain ⟨h1, g1, _, hk⟩ := p
  obtain ⟨hst, hms1⟩ := hk trivial
  obtain ⟨_, htopl, _⟩ := scopeCurrent_top hS.fp hne
  have htop : topOf s1 = topOf s := by unfold topOf; rw [hst]
  refine ⟨hS.step h1 g1 (fun x hx => Or.inl (by rw [← hst]; exact hx)), hms1, ?_, by rw [hst]; exact hne, ?_⟩
  · rw [htop]; exact hu.grow g1 hS.fp.tree.wf h1.tree.wf hS.fp.tree.root (Or.inr htopl)
  · have := budS hb g1 h1.inv.1 (Nat.le_refl _)
    exact this

theorem methodArgs_stepT {d : Bytes} {f : Nat} (ih : STP X d f) {s : PState} (n : Nat)
    (hS : SP d s) (hms : MS X none s.tree) (hu : UnF X s (topOf s)) (hne : s.scopeStack.size ≠ 0) (hb : Bud d 0 s)
    (hf : nMA (rem d s) n ≤ f + 1) :
    TPs (methodArgsLoop d (f + 1) n) s (fun b s' => PostS d (TTop s) 0 s s' (b = true) (MS X none s'.tree)) := by
  unfold methodArgsLoop
  cases n with
  | zero => exact TPs.pure ⟨hS.fp, SGrow.refl s, Nat.le_refl _, fun _ => ⟨rfl, hms⟩⟩
  | succ n =>
    refine TPs.bind (ih.next hS hms hu hne hb (need_ma_next hf)) ?_
    intro res s1 ⟨p1, _⟩
    by_cases hok : res = .ok
    · rw [if_neg (fun hq => hq hok)]
      have p1' : PostS d (TTop s) 0 s s1 True (MS X none s1.tree) := ⟨p1.1, p1.2.1, p1.2.2.1, fun _ => p1.2.2.2 (by rw [hok]; decide)⟩
      obtain ⟨hS1, hms1, hu1, hne1, hb1⟩ := after_nextT hS hu hne hb p1'
      refine (ih.methodArgs n hS1 hms1 hu1 hne1 hb1 (need_ma_ma hf (rem_le _ p1.2.1.off))).mono ?_
      intro b s2 p2
      exact PostS.seq hS.fp.tree.wf ⟨p1'.1, p1'.2.1, p1'.2.2.1, fun _ => ⟨(p1'.2.2.2 trivial).1, trivial⟩⟩ p2
    · rw [if_pos hok]
      exact TPs.pure ⟨p1.1, p1.2.1, p1.2.2.1, fun hq => by cases hq⟩

theorem termList_stepT {d : Bytes} {f : Nat} (ih : STP X d f) {s : PState}
    (hS : SP d s) (hms : MS X none s.tree) (hu : UnF X s (topOf s)) (hne : s.scopeStack.size ≠ 0) (hb : Bud d 0 s)
    (hf : nTL (rem d s) ≤ f + 1) :
    TPs (termListLoop d (f + 1)) s (fun b s' => PostS d (TTop s) 0 s s' (b = true) (MS X none s'.tree)) := by
  unfold termListLoop
  obtain ⟨b, s0, e0, h0, hR0, hs0⟩ := lex_step (rel_eof d) hS.fp
  refine TPs.step e0 ?_
  have hss : s0 = s := by rw [hs0, hR0.2]
  subst hss
  cases b with
  | true =>
    rw [if_pos rfl]
    exact TPs.pure ⟨hS.fp, SGrow.refl s0, Nat.le_refl _, fun _ => ⟨rfl, hms⟩⟩
  | false =>
    rw [if_neg (by decide)]
    refine TPs.bind (ih.next hS hms hu hne hb (need_tl_next hf)) ?_
    intro res s1 ⟨p1, hprog⟩
    by_cases hok : res = .ok
    · rw [if_neg (fun hq => hq hok)]
      have p1' : PostS d (TTop s0) 0 s0 s1 True (MS X none s1.tree) := ⟨p1.1, p1.2.1, p1.2.2.1, fun _ => p1.2.2.2 (by rw [hok]; decide)⟩
      obtain ⟨hS1, hms1, hu1, hne1, hb1⟩ := after_nextT hS hu hne hb p1'
      refine (ih.termList hS1 hms1 hu1 hne1 hb1 (need_tl_tl hf (rem_lt (hprog hok) p1.1.inv.1))).mono ?_
      intro b s2 p2
      exact PostS.seq hS.fp.tree.wf ⟨p1'.1, p1'.2.1, p1'.2.2.1, fun _ => ⟨(p1'.2.2.2 trivial).1, trivial⟩⟩ p2
    · rw [if_pos hok]
      exact TPs.pure ⟨p1.1, p1.2.1, p1.2.2.1, fun hq => by cases hq⟩

/-- `parseNextObject()` in the strict mode -/
theorem next_stepT {d : Bytes} (hd : d.size + 268435456 ≤ 4294967296) {f : Nat} (ih : STP X d f) {s : PState}
    (hS : SP d s) (hms : MS X none s.tree) (hu : UnF X s (topOf s)) (hne : s.scopeStack.size ≠ 0) (hb : Bud d 0 s)
    (hf : nNext (rem d s) ≤ f + 1) :
    TPs (parseNextObject d (f + 1)) s (fun res s' => PostS d (TTop s) 0 s s' (res ≠ .failed) (MS X none s'.tree) ∧
      (res = .ok → s.r.offset < s'.r.offset)) := by
  have hd' : d.size + 1024 ≤ 4294967296 := by omega
  have h := hS.fp
  have w := h.tree.wf
  unfold parseNextObject
  obtain ⟨o0, s1, e1, h1, hR1, hs1⟩ := lex_step (rel_offset d) h
  refine TPs.step e1 ?_
  have hss : s1 = s := by rw [hs1, hR1.2]
  subst hss
  obtain ⟨opr, s2, e2, h2, hR2, hs2⟩ := lex_step (rel_nextOpcode d hd') h
  refine TPs.step e2 ?_
  have ht2 : s2.tree = s1.tree := by rw [hs2]
  have hsc2 : s2.scopeStack = s1.scopeStack := by rw [hs2]
  rcases hR2 with ⟨hfail, hop, hr2⟩ | ⟨hok, hbad, hop, _, hlt, _⟩
  · -- not an opcode: a name
    rw [if_neg (by rw [hop]; decide), if_pos hfail]
    have hss2 : s2 = s1 := by rw [hs2, hr2]
    subst hss2
    refine (ih.namePath hS hms hu hne hb (need_next_np hf)).mono ?_
    intro res s' ⟨p, hpr⟩
    exact ⟨⟨p.1, p.2.1, p.2.2.1, fun hq => ⟨(p.2.2.2 hq).1, (p.2.2.2 hq).2.1⟩⟩, hpr⟩
  · by_cases hnoop : opr.1 = opNoop
    · rw [if_pos hnoop]
      exact TPs.pure ⟨⟨h2, SGrow.ofLex hs2 (by omega), by rw [hsc2]; exact Nat.le_refl _, fun _ => ⟨hsc2, by rw [ht2]; exact hms⟩⟩,
        fun _ => hlt⟩
    · rw [if_neg hnoop, if_neg (by rw [hok]; decide)]
      obtain ⟨hrow, hinfo, hnf, _⟩ := op_facts hop hbad
      have hb2 : Bud d 16 s2 := hb.consume ht2 hlt h2.inv.1
      obtain ⟨n, s3, e3, h3, f3, hr3, hop3, hinfo3, _⟩ := newObject_step h2 opr.1 (hb2.mono (k' := 1) (by omega)).size_lt hnf hinfo
      refine TPs.step e3 ?_
      have hobj : live s3.tree n = true := f3.liven
      obtain ⟨s4, e4, h4, hp4, hsl4, hr4⟩ := upd_step h3 hobj (fun o => { o with amlOffset := o0 }) (by keeps_links) Iff.rfl
        (h3.tree.info _ hobj)
      refine TPs.step e4 ?_
      have hobj4 : live s4.tree n = true := by rw [hp4.links.live]; exact hobj
      have f4 : Fresh1 n s2 s4 := f3.thenPay hp4
      have hop4 : (slot s4.tree n).opcode = opr.1 := by rw [hsl4]; exact hop3
      have hinfo4 : (slot s4.tree n).infoIndex = pOpcodeTableIndex opr.1 true := by rw [hsl4]; exact hinfo3
      have hne4 : s4.scopeStack.size ≠ 0 := by rw [f4.scope, hsc2]; exact hne
      obtain ⟨esc, _, _⟩ := scopeCurrent_top h4 hne4
      have htop4 : topOf s4 = topOf s1 := by unfold topOf; rw [f4.scope, hsc2]
      rw [htop4] at esc
      refine TPs.step esc ?_
      refine TPs.step (derefP_some_ex _) ?_
      obtain ⟨_, htopl, htopm⟩ := scopeCurrent_top h hne
      have htopl2 : live s2.tree (topOf s1) = true := by rw [ht2]; exact htopl
      let T3 : Nat → Prop := fun x => x = topOf s1 ∨ x = n
      have g24 : SGrow T3 1 s2 s4 := SGrow.ofFresh1 f4
      have hn2 : live s2.tree n = false := f4.nlive
      obtain ⟨s6, e6, h6, hs6, hsz6, sp6, hl6, hP6, hLa6, hNx6, hFi6⟩ :=
        append_step h4 h2.tree.wf (fun x hx => ⟨g24.oldLive x hx, g24.oldP x hx⟩) htopl2 hn2 hobj4 f4.pn
      refine TPs.step e6 ?_
      have htop4l : live s4.tree (topOf s1) = true := g24.oldLive _ htopl2
      have g26 : SGrow T3 1 s2 s6 := g24.thenAppend hs6 hsz6 hl6 hP6 hn2 (Or.inl (Or.inl rfl)) h4.tree.wf htop4l sp6 hNx6 hFi6
      have hobj6 : live s6.tree n = true := by rw [hl6]; exact hobj4
      have hop6 : (slot s6.tree n).opcode = opr.1 := by
        have : (slot s6.tree n).opcode = (slot s4.tree n).opcode := congrArg (fun p => p.1) (sp6.pay n)
        rw [this]; exact hop4
      have hinfo6 : (slot s6.tree n).infoIndex = pOpcodeTableIndex opr.1 true := by
        have : (slot s6.tree n).infoIndex = (slot s4.tree n).infoIndex := congrArg (fun p => p.2.1) (sp6.pay n)
        rw [this]; exact hinfo4
      have hms2 : MS X (some n) s2.tree := by rw [ht2]; exact hms.weaken _
      have hms4 : MS X (some n) s4.tree := hms2.fresh f4 (fun _ => rfl)
      have hms6 : MS X (some n) s6.tree := hms4.append h4.tree.wf f4.pn htop4l hl6 sp6 hNx6 hFi6
      have hn1 : live s1.tree n = false := by rw [← ht2]; exact hn2
      have htopn : topOf s1 ≠ n := fun e => by rw [e, hn1] at htopl; cases htopl
      have htopINV : topOf s1 ≠ INV := live_ne_INV w.size_le htopl
      have hP6n : C13.P s6.tree n = topOf s1 := by rw [hP6, if_pos rfl]
      have hfi6 : Fi s6.tree n = INV := by
        rw [hFi6, if_neg (fun hq => htopn hq.1.symm)]
        have : Fi s4.tree n = Fi s3.tree n := hp4.links.fi n
        rw [this]; exact f3.fin
      have htopnm : (slot s6.tree (topOf s1)).opcode ≠ opMethod := by
        have h0 := hS.nm _ htopm
        intro hq
        have := (g26.mK _ htopl2).1 hq
        rw [ht2] at this; exact h0 this
      have hb6 : Bud d 14 s6 := by
        have := budS hb2 g26 h6.inv.1 (by omega); exact this.mono (by omega)
      have hsc6 : s6.scopeStack = s1.scopeStack := by rw [hs6]; show s4.scopeStack = _; rw [f4.scope, hsc2]
      have g16 : SGrow T3 1 s1 s6 := ((SGrow.ofLex hs2 (by omega) : SGrow T3 0 s1 s2).trans g26).weaken (by omega)
      have hS6 : SP d s6 := hS.step h6 g16 (fun x hx => Or.inl (by rw [← hsc6]; exact hx))
      have hmsx : MSx X s6 (slot s6.tree n).infoIndex n 0 := by
        apply MSx.ofBlank' hms6 _ h6.tree.wf hobj6 hfi6
        intro hi hq
        apply hi
        rw [hinfo6, ← hop6, hq]; rfl
      have hu6 : UnF X s6 n := ((hu.grow g16 w h6.tree.wf h.tree.root (Or.inr htopl)).child h6.tree.wf hobj6 hP6n
        (hu.notFresh hn1))
      have := ih.objArgs (s := s6) n hS6 hobj6 (by rw [hinfo6]; exact hrow) (Or.inl (by rw [hP6n]; exact htopINV)) hb6
        hmsx hu6 (fun hq => by rw [hinfo6, ← hop6, hq]; rfl) (Or.inr (by rw [hP6n]; exact htopnm))
        (need_next_oa hf (rem_lt (Nat.lt_of_lt_of_le hlt g26.off) h6.inv.1))
      refine this.mono ?_
      intro res s7 ⟨h7, g7, hsz7, hok7⟩
      have g67 : SGrow T3 14 s6 s7 := g7.mono h6.tree.wf (fun x _ hT => by
        rcases hT with hT | hT
        · exact Or.inr hT
        · rw [hP6n] at hT; exact Or.inl hT)
      refine ⟨⟨h7, ?_, by rw [← hsc6]; exact hsz7, fun hq => ⟨by rw [(hok7 hq).1, hsc6], (hok7 hq).2⟩⟩,
        fun _ => by have := g26.off; have := g7.off; omega⟩
      refine (SGrow.absorb hs2 hlt (g26.trans g67) (by omega)).mono w ?_
      intro x hx hT
      rcases hT with hT | hT
      · exact hT
      · rw [hT, hn1] at hx; cases hx

/-- `parseArg(info, curObj, argType)` in the strict mode -/
theorem arg_stepT {d : Bytes} (hd : d.size + 268435456 ≤ 4294967296) {f : Nat} (ih : STP X d f) {s : PState}
    (info curObj argType : Nat) (ex : Option Nat) (hS : SP d s) (hc : live s.tree curObj = true) (hinfo : InfoOK info)
    (hb : Bud d 2 s)
    (hfl : argType = argTypeFieldList → C13.P s.tree curObj ≠ INV ∧ live s.tree (La s.tree curObj) = true ∧
      ∃ v, (slot s.tree (La s.tree curObj)).value = .u64 v)
    (hms : MS X ex s.tree) (hu : UnF X s curObj) (hex : ¬ Leaf argType → ex = none)
    (hmeth : (slot s.tree curObj).opcode = opMethod → Leaf argType ∨ argType = argTypeTermList) (hpar : ParNM s curObj)
    (hf : nArg (rem d s) ≤ f + 1) :
    TPs (parseArg d (f + 1) info curObj argType) s (fun a s' =>
      PostS d (TCur s curObj) 2 s s' (a.2 ≠ .failed) (MS X ex s'.tree) ∧
      RetOK s s' a.1 ∧ (Leaf argType → ∀ x, live s.tree x = true → slot s'.tree x = slot s.tree x) ∧
      (argType = argTypeByteData → a.2 = .ok → ∃ x v, a.1 = some x ∧ (slot s'.tree x).value = .u64 v) ∧
      (argType = argTypePkgLen → a.1 = none) ∧ (isSimpleArg argType = true → a.2 = .ok → ∃ x, a.1 = some x) ∧
      (Leaf argType → a.2 = .ok ∨ a.2 = .failed)) := by
  have hd' : d.size + 1024 ≤ 4294967296 := by omega
  have h := hS.fp
  have w := h.tree.wf
  have hszlt : s.tree.pool.size < INV := (hb.mono (k' := 1) (by omega)).size_lt
  unfold parseArg
  by_cases hsimple : isSimpleArg argType = true
  · rw [if_pos hsimple]
    obtain ⟨a, s', n, e, h', f', hnm', hres⟩ := parseSimpleArg_tot hd' h hszlt argType
    refine TPs.of_eq e ⟨⟨h', (SGrow.ofFresh1 f').weaken (by omega), by rw [f'.scope]; exact Nat.le_refl _,
      fun _ => ⟨f'.scope, hms.fresh f' (fun hq => by rw [hq, isK_method] at hnm'; cases hnm')⟩⟩, ?_, fun _ x hx => f'.old x (f'.ne hx), ?_,
      fun hq => (by rw [hq] at hsimple; exact absurd hsimple (by decide)), ?_, ?_⟩
    · intro x hx
      rcases hres with ⟨ha, _, _⟩ | ha
      · rw [ha] at hx; cases hx
        exact ⟨f'.nlive, f'.liven, f'.pn⟩
      · rw [ha] at hx; cases hx
    · intro hbd hok
      rcases hres with ⟨ha, _, hv⟩ | ha
      · obtain ⟨v, hv⟩ := hv (Or.inl hbd)
        exact ⟨_, v, ha, hv⟩
      · rw [ha] at hok; cases hok
    · intro _ hok
      rcases hres with ⟨ha, _, _⟩ | ha
      · exact ⟨_, ha⟩
      · rw [ha] at hok; cases hok
    · intro _
      rcases hres with ⟨_, hpr, _⟩ | ha
      · rcases hpr with ⟨hq, _⟩ | hq
        · exact Or.inl hq
        · exact Or.inr hq
      · rw [ha]; exact Or.inr rfl
  · rw [if_neg hsimple]
    have hns : isSimpleArg argType = true → ∀ (a : Option Nat × PRes), a.2 = .ok → ∃ x, a.1 = some x := fun hq => absurd hq hsimple
    by_cases hbl : argType = argTypeByteList
    · rw [if_pos hbl]
      have hnl : ¬ Leaf argType := by rw [hbl]; exact leaf_not.1
      have hexn := hex hnl
      subst hexn
      unfold parseByteListArg
      refine TPs.step (reader_ex s) ?_
      by_cases hover : s.r.offset > s.r.pkgEnd
      · rw [if_pos hover]
        exact TPs.pure ⟨⟨h, (SGrow.refl s).weaken (by omega), Nat.le_refl _, fun hq => absurd rfl hq⟩, fun a ha => (by cases ha),
          fun hl => absurd hl hnl, fun hq => absurd (hbl.symm.trans hq) (by decide), fun hq => absurd (hbl.symm.trans hq) (by decide),
          fun hq => absurd hq hsimple, fun hl => absurd hl hnl⟩
      · rw [if_neg hover]
        obtain ⟨n, s1, e1, h1, f1, hr1, hop1, _⟩ := newObject_step h opIntByteList hszlt (by decide) info_const.2.2.2.2.2.2.2.1
        refine TPs.step e1 ?_
        refine TPs.step (reader_ex s1) ?_
        have hi1 := h.inv.1; have hi2 := h.inv.2
        have hlen : u32 (s1.r.pkgEnd + 4294967296 - s1.r.offset) = s.r.pkgEnd - s.r.offset := by
          rw [hr1]; unfold u32; omega
        rw [hlen]
        obtain ⟨_, s2, e2, h2, hp2, _⟩ := parseByteList_tot hd' h1 f1.liven (s.r.pkgEnd - s.r.offset) (by rw [hr1]; omega)
          (by rw [hop1]; decide)
        refine TPs.step e2 ?_
        have f2 := f1.thenPay hp2
        refine TPs.pure ⟨⟨h2, (SGrow.ofFresh1 f2).weaken (by omega), by rw [f2.scope]; exact Nat.le_refl _,
          fun _ => ⟨f2.scope, hms.fresh f2 (fun hq => by
            exfalso
            have := hp2.mth.1 hq
            rw [hop1] at this
            revert this; decide)⟩⟩, ?_, fun hl => absurd hl hnl, fun hq => absurd (hbl.symm.trans hq) (by decide),
          fun hq => absurd (hbl.symm.trans hq) (by decide), fun hq => absurd hq hsimple, fun hl => absurd hl hnl⟩
        intro a ha
        cases ha
        exact ⟨f2.nlive, f2.liven, f2.pn⟩
    · rw [if_neg hbl]
      by_cases hpk : argType = argTypePkgLen
      · rw [if_pos hpk]
        obtain ⟨a, s', e, h', ha, ht', hsc', ho', hsame', hres'⟩ := parsePkgLenArg_strict hd h info curObj hS.ab hinfo
        refine TPs.of_eq e ⟨⟨h', (SGrow.ofSame ht' ho' hsame').weaken (by omega), by rw [hsc']; exact Nat.le_refl _,
          fun _ => ⟨hsc', by rw [ht']; exact hms⟩⟩, fun x hx => (by rw [ha] at hx; cases hx), fun _ x _ => (by rw [ht']),
          fun hq => (by rw [hpk] at hq; cases hq), fun _ => ha, fun hq => absurd hq hsimple, fun _ => hres'⟩
      · rw [if_neg hpk]
        have hnl : ¬ Leaf argType := by
          intro hl; rcases hl with hl | hl
          · exact hsimple hl
          · exact hpk hl
        have hexn := hex hnl
        subst hexn
        by_cases hfld : argType = argTypeFieldList
        · rw [if_pos hfld]
          obtain ⟨hp, hla, hv⟩ := hfl hfld
          obtain ⟨res, s', e, h', g', hsc', _, fr⟩ := parseFieldElements_tot (T := TCur s curObj) hd h curObj hc hp hla hv hb
            (Or.inl rfl) (Or.inr rfl)
          refine TPs.step e (TPs.pure ⟨⟨h', SGrow.ofGrowFrm g' fr, by rw [hsc']; exact Nat.le_refl _, fun _ => ⟨hsc', ?_⟩⟩,
            fun x hx => (by cases hx), fun hl => absurd hl hnl, fun hq => (by rw [hfld] at hq; cases hq),
            fun _ => rfl, fun hq => absurd hq hsimple, fun hl => absurd hl hnl⟩)
          apply hms.frm w fr
          intro m hm ho _ hT
          rcases hT with hT | hT
          · rw [hT] at ho
            rcases hmeth ho with hq | hq
            · exact hnl hq
            · rw [hfld] at hq; cases hq
          · rcases hpar with hq | hq
            · rw [hT] at hm; exact hp hq
            · rw [hT] at ho; exact hq ho
        · rw [if_neg hfld]
          by_cases hta : argType = argTypeTermArg ∨ argType = argTypeDataRefObj
          · rw [if_pos hta]
            refine TPs.step (allBlocks_ex s) ?_
            rw [hS.ab]
            simp only [↓reduceIte]
            have hnmc : (slot s.tree curObj).opcode ≠ opMethod := by
              intro ho
              rcases hmeth ho with hq | hq
              · exact hnl hq
              · rcases hta with hq2 | hq2 <;> rw [hq2] at hq <;> cases hq
            refine (ih.strictTermArg curObj hS hc hnmc hms hu hb (need_arg_strict hf)).mono ?_
            intro a s' ⟨⟨h', g', hsz', hok'⟩, hret⟩
            refine ⟨⟨h', g'.mono w (fun x _ hT => Or.inl hT), hsz', hok'⟩, hret, fun hl => absurd hl hnl, ?_,
              fun hq => absurd hq hpk, fun hq => absurd hq hsimple, fun hl => absurd hl hnl⟩
            intro hq; rcases hta with hq2 | hq2 <;> rw [hq2] at hq <;> cases hq
          · rw [if_neg hta]
            by_cases htl : argType = argTypeTermList
            · rw [if_pos htl]
              -- a `TermList`: a new scope block under `curObj`, the objects up to the package end, the block taken off again
              obtain ⟨scope, s1, e1, h1, sm, hm, fm, hs1, hopm, hrm⟩ := newScopeBlock_strict h hszlt
              refine TPs.step e1 ?_
              refine TPs.step (allBlocks_ex s1) ?_
              have ht1 : s1.tree = sm.tree := by rw [hs1]
              have hsc1 : s1.scopeStack = s.scopeStack.push scope := by rw [hs1]; show sm.scopeStack.push scope = _; rw [fm.scope]
              have hr1 : s1.r = s.r := by rw [hs1]; exact hrm
              have hsame1 : s1.allBlocks = s.allBlocks ∧ s1.tableHandle = s.tableHandle ∧ s1.streamEnd = s.streamEnd := by
                rw [hs1]; exact fm.same
              rw [hsame1.1, hS.ab]
              simp only [Bool.not_true, Bool.false_eq_true, ↓reduceIte]
              let T4 : Nat → Prop := fun x => TCur s curObj x ∨ x = scope
              have gm : SGrow T4 1 s sm := SGrow.ofFresh1 fm
              have g1 : SGrow T4 1 s s1 := by
                have : SGrow T4 0 sm s1 := SGrow.ofSame ht1 (by rw [hr1, hrm]; exact Nat.le_refl _) (by rw [hs1]; exact ⟨rfl, rfl, rfl⟩)
                exact gm.trans this
              have hns : live s.tree scope = false := fm.nlive
              have hl1 : live s1.tree scope = true := by rw [ht1]; exact fm.liven
              have hp1 : C13.P s1.tree scope = INV := by rw [ht1]; exact fm.pn
              obtain ⟨s2, e2, h2, hs2, hsz2, sp2, hl2, hP2, _, hNx2, hFi2⟩ :=
                append_step h1 w (fun x hx => ⟨g1.oldLive x hx, g1.oldP x hx⟩) hc hns hl1 hp1
              refine TPs.step e2 ?_
              have hc1 : live s1.tree curObj = true := g1.oldLive _ hc
              have g2 : SGrow T4 1 s s2 := g1.thenAppend hs2 hsz2 hl2 hP2 hns (Or.inl (Or.inl (Or.inl rfl))) h1.tree.wf hc1 sp2 hNx2 hFi2
              have hms1 : MS X none s1.tree := by rw [ht1]; exact hms.fresh fm (fun hq => absurd (hopm ▸ hq) (by decide))
              have hms2 : MS X none s2.tree := hms1.append h1.tree.wf hp1 hc1 hl2 sp2 hNx2 hFi2
              have hsc2 : s2.scopeStack = s.scopeStack.push scope := by rw [hs2]; exact hsc1
              have hop2 : (slot s2.tree scope).opcode = opIntScopeBlock := by
                have : (slot s2.tree scope).opcode = (slot s1.tree scope).opcode := congrArg (fun p => p.1) (sp2.pay scope)
                rw [this, ht1]; exact hopm
              have hS2 : SP d s2 := hS.step h2 g2 (fun x hx => by
                rw [hsc2, Array.toList_push, List.mem_append, List.mem_singleton] at hx
                rcases hx with hx | hx
                · exact Or.inl hx
                · rw [hx, hop2]; exact Or.inr (by decide))
              have hb2 : Bud d 0 s2 := by have := budS hb g2 h2.inv.1 (by omega); exact this.mono (by omega)
              have htop2 : topOf s2 = scope := topOf_push s scope hsc2
              have hu2 : UnF X s2 (topOf s2) := by
                rw [htop2]
                exact (hu.grow g2 w h2.tree.wf h.tree.root (Or.inr hc)).child h2.tree.wf (by rw [hl2]; exact hl1)
                  (by rw [hP2, if_pos rfl]) (hu.notFresh hns)
              have := ih.termList (s := s2) hS2 hms2 hu2 (by rw [hsc2]; simp) hb2
                (need_arg_tl hf (rem_le _ g2.off))
              refine TPs.bind this ?_
              intro b s3 ⟨h3, g3, hsz3, hok3⟩
              have g23 : SGrow T4 0 s2 s3 := g3.mono h2.tree.wf (fun x _ hT => by
                have hT' : x = topOf s2 := hT
                rw [htop2] at hT'; exact Or.inr hT')
              have g03 : SGrow T4 1 s s3 := g2.trans g23
              have hfin : ∀ {s' : PState}, SGrow T4 1 s s' → SGrow (TCur s curObj) 2 s s' := by
                intro s' g
                refine (g.mono w ?_).weaken (by omega)
                intro x hx hT
                rcases hT with hT | hT
                · exact hT
                · rw [hT, hns] at hx; cases hx
              have hsz03 : s.scopeStack.size ≤ s3.scopeStack.size := by
                have : s2.scopeStack.size = s.scopeStack.size + 1 := by rw [hsc2]; simp
                omega
              cases b with
              | false =>
                simp only [Bool.not_false, ↓reduceIte]
                exact TPs.pure ⟨⟨h3, hfin g03, hsz03, fun hq => absurd rfl hq⟩, fun a ha => (by cases ha), fun hl => absurd hl hnl,
                  fun hq => (by rw [htl] at hq; cases hq), fun hq => absurd hq hpk, fun hq => absurd hq hsimple,
                  fun hl => absurd hl hnl⟩
              | true =>
                simp only [Bool.not_true, Bool.false_eq_true, ↓reduceIte]
                obtain ⟨q1, q2⟩ := hok3 rfl
                have hne3 : s3.scopeStack.size ≠ 0 := by rw [q1, hsc2]; simp
                obtain ⟨s4, e4, h4, hs4⟩ := scopeExit_step h3 hne3
                refine TPs.step e4 ?_
                have ht4 : s4.tree = s3.tree := by rw [hs4]
                have hsc4 : s4.scopeStack = s.scopeStack := by rw [hs4]; show s3.scopeStack.pop = _; rw [q1, hsc2, stack_pop_push]
                have hc2 : live s2.tree curObj = true := by rw [hl2]; exact hc1
                have hsc2l : live s2.tree scope = true := by rw [hl2]; exact hl1
                have hP2s : C13.P s2.tree scope = curObj := by rw [hP2, if_pos rfl]
                have hc4 : live s4.tree curObj = true := by rw [ht4]; exact g3.oldLive _ hc2
                have hl4 : live s4.tree scope = true := by rw [ht4]; exact g3.oldLive _ hsc2l
                have hP4s : C13.P s4.tree scope = curObj := by rw [ht4, g3.oldP _ hsc2l]; exact hP2s
                obtain ⟨s5, e5, h5, hs5, hsz5, sp5, hl5, hP5, hNx5, hFi5⟩ := detach_stepS h4 hc4 hl4 hP4s
                refine TPs.step e5 ?_
                have g04 : SGrow T4 1 s s4 :=
                  g03.trans (SGrow.ofSame ht4 (by rw [hs4]; exact Nat.le_refl _) (by rw [hs4]; exact ⟨rfl, rfl, rfl⟩))
                have g05 : SGrow T4 1 s s5 :=
                  g04.thenDetach hs5 hsz5 hl5 hP5 hns (Or.inl (Or.inl (Or.inl rfl))) h4.tree.wf hl4 hP4s sp5 hNx5 hFi5
                have hcs : curObj ≠ scope := fun e => by rw [e, hns] at hc; cases hc
                refine TPs.pure ⟨⟨h5, hfin g05, by rw [hs5]; show s.scopeStack.size ≤ s4.scopeStack.size; rw [hsc4]; exact Nat.le_refl _,
                  fun _ => ⟨by rw [hs5]; exact hsc4, ?_⟩⟩, ?_, fun hl => absurd hl hnl, fun hq => (by rw [htl] at hq; cases hq),
                  fun hq => absurd hq hpk, fun hq => absurd hq hsimple, fun hl => absurd hl hnl⟩
                · -- a method keeps its name and its flags in front of the block
                  have q2' : MS X none s4.tree := by rw [ht4]; exact q2
                  apply q2'.detach h4.tree.wf hl4 hP4s _ hl5 sp5 hNx5 hFi5
                  intro m hmo ho4 _ _
                  subst hmo
                  have ho : (slot s.tree m).opcode = opMethod := (g04.mK m hc).1 ho4
                  have hsh := hms m hc ho (by intro hq; cases hq) (hu.notSelf w hc ho)
                  obtain ⟨p1, p2, n1, n2⟩ := hsh.parents w hc
                  obtain ⟨v, l1, l2, _⟩ := hsh
                  have hmINV : m ≠ INV := live_ne_INV w.size_le hc
                  have hnT : ¬ T4 m → False := fun hq => hq (Or.inl (Or.inl rfl))
                  -- first argument: unchanged by the fresh block, by the append (there were arguments), by the loop
                  have hfim : Fi sm.tree m = Fi s.tree m := by unfold Fi; rw [fm.old m (fm.ne hc)]
                  have hlam : La sm.tree m ≠ INV := by
                    intro hq
                    have : La s.tree m = INV := by
                      have : La sm.tree m = La s.tree m := by unfold La; rw [fm.old m (fm.ne hc)]
                      rw [← this]; exact hq
                    exact n1 ((w.lP hc).ends.2 this)
                  have hfi2 : Fi s2.tree m = Fi s.tree m := by
                    rw [hFi2, if_neg (fun hq => hlam (by rw [← ht1]; exact hq.2)), ht1]; exact hfim
                  have hfi4 : Fi s4.tree m = Fi s.tree m := by
                    rw [ht4, g3.fiK m hc2 (by show ¬ (m = topOf s2); rw [htop2]; exact hcs), hfi2]
                  have hnx2 : Nx s2.tree (Fi s.tree m) = Nx s.tree (Fi s.tree m) := by
                    have hne1 : Fi s.tree m ≠ scope := fun e => by rw [e, hns] at l1; cases l1
                    rw [hNx2, if_neg hne1]
                    have hnxm : Nx sm.tree (Fi s.tree m) = Nx s.tree (Fi s.tree m) := by unfold Nx; rw [fm.old _ (fm.ne l1)]
                    split
                    · rename_i hq
                      exfalso
                      have := ((h1.tree.wf.lP hc1).la hq.2).2
                      rw [← hq.1, ht1, hnxm] at this
                      exact n2 this
                    · rw [ht1]; exact hnxm
                  have hl1_2 : live s2.tree (Fi s.tree m) = true := g2.oldLive _ l1
                  have hp1_2 : C13.P s2.tree (Fi s.tree m) = m := by rw [g2.oldP _ l1]; exact p1
                  have hnx4 : Nx s4.tree (Fi s.tree m) = Nx s.tree (Fi s.tree m) := by
                    rw [ht4, (g3.kidK _ hl1_2 (by rw [hp1_2]; exact hmINV) (by
                      rw [hp1_2]; show ¬ (m = topOf s2); rw [htop2]; exact hcs)).1, hnx2]
                  rw [hfi4, hnx4]
                  exact ⟨fun e => (by rw [← e, hns] at l1; cases l1), fun e => (by rw [← e, hns] at l2; cases l2)⟩
                · intro a ha
                  cases ha
                  refine ⟨hns, by rw [hl5]; exact hl4, ?_⟩
                  rw [hP5, if_pos rfl]
            · rw [if_neg htl]
              have hnmc : (slot s.tree curObj).opcode ≠ opMethod := by
                intro ho
                rcases hmeth ho with hq | hq
                · exact hnl hq
                · exact htl hq
              refine (ih.target hS hms (hu.toINV w) (hb.mono (by omega)) (need_arg_tgt hf)).mono ?_
              intro a s' ⟨⟨h', g', hsz', hok'⟩, hret⟩
              refine ⟨⟨h', (g'.mono w (fun x _ hT => False.elim hT)).weaken (by omega), hsz', hok'⟩, hret,
                fun hl => absurd hl hnl, ?_, fun hq => absurd hq hpk, fun hq => absurd hq hsimple, fun hl => absurd hl hnl⟩
              intro hq; rw [hq] at hsimple; exact absurd (by decide) hsimple

/-- `parseArgs(info, curObj, argOffset)` from argument `j` in the strict mode -/
theorem args_stepT {d : Bytes} {f : Nat} (ih : STP X d f) {s : PState}
    (info curObj j : Nat) (hS : SP d s) (hc : live s.tree curObj = true) (hinfo : InfoOK info) (hrow : rowFacts info = true)
    (hj : j ≤ argCnt info) (hb : Bud d (2 * (7 - j)) s) (hatt : Att s info curObj) (hprev : PrevOK s info curObj j)
    (hmsx : MSx X s info curObj j) (hu : UnF X s curObj)
    (hcons : (slot s.tree curObj).opcode = opMethod → info = methodInfo) (hpar : ParNM s curObj)
    (hf : nArgs (rem d s) j ≤ f + 1) :
    TPs (parseArgs d (f + 1) info curObj j) s (fun res s' =>
      PostS d (TCur s curObj) (2 * (7 - j)) s s' (res ≠ .failed) (MS X none s'.tree)) := by
  have h := hS.fp
  have w := h.tree.wf
  unfold parseArgs
  rw [opArgCount_of_info hinfo]
  refine TPs.step (optP_ex _ s) ?_
  have hcnt := rowFacts_cnt hrow
  by_cases hlt : j < argCnt info
  · rw [if_pos hlt, opArg_of_info hinfo j]
    refine TPs.step (optP_ex _ s) ?_
    have hj8 : j < 8 := by omega
    have hfl : argAt info j = argTypeFieldList → C13.P s.tree curObj ≠ INV ∧ live s.tree (La s.tree curObj) = true ∧
        ∃ v, (slot s.tree (La s.tree curObj)).value = .u64 v := by
      intro hq
      obtain ⟨q1, q2⟩ := rowFacts_fl hrow hj8 hq
      obtain ⟨q3, q4⟩ := hprev q1 q2
      refine ⟨?_, q3, q4⟩
      rcases hatt with hp | hno
      · exact hp
      · exact absurd hq (noFL_at hno hj8)
    -- the exception of the method invariant while the name and the flags of a method are read
    let ex : Option Nat := if info = methodInfo ∧ j < 3 then some curObj else none
    have hmsex : MS X ex s.tree := by
      show MS X (if info = methodInfo ∧ j < 3 then some curObj else none) s.tree
      split
      · exact hmsx.toSome
      · rename_i hq
        unfold MSx at hmsx
        split at hmsx
        · rename_i hi
          exact hmsx.2.2 (by
            have : ¬ j < 3 := fun h3 => hq ⟨hi, h3⟩
            omega)
        · exact hmsx
    have hleafM : info = methodInfo → j < 3 → Leaf (argAt info j) := by
      intro hi h3
      rw [hi]
      obtain ⟨_, a0, a1, a2, _⟩ := method_row
      have : j = 0 ∨ j = 1 ∨ j = 2 := by omega
      rcases this with hq | hq | hq <;> subst hq
      · exact Or.inr a0
      · exact Or.inl (by rw [a1]; decide)
      · exact Or.inl (by rw [a2]; decide)
    have hex : ¬ Leaf (argAt info j) → ex = none := by
      intro hnl
      show (if info = methodInfo ∧ j < 3 then some curObj else none) = none
      rw [if_neg (fun hq => hnl (hleafM hq.1 hq.2))]
    have hmeth : (slot s.tree curObj).opcode = opMethod → Leaf (argAt info j) ∨ argAt info j = argTypeTermList := by
      intro ho
      have hi := hcons ho
      rw [hi] at hlt ⊢
      exact method_arg_kinds hlt
    have := ih.arg info curObj (argAt info j) ex hS hc hinfo (hb.mono (by omega)) hfl hmsex hu hex hmeth hpar
      (need_args_arg hf hj8)
    refine TPs.bind this ?_
    intro ⟨a1, a2⟩ s1 ⟨⟨h1, g1, hsz1, hok1⟩, hret, hleaf, hbd, hpkn, hsim, hlf⟩
    dsimp only at hok1 hret hbd hpkn hsim hlf ⊢
    have hc1 : live s1.tree curObj = true := g1.oldLive _ hc
    -- the rest of the loop from a state `s2` in which the returned object is the last argument of `curObj`
    have cont : ∀ s2 : PState, FP d s2 → SGrow (TCur s curObj) 2 s s2 → s2.scopeStack = s1.scopeStack →
        (a2 ≠ .failed → MS X ex s2.tree) →
        (a2 = .ok → MSx X s2 info curObj (j + 1) ∧ PrevOK s2 info curObj (j + 1)) →
        TPs (if a2 = .ok then parseArgs d f info curObj (j + 1) else pure a2) s2 (fun res s' =>
          PostS d (TCur s curObj) (2 * (7 - j)) s s' (res ≠ .failed) (MS X none s'.tree)) := by
      intro s2 h2 g2 hsc2 hgu hnext
      by_cases hok : a2 = .ok
      · rw [if_pos hok]
        obtain ⟨hst1, _⟩ := hok1 (by rw [hok]; decide)
        obtain ⟨hmsx2, hprev2⟩ := hnext hok
        have hst2 : s2.scopeStack = s.scopeStack := by rw [hsc2, hst1]
        have hS2 : SP d s2 := hS.step h2 g2 (fun x hx => Or.inl (by rw [← hst2]; exact hx))
        have hc2 : live s2.tree curObj = true := g2.oldLive _ hc
        have hb2 : Bud d (2 * (7 - (j + 1))) s2 := by
          have := budS hb g2 h2.inv.1 (by omega)
          exact this.mono (by omega)
        have hP2 : C13.P s2.tree curObj = C13.P s.tree curObj := g2.oldP _ hc
        have hatt2 : Att s2 info curObj := by unfold Att at hatt ⊢; rw [hP2]; exact hatt
        have hcons2 : (slot s2.tree curObj).opcode = opMethod → info = methodInfo := fun hq => hcons ((g2.mK _ hc).1 hq)
        have hpar2 : ParNM s2 curObj := by
          unfold ParNM at hpar ⊢
          rw [hP2]
          rcases hpar with hq | hq
          · exact Or.inl hq
          · by_cases hpi : C13.P s.tree curObj = INV
            · exact Or.inl hpi
            · have hpl : live s.tree (C13.P s.tree curObj) = true := by
                rcases (w.lP hc).lp with h0 | h0
                · exact absurd h0 hpi
                · exact h0
              exact Or.inr (fun ho => hq ((g2.mK _ hpl).1 ho))
        have hu2 : UnF X s2 curObj := hu.grow g2 w h2.tree.wf h.tree.root (Or.inr hc)
        have := ih.args info curObj (j + 1) hS2 hc2 hinfo hrow (by omega) hb2 hatt2 hprev2 hmsx2 hu2 hcons2 hpar2
          (need_args_next hf (rem_le _ g2.off) hj8)
        refine this.mono ?_
        intro res s3 ⟨h3, g3, hsz3, hok3⟩
        have g3' : SGrow (TCur s curObj) (2 * (7 - (j + 1))) s2 s3 := by
          have : TCur s2 curObj = TCur s curObj := by unfold TCur; rw [hP2]
          rw [← this]; exact g3
        refine ⟨h3, ?_, by rw [← hst2]; exact hsz3, fun hq => ⟨by rw [(hok3 hq).1, hst2], (hok3 hq).2⟩⟩
        have := g2.trans g3'
        have hcc : 2 + 2 * (7 - (j + 1)) = 2 * (7 - j) := by omega
        rw [hcc] at this
        exact this
      · rw [if_neg hok]
        refine TPs.pure ⟨h2, g2.weaken (by omega), by rw [hsc2]; exact hsz1, fun hq => ⟨by rw [hsc2]; exact (hok1 hq).1, ?_⟩⟩
        have hm2 := hgu hq
        by_cases hcase : info = methodInfo ∧ j < 3
        · rcases hlf (hleafM hcase.1 hcase.2) with h0 | h0
          · exact absurd h0 hok
          · exact absurd h0 hq
        · have : ex = none := by
            show (if info = methodInfo ∧ j < 3 then some curObj else none) = none
            rw [if_neg hcase]
          rw [this] at hm2; exact hm2
    cases a1 with
    | none =>
      refine cont s1 h1 g1 rfl (fun hq => (hok1 hq).2) ?_
      intro hok
      obtain ⟨_, hms1⟩ := hok1 (by rw [hok]; decide)
      constructor
      · -- no object was returned: not a simple argument
        unfold MSx
        unfold MSx at hmsx
        split
        · rename_i hi
          rw [if_pos hi] at hmsx
          have hnsim : isSimpleArg (argAt info j) = true → False := fun hq => by
            obtain ⟨x, hx⟩ := hsim hq hok; cases hx
          obtain ⟨_, a0, a1', a2', _⟩ := method_row
          refine ⟨?_, ?_, ?_⟩
          · intro hj1
            have hj0 : j = 0 := by omega
            subst hj0
            have hl := hleaf (hleafM hi (by omega))
            obtain ⟨m0, f0, l0⟩ := hmsx.1 (by omega)
            have hms1' : MS X (some curObj) s1.tree := by
              have : ex = some curObj := by
                show (if info = methodInfo ∧ 0 < 3 then some curObj else none) = some curObj
                rw [if_pos ⟨hi, by omega⟩]
              rw [this] at hms1; exact hms1
            refine ⟨hms1', ?_, ?_⟩
            · unfold Fi; rw [hl curObj hc]; exact f0
            · unfold La; rw [hl curObj hc]; exact l0
          · intro hj2
            exfalso
            have hj1 : j = 1 := by omega
            subst hj1
            exact hnsim (by rw [hi, a1']; decide)
          · intro hj3
            have hj23 : j = 2 ∨ 3 ≤ j := by omega
            rcases hj23 with hj2 | hj3'
            · exfalso
              subst hj2
              exact hnsim (by rw [hi, a2']; decide)
            · have : ex = none := by
                show (if info = methodInfo ∧ j < 3 then some curObj else none) = none
                rw [if_neg (fun hq => by omega)]
              rw [this] at hms1; exact hms1
        · rename_i hi
          have : ex = none := by
            show (if info = methodInfo ∧ j < 3 then some curObj else none) = none
            rw [if_neg (fun hq => hi hq.1)]
          rw [this] at hms1; exact hms1
      · intro _ hq
        have hq' : argAt info j = argTypeByteData := hq
        obtain ⟨x, _, hx, _⟩ := hbd hq' hok
        cases hx
    | some x =>
      obtain ⟨q1, q2, q3⟩ := hret x rfl
      obtain ⟨s2, e2, h2, hs2, hsz2, sp2, hl2, hP2, hLa2, hNx2, hFi2⟩ :=
        append_step h1 w (fun y hy => ⟨g1.oldLive y hy, g1.oldP y hy⟩) hc q1 q2 q3
      refine TPs.step e2 ?_
      have g2 : SGrow (TCur s curObj) 2 s s2 := g1.thenAppend hs2 hsz2 hl2 hP2 q1 (Or.inl (Or.inl rfl)) h1.tree.wf hc1 sp2 hNx2 hFi2
      refine cont s2 h2 g2 (by rw [hs2]) (fun hq => (hok1 hq).2.append h1.tree.wf q3 hc1 hl2 sp2 hNx2 hFi2) ?_
      intro hok
      obtain ⟨_, hms1⟩ := hok1 (by rw [hok]; decide)
      have hms2 : MS X ex s2.tree := hms1.append h1.tree.wf q3 hc1 hl2 sp2 hNx2 hFi2
      have hx2 : live s2.tree x = true := by rw [hl2]; exact q2
      constructor
      · unfold MSx
        unfold MSx at hmsx
        split
        · rename_i hi
          rw [if_pos hi] at hmsx
          obtain ⟨_, a0, a1', a2', _⟩ := method_row
          have hnpk : argAt info j ≠ argTypePkgLen := fun hq => by have := hpkn hq; cases this
          have hj0 : j ≠ 0 := fun hq => hnpk (by rw [hq, hi]; exact a0)
          refine ⟨fun hj1 => by omega, ?_, ?_⟩
          · intro hj2
            have hj1 : j = 1 := by omega
            subst hj1
            have hl := hleaf (hleafM hi (by omega))
            obtain ⟨_, f0, l0⟩ := hmsx.1 (by omega)
            have hla1 : La s1.tree curObj = INV := by unfold La; rw [hl curObj hc]; exact l0
            have hexs : ex = some curObj := by
              show (if info = methodInfo ∧ 1 < 3 then some curObj else none) = some curObj
              rw [if_pos ⟨hi, by omega⟩]
            rw [hexs] at hms2
            refine ⟨hms2, ?_, ?_⟩
            · rw [hLa2, hFi2, if_pos ⟨rfl, hla1⟩]
            · rw [hFi2, if_pos ⟨rfl, hla1⟩]; exact hx2
          · intro hj3
            have hj23 : j = 2 ∨ 3 ≤ j := by omega
            rcases hj23 with hj2 | hj3'
            · subst hj2
              have hl := hleaf (hleafM hi (by omega))
              obtain ⟨_, lf, lv⟩ := hmsx.2.1 rfl
              have hexs : ex = some curObj := by
                show (if info = methodInfo ∧ 2 < 3 then some curObj else none) = some curObj
                rw [if_pos ⟨hi, by omega⟩]
              rw [hexs] at hms2
              have hla1 : La s1.tree curObj = La s.tree curObj := by unfold La; rw [hl curObj hc]
              have hfi1 : Fi s1.tree curObj = Fi s.tree curObj := by unfold Fi; rw [hl curObj hc]
              have hc1INV : Fi s.tree curObj ≠ INV := live_ne_INV w.size_le lv
              obtain ⟨y, v, hy, hv⟩ := hbd (by rw [hi]; exact a2') hok
              cases hy
              apply hms2.close
              have hfi2 : Fi s2.tree curObj = Fi s.tree curObj := by
                rw [hFi2, if_neg (fun hq => hc1INV (by rw [← lf, ← hla1]; exact hq.2)), hfi1]
              have hnx2 : Nx s2.tree (Fi s.tree curObj) = x := by
                have hne : Fi s.tree curObj ≠ x := fun e => by rw [← e, lv] at q1; cases q1
                rw [hNx2, if_neg hne, if_pos ⟨by rw [hla1, lf], by rw [hla1, lf]; exact hc1INV⟩]
              refine ⟨v, ?_, ?_, ?_⟩
              · rw [hfi2]; exact g2.oldLive _ lv
              · rw [hfi2, hnx2]; exact hx2
              · rw [hfi2, hnx2, samePay_value sp2]; exact hv
            · have : ex = none := by
                show (if info = methodInfo ∧ j < 3 then some curObj else none) = none
                rw [if_neg (fun hq => by omega)]
              rw [this] at hms2; exact hms2
        · rename_i hi
          have : ex = none := by
            show (if info = methodInfo ∧ j < 3 then some curObj else none) = none
            rw [if_neg (fun hq => hi hq.1)]
          rw [this] at hms2; exact hms2
      · intro _ hq
        have hq' : argAt info j = argTypeByteData := hq
        obtain ⟨y, v, hy, hv⟩ := hbd hq' hok
        cases hy
        rw [hLa2]
        exact ⟨hx2, v, by rw [samePay_value sp2]; exact hv⟩
  · rw [if_neg hlt]
    refine TPs.pure ⟨h, (SGrow.refl s).weaken (Nat.zero_le _), Nat.le_refl _, fun _ => ⟨rfl, ?_⟩⟩
    have hje : j = argCnt info := by omega
    unfold MSx at hmsx
    split at hmsx
    · rename_i hi
      apply hmsx.2.2
      rw [hje, hi, method_row.1]
      omega
    · exact hmsx

/-- `parseObjectArgs(curObj)` in the strict mode -/
theorem objArgs_stepT {d : Bytes} {f : Nat} (ih : STP X d f) {s : PState} (curObj : Nat) (hS : SP d s)
    (hc : live s.tree curObj = true) (hrow : rowFacts (slot s.tree curObj).infoIndex = true)
    (hatt : Att s (slot s.tree curObj).infoIndex curObj) (hb : Bud d 14 s)
    (hmsx : MSx X s (slot s.tree curObj).infoIndex curObj 0) (hu : UnF X s curObj)
    (hcons : (slot s.tree curObj).opcode = opMethod → (slot s.tree curObj).infoIndex = methodInfo) (hpar : ParNM s curObj)
    (hf : nOA (rem d s) ≤ f + 1) :
    TPs (parseObjectArgs d (f + 1) curObj) s (fun res s' =>
      PostS d (TCur s curObj) 14 s s' (res ≠ .failed) (MS X none s'.tree)) := by
  have h := hS.fp
  have w := h.tree.wf
  unfold parseObjectArgs
  refine TPs.step (getObj_live hc) ?_
  -- a constant: only the value of `curObj` changes
  have pay : ∀ {res : PRes} {s' : PState}, (slot s.tree curObj).opcode ≠ opMethod → FP d s' → PayOnly curObj s s' →
      PostS d (TCur s curObj) 14 s s' ((if res = PRes.shortCircuit then PRes.ok else res) ≠ .failed) (MS X none s'.tree) := by
    intro res s' hnm h' hp
    refine ⟨h', (SGrow.ofPay hp (Or.inr (Or.inr rfl)) (Or.inl rfl) hc).weaken (by omega), by rw [hp.scope]; exact Nat.le_refl _,
      fun _ => ⟨hp.scope, ?_⟩⟩
    exact (hmsx.toSome.ofSome hnm).pay w hp hpar
  have num : ∀ n, (slot s.tree curObj).opcode ≠ opMethod →
      TPs (setNumValue d curObj n >>= fun res => (pure (if res = PRes.shortCircuit then PRes.ok else res) : P PRes)) s
        (fun res s' => PostS d (TCur s curObj) 14 s s' (res ≠ .failed) (MS X none s'.tree)) := by
    intro n hnm
    obtain ⟨res, s', e, h', hp, _, _⟩ := setNumValue_tot h hc n
    exact TPs.step e (TPs.pure (pay hnm h' hp))
  split
  · rename_i ho; exact num 1 (by rw [ho]; decide)
  · split
    · rename_i ho; exact num 2 (by rw [ho]; decide)
    · split
      · rename_i ho; exact num 4 (by rw [ho]; decide)
      · split
        · rename_i ho; exact num 8 (by rw [ho]; decide)
        · split
          · rename_i ho
            obtain ⟨res, s', e, h', hp, _, _⟩ := setStringValue_tot h hc
            exact TPs.step e (TPs.pure (pay (by rw [ho]; decide) h' hp))
          · have hinfo := h.tree.info curObj hc
            obtain ⟨fl, hfl⟩ := opFlags_of_info hinfo
            rw [hfl]
            refine TPs.step (optP_ex fl s) ?_
            have := ih.args (slot s.tree curObj).infoIndex curObj 0 hS hc hinfo hrow (Nat.zero_le _)
              (hb.mono (by omega)) hatt (fun h0 => by omega) hmsx hu hcons hpar (need_oa_args hf)
            refine TPs.bind this ?_
            intro res s' ⟨h', g', hsz', hok'⟩
            refine TPs.pure ⟨h', g', hsz', fun hq => hok' ?_⟩
            intro hf
            rw [hf] at hq
            exact hq (by decide)

/-- the strict-mode functions never end in `.panic`, for every amount of fuel -/
theorem stp {d : Bytes} (hd : d.size + 268435456 ≤ 4294967296) (f : Nat) : STP X d f := by
  induction f with
  | zero =>
    refine ⟨?_, ?_, ?_, ?_, ?_, ?_, ?_, ?_, ?_⟩
    · intro s _ _ _ _ _ hf; unfold nNext at hf; omega
    · intro s _ _ _ _ _ hf; unfold nNP at hf; omega
    · intro s _ _ _ _ _ hf; unfold nTL nNext at hf; omega
    · intro s n _ _ _ _ _ hf; unfold nMA nNext at hf; omega
    · intro s c _ _ _ _ _ _ _ _ _ hf; unfold nOA nArg at hf; omega
    · intro s i c j _ _ _ _ _ _ _ _ _ _ _ _ hf; unfold nArgs nArg at hf; omega
    · intro s i c a ex _ _ _ _ _ _ _ _ _ _ hf; unfold nArg at hf; omega
    · intro s c _ _ _ _ _ _ hf; unfold nStrict at hf; omega
    · intro s _ _ _ _ hf; unfold nTgt at hf; omega
  | succ f ih =>
    exact ⟨fun hS hms hu hne hb hf => next_stepT hd ih hS hms hu hne hb hf,
      fun hS hms hu hne hb hf => namePath_stepT hd ih hS hms hu hne hb hf,
      fun hS hms hu hne hb hf => termList_stepT ih hS hms hu hne hb hf,
      fun n hS hms hu hne hb hf => methodArgs_stepT ih n hS hms hu hne hb hf,
      fun c hS hc hrow hatt hb hmsx hu hcons hpar hf => objArgs_stepT ih c hS hc hrow hatt hb hmsx hu hcons hpar hf,
      fun i c j hS hc hinfo hrow hj hb hatt hprev hmsx hu hcons hpar hf => args_stepT ih i c j hS hc hinfo hrow hj hb hatt hprev hmsx hu hcons hpar hf,
      fun i c a ex hS hc hinfo hb hfl hms hu hex hmeth hpar hf => arg_stepT hd ih i c a ex hS hc hinfo hb hfl hms hu hex hmeth hpar hf,
      fun c hS hc hnm hms hu hb hf => strictTermArg_stepT hd ih c hS hc hnm hms hu hb hf,
      fun hS hms hu hb hf => target_stepT hd ih hS hms hu hb hf⟩

/-- **One deferred block.**  From a state with a well-formed tree in which every `Method` has its flags and no
`Method` is on the scope stack, `parseDeferred(obj)` — the strict re-parse of the arguments of a deferred object —
never ends in `.panic`; whatever it returns, the tree is well formed again, the objects that existed are still
there under the same parents, and on success every `Method` (including the ones the block declared) has its
flags and the scope stack is as before. -/
theorem parseDeferred_tot {d : Bytes} (hd : d.size + 268435456 ≤ 4294967296) (fuel : Nat) {s : PState} (obj : Nat)
    (h : FP d s) (hnm : StackNM s) (hms : MS X none s.tree) (hu : UnF X s obj) (hobj : BlockOK s obj)
    (hbud : s.tree.pool.size + 16 * d.size + 16 ≤ INV) (hfuel : 16 * d.size + 15 ≤ fuel) :
    TPs (parseDeferred d fuel obj) s (fun res s' => FP d s' ∧
      (∀ x, live s.tree x = true → live s'.tree x = true ∧ C13.P s'.tree x = C13.P s.tree x) ∧
      (res = .ok → MS X none s'.tree ∧ s'.scopeStack = s.scopeStack)) := by
  have hd' : d.size + 1024 ≤ 4294967296 := by omega
  unfold parseDeferred
  refine TPs.step (getObj_live hobj.live) ?_
  refine TPs.step (a := ()) (s1 := { s with allBlocks := true }) rfl ?_
  generalize hs1 : ({ s with allBlocks := true } : PState) = s1
  have ht1 : s1.tree = s.tree := by rw [← hs1]
  have hsc1 : s1.scopeStack = s.scopeStack := by rw [← hs1]
  have h1 : FP d s1 := by rw [← hs1]; exact ⟨h.inv, h.tree, h.scopes⟩
  have hab1 : s1.allBlocks = true := by rw [← hs1]
  refine TPs.step (a := s1.streamEnd) (s1 := s1) rfl ?_
  obtain ⟨_, s2, e2, h2, _, hs2⟩ := lex_step (rel_setPkgEnd d s1.streamEnd) h1
  refine TPs.step e2 ?_
  obtain ⟨_, s3, e3, h3, _, hs3⟩ := lex_step (rel_setOffset d (u32 ((slot s.tree obj).amlOffset + 1))) h2
  refine TPs.step e3 ?_
  have hs3' : s3 = { s1 with r := s3.r } := by rw [hs3, hs2]
  -- the state in which the arguments are parsed: the tree and the stacks of `s`, the reader inside the table
  have main : ∀ s4 : PState, FP d s4 → s4 = { s1 with r := s4.r } →
      TPs (do
        if (← parseObjectArgs d fuel obj) ≠ .ok then pure .failed else do
        popAllPkgEnds d ((← stackSizes).1 + 1)
        pure PRes.ok : P PRes) s4 (fun res s' => FP d s' ∧
          (∀ x, live s.tree x = true → live s'.tree x = true ∧ C13.P s'.tree x = C13.P s.tree x) ∧
          (res = .ok → MS X none s'.tree ∧ s'.scopeStack = s.scopeStack)) := by
    intro s4 h4 hs4
    have ht4 : s4.tree = s.tree := by rw [hs4]; exact ht1
    have hsc4 : s4.scopeStack = s.scopeStack := by rw [hs4]; exact hsc1
    have hS4 : SP d s4 := by
      refine ⟨h4, by rw [hs4]; exact hab1, ?_⟩
      intro x hx
      rw [ht4]; exact hnm x (by rw [← hsc4]; exact hx)
    have hb4 : Bud d 14 s4 := by
      unfold Bud; rw [ht4]
      have := h4.inv.1
      omega
    have hmsx : MSx X s4 (slot s4.tree obj).infoIndex obj 0 := by
      unfold MSx
      rw [ht4, if_neg hobj.notMethod.2]
      exact hms
    have := (stp (X := X) hd fuel).objArgs (s := s4) obj hS4 (by rw [ht4]; exact hobj.live) (by rw [ht4]; exact hobj.row)
      (Or.inl (by rw [ht4]; exact hobj.attached)) hb4 hmsx (hu.ofTree ht4) (fun hq => by rw [ht4] at hq; exact absurd hq hobj.notMethod.1)
      (Or.inr (by rw [ht4]; exact hobj.parent)) (by unfold nOA nArg rem; omega)
    refine TPs.bind this ?_
    intro res s5 ⟨h5, g5, _, hok5⟩
    have hold : ∀ x, live s.tree x = true → live s5.tree x = true ∧ C13.P s5.tree x = C13.P s.tree x := by
      intro x hx
      have hx4 : live s4.tree x = true := by rw [ht4]; exact hx
      exact ⟨g5.oldLive x hx4, by rw [g5.oldP x hx4, ht4]⟩
    by_cases hres : res = .ok
    · rw [if_neg (fun hq => hq hres)]
      refine TPs.step (a := (s5.pkgEndStack.size, s5.scopeStack.size)) (s1 := s5) rfl ?_
      obtain ⟨_, s6, e6, h6, ht6, hsc6⟩ := popAllPkgEnds_ex (s5.pkgEndStack.size + 1) h5
      refine TPs.step e6 (TPs.pure ⟨h6, fun x hx => by rw [ht6]; exact hold x hx, fun _ => ?_⟩)
      obtain ⟨q1, q2⟩ := hok5 (by rw [hres]; decide)
      exact ⟨by rw [ht6]; exact q2, by rw [hsc6, q1, hsc4]⟩
    · rw [if_pos hres]
      exact TPs.pure ⟨h5, hold, fun hq => by cases hq⟩
  split
  · obtain ⟨_, s4, e4, h4, _, hs4⟩ := lex_step (rel_readByte d) h3
    refine TPs.step e4 ?_
    exact main s4 h4 (by rw [hs4, hs3'])
  · exact main s3 h3 hs3'


end Firefly.AmlParser.ST
