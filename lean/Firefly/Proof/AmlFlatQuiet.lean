import Firefly.Proof.AmlFlatConnect
/-!
C11, the flat fragment: the tree walks that find nothing to do on the pool of a table of `Name(NAME, integer)`
declarations — `mergeScopeDirectives`, `relocateNamedObjects`, `parseDeferredBlocks`, `resolveMethodCalls`,
`connectNonNamedObjArgs` return `ok` and leave the pool as it is.
-/
namespace Firefly.AmlParser.F
open Firefly.AmlLex Firefly.AmlTree Firefly.C13 Firefly.AmlParser Firefly.AmlParser.G Firefly.AmlParser.S
open Firefly.Gen.C12 Firefly.AmlProg

/-- with fuel `N` or more, on every state that holds the pool `t` and the table handle `h`, the walk returns `ok` and
leaves both as they are -/
def QuietAt (t : ObjectTree) (h : Nat) (run : Nat → P PRes) (N : Nat) : Prop :=
  ∀ f s, N ≤ f → s.tree = t → s.tableHandle = h → ∃ s', run f s = .ok (PRes.ok, s') ∧ s'.tree = t ∧ s'.tableHandle = h

/-! ## `mergeScopeDirectives` -/

/-- not executable, and not a `Scope` directive of this table -/
def MergeSkip (t : ObjectTree) (h y : Nat) : Prop :=
  ∃ fl, opFlags (slot t y).infoIndex = some fl ∧ hasFlag fl flagExecutable = false ∧
    ¬ ((slot t y).opcode = opScope ∧ (slot t y).tableHandle = h)

theorem merge_loop (d : Bytes) {t : ObjectTree} {h : Nat} (w : WF t) (N : Nat) :
    ∀ (l : List Nat) (a f : Nat) (s : PState), Chain t (Nx t) a l → s.tree = t → s.tableHandle = h →
      (∀ y ∈ l, QuietAt t h (fun f => mergeScopeDirectives d f y) N) → l.length + N + 1 ≤ f →
      ∃ s', mergeLoop d f a PRes.ok s = .ok (PRes.ok, s') ∧ s'.tree = t ∧ s'.tableHandle = h := by
  intro l
  induction l with
  | nil =>
    intro a f s hc ht hh _ hf
    obtain ⟨f', rfl⟩ : ∃ f', f = f' + 1 := ⟨f - 1, by omega⟩
    have : a = invalidIndex := hc
    refine ⟨s, ?_, ht, hh⟩
    rw [mergeLoop, if_pos this]
    rfl
  | cons y ys ih =>
    intro a f s hc ht hh hq hf
    obtain ⟨f', rfl⟩ : ∃ f', f = f' + 1 := ⟨f - 1, by omega⟩
    obtain ⟨rfl, hyl, hc'⟩ := hc
    have hyl' : live s.tree a = true := by rw [ht]; exact hyl
    obtain ⟨s1, e1, ht1, hh1⟩ := hq a (List.mem_cons_self ..) f' s (by simp at hf; omega) ht hh
    obtain ⟨s2, e2, ht2, hh2⟩ := ih (Nx t a) f' s1 hc' ht1 hh1 (fun z hz => hq z (List.mem_cons_of_mem _ hz)) (by simp at hf; omega)
    refine ⟨s2, ?_, ht2, hh2⟩
    rw [mergeLoop, if_neg (show ¬ a = invalidIndex from live_ne_INV w.size_le hyl)]
    rw [bind_run (objectAt_live' hyl'), bind_run (derefP_some_ex _), bind_run (getObj_live hyl')]
    have hidx : (slot s.tree a).index = a := by rw [ht]; exact w.index_eq a (live_lt hyl)
    rw [hidx, bind_run e1]
    have hnx : (slot s.tree a).nextSiblingIndex = Nx t a := by rw [ht]; rfl
    rw [hnx]
    exact e2

theorem merge_node (d : Bytes) {t : ObjectTree} {h : Nat} (w : WF t) {x : Nat} (hx : live t x = true) (hg : MergeSkip t h x)
    (N : Nat) (hq : ∀ y ∈ K t x, QuietAt t h (fun f => mergeScopeDirectives d f y) N) :
    QuietAt t h (fun f => mergeScopeDirectives d f x) ((K t x).length + N + 2) := by
  intro f s hf ht hh
  obtain ⟨f', rfl⟩ : ∃ f', f = f' + 1 := ⟨f - 1, by omega⟩
  obtain ⟨fl, hfl, hex, hns⟩ := hg
  have hx' : live s.tree x = true := by rw [ht]; exact hx
  show ∃ s', mergeScopeDirectives d (f' + 1) x s = _ ∧ _
  rw [mergeScopeDirectives, bind_run (objectAt_live' hx'), bind_run (derefP_some_ex _), bind_run (getObj_live hx')]
  -- the reset of the counter at the root
  have key : ∀ s0 : PState, s0.tree = t → s0.tableHandle = h →
      ∃ s', (optP (opFlags (slot s.tree x).infoIndex) >>= fun flags =>
        if hasFlag flags flagExecutable = true then pure PRes.ok
        else do
          let th ← tableHandle
          if (slot s.tree x).opcode = opScope ∧ (slot s.tree x).tableHandle = th then
            (if (slot s.tree x).firstArgIndex = invalidIndex then pure PRes.failed else do
              match ← mergeScope d f' x with
              | .inl res => pure res
              | .inr firstArgIndex => mergeLoop d f' firstArgIndex .ok)
          else mergeLoop d f' (slot s.tree x).firstArgIndex .ok) s0 = .ok (PRes.ok, s') ∧ s'.tree = t ∧ s'.tableHandle = h := by
    intro s0 ht0 hh0
    rw [ht, hfl, bind_run (optP_ex fl s0), hex]
    simp only [Bool.false_eq_true, ↓reduceIte]
    rw [bind_run (tableHandle_ex s0), hh0, if_neg hns]
    exact merge_loop d w N (K t x) (Fi t x) f' s0 (w.kids_chain hx) ht0 hh0 hq (by omega)
  by_cases h0 : x = 0
  · subst h0
    rw [if_pos rfl]
    have em : (modify fun s => { s with mergedScopes := 0 } : P Unit) s = .ok ((), { s with mergedScopes := 0 }) := rfl
    rw [bind_run em]
    exact key _ ht hh
  · rw [if_neg h0]
    exact key s ht hh

/-! ## `relocateNamedObjects` -/

/-- not executable; and not a named object of this table with arguments, or one whose name path is a single segment -/
def RelocSkip (t : ObjectTree) (h y : Nat) : Prop :=
  ∃ fl, opFlags (slot t y).infoIndex = some fl ∧ hasFlag fl flagExecutable = false ∧
    (¬ (hasFlag fl flagNamed = true ∧ (slot t y).firstArgIndex ≠ invalidIndex ∧ (slot t y).tableHandle = h ∧
        (slot t y).opcode ≠ opIntScopeBlock) ∨
      ∃ c off, Fi t y = c ∧ live t c = true ∧ (slot t c).value = .bytes off 4)

theorem reloc_loop (d : Bytes) {t : ObjectTree} {h : Nat} (w : WF t) (N : Nat) :
    ∀ (l : List Nat) (a f : Nat) (s : PState), Chain t (Nx t) a l → s.tree = t → s.tableHandle = h →
      (∀ y ∈ l, QuietAt t h (fun f => relocateNamedObjects d f y) N) → l.length + N + 1 ≤ f →
      ∃ s', relocateLoop d f a PRes.ok s = .ok (PRes.ok, s') ∧ s'.tree = t ∧ s'.tableHandle = h := by
  intro l
  induction l with
  | nil =>
    intro a f s hc ht hh _ hf
    obtain ⟨f', rfl⟩ : ∃ f', f = f' + 1 := ⟨f - 1, by omega⟩
    have : a = invalidIndex := hc
    refine ⟨s, ?_, ht, hh⟩
    rw [relocateLoop, if_pos this]
    rfl
  | cons y ys ih =>
    intro a f s hc ht hh hq hf
    obtain ⟨f', rfl⟩ : ∃ f', f = f' + 1 := ⟨f - 1, by omega⟩
    obtain ⟨rfl, hyl, hc'⟩ := hc
    have hyl' : live s.tree a = true := by rw [ht]; exact hyl
    obtain ⟨s1, e1, ht1, hh1⟩ := hq a (List.mem_cons_self ..) f' s (by simp at hf; omega) ht hh
    obtain ⟨s2, e2, ht2, hh2⟩ := ih (Nx t a) f' s1 hc' ht1 hh1 (fun z hz => hq z (List.mem_cons_of_mem _ hz)) (by simp at hf; omega)
    refine ⟨s2, ?_, ht2, hh2⟩
    rw [relocateLoop, if_neg (show ¬ a = invalidIndex from live_ne_INV w.size_le hyl)]
    rw [bind_run (objectAt_live' hyl'), bind_run (derefP_some_ex _), bind_run (getObj_live hyl')]
    have hidx : (slot s.tree a).index = a := by rw [ht]; exact w.index_eq a (live_lt hyl)
    rw [hidx, bind_run e1]
    have hnx : (slot s.tree a).nextSiblingIndex = Nx t a := by rw [ht]; rfl
    rw [hnx]
    exact e2

theorem reloc_node (d : Bytes) {t : ObjectTree} {h : Nat} (w : WF t) {x : Nat} (hx : live t x = true) (hg : RelocSkip t h x)
    (N : Nat) (hq : ∀ y ∈ K t x, QuietAt t h (fun f => relocateNamedObjects d f y) N) :
    QuietAt t h (fun f => relocateNamedObjects d f x) ((K t x).length + N + 2) := by
  intro f s hf ht hh
  obtain ⟨f', rfl⟩ : ∃ f', f = f' + 1 := ⟨f - 1, by omega⟩
  obtain ⟨fl, hfl, hex, hns⟩ := hg
  have hx' : live s.tree x = true := by rw [ht]; exact hx
  show ∃ s', relocateNamedObjects d (f' + 1) x s = _ ∧ _
  rw [relocateNamedObjects, bind_run (objectAt_live' hx'), bind_run (derefP_some_ex _), bind_run (getObj_live hx')]
  have hfl' : opFlags (slot s.tree x).infoIndex = some fl := by rw [ht]; exact hfl
  rw [hfl', bind_run (optP_ex fl s)]
  have key : ∀ s0 : PState, s0.tree = t → s0.tableHandle = h →
      ∃ s', (if hasFlag fl flagExecutable = true then pure PRes.ok
        else do
          let th ← tableHandle
          if hasFlag fl flagNamed = true ∧ (slot s.tree x).firstArgIndex ≠ invalidIndex ∧ (slot s.tree x).tableHandle = th ∧
              (slot s.tree x).opcode ≠ opIntScopeBlock then do
            match ← relocateNamed d f' x with
            | .inl res => pure res
            | .inr _ => do relocateLoop d f' (← getObj x).firstArgIndex .ok
          else relocateLoop d f' (slot s.tree x).firstArgIndex .ok : P PRes) s0 = .ok (PRes.ok, s') ∧ s'.tree = t ∧ s'.tableHandle = h := by
    intro s0 ht0 hh0
    have hx0 : live s0.tree x = true := by rw [ht0]; exact hx
    rw [hex]
    simp only [Bool.false_eq_true, ↓reduceIte]
    rw [bind_run (tableHandle_ex s0), hh0, ht]
    have loop := reloc_loop d w N (K t x) (Fi t x) f' s0 (w.kids_chain hx) ht0 hh0 hq (by omega)
    by_cases hc : hasFlag fl flagNamed = true ∧ (slot t x).firstArgIndex ≠ invalidIndex ∧ (slot t x).tableHandle = h ∧
        (slot t x).opcode ≠ opIntScopeBlock
    · rw [if_pos hc]
      rcases hns with hn | ⟨c, off, hfi, hcl, hval⟩
      · exact absurd hc hn
      · have hc0 : live s0.tree c = true := by rw [ht0]; exact hcl
        have er : relocateNamed d f' x s0 = .ok (.inr (), s0) := by
          unfold relocateNamed
          rw [bind_run (getObj_live hx0)]
          have : (slot s0.tree x).firstArgIndex = c := by rw [ht0]; exact hfi
          rw [this, bind_run (objectAt_live' hc0), bind_run (derefP_some_ex _), bind_run (getObj_live hc0)]
          have : (slot s0.tree c).value = .bytes off 4 := by rw [ht0]; exact hval
          rw [this]
          simp only [valBytes]
          rw [if_neg (by decide)]
          rfl
        rw [bind_run er]
        simp only
        rw [bind_run (getObj_live hx0)]
        have : (slot s0.tree x).firstArgIndex = Fi t x := by rw [ht0]; rfl
        rw [this]
        exact loop
    · rw [if_neg hc]
      exact loop
  by_cases h0 : x = 0
  · subst h0
    rw [if_pos rfl]
    have em : (modify fun s => { s with relocatedObjects := 0 } : P Unit) s = .ok ((), { s with relocatedObjects := 0 }) := rfl
    rw [bind_run em]
    exact key _ ht hh
  · rw [if_neg h0]
    exact key s ht hh

/-! ## `parseDeferredBlocks` -/

/-- no deferred block -/
def DeferSkip (t : ObjectTree) (y : Nat) : Prop :=
  ∃ fl, opFlags (slot t y).infoIndex = some fl ∧ hasFlag fl flagDeferParsing = false

theorem defer_loop (d : Bytes) (fuel : Nat) {t : ObjectTree} {h : Nat} (w : WF t) (N : Nat) :
    ∀ (l : List Nat) (a f : Nat) (s : PState), Chain t (Nx t) a l → s.tree = t → s.tableHandle = h →
      (∀ y ∈ l, QuietAt t h (fun f => parseDeferredBlocks d fuel f y) N) → l.length + N + 1 ≤ f →
      ∃ s', deferredLoop d fuel f a s = .ok (PRes.ok, s') ∧ s'.tree = t ∧ s'.tableHandle = h := by
  intro l
  induction l with
  | nil =>
    intro a f s hc ht hh _ hf
    obtain ⟨f', rfl⟩ : ∃ f', f = f' + 1 := ⟨f - 1, by omega⟩
    have : a = invalidIndex := hc
    refine ⟨s, ?_, ht, hh⟩
    rw [deferredLoop, if_pos this]
    rfl
  | cons y ys ih =>
    intro a f s hc ht hh hq hf
    obtain ⟨f', rfl⟩ : ∃ f', f = f' + 1 := ⟨f - 1, by omega⟩
    obtain ⟨rfl, hyl, hc'⟩ := hc
    obtain ⟨s1, e1, ht1, hh1⟩ := hq a (List.mem_cons_self ..) f' s (by simp at hf; omega) ht hh
    have hyl1 : live s1.tree a = true := by rw [ht1]; exact hyl
    obtain ⟨s2, e2, ht2, hh2⟩ := ih (Nx t a) f' s1 hc' ht1 hh1 (fun z hz => hq z (List.mem_cons_of_mem _ hz)) (by simp at hf; omega)
    refine ⟨s2, ?_, ht2, hh2⟩
    rw [deferredLoop, if_neg (show ¬ a = invalidIndex from live_ne_INV w.size_le hyl)]
    rw [bind_run e1, if_neg (by decide)]
    rw [bind_run (objectAt_live' hyl1), bind_run (derefP_some_ex _), bind_run (nextOf_ex hyl1), ht1]
    exact e2

theorem defer_node (d : Bytes) (fuel : Nat) {t : ObjectTree} {h : Nat} (w : WF t) {x : Nat} (hx : live t x = true)
    (hg : DeferSkip t x) (N : Nat) (hq : ∀ y ∈ K t x, QuietAt t h (fun f => parseDeferredBlocks d fuel f y) N) :
    QuietAt t h (fun f => parseDeferredBlocks d fuel f x) ((K t x).length + N + 2) := by
  intro f s hf ht hh
  obtain ⟨f', rfl⟩ : ∃ f', f = f' + 1 := ⟨f - 1, by omega⟩
  obtain ⟨fl, hfl, hdf⟩ := hg
  have hx' : live s.tree x = true := by rw [ht]; exact hx
  show ∃ s', parseDeferredBlocks d fuel (f' + 1) x s = _ ∧ _
  rw [parseDeferredBlocks, bind_run (objectAt_live' hx'), bind_run (derefP_some_ex _), bind_run (getObj_live hx')]
  have hfl' : opFlags (slot s.tree x).infoIndex = some fl := by rw [ht]; exact hfl
  rw [hfl', bind_run (optP_ex fl s), bind_run (tableHandle_ex s), hdf]
  rw [if_neg (by intro hq; cases hq.1)]
  have : (slot s.tree x).firstArgIndex = Fi t x := by rw [ht]; rfl
  rw [this]
  exact defer_loop d fuel w N (K t x) (Fi t x) f' s (w.kids_chain hx) ht hh hq (by omega)

/-! ## `resolveMethodCalls` -/

theorem resolve_loop (d : Bytes) {t : ObjectTree} {h p : Nat} (w : WF t) (hp : live t p = true) (N : Nat) :
    ∀ (n : Nat) (l rest : List Nat) (f : Nat) (s : PState), l.length = n → K t p = l ++ rest → s.tree = t → s.tableHandle = h →
      (∀ y ∈ l, QuietAt t h (fun f => resolveMethodCalls d f y) N ∧ (slot t y).opcode ≠ opIntNamePathOrMethodCall) →
      n + N + 1 ≤ f →
      ∃ s', resolveLoop d f p (lastOf l) s = .ok (PRes.ok, s') ∧ s'.tree = t ∧ s'.tableHandle = h := by
  intro n
  induction n with
  | zero =>
    intro l rest f s hn _ ht hh _ hf
    have : l = [] := List.eq_nil_of_length_eq_zero hn
    subst this
    obtain ⟨f', rfl⟩ : ∃ f', f = f' + 1 := ⟨f - 1, by omega⟩
    refine ⟨s, ?_, ht, hh⟩
    rw [show lastOf [] = INV from rfl, resolveLoop, if_pos inv_eq]
    rfl
  | succ n ih =>
    intro l rest f s hn hk ht hh hq hf
    rcases list_snoc_cases l with e | ⟨l', y, e⟩
    · rw [e] at hn; cases hn
    · subst e
      obtain ⟨f', rfl⟩ : ∃ f', f = f' + 1 := ⟨f - 1, by omega⟩
      obtain ⟨hqy, hop⟩ := hq y (by simp)
      have hyl : live t y = true := ((K_mem w hp y).1 (by rw [hk]; simp)).1
      have hyl' : live s.tree y = true := by rw [ht]; exact hyl
      obtain ⟨s1, e1, ht1, hh1⟩ := hqy f' s (by omega) ht hh
      have hyl1 : live s1.tree y = true := by rw [ht1]; exact hyl
      have hpv : Pv t y = lastOf l' := pv_of_kids w hp (pre := l') (post := rest) (by rw [hk]; simp)
      obtain ⟨s2, e2, ht2, hh2⟩ := ih l' (y :: rest) f' s1 (by simpa using hn) (by rw [hk]; simp) ht1 hh1
        (fun z hz => hq z (by simp [hz])) (by omega)
      refine ⟨s2, ?_, ht2, hh2⟩
      rw [lastOf_snoc, resolveLoop, if_neg (show ¬ y = invalidIndex from live_ne_INV w.size_le hyl)]
      rw [bind_run (objectAt_live' hyl'), bind_run (derefP_some_ex _), bind_run (getObj_live hyl')]
      have hidx : (slot s.tree y).index = y := by rw [ht]; exact w.index_eq y (live_lt hyl)
      rw [hidx, bind_run e1, if_neg (by decide)]
      have estep : resolveStep d p y s1 = .ok (true, s1) := by
        unfold resolveStep
        rw [bind_run (getObj_live hyl1), bind_run (tableHandle_ex s1)]
        rw [if_pos (Or.inl (by rw [ht1]; exact hop))]
        rfl
      rw [bind_run estep]
      simp only [Bool.not_true, Bool.false_eq_true, ↓reduceIte]
      rw [bind_run (prevOf_ex hyl1), ht1, hpv]
      exact e2

theorem resolve_node (d : Bytes) {t : ObjectTree} {h : Nat} (w : WF t) {x : Nat} (hx : live t x = true) (N : Nat)
    (hq : ∀ y ∈ K t x, QuietAt t h (fun f => resolveMethodCalls d f y) N ∧ (slot t y).opcode ≠ opIntNamePathOrMethodCall) :
    QuietAt t h (fun f => resolveMethodCalls d f x) ((K t x).length + N + 2) := by
  intro f s hf ht hh
  obtain ⟨f', rfl⟩ : ∃ f', f = f' + 1 := ⟨f - 1, by omega⟩
  have hx' : live s.tree x = true := by rw [ht]; exact hx
  show ∃ s', resolveMethodCalls d (f' + 1) x s = _ ∧ _
  rw [resolveMethodCalls, bind_run (objectAt_live' hx'), bind_run (derefP_some_ex _), bind_run (getObj_live hx')]
  have : (slot s.tree x).lastArgIndex = lastOf (K t x) := by rw [ht]; exact la_eq_lastOf w hx
  rw [this]
  exact resolve_loop d w hx N (K t x).length (K t x) [] f' s rfl (by simp) ht hh hq (by omega)

/-! ## `connectNonNamedObjArgs` -/

/-- a named object, or one without term arguments -/
def CnnSkip (t : ObjectTree) (y : Nat) : Prop :=
  ∃ fl, opFlags (slot t y).infoIndex = some fl ∧
    (hasFlag fl flagNamed = true ∨
      ∃ ac, opArgCount (slot t y).infoIndex = some ac ∧ InfoOK (slot t y).infoIndex ∧
        ∀ k, k < ac → argAt (slot t y).infoIndex k ≠ argTypeTermArg ∧ argAt (slot t y).infoIndex k ≠ argTypeDataRefObj)

theorem cnn_loop {t : ObjectTree} {h p : Nat} (w : WF t) (hp : live t p = true) (N : Nat) :
    ∀ (n : Nat) (l rest : List Nat) (f : Nat) (s : PState), l.length = n → K t p = l ++ rest → s.tree = t → s.tableHandle = h →
      (∀ y ∈ l, QuietAt t h (fun f => connectNonNamedObjArgs f y) N ∧ CnnSkip t y) →
      n + N + 1 ≤ f →
      ∃ s', connectNonNamedLoop f p (lastOf l) s = .ok (PRes.ok, s') ∧ s'.tree = t ∧ s'.tableHandle = h := by
  intro n
  induction n with
  | zero =>
    intro l rest f s hn _ ht hh _ hf
    have : l = [] := List.eq_nil_of_length_eq_zero hn
    subst this
    obtain ⟨f', rfl⟩ : ∃ f', f = f' + 1 := ⟨f - 1, by omega⟩
    refine ⟨s, ?_, ht, hh⟩
    rw [show lastOf [] = INV from rfl, connectNonNamedLoop, if_pos inv_eq]
    rfl
  | succ n ih =>
    intro l rest f s hn hk ht hh hq hf
    rcases list_snoc_cases l with e | ⟨l', y, e⟩
    · rw [e] at hn; cases hn
    · subst e
      obtain ⟨f', rfl⟩ : ∃ f', f = f' + 1 := ⟨f - 1, by omega⟩
      obtain ⟨hqy, fl, hfl, hg⟩ := hq y (by simp)
      have hyl : live t y = true := ((K_mem w hp y).1 (by rw [hk]; simp)).1
      have hyl' : live s.tree y = true := by rw [ht]; exact hyl
      obtain ⟨s1, e1, ht1, hh1⟩ := hqy f' s (by omega) ht hh
      have hyl1 : live s1.tree y = true := by rw [ht1]; exact hyl
      have hpv : Pv t y = lastOf l' := pv_of_kids w hp (pre := l') (post := rest) (by rw [hk]; simp)
      obtain ⟨s2, e2, ht2, hh2⟩ := ih l' (y :: rest) f' s1 (by simpa using hn) (by rw [hk]; simp) ht1 hh1
        (fun z hz => hq z (by simp [hz])) (by omega)
      refine ⟨s2, ?_, ht2, hh2⟩
      rw [lastOf_snoc, connectNonNamedLoop, if_neg (show ¬ y = invalidIndex from live_ne_INV w.size_le hyl)]
      rw [bind_run (objectAt_live' hyl'), bind_run (derefP_some_ex _), bind_run (getObj_live hyl')]
      have hidx : (slot s.tree y).index = y := by rw [ht]; exact w.index_eq y (live_lt hyl)
      rw [hidx, bind_run e1, if_neg (by decide)]
      have estep : connectNonNamedStep p y s1 = .ok (true, s1) := by
        unfold connectNonNamedStep
        rw [bind_run (getObj_live hyl1), ht1, hfl, bind_run (optP_ex fl s1), bind_run (tableHandle_ex s1)]
        rcases hg with hnm | ⟨ac, hac, hi, hno⟩
        · rw [if_pos (Or.inl hnm)]; rfl
        · by_cases hc : hasFlag fl flagNamed = true ∨ (slot t y).tableHandle ≠ s1.tableHandle
          · rw [if_pos hc]; rfl
          · rw [if_neg hc, hac, bind_run (optP_ex ac s1)]
            rw [bind_run (firstTermArg_noTerm hi ac hno ac 0 s1 (by omega))]
            rw [bind_run (numArgs_kids (by rw [ht1]; exact w) hyl1)]
            rw [if_pos (Or.inl (Nat.le_refl _))]
            rfl
      rw [bind_run estep]
      simp only [Bool.not_true, Bool.false_eq_true, ↓reduceIte]
      rw [bind_run (prevOf_ex hyl1), ht1, hpv]
      exact e2

theorem cnn_node {t : ObjectTree} {h : Nat} (w : WF t) {x : Nat} (hx : live t x = true) (N : Nat)
    (hq : ∀ y ∈ K t x, QuietAt t h (fun f => connectNonNamedObjArgs f y) N ∧ CnnSkip t y) :
    QuietAt t h (fun f => connectNonNamedObjArgs f x) ((K t x).length + N + 2) := by
  intro f s hf ht hh
  obtain ⟨f', rfl⟩ : ∃ f', f = f' + 1 := ⟨f - 1, by omega⟩
  have hx' : live s.tree x = true := by rw [ht]; exact hx
  show ∃ s', connectNonNamedObjArgs (f' + 1) x s = _ ∧ _
  rw [connectNonNamedObjArgs, bind_run (objectAt_live' hx'), bind_run (derefP_some_ex _), bind_run (getObj_live hx')]
  have : (slot s.tree x).lastArgIndex = lastOf (K t x) := by rw [ht]; exact la_eq_lastOf w hx
  rw [this]
  exact cnn_loop w hx N (K t x).length (K t x) [] f' s rfl (by simp) ht hh hq (by omega)

/-! ## the walks on the pool of the fragment -/

theorem QuietAt.mono {t : ObjectTree} {h : Nat} {run : Nat → P PRes} {N N' : Nat} (q : QuietAt t h run N) (hn : N ≤ N') :
    QuietAt t h run N' := fun f s hf ht hh => q f s (by omega) ht hh

/-- the guards of the five walks at one object -/
structure Guards (t : ObjectTree) (h y : Nat) : Prop where
  merge : MergeSkip t h y
  reloc : RelocSkip t h y
  defer : DeferSkip t y
  op : (slot t y).opcode ≠ opIntNamePathOrMethodCall
  cnn : CnnSkip t y

/-- a walk that recurses through the child lists and is quiet at every object whose guard holds: it is quiet on the whole
pool of the fragment (root, old scope blocks, `Name` objects with their two childless arguments) -/
theorem walk_flat {d : Bytes} {t0 t : ObjectTree} {h : Nat} {its : List Item} (fl : Flat d t0 t h [] its) (b : Base t0)
    (W : Nat → Nat → P PRes) (G : Nat → Prop)
    (node : ∀ x N, live t x = true → G x → (∀ y ∈ K t x, QuietAt t h (fun f => W f y) N ∧ G y) →
      QuietAt t h (fun f => W f x) ((K t x).length + N + 2))
    (g0 : G 0) (gold : ∀ y ∈ K t0 0, G y) (gx : ∀ it ∈ its, G it.x ∧ G it.c ∧ G it.k) :
    QuietAt t h (fun f => W f 0) ((K t0 0).length + its.length + 8) := by
  obtain ⟨h0, _⟩ := fl.root b
  have leaf : ∀ y, live t y = true → K t y = [] → G y → QuietAt t h (fun f => W f y) 2 := by
    intro y hy hk hg
    have := node y 0 hy hg (by rw [hk]; intro z hz; cases hz)
    rw [hk] at this
    exact this
  have hx : ∀ it ∈ its, QuietAt t h (fun f => W f it.x) 6 := by
    intro it hit
    have io := fl.done it hit
    obtain ⟨g1, g2, g3⟩ := gx it hit
    have hk : K t it.x = [it.c, it.k] := io.kx
    have := node it.x 2 io.lx g1 (by
      rw [hk]
      intro z hz
      simp only [List.mem_cons, List.mem_nil_iff, or_false] at hz
      rcases hz with e | e
      · rw [e]; exact ⟨leaf _ io.lc io.kc g2, g2⟩
      · rw [e]; exact ⟨leaf _ io.lk io.kk g3, g3⟩)
    rw [hk] at this
    exact this
  have hk0 : K t 0 = K t0 0 ++ its.map (·.x) := by rw [fl.ktop]; simp
  have := node 0 6 h0 g0 (by
    rw [hk0]
    intro z hz
    rcases List.mem_append.1 hz with hz | hz
    · obtain ⟨a1, a2, _, _, _⟩ := fl.oldKid b hz
      exact ⟨(leaf z a1 a2 (gold z hz)).mono (by omega), gold z hz⟩
    · obtain ⟨it, hit, e⟩ := List.mem_map.1 hz
      rw [← e]
      exact ⟨hx it hit, (gx it hit).1⟩)
  rw [hk0, List.length_append, List.length_map] at this
  exact this

theorem guards_sb {t : ObjectTree} {h y : Nat} (hop : (slot t y).opcode = opIntScopeBlock)
    (hinf : (slot t y).infoIndex = pOpcodeTableIndex opIntScopeBlock true) : Guards t h y := by
  obtain ⟨fl, a1, a2, a3, a4, _⟩ := rowSummary_spec row_502
  have a1' : opFlags (slot t y).infoIndex = some fl := by rw [hinf]; exact a1
  refine ⟨⟨fl, a1', a3, ?_⟩, ⟨fl, a1', a3, Or.inl ?_⟩, ⟨fl, a1', a4⟩, ?_, ⟨fl, a1', Or.inl a2⟩⟩
  · rw [hop]; intro hq; exact absurd hq.1 (by decide)
  · intro hq; exact hq.2.2.2 hop
  · rw [hop]; decide

theorem guards_x {t : ObjectTree} {h x c off : Nat} (hop : (slot t x).opcode = 8)
    (hinf : (slot t x).infoIndex = pOpcodeTableIndex 8 true) (hfi : Fi t x = c) (hc : live t c = true)
    (hv : (slot t c).value = .bytes off 4) : Guards t h x := by
  obtain ⟨fl, a1, a2, a3, a4, _⟩ := rowSummary_spec row_8
  have a1' : opFlags (slot t x).infoIndex = some fl := by rw [hinf]; exact a1
  refine ⟨⟨fl, a1', a3, ?_⟩, ⟨fl, a1', a3, Or.inr ⟨c, off, hfi, hc, hv⟩⟩, ⟨fl, a1', a4⟩, ?_, ⟨fl, a1', Or.inl a2⟩⟩
  · rw [hop]; intro hq; exact absurd hq.1 (by decide)
  · rw [hop]; decide

theorem guards_c {t : ObjectTree} {h c : Nat} (hop : (slot t c).opcode = opIntNamePath)
    (hinf : (slot t c).infoIndex = pOpcodeTableIndex opIntNamePath true) : Guards t h c := by
  obtain ⟨fl, a1, a2, a3, a4, a5, a6, _, _⟩ := rowSummary_spec row_507
  have a1' : opFlags (slot t c).infoIndex = some fl := by rw [hinf]; exact a1
  refine ⟨⟨fl, a1', a3, ?_⟩, ⟨fl, a1', a3, Or.inl ?_⟩, ⟨fl, a1', a4⟩, ?_, ⟨fl, a1', Or.inr ⟨0, ?_, ?_, ?_⟩⟩⟩
  · rw [hop]; intro hq; exact absurd hq.1 (by decide)
  · intro hq; rw [a2] at hq; cases hq.1
  · rw [hop]; decide
  · rw [hinf]; exact a5
  · rw [hinf]; exact a6
  · intro k hk; omega

theorem guards_k {t : ObjectTree} {h k w v : Nat} (hop : (slot t k).opcode = constOp w v)
    (hinf : (slot t k).infoIndex = pOpcodeTableIndex (constOp w v) true) : Guards t h k := by
  obtain ⟨fl, ac, a1, a2, a3, a4, a5, a6, _, a8⟩ := const_row w v
  have a1' : opFlags (slot t k).infoIndex = some fl := by rw [hinf]; exact a1
  have hne : (slot t k).opcode ≠ opScope ∧ (slot t k).opcode ≠ opIntNamePathOrMethodCall := by
    rw [hop]
    rcases constOp_cases w v with e | e | e | e | e | e | e <;> rw [e] <;> decide
  refine ⟨⟨fl, a1', a3, fun hq => hne.1 hq.1⟩, ⟨fl, a1', a3, Or.inl ?_⟩, ⟨fl, a1', a4⟩, hne.2,
    ⟨fl, a1', Or.inr ⟨ac, by rw [hinf]; exact a5, by rw [hinf]; exact a6, by rw [hinf]; exact a8⟩⟩⟩
  intro hq; rw [a2] at hq; cases hq.1

/-- the guards hold at every object of the pool of the fragment -/
theorem Flat.guards {d : Bytes} {t0 t : ObjectTree} {h : Nat} {its : List Item} (fl : Flat d t0 t h [] its) (b : Base t0) :
    Guards t h 0 ∧ (∀ y ∈ K t0 0, Guards t h y) ∧ ∀ it ∈ its, Guards t h it.x ∧ Guards t h it.c ∧ Guards t h it.k := by
  refine ⟨?_, ?_, ?_⟩
  · obtain ⟨_, a2, _, _⟩ := fl.old 0 b.root
    exact guards_sb (by rw [pay_opcode a2]; exact b.rootop) (by rw [pay_info a2]; exact b.rootinf)
  · intro y hy
    obtain ⟨_, _, a3, a4, _⟩ := fl.oldKid b hy
    exact guards_sb a3 a4
  · intro it hit
    have io := fl.done it hit
    have hk : K t it.x = [it.c, it.k] := io.kx
    exact ⟨guards_x io.opx io.infx (first_of_kids fl.wf io.lx hk) io.lc io.valc, guards_c io.opc io.infc, guards_k io.opk io.infk⟩

/-- **the five walks are quiet on the pool of the fragment** -/
theorem walks_flat (d : Bytes) (fuel : Nat) {t0 t : ObjectTree} {h : Nat} {its : List Item} (fl : Flat d t0 t h [] its) (b : Base t0) :
    QuietAt t h (fun f => mergeScopeDirectives d f 0) ((K t0 0).length + its.length + 8) ∧
    QuietAt t h (fun f => relocateNamedObjects d f 0) ((K t0 0).length + its.length + 8) ∧
    QuietAt t h (fun f => parseDeferredBlocks d fuel f 0) ((K t0 0).length + its.length + 8) ∧
    QuietAt t h (fun f => resolveMethodCalls d f 0) ((K t0 0).length + its.length + 8) ∧
    QuietAt t h (fun f => connectNonNamedObjArgs f 0) ((K t0 0).length + its.length + 8) := by
  obtain ⟨g0, gold, gx⟩ := fl.guards b
  have w := fl.wf
  refine ⟨?_, ?_, ?_, ?_, ?_⟩
  · exact walk_flat fl b (fun f y => mergeScopeDirectives d f y) (fun y => MergeSkip t h y)
      (fun x N hx hg hq => merge_node d w hx hg N (fun y hy => (hq y hy).1)) g0.merge (fun y hy => (gold y hy).merge)
      (fun it hit => ⟨(gx it hit).1.merge, (gx it hit).2.1.merge, (gx it hit).2.2.merge⟩)
  · exact walk_flat fl b (fun f y => relocateNamedObjects d f y) (fun y => RelocSkip t h y)
      (fun x N hx hg hq => reloc_node d w hx hg N (fun y hy => (hq y hy).1)) g0.reloc (fun y hy => (gold y hy).reloc)
      (fun it hit => ⟨(gx it hit).1.reloc, (gx it hit).2.1.reloc, (gx it hit).2.2.reloc⟩)
  · exact walk_flat fl b (fun f y => parseDeferredBlocks d fuel f y) (fun y => DeferSkip t y)
      (fun x N hx hg hq => defer_node d fuel w hx hg N (fun y hy => (hq y hy).1)) g0.defer (fun y hy => (gold y hy).defer)
      (fun it hit => ⟨(gx it hit).1.defer, (gx it hit).2.1.defer, (gx it hit).2.2.defer⟩)
  · exact walk_flat fl b (fun f y => resolveMethodCalls d f y) (fun y => (slot t y).opcode ≠ opIntNamePathOrMethodCall)
      (fun x N hx _ hq => resolve_node d w hx N hq) g0.op (fun y hy => (gold y hy).op)
      (fun it hit => ⟨(gx it hit).1.op, (gx it hit).2.1.op, (gx it hit).2.2.op⟩)
  · exact walk_flat fl b (fun f y => connectNonNamedObjArgs f y) (fun y => CnnSkip t y)
      (fun x N hx _ hq => cnn_node w hx N hq) g0.cnn (fun y hy => (gold y hy).cnn)
      (fun it hit => ⟨(gx it hit).1.cnn, (gx it hit).2.1.cnn, (gx it hit).2.2.cnn⟩)

end Firefly.AmlParser.F
